/-
  Hoare-style reasoning for the client response reader (Model/ClientParse.lean): an invariant
  `Good` on the decoder/client state that every parser preserves, whatever the input; "never
  panics" is part of the triple.
-/
import GoImap.Model.ClientParse
import GoImap.Spec.NumSet
import GoImap.Lemmas.NumSetOps
import GoImap.Lemmas.NumSetNums
import GoImap.Lemmas.NumSetParse
namespace GoImap.ClientParse
open GoImap

/-- a result set as the client may hand it over: canonical and without "*" -/
def StaticSet (s : NumSet.Set) : Prop := NumSet.Canon s ∧ NumSet.dynamic s = false

theorem static_nil : StaticSet [] := ⟨trivial, rfl⟩

theorem static_addNum (s : NumSet.Set) (n : Nat) (h : StaticSet s) (h0 : n ≠ 0) (hW : n < NumSet.W) :
    StaticSet (NumSet.addNum s n) := by
  have hc : NumSet.Canon (NumSet.insert s ⟨n, n⟩) := NumSet.insert_canon s _ h.1 (NumSet.num_wf n hW)
  refine ⟨hc, ?_⟩
  unfold NumSet.addNum
  rw [NumSet.dynamic_eq_any _ 0 hc, NumSet.insert_any s _ h.1 (NumSet.num_wf n hW) 0 (by decide),
    ← NumSet.dynamic_eq_any s 0 h.1, h.2]
  simp [NumSet.Range.contains, h0]

theorem canon_of_parseSet (t : List Char) (s : NumSet.Set) (h : NumSet.parseSet t = some s) : NumSet.Canon s := by
  unfold NumSet.parseSet at h
  obtain ⟨h1, h2⟩ := NumSet.parseItems_sound (NumSet.splitOn ',' t) [] trivial
  cases hm : (NumSet.splitOn ',' t).mapM NumSetSpec.seqItem with
  | none => rw [h1 hm] at h; cases h
  | some items =>
    obtain ⟨s', hs', hc, _⟩ := h2 items hm
    rw [hs'] at h
    cases h
    exact hc

/-- what must hold of the client state at every moment -/
structure GoodCS (cs : CS) : Prop where
  /-- every message number handed over is a non-zero 32-bit number -/
  nz : ∀ n ∈ cs.delivered, n ≠ 0 ∧ n < NumSet.W
  all : ∀ u s, cs.sAll = some (u, s) → StaticSet s
  src : ∀ s, cs.src = some s → StaticSet s
  dst : ∀ s, cs.dst = some s → StaticSet s
  /-- the trees handed over so far, and the one of the FETCH response being read -/
  dd : cs.deliveredDepth ≤ maxListDepth
  cur : cs.cur.bodyDepth ≤ maxListDepth

def Good (d : Dec) : Prop := GoodCS d.cs ∧ d.maxDepth ≤ maxListDepth

/-- what a result must satisfy: good state on success and on failure, `Q` of the value, no panic -/
def Post {α : Type} (Q : α → Prop) : Res α → Prop
  | .ok a d' => Good d' ∧ Q a
  | .err d' => Good d'
  | .panic => False
  | .unmod => True
  | .nofuel => True

/-- `Tr p Q`: from a good state `p` never panics, leaves a good state whether it succeeds or
    fails, and a value it returns satisfies `Q`. -/
structure Tr {α : Type} (p : P α) (Q : α → Prop) : Prop where
  run : ∀ d, Good d → Post Q (p d)

abbrev Tr' {α : Type} (p : P α) : Prop := Tr p (fun _ => True)

theorem tr_pure {α} (a : α) (Q : α → Prop) (h : Q a) : Tr (pure a : P α) Q := by
  constructor; intro d hd; exact ⟨hd, h⟩

theorem tr_fail {α} (Q : α → Prop) : Tr (fail : P α) Q := by
  constructor; intro d hd; exact hd

theorem tr_unmod {α} (Q : α → Prop) : Tr (unmodelled : P α) Q := by
  constructor; intro d _; trivial

theorem tr_nofuel {α} (Q : α → Prop) : Tr (outOfFuel : P α) Q := by
  constructor; intro d _; trivial

theorem bind_eq {α β} (p : P α) (f : α → P β) (d : Dec) : (p >>= f) d = P.bind p f d := rfl

theorem tr_bind {α β} {p : P α} {f : α → P β} {Q : α → Prop} {R : β → Prop}
    (hp : Tr p Q) (hf : ∀ a, Q a → Tr (f a) R) : Tr (p >>= f) R := by
  constructor
  intro d hd
  have h1 := hp.run d hd
  rw [bind_eq]
  unfold P.bind
  cases hpd : p d with
  | ok a d' =>
    rw [hpd] at h1
    exact (hf a h1.2).run d' h1.1
  | err d' => rw [hpd] at h1; exact h1
  | panic => rw [hpd] at h1; exact h1
  | unmod => trivial
  | nofuel => trivial

theorem tr_weaken {α} {p : P α} {Q Q' : α → Prop} (hp : Tr p Q) (h : ∀ a, Q a → Q' a) : Tr p Q' := by
  constructor
  intro d hd
  have h1 := hp.run d hd
  cases hpd : p d with
  | ok a d' => rw [hpd] at h1; exact ⟨h1.1, h a h1.2⟩
  | err d' => rw [hpd] at h1; exact h1
  | panic => rw [hpd] at h1; exact h1
  | unmod => trivial
  | nofuel => trivial

theorem tr_ite {α} {c : Prop} [Decidable c] {p q : P α} {Q : α → Prop} (hp : Tr p Q) (hq : Tr q Q) :
    Tr (if c then p else q) Q := by
  split <;> assumption

/-- a parser that only touches the decoder's reading state preserves `Good` -/
theorem good_frame {d d' : Dec} (h : Good d) (hcs : d'.cs = d.cs) (hm : d'.maxDepth = d.maxDepth) : Good d' := by
  unfold Good at *
  rw [hcs, hm]; exact h

theorem tr_expect (b : Bool) : Tr' (expect b) := by
  unfold expect
  cases b
  · exact tr_fail _
  · exact tr_pure _ _ trivial

/-! ### primitives -/

theorem tr_readByte : Tr' readByte := by
  constructor
  intro d hd
  unfold readByte
  cases h : d.inp with
  | nil => exact ⟨good_frame hd rfl rfl, trivial⟩
  | cons b r => exact ⟨good_frame hd rfl rfl, trivial⟩

theorem tr_acceptByte (w : UInt8) : Tr' (acceptByte w) := by
  constructor
  intro d hd
  unfold acceptByte
  rw [bind_eq]
  unfold P.bind readByte
  cases h : d.inp with
  | nil => exact ⟨good_frame hd rfl rfl, trivial⟩
  | cons b r =>
    simp only []
    by_cases hb : (b == w) = true
    · simp only [hb, if_true]; exact ⟨good_frame hd rfl rfl, trivial⟩
    · have hb' : (b == w) = false := by simpa using hb
      simp only [hb', Bool.false_eq_true, ↓reduceIte]
      rw [bind_eq]
      unfold P.bind unreadByte
      simp only [if_true]
      exact ⟨good_frame hd rfl rfl, trivial⟩

theorem tr_peekByte : Tr' peekByte := by
  constructor
  intro d hd
  unfold peekByte
  rw [bind_eq]
  unfold P.bind readByte
  cases h : d.inp with
  | nil => exact ⟨good_frame hd rfl rfl, trivial⟩
  | cons b r =>
    simp only []
    rw [bind_eq]
    unfold P.bind unreadByte
    simp only [if_true]
    exact ⟨good_frame hd rfl rfl, trivial⟩

/-- a parser given as a state transformer that keeps the client state and the depth ghost -/
theorem tr_frame {α} (p : P α) (h : ∀ d, match p d with
    | .ok _ d' => d'.cs = d.cs ∧ d'.maxDepth = d.maxDepth
    | .err d' => d'.cs = d.cs ∧ d'.maxDepth = d.maxDepth
    | .panic => False | .unmod => True | .nofuel => True) : Tr' p := by
  constructor
  intro d hd
  have := h d
  cases hp : p d with
  | ok a d' => rw [hp] at this; exact ⟨good_frame hd this.1 this.2, trivial⟩
  | err d' => rw [hp] at this; exact good_frame hd this.1 this.2
  | panic => rw [hp] at this; exact this
  | unmod => trivial
  | nofuel => trivial

theorem tr_func (v : UInt8 → Bool) : Tr' (func v) := by
  apply tr_frame
  intro d
  unfold func
  cases h : (spanB v d.inp []) with
  | mk tk rest =>
    cases rest with
    | nil => exact ⟨rfl, rfl⟩
    | cons b r => exact ⟨rfl, rfl⟩

theorem tr_quotedRest : Tr' quotedRest := by
  apply tr_frame
  intro d
  unfold quotedRest
  cases h : quotedBody d.inp [] 0 with
  | none => exact ⟨rfl, rfl⟩
  | some x => obtain ⟨s, rest, n⟩ := x; exact ⟨rfl, rfl⟩

theorem tr_literalData (n : Nat) : Tr' (literalData n) := by
  apply tr_frame; intro d; exact ⟨rfl, rfl⟩

theorem tr_softFail {α} : Tr' (softFail : P (Option α)) := by
  apply tr_frame; intro d; exact ⟨rfl, rfl⟩

theorem tr_badLiteral : Tr' badLiteral := by
  apply tr_frame; intro d; exact ⟨rfl, rfl⟩

theorem tr_getCS : Tr' getCS := by
  apply tr_frame; intro d; exact ⟨rfl, rfl⟩

theorem tr_modifyCS (f : CS → CS) (h : ∀ cs, GoodCS cs → GoodCS (f cs)) : Tr' (modifyCS f) := by
  constructor
  intro d hd
  exact ⟨⟨h _ hd.1, hd.2⟩, trivial⟩

theorem tr_bind' {α β} {p : P α} {f : α → P β} {R : β → Prop}
    (hp : Tr' p) (hf : ∀ a, Tr (f a) R) : Tr (p >>= f) R :=
  tr_bind hp (fun a _ => hf a)

/-- entering a level below the limit keeps the depth ghost within the limit, and the new
    level is below the limit again -/
theorem tr_enter (depth : Nat) (h : depth < maxListDepth) :
    Tr (enter depth) (fun dp => dp = depth + 1 ∧ dp < maxListDepth) := by
  constructor
  intro d hd
  unfold enter
  simp only []
  have hm : max d.maxDepth (depth + 1) ≤ maxListDepth := Nat.max_le.2 ⟨hd.2, h⟩
  by_cases c : depth + 1 ≥ maxListDepth
  · simp only [c, if_true]; exact ⟨hd.1, hm⟩
  · simp only [c, if_false]; exact ⟨⟨hd.1, hm⟩, rfl, by omega⟩

theorem tr_bind_enter {β} {depth : Nat} {f : Nat → P β} {R : β → Prop} (h : depth < maxListDepth)
    (hf : ∀ dp, dp < maxListDepth → Tr (f dp) R) : Tr (enter depth >>= f) R :=
  tr_bind (tr_enter depth h) (fun dp hdp => hf dp hdp.2)

theorem tr_finally {α} {p : P α} {Q : α → Prop} (h : CS → CS) (hp : Tr p Q)
    (hh : ∀ cs, GoodCS cs → GoodCS (h cs)) : Tr (finally' p h) Q := by
  constructor
  intro d hd
  have h1 := hp.run d hd
  unfold finally'
  cases hpd : p d with
  | ok a d' => rw [hpd] at h1; exact ⟨⟨hh _ h1.1.1, h1.1.2⟩, h1.2⟩
  | err d' => rw [hpd] at h1; exact ⟨hh _ h1.1, h1.2⟩
  | panic => rw [hpd] at h1; exact h1
  | unmod => trivial
  | nofuel => trivial

/-- closes `Tr` goals of parsers built from binds, conditionals and matches out of parsers
    whose triples are among the hypotheses or the given lemmas -/
syntax "tr_auto" ("[" term,* "]")? : tactic
macro_rules
  | `(tactic| tr_auto) => `(tactic| tr_auto [])
  | `(tactic| tr_auto [$ls,*]) => `(tactic|
    repeat' (first
      | intro _
      | exact tr_pure _ _ trivial
      | exact tr_fail _
      | exact tr_unmod _
      | exact tr_nofuel _
      | assumption
      | exact tr_expect _
      | exact tr_acceptByte _
      | exact tr_peekByte
      | exact tr_func _
      | exact tr_quotedRest
      | exact tr_literalData _
      | exact tr_softFail
      | exact tr_badLiteral
      | exact tr_getCS
      | (first $[| exact $ls]*)
      | (first $[| apply $ls]*)
      | apply tr_bind_enter
      | apply tr_bind'
      | split))

theorem tr_pure' {α} (a : α) : Tr' (pure a : P α) := tr_pure _ _ trivial

/-- like `tr_auto`, but keeps the facts about the values sub-parsers return (as hypotheses) and
    proves the postcondition of a returned value by linear arithmetic from them -/
syntax "tr_autoq" ("[" term,* "]")? : tactic
macro_rules
  | `(tactic| tr_autoq) => `(tactic| tr_autoq [])
  | `(tactic| tr_autoq [$ls,*]) => `(tactic|
    repeat' (first
      | intro _
      | exact tr_fail _
      | exact tr_unmod _
      | exact tr_nofuel _
      | assumption
      | exact tr_expect _
      | exact tr_acceptByte _
      | exact tr_peekByte
      | exact tr_func _
      | exact tr_getCS
      | (first $[| exact $ls]*)
      | (first $[| apply $ls]*)
      | exact tr_pure' _
      | exact tr_pure _ _ (by first | exact True.intro | assumption | omega | (dsimp only at *; omega))
      | apply tr_bind
      | split))

theorem tr_special (w : UInt8) : Tr' (special w) := tr_acceptByte w

theorem tr_expectSpecial (w : UInt8) : Tr' (expectSpecial w) := by
  unfold expectSpecial; tr_auto [tr_special]

theorem tr_sp : Tr' sp := by
  unfold sp; tr_auto

theorem tr_expectSP : Tr' expectSP := by unfold expectSP; tr_auto [tr_sp]

theorem tr_crlf : Tr' crlf := by unfold crlf; tr_auto

theorem tr_expectCRLF : Tr' expectCRLF := by unfold expectCRLF; tr_auto [tr_crlf]

theorem tr_atom : Tr' atom := tr_func _
theorem tr_text : Tr' text := tr_func _
theorem tr_numberStr : Tr' numberStr := tr_func _

theorem tr_expectAtom : Tr' expectAtom := by unfold expectAtom; tr_auto [tr_atom]

theorem tr_discardUntilByte (u : UInt8) : Tr' (discardUntilByte u) := by unfold discardUntilByte; tr_auto

theorem tr_numberBelow (b : Nat) : Tr (numberBelow b) (fun o => ∀ n, o = some n → n < b) := by
  unfold numberBelow
  refine tr_bind' tr_numberStr ?_
  intro o
  cases o with
  | none => exact tr_pure _ _ (by intro n h; cases h)
  | some s =>
    refine tr_pure _ _ ?_
    intro n h
    by_cases c : valOfB s < b
    · simp only [c, if_true] at h; cases h; exact c
    · simp only [c, if_false] at h; cases h

theorem tr_expectOpt {α} {p : P (Option α)} {Q : α → Prop} (hp : Tr p (fun o => ∀ a, o = some a → Q a)) :
    Tr (expectOpt p) Q := by
  unfold expectOpt
  refine tr_bind hp ?_
  intro o ho
  cases o with
  | none => exact tr_fail _
  | some a => exact tr_pure _ _ (ho a rfl)

theorem tr_expectNumber : Tr expectNumber (fun n => n < NumSet.W) := tr_expectOpt (tr_numberBelow _)
theorem tr_expectNumber' : Tr' expectNumber := tr_weaken tr_expectNumber (fun _ _ => trivial)
theorem tr_expectNumber64 : Tr' expectNumber64 := tr_weaken (tr_expectOpt (tr_numberBelow _)) (fun _ _ => trivial)
theorem tr_expectModSeq : Tr' expectModSeq := tr_weaken (tr_expectOpt (tr_numberBelow _)) (fun _ _ => trivial)
theorem tr_number : Tr' number := tr_weaken (tr_numberBelow _) (fun _ _ => trivial)
theorem tr_number64 : Tr' number64 := tr_weaken (tr_numberBelow _) (fun _ _ => trivial)

theorem tr_quoted : Tr' quoted := by unfold quoted; tr_auto [tr_special]

theorem tr_literal : Tr' literal := by unfold literal; tr_auto [tr_special, tr_number64, tr_crlf]

theorem tr_string : Tr' string := by unfold string; tr_auto [tr_quoted, tr_literal]

theorem tr_expectString : Tr' expectString := by
  unfold expectString expectOpt; tr_auto [tr_string]

theorem tr_expectNString : Tr' expectNString := by unfold expectNString; tr_auto [tr_atom, tr_expectString]

theorem tr_expectAString : Tr' expectAString := by
  unfold expectAString; tr_auto [tr_quoted, tr_literal, tr_expectAtom]

theorem tr_expectNIL : Tr' expectNIL := by unfold expectNIL; tr_auto [tr_expectAtom]

theorem tr_listLoop (f : P Unit) (hf : Tr' f) : ∀ fuel, Tr' (listLoop f fuel) := by
  intro fuel
  induction fuel with
  | zero => unfold listLoop; exact tr_nofuel _
  | succ n ih => unfold listLoop; tr_auto [tr_special, tr_expectSP]

theorem tr_list (fuel depth : Nat) (f : Nat → P Unit) (hd : depth < maxListDepth)
    (hf : ∀ dp, dp < maxListDepth → Tr' (f dp)) : Tr' (list fuel depth f) := by
  unfold list
  tr_auto [tr_special]
  exact tr_listLoop _ (hf _ ‹_›) _

theorem tr_expectList (fuel depth : Nat) (f : Nat → P Unit) (hd : depth < maxListDepth)
    (hf : ∀ dp, dp < maxListDepth → Tr' (f dp)) : Tr' (expectList fuel depth f) := by
  unfold expectList
  have := tr_list fuel depth f hd hf
  tr_auto

theorem tr_expectNList (fuel depth : Nat) (f : Nat → P Unit) (hd : depth < maxListDepth)
    (hf : ∀ dp, dp < maxListDepth → Tr' (f dp)) : Tr' (expectNList fuel depth f) := by
  unfold expectNList
  have := tr_expectList fuel depth f hd hf
  tr_auto [tr_atom]

theorem tr_discardValue : ∀ fuel depth, depth < maxListDepth → Tr' (discardValue fuel depth) := by
  intro fuel
  induction fuel with
  | zero => intro depth _; unfold discardValue; exact tr_nofuel _
  | succ n ih =>
    intro depth hd
    unfold discardValue
    have hl := tr_list n depth (fun dp => discardValue n dp) hd (fun dp h => ih dp h)
    tr_auto [tr_string, tr_atom]

theorem tr_expectNumSet : Tr expectNumSet (fun r => r.1 = false → StaticSet r.2) := by
  unfold expectNumSet
  refine tr_bind' (tr_special _) ?_
  intro b
  split
  · exact tr_pure _ _ (by intro h; cases h)
  · refine tr_bind' (tr_func _) ?_
    intro o
    cases o with
    | none => exact tr_fail _
    | some s =>
      simp only []
      cases hp : NumSet.parseSet (s.map fun b => Char.ofNat b.toNat) with
      | none => exact tr_fail _
      | some set =>
        exact tr_pure _ _ (fun hdyn => ⟨canon_of_parseSet _ _ hp, hdyn⟩)

/-! ### state updates that keep the client state good -/

theorem good_addToAll (cs : CS) (n : Nat) (h : GoodCS cs) (h0 : n ≠ 0) (hW : n < NumSet.W) : GoodCS (addToAll cs n) := by
  unfold addToAll
  cases hall : cs.sAll with
  | none => simpa [hall] using h
  | some us =>
    obtain ⟨u, s0⟩ := us
    refine ⟨h.nz, ?_, h.src, h.dst, h.dd, h.cur⟩
    intro u' s' he
    simp only [Option.some.injEq, Prod.mk.injEq] at he
    rw [← he.2]
    exact static_addNum s0 n (h.all u s0 hall) h0 hW

theorem good_delivered (cs : CS) (l : List Nat) (h : GoodCS cs) (hl : ∀ n ∈ l, n ≠ 0 ∧ n < NumSet.W) (cs' : CS)
    (hd : cs'.delivered = cs.delivered ++ l) (ha : cs'.sAll = cs.sAll) (hs : cs'.src = cs.src) (ht : cs'.dst = cs.dst)
    (hdd : cs'.deliveredDepth ≤ maxListDepth) (hc : cs'.cur.bodyDepth = cs.cur.bodyDepth) :
    GoodCS cs' := by
  refine ⟨?_, by rw [ha]; exact h.all, by rw [hs]; exact h.src, by rw [ht]; exact h.dst, hdd, by rw [hc]; exact h.cur⟩
  intro n hn
  rw [hd, List.mem_append] at hn
  cases hn with
  | inl h1 => exact h.nz n h1
  | inr h2 => exact hl n h2

/-- a change that touches neither the delivered numbers nor the delivered sets -/
theorem good_same (cs cs' : CS) (h : GoodCS cs) (hd : cs'.delivered = cs.delivered) (ha : cs'.sAll = cs.sAll)
    (hs : cs'.src = cs.src) (ht : cs'.dst = cs.dst) (hdd : cs'.deliveredDepth = cs.deliveredDepth)
    (hc : cs'.cur.bodyDepth = cs.cur.bodyDepth) : GoodCS cs' :=
  ⟨by rw [hd]; exact h.nz, by rw [ha]; exact h.all, by rw [hs]; exact h.src, by rw [ht]; exact h.dst,
    by rw [hdd]; exact h.dd, by rw [hc]; exact h.cur⟩

/-! ### SEARCH / ESEARCH / SORT / THREAD (the repaired reader: zero is rejected) -/

theorem tr_searchLoop : ∀ fuel, Tr' (searchLoop true fuel) := by
  intro fuel
  induction fuel with
  | zero => unfold searchLoop; exact tr_nofuel _
  | succ n ih =>
    unfold searchLoop
    refine tr_bind' tr_sp ?_
    intro b
    split
    · exact tr_pure _ _ trivial
    · refine tr_bind' (tr_special _) ?_
      intro b2
      split
      · refine tr_bind' tr_expectAtom ?_
        intro name
        refine tr_bind' tr_expectSP ?_
        intro _
        split
        · exact tr_unmod _
        · split
          · exact tr_fail _
          · refine tr_bind' tr_expectModSeq ?_
            intro m
            refine tr_bind' (tr_expectSpecial _) ?_
            intro _
            refine tr_modifyCS _ ?_
            intro cs hcs
            split
            · exact good_same cs _ hcs rfl rfl rfl rfl rfl rfl
            · exact hcs
      · refine tr_bind tr_expectNumber ?_
        intro num hnum
        split
        · exact tr_fail _
        · rename_i hz
          have h0 : num ≠ 0 := by
            intro e; apply hz; simp [e]
          refine tr_bind' (tr_modifyCS _ ?_) (fun _ => ih)
          intro cs hcs
          split
          · exact good_addToAll cs num hcs h0 hnum
          · exact hcs

def GoodES (d : ESData) : Prop := ∀ u s, d.all = some (u, s) → StaticSet s

theorem tr_esearchLoop (depth : Nat) (hd : depth < maxListDepth) :
    ∀ fuel name data, GoodES data → Tr (esearchLoop depth fuel name data) GoodES := by
  intro fuel
  induction fuel with
  | zero => intro name data _; unfold esearchLoop; exact tr_nofuel _
  | succ n ih =>
    intro name data hdata
    unfold esearchLoop
    refine tr_bind' tr_expectSP ?_
    intro _
    split
    · exact tr_unmod _
    · rename_i u hu
      refine tr_bind (Q := GoodES) ?_ ?_
      · split
        · refine tr_bind' tr_expectNumber' ?_
          intro k; exact tr_pure _ _ hdata
        · split
          · refine tr_bind' tr_expectNumber' ?_
            intro k; exact tr_pure _ _ hdata
          · split
            · refine tr_bind tr_expectNumSet ?_
              intro r hr
              obtain ⟨dyn, set⟩ := r
              simp only []
              split
              · exact tr_fail _
              · rename_i hdyn
                refine tr_pure _ _ ?_
                intro u' s' he
                simp only [Option.some.injEq, Prod.mk.injEq] at he
                rw [← he.2]
                exact hr (by simpa using hdyn)
            · split
              · refine tr_bind' tr_expectNumber' ?_
                intro k; exact tr_pure _ _ hdata
              · split
                · refine tr_bind' tr_expectModSeq ?_
                  intro k; exact tr_pure _ _ hdata
                · refine tr_bind' (tr_discardValue n depth hd) ?_
                  intro _; exact tr_pure _ _ hdata
      · intro data' hdata'
        refine tr_bind' tr_sp ?_
        intro b
        split
        · exact tr_pure _ _ hdata'
        · refine tr_bind' tr_expectAtom ?_
          intro name'
          exact ih name' data' hdata'

theorem goodES_default (u : Bool) : GoodES { uid := u } := by
  intro u' s' he; cases he

theorem tr_readESearch (fuel : Nat) : Tr (readESearch fuel) (fun r => GoodES r.2) := by
  unfold readESearch
  refine tr_bind' ?_ ?_
  · tr_auto [tr_special, tr_expectAtom, tr_expectSP, tr_expectAString, tr_expectSpecial]
  · intro tag
    refine tr_bind' tr_sp ?_
    intro b
    split
    · exact tr_pure _ _ (goodES_default false)
    · refine tr_bind' tr_expectAtom ?_
      intro name
      simp only []
      split
      · refine tr_bind' tr_sp ?_
        intro b2
        split
        · exact tr_pure _ _ (goodES_default true)
        · refine tr_bind' tr_expectAtom ?_
          intro name2
          refine tr_bind (tr_esearchLoop 0 (by decide) fuel name2 _ (goodES_default true)) ?_
          intro d hd
          exact tr_pure _ _ hd
      · refine tr_bind (tr_esearchLoop 0 (by decide) fuel name _ (goodES_default false)) ?_
        intro d hd
        exact tr_pure _ _ hd

theorem tr_handleESearch (fuel : Nat) : Tr' (handleESearch fuel) := by
  unfold handleESearch
  refine tr_bind' tr_expectSP ?_
  intro _
  refine tr_bind (tr_readESearch fuel) ?_
  intro r hr
  obtain ⟨tag, d⟩ := r
  refine tr_modifyCS _ ?_
  intro cs hcs
  split
  · exact ⟨hcs.nz, hr, hcs.src, hcs.dst, hcs.dd, hcs.cur⟩
  · exact hcs

theorem tr_sortLoop : ∀ fuel, Tr' (sortLoop true fuel) := by
  intro fuel
  induction fuel with
  | zero => unfold sortLoop; exact tr_nofuel _
  | succ n ih =>
    unfold sortLoop
    refine tr_bind' tr_sp ?_
    intro b
    split
    · exact tr_pure _ _ trivial
    · refine tr_bind tr_expectNumber ?_
      intro num hW
      split
      · exact tr_fail _
      · rename_i hz
        have h0 : num ≠ 0 := by
          intro e; apply hz; simp [e]
        refine tr_bind' (tr_modifyCS _ ?_) (fun _ => ih)
        intro cs hcs
        split
        · exact good_delivered cs [num] hcs (by intro k hk; simp at hk; rw [hk]; exact ⟨h0, hW⟩) _ rfl rfl rfl rfl hcs.dd rfl
        · exact hcs

def TDok (t : TD) : Prop := ∀ n ∈ t.nums, n ≠ 0 ∧ n < NumSet.W

/-- a thread (list) read at nesting level `dp`: no zero in it, and not deeper than the limit allows -/
def TDat (dp : Nat) (t : TD) : Prop := TDok t ∧ t.depth + dp ≤ maxListDepth + 1

theorem tr_threadItem (dp : Nat) (sub : P TD) (t : TD) (hs : Tr sub (TDat (dp + 1))) (ht : TDat dp t) :
    Tr (threadItem true sub t) (TDat dp) := by
  unfold threadItem
  refine tr_bind (p := (if !t.hasSub then number else pure none : P (Option Nat)))
    (Q := fun o => ∀ k, o = some k → k < NumSet.W) ?_ ?_
  · split
    · exact tr_numberBelow _
    · exact tr_pure _ _ (by intro k hk; cases hk)
  · intro o ho
    cases o with
    | some n =>
      simp only []
      split
      · exact tr_fail _
      · rename_i hz
        have h0 : n ≠ 0 := by
          intro e; apply hz; simp [e]
        refine tr_pure _ _ ⟨?_, ht.2⟩
        intro k hk
        simp only [List.mem_append, List.mem_singleton] at hk
        cases hk with
        | inl h1 => exact ht.1 k h1
        | inr h2 => rw [h2]; exact ⟨h0, ho n rfl⟩
    | none =>
      simp only []
      refine tr_bind hs ?_
      intro s hsok
      refine tr_pure _ _ ⟨?_, ?_⟩
      · intro k hk
        simp only [List.mem_append] at hk
        cases hk with
        | inl h1 => exact ht.1 k h1
        | inr h2 => exact hsok.1 k h2
      · have h1 := ht.2
        have h2 := hsok.2
        simp only [Nat.max_def]
        split <;> omega

theorem tr_thread : ∀ fuel,
    (∀ depth, depth < maxListDepth → Tr (threadList true fuel depth) (TDat (depth + 1))) ∧
    (∀ dp t, dp < maxListDepth → TDat dp t → Tr (threadList.threadLoop true fuel dp t) (TDat dp)) := by
  intro fuel
  induction fuel with
  | zero =>
    constructor
    · intro depth _; unfold threadList; exact tr_nofuel _
    · intro dp t _ _; unfold threadList.threadLoop; exact tr_nofuel _
  | succ n ih =>
    constructor
    · intro depth hd
      unfold threadList
      refine tr_bind' (tr_special _) ?_
      intro b
      split
      · exact tr_fail _
      · refine tr_bind' (tr_special _) ?_
        intro b2
        split
        · refine tr_pure _ _ ⟨(by intro k hk; cases hk), ?_⟩
          show 1 + (depth + 1) ≤ maxListDepth + 1
          omega
        · refine tr_bind (tr_enter depth hd) ?_
          intro dp hdp
          obtain ⟨he, hlt⟩ := hdp
          have hinit : TDat dp {} := ⟨(by intro k hk; cases hk), (by show 1 + dp ≤ maxListDepth + 1; omega)⟩
          refine tr_bind (ih.2 dp {} hlt hinit) ?_
          intro t ht
          refine tr_pure _ _ ⟨ht.1, ?_⟩
          have := ht.2
          show t.depth + (depth + 1) ≤ maxListDepth + 1
          omega
    · intro dp t hdp ht
      unfold threadList.threadLoop
      refine tr_bind (tr_threadItem dp _ t (ih.1 dp hdp) ht) ?_
      intro t' ht'
      refine tr_bind' (tr_special _) ?_
      intro b
      split
      · exact tr_pure _ _ ht'
      · refine tr_bind' tr_expectSP ?_
        intro _
        exact ih.2 dp t' hdp ht'

theorem tr_threadsLoop : ∀ fuel, Tr' (threadsLoop true fuel) := by
  intro fuel
  induction fuel with
  | zero => unfold threadsLoop; exact tr_nofuel _
  | succ n ih =>
    unfold threadsLoop
    refine tr_bind' tr_sp ?_
    intro b
    split
    · exact tr_pure _ _ trivial
    · refine tr_bind ((tr_thread n).1 0 (by decide)) ?_
      intro t ht
      refine tr_bind' (tr_modifyCS _ ?_) (fun _ => ih)
      intro cs hcs
      split
      · have htd : t.depth ≤ maxListDepth := by have := ht.2; omega
        exact good_delivered cs t.nums hcs ht.1 _ rfl rfl rfl rfl (Nat.max_le.2 ⟨hcs.dd, htd⟩) rfl
      · exact hcs

/-! ### FETCH -/

theorem tr_expectFlag : Tr' expectFlag := by
  unfold expectFlag; tr_auto [tr_special, tr_expectAtom]

theorem tr_readAddress : Tr' readAddress := by
  unfold readAddress; tr_auto [tr_expectSpecial, tr_expectNString, tr_expectSP]

theorem tr_addrLists (fuel depth : Nat) (hd : depth < maxListDepth) : ∀ n, Tr' (addrLists fuel depth n) := by
  intro n
  induction n with
  | zero => unfold addrLists; exact tr_pure _ _ trivial
  | succ k ih =>
    unfold addrLists
    have := tr_expectNList fuel depth (fun _ => readAddress) hd (fun _ _ => tr_readAddress)
    tr_auto [tr_expectSP]

theorem tr_readEnvelope (fuel depth : Nat) (hd : depth < maxListDepth) : Tr' (readEnvelope fuel depth) := by
  unfold readEnvelope
  have := tr_addrLists fuel depth hd 6
  tr_auto [tr_expectSpecial, tr_expectNString, tr_expectSP]

theorem tr_paramLoop : ∀ fuel k, Tr' (paramLoop fuel k) := by
  intro fuel
  induction fuel with
  | zero => intro k; unfold paramLoop; exact tr_nofuel _
  | succ n ih =>
    intro k
    unfold paramLoop
    tr_auto [tr_expectString, tr_special, tr_expectSP, ih]

theorem tr_readBodyFldParam (fuel depth : Nat) (hd : depth < maxListDepth) : Tr' (readBodyFldParam fuel depth) := by
  unfold readBodyFldParam
  tr_auto [tr_atom, tr_special, tr_paramLoop]

theorem tr_readBodyFldDsp (fuel depth : Nat) (hd : depth < maxListDepth) : Tr' (readBodyFldDsp fuel depth) := by
  unfold readBodyFldDsp
  have := tr_readBodyFldParam fuel depth hd
  tr_auto [tr_special, tr_expectNIL, tr_expectString, tr_expectSP, tr_expectSpecial]

theorem tr_readBodyFldLang (fuel depth : Nat) (hd : depth < maxListDepth) : Tr' (readBodyFldLang fuel depth) := by
  unfold readBodyFldLang
  have := tr_list fuel depth (fun _ => do let _ ← expectString; pure ()) hd
    (fun _ _ => by tr_auto [tr_expectString])
  tr_auto [tr_expectNString]

theorem tr_extTail (fuel depth : Nat) (hd : depth < maxListDepth) : Tr' (extTail fuel depth) := by
  unfold extTail
  have h1 := tr_readBodyFldDsp fuel depth hd
  have h2 := tr_readBodyFldLang fuel depth hd
  tr_auto [tr_sp, tr_expectNString]

theorem tr_expectBodyFldOctets : Tr' expectBodyFldOctets := by
  unfold expectBodyFldOctets; tr_auto [tr_expectNumber']

theorem tr_trailingValues : ∀ fuel depth, depth < maxListDepth → Tr' (trailingValues fuel depth) := by
  intro fuel
  induction fuel with
  | zero => intro depth _; unfold trailingValues; exact tr_nofuel _
  | succ n ih =>
    intro depth hd
    unfold trailingValues
    have := tr_discardValue n depth hd
    have := ih depth hd
    tr_auto [tr_sp]

set_option maxRecDepth 8000 in
theorem tr_readBody : ∀ fuel,
    (∀ depth nest, depth < maxListDepth →
      Tr (readBody true fuel depth nest) (fun b => b.depth + depth + 1 ≤ maxListDepth)) ∧
    (∀ dp nest typ, dp < maxListDepth →
      Tr (readBody.body1part true fuel dp nest typ) (fun b => b.depth + dp ≤ maxListDepth)) ∧
    (∀ dp nest acc dmax, dp < maxListDepth → dmax + dp + 1 ≤ maxListDepth →
      Tr (readBody.mpartLoop true fuel dp nest acc dmax) (fun r => r.2 + dp ≤ maxListDepth)) := by
  intro fuel
  induction fuel with
  | zero =>
    refine ⟨?_, ?_, ?_⟩
    · intro depth nest _; unfold readBody; exact tr_nofuel _
    · intro dp nest typ _; unfold readBody.body1part; exact tr_nofuel _
    · intro dp nest acc dmax _ _; unfold readBody.mpartLoop; exact tr_nofuel _
  | succ n ih =>
    obtain ⟨ihB, ih1, ihM⟩ := ih
    refine ⟨?_, ?_, ?_⟩
    · intro depth nest hd
      unfold readBody
      refine tr_bind (Q := fun r => r.1 = depth + 1 ∧ r.1 < maxListDepth) ?_ ?_
      · simp only [if_true]
        refine tr_bind (tr_enter depth hd) ?_
        intro dp hdp
        exact tr_pure _ _ hdp
      · intro r hr
        obtain ⟨dp, nest'⟩ := r
        obtain ⟨he, hlt⟩ := hr
        simp only [] at he hlt
        refine tr_bind' (tr_expectSpecial _) ?_
        intro _
        refine tr_bind (Q := fun b => b.depth + dp ≤ maxListDepth) ?_ ?_
        · refine tr_bind' tr_string ?_
          intro o
          cases o with
          | some typ => exact ih1 dp nest' typ hlt
          | none =>
            simp only []
            refine tr_bind' tr_badLiteral ?_
            intro bl
            split
            · exact tr_fail _
            · refine tr_bind (ihM dp nest' "" 0 hlt (by omega)) ?_
              intro r2 hr2
              obtain ⟨outs, dpt⟩ := r2
              exact tr_pure _ _ hr2
        · intro b hb
          refine tr_bind' (tr_trailingValues n dp hlt) ?_
          intro _
          refine tr_bind' (tr_expectSpecial _) ?_
          intro _
          refine tr_pure _ _ ?_
          omega
    · intro dp nest typ hd
      unfold readBody.body1part
      have hP := tr_readBodyFldParam n dp hd
      have hE := tr_readEnvelope n dp hd
      have hB := ihB dp nest hd
      have hX := tr_extTail n dp hd
      tr_autoq [tr_expectSP, tr_expectString, tr_expectNString, tr_expectBodyFldOctets, tr_sp, tr_expectNumber64]
    · intro dp nest acc dmax hd hdm
      unfold readBody.mpartLoop
      have hP := tr_readBodyFldParam n dp hd
      have hX := tr_extTail n dp hd
      refine tr_bind (ihB dp nest hd) ?_
      intro child hchild
      simp only []
      have hmax : max dmax child.depth + dp + 1 ≤ maxListDepth := by
        simp only [Nat.max_def]; split <;> omega
      refine tr_bind' ?_ ?_
      · tr_auto [tr_sp, tr_string]
      · intro more
        cases more with
        | none =>
          simp only []
          refine tr_bind' tr_badLiteral ?_
          intro bl
          split
          · exact tr_fail _
          · exact ihM dp nest _ _ hd hmax
        | some sub =>
          simp only []
          refine tr_bind' tr_sp ?_
          intro ext
          split
          · refine tr_bind' hP ?_
            intro _
            refine tr_bind' hX ?_
            intro _
            refine tr_pure _ _ ?_
            show max dmax child.depth + 1 + dp ≤ maxListDepth
            omega
          · refine tr_pure _ _ ?_
            show max dmax child.depth + 1 + dp ≤ maxListDepth
            omega

/-! ### handing a FETCH message over -/

theorem good_handleMsg (seq : Nat) (cs : CS) (h : GoodCS cs) : GoodCS (handleMsg seq cs) := by
  unfold handleMsg
  simp only []
  split
  · exact h
  · split <;> (try split) <;> exact good_same cs _ h rfl rfl rfl rfl rfl rfl

theorem handleMsg_delivered (seq : Nat) (cs : CS) : (handleMsg seq cs).delivered = cs.delivered := by
  unfold handleMsg
  simp only []
  split
  · rfl
  · split <;> (try split) <;> rfl

theorem good_deliverMsg (seq : Nat) (h0 : seq ≠ 0 ∧ seq < NumSet.W) (cs : CS) (h : GoodCS cs) : GoodCS (deliverMsg seq cs) := by
  unfold deliverMsg
  simp only []
  have hm := good_handleMsg seq cs h
  split
  · exact good_delivered _ [seq] hm (by intro k hk; simp at hk; rw [hk]; exact h0) _ rfl rfl rfl rfl (Nat.max_le.2 ⟨hm.dd, hm.cur⟩) rfl
  · exact good_delivered _ [seq] hm (by intro k hk; simp at hk; rw [hk]; exact h0) _ rfl rfl rfl rfl (Nat.max_le.2 ⟨hm.dd, hm.cur⟩) rfl

theorem tr_flagLoop : ∀ fuel k, Tr' (flagLoop fuel k) := by
  intro fuel
  induction fuel with
  | zero => intro k; unfold flagLoop; exact tr_nofuel _
  | succ n ih =>
    intro k
    unfold flagLoop
    tr_auto [tr_expectFlag, tr_special, tr_expectSP, ih]

theorem tr_setCur (f : Msg → Msg) (hf : ∀ m, m.bodyDepth ≤ maxListDepth → (f m).bodyDepth ≤ maxListDepth) :
    Tr' (setCur f) := by
  unfold setCur
  refine tr_modifyCS _ ?_
  intro cs hcs
  exact ⟨hcs.nz, hcs.all, hcs.src, hcs.dst, hcs.dd, hf _ hcs.cur⟩

theorem tr_setCur_keep (f : Msg → Msg) (hf : ∀ m, (f m).bodyDepth = m.bodyDepth) : Tr' (setCur f) :=
  tr_setCur f (fun m h => by rw [hf m]; exact h)

theorem tr_fetchBodyAtt (fuel dp : Nat) (hd : dp < maxListDepth) : Tr' (fetchBodyAtt fuel dp true) := by
  unfold fetchBodyAtt
  refine tr_bind' tr_expectSP ?_
  intro _
  refine tr_bind ((tr_readBody fuel).1 dp 0 hd) ?_
  intro b hb
  refine tr_setCur _ ?_
  intro m _
  show b.depth ≤ maxListDepth
  omega

theorem tr_noSection (name : Bytes) : Tr' (noSection name) := by
  unfold noSection; tr_auto [tr_special]

theorem tr_fetchAttData (fuel dp : Nat) (name : Bytes) (hd : dp < maxListDepth) :
    Tr' (fetchAttData fuel dp true name) := by
  unfold fetchAttData
  have hE := tr_readEnvelope fuel dp hd
  have hB := tr_fetchBodyAtt fuel dp hd
  tr_auto [tr_expectSP, tr_special, tr_flagLoop, tr_setCur_keep _ (fun _ => rfl), tr_expectNumber64, tr_expectNumber', tr_expectSpecial, tr_expectModSeq, tr_noSection]

theorem tr_bumpAtts (seq : Nat) : Tr' (bumpAtts seq) := by
  unfold bumpAtts
  refine tr_modifyCS _ ?_
  intro cs hcs
  simp only []
  split
  · exact good_handleMsg seq _ (good_same cs _ hcs rfl rfl rfl rfl rfl rfl)
  · exact good_same cs _ hcs rfl rfl rfl rfl rfl rfl

theorem tr_fetchAtt (fuel dp seq : Nat) (hd : dp < maxListDepth) : Tr' (fetchAtt fuel dp true seq) := by
  unfold fetchAtt
  have h1 := fun name => tr_fetchAttData fuel dp name hd
  tr_auto [h1, tr_bumpAtts seq]

theorem tr_handleFetch (fuel seq : Nat) (hW : seq < NumSet.W) : Tr' (handleFetch fuel {} seq) := by
  unfold handleFetch
  split
  · exact tr_fail _
  · rename_i hz
    have h0 : seq ≠ 0 := by
      intro e; apply hz; simp [e]
    refine tr_bind' (tr_modifyCS _ (fun cs hcs => ⟨hcs.nz, hcs.all, hcs.src, hcs.dst, hcs.dd, Nat.zero_le _⟩)) ?_
    intro _
    refine tr_finally _ ?_ (good_deliverMsg seq ⟨h0, hW⟩)
    exact tr_expectList fuel 0 _ (by decide) (fun dp hdp => tr_fetchAtt fuel dp seq hdp)

/-! ### status responses, dispatch, the read loop -/

theorem tr_capsLoop : ∀ fuel, Tr' (capsLoop fuel) := by
  intro fuel
  induction fuel with
  | zero => unfold capsLoop; exact tr_nofuel _
  | succ n ih => unfold capsLoop; tr_auto [tr_sp, tr_expectAtom]

theorem tr_readCopyUID : Tr readCopyUID (fun r => StaticSet r.2.1 ∧ StaticSet r.2.2) := by
  unfold readCopyUID
  refine tr_bind' tr_expectNumber' ?_
  intro v
  refine tr_bind' tr_expectSP ?_
  intro _
  refine tr_bind tr_expectNumSet ?_
  intro r1 h1
  obtain ⟨d1, src⟩ := r1
  refine tr_bind' tr_expectSP ?_
  intro _
  refine tr_bind tr_expectNumSet ?_
  intro r2 h2
  obtain ⟨d2, dst⟩ := r2
  simp only []
  split
  · exact tr_fail _
  · rename_i hdyn
    simp only [Bool.or_eq_true, not_or, Bool.not_eq_true] at hdyn
    exact tr_pure _ _ ⟨h1 hdyn.1, h2 hdyn.2⟩

theorem tr_respCodeData (fuel : Nat) (tagged : Bool) (code : Bytes) : Tr' (respCodeData fuel {} tagged code) := by
  unfold respCodeData
  split
  · exact tr_capsLoop fuel
  · split
    · refine tr_bind' tr_expectSP ?_
      intro _
      refine tr_bind' tr_expectNumber' ?_
      intro v
      refine tr_bind' tr_expectSP ?_
      intro _
      refine tr_bind' tr_expectNumber' ?_
      intro u
      split
      · exact tr_fail _
      · refine tr_modifyCS _ ?_
        intro cs hcs
        split
        · exact good_same cs _ hcs rfl rfl rfl rfl rfl rfl
        · exact hcs
    · split
      · refine tr_bind' tr_expectSP ?_
        intro _
        refine tr_bind tr_readCopyUID ?_
        intro r hr
        obtain ⟨v, s1, t1⟩ := r
        refine tr_modifyCS _ ?_
        intro cs hcs
        split
        · refine ⟨hcs.nz, hcs.all, ?_, ?_, hcs.dd, hcs.cur⟩
          · intro s' he; simp only [Option.some.injEq] at he; rw [← he]; exact hr.1
          · intro s' he; simp only [Option.some.injEq] at he; rw [← he]; exact hr.2
        · exact hcs
      · tr_auto [tr_expectSP, tr_expectNumber', tr_expectModSeq, tr_sp, tr_discardUntilByte]

theorem tr_respCode (fuel : Nat) (tagged : Bool) : Tr' (respCode fuel {} tagged) := by
  unfold respCode
  tr_auto [tr_expectAtom, tr_expectSpecial, tr_respCodeData fuel tagged]

theorem tr_respText (fuel : Nat) (tagged : Bool) : Tr' (respText fuel {} tagged) := by
  unfold respText
  have := tr_respCode fuel tagged
  tr_auto [tr_sp, tr_special, tr_text]

theorem tr_readTagged (fuel : Nat) (tag typ : Bytes) : Tr' (readTagged fuel {} tag typ) := by
  unfold readTagged
  refine tr_bind' tr_getCS ?_
  intro cs
  split
  · exact tr_fail _
  · refine tr_bind' (tr_modifyCS _ (fun cs hcs => good_same cs _ hcs rfl rfl rfl rfl rfl rfl)) ?_
    intro _
    refine tr_bind' (tr_respText fuel true) ?_
    intro _
    split
    · exact tr_fail _
    · refine tr_bind' tr_expectCRLF ?_
      intro _
      exact tr_modifyCS _ (fun cs hcs => good_same cs _ hcs rfl rfl rfl rfl rfl rfl)

theorem tr_readData (fuel : Nat) (typ0 : Bytes) : Tr' (readData fuel {} typ0) := by
  unfold readData
  refine tr_bind (Q := fun r => r.1 < NumSet.W) ?_ ?_
  · split
    · split
      · split
        · rename_i hv
          have hlt : valOfB typ0 < NumSet.W := by
            simp only [Bool.and_eq_true, decide_eq_true_eq] at hv
            exact hv.2
          refine tr_bind' tr_expectSP ?_
          intro _
          refine tr_bind' tr_expectAtom ?_
          intro t
          exact tr_pure _ _ hlt
        · exact tr_fail _
      · exact tr_pure _ _ (by show 0 < NumSet.W; decide)
    · exact tr_fail _
  · intro r hnum
    obtain ⟨num, typ⟩ := r
    simp only [] at hnum
    simp only []
    split
    · exact tr_respText fuel false
    · split
      · exact tr_capsLoop fuel
      · split
        · exact tr_pure _ _ trivial
        · split
          · split
            · exact tr_fail _
            · rename_i hz
              have h0 : num ≠ 0 := by
                intro e; apply hz; simp [e]
              refine tr_modifyCS _ ?_
              intro cs hcs
              split
              · exact good_delivered cs [num] hcs (by intro k hk; simp at hk; rw [hk]; exact ⟨h0, hnum⟩) _ rfl rfl rfl rfl hcs.dd rfl
              · exact good_delivered cs [num] hcs (by intro k hk; simp at hk; rw [hk]; exact ⟨h0, hnum⟩) _ rfl rfl rfl rfl hcs.dd rfl
          · split
            · exact tr_bind' tr_expectSP (fun _ => tr_handleFetch fuel num hnum)
            · split
              · exact tr_searchLoop fuel
              · split
                · exact tr_handleESearch fuel
                · split
                  · exact tr_sortLoop fuel
                  · split
                    · exact tr_threadsLoop fuel
                    · split
                      · exact tr_unmod _
                      · exact tr_fail _

theorem tr_readResponse (fuel : Nat) : Tr' (readResponse fuel {}) := by
  unfold readResponse
  have h1 := tr_readTagged fuel
  have h2 := tr_readData fuel
  tr_auto [tr_special, tr_expectAtom, tr_expectSP, tr_expectCRLF, h1, h2]

/-- the read loop keeps the state good and never panics -/
theorem readLoop_good (fuel : Nat) : ∀ n d, Good d →
    (readLoop fuel {} n d).1 ≠ .panic ∧ Good (readLoop fuel {} n d).2 := by
  intro n
  induction n with
  | zero => intro d hd; unfold readLoop; exact ⟨(by intro h; cases h), hd⟩
  | succ k ih =>
    intro d hd
    unfold readLoop
    split
    · exact ⟨(by intro h; cases h), good_frame hd rfl rfl⟩
    · have hg : Good { d with cost := d.cost + 1 } := good_frame hd rfl rfl
      have h := (tr_readResponse fuel).run _ hg
      split
      · rename_i d' he; rw [he] at h; exact ih d' h.1
      · rename_i e he; rw [he] at h; exact ⟨(by intro h; cases h), h⟩
      · rename_i he; rw [he] at h; exact h.elim
      · exact ⟨(by intro h; cases h), hd⟩
      · exact ⟨(by intro h; cases h), hd⟩

theorem good_init (tag : Bytes) (kind : Kind) (inp : Bytes) :
    Good { inp := inp, cs := initCS tag kind, cfg := {} } := by
  refine ⟨⟨?_, ?_, ?_, ?_, Nat.zero_le _, Nat.zero_le _⟩, Nat.zero_le _⟩
  · intro n hn; cases hn
  · intro u s he
    unfold initCS at he
    simp only [] at he
    cases kind <;> simp at he
    rw [he.2]; exact static_nil
  · intro s he; cases he
  · intro s he; cases he

end GoImap.ClientParse
