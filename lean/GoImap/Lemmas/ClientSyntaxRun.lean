/-
  C18 helper lemmas, part 3: the bytes and server actions produced by the command model
  (Model/ClientSyntax `runPieces` / `finish`) are accepted by the scanner and the rules of
  Spec/ClientSyntax.  The invariant: after every encoder call the scanner, run over everything
  handed to the connection or the buffer so far, is between tokens, every token it has seen is
  legal for the server, the continuation-request queue is empty and every recorded server action
  happened at an offset already on the wire.
-/
import GoImap.Lemmas.ClientSyntaxScan
namespace GoImap.ClientSyntaxLemmas
open GoImap.Wire (quoteBody encQuoted litHeader digits isDigit Cfg Side validQuoted needSync)
open GoImap.ClientSyntax
open GoImap.ClientSyntaxSpec

/-- the token is legal for the server -/
def TokOK (srv : Server) (t : Tok) : Prop := tokOK srv t = .ok

theorem tokOK_atom (srv : Server) (b : List Nat) : TokOK srv (.atom b) := rfl
theorem tokOK_syncLit (srv : Server) (n : Nat) (e : Bool) : TokOK srv (.lit n false e) := rfl
theorem tokOK_nonSyncLit (srv : Server) (n : Nat) (e : Bool) (h : nonSyncLegal srv n = true) :
    TokOK srv (.lit n true e) := by
  unfold TokOK tokOK; simp [h]

/-- offsets at which the server sent a continuation request / a tagged refusal -/
def contsOf (acts : List (Nat × Act)) : List Nat := (acts.filter fun x => x.2 = .cont).map (·.1)
def refusalsOf (acts : List (Nat × Act)) : List Nat := (acts.filter fun x => x.2 ≠ .cont).map (·.1)

theorem mem_contsOf (acts : List (Nat × Act)) (o : Nat) : o ∈ contsOf acts ↔ (o, Act.cont) ∈ acts := by
  unfold contsOf
  simp only [List.mem_map, List.mem_filter, decide_eq_true_eq]
  constructor
  · rintro ⟨⟨o', a⟩, ⟨hm, ha⟩, ho⟩
    simp only at ha ho; subst ha; subst ho; exact hm
  · intro h; exact ⟨(o, .cont), ⟨h, rfl⟩, rfl⟩

theorem mem_refusalsOf (acts : List (Nat × Act)) (o : Nat) :
    o ∈ refusalsOf acts ↔ ∃ a, a ≠ Act.cont ∧ (o, a) ∈ acts := by
  unfold refusalsOf
  simp only [List.mem_map, List.mem_filter, decide_eq_true_eq, ne_eq]
  constructor
  · rintro ⟨⟨o', a⟩, ⟨hm, ha⟩, ho⟩
    simp only at ha ho; subst ho; exact ⟨a, ha, hm⟩
  · rintro ⟨a, ha, hm⟩; exact ⟨(o, a), ⟨hm, ha⟩, rfl⟩

/-- scanning `b` from between tokens ends between tokens, with legal tokens only -/
def LineBytes (srv : Server) (b : List Nat) : Prop :=
  ∀ (cs rs : List Nat) (S : St) (p : Nat),
    Line (TokOK srv) S p → Line (TokOK srv) (scanFrom cs rs S b) (p + b.length)

theorem lineBytes_plain (srv : Server) (b : List Nat) (h : ∀ x ∈ b, plainByte x = true) : LineBytes srv b :=
  fun cs rs S p hl => scan_plain cs rs (TokOK srv) (tokOK_atom srv) b h S p hl

theorem lineBytes_quoted (srv : Server) (s : Wire.Bytes) (h : TokOK srv (.quoted (quoteBody s))) :
    LineBytes srv (encQuoted s) :=
  fun cs rs S p hl => scan_quoted cs rs (TokOK srv) (tokOK_atom srv) s h S p hl

/-! ### literals -/

theorem litHeader_length_pos (cfg : Cfg) (hside : cfg.side = .client) (n : Nat) (sync : Bool) :
    0 < (litHeader cfg n sync).length := by
  rw [litHeader_client cfg hside]; simp

theorem startLiteral_go (cs rs : List Nat) (ns : Bool) (X : St) (he : Nat) (h : ns = true ∨ he ∈ cs) :
    startLiteral cs rs ns X he =
      if X.num = 0 then { X with mode := .line, toks := .lit 0 ns false :: X.toks }
      else { X with mode := .payload X.num ns, eight := false } := by
  unfold startLiteral
  cases h with
  | inl h => simp [h]
  | inr h => cases ns <;> simp [h]

theorem startLiteral_refused (cs rs : List Nat) (X : St) (he : Nat) (h1 : he ∉ cs) (h2 : he ∈ rs) :
    startLiteral cs rs false X he =
      { X with mode := .refused, toks := .lit X.num false false :: X.toks } := by
  unfold startLiteral
  simp [h1, h2]

/-- a whole literal (header and payload of the announced size) that the server lets through -/
theorem scan_literal (cs rs : List Nat) (srv : Server) (cfg : Cfg) (hside : cfg.side = .client) (sync : Bool)
    (payload : List Nat) (S : St) (p : Nat) (hl : Line (TokOK srv) S p)
    (hok : ∀ e, TokOK srv (.lit payload.length (!sync) e))
    (hgo : sync = false ∨ (p + (litHeader cfg payload.length sync).length) ∈ cs) :
    Line (TokOK srv) (scanFrom cs rs (scanFrom cs rs S (litHeader cfg payload.length sync)) payload)
      (p + (litHeader cfg payload.length sync).length + payload.length) := by
  rw [scan_litHeader cs rs cfg hside payload.length sync S p hl.mode hl.pos]
  rw [startLiteral_go cs rs (!sync) _ _ (by cases hgo with
    | inl h => exact Or.inl (by simp [h])
    | inr h => exact Or.inr h)]
  have htoks : ∀ t ∈ (openTok S (.hdrCR (!sync))).toks, TokOK srv t :=
    openTok_toks (TokOK srv) (tokOK_atom srv) S _ hl.toks
  cases payload with
  | nil =>
    simp only [List.length_nil, if_true, scanFrom_nil, Nat.add_zero]
    refine ⟨rfl, rfl, ?_⟩
    intro t ht
    have ht' : t ∈ Tok.lit 0 (!sync) false :: (openTok S (.hdrCR (!sync))).toks := ht
    simp only [List.mem_cons] at ht'
    rcases ht' with e | m
    · rw [e]; exact hok false
    · exact htoks t m
  | cons b bs =>
    have hne : ((b :: bs).length = 0) = False := by simp
    simp only [hne, if_false]
    obtain ⟨e, he⟩ := scan_payload cs rs (b :: bs)
      { ({ openTok S (.hdrCR (!sync)) with pos := p + (litHeader cfg (b :: bs).length sync).length,
                                            num := (b :: bs).length } : St) with
          mode := .payload (b :: bs).length (!sync), eight := false } (!sync) rfl (by simp)
    rw [he]
    refine ⟨rfl, rfl, ?_⟩
    intro t ht
    have ht' : t ∈ Tok.lit (b :: bs).length (!sync) e :: (openTok S (.hdrCR (!sync))).toks := ht
    simp only [List.mem_cons] at ht'
    rcases ht' with e' | m
    · rw [e']; exact hok e
    · exact htoks t m

/-! ### pieces -/

/-- what an encoder call may hand to the connection -/
inductive PieceOK (srv : Server) (cfg : Cfg) : Piece → Prop where
  | bytes (b : List Nat) (h : LineBytes srv b) : PieceOK srv cfg (.bytes b)
  | nonSync (payload : List Nat) (h : nonSyncLegal srv payload.length = true) :
      PieceOK srv cfg (.nonSyncLit (litHeader cfg payload.length false) payload)
  | sync (payload : List Nat) : PieceOK srv cfg (.syncLit (litHeader cfg payload.length true) payload)
  | fail : PieceOK srv cfg .fail

def scanAll (cs rs : List Nat) (w : List Nat) : St := scan cs rs w

structure InvLive (cs rs : List Nat) (srv : Server) (r : Run) : Prop where
  line : Line (TokOK srv) (scan cs rs (r.wire ++ r.pending)) (r.wire ++ r.pending).length
  queue : r.queue = []
  actsLe : ∀ x ∈ r.acts, x.1 ≤ r.wire.length

structure InvRefused (cs rs : List Nat) (srv : Server) (r : Run) : Prop where
  mode : (scan cs rs r.wire).mode = .refused
  toks : ∀ t ∈ (scan cs rs r.wire).toks, TokOK srv t
  queue : r.queue = []

def Inv (cs rs : List Nat) (srv : Server) (r : Run) : Prop :=
  match r.stop with
  | none => InvLive cs rs srv r
  | some .refusedNo => InvRefused cs rs srv r
  | some .refusedBad => InvRefused cs rs srv r
  | some .encErr => True
  | some .hang => False

theorem stepPiece_stopped (r : Run) (p : Piece) (h : r.stop.isSome = true) : stepPiece r p = r := by
  unfold stepPiece; simp [h]

theorem runPieces_stopped (ps : List Piece) (r : Run) (h : r.stop.isSome = true) : runPieces r ps = r := by
  induction ps generalizing r with
  | nil => rfl
  | cons p ps ih => unfold runPieces; rw [stepPiece_stopped r p h]; exact ih r h

theorem finish_stopped (r : Run) (h : r.stop.isSome = true) : finish r = r := by
  unfold finish; simp [h]

theorem scan_append (cs rs : List Nat) (x y : List Nat) :
    scan cs rs (x ++ y) = scanFrom cs rs (scan cs rs x) y := by
  unfold scan; exact scanFrom_append cs rs _ x y

/-- the run after a granted / a refused synchronising literal -/
def contRun (r : Run) (wire payload : ClientSyntax.Bytes) (rest : List Act) : Run :=
  { r with wire := wire, pending := payload, acts := r.acts ++ [(wire.length, .cont)], script := rest, queue := [] }

def refRun (r : Run) (wire : ClientSyntax.Bytes) (a : Act) (rest : List Act) (st : Stop) : Run :=
  { r with wire := wire, pending := [], acts := r.acts ++ [(wire.length, a)], script := rest, queue := [],
           stop := some st }

/-- the answer of the server to a synchronising literal, from a live state with an empty queue -/
theorem answer_cases (r : Run) (wire payload : ClientSyntax.Bytes) (hq : r.queue = []) :
    (∃ rest, answer { r with queue := r.queue ++ [r.me] } wire payload = contRun r wire payload rest) ∨
    (∃ rest a st, a ≠ Act.cont ∧ (st = Stop.refusedNo ∨ st = Stop.refusedBad) ∧
        answer { r with queue := r.queue ++ [r.me] } wire payload = refRun r wire a rest st) := by
  unfold answer contRun refRun
  cases hna : nextAct ({ r with queue := r.queue ++ [r.me] } : Run).script with
  | mk a rest =>
    cases a with
    | cont =>
      left; refine ⟨rest, ?_⟩
      simp [hq]
    | no =>
      right; refine ⟨rest, .no, .refusedNo, by decide, Or.inl rfl, ?_⟩
      simp [hq]
    | bad =>
      right; refine ⟨rest, .bad, .refusedBad, by decide, Or.inr rfl, ?_⟩
      simp [hq]

theorem stepPiece_bytes (r : Run) (b : ClientSyntax.Bytes) (hs : r.stop = none) :
    stepPiece r (.bytes b) = { r with pending := r.pending ++ b } := by
  unfold stepPiece; rw [hs]; rfl
theorem stepPiece_nonSync (r : Run) (h pl : ClientSyntax.Bytes) (hs : r.stop = none) :
    stepPiece r (.nonSyncLit h pl) = { r with pending := r.pending ++ h ++ pl } := by
  unfold stepPiece; rw [hs]; rfl
theorem stepPiece_fail (r : Run) (hs : r.stop = none) :
    stepPiece r .fail = { r with stop := some .encErr } := by
  unfold stepPiece; rw [hs]; rfl
theorem stepPiece_sync (r : Run) (h pl : ClientSyntax.Bytes) (hs : r.stop = none) :
    stepPiece r (.syncLit h pl) = answer { r with queue := r.queue ++ [r.me] } (r.wire ++ r.pending ++ h) pl := by
  unfold stepPiece; rw [hs]; rfl

/-- one encoder call keeps the invariant, given what the final action lists say about the actions
    recorded up to and including this call -/
theorem stepPiece_inv (cs rs : List Nat) (srv : Server) (cfg : Cfg) (hside : cfg.side = .client)
    (r : Run) (p : Piece) (hp : PieceOK srv cfg p) (hinv : Inv cs rs srv r)
    (hc : ∀ o, (o, Act.cont) ∈ (stepPiece r p).acts → o ∈ cs)
    (hr : (stepPiece r p).stop = some .refusedNo ∨ (stepPiece r p).stop = some .refusedBad →
          cs = contsOf (stepPiece r p).acts ∧ rs = refusalsOf (stepPiece r p).acts) :
    Inv cs rs srv (stepPiece r p) := by
  cases hs : r.stop with
  | some k => rw [stepPiece_stopped r p (by simp [hs])]; exact hinv
  | none =>
    have hlive : InvLive cs rs srv r := by unfold Inv at hinv; rw [hs] at hinv; exact hinv
    cases hp with
    | bytes b hb =>
      rw [stepPiece_bytes r b hs]
      unfold Inv; simp only [hs]
      refine ⟨?_, hlive.queue, hlive.actsLe⟩
      show Line (TokOK srv) (scan cs rs (r.wire ++ (r.pending ++ b))) (r.wire ++ (r.pending ++ b)).length
      rw [← List.append_assoc, scan_append, List.length_append]
      exact hb cs rs _ _ hlive.line
    | fail =>
      rw [stepPiece_fail r hs]
      unfold Inv; simp
    | nonSync payload hleg =>
      rw [stepPiece_nonSync r _ _ hs]
      unfold Inv; simp only [hs]
      refine ⟨?_, hlive.queue, hlive.actsLe⟩
      show Line (TokOK srv)
        (scan cs rs (r.wire ++ (r.pending ++ litHeader cfg payload.length false ++ payload)))
        (r.wire ++ (r.pending ++ litHeader cfg payload.length false ++ payload)).length
      rw [show r.wire ++ (r.pending ++ litHeader cfg payload.length false ++ payload)
            = (r.wire ++ r.pending) ++ litHeader cfg payload.length false ++ payload by simp [List.append_assoc]]
      rw [scan_append, scan_append]
      have := scan_literal cs rs srv cfg hside false payload _ _ hlive.line
        (fun e => tokOK_nonSyncLit srv _ e hleg) (Or.inl rfl)
      simpa [List.length_append, Nat.add_assoc] using this
    | sync payload =>
      have hstep' := stepPiece_sync r (litHeader cfg payload.length true) payload hs
      have hwl : (r.wire ++ r.pending ++ litHeader cfg payload.length true).length =
          (r.wire ++ r.pending).length + (litHeader cfg payload.length true).length := by
        simp only [List.length_append]
      have hpos := litHeader_length_pos cfg hside payload.length true
      rcases answer_cases r (r.wire ++ r.pending ++ litHeader cfg payload.length true) payload hlive.queue with
        ⟨rest, he⟩ | ⟨rest, a, st, ha, hst, he⟩
      · -- continuation request
        rw [hstep', he] at hc ⊢
        unfold Inv
        have hstopc : (contRun r (r.wire ++ r.pending ++ litHeader cfg payload.length true) payload rest).stop = none := hs
        simp only [hstopc]
        refine ⟨?_, rfl, ?_⟩
        · show Line (TokOK srv)
            (scan cs rs (r.wire ++ r.pending ++ litHeader cfg payload.length true ++ payload))
            (r.wire ++ r.pending ++ litHeader cfg payload.length true ++ payload).length
          rw [scan_append, scan_append]
          have hmem : (r.wire ++ r.pending).length + (litHeader cfg payload.length true).length ∈ cs := by
            apply hc
            show _ ∈ r.acts ++ [((r.wire ++ r.pending ++ litHeader cfg payload.length true).length, Act.cont)]
            rw [hwl]; simp
          have := scan_literal cs rs srv cfg hside true payload _ _ hlive.line
            (fun e => tokOK_syncLit srv _ e) (Or.inr hmem)
          simpa [List.length_append, Nat.add_assoc] using this
        · intro x hx
          have hx' : x ∈ r.acts ++ [((r.wire ++ r.pending ++ litHeader cfg payload.length true).length, Act.cont)] := hx
          show x.1 ≤ (r.wire ++ r.pending ++ litHeader cfg payload.length true).length
          simp only [List.mem_append, List.mem_singleton] at hx'
          rcases hx' with m | e
          · have := hlive.actsLe x m
            simp only [List.length_append] at this ⊢; omega
          · rw [e]; exact Nat.le_refl _
      · -- tagged refusal
        rw [hstep', he] at hr ⊢
        have hstop : (refRun r (r.wire ++ r.pending ++ litHeader cfg payload.length true) a rest st).stop = some st := rfl
        obtain ⟨hcs, hrs⟩ := hr (by
          rcases hst with e | e
          · exact Or.inl (by rw [hstop, e])
          · exact Or.inr (by rw [hstop, e]))
        have hinvR : InvRefused cs rs srv
            (refRun r (r.wire ++ r.pending ++ litHeader cfg payload.length true) a rest st) := by
          have hscan : scan cs rs (r.wire ++ r.pending ++ litHeader cfg payload.length true) =
              startLiteral cs rs false
                { openTok (scan cs rs (r.wire ++ r.pending)) (.hdrCR false) with
                    pos := (r.wire ++ r.pending).length + (litHeader cfg payload.length true).length,
                    num := payload.length }
                ((r.wire ++ r.pending).length + (litHeader cfg payload.length true).length) := by
            rw [scan_append]
            exact scan_litHeader cs rs cfg hside payload.length true _ _ hlive.line.mode hlive.line.pos
          have hnotin : (r.wire ++ r.pending).length + (litHeader cfg payload.length true).length ∉ cs := by
            rw [hcs]
            intro hm
            rw [mem_contsOf] at hm
            have hm' : ((r.wire ++ r.pending).length + (litHeader cfg payload.length true).length, Act.cont) ∈
                r.acts ++ [((r.wire ++ r.pending ++ litHeader cfg payload.length true).length, a)] := hm
            simp only [List.mem_append, List.mem_singleton, Prod.mk.injEq] at hm'
            rcases hm' with m | ⟨_, e⟩
            · have := hlive.actsLe _ m
              simp only [List.length_append] at this; omega
            · exact ha e.symm
          have hin : (r.wire ++ r.pending).length + (litHeader cfg payload.length true).length ∈ rs := by
            rw [hrs, mem_refusalsOf]
            refine ⟨a, ha, ?_⟩
            show _ ∈ r.acts ++ [((r.wire ++ r.pending ++ litHeader cfg payload.length true).length, a)]
            rw [hwl]; simp
          have hscan2 := hscan
          rw [startLiteral_refused cs rs _ _ hnotin hin] at hscan2
          refine ⟨?_, ?_, rfl⟩
          · show (scan cs rs (r.wire ++ r.pending ++ litHeader cfg payload.length true)).mode = _
            rw [hscan2]
          · show ∀ t ∈ (scan cs rs (r.wire ++ r.pending ++ litHeader cfg payload.length true)).toks, TokOK srv t
            rw [hscan2]
            intro t ht
            have ht' : t ∈ Tok.lit payload.length false false ::
                (openTok (scan cs rs (r.wire ++ r.pending)) (.hdrCR false)).toks := ht
            simp only [List.mem_cons] at ht'
            rcases ht' with e | m
            · rw [e]; exact tokOK_syncLit srv _ _
            · exact openTok_toks (TokOK srv) (tokOK_atom srv) _ _ hlive.line.toks t m
        unfold Inv
        rcases hst with e | e <;> (subst e; simp only [hstop]; exact hinvR)

theorem stepPiece_acts_mono (r : Run) (p : Piece) : ∀ x ∈ r.acts, x ∈ (stepPiece r p).acts := by
  intro x hx
  unfold stepPiece
  split
  · exact hx
  · cases p with
    | bytes b => exact hx
    | nonSyncLit h pl => exact hx
    | fail => exact hx
    | syncLit h pl =>
      show x ∈ (answer _ _ _).acts
      unfold answer
      cases nextAct ({ r with queue := r.queue ++ [r.me] } : Run).script with
      | mk a rest =>
        cases a with
        | cont =>
          simp only
          split
          · split <;> simp [hx]
          · simp [hx]
        | no => simp [hx]
        | bad => simp [hx]

theorem runPieces_acts_mono (ps : List Piece) (r : Run) : ∀ x ∈ r.acts, x ∈ (runPieces r ps).acts := by
  induction ps generalizing r with
  | nil => intro x hx; exact hx
  | cons p ps ih =>
    intro x hx
    unfold runPieces
    exact ih _ x (stepPiece_acts_mono r p x hx)

theorem finish_acts (r : Run) : (finish r).acts = r.acts := by
  unfold finish; split <;> rfl

/-- the invariant holds after all encoder calls of the command -/
theorem runPieces_inv (cs rs : List Nat) (srv : Server) (cfg : Cfg) (hside : cfg.side = .client)
    (ps : List Piece) (r : Run) (hp : ∀ p ∈ ps, PieceOK srv cfg p) (hinv : Inv cs rs srv r)
    (hcs : cs = contsOf (runPieces r ps).acts) (hrs : rs = refusalsOf (runPieces r ps).acts) :
    Inv cs rs srv (runPieces r ps) := by
  induction ps generalizing r with
  | nil => exact hinv
  | cons p ps ih =>
    unfold runPieces at hcs hrs ⊢
    apply ih (stepPiece r p) (fun q hq => hp q (List.mem_cons_of_mem _ hq)) _ hcs hrs
    apply stepPiece_inv cs rs srv cfg hside r p (hp p (List.mem_cons_self ..)) hinv
    · intro o ho
      rw [hcs, mem_contsOf]
      exact runPieces_acts_mono ps _ _ ho
    · intro hst
      have hstopped : (stepPiece r p).stop.isSome = true := by rcases hst with e | e <;> simp [e]
      rw [runPieces_stopped ps _ hstopped] at hcs hrs
      exact ⟨hcs, hrs⟩

theorem toksOK_of_all (srv : Server) (l : List Tok) (h : ∀ t ∈ l, TokOK srv t) : toksOK srv l = .ok := by
  induction l with
  | nil => rfl
  | cons t ts ih =>
    unfold toksOK
    have ht : tokOK srv t = .ok := h t (List.mem_cons_self ..)
    rw [ht]
    exact ih (fun x hx => h x (List.mem_cons_of_mem _ hx))

/-- … and so the finished command passes every rule about tokens and synchronisation -/
theorem finish_verdict (cs rs : List Nat) (srv : Server) (r : Run) (hinv : Inv cs rs srv r)
    (hne : r.stop ≠ some .encErr) :
    verdictCore srv false (scan cs rs (finish r).wire) = .ok := by
  cases hs : r.stop with
  | none =>
    have hlive : InvLive cs rs srv r := by unfold Inv at hinv; rw [hs] at hinv; exact hinv
    have hf : (finish r).wire = r.wire ++ r.pending ++ [13, 10] := by unfold finish; simp [hs]
    rw [hf, scan_append, scanFrom_cons, scanFrom_cons, scanFrom_nil]
    have e1 : step cs rs (scan cs rs (r.wire ++ r.pending)) 13 = openTok (scan cs rs (r.wire ++ r.pending)) .cr := by
      unfold step openTok; rw [hlive.line.mode]; simp
    rw [e1]
    have e2 : step cs rs (openTok (scan cs rs (r.wire ++ r.pending)) .cr) 10 =
        { openTok (scan cs rs (r.wire ++ r.pending)) .cr with
            pos := (openTok (scan cs rs (r.wire ++ r.pending)) .cr).pos + 1, mode := .done } := by
      unfold step; rw [openTok_mode]; simp
    rw [e2]
    unfold verdictCore
    simp only
    apply toksOK_of_all
    intro t ht
    have ht' : t ∈ (openTok (scan cs rs (r.wire ++ r.pending)) .cr).toks := by simpa using ht
    exact openTok_toks (TokOK srv) (tokOK_atom srv) _ _ hlive.line.toks t ht'
  | some k =>
    rw [finish_stopped r (by simp [hs])]
    cases k with
    | encErr => exact absurd hs hne
    | hang => unfold Inv at hinv; rw [hs] at hinv; exact absurd hinv id
    | refusedNo =>
      have h : InvRefused cs rs srv r := by unfold Inv at hinv; rw [hs] at hinv; exact hinv
      unfold verdictCore; rw [h.mode]; simp only
      exact toksOK_of_all srv _ (fun t ht => h.toks t (by simpa using ht))
    | refusedBad =>
      have h : InvRefused cs rs srv r := by unfold Inv at hinv; rw [hs] at hinv; exact hinv
      unfold verdictCore; rw [h.mode]; simp only
      exact toksOK_of_all srv _ (fun t ht => h.toks t (by simpa using ht))

end GoImap.ClientSyntaxLemmas
