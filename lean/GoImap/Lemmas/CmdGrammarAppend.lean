/-
  C02 helper lemmas: the APPEND header (mailbox, flag list, date-time) and its literal.
-/
import GoImap.Lemmas.CmdGrammarCreate
namespace GoImap.CmdLemmas
open GoImap.CmdGrammar GoImap.CmdSpec

/-- the date-time is expressible: `-0700` has no room for seconds in the zone offset -/
def TimeOK : Option ATime → Prop
  | none => True
  | some t => t.off % 60 = 0

theorem timeOK_guard (time : Option ATime) (h : TimeOK time) :
    ((time.map fun t => decide (t.off % 60 ≠ 0)) = some true) = False := by
  cases time with
  | none => simp
  | some t =>
    have : t.off % 60 = 0 := h
    simp [this]

theorem pListOpt_none_lit (v : Str) (r : Wire) : pListOpt pFlagItem [] (Item.lit v :: r) = .ok (none, Item.lit v :: r) := by
  simp [pListOpt, special]

theorem pListOpt_none_dt (t : ATime) (r : Wire) : pListOpt pFlagItem [] (Item.datetime t :: r) = .ok (none, Item.datetime t :: r) := by
  simp [pListOpt, special]

theorem notEol_lit (v : Str) (r : Wire) : NotEol (Item.lit v :: r) := by simp [NotEol]
theorem notEol_dt (t : ATime) (r : Wire) : NotEol (Item.datetime t :: r) := by simp [NotEol]
theorem notEol_wList (l : List Wire) (r : Wire) : NotEol (wList l ++ r) := by simp [wList, NotEol]

theorem append_fidelity (cfg : Cfg) (tag : Nat) (m : List Nat) (flags : List Str) (time : Option ATime) (payload : Str)
    (hm : MailboxOK m) (hf : ∀ f ∈ flags, FlagOK f) (ht : TimeOK time) :
    roundTrip {} cfg tag (.append m flags time payload) =
      .calls [.append (canonMailbox m) (flags.map canonFlag) time payload] := by
  have hg := timeOK_guard time ht
  cases time with
  | none =>
    by_cases hnil : flags = []
    · subst hnil
      apply roundTrip_single cfg tag _ (kw "APPEND" ++ sp ++ wMailbox m ++ sp ++ [.lit payload])
      · simp [wBody, wFlagList, bind, Except.bind, pure, Except.pure]
      · simp only [kw, List.append_assoc, List.singleton_append]
        rw [parse_plain cfg tag (str "APPEND") _ (isName_kw "APPEND") (by decide) (stops_sp_atom _), dispatch_append]
        simp only [one, pAppend, bind, Except.bind, pSP_sp _ (notEol_wMailbox _ _), pMailbox_wMailbox m _ hm (stops_sp_atom _),
          pSP_sp _ (notEol_lit _ _), pListOpt_none_lit]
        simp [pCRLF_crlf_nil, pure, Except.pure]
    · apply roundTrip_single cfg tag _ (kw "APPEND" ++ sp ++ wMailbox m ++ sp ++ (wList (flags.map fun f => atom f) ++ sp) ++ [.lit payload])
      · simp [wBody, wFlagList_ok flags hf, hnil, bind, Except.bind, pure, Except.pure]
      · simp only [kw, List.append_assoc, List.singleton_append]
        rw [parse_plain cfg tag (str "APPEND") _ (isName_kw "APPEND") (by decide) (stops_sp_atom _), dispatch_append]
        have hl := pListOpt_wList flagItemSpec flags hf [] (sp ++ (Item.lit payload :: crlf))
        rw [foldl_canonFlag] at hl
        simp only [one, pAppend, bind, Except.bind, pSP_sp _ (notEol_wMailbox _ _), pMailbox_wMailbox m _ hm (stops_sp_atom _),
          pSP_sp _ (notEol_wList _ _), hl, pSP_sp _ (notEol_lit _ _), List.nil_append]
        simp [pCRLF_crlf_nil, pure, Except.pure]
  | some t =>
    have hg' : ¬ (t.off % 60 ≠ 0) := by
      have : t.off % 60 = 0 := ht
      simp [this]
    by_cases hnil : flags = []
    · subst hnil
      apply roundTrip_single cfg tag _ (kw "APPEND" ++ sp ++ wMailbox m ++ sp ++ ([.datetime t] ++ sp) ++ [.lit payload])
      · simp [wBody, wFlagList, hg', bind, Except.bind, pure, Except.pure]
      · simp only [kw, List.append_assoc, List.singleton_append, List.cons_append, List.nil_append]
        rw [parse_plain cfg tag (str "APPEND") _ (isName_kw "APPEND") (by decide) (stops_sp_atom _), dispatch_append]
        simp only [one, pAppend, bind, Except.bind, pSP_sp _ (notEol_wMailbox _ _), pMailbox_wMailbox m _ hm (stops_sp_atom _),
          pSP_sp _ (notEol_dt _ _), pListOpt_none_dt, pSP_sp _ (notEol_lit _ _)]
        simp [pCRLF_crlf_nil, pure, Except.pure]
    · apply roundTrip_single cfg tag _
        (kw "APPEND" ++ sp ++ wMailbox m ++ sp ++ (wList (flags.map fun f => atom f) ++ sp) ++ ([.datetime t] ++ sp) ++ [.lit payload])
      · simp [wBody, wFlagList_ok flags hf, hg', hnil, bind, Except.bind, pure, Except.pure]
      · simp only [kw, List.append_assoc, List.singleton_append, List.cons_append, List.nil_append]
        rw [parse_plain cfg tag (str "APPEND") _ (isName_kw "APPEND") (by decide) (stops_sp_atom _), dispatch_append]
        have hl := pListOpt_wList flagItemSpec flags hf [] (sp ++ (Item.datetime t :: (sp ++ (Item.lit payload :: crlf))))
        rw [foldl_canonFlag] at hl
        simp only [one, pAppend, bind, Except.bind, pSP_sp _ (notEol_wMailbox _ _), pMailbox_wMailbox m _ hm (stops_sp_atom _),
          pSP_sp _ (notEol_wList _ _), hl, pSP_sp _ (notEol_dt _ _), List.nil_append, pure, Except.pure]
        simp only [pSP_sp _ (notEol_lit _ _)]
        simp [pCRLF_crlf_nil]

/-- what is delivered is the specification's meaning of the call (which disregards the zone the instant is written in) -/
theorem append_sem (cfg : Cfg) (m : List Nat) (flags : List Str) (time : Option ATime) (payload : Str) :
    [Cmd.append (canonMailbox m) (flags.map canonFlag) time payload].map canon = sem cfg (.append m flags time payload) := by
  have h1 : canonMailbox (canonMailbox m) = canonMailbox m := by
    have hi : isInbox inboxStr = true := by decide
    by_cases h : isInbox m = true <;> simp [canonMailbox, h, hi]
  simp [sem, semRaw, canon, h1, canonFlag_idem, Function.comp_def]

end GoImap.CmdLemmas
