/-
  Helper lemmas for C03: round trips of the wire primitives (Model/RespWire.lean).
-/
import GoImap.Model.RespWire
namespace GoImap.Resp

theorem decQuotedTail_esc_char (c : Nat) (r : Str) (_h : c = 34 ∨ c = 92) :
    decQuotedTail (92 :: c :: r) = (decQuotedTail r).map fun (a, b) => (c :: a, b) := by
  rw [decQuotedTail.eq_def]; rfl

theorem decQuotedTail_plain_char (c : Nat) (r : Str) (h1 : c ≠ 34) (h2 : c ≠ 92) :
    decQuotedTail (c :: r) = (decQuotedTail r).map fun (a, b) => (c :: a, b) := by
  rw [decQuotedTail.eq_def]
  split
  · contradiction
  · rename_i heq; injection heq with h _; exact absurd h h1
  · rename_i heq; injection heq with h _; exact absurd h h2
  · rename_i heq; injection heq with h _; exact absurd h h2
  · rename_i heq; injection heq with h h'; subst h; subst h'; rfl

/-- Decoder.Quoted undoes Encoder.Quoted on every byte string -/
theorem decQuotedTail_escQuoted (s rest : Str) : decQuotedTail (escQuoted s ++ 34 :: rest) = some (s, rest) := by
  induction s with
  | nil => simp [escQuoted, decQuotedTail]
  | cons c r ih =>
    by_cases h : c = 34 ∨ c = 92
    · have : escQuoted (c :: r) = 92 :: c :: escQuoted r := by simp [escQuoted, h]
      rw [this]
      show decQuotedTail (92 :: c :: (escQuoted r ++ 34 :: rest)) = _
      rw [decQuotedTail_esc_char c _ h, ih]; rfl
    · have : escQuoted (c :: r) = c :: escQuoted r := by simp [escQuoted, h]
      rw [this]
      show decQuotedTail (c :: (escQuoted r ++ 34 :: rest)) = _
      have h1 : c ≠ 34 := fun e => h (Or.inl e)
      have h2 : c ≠ 92 := fun e => h (Or.inr e)
      rw [decQuotedTail_plain_char c _ h1 h2, ih]; rfl

theorem decQuoted_encQuoted (s rest : Str) : decQuoted (encQuoted s ++ rest) = some (s, rest) := by
  show decQuoted (34 :: ((escQuoted s ++ [34]) ++ rest)) = _
  rw [List.append_assoc]
  exact decQuotedTail_escQuoted s rest

end GoImap.Resp
