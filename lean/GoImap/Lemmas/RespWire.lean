/-
  Helper lemmas for C03: round trips of the wire primitives (Model/RespWire.lean).
-/
import GoImap.Model.RespWire
import GoImap.Lemmas.NumSetDigits
namespace GoImap.Resp

theorem decQuotedTail_esc_char (c : Nat) (r : Str) (_h : c = 34 ∨ c = 92) :
    decQuotedTail (92 :: c :: r) = (decQuotedTail r).map fun (a, b) => (c :: a, b) := by
  rw [decQuotedTail.eq_def]; rfl

theorem decQuotedTail_plain_char (c : Nat) (r : Str) (h1 : c ≠ 34) (h2 : c ≠ 92) :
    decQuotedTail (c :: r) = (decQuotedTail r).map fun (a, b) => (c :: a, b) := by
  rw [decQuotedTail.eq_def]
  split
  · contradiction
  · rename_i heq; injection heq with h _; exact absurd h h1
  · rename_i heq; injection heq with h _; exact absurd h h2
  · rename_i heq; injection heq with h _; exact absurd h h2
  · rename_i heq; injection heq with h h'; subst h; subst h'; rfl

/-- Decoder.Quoted undoes Encoder.Quoted on every byte string -/
theorem decQuotedTail_escQuoted (s rest : Str) : decQuotedTail (escQuoted s ++ 34 :: rest) = some (s, rest) := by
  induction s with
  | nil => simp [escQuoted, decQuotedTail]
  | cons c r ih =>
    by_cases h : c = 34 ∨ c = 92
    · have : escQuoted (c :: r) = 92 :: c :: escQuoted r := by simp [escQuoted, h]
      rw [this]
      show decQuotedTail (92 :: c :: (escQuoted r ++ 34 :: rest)) = _
      rw [decQuotedTail_esc_char c _ h, ih]; rfl
    · have : escQuoted (c :: r) = c :: escQuoted r := by simp [escQuoted, h]
      rw [this]
      show decQuotedTail (c :: (escQuoted r ++ 34 :: rest)) = _
      have h1 : c ≠ 34 := fun e => h (Or.inl e)
      have h2 : c ≠ 92 := fun e => h (Or.inr e)
      rw [decQuotedTail_plain_char c _ h1 h2, ih]; rfl

theorem decQuoted_encQuoted (s rest : Str) : decQuoted (encQuoted s ++ rest) = some (s, rest) := by
  show decQuoted (34 :: ((escQuoted s ++ [34]) ++ rest)) = _
  rw [List.append_assoc]
  exact decQuotedTail_escQuoted s rest

end GoImap.Resp

namespace GoImap.Resp

/-! ### spans -/

/-- the input that follows does not continue a run of `p` -/
def StopsAt (p : Nat → Bool) (rest : Str) : Prop := ∀ c t, rest = c :: t → p c = false

theorem StopsAt.nil (p : Nat → Bool) : StopsAt p [] := by intro c t h; cases h
theorem StopsAt.cons {p : Nat → Bool} {c : Nat} (t : Str) (h : p c = false) : StopsAt p (c :: t) := by
  intro c' t' e; injection e with e1 _; subst e1; exact h

theorem spanB_append (p : Nat → Bool) (a rest : Str) (ha : ∀ x ∈ a, p x = true) (hr : StopsAt p rest) :
    spanB p (a ++ rest) = (a, rest) := by
  induction a with
  | nil =>
    cases rest with
    | nil => rfl
    | cons c t => simp [spanB, hr c t rfl]
  | cons x xs ih =>
    have hx : p x = true := ha x (by simp)
    have := ih (fun y hy => ha y (by simp [hy]))
    simp [spanB, hx, this]

/-! ### numbers -/

theorem isDig_toNat {c : Char} (h : NumSet.IsDig c) : isDigitB c.toNat = true ∧ c.toNat - 48 = NumSet.digitVal c := by
  obtain ⟨k, hk, rfl⟩ := h
  have : ∀ k, k < 10 → isDigitB (NumSet.dchar k).toNat = true ∧ (NumSet.dchar k).toNat - 48 = NumSet.digitVal (NumSet.dchar k) := by
    decide
  exact this k hk

theorem valB_map_toNat (l : List Char) (acc : Nat) :
    List.foldl (fun n c => n * 10 + (c - 48)) acc (l.map Char.toNat) = List.foldl (fun n c => n * 10 + NumSet.digitVal c) acc l := by
  induction l generalizing acc with
  | nil => rfl
  | cons c t ih => simp only [List.map_cons, List.foldl_cons]; rw [ih]; rfl

theorem encNumber_spec (n : Nat) :
    valB (encNumber n) = n ∧ (∀ x ∈ encNumber n, isDigitB x = true) ∧ encNumber n ≠ [] := by
  obtain ⟨h1, h2, h3, _⟩ := NumSet.digits_spec n
  refine ⟨?_, ?_, ?_⟩
  · unfold valB encNumber; rw [valB_map_toNat]; exact h1
  · intro x hx
    unfold encNumber at hx
    obtain ⟨c, hc, rfl⟩ := List.mem_map.mp hx
    exact (isDig_toNat (h2 c hc)).1
  · unfold encNumber; intro e; exact h3 (List.map_eq_nil_iff.mp e)

theorem decNumber_encNumber (n : Nat) (hn : n < 4294967296) (rest : Str) (hr : StopsAt isDigitB rest) :
    decNumber (encNumber n ++ rest) = some (n, rest) := by
  obtain ⟨h1, h2, h3⟩ := encNumber_spec n
  unfold decNumber
  rw [spanB_append _ _ _ h2 hr]
  cases hd : encNumber n with
  | nil => exact absurd hd h3
  | cons a l => simp only []; rw [← hd, h1]; simp [hn]

theorem decNumber64_encNumber (n : Nat) (hn : n < 9223372036854775808) (rest : Str) (hr : StopsAt isDigitB rest) :
    decNumber64 (encNumber n ++ rest) = some (n, rest) := by
  obtain ⟨h1, h2, h3⟩ := encNumber_spec n
  unfold decNumber64
  rw [spanB_append _ _ _ h2 hr]
  cases hd : encNumber n with
  | nil => exact absurd hd h3
  | cons a l => simp only []; rw [← hd, h1]; simp [hn]

/-! ### atoms, SP -/

theorem tryAtom_append (a rest : Str) (hne : a ≠ []) (ha : ∀ x ∈ a, isAtomChar x = true) (hr : StopsAt isAtomChar rest) :
    tryAtom (a ++ rest) = some (a, rest) := by
  unfold tryAtom
  rw [spanB_append _ _ _ ha hr]
  cases a with
  | nil => exact absurd rfl hne
  | cons x xs => rfl

theorem expectSP_sp (c : Nat) (r : Str) (h1 : c ≠ 13) (h2 : c ≠ 10) : expectSP (32 :: c :: r) = some (c :: r) := by
  simp [expectSP, decSP, h1, h2]

/-! ### literals and strings -/

theorem decCRLF_crlf (r : Str) : decCRLF (13 :: 10 :: r) = some r := by
  simp [decCRLF]

theorem decLiteral_encLiteral (s rest : Str) (hs : s.length < 9223372036854775808) :
    decLiteral (encLiteral s ++ rest) = some (s, rest) := by
  unfold encLiteral encLiteralHdr
  show decLiteral (123 :: ((encNumber s.length ++ [125, 13, 10]) ++ s ++ rest)) = _
  have e : (encNumber s.length ++ [125, 13, 10]) ++ s ++ rest = encNumber s.length ++ (125 :: 13 :: 10 :: (s ++ rest)) := by
    simp [List.append_assoc]
  rw [e]
  have hn := decNumber64_encNumber s.length hs (125 :: 13 :: 10 :: (s ++ rest)) (StopsAt.cons _ (by decide))
  simp only [decLiteral, hn, decCRLF_crlf]
  simp

theorem decString_encString (utf8 : Bool) (s rest : Str) (hs : s.length < 9223372036854775808) :
    decString (encString utf8 s ++ rest) = some (s, rest) := by
  unfold encString
  by_cases h : validQuoted utf8 s = true
  · rw [if_pos h]
    have := decQuoted_encQuoted s rest
    unfold encQuoted at this ⊢
    simpa [decString] using this
  · rw [if_neg h]
    have := decLiteral_encLiteral s rest hs
    unfold encLiteral encLiteralHdr at this ⊢
    simpa [decString] using this

theorem decNString_encNString (utf8 : Bool) (s rest : Str) (hs : s.length < 9223372036854775808)
    (hr : StopsAt isAtomChar rest) : decNString (encNString utf8 s ++ rest) = some (s, rest) := by
  unfold encNString
  cases s with
  | nil =>
    simp only [List.isEmpty_nil, if_true]
    unfold decNString
    rw [tryAtom_append NILb rest (by decide) (by decide) hr]
    simp
  | cons c t =>
    simp only [List.isEmpty_cons]
    have hd := decString_encString utf8 (c :: t) rest hs
    unfold decNString
    have hnone : tryAtom (encString utf8 (c :: t) ++ rest) = none := by
      unfold encString
      by_cases h : validQuoted utf8 (c :: t) = true
      · rw [if_pos h]; simp [encQuoted, tryAtom, spanB, isAtomChar]
      · rw [if_neg h]; simp [encLiteral, encLiteralHdr, tryAtom, spanB, isAtomChar]
    simp [hnone, hd]

end GoImap.Resp

namespace GoImap.Resp

/-! ### parenthesised lists -/

/-- an encoded item starts with a byte that is neither CR, LF nor `)` -/
def GoodHead (s : Str) : Prop := ∃ c t, s = c :: t ∧ c ≠ 13 ∧ c ≠ 10 ∧ c ≠ 41

/-- what may follow an item inside a list: `)` or SP -/
def ItemEnd (r : Str) : Prop := (∃ t, r = 41 :: t) ∨ (∃ t, r = 32 :: t)

theorem joinSP_cons_cons (a b : Str) (r : List Str) : joinSP (a :: b :: r) = a ++ 32 :: joinSP (b :: r) := rfl

theorem joinSP_head {α : Type} (enc : α → Str) (y : α) (zs : List α) (tail : Str) (c : Nat) (t : Str) (hc : enc y = c :: t) :
    ∃ u, joinSP ((y :: zs).map enc) ++ tail = c :: u := by
  cases zs with
  | nil => exact ⟨t ++ tail, by simp [joinSP, hc]⟩
  | cons w ws => exact ⟨t ++ 32 :: joinSP ((w :: ws).map enc) ++ tail, by simp [joinSP_cons_cons, hc]⟩

theorem decListItems_step_last {β : Type} (item : Str → Option (β × Str)) (fuel : Nat) (s rest : Str) (v : β)
    (h : item s = some (v, 41 :: rest)) : decListItems item (fuel + 1) s = some ([v], rest) := by
  simp [decListItems, h]

theorem decListItems_step_more {β : Type} (item : Str → Option (β × Str)) (fuel : Nat) (s : Str) (v : β) (c : Nat) (u : Str)
    (h : item s = some (v, 32 :: c :: u)) (h13 : c ≠ 13) (h10 : c ≠ 10) :
    decListItems item (fuel + 1) s = (decListItems item fuel (c :: u)).map fun (xs, r) => (v :: xs, r) := by
  simp [decListItems, h, expectSP_sp c u h13 h10]

theorem decListItems_joinSP {α β : Type} (item : Str → Option (β × Str)) (enc : α → Str) (f : α → β) :
    ∀ (xs : List α) (fuel : Nat) (rest : Str), xs ≠ [] → xs.length ≤ fuel →
      (∀ x ∈ xs, ∀ r, ItemEnd r → item (enc x ++ r) = some (f x, r)) →
      (∀ x ∈ xs, GoodHead (enc x)) →
      decListItems item fuel (joinSP (xs.map enc) ++ 41 :: rest) = some (xs.map f, rest) := by
  intro xs
  induction xs with
  | nil => intro fuel rest h; exact absurd rfl h
  | cons x ys ih =>
    intro fuel rest _ hlen hitem hhead
    cases fuel with
    | zero => simp at hlen
    | succ fuel =>
      cases ys with
      | nil =>
        have hx := hitem x (by simp) (41 :: rest) (Or.inl ⟨rest, rfl⟩)
        simp only [List.map_cons, List.map_nil, joinSP]
        exact decListItems_step_last item fuel _ rest (f x) hx
      | cons y zs =>
        obtain ⟨c, t, hc, h13, h10, _⟩ := hhead y (by simp)
        obtain ⟨u, hu⟩ := joinSP_head enc y zs (41 :: rest) c t hc
        have ih' := ih fuel rest (by simp) (by simp at hlen ⊢; omega)
          (fun z hz => hitem z (by simp at hz ⊢; exact Or.inr hz)) (fun z hz => hhead z (by simp at hz ⊢; exact Or.inr hz))
        rw [hu] at ih'
        have hx := hitem x (by simp) (32 :: c :: u) (Or.inr ⟨_, rfl⟩)
        have e : joinSP ((x :: y :: zs).map enc) ++ 41 :: rest = enc x ++ 32 :: c :: u := by
          simp only [List.map_cons] at hu ⊢
          rw [joinSP_cons_cons, List.append_assoc, List.cons_append, hu]
        rw [e, decListItems_step_more item fuel _ (f x) c u hx h13 h10, ih']
        rfl

theorem length_le_joinSP {α : Type} (enc : α → Str) : ∀ (xs : List α), (∀ x ∈ xs, GoodHead (enc x)) →
    xs.length ≤ (joinSP (xs.map enc)).length + 1 := by
  intro xs
  induction xs with
  | nil => intro _; simp
  | cons x ys ih =>
    intro h
    cases ys with
    | nil => simp
    | cons y zs =>
      have := ih (fun z hz => h z (by simp at hz ⊢; exact Or.inr hz))
      simp only [List.map_cons] at this ⊢
      rw [joinSP_cons_cons]
      simp only [List.length_cons, List.length_append] at this ⊢
      omega

theorem decList_encList {α β : Type} (item : Str → Option (β × Str)) (enc : α → Str) (f : α → β) (xs : List α) (rest : Str)
    (hitem : ∀ x ∈ xs, ∀ r, ItemEnd r → item (enc x ++ r) = some (f x, r))
    (hhead : ∀ x ∈ xs, GoodHead (enc x)) :
    decList item (encList (xs.map enc) ++ rest) = some (xs.map f, rest) := by
  unfold encList
  cases xs with
  | nil => simp [joinSP, decList]
  | cons x ys =>
    obtain ⟨c, t, hc, _, _, h41⟩ := hhead x (by simp)
    obtain ⟨u, hu⟩ := joinSP_head enc x ys (41 :: rest) c t hc
    have hlen := length_le_joinSP enc (x :: ys) hhead
    have e : 40 :: (joinSP ((x :: ys).map enc) ++ [41]) ++ rest = 40 :: c :: u := by
      rw [← hu]; simp
    rw [e]
    have hmain := decListItems_joinSP item enc f (x :: ys) ((c :: u).length + 1) rest (by simp)
      (by rw [← hu]; simp only [List.length_append, List.length_cons] at hlen ⊢; omega) hitem hhead
    rw [hu] at hmain
    have : decList item (40 :: c :: u) = decListItems item ((c :: u).length + 1) (c :: u) := by
      unfold decList
      split
      · rename_i heq; injection heq with _ h2; injection h2 with h3 _; exact absurd h3 h41
      · rename_i heq; injection heq with _ h2; subst h2; rfl
      · rename_i _ hne; exact absurd rfl (hne (c :: u))
    rw [this, hmain]

end GoImap.Resp
