/-
  C02 helper lemmas: the FETCH items as written and as read by handleFetchAtt.
-/
import GoImap.Lemmas.CmdGrammarFetchItem
namespace GoImap.CmdLemmas
open GoImap.CmdGrammar GoImap.CmdSpec

/-! ### body sections: the writer -/

def secWire (b : BodySec) : Wire :=
  kw "BODY" ++ (if b.peek then kw ".PEEK" else []) ++ [.b 91] ++ secBracket b ++ sliceWire b.slice

theorem wBodySec_ok (b : BodySec) (hok : SecOK b) : wBodySec b = .ok (secWire b) := by
  have hnil := fields_nil_of_spec b hok
  have hone := hok.one
  have h1 := wPart_ok b.part hok.part
  have h2 := wPartial_ok b.slice hok.slice
  unfold wBodySec secWire secBracket secInner
  simp only [h1, h2, bind, Except.bind, pure, Except.pure]
  obtain ⟨spec, part, fields, fieldsNot, slice, peek⟩ := b
  simp only at hnil hone ⊢
  have k1 : kw "HEADER" ++ kw ".FIELDS" = atom (str "HEADER.FIELDS") := by decide
  have k2 : kw "HEADER" ++ kw ".FIELDS.NOT" = atom (str "HEADER.FIELDS.NOT") := by decide
  cases spec with
  | none =>
    obtain ⟨e1, e2⟩ := hnil (by simp)
    subst e1 e2
    simp [specStr, hdrList, atom, List.append_assoc]
  | mime =>
    obtain ⟨e1, e2⟩ := hnil (by simp)
    subst e1 e2
    simp [specStr, hdrList, specName, kw, List.append_assoc]
  | text =>
    obtain ⟨e1, e2⟩ := hnil (by simp)
    subst e1 e2
    simp [specStr, hdrList, specName, kw, List.append_assoc]
  | header =>
    by_cases hf : fields = []
    · by_cases hfn : fieldsNot = []
      · subst hf hfn
        simp [specStr, hdrList, specName, kw, List.append_assoc]
      · subst hf
        have : (List.map (fun h => [Item.s h]) fieldsNot = []) = False := by simp [hfn]
        simp [specStr, hdrList, specName, hfn, ← k2, List.append_assoc]
    · have hfn : fieldsNot = [] := by
        rcases hone with h | h
        · exact absurd h hf
        · exact h
      subst hfn
      simp [specStr, hdrList, specName, hf, ← k1, List.append_assoc]

/-! ### binary sections -/

theorem pBinPartLoop_w : ∀ (p : List Int) (n : Int) (acc : List Int) (fuel : Nat) (rest : Wire),
    PartOK (n :: p) → p.length + 1 ≤ fuel →
    pBinPartLoop fuel acc (atom (digits n.toNat) ++ dotted p ++ (Item.b 93 :: rest)) = .ok (acc ++ n :: p, rest)
  | [], n, acc, fuel, rest, hok, hf => by
    obtain ⟨fuel, rfl⟩ : ∃ f, fuel = f + 1 := ⟨fuel - 1, by omega⟩
    have hn := hok n (by simp)
    have hcast : ((n.toNat : Nat) : Int) = n := Int.toNat_of_nonneg hn.1
    have hnum := pNumber_digits lim32 n.toNat (Item.b 93 :: rest) (by unfold lim32; omega) (by simp [Stops]; decide)
    simp only [pBinPartLoop, dotted, List.append_nil, hnum, bind, Except.bind, special, pSpecial, special_b, hcast]
    simp [pure, Except.pure]
  | m :: p, n, acc, fuel, rest, hok, hf => by
    obtain ⟨fuel, rfl⟩ : ∃ f, fuel = f + 1 := ⟨fuel - 1, by simp at hf; omega⟩
    have hn := hok n (by simp)
    have hcast : ((n.toNat : Nat) : Int) = n := Int.toNat_of_nonneg hn.1
    have hnum := pNumber_digits lim32 n.toNat (Item.b 46 :: (atom (digits m.toNat) ++ dotted p ++ (Item.b 93 :: rest)))
      (by unfold lim32; omega) (by simp [Stops]; decide)
    have ih := pBinPartLoop_w p m (acc ++ [n]) fuel rest (fun x hx => hok x (by simp [hx])) (by simp at hf ⊢; omega)
    simp only [dotted, List.append_assoc, List.cons_append] at hnum ih ⊢
    simp only [pBinPartLoop, hnum, bind, Except.bind, special_b, hcast, ih]
    simp

def binBracket (p : List Int) : Wire := [.b 91] ++ partWire p ++ [.b 93]

theorem pSectionBinary_w (p : List Int) (rest : Wire) (hok : PartOK p) :
    pSectionBinary (binBracket p ++ rest) = .ok (p, rest) := by
  unfold binBracket pSectionBinary
  cases p with
  | nil => simp [partWire, pSpecial, special, bind, Except.bind, pure, Except.pure]
  | cons n p =>
    obtain ⟨c0, r0, hhead, hd0⟩ := partWire_head (n :: p) (by simp)
    have h93 : special 93 (partWire (n :: p) ++ ([Item.b 93] ++ rest)) = none := by
      rw [hhead]
      have : c0 ≠ 93 := by intro he; subst he; revert hd0; decide
      simp [special, this]
    have hlen : p.length + 1 ≤ (partWire (n :: p) ++ ([Item.b 93] ++ rest)).length := by
      have := partWire_length (n :: p)
      simp only [List.length_append, List.length_cons] at this ⊢; omega
    have hloop := pBinPartLoop_w p n [] _ rest hok hlen
    rw [partWire_cons] at h93 hlen hloop ⊢
    simp only [List.append_assoc, List.singleton_append, List.cons_append, List.nil_append, pSpecial, special_b, bind, Except.bind] at h93 hloop ⊢
    simp only [h93, hloop]

def binWire (b : BinSec) : Wire := kw "BINARY" ++ (if b.peek then kw ".PEEK" else []) ++ binBracket b.part ++ sliceWire b.slice
def binSizeWire (p : List Int) : Wire := kw "BINARY.SIZE" ++ binBracket p

structure BinOK (b : BinSec) : Prop where
  part : PartOK b.part
  slice : SliceOK b.slice

theorem wBinSec_ok (b : BinSec) (h : BinOK b) : wBinSec b = .ok (binWire b) := by
  simp [wBinSec, binWire, binBracket, wPart_ok b.part h.part, wPartial_ok b.slice h.slice, bind, Except.bind, pure, Except.pure,
    List.append_assoc]

theorem wBinSize_ok (p : List Int) (h : PartOK p) : wBinSize p = .ok (binSizeWire p) := by
  simp [wBinSize, binSizeWire, binBracket, wPart_ok p h, bind, Except.bind, pure, Except.pure, List.append_assoc]

end GoImap.CmdLemmas
