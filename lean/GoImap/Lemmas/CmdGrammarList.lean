/-
  C02 helper lemmas: parenthesised lists — `Encoder.List` (items joined by spaces) against the loop
  of `Decoder.List`.
-/
import GoImap.Lemmas.CmdGrammarSimple
namespace GoImap.CmdLemmas
open GoImap.CmdGrammar GoImap.CmdSpec

theorem special_b (c : Nat) (r : Wire) : special c (.b c :: r) = some r := by simp [special]

theorem special_sp_ne (c : Nat) (h : c ≠ 32) (r : Wire) : special c (sp ++ r) = none := by
  simp only [sp, List.singleton_append, special]
  have : ¬ (32 = c) := fun e => h e.symm
  simp [this]

/-- what the generic list lemma needs to know about the items: `W a` is the text of a valid (`V`) item `a`,
    the item parser turns it into `f st a` whenever what follows is a separator (`Ok`), an item never
    starts with `)` or an end of line, and is not empty -/
structure ItemSpec {σ α : Type} (item : σ → P σ) (W : α → Wire) (f : σ → α → σ) (V : α → Prop) (Ok : Wire → Prop) : Prop where
  parse : ∀ st a tail, V a → Ok tail → item st (W a ++ tail) = .ok (f st a, tail)
  okClose : ∀ rest, Ok (.b 41 :: rest)
  okSp : ∀ rest, Ok (sp ++ rest)
  notEol : ∀ a tail, V a → NotEol (W a ++ tail)
  notClose : ∀ a tail, V a → special 41 (W a ++ tail) = none
  nonEmpty : ∀ a, V a → 1 ≤ (W a).length

theorem listLoop_join {σ α : Type} {item : σ → P σ} {W : α → Wire} {f : σ → α → σ} {V : α → Prop} {Ok : Wire → Prop}
    (hs : ItemSpec item W f V Ok) :
    ∀ (as : List α) (a : α) (st : σ) (fuel : Nat) (rest : Wire), (∀ x ∈ a :: as, V x) → as.length + 1 ≤ fuel →
      listLoop item fuel st (joinSp ((a :: as).map W) ++ (.b 41 :: rest)) = .ok ((a :: as).foldl f st, rest)
  | [], a, st, fuel, rest, hv, hf => by
    cases fuel with
    | zero => omega
    | succ fuel =>
      simp only [List.map_cons, List.map_nil, joinSp, listLoop, bind, Except.bind]
      rw [hs.parse st a _ (hv a (by simp)) (hs.okClose rest)]
      simp [special_b, pure, Except.pure]
  | b :: as, a, st, fuel, rest, hv, hf => by
    cases fuel with
    | zero => omega
    | succ fuel =>
      have hvb : V b := hv b (by simp)
      have ih := listLoop_join hs as b (f st a) fuel rest (fun x hx => hv x (by simp [hx])) (by simp at hf ⊢; omega)
      simp only [List.map_cons, joinSp, List.append_assoc] at ih ⊢
      simp only [listLoop, bind, Except.bind]
      rw [hs.parse st a _ (hv a (by simp)) (hs.okSp _)]
      simp only
      rw [special_sp_ne 41 (by decide)]
      simp only
      rw [pSP_sp _ (by
        cases as with
        | nil => simpa [joinSp] using hs.notEol b (.b 41 :: rest) hvb
        | cons c as => simpa [joinSp, List.append_assoc] using hs.notEol b _ hvb)]
      simp only [List.foldl_cons]
      exact ih

theorem joinSp_length_ge {α : Type} (W : α → Wire) (V : α → Prop) (h : ∀ a, V a → 1 ≤ (W a).length) :
    ∀ (as : List α), (∀ x ∈ as, V x) → as.length ≤ (joinSp (as.map W)).length
  | [], _ => by simp [joinSp]
  | [a], hv => by simpa [joinSp] using h a (hv a (by simp))
  | a :: b :: as, hv => by
    have := joinSp_length_ge W V h (b :: as) (fun x hx => hv x (by simp [hx]))
    have := h a (hv a (by simp))
    simp only [List.map_cons, joinSp, List.length_append, List.length_cons] at *
    omega

/-- `Encoder.List` read back by `Decoder.List` -/
theorem pListOpt_wList {σ α : Type} {item : σ → P σ} {W : α → Wire} {f : σ → α → σ} {V : α → Prop} {Ok : Wire → Prop}
    (hs : ItemSpec item W f V Ok) (as : List α) (hv : ∀ x ∈ as, V x) (st : σ) (rest : Wire) :
    pListOpt item st (wList (as.map W) ++ rest) = .ok (some (as.foldl f st), rest) := by
  unfold pListOpt wList
  simp only [List.append_assoc, List.cons_append, List.nil_append, special_b]
  cases as with
  | nil => simp [joinSp, special_b]
  | cons a as =>
    have hva : V a := hv a (by simp)
    have hnc : special 41 (joinSp ((a :: as).map W) ++ (.b 41 :: rest)) = none := by
      cases as with
      | nil => simpa [joinSp] using hs.notClose a _ hva
      | cons b as => simpa [joinSp, List.append_assoc] using hs.notClose a _ hva
    simp only [hnc]
    have hlen : as.length + 1 ≤ (joinSp ((a :: as).map W) ++ (.b 41 :: rest)).length := by
      have := joinSp_length_ge W V hs.nonEmpty (a :: as) hv
      simp only [List.length_append, List.length_cons] at this ⊢
      omega
    rw [listLoop_join hs as a st _ rest hv hlen]
    simp [bind, Except.bind, pure, Except.pure]

theorem pList_wList {σ α : Type} {item : σ → P σ} {W : α → Wire} {f : σ → α → σ} {V : α → Prop} {Ok : Wire → Prop}
    (hs : ItemSpec item W f V Ok) (as : List α) (hv : ∀ x ∈ as, V x) (st : σ) (rest : Wire) :
    pList item st (wList (as.map W) ++ rest) = .ok (as.foldl f st, rest) := by
  unfold pList
  rw [pListOpt_wList hs as hv]
  simp [bind, Except.bind, pure, Except.pure]

end GoImap.CmdLemmas
