/-
  C02 helper lemmas: LIST with the items of RETURN (STATUS (…)) written in any order.
-/
import GoImap.Lemmas.CmdGrammarPermSearch
namespace GoImap.CmdLemmas
open GoImap.CmdGrammar GoImap.CmdSpec

/-- the return items with the STATUS items in the order `l` -/
def retItemsWith (o : ListOpts) (l : List SItem) : List RetItem :=
  (if o.retSubscribed then [.subscribed] else []) ++ (if o.retChildren then [.children] else []) ++
  (match o.retStatus with | none => [] | some _ => [.status l])

def returnWireWith (o : ListOpts) (l : List SItem) : Wire :=
  if retItemsWith o l = [] then [] else sp ++ (kw "RETURN" ++ (sp ++ wList ((retItemsWith o l).map RetItem.wire)))

/-- the order `l` is one the client can produce for the STATUS items of `o` -/
def StatusOrder (o : ListOpts) (l : List SItem) : Prop :=
  match o.retStatus with
  | none => True
  | some st => l.Perm (sItems st)

theorem foldl_retItemsWith (o1 o : ListOpts) (l : List SItem) (h : o.retSpecialUse = false)
    (hst : ∀ st, o.retStatus = some st → st.highestModSeq = false) (hl : StatusOrder o l)
    (h1 : o1 = { o with retSubscribed := false, retChildren := false, retStatus := none }) :
    (retItemsWith o l).foldl RetItem.set o1 = o := by
  obtain ⟨a, b, c, d, e, f, g, i⟩ := o
  simp only at h hst
  subst h h1
  cases i with
  | none => cases e <;> cases f <;> simp [retItemsWith, RetItem.set]
  | some st =>
    have := foldl_perm st (hst st rfl) l hl
    cases e <;> cases f <;> simp [retItemsWith, RetItem.set, this]

/-- every way of writing the RETURN part -/
theorem lin_return (o : ListOpts) (h : o.retSpecialUse = false)
    (hst : ∀ st, o.retStatus = some st → st.highestModSeq = false) (w : Wire) (hl : Lin (listReturnSegs o) w) :
    ∃ l, StatusOrder o l ∧ w = returnWireWith o l := by
  obtain ⟨a, b, c, d, e, f, g, i⟩ := o
  simp only at h hst
  subst h
  cases i with
  | none =>
    refine ⟨[], trivial, ?_⟩
    cases e <;> cases f
    · simp only [listReturnSegs, Bool.false_eq_true, if_false, List.append_nil, if_true] at hl
      have := lin_nil hl
      subst this
      simp [returnWireWith, retItemsWith]
    all_goals
      simp only [listReturnSegs, Bool.false_eq_true, if_false, if_true, List.append_nil, List.nil_append] at hl
      simp (decide := true) only [if_false] at hl
      obtain ⟨w1, rfl, h1⟩ := lin_fixed_cons hl
      have := lin_nil h1
      subst this
      simp [returnWireWith, retItemsWith, RetItem.wire, List.append_assoc]
  | some st =>
    have hs := statusItems_eq st (hst st rfl)
    simp only [listReturnSegs] at hl
    obtain ⟨w1, rfl, h1⟩ := lin_fixed_cons hl
    obtain ⟨perm, w2, hperm, rfl, h2⟩ := lin_any_cons h1
    obtain ⟨w3, rfl, h3⟩ := lin_fixed_cons h2
    have := lin_nil h3
    subst this
    rw [hs] at hperm
    obtain ⟨l, hl', rfl⟩ := perm_map_inv SItem.wire hperm (sItems st) rfl
    refine ⟨l, hl', ?_⟩
    cases e <;> cases f <;>
      simp [returnWireWith, retItemsWith, RetItem.wire, wList, joinSp, List.append_assoc]

theorem pListRet_with (o1 o : ListOpts) (l : List SItem) (ho : ListOK o) (hl : StatusOrder o l)
    (h1 : o1 = { o with retSubscribed := false, retChildren := false, retStatus := none }) :
    pListRet o1 (returnWireWith o l ++ crlf) = .ok (o, crlf) := by
  unfold returnWireWith pListRet
  by_cases hnil : retItemsWith o l = []
  · have : o1 = o := by
      have := foldl_retItemsWith o1 o l ho.noRetSU ho.status hl h1
      rw [hnil] at this
      simpa using this
    simp [hnil, decSP_crlf, this, pure, Except.pure]
  · have hlist := pList_wList retItemSpec (retItemsWith o l) (fun _ _ => trivial) o1 crlf
    rw [foldl_retItemsWith o1 o l ho.noRetSU ho.status hl h1] at hlist
    have hk : ∀ r : Wire, decSP (sp ++ (atom (str "RETURN") ++ r)) = (true, atom (str "RETURN") ++ r) := by
      intro r; simp [sp, str, atom, decSP]
    have hu : upper (str "RETURN") = str "RETURN" := by decide
    simp only [hnil, if_false, List.append_assoc, kw, hk, if_true,
      pAtom_atom (str "RETURN") _ (by decide) (by decide) (stops_sp_atom _), bind, Except.bind, hu, ne_eq, not_true_eq_false,
      pSP_sp _ (notEol_wList _ _), hlist]

/-- LIST written with the STATUS items in the order `l` -/
theorem parse_list_wire (cfg : Cfg) (tag : Nat) (ref pat : List Nat) (o : ListOpts) (l : List SItem)
    (hr : MailboxOK ref) (hp : MailboxOK pat) (ho : ListOK o) (hl : StatusOrder o l) :
    parseOne cfg (tagW tag ++ (atom (str "LIST") ++ ((if selItems o = [] then [] else sp ++ wList ((selItems o).map SelItem.wire)) ++
        (sp ++ (wMailbox ref ++ (sp ++ (wMailbox pat ++ (returnWireWith o l ++ crlf)))))))) =
      .ok (sem cfg (.list ref [pat] o), []) := by
  have hstop : Stops isAtomChar ((if selItems o = [] then ([] : Wire) else sp ++ wList ((selItems o).map SelItem.wire)) ++
        (sp ++ (wMailbox ref ++ (sp ++ (wMailbox pat ++ (returnWireWith o l ++ crlf)))))) := by
    by_cases hs : selItems o = [] <;> simp only [hs, if_true, if_false, List.nil_append, List.append_assoc] <;> exact stops_sp_atom _
  rw [parse_plain cfg tag (str "LIST") _ (isName_kw "LIST") (by decide) hstop, dispatch_list]
  have hstopPat : Stops isListChar (returnWireWith o l ++ crlf) := by
    unfold returnWireWith
    by_cases hnil : retItemsWith o l = []
    · simpa [hnil] using stops_listChar_crlf
    · simp only [hnil, if_false, List.append_assoc]; exact stops_listChar_sp _
  have hpat := pListPats_w pat (returnWireWith o l ++ crlf) hp hstopPat
  have htail := pListRet_with { o with retSubscribed := false, retChildren := false, retStatus := none } o l ho hl rfl
  have hrec : (o.selRecursive && !o.selSubscribed) = false := by
    cases h1 : o.selRecursive <;> cases h2 : o.selSubscribed <;> simp
    exact absurd (ho.recSub h1) (by simp [h2])
  have hsem : sem cfg (.list ref [pat] o) = [.list (canonMailbox ref) (if canonMailbox pat = [] then [] else [canonMailbox pat]) o] := by
    by_cases hpn : pat = []
    · subst hpn; simp [sem, semRaw, canon, canonMailbox_eq_nil]
    · have : canonMailbox pat ≠ [] := fun h => hpn ((canonMailbox_eq_nil pat).mp h)
      simp [sem, semRaw, canon, hpn, this]
  have hsel : pListSel ((if selItems o = [] then ([] : Wire) else wList ((selItems o).map SelItem.wire) ++ sp) ++
        (wMailbox ref ++ (sp ++ (wMailbox pat ++ (returnWireWith o l ++ crlf))))) =
      .ok ({ o with retSubscribed := false, retChildren := false, retStatus := none }, wMailbox ref ++ (sp ++ (wMailbox pat ++ (returnWireWith o l ++ crlf)))) := by
    by_cases hs : selItems o = []
    · have ho1 : ({} : ListOpts) = { o with retSubscribed := false, retChildren := false, retStatus := none } := by
        have := foldl_selItems o ho.noSelSU
        rw [hs] at this
        simp only [List.foldl_nil] at this
        rw [this]
        obtain ⟨a, b, c, d, e, f, g, i⟩ := o
        have := ho.noRetSU
        simp only at this
        subst this
        rfl
      simp only [hs, if_true, List.nil_append, pListSel_none, ho1]
    · simp only [hs, if_false, List.append_assoc]
      exact pListSel_some o ho ref _
  have hne : NotEol ((if selItems o = [] then ([] : Wire) else wList ((selItems o).map SelItem.wire) ++ sp) ++
        (wMailbox ref ++ (sp ++ (wMailbox pat ++ (returnWireWith o l ++ crlf))))) := by
    by_cases hs : selItems o = []
    · simpa [hs] using notEol_wMailbox ref _
    · simp only [hs, if_false, List.append_assoc]; exact notEol_wList _ _
  have hshape : ((if selItems o = [] then ([] : Wire) else sp ++ wList ((selItems o).map SelItem.wire)) ++
        (sp ++ (wMailbox ref ++ (sp ++ (wMailbox pat ++ (returnWireWith o l ++ crlf)))))) =
      sp ++ ((if selItems o = [] then ([] : Wire) else wList ((selItems o).map SelItem.wire) ++ sp) ++
        (wMailbox ref ++ (sp ++ (wMailbox pat ++ (returnWireWith o l ++ crlf))))) := by
    by_cases hs : selItems o = [] <;> simp [hs]
  rw [hshape]
  simp only [one, pListCmd, bind, Except.bind, pSP_sp _ hne, hsel, pMailbox_wMailbox ref _ hr (stops_sp_atom _),
    pSP_sp _ (notEol_wMailbox _ _), hpat, htail, pCRLF_crlf_nil, hrec, hsem]
  simp [pure, Except.pure]

/-- LIST: delivered whatever order the items of RETURN (STATUS (…)) are written in -/
theorem list_delivers (cfg : Cfg) (tag : Nat) (ref pat : List Nat) (o : ListOpts)
    (hr : MailboxOK ref) (hp : MailboxOK pat) (ho : ListOK o) :
    Delivers {} cfg tag (.list ref [pat] o) (sem cfg (.list ref [pat] o)) := by
  have hw : wBody {} cfg (.list ref [pat] o) =
      .ok [Seg.fixed (kw "LIST" ++ (if listSelectOpts o = [] then [] else sp ++ wList (listSelectOpts o)) ++ sp ++ wMailbox ref ++ sp ++ wMailbox pat)
            :: listReturnSegs o] := by
    simp [wBody]
  apply delivers_single cfg tag _ _ _ hw
  intro w hlin
  obtain ⟨w1, rfl, h1⟩ := lin_fixed_cons hlin
  obtain ⟨l, hl, rfl⟩ := lin_return o ho.noRetSU ho.status w1 h1
  have := parse_list_wire cfg tag ref pat o l hr hp ho hl
  rw [listSelectOpts_eq o ho.noSelSU]
  by_cases hs : selItems o = []
  · simp only [hs, List.map_nil, if_true, List.append_nil, List.nil_append, kw, List.append_assoc] at this ⊢
    exact this
  · have hne : ¬ ((selItems o).map SelItem.wire = []) := by simpa using hs
    simp only [hs, hne, if_false, kw, List.append_assoc] at this ⊢
    exact this

end GoImap.CmdLemmas
