/-
  `contains` on a canonical set is "some range contains q"; `dynamic` is "some range has
  stop = 0".
-/
import GoImap.Lemmas.NumSetSearch
namespace GoImap.NumSet

theorem Range.less_not_contains (r : Range) (q : Nat) (h : r.less q = true) (hq : q ≠ 0) :
    r.contains q = false := by
  rw [Range.less_iff] at h
  rw [Bool.eq_false_iff]
  intro hc
  rw [Range.contains_iff] at hc
  omega

theorem contains_eq_any (s : Set) (lo : Nat) (h : CanonFrom lo s) (q : Nat) (hq : q ≠ 0) :
    contains s q = s.any (fun r => r.contains q) := by
  have hm := canon_mono s lo h q
  obtain ⟨h1, h2, h3, h4⟩ := search_spec s q hm
  unfold contains
  rw [h4]
  generalize (search s q).1 = i at h1 h2 h3
  rw [Bool.eq_iff_iff]
  simp only [ne_eq, hq, not_false_eq_true, decide_true, Bool.and_true, Bool.and_eq_true,
    decide_eq_true_eq, List.any_eq_true]
  constructor
  · rintro ⟨hi, hc⟩
    exact ⟨_, getD_mem s i hi, hc⟩
  · rintro ⟨r, hr, hc⟩
    obtain ⟨j, hj, rfl⟩ := List.getElem_of_mem hr
    rw [← getD_eq_getElem s j hj] at hc
    rcases Nat.lt_trichotomy j i with hlt | heq | hgt
    · have := Range.less_not_contains _ q (h2 j hlt) hq
      rw [this] at hc; cases hc
    · subst heq; exact ⟨hj, hc⟩
    · exfalso
      have hb := canon_before s lo h i j hgt hj
      have hnl := h3 (by omega)
      rw [Range.contains_iff] at hc
      have hnl' : ¬ ((s.getD i zeroR).less q = true) := by rw [hnl]; exact Bool.false_ne_true
      rw [Range.less_iff] at hnl'
      omega

theorem dynamic_cons_cons (r r' : Range) (rest : Set) :
    dynamic (r :: r' :: rest) = dynamic (r' :: rest) := by
  simp [dynamic, List.getLast?_cons_cons]

theorem dynamic_single (r : Range) : dynamic [r] = decide (r.stop = 0) := by
  simp [dynamic]

/-- on a canonical set only the last element can be dynamic -/
theorem dynamic_eq_any (s : Set) : ∀ lo, CanonFrom lo s →
    dynamic s = s.any (fun r => r.contains 0) := by
  induction s with
  | nil => intro lo _; rfl
  | cons r rest ih =>
    intro lo h
    cases rest with
    | nil => simp [dynamic_single, Range.contains]
    | cons r' rest' =>
      rw [dynamic_cons_cons, ih _ h.tail]
      have h3 : r.stop ≠ 0 := h.2.2.1 (by simp)
      have : r.contains 0 = false := by simp [Range.contains, h3]
      rw [List.any_cons (a := r), this, Bool.false_or]

end GoImap.NumSet
