/-
  C12: invariants of the mirrored client that hold for every transcript (conformant or not).
-/
import GoImap.Lemmas.ClientSMSim
namespace GoImap.ClientLemmas
open GoImap.ClientSM GoImap.ClientSpec

/-- the Go code dereferences c.mailbox whenever c.state == selected -/
def HasMbox (m : St) : Prop := m.state = .selected → m.mbox.isSome = true

theorem hasMbox_closeAll (m : St) : HasMbox (closeAll {} m) := by
  intro h; simp [closeAll] at h

theorem hasMbox_setPending (m : St) (p : List Cmd) (h : HasMbox m) : HasMbox (setPending m p) := h
theorem hasMbox_addUni (m : St) (u : Uni) (h : HasMbox m) : HasMbox (addUni m u) := h
theorem hasMbox_updMbox (m : St) (f : Mbox → Mbox) (h : HasMbox m) : HasMbox (updMbox m f) := by
  unfold updMbox
  split
  · intro hs; simp at hs ⊢; exact h hs
  · exact h

theorem hasMbox_stepSubmit (m : St) (k : Kind) (b : Bool) (h : HasMbox m) : HasMbox (stepSubmit {} m k b) := by
  unfold stepSubmit
  simp only []
  split
  · exact hasMbox_closeAll _
  · split <;> exact h

theorem hasMbox_completeState (m : St) (c : Cmd) (s : Status) (h : HasMbox m) : HasMbox (completeState {} m c s) := by
  unfold completeState
  split
  · split
    · intro hs; simp at hs
    · exact h
  · split
    · intro hs; simp at hs
    · exact h
  · split
    · intro _; rfl
    · split
      · intro hs; simp at hs
      · exact h
  · exact h

theorem hasMbox_noteCaps (m : St) (s : Status) (code : Code) (k : Kind) (h : HasMbox m) : HasMbox (noteCaps m s code k) := by
  unfold noteCaps; split <;> exact h

theorem hasMbox_stepTagged (m : St) (t : Nat) (s : Status) (code : Code) (h : HasMbox m) :
    HasMbox (stepTagged {} m t s code) := by
  unfold stepTagged
  split
  · exact hasMbox_closeAll _
  · simp only []
    split
    · exact hasMbox_closeAll _
    · apply hasMbox_noteCaps
      apply hasMbox_completeState
      exact h

theorem hasMbox_stepOpen (m : St) (ev : Ev) (h : HasMbox m) : HasMbox (stepOpen {} m ev) := by
  cases ev <;> simp only [stepOpen]
  case submit k => exact hasMbox_stepSubmit m k false h
  case «begin» k => exact hasMbox_stepSubmit m k true h
  case greet g c =>
    split
    · exact h
    · cases g
      · intro hs; simp at hs
      · intro hs; simp at hs
      · exact hasMbox_closeAll _
  case cont =>
    split
    · exact h
    · exact hasMbox_closeAll _
  case tagged t s c => exact hasMbox_stepTagged m t s c h
  case closedCode => intro hs; simp at hs
  case byeClose => exact hasMbox_closeAll _
  all_goals
    first
    | exact h
    | (split <;> first | exact hasMbox_setPending _ _ h | exact h
                       | exact hasMbox_addUni _ _ h
                       | exact hasMbox_addUni _ _ (hasMbox_updMbox _ _ h)
                       | exact hasMbox_setPending _ _ (hasMbox_updMbox _ _ h))

theorem hasMbox_step (m : St) (ev : Ev) (h : HasMbox m) : HasMbox (step m ev) := by
  unfold step stepWith
  split
  · split
    · exact hasMbox_stepSubmit _ _ _ h
    · exact hasMbox_stepSubmit _ _ _ h
    · exact h
  · exact hasMbox_stepOpen m ev h

theorem hasMbox_run (tr : List Ev) : HasMbox (run tr) := by
  unfold run
  have : ∀ (tr : List Ev) (m : St), HasMbox m → HasMbox (tr.foldl step m) := by
    intro tr
    induction tr with
    | nil => intro m h; exact h
    | cons ev rest ih => intro m h; exact ih _ (hasMbox_step m ev h)
  exact this tr init (by intro h; simp [init] at h)

/-- the tags of all commands the client knows of: completed ones, then pending ones -/
def tagsOf (m : St) : List Nat := m.done.map (·.tag) ++ m.pending.map (·.tag)

/-- every tag handed out so far (1..cmdTag) is either completed or pending, exactly once -/
def TagsOK (m : St) : Prop := (tagsOf m).Perm (List.range' 1 m.tagCtr)

theorem updFirst_tags (p : Cmd → Bool) (f : Cmd → Cmd) (hf : ∀ c, (f c).tag = c.tag) :
    (l l' : List Cmd) → updFirst p f l = some l' → l'.map (·.tag) = l.map (·.tag)
  | [], _, h => by simp [updFirst] at h
  | c :: l, l', h => by
    unfold updFirst at h
    split at h
    · cases h; simp [hf]
    · cases hu : updFirst p f l with
      | none => simp [hu] at h
      | some r =>
        simp [hu] at h
        subst h
        simp [updFirst_tags p f hf l r hu]

theorem removeTag_perm (t : Nat) :
    (l : List Cmd) → (c : Cmd) → (rest : List Cmd) → removeTag t l = some (c, rest) →
      l.Perm (c :: rest) ∧ c.tag = t
  | [], _, _, h => by simp [removeTag] at h
  | d :: l, c, rest, h => by
    unfold removeTag at h
    split at h
    · rename_i ht
      cases h
      exact ⟨List.Perm.refl _, ht⟩
    · cases hr : removeTag t l with
      | none => simp [hr] at h
      | some x =>
        obtain ⟨c', r'⟩ := x
        simp [hr] at h
        obtain ⟨h1, h2⟩ := h
        subst h1 h2
        obtain ⟨hp, ht⟩ := removeTag_perm t l c' r' hr
        exact ⟨(List.Perm.cons d hp).trans (List.Perm.swap c' d r'), ht⟩

theorem setData_tag (g : Data → Data) (c : Cmd) : (setData g c).tag = c.tag := rfl
theorem recvFetch_tag (x : Msg) (c : Cmd) : (recvFetch x c).tag = c.tag := by
  unfold recvFetch; split <;> rfl
theorem recvList_tag (x : Nat) (c : Cmd) : (recvList c x).tag = c.tag := by
  unfold recvList; split <;> rfl

theorem tagsOK_closeAll (m : St) (h : TagsOK m) : TagsOK (closeAll {} m) := by
  unfold TagsOK tagsOf at *
  simp [closeAll, finish, Function.comp_def] at h ⊢
  exact h

theorem tagsOK_same (m m' : St) (hd : m'.done = m.done) (hp : m'.pending.map (·.tag) = m.pending.map (·.tag))
    (hc : m'.tagCtr = m.tagCtr) (h : TagsOK m) : TagsOK m' := by
  unfold TagsOK tagsOf at *
  rw [hd, hp, hc]; exact h

theorem tagsOK_stepSubmit (m : St) (k : Kind) (b : Bool) (h : TagsOK m) : TagsOK (stepSubmit {} m k b) := by
  have base : TagsOK { m with tagCtr := m.tagCtr + 1, pending := m.pending ++ [{ tag := m.tagCtr + 1, kind := k }],
                              wantCap := if k = .capability then false else m.wantCap } := by
    unfold TagsOK tagsOf at *
    simp only [List.map_append, List.map_cons, List.map_nil]
    rw [← List.append_assoc, List.range'_1_concat, Nat.add_comm 1 m.tagCtr]
    exact List.Perm.append_right _ h
  unfold stepSubmit
  simp only []
  split
  · exact tagsOK_closeAll _ base
  · split
    · exact tagsOK_same _ _ rfl rfl rfl base
    · exact base

theorem completeState_frame (m : St) (c : Cmd) (s : Status) :
    (completeState {} m c s).done = m.done ∧ (completeState {} m c s).pending = m.pending ∧
    (completeState {} m c s).tagCtr = m.tagCtr := by
  unfold completeState
  split
  · split <;> exact ⟨rfl, rfl, rfl⟩
  · split <;> exact ⟨rfl, rfl, rfl⟩
  · split
    · exact ⟨rfl, rfl, rfl⟩
    · split <;> exact ⟨rfl, rfl, rfl⟩
  · exact ⟨rfl, rfl, rfl⟩

theorem noteCaps_frame (m : St) (s : Status) (code : Code) (k : Kind) :
    (noteCaps m s code k).done = m.done ∧ (noteCaps m s code k).pending = m.pending ∧
    (noteCaps m s code k).tagCtr = m.tagCtr := by
  unfold noteCaps; split <;> exact ⟨rfl, rfl, rfl⟩

theorem tagsOK_post (st1 : St) (c : Cmd) (s : Status) (code : Code) (k : Kind) (base : TagsOK st1) :
    TagsOK (noteCaps (completeState {} st1 c s) s code k) := by
  obtain ⟨a1, a2, a3⟩ := noteCaps_frame (completeState {} st1 c s) s code k
  obtain ⟨b1, b2, b3⟩ := completeState_frame st1 c s
  exact tagsOK_same _ _ (a1.trans b1) (by rw [a2, b2]) (a3.trans b3) base

theorem tagsOK_stepTagged (m : St) (t : Nat) (s : Status) (code : Code) (h : TagsOK m) :
    TagsOK (stepTagged {} m t s code) := by
  unfold stepTagged
  split
  · exact tagsOK_closeAll _ h
  · rename_i c rest hr
    obtain ⟨hp, _⟩ := removeTag_perm t m.pending c rest hr
    simp only []
    have base : TagsOK { m with pending := rest, done := m.done ++ [finish (applyCode code c) s code.id],
                                blocked := if m.blocked = some t then none else m.blocked } := by
      unfold TagsOK tagsOf at *
      simp only [List.map_append, List.map_cons, List.map_nil, finish, applyCode_tag]
      refine List.Perm.trans ?_ h
      rw [List.append_assoc]
      apply List.Perm.append_left
      exact ((hp.map (·.tag)).symm)
    split
    · exact tagsOK_closeAll _ (tagsOK_post _ _ _ _ _ base)
    · exact tagsOK_post _ _ _ _ _ base

theorem tagsOK_upd (m : St) (p : Cmd → Bool) (f : Cmd → Cmd) (hf : ∀ c, (f c).tag = c.tag) (l' : List Cmd)
    (hu : updFirst p f m.pending = some l') (h : TagsOK m) : TagsOK (setPending m l') :=
  tagsOK_same m (setPending m l') rfl (updFirst_tags p f hf m.pending l' hu) rfl h

theorem tagsOK_addUni (m : St) (u : Uni) (h : TagsOK m) : TagsOK (addUni m u) := tagsOK_same _ _ rfl rfl rfl h

theorem updMbox_frame (m : St) (f : Mbox → Mbox) :
    (updMbox m f).done = m.done ∧ (updMbox m f).pending = m.pending ∧ (updMbox m f).tagCtr = m.tagCtr := by
  unfold updMbox; split <;> exact ⟨rfl, rfl, rfl⟩

theorem tagsOK_updMbox (m : St) (f : Mbox → Mbox) (h : TagsOK m) : TagsOK (updMbox m f) := by
  obtain ⟨a, b, c⟩ := updMbox_frame m f
  exact tagsOK_same _ _ a (by rw [b]) c h


/-- the shape shared by every handle* function: update the first matching command, else fall back -/
theorem tagsOK_route (m : St) (p : Cmd → Bool) (f : Cmd → Cmd) (hf : ∀ c, (f c).tag = c.tag) (other : St)
    (ho : TagsOK other) (h : TagsOK m) :
    TagsOK (match updFirst p f m.pending with
            | some l => setPending m l
            | none => other) := by
  cases hu : updFirst p f m.pending with
  | none => exact ho
  | some l => exact tagsOK_upd m p f hf l hu h

theorem tagsOK_stepOpen (m : St) (ev : Ev) (h : TagsOK m) : TagsOK (stepOpen {} m ev) := by
  cases ev <;> simp only [stepOpen]
  case submit k => exact tagsOK_stepSubmit m k false h
  case «begin» k => exact tagsOK_stepSubmit m k true h
  case greet g c =>
    split
    · exact h
    · cases g
      · exact tagsOK_same _ _ rfl rfl rfl h
      · exact tagsOK_same _ _ rfl rfl rfl h
      · exact tagsOK_closeAll _ (tagsOK_same _ _ rfl rfl rfl h)
  case cont =>
    split
    · exact tagsOK_same _ _ rfl rfl rfl h
    · exact tagsOK_closeAll _ h
  case tagged t s c => exact tagsOK_stepTagged m t s c h
  case closedCode => exact tagsOK_same _ _ rfl rfl rfl h
  case byeClose => exact tagsOK_closeAll _ h
  case recent => exact h
  case info => exact h
  case exists_ n => exact tagsOK_route m _ _ (setData_tag _) _ (tagsOK_addUni _ _ (tagsOK_updMbox _ _ h)) h
  case expunge n =>
    have h' := tagsOK_updMbox m (fun mb => { mb with num := mb.num - 1 }) h
    exact tagsOK_route _ _ _ (setData_tag _) _ (tagsOK_addUni _ _ h') h'
  case flags fs =>
    have h' := tagsOK_updMbox m (fun mb => if ({} : Cfg).legacyFlags then { mb with perm := fs } else { mb with flags := fs }) h
    exact tagsOK_route _ _ _ (setData_tag _) _ (tagsOK_addUni _ _ h') h'
  case permFlags fs =>
    have h' := tagsOK_updMbox m (fun mb => { mb with perm := fs }) h
    exact tagsOK_route _ _ _ (setData_tag _) _ (tagsOK_addUni _ _ h') h'
  case uidNext n => exact tagsOK_route m _ _ (setData_tag _) _ h h
  case uidValidity n => exact tagsOK_route m _ _ (setData_tag _) _ h h
  case fetch x => exact tagsOK_route m _ _ (recvFetch_tag x) _ (tagsOK_addUni _ _ h) h
  case list x => exact tagsOK_route m _ _ (fun c => recvList_tag x c) _ h h
  case status x n => exact tagsOK_route m _ _ (setData_tag _) _ h h
  case search ns => exact tagsOK_route m _ _ (setData_tag _) _ h h
  case esearch t u ns => exact tagsOK_route m _ _ (setData_tag _) _ h h
  case capability cs => exact tagsOK_route m _ _ (setData_tag _) _ h h

theorem tagsOK_step (m : St) (ev : Ev) (h : TagsOK m) : TagsOK (step m ev) := by
  unfold step stepWith
  split
  · split
    · exact tagsOK_stepSubmit _ _ _ h
    · exact tagsOK_stepSubmit _ _ _ h
    · exact h
  · exact tagsOK_stepOpen m ev h

theorem tagsOK_foldl (tr : List Ev) : ∀ m : St, TagsOK m → TagsOK (tr.foldl step m) := by
  induction tr with
  | nil => intro m h; exact h
  | cons ev rest ih => intro m h; exact ih _ (tagsOK_step m ev h)

theorem tagsOK_run (tr : List Ev) : TagsOK (run tr) :=
  tagsOK_foldl tr init (by unfold TagsOK tagsOf; simp [init])

end GoImap.ClientLemmas
