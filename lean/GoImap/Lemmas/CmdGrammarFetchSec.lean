/-
  C02 helper lemmas: FETCH body sections — part path, specifier, header-field list, partial.
-/
import GoImap.Lemmas.CmdGrammarSearchTop
namespace GoImap.CmdLemmas
open GoImap.CmdGrammar GoImap.CmdSpec

/-! ### part paths: `1.2.3` -/

/-- a valid part path: numbers below 2^32 (the wire carries them as decimal numbers) -/
def PartOK (p : List Int) : Prop := ∀ n ∈ p, 0 ≤ n ∧ n < 4294967296

def partWire : List Int → Wire
  | [] => []
  | [n] => atom (digits n.toNat)
  | n :: r => atom (digits n.toNat) ++ [.b 46] ++ partWire r

theorem wPart_ok : ∀ (p : List Int), PartOK p → wPart p = .ok (partWire p)
  | [], _ => rfl
  | [n], h => by
    have := (h n (by simp)).1
    have hn : ¬ n < 0 := by omega
    simp [wPart, partWire, hn]
  | n :: m :: r, h => by
    have := (h n (by simp)).1
    have hn : ¬ n < 0 := by omega
    have ih := wPart_ok (m :: r) (fun x hx => h x (by simp [hx]))
    simp [wPart, partWire, hn, ih, bind, Except.bind, pure, Except.pure]

theorem span_digits (n : Nat) (rest : Wire) (hs : Stops isDigit rest) :
    span isDigit (atom (digits n) ++ rest) = (digits n, rest) :=
  span_atom isDigit _ rest (digits_digit n) hs

/-- the numbers after the first one, each with its leading dot -/
def dotted : List Int → Wire
  | [] => []
  | n :: r => Item.b 46 :: (atom (digits n.toNat) ++ dotted r)

theorem partWire_cons (n : Int) : ∀ (p : List Int), partWire (n :: p) = atom (digits n.toNat) ++ dotted p
  | [] => by simp [partWire, dotted]
  | m :: p => by
    have ih := partWire_cons m p
    simp only [partWire, dotted, List.append_assoc, List.singleton_append] at ih ⊢
    rw [ih]

/-- what may follow a part path inside `[...]`: the closing bracket, or a dot followed by a specifier name -/
inductive AfterPart : Wire → Prop
  | close (r : Wire) : AfterPart (.b 93 :: r)
  | spec (c : Nat) (r : Wire) (h : isDigit c = false) : AfterPart (.b 46 :: .b c :: r)

/-- what readSectionPart reports at the end of the path: a pending dot is consumed -/
def afterRes : Wire → Bool × Wire
  | .b 93 :: r => (false, .b 93 :: r)
  | w => (true, w.drop 1)

theorem stops_dotted (p : List Int) (rest : Wire) (hr : AfterPart rest) : Stops isDigit (dotted p ++ rest) := by
  cases p with
  | nil => cases hr <;> simp [dotted, Stops] <;> decide
  | cons n r => simp [dotted, Stops]; decide

/-- the loop of readSectionPart once a number has been read -/
theorem pSectionPart_dotted : ∀ (p : List Int) (acc : List Int) (fuel : Nat) (rest : Wire),
    PartOK p → acc ≠ [] → p.length + 1 ≤ fuel → AfterPart rest →
    pSectionPart fuel acc (dotted p ++ rest) = (acc ++ p, (afterRes rest).1, (afterRes rest).2)
  | [], acc, fuel, rest, _, hacc, hf, hr => by
    obtain ⟨fuel, rfl⟩ : ∃ f, fuel = f + 1 := ⟨fuel - 1, by simp at hf; omega⟩
    cases hr with
    | close r =>
      simp [pSectionPart, dotted, hacc, special, afterRes]
    | spec c r hc =>
      simp [pSectionPart, dotted, hacc, special, afterRes, span, hc]
  | n :: p, acc, fuel, rest, hok, hacc, hf, hr => by
    obtain ⟨fuel, rfl⟩ : ∃ f, fuel = f + 1 := ⟨fuel - 1, by simp at hf; omega⟩
    have hn := hok n (by simp)
    have hcast : ((n.toNat : Nat) : Int) = n := Int.toNat_of_nonneg hn.1
    have hlt : ¬ lim32 ≤ n.toNat := by unfold lim32; omega
    have ih := pSectionPart_dotted p (acc ++ [n]) fuel rest (fun x hx => hok x (by simp [hx])) (by simp)
      (by simp at hf ⊢; omega) hr
    have hsp := span_digits n.toNat (dotted p ++ rest) (stops_dotted p rest hr)
    simp only [pSectionPart, dotted, List.cons_append, List.append_assoc, ne_eq, hacc, not_false_eq_true, decide_true, if_true,
      special, hsp, digits_ne_nil, if_false, valOf_digits, ge_iff_le, hlt, hcast]
    rw [ih]
    simp

/-- readSectionPart on a written path -/
theorem pSectionPart_wire (p : List Int) (fuel : Nat) (rest : Wire) (hok : PartOK p) (hne : p ≠ []) (hf : p.length + 1 ≤ fuel)
    (hr : AfterPart rest) :
    pSectionPart fuel [] (partWire p ++ rest) = (p, (afterRes rest).1, (afterRes rest).2) := by
  cases p with
  | nil => exact absurd rfl hne
  | cons n p =>
    obtain ⟨fuel, rfl⟩ : ∃ f, fuel = f + 1 := ⟨fuel - 1, by simp at hf; omega⟩
    have hn := hok n (by simp)
    have hcast : ((n.toNat : Nat) : Int) = n := Int.toNat_of_nonneg hn.1
    have hlt : ¬ lim32 ≤ n.toNat := by unfold lim32; omega
    have ih := pSectionPart_dotted p [n] fuel rest (fun x hx => hok x (by simp [hx])) (by simp) (by simp at hf ⊢; omega) hr
    have hsp := span_digits n.toNat (dotted p ++ rest) (stops_dotted p rest hr)
    rw [partWire_cons]
    simp only [pSectionPart, List.append_assoc, ne_eq, not_true_eq_false, decide_false, Bool.false_eq_true, if_false, hsp,
      digits_ne_nil, valOf_digits, ge_iff_le, hlt, hcast, List.nil_append]
    rw [ih]
    simp


/-! ### the specifier and the header list -/

theorem hdrItemSpec : ItemSpec pHeaderItem (fun h : Str => [Item.s h]) (fun acc h => acc ++ [h]) (fun h => strOk h = true) (fun _ => True) where
  parse := by
    intro st a tail hv _
    have : a.length ≤ maxBuffered := by simpa [strOk] using hv
    simp [pHeaderItem, pAString_s _ _ this, bind, Except.bind, pure, Except.pure]
  okClose := fun _ => trivial
  okSp := fun _ => trivial
  notEol := fun a tail _ => by simp [NotEol]
  notClose := fun a tail _ => by simp [special]
  nonEmpty := fun a _ => by simp

theorem foldl_snoc_id (l : List Str) (acc : List Str) : l.foldl (fun acc h => acc ++ [h]) acc = acc ++ l := by
  induction l generalizing acc with
  | nil => simp
  | cons a t ih => simp [ih]

/-- a slice `<offset.size>` that can be written: non-negative 63-bit numbers -/
def SliceOK : Option Partial → Prop
  | none => True
  | some p => 0 ≤ p.offset ∧ p.offset < 9223372036854775808 ∧ 0 ≤ p.size ∧ p.size < 9223372036854775808

/-- a body section within the grammar: header fields only with HEADER, and not both lists at once -/
structure SecOK (b : BodySec) : Prop where
  part : PartOK b.part
  one : b.fields = [] ∨ b.fieldsNot = []
  hdr : (b.fields ≠ [] ∨ b.fieldsNot ≠ []) → b.spec = .header
  strs : ∀ h ∈ b.fields ++ b.fieldsNot, strOk h = true
  slice : SliceOK b.slice

def specStr (b : BodySec) : Str :=
  match b.spec with
  | .none => []
  | .mime => str "MIME"
  | .text => str "TEXT"
  | .header => if b.fields ≠ [] then str "HEADER.FIELDS" else if b.fieldsNot ≠ [] then str "HEADER.FIELDS.NOT" else str "HEADER"

def hdrList (b : BodySec) : List Str := if b.fields ≠ [] then b.fields else b.fieldsNot

/-- what `writeFetchItemBodySection` writes between the part path and the closing bracket -/
def secInner (b : BodySec) : Wire :=
  atom (specStr b) ++ (if hdrList b = [] then [] else sp ++ wList ((hdrList b).map fun h => [Item.s h]))

theorem specStr_chars (b : BodySec) : ∀ c ∈ specStr b, isAtomChar c = true := by
  unfold specStr
  cases b.spec <;> simp only <;> (try split_ifs) <;> decide

theorem specStr_upper (b : BodySec) : upper (specStr b) = specStr b := by
  unfold specStr
  cases b.spec <;> simp only <;> (try split_ifs) <;> decide

theorem specStr_ne (b : BodySec) (h : b.spec ≠ .none) : specStr b ≠ [] := by
  unfold specStr
  cases hs : b.spec <;> simp only <;> (try split_ifs) <;> first | (exact absurd hs h) | decide

theorem stops_inner (b : BodySec) (rest : Wire) :
    Stops isAtomChar ((if hdrList b = [] then ([] : Wire) else sp ++ wList ((hdrList b).map fun h => [Item.s h])) ++ (Item.b 93 :: rest)) := by
  split_ifs
  · simp [Stops]; decide
  · simp only [List.append_assoc]; exact stops_sp_atom _

theorem fields_nil_of_spec (b : BodySec) (hok : SecOK b) (h : b.spec ≠ .header) : b.fields = [] ∧ b.fieldsNot = [] := by
  constructor
  · by_cases hc : b.fields = []
    · exact hc
    · exact absurd (hok.hdr (Or.inl hc)) h
  · by_cases hc : b.fieldsNot = []
    · exact hc
    · exact absurd (hok.hdr (Or.inr hc)) h

/-- the specifier of a written section, read back (`dot`/`part` as readSectionPart reports them) -/
theorem pSectionSpec_w (b : BodySec) (dot : Bool) (rest : Wire) (hok : SecOK b) (hspec : b.spec ≠ .none)
    (hdot : dot = true ∨ b.part = []) :
    pSectionSpec b.peek b.part dot (secInner b ++ (Item.b 93 :: rest)) = .ok ({ b with slice := none }, Item.b 93 :: rest) := by
  have hcond : (dot || decide (b.part = [])) = true := by
    rcases hdot with h | h <;> simp [h]
  have hne := specStr_ne b hspec
  have hsp := span_atom isAtomChar (specStr b) _ (specStr_chars b) (stops_inner b rest)
  have hstrs : ∀ h ∈ hdrList b, strOk h = true := by
    intro h hh
    unfold hdrList at hh
    split_ifs at hh
    · exact hok.strs h (by simp [hh])
    · exact hok.strs h (by simp [hh])
  have hl := pList_wList hdrItemSpec (hdrList b) hstrs [] (Item.b 93 :: rest)
  rw [foldl_snoc_id] at hl
  unfold pSectionSpec secInner
  simp only [hcond, if_true, List.append_assoc, hsp, hne, decide_false, Bool.and_false, Bool.false_eq_true, if_false,
    specStr_upper]
  have hnil := fields_nil_of_spec b hok
  have hone := hok.one
  clear hsp hcond hdot hstrs hok
  obtain ⟨spec, part, fields, fieldsNot, slice, peek⟩ := b
  simp only at hspec hl hnil hone hne ⊢
  cases spec with
  | none => exact absurd rfl hspec
  | mime =>
    obtain ⟨h1, h2⟩ := hnil (by simp)
    subst h1 h2
    simp (decide := true) [specStr, hdrList, pure, Except.pure]
  | text =>
    obtain ⟨h1, h2⟩ := hnil (by simp)
    subst h1 h2
    simp (decide := true) [specStr, hdrList, pure, Except.pure]
  | header =>
    by_cases hf : fields = []
    · by_cases hfn : fieldsNot = []
      · subst hf hfn
        simp (decide := true) [specStr, hdrList, pure, Except.pure]
      · subst hf
        simp only [hdrList, ne_eq, not_true_eq_false, if_false] at hl
        simp (decide := true) only [specStr, hdrList, ne_eq, not_true_eq_false, if_false, hfn, not_false_eq_true, if_true, bind,
          Except.bind, List.append_assoc]
        simp only [pSP_sp _ (notEol_wList _ _), hl, List.nil_append]
        rfl
    · have hfn : fieldsNot = [] := by
        rcases hone with h | h
        · exact absurd h hf
        · exact h
      subst hfn
      simp only [hdrList, ne_eq, hf, not_false_eq_true, if_true] at hl
      simp (decide := true) only [specStr, hdrList, ne_eq, hf, not_false_eq_true, if_true, if_false, bind,
        Except.bind, List.append_assoc]
      simp only [pSP_sp _ (notEol_wList _ _), hl, List.nil_append]
      rfl

end GoImap.CmdLemmas
