/-
  C07 helper lemmas, part 4: the invariant holds initially and every ghost-valid API call keeps it,
  with the concrete poll output equal to the ghost's expected output.
-/
import GoImap.Lemmas.TrackerInv
namespace GoImap.TrackerLemmas
open GoImap.Tracker GoImap.TrackerSpec

theorem inv_init (n : Nat) : Inv (init n) (ginit n) :=
  ⟨by simp [init, ginit], List.nodup_range, by intro x hx; simpa [ginit] using hx, trivial⟩

/-- all "queue one update for every session" calls at once -/
theorem inv_dispatch {st : St} {g : GSt} (h : Inv st g) {u : GUpd} {x : Upd} {mbox' : List Id}
    {next' : Nat} {src : Option Nat} (hd : deliver g.mbox u = some (x, mbox'))
    (hle : g.next ≤ next') (hnd : (appended [u]).Nodup)
    (hnew : ∀ y : Nat, y ∈ appended [u] → g.next ≤ y ∧ y < next')
    (hskip : src ≠ none → mbox' = g.mbox ∧ next' = g.next) {n' : Nat} (hn' : n' = mbox'.length) :
    Inv ⟨n', dispatch st x src⟩ ⟨mbox', next', gdispatch g u src⟩ := by
  have hsub := deliver_sublist hd
  refine ⟨hn', ?_, ?_, ?_⟩
  · refine List.Nodup.sublist hsub (List.nodup_append.mpr ⟨h.nodup, hnd, ?_⟩)
    intro a ha b hb hab
    have h1 : (a : Nat) < g.next := h.fresh a ha
    have h2 : g.next ≤ b := (hnew b hb).1
    subst hab
    exact Nat.lt_irrefl _ (Nat.lt_of_lt_of_le h1 h2)
  · intro y hy
    rcases List.mem_append.mp (hsub.subset hy) with hy | hy
    · exact Nat.lt_of_lt_of_le (h.fresh y hy) hle
    · exact (hnew y hy).2
  · refine sessRel_dispatch (fun s gs hs => sessInv_push hs hd hle hnd hnew) ?_ h.sess
    intro hsrc s gs hs
    obtain ⟨rfl, rfl⟩ := hskip hsrc
    exact hs

theorem range'_facts (a k : Nat) :
    (appended [GUpd.exists_ (List.range' a k)]).Nodup ∧
    ∀ y : Nat, y ∈ appended [GUpd.exists_ (List.range' a k)] → a ≤ y ∧ y < a + (List.range' a k).length := by
  simp only [appended, List.append_nil, List.length_range']
  refine ⟨List.nodup_range' (step := 1), ?_⟩
  intro y hy
  obtain ⟨i, hi, rfl⟩ := List.mem_range'.mp hy
  omega

/-- preservation of the invariant by one ghost-valid call; the outputs coincide -/
theorem inv_step {st : St} {g : GSt} (h : Inv st g) : ∀ (op : Op) {g' : GSt} {outG : List Upd},
    gstep g op = some (g', outG) → ∃ st', step st op = some (st', outG) ∧ Inv st' g'
  | .newSession id, g', outG, hg => by
    simp only [gstep, Option.some.injEq, Prod.mk.injEq] at hg
    obtain ⟨rfl, rfl⟩ := hg
    refine ⟨_, rfl, h.count, h.nodup, h.fresh, ?_⟩
    have h2 : SessRel (SessInv g.mbox g.next) [⟨id, []⟩] [⟨id, g.mbox, []⟩] :=
      ⟨⟨rfl, rfl, by simpa [appended] using h.nodup, by simpa [appended] using h.fresh⟩, trivial⟩
    exact SessRel.append h2 h.sess
  | .close id, g', outG, hg => by
    simp only [gstep, Option.some.injEq, Prod.mk.injEq] at hg
    obtain ⟨rfl, rfl⟩ := hg
    refine ⟨_, rfl, h.count, h.nodup, h.fresh, ?_⟩
    refine SessRel.filter ?_ h.sess
    intro s gs hs
    have : s.id = gs.id := hs.1
    simp only [this]
  | .mailboxFlags, g', outG, hg => by
    simp only [gstep, Option.some.injEq, Prod.mk.injEq] at hg
    obtain ⟨rfl, rfl⟩ := hg
    refine ⟨_, rfl, ?_⟩
    exact inv_dispatch (u := .mflags) (src := none) h rfl (Nat.le_refl _) (by simp [appended])
      (by simp [appended]) (by simp) h.count
  | .numMessages n, g', outG, hg => by
    simp only [gstep] at hg
    split at hg
    · cases hg
    · rename_i hn
      simp only [Option.some.injEq, Prod.mk.injEq] at hg
      obtain ⟨rfl, rfl⟩ := hg
      have hc := h.count
      obtain ⟨hf1, hf2⟩ := range'_facts g.next (n - g.mbox.length)
      have hd : deliver g.mbox (.exists_ (List.range' g.next (n - g.mbox.length))) =
          some (.exists_ st.n n, g.mbox ++ List.range' g.next (n - g.mbox.length)) := by
        simp only [deliver, List.length_range', Option.some.injEq, Prod.mk.injEq, and_true]
        rw [hc]; congr 1; omega
      by_cases hn0 : n = 0
      · subst hn0
        refine ⟨⟨st.n, dispatch st (.exists_ st.n 0) none⟩, by simp [step], ?_⟩
        exact inv_dispatch h hd (Nat.le_add_right _ _) hf1 hf2 (by simp)
          (by simp only [List.length_append, List.length_range']; omega)
      · refine ⟨⟨n, dispatch st (.exists_ st.n n) none⟩, ?_, ?_⟩
        · have : ¬ n < st.n := by omega
          simp [step, hn0, this]
        · exact inv_dispatch h hd (Nat.le_add_right _ _) hf1 hf2 (by simp)
            (by simp only [List.length_append, List.length_range']; omega)
  | .expunge k, g', outG, hg => by
    simp only [gstep] at hg
    split at hg
    · cases hg
    · rename_i id hid
      split at hg
      · cases hg
      · rename_i hk0
        simp only [Option.some.injEq, Prod.mk.injEq] at hg
        obtain ⟨rfl, rfl⟩ := hg
        have hc := h.count
        have hk1 : 1 ≤ k := by omega
        have hpos : posOf id g.mbox = k := posOf_of_getElem? h.nodup hk1 hid
        have hklt : k - 1 < g.mbox.length := (List.getElem?_eq_some_iff.mp hid).1
        have hd : deliver g.mbox (.expunge id) = some (.expunge k, g.mbox.eraseIdx (k - 1)) := by
          simp only [deliver, hpos, hk0, if_false]
        refine ⟨⟨st.n - 1, dispatch st (.expunge k) none⟩, ?_, ?_⟩
        · have : ¬ k > st.n := by omega
          simp [step, hk0, this]
        · exact inv_dispatch h hd (Nat.le_refl _) (by simp [appended]) (by simp [appended]) (by simp)
            (by rw [List.length_eraseIdx]; simp [hklt]; omega)
  | .messageFlags k src, g', outG, hg => by
    simp only [gstep] at hg
    split at hg
    · cases hg
    · rename_i id hid
      split at hg
      · cases hg
      · rename_i hk0
        simp only [Option.some.injEq, Prod.mk.injEq] at hg
        obtain ⟨rfl, rfl⟩ := hg
        have hk1 : 1 ≤ k := by omega
        have hpos : posOf id g.mbox = k := posOf_of_getElem? h.nodup hk1 hid
        have hd : deliver g.mbox (.fetch id) = some (.fetch k, g.mbox) := by
          simp only [deliver, hpos, hk0, if_false]
        refine ⟨⟨st.n, dispatch st (.fetch k) src⟩, rfl, ?_⟩
        exact inv_dispatch h hd (Nat.le_refl _) (by simp [appended]) (by simp [appended])
          (fun _ => ⟨rfl, rfl⟩) h.count
  | .poll id allow, g', outG, hg => by
    have hp : ∀ (s : Sess) (gs : GSess), SessInv g.mbox g.next s gs →
        decide (s.id = id) = decide (gs.id = id) := by
      intro s gs hs
      have : s.id = gs.id := hs.1
      rw [this]
    rcases SessRel.find? hp h.sess with ⟨hf, hfg⟩ | ⟨s, gs, hf, hfg, hs⟩
    · simp only [gstep, hfg, Option.some.injEq, Prod.mk.injEq] at hg
      obtain ⟨rfl, rfl⟩ := hg
      exact ⟨st, by simp only [step, hf], h⟩
    · obtain ⟨q1, v1, q2, h1, h2, h3⟩ := poll_split allow hs.2.1
      have h1' := h1
      simp only [dueOf] at h1'
      simp only [gstep, hfg, h1', Option.some.injEq, Prod.mk.injEq] at hg
      obtain ⟨rfl, rfl⟩ := hg
      refine ⟨{ st with sess := st.sess.map fun x => if x.id = id then { x with queue := q2 } else x },
        by simp only [step, hf, h3], h.count, h.nodup, h.fresh, ?_⟩
      refine SessRel.map ?_ h.sess
      intro s' gs' hs'
      have hid : s'.id = gs'.id := hs'.1
      by_cases hc : s'.id = id
      · have hc' : gs'.id = id := hid ▸ hc
        rw [if_pos hc, if_pos hc']
        exact sessInv_poll allow hs h1 h2 s' gs' hid
      · have hc' : ¬ gs'.id = id := hid ▸ hc
        rw [if_neg hc, if_neg hc']
        exact hs'

/-! ### histories -/

/-- run a list of API calls on the concrete tracker, collecting each call's emitted updates -/
def run (st : St) : List Op → Option (St × List (List Upd))
  | [] => some (st, [])
  | op :: ops =>
    match step st op with
    | none => none
    | some (st', out) =>
      match run st' ops with
      | none => none
      | some (st'', outs) => some (st'', out :: outs)

/-- the same history in the ghost world; `none` as soon as one call is not ghost-valid -/
def grun (g : GSt) : List Op → Option (GSt × List (List Upd))
  | [] => some (g, [])
  | op :: ops =>
    match gstep g op with
    | none => none
    | some (g', out) =>
      match grun g' ops with
      | none => none
      | some (g'', outs) => some (g'', out :: outs)

theorem inv_run : ∀ (ops : List Op) {st : St} {g : GSt}, Inv st g →
    ∀ {g' : GSt} {outs : List (List Upd)}, grun g ops = some (g', outs) →
    ∃ st', run st ops = some (st', outs) ∧ Inv st' g'
  | [], st, g, h, g', outs, hg => by
    simp only [grun, Option.some.injEq, Prod.mk.injEq] at hg
    obtain ⟨rfl, rfl⟩ := hg
    exact ⟨st, rfl, h⟩
  | op :: ops, st, g, h, g', outs, hg => by
    simp only [grun] at hg
    cases hs : gstep g op with
    | none => rw [hs] at hg; cases hg
    | some r =>
      obtain ⟨g1, out⟩ := r
      rw [hs] at hg
      simp only at hg
      cases hr : grun g1 ops with
      | none => rw [hr] at hg; cases hg
      | some r2 =>
        obtain ⟨g2, outs2⟩ := r2
        rw [hr] at hg
        simp only [Option.some.injEq, Prod.mk.injEq] at hg
        obtain ⟨rfl, rfl⟩ := hg
        obtain ⟨st1, hst1, hinv1⟩ := inv_step h op hs
        obtain ⟨st2, hst2, hinv2⟩ := inv_run ops hinv1 hr
        exact ⟨st2, by simp only [run, hst1, hst2], hinv2⟩

/-! ### concrete states used as non-vacuity witnesses -/

def demoOps : List Op := [.newSession 1, .numMessages 5, .expunge 2]
def demoSt : St := ⟨4, [⟨1, [.exists_ 2 5, .expunge 2]⟩]⟩
def demoG : GSt := ⟨[0, 2, 3, 4], 5, [⟨1, [0, 1], [.exists_ [2, 3, 4], .expunge 1]⟩]⟩

theorem demo_grun : grun (ginit 2) demoOps = some (demoG, [[], [], []]) := rfl
theorem demo_run : run (init 2) demoOps = some (demoSt, [[], [], []]) := rfl

theorem demo_inv : Inv demoSt demoG := by
  obtain ⟨st', h1, h2⟩ := inv_run demoOps (inv_init 2) demo_grun
  rw [demo_run] at h1
  simp only [Option.some.injEq, Prod.mk.injEq, and_true] at h1
  exact h1 ▸ h2

/-- a longer history: two sessions, a flag change made by session 2, two expunges, a poll that may
    not report expunges -/
def demo2Ops : List Op :=
  [.newSession 1, .numMessages 5, .expunge 2, .newSession 2, .messageFlags 3 (some 2), .expunge 1,
   .poll 1 false]
def demo2St : St := ⟨3, [⟨1, [.expunge 2, .fetch 3, .expunge 1]⟩, ⟨2, [.expunge 1]⟩]⟩
def demo2G : GSt :=
  ⟨[2, 3, 4], 5, [⟨1, [0, 1, 2, 3, 4], [.expunge 1, .fetch 3, .expunge 0]⟩, ⟨2, [0, 2, 3, 4], [.expunge 0]⟩]⟩

theorem demo2_grun :
    grun (ginit 2) demo2Ops = some (demo2G, [[], [], [], [], [], [], [.exists_ 2 5]]) := rfl
theorem demo2_run :
    run (init 2) demo2Ops = some (demo2St, [[], [], [], [], [], [], [.exists_ 2 5]]) := rfl

theorem demo2_inv : Inv demo2St demo2G := by
  obtain ⟨st', h1, h2⟩ := inv_run demo2Ops (inv_init 2) demo2_grun
  rw [demo2_run] at h1
  simp only [Option.some.injEq, Prod.mk.injEq, and_true] at h1
  exact h1 ▸ h2

end GoImap.TrackerLemmas
