import GoImap.Model.Framing
import GoImap.Lemmas.FramingEvs
/-
  The unrepaired search-key parser (Fixes.depth = false) recurses once per NOT: on the chain
  NOT^n ALL it runs n levels below its entry, for every n.
-/
namespace GoImap.Framing

/-- `NOT NOT … NOT ALL` (n times NOT) -/
def notChain (n : Nat) : Bytes := (List.replicate n [78, 79, 84, 32]).flatten ++ [65, 76, 76]

theorem notChain_succ (n : Nat) : notChain (n + 1) = 78 :: 79 :: 84 :: 32 :: notChain n := by
  simp [notChain, List.replicate_succ]

theorem notChain_head (n : Nat) (tail : Bytes) :
    ∃ x r, notChain n ++ 13 :: tail = x :: r ∧ (x != 13 && x != 10) = true := by
  cases n with
  | zero => exact ⟨65, _, rfl, by decide⟩
  | succ n => exact ⟨78, _, by rw [notChain_succ]; rfl, by decide⟩

theorem tw_app (valid : Nat → Bool) (tok : Bytes) (c : Nat) (rest : Bytes)
    (hv : ∀ b ∈ tok, valid b = true) (hc : valid c = false) :
    (tok ++ c :: rest).takeWhile valid = tok := by
  induction tok with
  | nil => simp [hc]
  | cons a t ih =>
    have ha : valid a = true := hv a (by simp)
    simp only [List.cons_append, List.takeWhile_cons, ha, if_true]
    rw [ih (fun b hb => hv b (by simp [hb]))]

/-- Decoder.Func on a token followed by an octet outside the class -/
theorem func_spec (s : S) (valid : Nat → Bool) (tok : Bytes) (c : Nat) (rest : Bytes)
    (hl : s.lit = none) (hi : s.inp = tok ++ c :: rest) (hv : ∀ b ∈ tok, valid b = true)
    (hc : valid c = false) (hne : tok ≠ []) :
    (s.func valid).1 = some tok ∧ (s.func valid).2.inp = c :: rest ∧ (s.func valid).2.lit = none ∧
      (s.func valid).2.evs = s.evs := by
  obtain ⟨inp, pos, err, lit, crlf, tail, ld, st, evs, roles⟩ := s
  simp only at hl hi
  subst hl hi
  have hne' : tok.isEmpty = false := by cases tok <;> simp_all
  refine ⟨?_, ?_, ?_, ?_⟩ <;> simp [S.func, S.take, tw_app valid tok c rest hv hc, hne']

/-- ExpectSP on a space followed by an octet that is neither CR nor LF -/
theorem expectSP_spec (s : S) (x : Nat) (rest : Bytes) (hl : s.lit = none)
    (hi : s.inp = 32 :: x :: rest) (hx : (x != 13 && x != 10) = true) :
    s.expectSP.1 = true ∧ s.expectSP.2.inp = x :: rest ∧ s.expectSP.2.lit = none ∧
      s.expectSP.2.evs = s.evs := by
  obtain ⟨inp, pos, err, lit, crlf, tail, ld, st, evs, roles⟩ := s
  simp only at hl hi
  subst hl hi
  refine ⟨?_, ?_, ?_, ?_⟩ <;> simp [S.expectSP, S.sp, S.accept, S.look, S.take, S.expect, hx]

theorem keyKind_not : keyKind [78, 79, 84] = .not_ := by decide
theorem keyKind_all : keyKind [65, 76, 76] = .leaf := by decide

/-- on NOT^n ALL the unrepaired parser reaches depth cur + n -/
theorem legacy_not_chain (cfg : Cfg) (hleg : cfg.fx.depth = false) :
    ∀ (n fuel d cur : Nat) (s : S) (tail : Bytes), s.lit = none →
      s.inp = notChain n ++ 13 :: tail → 2 * n + 2 ≤ fuel →
      Event.depthAt (cur + n) ∈ (searchKey cfg fuel d cur s).2.evs := by
  intro n
  induction n with
  | zero =>
    intro fuel d cur s tail hl hi hf
    obtain ⟨f, rfl⟩ : ∃ f, fuel = f + 2 := ⟨fuel - 2, by omega⟩
    have hl1 : (s.enter cur).lit = none := by simp [S.enter, S.emit, hl]
    have hi1 : (s.enter cur).inp = [65, 76, 76] ++ 13 :: tail := by simp [S.enter, S.emit, hi, notChain]
    obtain ⟨h1, _, _, hev⟩ := func_spec (s.enter cur) isKeyChar [65, 76, 76] 13 tail hl1 hi1
      (by decide) (by decide) (by simp)
    have hfun : (s.enter cur).func isKeyChar = (some [65, 76, 76], ((s.enter cur).func isKeyChar).2) :=
      Prod.ext h1 rfl
    generalize ((s.enter cur).func isKeyChar).2 = s1 at hfun hev
    simp only [searchKey, hfun, searchKeyAtom, keyKind_all, Nat.add_zero]
    rw [hev]
    simp [S.enter, S.emit]
  | succ n ih =>
    intro fuel d cur s tail hl hi hf
    obtain ⟨f, rfl⟩ : ∃ f, fuel = f + 2 := ⟨fuel - 2, by omega⟩
    have hl1 : (s.enter cur).lit = none := by simp [S.enter, S.emit, hl]
    have hi1 : (s.enter cur).inp = [78, 79, 84] ++ 32 :: (notChain n ++ 13 :: tail) := by
      simp [S.enter, S.emit, hi, notChain_succ]
    obtain ⟨h1, hi2, hl2, _⟩ := func_spec (s.enter cur) isKeyChar [78, 79, 84] 32 _ hl1 hi1
      (by decide) (by decide) (by simp)
    have hfun : (s.enter cur).func isKeyChar = (some [78, 79, 84], ((s.enter cur).func isKeyChar).2) :=
      Prod.ext h1 rfl
    generalize ((s.enter cur).func isKeyChar).2 = s1 at hfun hi2 hl2
    obtain ⟨x, r, hxr, hx⟩ := notChain_head n tail
    rw [hxr] at hi2
    obtain ⟨h2, hi3, hl3, _⟩ := expectSP_spec s1 x r hl2 hi2 hx
    have hsp : s1.expectSP = (true, s1.expectSP.2) := Prod.ext h2 rfl
    generalize s1.expectSP.2 = s2 at hsp hi3 hl3
    simp only [searchKey, hfun, searchKeyAtom, keyKind_not, hleg, Bool.false_and, Bool.false_eq_true,
      if_false, hsp]
    have := ih f (d + 1) (cur + 1) s2 tail hl3 (by rw [hi3, hxr]) (by omega)
    have hcn : cur + 1 + n = cur + (n + 1) := by omega
    rw [hcn] at this
    exact this

end GoImap.Framing
