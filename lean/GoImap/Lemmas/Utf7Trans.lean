/- C16 helper lemmas: the streaming decoder `decT` against the one-shot `dec` (atEOF run, output
   length bounds). -/
import GoImap.Lemmas.Utf7Basic
namespace GoImap.Utf7Lemmas
open GoImap.Utf7

/-- source bytes scanned but not yet committed: the '&' and the segment collected so far -/
def pend : Option BytesN → BytesN
  | none => []
  | some acc => 38 :: acc

def pendLen : Option BytesN → Nat
  | none => 0
  | some acc => acc.length + 1

theorem pend_length (sg : Option BytesN) : (pend sg).length = pendLen sg := by
  cases sg <;> simp [pend, pendLen]

/-! ### length bounds -/

theorem utf8enc_length_le (c : Nat) : (utf8enc c).length ≤ 4 := by
  unfold utf8enc; split_ifs <;> simp

theorem utf8enc_printable {c : Nat} (h : printable c = true) : utf8enc c = [c] := by
  simp only [printable, Bool.and_eq_true, decide_eq_true_eq] at h
  unfold utf8enc
  rw [if_pos (by omega)]

theorem flatMap_utf8enc_length_le : ∀ (us : List Nat), (us.flatMap utf8enc).length ≤ 4 * us.length
  | [] => by simp
  | u :: us => by
    have := utf8enc_length_le u
    have := flatMap_utf8enc_length_le us
    simp only [List.flatMap_cons, List.length_append, List.length_cons]
    omega

theorem utf16dec_length : ∀ (bs : BytesN) (us : List Nat), utf16dec bs = some us →
    2 * us.length ≤ bs.length
  | [], us, h => by simp only [utf16dec, Option.some.injEq] at h; subst h; simp
  | [_], us, h => by simp [utf16dec] at h
  | [hh, l], us, h => by
    rw [utf16dec.eq_def] at h
    simp only at h
    split_ifs at h
    simp only [utf16dec, Option.map_some, Option.some.injEq] at h
    subst h; simp
  | [hh, l, _], us, h => by
    rw [utf16dec.eq_def] at h
    simp only at h
    split_ifs at h
    simp [utf16dec] at h
  | hh :: l :: h2 :: l2 :: r, us, h => by
    have ih1 := utf16dec_length r
    have ih2 := utf16dec_length (h2 :: l2 :: r)
    rw [utf16dec.eq_def] at h
    simp only at h
    split_ifs at h
    · obtain ⟨t, ht, rfl⟩ := Option.map_eq_some_iff.mp h
      have := ih1 t ht
      simp only [List.length_cons]; omega
    · obtain ⟨t, ht, rfl⟩ := Option.map_eq_some_iff.mp h
      have := ih2 t ht
      simp only [List.length_cons] at this ⊢; omega

theorem b64dec_length : ∀ (l bs : BytesN), b64dec l = some bs → bs.length ≤ l.length
  | [], bs, h => by simp only [b64dec, Option.some.injEq] at h; subst h; simp
  | [_], bs, h => by simp [b64dec] at h
  | [c0, c1], bs, h => by
    cases h0 : b64val c0 <;> cases h1 : b64val c1 <;> simp [b64dec, h0, h1] at h
    subst h; simp
  | [c0, c1, c2], bs, h => by
    cases h0 : b64val c0 <;> cases h1 : b64val c1 <;> cases h2 : b64val c2 <;>
      simp [b64dec, h0, h1, h2] at h
    subst h; simp
  | c0 :: c1 :: c2 :: c3 :: r, bs, h => by
    cases ht : b64dec r with
    | none =>
      cases h0 : b64val c0 <;> cases h1 : b64val c1 <;> cases h2 : b64val c2 <;>
        cases h3 : b64val c3 <;> simp [b64dec, h0, h1, h2, h3, ht] at h
    | some t =>
      have ih := b64dec_length r t ht
      cases h0 : b64val c0 <;> cases h1 : b64val c1 <;> cases h2 : b64val c2 <;>
        cases h3 : b64val c3 <;> simp [b64dec, h0, h1, h2, h3, ht] at h
      subst h
      simp only [List.length_cons]; omega

theorem decodeSeg_out_length {acc : BytesN} {us : List Nat} (h : decodeSeg acc = some us) :
    (us.flatMap utf8enc).length ≤ 2 * acc.length := by
  unfold decodeSeg at h
  split_ifs at h
  cases hb : b64dec acc with
  | none => simp [hb] at h
  | some bs =>
    cases hu : utf16dec bs with
    | none => simp [hb, hu] at h
    | some us' =>
      simp only [hb, hu, Option.bind_eq_bind, Option.bind_some] at h
      split_ifs at h
      simp only [Option.some.injEq] at h
      subst h
      have := b64dec_length acc bs hb
      have := utf16dec_length bs us' hu
      have := flatMap_utf8enc_length_le us'
      omega

/-- what `decSeg` returns -/
theorem decSeg_some {a : Bool} {acc : BytesN} {o : List Nat} (h : decSeg a acc = some o) :
    (acc = [] ∧ o = [38]) ∨ (acc ≠ [] ∧ a = true ∧ decodeSeg acc = some o) := by
  unfold decSeg at h
  cases acc with
  | nil => simp at h; exact Or.inl ⟨rfl, h.symm⟩
  | cons x xs =>
    simp only [List.isEmpty_cons, Bool.false_eq_true, if_false] at h
    split_ifs at h with ha
    exact Or.inr ⟨by simp, by simpa using ha, h⟩

theorem decSeg_none {a : Bool} {acc : BytesN} (h : decSeg a acc = none) :
    acc ≠ [] ∧ (a = false ∨ decodeSeg acc = none) := by
  unfold decSeg at h
  cases acc with
  | nil => simp at h
  | cons x xs =>
    simp only [List.isEmpty_cons, Bool.false_eq_true, if_false] at h
    split_ifs at h with ha
    · exact ⟨by simp, Or.inl (by simpa using ha)⟩
    · exact ⟨by simp, Or.inr h⟩

/-- output size of the one-shot decoder -/
theorem dec_out_length : ∀ (b : BytesN) (a : Bool) (sg : Option BytesN) (cs : List Nat),
    dec a sg b = some cs → (cs.flatMap utf8enc).length ≤ 2 * (pendLen sg + b.length)
  | [], a, none, cs, h => by
    simp only [dec, Option.some.injEq] at h; subst h; simp
  | [], a, some _, cs, h => by simp [dec] at h
  | x :: xs, a, none, cs, h => by
    simp only [dec] at h
    split_ifs at h with hp hx
    · obtain ⟨t, ht, rfl⟩ := Option.map_eq_some_iff.mp h
      have ih := dec_out_length xs _ _ t ht
      have hp' : printable x = true := by simpa using hp
      simp only [List.flatMap_cons, utf8enc_printable hp', List.length_append, List.length_cons,
        List.length_nil, pendLen] at ih ⊢
      omega
    · have := dec_out_length xs _ _ cs h
      simp only [pendLen, List.length_nil, List.length_cons] at this ⊢
      omega
  | x :: xs, a, some acc, cs, h => by
    simp only [dec] at h
    split_ifs at h with h45 hcr
    · cases hs : decSeg a acc with
      | none => simp [hs] at h
      | some o =>
        simp only [hs] at h
        obtain ⟨t, ht, rfl⟩ := Option.map_eq_some_iff.mp h
        have ih := dec_out_length xs _ _ t ht
        simp only [List.flatMap_append, List.length_append, pendLen, List.length_cons] at ih ⊢
        rcases decSeg_some hs with ⟨rfl, rfl⟩ | ⟨_, _, hd⟩
        · simp [utf8enc] at ih ⊢; omega
        · have := decodeSeg_out_length hd
          omega
    · have := dec_out_length xs _ _ cs h
      simp only [pendLen, List.length_append, List.length_cons, List.length_nil] at this ⊢
      omega

/-! ### the atEOF run of `decT` -/

/-- success of the one-shot decoder: `decT` with enough room commits everything -/
theorem decT_eof_some (cap : Nat) : ∀ (src : BytesN) (a : Bool) (sg : Option BytesN)
    (nDst nSrc : Nat) (out : BytesN) (cs : List Nat),
    dec a sg src = some cs → nDst + (cs.flatMap utf8enc).length ≤ cap →
    decT cap true a sg nDst nSrc out src =
      ⟨nDst + (cs.flatMap utf8enc).length, nSrc + pendLen sg + src.length, .ok,
        out ++ cs.flatMap utf8enc, true⟩
  | [], a, none, nDst, nSrc, out, cs, h, _ => by
    simp only [dec, Option.some.injEq] at h; subst h
    simp [decT, pendLen]
  | [], a, some _, _, _, _, cs, h, _ => by simp [dec] at h
  | x :: xs, a, none, nDst, nSrc, out, cs, h, hcap => by
    simp only [dec] at h
    split_ifs at h with hp hx
    · obtain ⟨t, ht, rfl⟩ := Option.map_eq_some_iff.mp h
      have hp' : printable x = true := by simpa using hp
      simp only [List.flatMap_cons, utf8enc_printable hp', List.length_append, List.length_cons,
        List.length_nil] at hcap ⊢
      have ih := decT_eof_some cap xs true none (nDst + 1) (nSrc + 1) (out ++ [x]) t ht (by omega)
      simp only [decT, hp', Bool.not_true, Bool.false_eq_true, if_false, ne_eq, hx,
        not_false_eq_true, if_true]
      rw [if_neg (by omega), ih]
      simp only [TRes.mk.injEq, pendLen, List.append_assoc, and_true]
      and_intros <;> omega
    · have hx' : x = 38 := by
        by_cases h38 : x = 38
        · exact h38
        · exact absurd h38 hx
      subst hx'
      have ih := decT_eof_some cap xs a (some []) nDst nSrc out cs h hcap
      simp only [decT, printable, ne_eq, not_true_eq_false, if_false]
      simp only [Nat.reduceLeDiff, decide_true, Bool.and_self, Bool.not_true, Bool.false_eq_true,
        if_false]
      rw [ih]
      simp only [TRes.mk.injEq, pendLen, List.length_nil, List.length_cons, and_true, true_and]
      omega
  | x :: xs, a, some acc, nDst, nSrc, out, cs, h, hcap => by
    simp only [dec] at h
    split_ifs at h with h45 hcr
    · subst h45
      cases hs : decSeg a acc with
      | none => simp [hs] at h
      | some o =>
        simp only [hs] at h
        obtain ⟨t, ht, rfl⟩ := Option.map_eq_some_iff.mp h
        simp only [List.flatMap_append, List.length_append] at hcap ⊢
        rcases decSeg_some hs with ⟨rfl, rfl⟩ | ⟨hne, ha, hd⟩
        · simp only [List.flatMap_cons, List.flatMap_nil, List.append_nil, utf8enc,
            Nat.reduceLT, if_true, List.length_cons, List.length_nil] at hcap ⊢
          have ih := decT_eof_some cap xs true none (nDst + 1) (nSrc + 2) (out ++ [38]) t ht
            (by simp only [List.isEmpty_nil] at ht; omega)
          simp only [List.isEmpty_nil] at ht
          simp only [decT, if_true, List.isEmpty_nil]
          rw [if_neg (by omega), ih]
          simp only [TRes.mk.injEq, pendLen, List.length_nil, List.append_assoc, and_true]
          and_intros <;> omega
        · subst ha
          have hemp : acc.isEmpty = false := by cases acc <;> simp_all
          rw [hemp] at ht
          have ih := decT_eof_some cap xs false none (nDst + (o.flatMap utf8enc).length)
            (nSrc + acc.length + 2) (out ++ o.flatMap utf8enc) t ht (by omega)
          simp only [decT, if_true, hemp, Bool.false_eq_true, if_false, Bool.not_true, hd]
          rw [if_neg (by omega), ih]
          simp only [TRes.mk.injEq, pendLen, List.length_cons, List.append_assoc, and_true]
          and_intros <;> omega
    · have ih := decT_eof_some cap xs a (some (acc ++ [x])) nDst nSrc out cs h hcap
      simp only [decT, h45, hcr, if_false]
      rw [ih]
      simp only [TRes.mk.injEq, pendLen, List.length_append, List.length_cons, List.length_nil,
        and_true, true_and]
      omega

/-- failure of the one-shot decoder: `decT` with ample room reports invalid input -/
theorem decT_eof_none (cap : Nat) : ∀ (src : BytesN) (a : Bool) (sg : Option BytesN)
    (nDst nSrc : Nat) (out : BytesN),
    dec a sg src = none → nDst + 2 * (pendLen sg + src.length) ≤ cap →
    (decT cap true a sg nDst nSrc out src).err = .invalid
  | [], a, none, _, _, _, h, _ => by simp [dec] at h
  | [], a, some _, _, _, _, _, _ => by simp [decT]
  | x :: xs, a, none, nDst, nSrc, out, h, hcap => by
    simp only [pendLen, List.length_cons] at hcap
    simp only [dec] at h
    simp only [decT]
    split_ifs at h ⊢ with hp hx hsh
    · rfl
    · omega
    · have h' : dec true none xs = none := by
        cases hd : dec true none xs with
        | none => rfl
        | some t => simp [hd] at h
      exact decT_eof_none cap xs true none _ _ _ h' (by simp only [pendLen]; omega)
    · exact decT_eof_none cap xs a (some []) _ _ _ h (by simp only [pendLen, List.length_nil]; omega)
  | x :: xs, a, some acc, nDst, nSrc, out, h, hcap => by
    simp only [pendLen, List.length_cons] at hcap
    simp only [dec] at h
    by_cases h45 : x = 45
    · subst h45
      simp only [if_true] at h
      cases hs : decSeg a acc with
      | none =>
        obtain ⟨hne, hor⟩ := decSeg_none hs
        have hemp : acc.isEmpty = false := by cases acc <;> simp_all
        simp only [decT, if_true, hemp, Bool.false_eq_true, if_false]
        rcases hor with rfl | hd
        · simp
        · cases a with
          | false => simp
          | true => simp [hd]
      | some o =>
        simp only [hs] at h
        have h' : dec acc.isEmpty none xs = none := by
          cases hd : dec acc.isEmpty none xs with
          | none => rfl
          | some t => simp [hd] at h
        rcases decSeg_some hs with ⟨rfl, rfl⟩ | ⟨hne, ha, hd⟩
        · simp only [List.isEmpty_nil] at h'
          simp only [decT, if_true, List.isEmpty_nil]
          rw [if_neg (by simp only [List.length_nil] at hcap; omega)]
          exact decT_eof_none cap xs true none _ _ _ h'
            (by simp only [pendLen, List.length_nil] at hcap ⊢; omega)
        · subst ha
          have hemp : acc.isEmpty = false := by cases acc <;> simp_all
          rw [hemp] at h'
          have hlen := decodeSeg_out_length hd
          simp only [decT, if_true, hemp, Bool.false_eq_true, if_false, Bool.not_true, hd]
          rw [if_neg (by omega)]
          exact decT_eof_none cap xs false none _ _ _ h' (by simp only [pendLen]; omega)
    · simp only [h45, if_false] at h
      simp only [decT, h45, if_false]
      split_ifs at h ⊢ with hcr
      · rfl
      · exact decT_eof_none cap xs a (some (acc ++ [x])) _ _ _ h
          (by simp only [pendLen, List.length_append, List.length_cons, List.length_nil]; omega)

end GoImap.Utf7Lemmas
