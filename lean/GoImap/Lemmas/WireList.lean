/-
  C01: nested lists — `Encoder.List / BeginList` with `String` / `Number64` leaves against the
  value reader assembled from `Decoder.String`, `Decoder.List` and `ExpectNumber64`; the depth cap.
-/
import GoImap.Lemmas.WireString
import GoImap.Spec.Wire
namespace GoImap.Wire
open GoImap.WireSpec

/-! ### what the encoder writes -/

mutual
  /-- the bytes `encValue` writes for a representable value -/
  def valBytes (cfg : Cfg) : Value → Bytes
    | .str s => strBytes cfg s
    | .num n => digits n.natAbs
    | .list vs => 40 :: (itemsBytes cfg true vs ++ [41])
  def itemsBytes (cfg : Cfg) : Bool → Values → Bytes
    | _, .nil => []
    | first, .cons v vs => (if first then [] else [32]) ++ (valBytes cfg v ++ itemsBytes cfg false vs)
end

mutual
  /-- representable and within Go's ranges: numbers in [0, 2^63), string lengths below 2^63 -/
  def Value.OK : Value → Prop
    | .str s => s.length < lim63
    | .num n => 0 ≤ n ∧ n.natAbs < lim63
    | .list vs => Values.OK vs
  def Values.OK : Values → Prop
    | .nil => True
    | .cons v vs => Value.OK v ∧ Values.OK vs
end

mutual
  /-- fuel that suffices to read the value back -/
  def Value.fuel : Value → Nat
    | .str _ => 1
    | .num _ => 1
    | .list vs => 1 + Values.fuel vs
  def Values.fuel : Values → Nat
    | .nil => 0
    | .cons v vs => 1 + Value.fuel v + Values.fuel vs
end

theorem intDigits_nonneg (n : Int) (h : 0 ≤ n) : intDigits n = digits n.natAbs := by
  unfold intDigits
  rw [if_neg (by omega)]

theorem Enc.write_ok (e : Enc) (b : Bytes) (he : e.err = false) :
    (e.write b).err = false ∧ (e.write b).out = e.out ++ b := by
  simp [Enc.write, he]

mutual
  theorem encValue_ok (cfg : Cfg) : ∀ (v : Value) (e : Enc), v.OK → e.err = false →
      (encValue cfg v e).err = false ∧ (encValue cfg v e).out = e.out ++ valBytes cfg v
    | .str s, e, _, he => by
      obtain ⟨h1, h2, _⟩ := encString_ok cfg s e he
      exact ⟨by simpa [encValue] using h1, by simpa [encValue, valBytes] using h2⟩
    | .num n, e, hok, he => by
      simp only [Value.OK] at hok
      have hn : ¬ n < 0 := by omega
      simp [encValue, encNumber64, valBytes, Enc.write, he, intDigits_nonneg n hok.1, hn]
    | .list vs, e, hok, he => by
      simp only [Value.OK] at hok
      obtain ⟨he1, ho1⟩ := Enc.write_ok e [40] he
      obtain ⟨h1, h2⟩ := encItems_ok cfg true vs (e.write [40]) hok he1
      obtain ⟨h3, h4⟩ := Enc.write_ok _ [41] h1
      have hdef : encValue cfg (.list vs) e = (encItems cfg true vs (e.write [40])).write [41] := by
        simp only [encValue]
      rw [hdef]
      refine ⟨h3, ?_⟩
      rw [h4, h2, ho1]
      simp [valBytes]
  theorem encItems_ok (cfg : Cfg) : ∀ (first : Bool) (vs : Values) (e : Enc), vs.OK → e.err = false →
      (encItems cfg first vs e).err = false ∧ (encItems cfg first vs e).out = e.out ++ itemsBytes cfg first vs
    | _, .nil, e, _, he => by simp [encItems, itemsBytes, he]
    | first, .cons v vs, e, hok, he => by
      simp only [Values.OK] at hok
      have he1 : (if first then e else e.write [32]).err = false := by
        cases first <;> simp [Enc.write, he]
      have ho1 : (if first then e else e.write [32]).out = e.out ++ (if first then [] else [32]) := by
        cases first <;> simp [Enc.write, he]
      obtain ⟨h1, h2⟩ := encValue_ok cfg v _ hok.1 he1
      obtain ⟨h3, h4⟩ := encItems_ok cfg false vs _ hok.2 h1
      have hdef : encItems cfg first (.cons v vs) e =
          encItems cfg false vs (encValue cfg v (if first then e else e.write [32])) := by
        simp only [encItems]
      rw [hdef]
      refine ⟨h3, ?_⟩
      rw [h4, h2, ho1]
      simp [itemsBytes, List.append_assoc]
end

/-! ### small decoder steps -/

theorem acceptByte_hit (b : Nat) (t : Bytes) (e : Option Err) (l : List (Nat × Bool)) :
    acceptByte b ⟨b :: t, e, l⟩ = (true, ⟨t, e, l⟩) := by
  simp [acceptByte]

theorem acceptByte_miss (w b : Nat) (t : Bytes) (e : Option Err) (l : List (Nat × Bool)) (h : b ≠ w) :
    acceptByte w ⟨b :: t, e, l⟩ = (false, ⟨b :: t, e, l⟩) := by
  simp [acceptByte, h]

theorem decString_miss (side : Side) (b : Nat) (t : Bytes) (e : Option Err) (l : List (Nat × Bool))
    (h1 : b ≠ 34) (h2 : b ≠ 123) :
    decString side ⟨b :: t, e, l⟩ = (false, [], ⟨b :: t, e, l⟩) := by
  simp [decString, decQuoted, decLiteral, acceptByte, h1, h2]

theorem expectSP_ok (b : Nat) (t : Bytes) (e : Option Err) (l : List (Nat × Bool))
    (h1 : b ≠ 13) (h2 : b ≠ 10) :
    expectSP ⟨32 :: b :: t, e, l⟩ = (true, ⟨b :: t, e, l⟩) := by
  simp [expectSP, decSP, acceptByte, expect, h1, h2]

/-- the first byte of an encoded value: `"`, `{`, `(` or a digit -/
def IsValHead (b : Nat) : Prop := b = 34 ∨ b = 123 ∨ b = 40 ∨ isDigit b = true

theorem IsValHead.facts {b : Nat} (h : IsValHead b) : b ≠ 41 ∧ b ≠ 13 ∧ b ≠ 10 ∧ b ≠ 32 := by
  rcases h with h | h | h | h
  · subst h; decide
  · subst h; decide
  · subst h; decide
  · simp only [isDigit, Bool.and_eq_true, decide_eq_true_eq] at h
    omega

theorem strBytes_head (cfg : Cfg) (s : Bytes) : ∃ b t, strBytes cfg s = b :: t ∧ (b = 34 ∨ b = 123) := by
  unfold strBytes
  split
  · exact ⟨34, quoteBody s ++ [34], rfl, Or.inl rfl⟩
  · obtain ⟨u, hu⟩ := litHeader_head cfg s.length (needSync cfg s.length) s
    exact ⟨123, u, hu, Or.inr rfl⟩

theorem digits_head (n : Nat) : ∃ b t, digits n = b :: t ∧ isDigit b = true := by
  cases h : digits n with
  | nil => exact absurd h (digits_ne_nil n)
  | cons b t => exact ⟨b, t, rfl, digits_isDigit n b (by rw [h]; simp)⟩

theorem valBytes_head (cfg : Cfg) (v : Value) : ∃ b t, valBytes cfg v = b :: t ∧ IsValHead b := by
  cases v with
  | str s =>
    obtain ⟨b, t, h, hb⟩ := strBytes_head cfg s
    exact ⟨b, t, by simpa [valBytes] using h, by rcases hb with hb | hb <;> simp [IsValHead, hb]⟩
  | num n =>
    obtain ⟨b, t, h, hb⟩ := digits_head n.natAbs
    exact ⟨b, t, by simpa [valBytes] using h, Or.inr (Or.inr (Or.inr hb))⟩
  | list vs => exact ⟨40, itemsBytes cfg true vs ++ [41], by simp [valBytes], Or.inr (Or.inr (Or.inl rfl))⟩

theorem itemsBytes_false_cons (cfg : Cfg) (v : Value) (vs : Values) :
    itemsBytes cfg false (.cons v vs) = 32 :: itemsBytes cfg true (.cons v vs) := by
  simp [itemsBytes]

theorem itemsBytes_true_cons (cfg : Cfg) (v : Value) (vs : Values) :
    itemsBytes cfg true (.cons v vs) = valBytes cfg v ++ itemsBytes cfg false vs := by
  simp [itemsBytes]

/-! ### one step of the value reader, by outcome of its sub-calls -/

theorem readValue_str (side : Side) (f depth : Nat) (s s1 : St) (v : Bytes)
    (h : decString side s = (true, v, s1)) : readValue side (f + 1) depth s = (.ok (.str v), s1) := by
  simp [readValue, h]

theorem readValue_num (side : Side) (f depth : Nat) (s s1 s2 s3 : St) (x : Bytes) (n : Nat)
    (h1 : decString side s = (false, x, s1)) (h2 : acceptByte 40 s1 = (false, s2))
    (h3 : expectNumber64 s2 = (true, n, s3)) :
    readValue side (f + 1) depth s = (.ok (.num (Int.ofNat n)), s3) := by
  simp [readValue, h1, h2, h3]

theorem readValue_nil (side : Side) (f depth : Nat) (s s1 s2 s3 : St) (x : Bytes)
    (h1 : decString side s = (false, x, s1)) (h2 : acceptByte 40 s1 = (true, s2))
    (h3 : acceptByte 41 s2 = (true, s3)) :
    readValue side (f + 1) depth s = (.ok (.list .nil), s3) := by
  simp [readValue, h1, h2, h3]

theorem readValue_cap (side : Side) (f depth : Nat) (s s1 s2 s3 : St) (x : Bytes)
    (h1 : decString side s = (false, x, s1)) (h2 : acceptByte 40 s1 = (true, s2))
    (h3 : acceptByte 41 s2 = (false, s3)) (hd : depth + 1 ≥ maxListDepth) :
    readValue side (f + 1) depth s = (.error .depth, s3) := by
  simp [readValue, h1, h2, h3, hd]

theorem readValue_list (side : Side) (f depth : Nat) (s s1 s2 s3 s4 : St) (x : Bytes)
    (r : Except Err Values)
    (h1 : decString side s = (false, x, s1)) (h2 : acceptByte 40 s1 = (true, s2))
    (h3 : acceptByte 41 s2 = (false, s3)) (hd : ¬ depth + 1 ≥ maxListDepth)
    (h4 : readItems side f (depth + 1) s3 = (r, s4)) :
    readValue side (f + 1) depth s =
      (match r with | .ok vs => .ok (.list vs) | .error e => .error e, s4) := by
  cases r <;> simp [readValue, h1, h2, h3, hd, h4]

theorem readItems_head_err (side : Side) (f depth : Nat) (s s1 : St) (e : Err)
    (h1 : readValue side f depth s = (.error e, s1)) :
    readItems side (f + 1) depth s = (.error e, s1) := by
  simp [readItems, h1]

theorem readItems_last (side : Side) (f depth : Nat) (s s1 s2 : St) (v : Value)
    (h1 : readValue side f depth s = (.ok v, s1)) (h2 : acceptByte 41 s1 = (true, s2)) :
    readItems side (f + 1) depth s = (.ok (.cons v .nil), s2) := by
  simp [readItems, h1, h2]

theorem readItems_more (side : Side) (f depth : Nat) (s s1 s2 s3 s4 : St) (v : Value)
    (r : Except Err Values)
    (h1 : readValue side f depth s = (.ok v, s1)) (h2 : acceptByte 41 s1 = (false, s2))
    (h3 : expectSP s2 = (true, s3)) (h4 : readItems side f depth s3 = (r, s4)) :
    readItems side (f + 1) depth s =
      (match r with | .ok vs => .ok (.cons v vs) | .error e => .error e, s4) := by
  cases r <;> simp [readItems, h1, h2, h3, h4]

/-! ### reading back -/

theorem depth_list_cons (v : Value) (vs : Values) :
    Value.depth (.list (.cons v vs)) = 1 + max (Value.depth v) (Values.depth vs) := by
  simp [Value.depth, Values.depth]

mutual
  /-- the value reader returns the value, consuming exactly its bytes, whenever the nesting stays
      below the cap -/
  theorem readValue_rt (cfg : Cfg) : ∀ (v : Value) (fuel depth c : Nat) (r : Bytes) (e : Option Err)
      (l : List (Nat × Bool)), v.OK → v.fuel ≤ fuel → depth + v.depth < maxListDepth → isDigit c = false →
      ∃ l', readValue cfg.side.peer fuel depth ⟨valBytes cfg v ++ c :: r, e, l⟩ = (.ok v, ⟨c :: r, e, l'⟩)
    | .str s, fuel, depth, c, r, e, l, hok, hf, _, _ => by
      simp only [Value.OK] at hok
      cases fuel with
      | zero => simp [Value.fuel] at hf
      | succ f =>
        exact ⟨l ++ strLits cfg s, readValue_str _ f depth _ _ s
          (by simpa [valBytes] using decString_strBytes cfg s (c :: r) hok e l)⟩
    | .num n, fuel, depth, c, r, e, l, hok, hf, _, hc => by
      simp only [Value.OK] at hok
      cases fuel with
      | zero => simp [Value.fuel] at hf
      | succ f =>
        refine ⟨l, ?_⟩
        obtain ⟨b, t, hb, hd⟩ := digits_head n.natAbs
        have hb' : b ≠ 34 ∧ b ≠ 123 ∧ b ≠ 40 := by
          simp only [isDigit, Bool.and_eq_true, decide_eq_true_eq] at hd; omega
        have hnum : expectNumber64 ⟨digits n.natAbs ++ c :: r, e, l⟩ = (true, n.natAbs, ⟨c :: r, e, l⟩) :=
          expectNumberLim_digits lim63 n.natAbs hok.2 c r hc e l
        have hs : decString cfg.side.peer ⟨digits n.natAbs ++ c :: r, e, l⟩ =
            (false, [], ⟨digits n.natAbs ++ c :: r, e, l⟩) := by
          rw [hb]; exact decString_miss _ b _ e l hb'.1 hb'.2.1
        have ha : acceptByte 40 ⟨digits n.natAbs ++ c :: r, e, l⟩ =
            (false, ⟨digits n.natAbs ++ c :: r, e, l⟩) := by
          rw [hb]; exact acceptByte_miss 40 b _ e l hb'.2.2
        have := readValue_num cfg.side.peer f depth _ _ _ _ _ _ hs ha hnum
        simp only [valBytes]
        rw [this]
        have : Int.ofNat n.natAbs = n := Int.natAbs_of_nonneg hok.1
        rw [this]
    | .list .nil, fuel, depth, c, r, e, l, _, hf, _, _ => by
      cases fuel with
      | zero => simp [Value.fuel] at hf
      | succ f =>
        refine ⟨l, ?_⟩
        have hin : valBytes cfg (.list .nil) ++ c :: r = 40 :: 41 :: c :: r := by
          simp [valBytes, itemsBytes]
        rw [hin]
        exact readValue_nil _ f depth _ _ _ _ _ (decString_miss _ 40 _ e l (by decide) (by decide))
          (acceptByte_hit 40 _ e l) (acceptByte_hit 41 _ e l)
    | .list (.cons v vs), fuel, depth, c, r, e, l, hok, hf, hd, _ => by
      cases fuel with
      | zero => simp [Value.fuel] at hf
      | succ f =>
        simp only [Value.OK] at hok
        rw [depth_list_cons] at hd
        have hf' : Values.fuel (.cons v vs) ≤ f := by simp only [Value.fuel] at hf; omega
        have hd' : (depth + 1) + Values.depth (.cons v vs) < maxListDepth := by
          simp only [Values.depth]; omega
        obtain ⟨l', hitems⟩ := readItems_rt cfg (.cons v vs) f (depth + 1) (c :: r) e l
          (by simp) hok hf' hd'
        refine ⟨l', ?_⟩
        obtain ⟨b, t, hb, hbh⟩ := valBytes_head cfg v
        have hin : valBytes cfg (.list (.cons v vs)) ++ c :: r =
            40 :: (itemsBytes cfg true (.cons v vs) ++ 41 :: (c :: r)) := by
          simp [valBytes]
        have hmiss : acceptByte 41 ⟨itemsBytes cfg true (.cons v vs) ++ 41 :: (c :: r), e, l⟩ =
            (false, ⟨itemsBytes cfg true (.cons v vs) ++ 41 :: (c :: r), e, l⟩) := by
          rw [itemsBytes_true_cons, hb]
          exact acceptByte_miss 41 b _ e l hbh.facts.1
        have hcap : ¬ (depth + 1 ≥ maxListDepth) := by
          simp only [Values.depth] at hd'; omega
        rw [hin]
        have := readValue_list cfg.side.peer f depth _ _ _ _ _ _ _
          (decString_miss _ 40 _ e l (by decide) (by decide)) (acceptByte_hit 40 _ e l) hmiss hcap hitems
        rw [this]
  /-- the loop of `Decoder.List` over the items of a non-empty list, up to and including `)` -/
  theorem readItems_rt (cfg : Cfg) : ∀ (vs0 : Values) (fuel depth : Nat) (r : Bytes) (e : Option Err)
      (l : List (Nat × Bool)), vs0 ≠ .nil → vs0.OK → vs0.fuel ≤ fuel → depth + vs0.depth < maxListDepth →
      ∃ l', readItems cfg.side.peer fuel depth ⟨itemsBytes cfg true vs0 ++ 41 :: r, e, l⟩ =
        (.ok vs0, ⟨r, e, l'⟩)
    | .nil, _, _, _, _, _, hne, _, _, _ => absurd rfl hne
    | .cons v vs, fuel, depth, r, e, l, _, hok, hf, hd => by
      cases fuel with
      | zero => simp [Values.fuel] at hf
      | succ f =>
        simp only [Values.OK] at hok
        simp only [Values.fuel] at hf
        simp only [Values.depth] at hd
        cases vs with
        | nil =>
          obtain ⟨l1, h1⟩ := readValue_rt cfg v f depth 41 r e l hok.1 (by omega) (by omega) (by decide)
          refine ⟨l1, ?_⟩
          have hin : itemsBytes cfg true (.cons v .nil) ++ 41 :: r = valBytes cfg v ++ 41 :: r := by
            simp [itemsBytes]
          rw [hin]
          exact readItems_last _ f depth _ _ _ v h1 (acceptByte_hit 41 _ e l1)
        | cons v2 vs2 =>
          obtain ⟨l1, h1⟩ := readValue_rt cfg v f depth 32 (itemsBytes cfg true (.cons v2 vs2) ++ 41 :: r)
            e l hok.1 (by omega) (by omega) (by decide)
          have hf2 : Values.fuel (.cons v2 vs2) ≤ f := by omega
          obtain ⟨l2, h2⟩ := readItems_rt cfg (.cons v2 vs2) f depth r e l1 (by simp) hok.2 hf2 (by omega)
          refine ⟨l2, ?_⟩
          obtain ⟨b, t, hb, hbh⟩ := valBytes_head cfg v2
          have hin : itemsBytes cfg true (.cons v (.cons v2 vs2)) ++ 41 :: r =
              valBytes cfg v ++ 32 :: (itemsBytes cfg true (.cons v2 vs2) ++ 41 :: r) := by
            rw [itemsBytes_true_cons, itemsBytes_false_cons]; simp
          have hsp : expectSP ⟨32 :: (itemsBytes cfg true (.cons v2 vs2) ++ 41 :: r), e, l1⟩ =
              (true, ⟨itemsBytes cfg true (.cons v2 vs2) ++ 41 :: r, e, l1⟩) := by
            rw [itemsBytes_true_cons, hb]
            exact expectSP_ok b _ e l1 hbh.facts.2.1 hbh.facts.2.2.1
          rw [hin]
          have := readItems_more _ f depth _ _ _ _ _ v _ h1 (acceptByte_miss 41 32 _ e l1 (by decide)) hsp h2
          rw [this]
end

/-! ### the depth cap -/

mutual
  /-- a value nested to the cap or beyond is refused with the depth error -/
  theorem readValue_capped (cfg : Cfg) : ∀ (v : Value) (fuel depth c : Nat) (r : Bytes) (e : Option Err)
      (l : List (Nat × Bool)), v.OK → v.fuel ≤ fuel → depth < maxListDepth →
      depth + v.depth ≥ maxListDepth → isDigit c = false →
      ∃ s', readValue cfg.side.peer fuel depth ⟨valBytes cfg v ++ c :: r, e, l⟩ = (.error .depth, s')
    | .str _, _, _, _, _, _, _, _, _, hlt, hd, _ => by simp [Value.depth] at hd; omega
    | .num _, _, _, _, _, _, _, _, _, hlt, hd, _ => by simp [Value.depth] at hd; omega
    | .list .nil, _, _, _, _, _, _, _, _, hlt, hd, _ => by simp [Value.depth] at hd; omega
    | .list (.cons v vs), fuel, depth, c, r, e, l, hok, hf, hlt, hd, _ => by
      cases fuel with
      | zero => simp [Value.fuel] at hf
      | succ f =>
        simp only [Value.OK] at hok
        rw [depth_list_cons] at hd
        have hf' : Values.fuel (.cons v vs) ≤ f := by simp only [Value.fuel] at hf; omega
        obtain ⟨b, t, hb, hbh⟩ := valBytes_head cfg v
        have hin : valBytes cfg (.list (.cons v vs)) ++ c :: r =
            40 :: (itemsBytes cfg true (.cons v vs) ++ 41 :: (c :: r)) := by
          simp [valBytes]
        have hmiss : acceptByte 41 ⟨itemsBytes cfg true (.cons v vs) ++ 41 :: (c :: r), e, l⟩ =
            (false, ⟨itemsBytes cfg true (.cons v vs) ++ 41 :: (c :: r), e, l⟩) := by
          rw [itemsBytes_true_cons, hb]
          exact acceptByte_miss 41 b _ e l hbh.facts.1
        rw [hin]
        by_cases hcap : depth + 1 ≥ maxListDepth
        · exact ⟨_, readValue_cap cfg.side.peer f depth _ _ _ _ _
            (decString_miss _ 40 _ e l (by decide) (by decide)) (acceptByte_hit 40 _ e l) hmiss hcap⟩
        · have hd' : (depth + 1) + Values.depth (.cons v vs) ≥ maxListDepth := by
            simp only [Values.depth]; omega
          obtain ⟨s', hitems⟩ := readItems_capped cfg (.cons v vs) f (depth + 1) (c :: r) e l
            (by simp) hok hf' (by omega) hd'
          have := readValue_list cfg.side.peer f depth _ _ _ _ _ _ _
            (decString_miss _ 40 _ e l (by decide) (by decide)) (acceptByte_hit 40 _ e l) hmiss hcap hitems
          exact ⟨s', this⟩
  theorem readItems_capped (cfg : Cfg) : ∀ (vs0 : Values) (fuel depth : Nat) (r : Bytes) (e : Option Err)
      (l : List (Nat × Bool)), vs0 ≠ .nil → vs0.OK → vs0.fuel ≤ fuel → depth < maxListDepth →
      depth + vs0.depth ≥ maxListDepth →
      ∃ s', readItems cfg.side.peer fuel depth ⟨itemsBytes cfg true vs0 ++ 41 :: r, e, l⟩ =
        (.error .depth, s')
    | .nil, _, _, _, _, _, hne, _, _, _, _ => absurd rfl hne
    | .cons v vs, fuel, depth, r, e, l, _, hok, hf, hlt, hd => by
      cases fuel with
      | zero => simp [Values.fuel] at hf
      | succ f =>
        simp only [Values.OK] at hok
        simp only [Values.fuel] at hf
        simp only [Values.depth] at hd
        cases vs with
        | nil =>
          have hdv : depth + v.depth ≥ maxListDepth := by simp only [Values.depth] at hd; omega
          obtain ⟨s', h1⟩ := readValue_capped cfg v f depth 41 r e l hok.1 (by omega) hlt hdv (by decide)
          have hin : itemsBytes cfg true (.cons v .nil) ++ 41 :: r = valBytes cfg v ++ 41 :: r := by
            simp [itemsBytes]
          rw [hin]
          exact ⟨s', readItems_head_err _ f depth _ _ _ h1⟩
        | cons v2 vs2 =>
          have hin : itemsBytes cfg true (.cons v (.cons v2 vs2)) ++ 41 :: r =
              valBytes cfg v ++ 32 :: (itemsBytes cfg true (.cons v2 vs2) ++ 41 :: r) := by
            rw [itemsBytes_true_cons, itemsBytes_false_cons]; simp
          rw [hin]
          by_cases hdv : depth + v.depth ≥ maxListDepth
          · obtain ⟨s', h1⟩ := readValue_capped cfg v f depth 32 _ e l hok.1 (by omega) hlt hdv (by decide)
            exact ⟨s', readItems_head_err _ f depth _ _ _ h1⟩
          · obtain ⟨l1, h1⟩ := readValue_rt cfg v f depth 32 (itemsBytes cfg true (.cons v2 vs2) ++ 41 :: r)
              e l hok.1 (by omega) (by omega) (by decide)
            have hf2 : Values.fuel (.cons v2 vs2) ≤ f := by omega
            obtain ⟨s', h2⟩ := readItems_capped cfg (.cons v2 vs2) f depth r e l1 (by simp) hok.2 hf2 hlt
              (by omega)
            obtain ⟨b, t, hb, hbh⟩ := valBytes_head cfg v2
            have hsp : expectSP ⟨32 :: (itemsBytes cfg true (.cons v2 vs2) ++ 41 :: r), e, l1⟩ =
                (true, ⟨itemsBytes cfg true (.cons v2 vs2) ++ 41 :: r, e, l1⟩) := by
              rw [itemsBytes_true_cons, hb]
              exact expectSP_ok b _ e l1 hbh.facts.2.1 hbh.facts.2.2.1
            have := readItems_more _ f depth _ _ _ _ _ v _ h1 (acceptByte_miss 41 32 _ e l1 (by decide)) hsp h2
            exact ⟨s', this⟩
end

/-! ### refusal: a negative number anywhere in the tree -/

theorem Enc.write_err (e : Enc) (b : Bytes) (he : e.err = true) : (e.write b).err = true := by
  simp [Enc.write, he]

mutual
  theorem encValue_sticky (cfg : Cfg) : ∀ (v : Value) (e : Enc), e.err = true → (encValue cfg v e).err = true
    | .str s, e, he => by simp only [encValue]; rw [encString_err cfg s e he]; exact he
    | .num n, e, he => by
      simp only [encValue, encNumber64]
      split
      · simp [Enc.setErr]
      · exact Enc.write_err e _ he
    | .list vs, e, he => by
      simp only [encValue]
      exact Enc.write_err _ _ (encItems_sticky cfg true vs _ (Enc.write_err e _ he))
  theorem encItems_sticky (cfg : Cfg) : ∀ (first : Bool) (vs : Values) (e : Enc), e.err = true →
      (encItems cfg first vs e).err = true
    | _, .nil, e, he => by simpa [encItems] using he
    | first, .cons v vs, e, he => by
      simp only [encItems]
      apply encItems_sticky cfg false vs
      apply encValue_sticky cfg v
      cases first
      · exact Enc.write_err e _ he
      · exact he
end

mutual
  theorem encValue_refuse (cfg : Cfg) : ∀ (v : Value) (e : Enc), Value.representable v = false →
      (encValue cfg v e).err = true
    | .str _, _, h => by simp [Value.representable] at h
    | .num n, e, h => by
      simp only [Value.representable, decide_eq_false_iff_not, Int.not_le] at h
      simp [encValue, encNumber64, h, Enc.setErr]
    | .list vs, e, h => by
      simp only [Value.representable] at h
      simp only [encValue]
      exact Enc.write_err _ _ (encItems_refuse cfg true vs _ h)
  theorem encItems_refuse (cfg : Cfg) : ∀ (first : Bool) (vs : Values) (e : Enc),
      Values.representable vs = false → (encItems cfg first vs e).err = true
    | _, .nil, _, h => by simp [Values.representable] at h
    | first, .cons v vs, e, h => by
      simp only [Values.representable, Bool.and_eq_false_iff] at h
      simp only [encItems]
      rcases h with h | h
      · exact encItems_sticky cfg false vs _ (encValue_refuse cfg v _ h)
      · exact encItems_refuse cfg false vs _ h
end

end GoImap.Wire
