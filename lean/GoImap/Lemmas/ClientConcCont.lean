import GoImap.Lemmas.ClientConcBasic
/-!
  C13: continuation requests are matched in wire order (repaired model). `regLog` is the sequence
  of commands for which a continuation request was registered. The literal headers / IDLE lines on
  the wire (`wireHeads`), and the requests granted so far followed by those still queued, are both
  order-preserving sub-sequences of it: the k-th "+" the reader consumes goes to the earliest
  registered request that is still outstanding, and headers reach the server in registration order.
-/
namespace GoImap.ClientConc

def wireHeads (w : List (Nat × WireKind)) : List Nat :=
  (w.filter fun e => isHeadKind e.2).map Prod.fst

theorem wireHeads_append (w : List (Nat × WireKind)) (c : Nat) (k : WireKind) :
    wireHeads (w ++ [(c, k)]) = if isHeadKind k then wireHeads w ++ [c] else wireHeads w := by
  unfold wireHeads
  rw [List.filter_append]
  cases hk : isHeadKind k <;> simp [List.filter, hk]

/-- the part of the state this file talks about -/
def cfView (s : St) : List Nat × Option Nat × List Nat × List Nat × List Nat :=
  (s.regLog, s.unfl, wireHeads s.wire, s.contReqs.map Prod.snd, s.contResumed)

/-- the headers on the wire follow the registrations; a registration whose header has not been
    flushed yet (`u`) is the last one -/
def headsOK (u : Option Nat) (rl wh : List Nat) : Prop :=
  match u with
  | some c => ∃ R, rl = R ++ [c] ∧ wh.Sublist R
  | none => wh.Sublist rl

structure ContInv (s : St) : Prop where
  heads : headsOK s.unfl s.regLog (wireHeads s.wire)
  fifo : (s.contResumed ++ s.contReqs.map Prod.snd).Sublist s.regLog

theorem ContInv.heads_sub {s : St} (h : ContInv s) : (wireHeads s.wire).Sublist s.regLog := by
  have := h.heads
  unfold headsOK at this
  split at this
  · obtain ⟨R, e, hs⟩ := this
    rw [e]; exact hs.trans (List.sublist_append_left R _)
  · exact this

theorem contInv_of_view {s s' : St} (h : ContInv s) (e : cfView s' = cfView s) : ContInv s' := by
  simp only [cfView, Prod.mk.injEq] at e
  obtain ⟨e1, e2, e3, e4, e5⟩ := e
  constructor
  · rw [e2, e1, e3]; exact h.heads
  · rw [e5, e4, e1]; exact h.fifo

theorem foldl_setCont2_view (ks : List (Nat × Nat)) (x : ContSt) (s : St) :
    cfView (ks.foldl (fun acc kc => acc.setCont kc.1 x) s) = cfView s := by
  induction ks generalizing s with
  | nil => rfl
  | cons k ks ih => simp only [List.foldl]; rw [ih]; rfl

theorem foldl_setCont_view (ks : List Nat) (s : St) :
    cfView (ks.foldl (fun acc k => acc.setCont k .cancelled) s) = cfView s := by
  induction ks generalizing s with
  | nil => rfl
  | cons k ks ih => simp only [List.foldl]; rw [ih]; rfl

theorem deliver_view (s : St) (l : Line) : cfView (deliver s l) = cfView s := by
  unfold deliver; split <;> rfl

def contSpecial : Instr → Bool
  | .regCont _ | .flush .. | .popCont | .cancelConts .. | .closeSwap | .idleDoneW _ => true
  | _ => false

theorem exec_cfView (v : Variant) (s : St) (t : Nat) (i : Instr) (rest : List Instr)
    (hi : contSpecial i = false) : cfView (exec v s t i rest) = cfView s := by
  cases i <;> simp [contSpecial] at hi
  case srv a =>
    simp only [exec]
    split
    · rfl
    · cases a <;> simp only [execSrv]
      case reply rep oldest =>
        split
        · rfl
        · show cfView (deliver s _) = _; exact deliver_view s _
      case cont =>
        split
        · rfl
        · show cfView (deliver s _) = _; exact deliver_view s _
      case enabled => show cfView (deliver s _) = _; exact deliver_view s _
      case close => rfl
      case rerr => rfl
  case cancelOrphans ks =>
    simp only [exec]
    show cfView (List.foldl _ _ _) = _
    exact foldl_setCont_view _ _
  all_goals
    simp only [exec]
    repeat' split
    all_goals rfl

theorem contInv_of_fields {s' : St} {rl : List Nat} {u : Option Nat} {wh q r : List Nat}
    (e1 : s'.regLog = rl) (e2 : s'.unfl = u) (e3 : wireHeads s'.wire = wh)
    (e4 : s'.contReqs.map Prod.snd = q) (e5 : s'.contResumed = r)
    (hh : headsOK u rl wh)
    (hf : (r ++ q).Sublist rl) : ContInv s' := by
  subst e1 e2 e3 e4 e5
  exact ⟨hh, hf⟩

theorem flushBody_fields (s1 : St) (t c : Nat) (w : WireKind) (m : FlushMode) (rest : List Instr) :
    (flushBody s1 t c w m rest).regLog = s1.regLog ∧ (flushBody s1 t c w m rest).unfl = s1.unfl ∧
    (flushBody s1 t c w m rest).contReqs = s1.contReqs ∧ (flushBody s1 t c w m rest).contResumed = s1.contResumed ∧
    ((flushBody s1 t c w m rest).wire = s1.wire ∨ (flushBody s1 t c w m rest).wire = s1.wire ++ [(c, w)]) := by
  cases m <;> simp only [flushBody] <;> repeat' split
  all_goals first
    | exact ⟨rfl, rfl, rfl, rfl, Or.inl rfl⟩
    | exact ⟨rfl, rfl, rfl, rfl, Or.inr rfl⟩

theorem contInv_exec (v : Variant) (hv : v.idleUnderEnc = true) (s : St) (t : Nat) (i : Instr)
    (rest : List Instr) (h : ContInv s) : ContInv (exec v s t i rest) := by
  cases hi : contSpecial i
  · exact contInv_of_view h (exec_cfView v s t i rest hi)
  · cases i <;> simp [contSpecial] at hi
    case regCont c =>
      simp only [exec]
      split
      · exact h
      · split
        · refine contInv_of_fields (rl := s.regLog ++ [c]) (u := some c) (wh := wireHeads s.wire)
            (q := s.contReqs.map Prod.snd) (r := s.contResumed) rfl rfl rfl rfl rfl ?_ ?_
          · exact ⟨s.regLog, rfl, h.heads_sub⟩
          · exact h.fifo.trans (List.sublist_append_left _ _)
        · refine contInv_of_fields (rl := s.regLog ++ [c]) (u := some c) (wh := wireHeads s.wire)
            (q := s.contReqs.map Prod.snd ++ [c]) (r := s.contResumed) rfl rfl rfl ?_ rfl ?_ ?_
          · show (s.contReqs ++ [(s.nextCont, c)]).map Prod.snd = _
            rw [List.map_append]; rfl
          · exact ⟨s.regLog, rfl, h.heads_sub⟩
          · rw [← List.append_assoc]
            exact List.Sublist.append h.fifo (List.Sublist.refl _)
    case flush c w m =>
      simp only [exec]
      split
      · exact h
      · split
        · exact h
        · rename_i hg
          cases hk : isHeadKind w
          · -- not a header: nothing this file looks at changes
            simp only [hk, Bool.false_eq_true, if_false]
            obtain ⟨f1, f2, f3, f4, f5⟩ := flushBody_fields s t c w m rest
            have hw : wireHeads (flushBody s t c w m rest).wire = wireHeads s.wire := by
              rcases f5 with e | e
              · rw [e]
              · rw [e, wireHeads_append, hk]; rfl
            exact contInv_of_view h (by simp only [cfView, f1, f2, f3, f4, hw])
          · simp only [hk, if_true]
            have hu : s.unfl = some c := by
              simp only [hv, hk, Bool.true_and, Bool.and_true, decide_eq_true_eq, ne_eq, Decidable.not_not] at hg
              exact hg
            have hh := h.heads
            rw [hu] at hh
            obtain ⟨R, hR, hsub⟩ : ∃ R, s.regLog = R ++ [c] ∧ (wireHeads s.wire).Sublist R := hh
            obtain ⟨f1, f2, f3, f4, f5⟩ := flushBody_fields { s with unfl := none } t c w m rest
            refine contInv_of_fields (rl := s.regLog) (u := none)
              (wh := wireHeads (flushBody { s with unfl := none } t c w m rest).wire)
              (q := s.contReqs.map Prod.snd) (r := s.contResumed) f1 f2 rfl (by rw [f3]) f4 ?_ h.fifo
            show (wireHeads (flushBody { s with unfl := none } t c w m rest).wire).Sublist s.regLog
            rcases f5 with e | e
            · rw [e]; exact h.heads_sub
            · rw [e, wireHeads_append, hk, if_pos rfl, hR]
              exact List.Sublist.append hsub (List.Sublist.refl _)
    case popCont =>
      simp only [exec]
      split
      · exact contInv_of_view h rfl
      · rename_i k c more hq
        refine contInv_of_fields (rl := s.regLog) (u := s.unfl) (wh := wireHeads s.wire)
          (q := more.map Prod.snd) (r := s.contResumed ++ [c]) rfl rfl rfl rfl rfl h.heads ?_
        have := h.fifo
        rw [hq] at this
        simpa [List.append_assoc] using this
    case cancelConts c r =>
      simp only [exec]
      have hsub : ((s.contReqs.filter (fun x => decide (x.2 ≠ c))).map Prod.snd).Sublist (s.contReqs.map Prod.snd) :=
        (List.filter_sublist).map _
      have base : ContInv ({ s with contReqs := s.contReqs.filter (fun x => decide (x.2 ≠ c)) } : St) :=
        contInv_of_fields (rl := s.regLog) (u := s.unfl) (wh := wireHeads s.wire)
          (q := (s.contReqs.filter (fun x => decide (x.2 ≠ c))).map Prod.snd) (r := s.contResumed) rfl rfl rfl rfl rfl
          h.heads ((List.Sublist.append (List.Sublist.refl _) hsub).trans h.fifo)
      refine contInv_of_view base ?_
      show cfView (List.foldl _ _ _) = _
      exact foldl_setCont2_view _ _ _
    case closeSwap =>
      simp only [exec]
      split
      · refine contInv_of_fields (rl := s.regLog) (u := s.unfl) (wh := wireHeads s.wire)
          (q := []) (r := s.contResumed) rfl rfl rfl rfl rfl h.heads ?_
        rw [List.append_nil]
        exact (List.sublist_append_left _ _).trans h.fifo
      · exact contInv_of_view h rfl
    case idleDoneW c =>
      simp only [exec]
      split
      · exact h
      · split
        · refine contInv_of_view h ?_
          simp only [cfView, setProg_cmd]
          show (_, _, wireHeads (s.wire ++ [(c, WireKind.done)]), _, _) = _
          rw [wireHeads_append]; rfl
        · exact contInv_of_view h rfl

theorem contInv_skipCaps (s : St) (t : Nat) (h : ContInv s) : ContInv (skipCaps s t) := by
  unfold skipCaps
  split
  · split
    · refine contInv_of_view h ?_
      split <;> rfl
    · exact h
  · exact h

theorem contInv_step (v : Variant) (hv : v.idleUnderEnc = true) (s : St) (t : Nat) (h : ContInv s) :
    ContInv (step v s t) := by
  unfold step
  split
  · exact h
  · split
    · split
      · exact contInv_skipCaps s _ h
      · exact h
    · split
      · exact h
      · split
        · exact h
        · rename_i i rest _
          exact contInv_exec v hv s t i rest h

theorem contInv_run (v : Variant) (hv : v.idleUnderEnc = true) (sched : List Nat) (s : St) (h : ContInv s) :
    ContInv (run v s sched) := by
  induction sched generalizing s with
  | nil => exact h
  | cons t ts ih => exact ih (step v s t) (contInv_step v hv s t h)

theorem contInv_init (v : Variant) (sc : Scenario) : ContInv (init v sc) :=
  ⟨List.Sublist.refl _, List.Sublist.refl _⟩

end GoImap.ClientConc
