/-
  C08 helper lemmas, part 8: the numbers a command itself puts on the wire (FETCH responses, SEARCH
  results) are `EncodeSeqNum` of server positions, skipped when 0, hence places of the session's
  ghost view, and the specification accepts them.
-/
import GoImap.Lemmas.ViewsOps
namespace GoImap.ViewsLemmas
open GoImap.Tracker GoImap.TrackerSpec GoImap.TrackerLemmas GoImap.Views GoImap.ViewsSpec

/-! ### flag-only updates of the message list keep the UIDs -/

theorem indexed_map_update_uid (msg' : Msg) (i : Nat) : ∀ (l : List Msg) (s : Nat),
    (∀ x, s ≤ i → l[i - s]? = some x → x.uid = msg'.uid) →
    ((indexed l s).map fun im => if im.1 = i then msg' else im.2).map (·.uid) = l.map (·.uid)
  | [], _, _ => rfl
  | a :: l, s, h => by
    simp only [indexed, List.map_cons, List.cons.injEq]
    constructor
    · by_cases hs : s = i
      · subst hs
        simp only [if_true]
        exact (h a (Nat.le_refl _) (by simp)).symm
      · simp [hs]
    · apply indexed_map_update_uid msg' i l (s + 1)
      intro x hx hl
      apply h x (by omega)
      have : i - s = (i - (s + 1)) + 1 := by omega
      rw [this, List.getElem?_cons_succ]; exact hl

theorem replaceAt_uids (upd : List (Nat × Msg)) : ∀ (l : List (Nat × Msg)),
    (∀ im ∈ l, ∀ x, upd.find? (fun x => x.1 = im.1) = some x → x.2.uid = im.2.uid) →
    (replaceAt upd l).map (·.uid) = l.map (·.2.uid)
  | [], _ => rfl
  | im :: l, h => by
    simp only [replaceAt, List.map_cons, List.cons.injEq]
    constructor
    · cases hf : upd.find? (fun x => x.1 = im.1) with
      | none => rfl
      | some x => exact h im List.mem_cons_self x hf
    · exact replaceAt_uids upd l (fun im' him' => h im' (List.mem_cons_of_mem _ him'))

/-! ### FETCH responses -/

/-- two sessions of a mailbox with the same id are the same session -/
theorem sess_unique {b : MBox} {g : GSt} (h : MbInv b g) {gs gs' : GSess} (h1 : gs ∈ g.sess) (h2 : gs' ∈ g.sess)
    (hid : gs.id = gs'.id) : gs = gs' := by
  have e1 := find?_of_mem_nodup h.ids h1
  have e2 := find?_of_mem_nodup h.ids h2
  rw [hid, e2] at e1
  exact (Option.some.inj e1).symm

theorem applyEvs_cons_ok {q sr : Bool} {v v1 v2 : View} {e : Ev} {es : List Ev}
    (h1 : applyEv q sr v e = .ok v1) (h2 : applyEvs q sr v1 es = .ok v2) : applyEvs q sr v (e :: es) = .ok v2 := by
  simp only [applyEvs, h1]; exact h2

/-- MailboxView.Fetch's loop never fails; every response is accepted by the specification, labels are
    right, the invariant is kept (a non-PEEK fetch queues flag updates for every session), and no
    EXPUNGE is sent -/
theorem ginv_fetchLoop (q sr wf ms : Bool) {m c : Nat} {ids : List Id} :
    ∀ (items : List (Nat × Msg)) {st : Views.St} {G : List GSt} {A : List View}, GInv st G A →
    ∀ {cn : Conn}, st.conns[c]? = some cn → cn.sel = some m → ∀ {g : GSt}, G[m]? = some g → g.mbox = ids →
    (∀ im ∈ items, 1 ≤ im.1 ∧ ids[im.1 - 1]? = some (im.2.uid - 1) ∧ 1 ≤ im.2.uid) →
    ∃ st' evs G' Ac', fetchLoop {} st m c wf ms items = some (st', evs) ∧
      applyEvs q sr (A.getD c []) evs = .ok Ac' ∧ GInv st' G' (A.set c Ac') ∧ (∀ k, Ev.expunge k ∉ evs)
  | [], st, G, A, h, cn, hc, hsel, g, hg, hids, _ =>
    ⟨st, [], G, A.getD c [], rfl, rfl, by rw [set_getD_self]; exact h, fun k hk => by cases hk⟩
  | (i, msg) :: rest, st, G, A, h, cn, hc, hsel, g, hg, hids, hitems => by
    obtain ⟨hi1, hid, hu1⟩ := hitems (i, msg) List.mem_cons_self
    simp only at hi1 hid hu1
    have hrest : ∀ im ∈ rest, 1 ≤ im.1 ∧ ids[im.1 - 1]? = some (im.2.uid - 1) ∧ 1 ≤ im.2.uid :=
      fun im him => hitems im (List.mem_cons_of_mem _ him)
    have hmlt : m < st.mb.length := by rw [h.mlen]; exact (List.getElem?_eq_some_iff.mp hg).1
    have hb : st.mb[m]? = some st.mb[m] := List.getElem?_eq_getElem hmlt
    generalize st.mb[m] = b at hb
    have hmb := h.mb m b g hb hg
    have hci := h.conn c cn hc
    unfold ConnInv at hci
    rw [hsel] at hci
    obtain ⟨g0, gs, hg0, hgs, hgid, hv, _⟩ := hci
    rw [hg] at hg0
    cases hg0
    subst hids
    have hilt : i - 1 < g.mbox.length := (List.getElem?_eq_some_iff.mp hid).1
    have henc : b.enc c i = posOf (msg.uid - 1) gs.view := by
      have := enc_spec hmb hgs hi1 (by omega)
      rw [hgid] at this
      rw [this]
      congr 1
      have := List.getElem?_eq_getElem hilt
      rw [hid] at this
      exact (Option.some.inj this).symm
    by_cases he : b.enc c i = 0
    · obtain ⟨st', evs, G', Ac', hl, hrest'⟩ := ginv_fetchLoop q sr wf ms rest h hc hsel hg rfl hrest
      refine ⟨st', evs, G', Ac', ?_, hrest'⟩
      simp only [fetchLoop, getMb, hb, he, decide_true, Bool.not_false, Bool.and_true, if_true]
      exact hl
    · have hcA : c < A.length := by rw [← h.clen]; exact (List.getElem?_eq_some_iff.mp hc).1
      have hpos : posOf (msg.uid - 1) gs.view ≠ 0 := by rw [← henc]; exact he
      have huid : msg.uid - 1 + 1 = msg.uid := by omega
      -- the response to this message, against the announced view
      obtain ⟨Ac1, ha1, hv1⟩ := applyEv_fetch_pos hv hpos q sr
        (if wf then some (if ms then msg.flags ||| 2 else msg.flags) else none)
      rw [← henc, huid] at ha1
      have hA1 : GInv st G (A.set c Ac1) := by
        refine ginv_relabel h hc hsel ?_
        intro g' gs' hg' hgs' hid'
        rw [hg] at hg'
        cases hg'
        rw [← sess_unique hmb hgs hgs' (hgid.trans hid'.symm)]
        exact hv1
      have hfin : ∀ {st1 : Views.St} {G1 : List GSt} {cn1 : Conn} {g1 : GSt}, GInv st1 G1 (A.set c Ac1) →
          st1.conns[c]? = some cn1 → cn1.sel = some m → G1[m]? = some g1 → g1.mbox = g.mbox →
          ∀ (fl : Option Nat), applyEv q sr (A.getD c []) (Ev.fetch (b.enc c i) msg.uid fl) = .ok Ac1 →
          ∃ st' evs' G' Ac', fetchLoop {} st1 m c wf ms rest = some (st', evs') ∧
            applyEvs q sr (A.getD c []) (Ev.fetch (b.enc c i) msg.uid fl :: evs') = .ok Ac' ∧
            GInv st' G' (A.set c Ac') ∧ (∀ k, Ev.expunge k ∉ Ev.fetch (b.enc c i) msg.uid fl :: evs') := by
        intro st1 G1 cn1 g1 h1 hc1 hsel1 hg1 hm1 fl hacc
        obtain ⟨st', evs', G', Ac', hl', ha', h', hne'⟩ :=
          ginv_fetchLoop q sr wf ms rest h1 hc1 hsel1 hg1 hm1 hrest
        rw [getD_set_self A hcA] at ha'
        rw [List.set_set] at h'
        refine ⟨st', evs', G', Ac', hl', applyEvs_cons_ok hacc ha', h', ?_⟩
        intro k hk
        rcases List.mem_cons.mp hk with hk | hk
        · cases hk
        · exact hne' k hk
      cases ms with
      | false =>
        simp only [Bool.false_eq_true, if_false] at ha1
        obtain ⟨st', evs', G', Ac', hl', ha', h', hne'⟩ := hfin hA1 hc hsel hg rfl _ ha1
        refine ⟨st', _, G', Ac', ?_, ha', h', hne'⟩
        simp only [fetchLoop, getMb, hb, he, decide_false, Bool.false_and, Bool.false_eq_true, if_false, hl']
      | true =>
        simp only [if_true] at ha1
        -- \\Seen is set on the message, then a flags update is queued for every session
        have hu : (List.map (fun im : Nat × Msg => if im.1 = i then (⟨msg.uid, msg.flags ||| 2⟩ : Msg) else im.2)
            (indexed b.msgs 1)).map (·.uid) = b.msgs.map (·.uid) := by
          apply indexed_map_update_uid
          intro x _ hx
          have h1 : (b.msgs.map (·.uid))[i - 1]? = some x.uid := by simp [hx]
          rw [hmb.uids] at h1
          simp only [List.getElem?_map, hid, Option.map_some, Option.some.injEq] at h1
          show x.uid = msg.uid
          omega
        have hA2 := ginv_setMb_same hA1 hb (b' := { b with msgs := (indexed b.msgs 1).map fun im =>
          if im.1 = i then (⟨msg.uid, msg.flags ||| 2⟩ : Msg) else im.2 }) rfl rfl hu
        have hb2 : (setMb st m { b with msgs := (indexed b.msgs 1).map fun im =>
            if im.1 = i then (⟨msg.uid, msg.flags ||| 2⟩ : Msg) else im.2 }).mb[m]? =
            some { b with msgs := (indexed b.msgs 1).map fun im =>
              if im.1 = i then (⟨msg.uid, msg.flags ||| 2⟩ : Msg) else im.2 } := by
          simp only [setMb]; exact List.getElem?_set_self hmlt
        obtain ⟨st1, G1, b1, g1, hq1, h1, _, hg1, hm1, _, hsel1⟩ := ginv_queueFlags
          [(i, (⟨msg.uid, msg.flags ||| 2⟩ : Msg))] hA2 hb2 hg none
          (by intro im him; simp only [List.mem_singleton] at him; subst him; exact ⟨hi1, hid, hu1⟩)
        obtain ⟨cn1, hc1, hs1⟩ := hsel1 c cn hc
        obtain ⟨st', evs', G', Ac', hl', ha', h', hne'⟩ := hfin h1 hc1 (hs1.trans hsel) hg1 hm1 _ ha1
        refine ⟨st', _, G', Ac', ?_, ha', h', hne'⟩
        simp only [fetchLoop, getMb, hb, he, decide_false, Bool.false_and, Bool.false_eq_true, if_false, if_true,
          hq1, hl']

/-! ### SEARCH results -/

theorem mem_insertNum {x k : Nat} : ∀ {l : List Nat}, k ∈ insertNum x l → k = x ∨ k ∈ l
  | [], h => by simp only [insertNum, List.mem_singleton] at h; exact Or.inl h
  | y :: l, h => by
    simp only [insertNum] at h
    split at h
    · rcases List.mem_cons.mp h with h | h
      · exact Or.inl h
      · exact Or.inr h
    · split at h
      · exact Or.inr h
      · rcases List.mem_cons.mp h with h | h
        · exact Or.inr (h ▸ List.mem_cons_self)
        · rcases mem_insertNum h with h | h
          · exact Or.inl h
          · exact Or.inr (List.mem_cons_of_mem _ h)

theorem mem_foldl_insertNum {k : Nat} : ∀ (l acc : List Nat), k ∈ l.foldl (fun acc x => insertNum x acc) acc →
    k ∈ l ∨ k ∈ acc
  | [], acc, h => Or.inr h
  | x :: l, acc, h => by
    simp only [List.foldl_cons] at h
    rcases mem_foldl_insertNum l _ h with h | h
    · exact Or.inl (List.mem_cons_of_mem _ h)
    · rcases mem_insertNum h with h | h
      · exact Or.inl (h ▸ List.mem_cons_self)
      · exact Or.inr h

theorem mem_setOf {k : Nat} {l : List Nat} (h : k ∈ setOf l) : k ∈ l := by
  rcases mem_foldl_insertNum l [] h with h | h
  · exact h
  · cases h

theorem foldl_min_mem : ∀ (l : List Nat) (x : Nat), l.foldl Nat.min x = x ∨ l.foldl Nat.min x ∈ l
  | [], x => Or.inl rfl
  | y :: l, x => by
    simp only [List.foldl_cons]
    rcases foldl_min_mem l (Nat.min x y) with h | h
    · rw [h]
      rcases Nat.le_total x y with hxy | hxy
      · exact Or.inl (Nat.min_eq_left hxy)
      · exact Or.inr (by show min x y ∈ _; rw [Nat.min_eq_right hxy]; exact List.mem_cons_self)
    · exact Or.inr (List.mem_cons_of_mem _ h)

theorem foldl_max_mem : ∀ (l : List Nat) (x : Nat), l.foldl Nat.max x = x ∨ l.foldl Nat.max x ∈ l
  | [], x => Or.inl rfl
  | y :: l, x => by
    simp only [List.foldl_cons]
    rcases foldl_max_mem l (Nat.max x y) with h | h
    · rw [h]
      rcases Nat.le_total x y with hxy | hxy
      · exact Or.inr (by show max x y ∈ _; rw [Nat.max_eq_right hxy]; exact List.mem_cons_self)
      · exact Or.inl (Nat.max_eq_left hxy)
    · exact Or.inr (List.mem_cons_of_mem _ h)

theorem minOf_mem (l : List Nat) : minOf l = 0 ∨ minOf l ∈ l := by
  cases l with
  | nil => exact Or.inl rfl
  | cons x l =>
    rcases foldl_min_mem l x with h | h
    · exact Or.inr (by simp only [minOf, h]; exact List.mem_cons_self)
    · exact Or.inr (List.mem_cons_of_mem _ h)

theorem maxOf_mem (l : List Nat) : maxOf l = 0 ∨ maxOf l ∈ l := by
  cases l with
  | nil => exact Or.inl rfl
  | cons x l =>
    rcases foldl_max_mem l x with h | h
    · exact Or.inr (by simp only [maxOf, h]; exact List.mem_cons_self)
    · exact Or.inr (List.mem_cons_of_mem _ h)

/-- every number a non-UID SEARCH returns is EncodeSeqNum of a server position, and not 0 -/
theorem searchLoop_mem {b : MBox} {c : Nat} {key : Key} {k : Nat} : ∀ (items : List (Nat × Msg)),
    k ∈ searchLoop b c false key items → ∃ im ∈ items, k = b.enc c im.1 ∧ k ≠ 0
  | [], h => by cases h
  | (i, msg) :: rest, h => by
    simp only [searchLoop, Bool.false_eq_true, if_false] at h
    split at h
    · obtain ⟨im, him, hk⟩ := searchLoop_mem rest h
      exact ⟨im, List.mem_cons_of_mem _ him, hk⟩
    · split at h
      · obtain ⟨im, him, hk⟩ := searchLoop_mem rest h
        exact ⟨im, List.mem_cons_of_mem _ him, hk⟩
      · rename_i he
        rcases List.mem_cons.mp h with h | h
        · exact ⟨(i, msg), List.mem_cons_self, h, by rw [h]; exact he⟩
        · obtain ⟨im, him, hk⟩ := searchLoop_mem rest h
          exact ⟨im, List.mem_cons_of_mem _ him, hk⟩

/-- hence within the announced view of the connection -/
theorem search_inRange {st : Views.St} {G : List GSt} {A : List View} (h : GInv st G A) {c : Nat} {cn : Conn}
    (hc : st.conns[c]? = some cn) {m : Nat} (hsel : cn.sel = some m) {b : MBox} (hb : st.mb[m]? = some b)
    (key : Key) {k : Nat} (hk : k ∈ searchLoop b c false key (indexed b.msgs 1)) :
    inRange (A.getD c []) k = true := by
  obtain ⟨im, him, rfl, hk0⟩ := searchLoop_mem _ hk
  obtain ⟨i, msg⟩ := im
  obtain ⟨hi1, hget⟩ := mem_indexed him
  have hci := h.conn c cn hc
  unfold ConnInv at hci
  rw [hsel] at hci
  obtain ⟨g, gs, hg, hgs, hgid, hv, _⟩ := hci
  have hmb := h.mb m b g hb hg
  have hilt : i - 1 < b.msgs.length := (List.getElem?_eq_some_iff.mp hget).1
  rw [msgs_length hmb] at hilt
  have henc := enc_spec hmb hgs hi1 (by omega)
  rw [hgid] at henc
  simp only at hk0 ⊢
  rw [henc] at hk0 ⊢
  obtain ⟨h1, h2, _⟩ := getElem?_of_posOf rfl hk0
  simp only [inRange, Bool.and_eq_true, decide_eq_true_eq]
  rw [hv.length]; exact ⟨h1, h2⟩

end GoImap.ViewsLemmas
