/-
  C02 helper lemmas: a sequence set as a SEARCH key; NOT and OR.
-/
import GoImap.Lemmas.CmdGrammarSearchKeys
namespace GoImap.CmdLemmas
open GoImap.CmdGrammar GoImap.CmdSpec

/-! ### the characters of a printed number set -/

theorem toChars_forall (Q : Char → Prop) (hd : ∀ k, k < 10 → Q (NumSet.dchar k)) (h1 : Q ':') (h2 : Q ',') (h3 : Q '*') :
    ∀ (s : NumSet.Set), ∀ c ∈ NumSet.toChars s, Q c := by
  have hdig : ∀ n, ∀ c ∈ NumSet.digits n, Q c := by
    intro n c hc
    obtain ⟨k, hk, rfl⟩ := (NumSet.digits_spec n).2.1 c hc
    exact hd k hk
  have hr : ∀ (r : NumSet.Range), ∀ c ∈ r.toChars, Q c := by
    intro r c hc
    rcases NumSet.toChars_cases r with ⟨_, h⟩ | ⟨_, _, h⟩ | ⟨_, _, _, h⟩ | ⟨_, _, _, h⟩ <;> rw [h] at hc
    · simp at hc; subst hc; exact h3
    · exact hdig _ c hc
    · simp only [List.mem_append, List.mem_cons, List.not_mem_nil, or_false] at hc
      rcases hc with hc | rfl | rfl
      · exact hdig _ c hc
      · exact h1
      · exact h3
    · simp only [List.mem_append, List.mem_cons] at hc
      rcases hc with hc | rfl | hc
      · exact hdig _ c hc
      · exact h1
      · exact hdig _ c hc
  intro s
  induction s with
  | nil => intro c hc; simp [NumSet.toChars] at hc
  | cons r rest ih =>
    intro c hc
    cases rest with
    | nil => exact hr r c (by simpa [NumSet.toChars] using hc)
    | cons r2 rest =>
      simp only [NumSet.toChars, List.mem_append, List.mem_cons] at hc
      rcases hc with hc | rfl | hc
      · exact hr r c hc
      · exact h2
      · exact ih c hc

/-- digits, `:`, `,` and `*` are below the letters and are not `$` -/
theorem text_small (rs : NumSet.Set) : ∀ c ∈ (NSet.set rs).text, c < 65 ∧ c ≠ 36 := by
  intro c hc
  simp only [NSet.text, List.mem_map] at hc
  obtain ⟨ch, hch, rfl⟩ := hc
  exact toChars_forall (fun ch => ch.toNat < 65 ∧ ch.toNat ≠ 36) (by decide) (by decide) (by decide) (by decide) rs ch hch

theorem upper_small (t : Str) (h : ∀ c ∈ t, c < 65 ∧ c ≠ 36) : upper t = t := by
  induction t with
  | nil => rfl
  | cons c t ih =>
    have hc := (h c (by simp)).1
    have : upperByte c = c := by unfold upperByte; split_ifs with h1 <;> omega
    simp only [upper, List.map_cons, this] at ih ⊢
    rw [ih (fun x hx => h x (by simp [hx]))]

theorem keywords_head : ∀ k ∈ searchKeywords, ∃ c, k.head? = some c ∧ (65 ≤ c ∨ c = 36) := by decide

theorem not_keyword (t : Str) (hne : t ≠ []) (h : ∀ c ∈ t, c < 65 ∧ c ≠ 36) : searchKeywords.contains t = false := by
  cases hc : searchKeywords.contains t with
  | false => rfl
  | true =>
    have hm : t ∈ searchKeywords := by simpa using hc
    obtain ⟨c, hh, hcc⟩ := keywords_head t hm
    cases t with
    | nil => exact absurd rfl hne
    | cons c0 t0 =>
      simp only [List.head?_cons, Option.some.injEq] at hh
      subst hh
      have := h c0 (by simp)
      omega

/-- a sequence set as a key: the reader adds what `ParseSet` makes of its text -/
theorem good_seq (fuel ld kd : Nat) (rs : NumSet.Set) (h : LitOK rs) :
    Good (fuel + 1) ld kd (atom (NSet.set rs).text, addF fun f => { f with seqSets := f.seqSets ++ [.set (delivSet rs)] }) := by
  have hne : (NSet.set rs).text ≠ [] := by
    simp only [NSet.text, ne_eq, List.map_eq_nil_iff]
    exact set_toChars_ne_nil rs h.1
  have hchars : ∀ c ∈ (NSet.set rs).text, isSearchAtomChar c = true := by
    intro c hc
    simp only [NSet.text, List.mem_map] at hc
    obtain ⟨ch, hch, rfl⟩ := hc
    exact (set_ok rs ch hch).1
  have hsmall := text_small rs
  have hnk := not_keyword _ hne hsmall
  have hnot : ((NSet.set rs).text = str "NOT") = False := by
    apply eq_false; intro he
    have : searchKeywords.contains (NSet.set rs).text = true := by rw [he]; decide
    rw [hnk] at this; exact absurd this (by simp)
  have hor : ((NSet.set rs).text = str "OR") = False := by
    apply eq_false; intro he
    have : searchKeywords.contains (NSet.set rs).text = true := by rw [he]; decide
    rw [hnk] at this; exact absurd this (by simp)
  have := good_atomKey fuel ld kd (NSet.set rs).text [] (addF fun f => { f with seqSets := f.seqSets ++ [.set (delivSet rs)] })
    hne hchars (upper_small _ hsmall)
    (fun tail h => by simpa using sep_stops_search h)
    (fun rec c tail _ => by
      simp only [pSearchKeyAtom, hnot, hor, decide_false, Bool.or_self, Bool.false_and, Bool.false_eq_true, if_false, hnk,
        Bool.not_false, if_true, List.nil_append]
      simp only [NSet.text, map_ofNat_toNat, parseSet_literal rs h]
      rfl)
  simpa using this

/-! ### NOT and OR -/

/-- the wire of a parenthesised sub-criteria `w` is read back as `n` with budget `fuel` at list depth `ld` and
    NOT/OR depth `kd`, starting from the empty criteria, whatever follows -/
def ReadsAs (fuel ld kd : Nat) (w : Wire) (n : Crit) : Prop :=
  ∀ tail, pSearchKey fuel ld kd Crit.empty (w ++ tail) = .ok (n, tail)

/-- a parenthesised group starts with `(` -/
def Paren (w : Wire) : Prop := ∃ r, w = .b 40 :: r

theorem notEol_paren {w : Wire} (h : Paren w) (tail : Wire) : NotEol (w ++ tail) := by
  obtain ⟨r, rfl⟩ := h
  simp [NotEol]

theorem good_not (fuel ld kd : Nat) (w : Wire) (n : Crit) (hw : ReadsAs fuel ld (kd + 1) w n) (hp : Paren w)
    (hkd : kd < maxSearchKeyDepth) :
    Good (fuel + 1) ld kd (kw "NOT" ++ sp ++ w, fun c => .mk c.flat (c.nots.snoc n) c.ors) := by
  have hk : ¬ kd ≥ maxSearchKeyDepth := by omega
  have := good_atomKey' fuel ld kd (str "NOT") (sp ++ w) (fun c => .mk c.flat (c.nots.snoc n) c.ors)
    (by decide) (by decide) (by decide) (fun tail _ => sp_stops _ _)
    (fun c tail _ => by
      simp (decide := true) only [pSearchKeyAtom, hk, Bool.and_false, Bool.false_eq_true, if_false, List.append_assoc, bind,
        Except.bind, pSP_sp _ (notEol_paren hp _), hw tail]
      rfl)
  simpa [kw, List.append_assoc] using this

theorem good_or (fuel ld kd : Nat) (wa wb : Wire) (a b : Crit) (ha : ReadsAs fuel ld (kd + 1) wa a)
    (hb : ReadsAs fuel ld (kd + 1) wb b) (hpa : Paren wa) (hpb : Paren wb) (hkd : kd < maxSearchKeyDepth) :
    Good (fuel + 1) ld kd (kw "OR" ++ sp ++ wa ++ sp ++ wb, fun c => .mk c.flat c.nots (c.ors.snoc a b)) := by
  have hk : ¬ kd ≥ maxSearchKeyDepth := by omega
  have := good_atomKey' fuel ld kd (str "OR") (sp ++ wa ++ sp ++ wb) (fun c => .mk c.flat c.nots (c.ors.snoc a b))
    (by decide) (by decide) (by decide)
    (fun tail _ => by simp only [List.append_assoc]; exact stops_sp _ (by decide) _)
    (fun c tail _ => by
      simp (decide := true) only [pSearchKeyAtom, hk, Bool.and_false, Bool.false_eq_true, if_false, List.append_assoc, bind,
        Except.bind, pSP_sp _ (notEol_paren hpa _), ha _, pSP_sp _ (notEol_paren hpb _), hb tail]
      rfl)
  simpa [kw, List.append_assoc] using this

end GoImap.CmdLemmas
