/-
  Helper lemmas for C01 (wire round trip): quoting, decimal numbers, token scanning.
-/
import GoImap.Model.Wire
namespace GoImap.Wire

/-! ### quoted strings -/

theorem unq_quoteBody (s rest : Bytes) : unq false (quoteBody s ++ 34 :: rest) = some (s, rest) := by
  induction s with
  | nil => simp [quoteBody, unq]
  | cons c cs ih =>
    unfold quoteBody
    split
    · rename_i h
      simp only [Bool.or_eq_true, decide_eq_true_eq] at h
      rcases h with h | h <;> subst h <;> simp [unq, ih]
    · rename_i h
      simp only [Bool.or_eq_true, decide_eq_true_eq, not_or] at h
      simp [unq, h.1, h.2, ih]

theorem encQuoted_append (s rest : Bytes) :
    encQuoted s ++ rest = 34 :: (quoteBody s ++ 34 :: rest) := by
  simp [encQuoted]

/-! ### scanning a token -/

theorem spanValid_append (valid : Nat → Bool) (t : Bytes) (c : Nat) (r : Bytes)
    (ht : ∀ b ∈ t, valid b = true) (hc : valid c = false) :
    spanValid valid (t ++ c :: r) = some (t, c :: r) := by
  induction t with
  | nil => simp [spanValid, hc]
  | cons b bs ih =>
    have hb := ht b (by simp)
    simp only [List.cons_append, spanValid, hb, if_true]
    rw [ih (fun x hx => ht x (by simp [hx]))]
    rfl

theorem decFunc_append (valid : Nat → Bool) (t : Bytes) (c : Nat) (r : Bytes) (e : Option Err)
    (l : List (Nat × Bool)) (hne : t ≠ []) (ht : ∀ b ∈ t, valid b = true) (hc : valid c = false) :
    decFunc valid ⟨t ++ c :: r, e, l⟩ = (true, t, ⟨c :: r, e, l⟩) := by
  unfold decFunc
  simp only [spanValid_append valid t c r ht hc]
  cases t with
  | nil => exact absurd rfl hne
  | cons a as => simp

/-! ### decimal -/

theorem digitsAux_spec (fuel n : Nat) (acc : List Nat) (h : n < fuel) :
    (∀ d ∈ digitsAux fuel n [], 48 ≤ d ∧ d ≤ 57) ∧
    digitsAux fuel n acc = digitsAux fuel n [] ++ acc ∧
    (digitsAux fuel n []).foldl (fun a d => a * 10 + (d - 48)) 0 = n ∧
    digitsAux fuel n [] ≠ [] := by
  induction fuel generalizing n acc with
  | zero => omega
  | succ f ih =>
    unfold digitsAux
    split
    · rename_i hlt
      refine ⟨?_, by simp, ?_, by simp⟩
      · intro d hd; simp at hd; omega
      · simp
    · rename_i hge
      have hlt : n / 10 < f := by omega
      obtain ⟨h1, _, h3, h4⟩ := ih (n / 10) [] hlt
      have e1 := (ih (n/10) [48 + n % 10] hlt).2.1
      have e2 := (ih (n/10) ((48 + n % 10) :: acc) hlt).2.1
      refine ⟨?_, ?_, ?_, ?_⟩
      · rw [e1]; intro d hd
        simp only [List.mem_append, List.mem_singleton] at hd
        rcases hd with hd | hd
        · exact h1 d hd
        · omega
      · rw [e2, e1]; simp
      · rw [e1, List.foldl_append, h3]; simp; omega
      · rw [e1]; simp

theorem digits_isDigit (n : Nat) : ∀ d ∈ digits n, isDigit d = true := by
  intro d hd
  have := (digitsAux_spec (n+1) n [] (by omega)).1 d hd
  simp [isDigit, this.1, this.2]

theorem valOf_digits (n : Nat) : valOf (digits n) = n :=
  (digitsAux_spec (n+1) n [] (by omega)).2.2.1

theorem digits_ne_nil (n : Nat) : digits n ≠ [] :=
  (digitsAux_spec (n+1) n [] (by omega)).2.2.2

/-- a decimal number followed by a non-digit is read back (`Decoder.Number…` over `strconv.Format…`) -/
theorem decNumberLim_digits (lim n : Nat) (hn : n < lim) (c : Nat) (r : Bytes) (hc : isDigit c = false)
    (e : Option Err) (l : List (Nat × Bool)) :
    decNumberLim lim ⟨digits n ++ c :: r, e, l⟩ = (true, n, ⟨c :: r, e, l⟩) := by
  unfold decNumberLim
  rw [decFunc_append isDigit (digits n) c r e l (digits_ne_nil n) (digits_isDigit n) hc]
  simp [valOf_digits, hn]

theorem expectNumberLim_digits (lim n : Nat) (hn : n < lim) (c : Nat) (r : Bytes) (hc : isDigit c = false)
    (e : Option Err) (l : List (Nat × Bool)) :
    expectNumberLim lim ⟨digits n ++ c :: r, e, l⟩ = (true, n, ⟨c :: r, e, l⟩) := by
  unfold expectNumberLim
  rw [decNumberLim_digits lim n hn c r hc e l]
  simp [expect]

end GoImap.Wire
