/-
  C01: what `Encoder.String` writes is well-formed RFC 9051 `string` syntax denoting the string, framed
  as RFC 7888 allows under the negotiated mode (the model's output against the strict reader of
  Spec/Wire.lean).
-/
import GoImap.Lemmas.WireString
import GoImap.Spec.Wire
namespace GoImap.Wire
open GoImap.WireSpec

/-- the strict quoted-string reader accepts the encoder's quoting of a string that passed
    `validQuoted` -/
theorem rQuotedBody_quoteBody (allow8 : Bool) (rest : Bytes) : ∀ (s : Bytes),
    (s.all fun ch => ch ≠ 0 && ch ≠ 13 && ch ≠ 10 && (allow8 || ch ≤ 127)) = true →
    rQuotedBody allow8 false (quoteBody s ++ 34 :: rest) = some (s, rest)
  | [], _ => by simp [quoteBody, rQuotedBody]
  | c :: cs, h => by
    simp only [List.all_cons, Bool.and_eq_true, ne_eq, Bool.or_eq_true,
      decide_eq_true_eq] at h
    obtain ⟨⟨⟨⟨h0, h13⟩, h10⟩, h8⟩, hrest⟩ := h
    have ih := rQuotedBody_quoteBody allow8 rest cs (by simpa [List.all_eq_true] using hrest)
    unfold quoteBody
    by_cases hq : (c = 34 || c = 92) = true
    · simp only [hq, if_true, List.cons_append]
      simp only [Bool.or_eq_true, decide_eq_true_eq] at hq
      rcases hq with hq | hq <;> subst hq <;> simp [rQuotedBody, ih]
    · simp only [hq, if_false, List.cons_append, Bool.false_eq_true]
      simp only [Bool.or_eq_true, decide_eq_true_eq, not_or] at hq
      have h8' : ¬ (c ≥ 128 ∧ allow8 = false) := by
        rintro ⟨hc, ha⟩
        rcases h8 with h8 | h8
        · rw [h8] at ha; exact Bool.noConfusion ha
        · omega
      unfold rQuotedBody
      simp [hq.1, hq.2, h0, h13, h10, ih]
      intro hc
      rcases h8 with h8 | h8
      · exact h8
      · omega

theorem rString_quoted (allow8 : Bool) (s rest : Bytes)
    (h : (s.all fun ch => ch ≠ 0 && ch ≠ 13 && ch ≠ 10 && (allow8 || ch ≤ 127)) = true) :
    rString allow8 (encQuoted s ++ rest) = some (s, rest, .quoted) := by
  rw [encQuoted_append]
  simp [rString, rQuotedBody_quoteBody allow8 rest s h]

theorem spanDigits_append (ds : Bytes) (c : Nat) (t : Bytes) (hd : ∀ d ∈ ds, isDigit d = true)
    (hc : isDigit c = false) : spanDigits (ds ++ c :: t) = (ds, c :: t) := by
  induction ds with
  | nil =>
    simp only [isDigit, Bool.and_eq_false_iff, decide_eq_false_iff_not] at hc
    simp only [List.nil_append, spanDigits]
    rw [if_neg]
    simp only [Bool.and_eq_true, decide_eq_true_eq]
    omega
  | cons d r ih =>
    have h := hd d (by simp)
    simp only [isDigit, Bool.and_eq_true, decide_eq_true_eq] at h
    simp only [List.cons_append, spanDigits, Bool.and_eq_true, decide_eq_true_eq, h.1, h.2, and_self,
      if_true, ih (fun x hx => hd x (by simp [hx]))]

theorem decimal_eq_valOf (ds : Bytes) : decimal ds = valOf ds := rfl

/-- the strict literal reader accepts a literal header written by `Encoder.Literal` -/
theorem rString_literal (cfg : Cfg) (allow8 sync : Bool) (s rest : Bytes) (hlen : s.length < lim63) :
    rString allow8 (litHeader cfg s.length sync ++ s ++ rest) =
      some (s, rest, .literal s.length (!sync && decide (cfg.side = .client))
        ((digits s.length).length + (if (!sync && decide (cfg.side = .client)) = true then 5 else 4))) := by
  have hne := digits_ne_nil s.length
  have hval : decimal (digits s.length) = s.length := valOf_digits s.length
  have hnlt : ¬ s.length ≥ 9223372036854775808 := by unfold lim63 at hlen; omega
  by_cases hp : (!sync && decide (cfg.side = .client)) = true
  · have hsp : spanDigits (digits s.length ++ 43 :: (125 :: 13 :: 10 :: (s ++ rest))) =
        (digits s.length, 43 :: (125 :: 13 :: 10 :: (s ++ rest))) :=
      spanDigits_append _ 43 _ (digits_isDigit _) (by decide)
    have hin : litHeader cfg s.length sync ++ s ++ rest =
        123 :: (digits s.length ++ 43 :: (125 :: 13 :: 10 :: (s ++ rest))) := by
      simp [litHeader, hp]
    rw [hin]
    unfold rString
    simp only [hsp, hval, hp, if_true]
    have : (digits s.length).isEmpty = false := by
      cases h : digits s.length with
      | nil => exact absurd h hne
      | cons _ _ => rfl
    simp [this, hnlt]
  · have hp' : (!sync && decide (cfg.side = .client)) = false := by simpa using hp
    have hsp : spanDigits (digits s.length ++ 125 :: (13 :: 10 :: (s ++ rest))) =
        (digits s.length, 125 :: (13 :: 10 :: (s ++ rest))) :=
      spanDigits_append _ 125 _ (digits_isDigit _) (by decide)
    have hin : litHeader cfg s.length sync ++ s ++ rest =
        123 :: (digits s.length ++ 125 :: (13 :: 10 :: (s ++ rest))) := by
      simp [litHeader, hp']
    rw [hin]
    unfold rString
    simp only [hsp, hval, hp']
    have : (digits s.length).isEmpty = false := by
      cases h : digits s.length with
      | nil => exact absurd h hne
      | cons _ _ => rfl
    simp [this, hnlt]

theorem litHeader_length (cfg : Cfg) (n : Nat) (sync : Bool) :
    (litHeader cfg n sync).length =
      (digits n).length + (if (!sync && decide (cfg.side = .client)) = true then 5 else 4) := by
  unfold litHeader
  by_cases hp : (!sync && decide (cfg.side = .client)) = true
  · simp only [Bool.and_eq_true, Bool.not_eq_true', decide_eq_true_eq] at hp
    simp [hp.1, hp.2]
  · have hp' : (!sync && decide (cfg.side = .client)) = false := by simpa using hp
    have : (if (!sync && decide (cfg.side = .client)) = true then [43] else ([] : Bytes)) = [] := by
      rw [if_neg hp]
    simp only [Bool.and_eq_true, Bool.not_eq_true', decide_eq_true_eq] at this
    simp [hp']

end GoImap.Wire
