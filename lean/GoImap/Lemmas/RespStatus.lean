/-
  Helper lemmas for C03: the STATUS response. What `printStatus` (imapserver/status.go writeStatus)
  writes for a well-formed `StatusData` is read by `readResponse` (imapclient/status.go readStatus)
  as the event carrying `RespSpec.canonStatus o d`; `deliverStatus` hands that value to the waiting
  STATUS command when the requested mailbox names the same mailbox.
-/
import GoImap.Lemmas.RespLines
import GoImap.Lemmas.RespMailbox
namespace GoImap.Resp

/-- the Go field types: uint32 numbers, non-negative int64 sizes -/
structure StatusInRange (d : StatusData) : Prop where
  mailboxLen : d.mailbox.length < 4294967296
  messages : ∀ n, d.messages = some n → n < 4294967296
  uidNext : d.uidNext < 4294967296
  uidValidity : d.uidValidity < 4294967296
  unseen : ∀ n, d.unseen = some n → n < 4294967296
  deleted : ∀ n, d.deleted = some n → n < 4294967296
  size : ∀ n, d.size = some n → n < 9223372036854775808
  appendLimit : ∀ n, d.appendLimit = some n → n < 4294967296
  deletedStorage : ∀ n, d.deletedStorage = some n → n < 9223372036854775808

/-! ### one status item -/

/-- one `name SP value` pair of a STATUS response, as the server writes it -/
inductive status_Item where
  | messages (n : Nat)
  | uidNext (n : Nat)
  | uidValidity (n : Nat)
  | unseen (n : Nat)
  | deleted (n : Nat)
  | size (n : Nat)
  | appendLimit (v : Option Nat)
  | deletedStorage (n : Nat)

/-- the APPENDLIMIT value: a number or NIL -/
def status_alVal : Option Nat → Str
  | some n => encNumber n
  | none => NILb

def status_encItem : status_Item → Str
  | .messages n => asc "MESSAGES" ++ [32] ++ encNumber n
  | .uidNext n => asc "UIDNEXT" ++ [32] ++ encNumber n
  | .uidValidity n => asc "UIDVALIDITY" ++ [32] ++ encNumber n
  | .unseen n => asc "UNSEEN" ++ [32] ++ encNumber n
  | .deleted n => asc "DELETED" ++ [32] ++ encNumber n
  | .size n => asc "SIZE" ++ [32] ++ encNumber n
  | .appendLimit v => asc "APPENDLIMIT" ++ [32] ++ status_alVal v
  | .deletedStorage n => asc "DELETED-STORAGE" ++ [32] ++ encNumber n

/-- what the client stores when it reads the item -/
def status_apply (d : StatusData) : status_Item → StatusData
  | .messages n => { d with messages := some n }
  | .uidNext n => { d with uidNext := n }
  | .uidValidity n => { d with uidValidity := n }
  | .unseen n => { d with unseen := some n }
  | .deleted n => { d with deleted := some n }
  | .size n => { d with size := some (n : Int) }
  | .appendLimit v => { d with appendLimit := some (v.getD 4294967295) }
  | .deletedStorage n => { d with deletedStorage := some (n : Int) }

/-- the value fits the Go type of the field -/
def status_ItemOK : status_Item → Prop
  | .messages n => n < 4294967296
  | .uidNext n => n < 4294967296
  | .uidValidity n => n < 4294967296
  | .unseen n => n < 4294967296
  | .deleted n => n < 4294967296
  | .size n => n < 9223372036854775808
  | .appendLimit v => ∀ n, v = some n → n < 4294967296
  | .deletedStorage n => n < 9223372036854775808

theorem status_stops_digit {r : Str} (h : ItemEnd r) : StopsAt isDigitB r := by
  rcases h with ⟨t, rfl⟩ | ⟨t, rfl⟩ <;> exact StopsAt.cons _ (by decide)

theorem status_stops_atom {r : Str} (h : ItemEnd r) : StopsAt isAtomChar r := by
  rcases h with ⟨t, rfl⟩ | ⟨t, rfl⟩ <;> exact StopsAt.cons _ (by decide)

theorem status_expectSP_num (n : Nat) (r : Str) : expectSP (32 :: (encNumber n ++ r)) = some (encNumber n ++ r) := by
  obtain ⟨_, h2, h3⟩ := encNumber_spec n
  cases hd : encNumber n with
  | nil => exact absurd hd h3
  | cons a l =>
    have ha : isDigitB a = true := h2 a (by rw [hd]; simp)
    have h13 : a ≠ 13 := by intro e; rw [e] at ha; exact absurd ha (by decide)
    have h10 : a ≠ 10 := by intro e; rw [e] at ha; exact absurd ha (by decide)
    exact expectSP_sp a (l ++ r) h13 h10

theorem status_expectSP_nil (r : Str) : expectSP (32 :: (NILb ++ r)) = some (NILb ++ r) :=
  expectSP_sp 78 (73 :: 76 :: r) (by decide) (by decide)

theorem status_decNumber_nil (r : Str) : decNumber (NILb ++ r) = none := by
  simp [decNumber, NILb, spanB, isDigitB]

/-- readStatusAttVal reads one written item and stores its value -/
theorem status_readItem (acc : StatusData) (it : status_Item) (r : Str) (hok : status_ItemOK it) (hr : ItemEnd r) :
    readStatusItem acc (status_encItem it ++ r) = some (status_apply acc it, r) := by
  have hd := status_stops_digit hr
  cases it with
  | messages n =>
    have e : status_encItem (.messages n) ++ r = asc "MESSAGES" ++ 32 :: (encNumber n ++ r) := by simp [status_encItem]
    rw [e]; unfold readStatusItem
    rw [tryAtom_append (asc "MESSAGES") _ (by decide) (by decide) (StopsAt.cons _ (by decide))]
    simp +decide only [status_expectSP_num, if_true, if_false, decNumber_encNumber n hok r hd]
    rfl
  | uidNext n =>
    have e : status_encItem (.uidNext n) ++ r = asc "UIDNEXT" ++ 32 :: (encNumber n ++ r) := by simp [status_encItem]
    rw [e]; unfold readStatusItem
    rw [tryAtom_append (asc "UIDNEXT") _ (by decide) (by decide) (StopsAt.cons _ (by decide))]
    simp +decide only [status_expectSP_num, if_true, if_false, decNumber_encNumber n hok r hd]
    rfl
  | uidValidity n =>
    have e : status_encItem (.uidValidity n) ++ r = asc "UIDVALIDITY" ++ 32 :: (encNumber n ++ r) := by simp [status_encItem]
    rw [e]; unfold readStatusItem
    rw [tryAtom_append (asc "UIDVALIDITY") _ (by decide) (by decide) (StopsAt.cons _ (by decide))]
    simp +decide only [status_expectSP_num, if_true, if_false, decNumber_encNumber n hok r hd]
    rfl
  | unseen n =>
    have e : status_encItem (.unseen n) ++ r = asc "UNSEEN" ++ 32 :: (encNumber n ++ r) := by simp [status_encItem]
    rw [e]; unfold readStatusItem
    rw [tryAtom_append (asc "UNSEEN") _ (by decide) (by decide) (StopsAt.cons _ (by decide))]
    simp +decide only [status_expectSP_num, if_true, if_false, decNumber_encNumber n hok r hd]
    rfl
  | deleted n =>
    have e : status_encItem (.deleted n) ++ r = asc "DELETED" ++ 32 :: (encNumber n ++ r) := by simp [status_encItem]
    rw [e]; unfold readStatusItem
    rw [tryAtom_append (asc "DELETED") _ (by decide) (by decide) (StopsAt.cons _ (by decide))]
    simp +decide only [status_expectSP_num, if_true, if_false, decNumber_encNumber n hok r hd]
    rfl
  | size n =>
    have e : status_encItem (.size n) ++ r = asc "SIZE" ++ 32 :: (encNumber n ++ r) := by simp [status_encItem]
    rw [e]; unfold readStatusItem
    rw [tryAtom_append (asc "SIZE") _ (by decide) (by decide) (StopsAt.cons _ (by decide))]
    simp +decide only [status_expectSP_num, if_true, if_false, decNumber64_encNumber n hok r hd]
    rfl
  | deletedStorage n =>
    have e : status_encItem (.deletedStorage n) ++ r = asc "DELETED-STORAGE" ++ 32 :: (encNumber n ++ r) := by
      simp [status_encItem]
    rw [e]; unfold readStatusItem
    rw [tryAtom_append (asc "DELETED-STORAGE") _ (by decide) (by decide) (StopsAt.cons _ (by decide))]
    simp +decide only [status_expectSP_num, if_true, if_false, decNumber64_encNumber n hok r hd]
    rfl
  | appendLimit v =>
    cases v with
    | some n =>
      have hn : n < 4294967296 := hok n rfl
      have e : status_encItem (.appendLimit (some n)) ++ r = asc "APPENDLIMIT" ++ 32 :: (encNumber n ++ r) := by
        simp [status_encItem, status_alVal]
      rw [e]; unfold readStatusItem
      rw [tryAtom_append (asc "APPENDLIMIT") _ (by decide) (by decide) (StopsAt.cons _ (by decide))]
      simp +decide only [status_expectSP_num, if_true, if_false, decNumber_encNumber n hn r hd]
      rfl
    | none =>
      have e : status_encItem (.appendLimit none) ++ r = asc "APPENDLIMIT" ++ 32 :: (NILb ++ r) := by
        simp [status_encItem, status_alVal]
      rw [e]; unfold readStatusItem
      rw [tryAtom_append (asc "APPENDLIMIT") _ (by decide) (by decide) (StopsAt.cons _ (by decide))]
      simp +decide only [status_expectSP_nil, if_true, if_false, status_decNumber_nil,
        tryAtom_append NILb r (by decide) (by decide) (status_stops_atom hr)]
      rfl

/-! ### the item loop -/

def status_headOK : Str → Bool
  | c :: _ => c != 13 && c != 10 && c != 41
  | [] => false

theorem status_goodHead (name rest : Str) (h : status_headOK name = true) : GoodHead (name ++ rest) := by
  cases name with
  | nil => simp [status_headOK] at h
  | cons c t =>
    simp [status_headOK] at h
    exact ⟨c, t ++ rest, rfl, h.1.1, h.1.2, h.2⟩

theorem status_goodHead_item (it : status_Item) : GoodHead (status_encItem it) := by
  cases it <;> exact status_goodHead _ _ (by decide)

theorem status_readItems_last (fuel : Nat) (d d' : StatusData) (s rest : Str)
    (h : readStatusItem d s = some (d', 41 :: rest)) : readStatusItems (fuel + 1) d s = some (d', rest) := by
  simp [readStatusItems, h]

theorem status_readItems_more (fuel : Nat) (d d' : StatusData) (s : Str) (c : Nat) (u : Str)
    (h : readStatusItem d s = some (d', 32 :: c :: u)) (h13 : c ≠ 13) (h10 : c ≠ 10) :
    readStatusItems (fuel + 1) d s = readStatusItems fuel d' (c :: u) := by
  simp [readStatusItems, h, expectSP_sp c u h13 h10]

/-- the loop of readStatus over a non-empty written item list, up to the closing parenthesis -/
theorem status_readItems_joinSP : ∀ (items : List status_Item) (fuel : Nat) (acc : StatusData) (rest : Str),
    items ≠ [] → items.length ≤ fuel → (∀ it ∈ items, status_ItemOK it) →
    readStatusItems fuel acc (joinSP (items.map status_encItem) ++ 41 :: rest) =
      some (items.foldl status_apply acc, rest) := by
  intro items
  induction items with
  | nil => intro fuel acc rest h; exact absurd rfl h
  | cons x ys ih =>
    intro fuel acc rest _ hlen hok
    cases fuel with
    | zero => simp at hlen
    | succ fuel =>
      cases ys with
      | nil =>
        have hx := status_readItem acc x (41 :: rest) (hok x (by simp)) (Or.inl ⟨rest, rfl⟩)
        simp only [List.map_cons, List.map_nil, joinSP]
        exact status_readItems_last fuel acc _ _ rest hx
      | cons y zs =>
        obtain ⟨c, t, hc, h13, h10, _⟩ := status_goodHead_item y
        obtain ⟨u, hu⟩ := joinSP_head status_encItem y zs (41 :: rest) c t hc
        have ih' := ih fuel (status_apply acc x) rest (by simp) (by simp at hlen ⊢; omega)
          (fun z hz => hok z (by simp at hz ⊢; exact Or.inr hz))
        rw [hu] at ih'
        have hx := status_readItem acc x (32 :: c :: u) (hok x (by simp)) (Or.inr ⟨_, rfl⟩)
        have e : joinSP ((x :: y :: zs).map status_encItem) ++ 41 :: rest = status_encItem x ++ 32 :: c :: u := by
          simp only [List.map_cons] at hu ⊢
          rw [joinSP_cons_cons, List.append_assoc, List.cons_append, hu]
        rw [e, status_readItems_more fuel acc _ _ c u hx h13 h10, ih']
        rfl

/-! ### readStatus -/

/-- the record readStatus starts from -/
def status_d0 (mb : Str) : StatusData :=
  { mailbox := mb, messages := none, uidNext := 0, uidValidity := 0, unseen := none, deleted := none,
    size := none, appendLimit := none, deletedStorage := none }

theorem status_readStatus_empty (s mbx r r' : Str) (h1 : decMailbox s = some (mbx, r))
    (h2 : expectSP r = some (40 :: 41 :: r')) : readStatus s = some (status_d0 mbx, r') := by
  simp [readStatus, h1, h2, status_d0]

theorem status_readStatus_items (s mbx r : Str) (c : Nat) (u : Str) (h1 : decMailbox s = some (mbx, r))
    (h2 : expectSP r = some (40 :: c :: u)) (hc : c ≠ 41) :
    readStatus s = readStatusItems ((c :: u).length + 1) (status_d0 mbx) (c :: u) := by
  unfold readStatus
  simp only [h1, h2, Option.bind_eq_bind, Option.bind_some]
  split
  · rename_i heq; injection heq with _ h2; injection h2 with h3 _; exact absurd h3 hc
  · rename_i heq; injection heq with _ h2; subst h2; rfl
  · rename_i _ hne; exact absurd rfl (hne (c :: u))

/-- readStatus on a written mailbox name and item list -/
theorem status_readStatus_line (utf8 : Bool) (name mb : Str) (items : List status_Item) (rest : Str)
    (hmb : encMailbox utf8 name = some mb) (hlen : name.length < 4294967296) (hok : ∀ it ∈ items, status_ItemOK it) :
    readStatus (mb ++ 32 :: (encList (items.map status_encItem) ++ rest)) =
      some (items.foldl status_apply (status_d0 (RespSpec.canonMailbox name)), rest) := by
  have h1 := decMailbox_encMailbox utf8 name mb (32 :: (encList (items.map status_encItem) ++ rest)) hmb hlen
    (StopsAt.cons _ (by decide))
  cases items with
  | nil =>
    have h2 : expectSP (32 :: (encList (([] : List status_Item).map status_encItem) ++ rest)) = some (40 :: 41 :: rest) :=
      expectSP_sp 40 _ (by decide) (by decide)
    exact status_readStatus_empty _ _ _ _ h1 h2
  | cons x ys =>
    obtain ⟨c, t, hc, _, _, h41⟩ := status_goodHead_item x
    obtain ⟨u, hu⟩ := joinSP_head status_encItem x ys (41 :: rest) c t hc
    have hlen' := length_le_joinSP status_encItem (x :: ys) (fun z _ => status_goodHead_item z)
    have e : encList ((x :: ys).map status_encItem) ++ rest = 40 :: c :: u := by
      unfold encList; rw [← hu]; simp
    have h2 : expectSP (32 :: (encList ((x :: ys).map status_encItem) ++ rest)) = some (40 :: c :: u) := by
      rw [e]; exact expectSP_sp 40 _ (by decide) (by decide)
    rw [status_readStatus_items _ _ _ c u h1 h2 h41]
    have hmain := status_readItems_joinSP (x :: ys) ((c :: u).length + 1) (status_d0 (RespSpec.canonMailbox name)) rest
      (by simp) (by rw [← hu]; simp only [List.length_append, List.length_cons] at hlen' ⊢; omega) hok
    rw [hu] at hmain
    exact hmain

theorem status_dispatch (r r1 : Str) (d : StatusData) (r2 : Str) (h1 : expectSP r = some r1)
    (h2 : readStatus r1 = some (d, r2)) : dispatchData 0 (asc "STATUS") r = some (Event.status d, r2) := by
  simp [dispatchData, asc, h1, h2]

/-! ### what printStatus writes -/

/-- the items the server writes for the options `o`, in the order of writeStatus -/
def status_items (o : StatusOpts) (d : StatusData) : List status_Item :=
  (if o.messages then [status_Item.messages (d.messages.getD 0)] else []) ++
  (if o.uidNext then [status_Item.uidNext d.uidNext] else []) ++
  (if o.uidValidity then [status_Item.uidValidity d.uidValidity] else []) ++
  (if o.unseen then [status_Item.unseen (d.unseen.getD 0)] else []) ++
  (if o.deleted then [status_Item.deleted (d.deleted.getD 0)] else []) ++
  (if o.size then [status_Item.size (d.size.getD 0).toNat] else []) ++
  (if o.appendLimit then [status_Item.appendLimit d.appendLimit] else []) ++
  (if o.deletedStorage then [status_Item.deletedStorage (d.deletedStorage.getD 0).toNat] else [])

/-- the local `item` function of `printStatus` -/
def status_itemStr (b : Bool) (name : String) (v : Option Str) : Option (List Str) :=
  if b then v.map fun t => [asc name ++ [32] ++ t] else some []

theorem status_print_unfold (utf8 : Bool) (o : StatusOpts) (d : StatusData) : printStatus utf8 o d = (do
    let mb ← encMailbox utf8 d.mailbox
    let i1 ← status_itemStr o.messages "MESSAGES" (d.messages.map encNumber)
    let i2 ← status_itemStr o.uidNext "UIDNEXT" (some (encNumber d.uidNext))
    let i3 ← status_itemStr o.uidValidity "UIDVALIDITY" (some (encNumber d.uidValidity))
    let i4 ← status_itemStr o.unseen "UNSEEN" (d.unseen.map encNumber)
    let i5 ← status_itemStr o.deleted "DELETED" (d.deleted.map encNumber)
    let i6 ← status_itemStr o.size "SIZE" (d.size.bind encNumber64)
    let i7 ← status_itemStr o.appendLimit "APPENDLIMIT" (some (status_alVal d.appendLimit))
    let i8 ← status_itemStr o.deletedStorage "DELETED-STORAGE" (d.deletedStorage.bind encNumber64)
    pure (star ++ asc " STATUS " ++ mb ++ [32] ++ encList (i1 ++ i2 ++ i3 ++ i4 ++ i5 ++ i6 ++ i7 ++ i8) ++ CRLFb)) := rfl

theorem status_itemStr_of (b : Bool) (name : String) (v : Option Str) (t : Str) (it : status_Item)
    (henc : status_encItem it = asc name ++ [32] ++ t) (hv : b = true → v = some t) :
    status_itemStr b name v = some ((if b then [it] else []).map status_encItem) := by
  cases b with
  | false => rfl
  | true =>
    rw [hv rfl]
    show some [asc name ++ [32] ++ t] = some [status_encItem it]
    rw [henc]

/-- the requested pointer items are present (from `wfStatus`) -/
theorem status_wf_parts (o : StatusOpts) (d : StatusData) (hwf : RespSpec.wfStatus o d = true) :
    (o.messages = true → ∃ n, d.messages = some n) ∧ (o.unseen = true → ∃ n, d.unseen = some n) ∧
    (o.deleted = true → ∃ n, d.deleted = some n) ∧ (o.size = true → ∃ n : Nat, d.size = some (n : Int)) ∧
    (o.deletedStorage = true → ∃ n : Nat, d.deletedStorage = some (n : Int)) := by
  unfold RespSpec.wfStatus at hwf
  simp only [Bool.and_eq_true] at hwf
  obtain ⟨⟨⟨⟨⟨_, h1⟩, h2⟩, h3⟩, h4⟩, h5⟩ := hwf
  refine ⟨?_, ?_, ?_, ?_, ?_⟩
  · intro hb; rw [hb] at h1
    cases hm : d.messages with
    | none => rw [hm] at h1; simp at h1
    | some n => exact ⟨n, rfl⟩
  · intro hb; rw [hb] at h2
    cases hm : d.unseen with
    | none => rw [hm] at h2; simp at h2
    | some n => exact ⟨n, rfl⟩
  · intro hb; rw [hb] at h3
    cases hm : d.deleted with
    | none => rw [hm] at h3; simp at h3
    | some n => exact ⟨n, rfl⟩
  · intro hb; rw [hb] at h4
    cases hm : d.size with
    | none => rw [hm] at h4; simp at h4
    | some n =>
      rw [hm] at h4
      have hn : 0 ≤ n := by simpa using h4
      exact ⟨n.toNat, by rw [Int.toNat_of_nonneg hn]⟩
  · intro hb; rw [hb] at h5
    cases hm : d.deletedStorage with
    | none => rw [hm] at h5; simp at h5
    | some n =>
      rw [hm] at h5
      have hn : 0 ≤ n := by simpa using h5
      exact ⟨n.toNat, by rw [Int.toNat_of_nonneg hn]⟩

theorem status_enc64_cast (n : Nat) : encNumber64 (n : Int) = some (encNumber n) := by
  have h : ¬ ((n : Int) < 0) := by omega
  simp [encNumber64, h]

/-- `printStatus` writes the mailbox and the list of `status_items` -/
theorem status_print_eq (utf8 : Bool) (o : StatusOpts) (d : StatusData) (hwf : RespSpec.wfStatus o d = true) :
    printStatus utf8 o d = (encMailbox utf8 d.mailbox).map fun mb =>
      star ++ asc " STATUS " ++ mb ++ [32] ++ encList ((status_items o d).map status_encItem) ++ CRLFb := by
  obtain ⟨w1, w2, w3, w4, w5⟩ := status_wf_parts o d hwf
  have h1 := status_itemStr_of o.messages "MESSAGES" (d.messages.map encNumber) (encNumber (d.messages.getD 0))
    (.messages (d.messages.getD 0)) rfl (by intro hb; obtain ⟨n, hn⟩ := w1 hb; rw [hn]; rfl)
  have h2 := status_itemStr_of o.uidNext "UIDNEXT" (some (encNumber d.uidNext)) (encNumber d.uidNext)
    (.uidNext d.uidNext) rfl (fun _ => rfl)
  have h3 := status_itemStr_of o.uidValidity "UIDVALIDITY" (some (encNumber d.uidValidity)) (encNumber d.uidValidity)
    (.uidValidity d.uidValidity) rfl (fun _ => rfl)
  have h4 := status_itemStr_of o.unseen "UNSEEN" (d.unseen.map encNumber) (encNumber (d.unseen.getD 0))
    (.unseen (d.unseen.getD 0)) rfl (by intro hb; obtain ⟨n, hn⟩ := w2 hb; rw [hn]; rfl)
  have h5 := status_itemStr_of o.deleted "DELETED" (d.deleted.map encNumber) (encNumber (d.deleted.getD 0))
    (.deleted (d.deleted.getD 0)) rfl (by intro hb; obtain ⟨n, hn⟩ := w3 hb; rw [hn]; rfl)
  have h6 := status_itemStr_of o.size "SIZE" (d.size.bind encNumber64) (encNumber (d.size.getD 0).toNat)
    (.size (d.size.getD 0).toNat) rfl
    (by intro hb; obtain ⟨n, hn⟩ := w4 hb; rw [hn]; exact status_enc64_cast n)
  have h7 := status_itemStr_of o.appendLimit "APPENDLIMIT" (some (status_alVal d.appendLimit)) (status_alVal d.appendLimit)
    (.appendLimit d.appendLimit) rfl (fun _ => rfl)
  have h8 := status_itemStr_of o.deletedStorage "DELETED-STORAGE" (d.deletedStorage.bind encNumber64)
    (encNumber (d.deletedStorage.getD 0).toNat) (.deletedStorage (d.deletedStorage.getD 0).toNat) rfl
    (by intro hb; obtain ⟨n, hn⟩ := w5 hb; rw [hn]; exact status_enc64_cast n)
  rw [status_print_unfold, h1, h2, h3, h4, h5, h6, h7, h8]
  cases encMailbox utf8 d.mailbox with
  | none => rfl
  | some mb =>
    simp only [status_items, List.map_append]
    rfl

/-! ### the values fit -/

theorem status_getD_lt (v : Option Nat) (h : ∀ n, v = some n → n < 4294967296) : v.getD 0 < 4294967296 := by
  cases v with
  | none => simp
  | some n => exact h n rfl

theorem status_getD_toNat_lt (v : Option Int) (h : ∀ n, v = some n → n < 9223372036854775808) :
    (v.getD 0).toNat < 9223372036854775808 := by
  cases v with
  | none => simp
  | some n =>
    have := h n rfl
    show n.toNat < 9223372036854775808
    omega

theorem status_ok_append {l1 l2 : List status_Item} (h1 : ∀ it ∈ l1, status_ItemOK it) (h2 : ∀ it ∈ l2, status_ItemOK it) :
    ∀ it ∈ l1 ++ l2, status_ItemOK it := by
  intro it hit
  rcases List.mem_append.mp hit with h | h
  · exact h1 it h
  · exact h2 it h

theorem status_ok_seg (b : Bool) (x : status_Item) (h : status_ItemOK x) :
    ∀ it ∈ (if b then [x] else []), status_ItemOK it := by
  cases b <;> simp [h]

theorem status_items_ok (o : StatusOpts) (d : StatusData) (hr : StatusInRange d) : ∀ it ∈ status_items o d, status_ItemOK it := by
  unfold status_items
  refine status_ok_append (status_ok_append (status_ok_append (status_ok_append (status_ok_append (status_ok_append
    (status_ok_append ?_ ?_) ?_) ?_) ?_) ?_) ?_) ?_ <;> apply status_ok_seg
  · exact status_getD_lt _ hr.messages
  · exact hr.uidNext
  · exact hr.uidValidity
  · exact status_getD_lt _ hr.unseen
  · exact status_getD_lt _ hr.deleted
  · exact status_getD_toNat_lt _ hr.size
  · exact hr.appendLimit
  · exact status_getD_toNat_lt _ hr.deletedStorage

/-! ### what the client has stored after the last item -/

theorem status_seg_messages (b : Bool) (n : Nat) (acc : StatusData) :
    List.foldl status_apply acc (if b then [status_Item.messages n] else []) =
      { acc with messages := if b then some n else acc.messages } := by cases b <;> rfl

theorem status_seg_uidNext (b : Bool) (n : Nat) (acc : StatusData) :
    List.foldl status_apply acc (if b then [status_Item.uidNext n] else []) =
      { acc with uidNext := if b then n else acc.uidNext } := by cases b <;> rfl

theorem status_seg_uidValidity (b : Bool) (n : Nat) (acc : StatusData) :
    List.foldl status_apply acc (if b then [status_Item.uidValidity n] else []) =
      { acc with uidValidity := if b then n else acc.uidValidity } := by cases b <;> rfl

theorem status_seg_unseen (b : Bool) (n : Nat) (acc : StatusData) :
    List.foldl status_apply acc (if b then [status_Item.unseen n] else []) =
      { acc with unseen := if b then some n else acc.unseen } := by cases b <;> rfl

theorem status_seg_deleted (b : Bool) (n : Nat) (acc : StatusData) :
    List.foldl status_apply acc (if b then [status_Item.deleted n] else []) =
      { acc with deleted := if b then some n else acc.deleted } := by cases b <;> rfl

theorem status_seg_size (b : Bool) (n : Nat) (acc : StatusData) :
    List.foldl status_apply acc (if b then [status_Item.size n] else []) =
      { acc with size := if b then some (n : Int) else acc.size } := by cases b <;> rfl

theorem status_seg_appendLimit (b : Bool) (v : Option Nat) (acc : StatusData) :
    List.foldl status_apply acc (if b then [status_Item.appendLimit v] else []) =
      { acc with appendLimit := if b then some (v.getD 4294967295) else acc.appendLimit } := by cases b <;> rfl

theorem status_seg_deletedStorage (b : Bool) (n : Nat) (acc : StatusData) :
    List.foldl status_apply acc (if b then [status_Item.deletedStorage n] else []) =
      { acc with deletedStorage := if b then some (n : Int) else acc.deletedStorage } := by cases b <;> rfl

theorem status_ext {a b : StatusData} (h1 : a.mailbox = b.mailbox) (h2 : a.messages = b.messages) (h3 : a.uidNext = b.uidNext)
    (h4 : a.uidValidity = b.uidValidity) (h5 : a.unseen = b.unseen) (h6 : a.deleted = b.deleted) (h7 : a.size = b.size)
    (h8 : a.appendLimit = b.appendLimit) (h9 : a.deletedStorage = b.deletedStorage) : a = b := by
  cases a; cases b
  simp only [StatusData.mk.injEq]
  exact ⟨h1, h2, h3, h4, h5, h6, h7, h8, h9⟩

/-- after reading the written items the client holds the canonical value -/
theorem status_fold (o : StatusOpts) (d : StatusData) (hwf : RespSpec.wfStatus o d = true) :
    (status_items o d).foldl status_apply (status_d0 (RespSpec.canonMailbox d.mailbox)) = RespSpec.canonStatus o d := by
  obtain ⟨w1, w2, w3, w4, w5⟩ := status_wf_parts o d hwf
  unfold status_items
  simp only [List.foldl_append, status_seg_messages, status_seg_uidNext, status_seg_uidValidity, status_seg_unseen,
    status_seg_deleted, status_seg_size, status_seg_appendLimit, status_seg_deletedStorage]
  apply status_ext
  · rfl
  · show (if o.messages then some (d.messages.getD 0) else none) = RespSpec.gate o.messages d.messages
    cases hb : o.messages with
    | false => rfl
    | true => obtain ⟨n, hn⟩ := w1 hb; rw [hn]; rfl
  · rfl
  · rfl
  · show (if o.unseen then some (d.unseen.getD 0) else none) = RespSpec.gate o.unseen d.unseen
    cases hb : o.unseen with
    | false => rfl
    | true => obtain ⟨n, hn⟩ := w2 hb; rw [hn]; rfl
  · show (if o.deleted then some (d.deleted.getD 0) else none) = RespSpec.gate o.deleted d.deleted
    cases hb : o.deleted with
    | false => rfl
    | true => obtain ⟨n, hn⟩ := w3 hb; rw [hn]; rfl
  · show (if o.size then some (((d.size.getD 0).toNat : Nat) : Int) else none) = RespSpec.gate o.size d.size
    cases hb : o.size with
    | false => rfl
    | true => obtain ⟨n, hn⟩ := w4 hb; rw [hn]; rfl
  · rfl
  · show (if o.deletedStorage then some (((d.deletedStorage.getD 0).toNat : Nat) : Int) else none) =
      RespSpec.gate o.deletedStorage d.deletedStorage
    cases hb : o.deletedStorage with
    | false => rfl
    | true => obtain ⟨n, hn⟩ := w5 hb; rw [hn]; rfl

/-! ### the STATUS line -/

theorem status_mb_head (utf8 : Bool) (name mb : Str) (h : encMailbox utf8 name = some mb) :
    ∃ c t, mb = c :: t ∧ c ≠ 13 ∧ c ≠ 10 := by
  unfold encMailbox at h
  by_cases hf : eqFold name (asc "INBOX") = true
  · rw [if_pos hf] at h
    injection h with h
    subst h
    exact ⟨73, [78, 66, 79, 88], by decide, by decide, by decide⟩
  · rw [if_neg hf] at h
    cases hd : Utf7.utf8dec name with
    | none => rw [hd] at h; simp at h
    | some cps =>
      rw [hd] at h
      simp only [Option.map_some, Option.some.injEq] at h
      subst h
      unfold encString
      by_cases hv : validQuoted utf8 (Utf7.encode cps) = true
      · rw [if_pos hv]; exact ⟨34, _, rfl, by decide, by decide⟩
      · rw [if_neg hv]; exact ⟨123, _, rfl, by decide, by decide⟩

/-- `* STATUS mailbox (items)` as status.go writeStatus writes it is read as the status event of the canonical value -/
theorem status_line (utf8 : Bool) (o : StatusOpts) (d : StatusData) (bytes : Str)
    (hwf : RespSpec.wfStatus o d = true) (hr : StatusInRange d) (hp : printStatus utf8 o d = some bytes) :
    ReadsAs bytes (Event.status (RespSpec.canonStatus o d)) := by
  rw [status_print_eq utf8 o d hwf] at hp
  cases hmb : encMailbox utf8 d.mailbox with
  | none => rw [hmb] at hp; simp at hp
  | some mb =>
    rw [hmb] at hp
    simp only [Option.map_some, Option.some.injEq] at hp
    subst hp
    constructor
    · simp [star]
    · intro rest
      obtain ⟨c, t, hct, h13, h10⟩ := status_mb_head utf8 d.mailbox mb hmb
      have hread := status_readStatus_line utf8 d.mailbox mb (status_items o d) (13 :: 10 :: rest) hmb hr.mailboxLen
        (status_items_ok o d hr)
      rw [status_fold o d hwf] at hread
      generalize (status_items o d).map status_encItem = L at hread ⊢
      have e : star ++ asc " STATUS " ++ mb ++ [32] ++ encList L ++ CRLFb ++ rest =
          42 :: 32 :: 83 :: (asc "TATUS" ++ 32 :: (mb ++ 32 :: (encList L ++ 13 :: 10 :: rest))) := by
        simp [star, asc, CRLFb]
      have e2 : ∀ X : Str, 83 :: (asc "TATUS" ++ X) = asc "STATUS" ++ X := by intro X; simp [asc]
      rw [e, readResponse_star 83 _ (by decide) (by decide), e2,
        readUntagged_name (asc "STATUS") _ (isName_of _ (by decide)) (StopsAt.cons _ (by decide))]
      have hsp : expectSP (32 :: (mb ++ 32 :: (encList L ++ 13 :: 10 :: rest))) =
          some (mb ++ 32 :: (encList L ++ 13 :: 10 :: rest)) := by
        rw [hct]; exact expectSP_sp c _ h13 h10
      rw [status_dispatch _ _ _ _ hsp hread, finishLine_crlf]

/-! ### routing -/

/-- handleStatus hands the value to the STATUS command that asked for this mailbox -/
theorem status_deliver (requested : Str) (o : StatusOpts) (d : StatusData) (tag typ : Str) (code : Code)
    (h : sameMailbox requested (RespSpec.canonMailbox d.mailbox) = true) :
    deliverStatus sameMailbox requested [Event.status (RespSpec.canonStatus o d), Event.done tag typ code] =
      RespSpec.canonStatus o d := by
  have hm : (RespSpec.canonStatus o d).mailbox = RespSpec.canonMailbox d.mailbox := rfl
  simp [deliverStatus, hm, h]

/-- the name the backend reports matches the name the client asked for, INBOX in any case included -/
theorem status_sameMailbox_canon (m : Str) : sameMailbox m (RespSpec.canonMailbox m) = true := by
  unfold sameMailbox
  rw [mailbox_canon_eq]
  cases hf : eqFold m (asc "INBOX") <;> simp

theorem status_deliver_self (o : StatusOpts) (d : StatusData) (tag typ : Str) (code : Code) :
    deliverStatus sameMailbox d.mailbox [Event.status (RespSpec.canonStatus o d), Event.done tag typ code] =
      RespSpec.canonStatus o d :=
  status_deliver d.mailbox o d tag typ code (status_sameMailbox_canon d.mailbox)

/-! ### a concrete response -/

def status_exO : StatusOpts :=
  { messages := true, uidNext := true, uidValidity := false, unseen := false, deleted := false, size := true,
    appendLimit := true, deletedStorage := false }

def status_exD : StatusData :=
  { mailbox := asc "inbox", messages := some 3, uidNext := 44, uidValidity := 9, unseen := some 1, deleted := none,
    size := some 1000, appendLimit := none, deletedStorage := none }

example : ReadsAs (asc "* STATUS INBOX (MESSAGES 3 UIDNEXT 44 SIZE 1000 APPENDLIMIT NIL)\r\n")
    (Event.status { mailbox := asc "INBOX", messages := some 3, uidNext := 44, uidValidity := 0, unseen := none,
                    deleted := none, size := some 1000, appendLimit := some 4294967295, deletedStorage := none }) := by
  have h := status_line true status_exO status_exD (asc "* STATUS INBOX (MESSAGES 3 UIDNEXT 44 SIZE 1000 APPENDLIMIT NIL)\r\n")
    (by decide +kernel)
    ⟨by decide, by intro n h; cases h; decide, by decide, by decide, by intro n h; cases h; decide,
     (by intro n h; cases h), by intro n h; cases h; decide, (by intro n h; cases h),
     (by intro n h; cases h)⟩
    (by decide +kernel)
  have e : RespSpec.canonStatus status_exO status_exD =
      { mailbox := asc "INBOX", messages := some 3, uidNext := 44, uidValidity := 0, unseen := none,
        deleted := none, size := some 1000, appendLimit := some 4294967295, deletedStorage := none } := by
    decide +kernel
  rwa [e] at h

example : deliverStatus sameMailbox (asc "inbox")
    [Event.status (RespSpec.canonStatus status_exO status_exD), Event.done (asc "T1") (asc "OK") Code.none] =
    RespSpec.canonStatus status_exO status_exD :=
  status_deliver_self status_exO status_exD _ _ _

end GoImap.Resp
