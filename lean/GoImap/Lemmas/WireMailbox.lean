/-
  C01: mailbox names — `Encoder.Mailbox` (INBOX folding, modified UTF-7, then `String`) against
  `Decoder.ExpectMailbox`.  Builds on C16's `dec_enc`; the UTF-8 layer (`utf8dec` sound w.r.t.
  `utf8enc`) is proved here.
-/
import GoImap.Lemmas.WireString
import GoImap.Lemmas.Utf7Round
namespace GoImap.Wire
open GoImap.Utf7 GoImap.Utf7Lemmas


theorem map_cons_some {x : Nat} {o : Option (List Nat)} {cps : List Nat}
    (h : Option.map (fun t => x :: t) o = some cps) : ∃ t, o = some t ∧ cps = x :: t := by
  cases o with
  | none => simp at h
  | some t => simp at h; exact ⟨t, rfl, h.symm⟩

theorem utf8enc_1 (c : Nat) (h : c < 128) : utf8enc c = [c] := by
  unfold utf8enc; rw [if_pos h]
theorem utf8enc_2 (c : Nat) (h1 : ¬ c < 128) (h2 : c < 2048) : utf8enc c = [192 + c / 64, 128 + c % 64] := by
  unfold utf8enc; rw [if_neg h1, if_pos h2]
theorem utf8enc_3 (c : Nat) (h1 : ¬ c < 2048) (h2 : c < 65536) :
    utf8enc c = [224 + c / 4096, 128 + (c / 64) % 64, 128 + c % 64] := by
  unfold utf8enc; rw [if_neg (by omega), if_neg h1, if_pos h2]
theorem utf8enc_4 (c : Nat) (h1 : ¬ c < 65536) :
    utf8enc c = [240 + c / 262144, 128 + (c / 4096) % 64, 128 + (c / 64) % 64, 128 + c % 64] := by
  unfold utf8enc; rw [if_neg (by omega), if_neg (by omega), if_neg h1]

set_option maxRecDepth 8000 in
theorem utf8dec_sound (b : BytesN) : ∀ cps, utf8dec b = some cps →
    cps.flatMap utf8enc = b ∧ ∀ c ∈ cps, Scalar c := by
  fun_induction utf8dec b <;> intro cps h
  case case1 => simp at h; subst h; simp
  case case2 c cs hc ih =>
    obtain ⟨t, ht, rfl⟩ := map_cons_some h
    obtain ⟨i1, i2⟩ := ih t ht
    refine ⟨?_, ?_⟩
    · rw [List.flatMap_cons, utf8enc_1 c hc, i1]; rfl
    · intro x hx
      rcases List.mem_cons.1 hx with rfl | hx
      · left; omega
      · exact i2 x hx
  case case3 c hc1 hc2 b1 r' hb ih =>
    obtain ⟨t, ht, rfl⟩ := map_cons_some h
    obtain ⟨i1, i2⟩ := ih t ht
    simp only [isCont, Bool.and_eq_true, decide_eq_true_eq] at hb
    refine ⟨?_, ?_⟩
    · rw [List.flatMap_cons, utf8enc_2 _ (by omega) (by omega), i1]
      have e1 : 192 + ((c - 192) * 64 + (b1 - 128)) / 64 = c := by omega
      have e2 : 128 + ((c - 192) * 64 + (b1 - 128)) % 64 = b1 := by omega
      rw [e1, e2]; rfl
    · intro x hx
      rcases List.mem_cons.1 hx with rfl | hx
      · left; omega
      · exact i2 x hx
  case case6 c0 hc1 hc2 hc3 b1 b2 r' c hb ih =>
    obtain ⟨t, ht, rfl⟩ := map_cons_some h
    obtain ⟨i1, i2⟩ := ih t ht
    simp only [isCont, Bool.and_eq_true, decide_eq_true_eq] at hb
    obtain ⟨⟨hb1, hb1'⟩, ⟨hb2, hb2'⟩, hlo, hsur⟩ := hb
    have hc : c = (c0 - 224) * 4096 + (b1 - 128) * 64 + (b2 - 128) := rfl
    refine ⟨?_, ?_⟩
    · rw [List.flatMap_cons, utf8enc_3 _ (by omega) (by omega), i1]
      have e1 : 224 + c / 4096 = c0 := by omega
      have e2 : 128 + (c / 64) % 64 = b1 := by omega
      have e3 : 128 + c % 64 = b2 := by omega
      rw [e1, e2, e3]; rfl
    · intro x hx
      rcases List.mem_cons.1 hx with rfl | hx
      · unfold Scalar; omega
      · exact i2 x hx
  case case9 c0 hc1 hc2 hc3 hc4 b1 b2 b3 r' c hb ih =>
    obtain ⟨t, ht, rfl⟩ := map_cons_some h
    obtain ⟨i1, i2⟩ := ih t ht
    simp only [isCont, Bool.and_eq_true, decide_eq_true_eq] at hb
    obtain ⟨⟨hb1, hb1'⟩, ⟨hb2, hb2'⟩, ⟨hb3, hb3'⟩, hlo, hhi⟩ := hb
    have hc : c = (c0 - 240) * 262144 + (b1 - 128) * 4096 + (b2 - 128) * 64 + (b3 - 128) := rfl
    refine ⟨?_, ?_⟩
    · rw [List.flatMap_cons, utf8enc_4 _ (by omega), i1]
      have e1 : 240 + c / 262144 = c0 := by omega
      have e2 : 128 + (c / 4096) % 64 = b1 := by omega
      have e3 : 128 + (c / 64) % 64 = b2 := by omega
      have e4 : 128 + c % 64 = b3 := by omega
      rw [e1, e2, e3, e4]; rfl
    · intro x hx
      rcases List.mem_cons.1 hx with rfl | hx
      · unfold Scalar; omega
      · exact i2 x hx
  all_goals simp at h

/-- an encoder output without `&` is the input itself, all printable -/
theorem enc_no_amp : ∀ (s acc : List Nat), 38 ∉ enc acc s →
    acc = [] ∧ enc acc s = s ∧ ∀ c ∈ s, printable c = true
  | [], acc, h => by
    unfold enc flush at h
    cases acc with
    | nil => simp [enc, flush]
    | cons a t => simp [encRun] at h
  | c :: cs, acc, h => by
    unfold enc at h
    by_cases hp : printable c = true
    · simp only [hp, if_true] at h
      have h1 : 38 ∉ flush acc := fun hm => h (by simp [hm])
      have h2 : 38 ∉ (if c = 38 then [38, 45] else [c]) := fun hm => h (by simp [hm])
      have h3 : 38 ∉ enc [] cs := fun hm => h (by simp [hm])
      have hacc : acc = [] := by
        cases acc with
        | nil => rfl
        | cons a t => simp [flush, encRun] at h1
      have hc : c ≠ 38 := by
        intro hc; subst hc; simp at h2
      obtain ⟨_, i2, i3⟩ := enc_no_amp cs [] h3
      subst hacc
      refine ⟨rfl, ?_, ?_⟩
      · unfold enc; simp [hp, hc, flush, i2]
      · intro x hx
        rcases List.mem_cons.1 hx with rfl | hx
        · exact hp
        · exact i3 x hx
    · have hp' : printable c = false := by simpa using hp
      simp only [hp', Bool.false_eq_true, if_false] at h
      obtain ⟨i1, _, _⟩ := enc_no_amp cs (acc ++ [c]) h
      simp at i1

theorem toLower_inbox (x : Nat) (h : toLowerAscii x ∈ [105, 110, 98, 111, 120]) :
    printable x = true ∧ x ≠ 38 := by
  unfold toLowerAscii at h
  simp only [List.mem_cons, List.not_mem_nil, or_false] at h
  unfold printable
  by_cases hx : (65 ≤ x && x ≤ 90) = true
  · simp only [Bool.and_eq_true, decide_eq_true_eq] at hx
    constructor
    · simp only [Bool.and_eq_true, decide_eq_true_eq]; omega
    · omega
  · simp only [hx, if_false, Bool.false_eq_true] at h
    rcases h with h | h | h | h | h <;> subst h <;> decide

theorem equalFoldInbox_chars (w : Bytes) (h : equalFoldInbox w = true) :
    ∀ x ∈ w, printable x = true ∧ x ≠ 38 := by
  intro x hx
  unfold equalFoldInbox lowerAscii at h
  simp only [decide_eq_true_eq] at h
  have : toLowerAscii x ∈ w.map toLowerAscii := List.mem_map_of_mem hx
  rw [h] at this
  exact toLower_inbox x this

theorem flatMap_utf8enc_printable : ∀ (cps : List Nat), (∀ c ∈ cps, printable c = true) →
    cps.flatMap utf8enc = cps
  | [], _ => rfl
  | c :: t, h => by
    have hp := h c (by simp)
    simp only [printable, Bool.and_eq_true, decide_eq_true_eq] at hp
    rw [List.flatMap_cons, utf8enc_1 c (by omega),
      flatMap_utf8enc_printable t (fun x hx => h x (by simp [hx]))]
    rfl

/-- the UTF-7 form of a name that is not INBOX (in any case mix) is not INBOX either -/
theorem encode_not_inbox (name : Bytes) (cps : List Nat) (hname : cps.flatMap utf8enc = name)
    (hn : equalFoldInbox name = false) : equalFoldInbox (encode cps) = false := by
  cases hE : equalFoldInbox (encode cps) with
  | false => rfl
  | true =>
    exfalso
    have hch := equalFoldInbox_chars _ hE
    have hamp : 38 ∉ enc [] cps := fun hm => (hch 38 hm).2 rfl
    obtain ⟨_, h2, h3⟩ := enc_no_amp cps [] hamp
    have : name = encode cps := by
      rw [← hname, flatMap_utf8enc_printable cps h3]; exact h2.symm
    rw [this, hE] at hn
    exact Bool.noConfusion hn

theorem decode_encode' (s : List Nat) (h : ∀ c ∈ s, Scalar c) : decode (encode s) = some s := by
  have := dec_enc s [] (by simp) h
  simpa [decode, encode] using this

/-- the bytes `Encoder.Mailbox` writes -/
def mboxBytes (cfg : Cfg) (name : Bytes) (cps : List Nat) : Bytes :=
  if equalFoldInbox name then inboxBytes else strBytes cfg (encode cps)

def mboxLits (cfg : Cfg) (name : Bytes) (cps : List Nat) : List (Nat × Bool) :=
  if equalFoldInbox name then [] else strLits cfg (encode cps)

theorem encMailbox_ok (cfg : Cfg) (name : Bytes) (cps : List Nat) (hdec : utf8dec name = some cps)
    (e : Enc) (he : e.err = false) :
    ∃ e1, encMailbox cfg name e = some e1 ∧ e1.err = false ∧ e1.out = e.out ++ mboxBytes cfg name cps := by
  unfold encMailbox mboxBytes
  by_cases hi : equalFoldInbox name = true
  · simp [hi, Enc.write, he]
  · have hi' : equalFoldInbox name = false := by simpa using hi
    simp only [hi', Bool.false_eq_true, if_false, hdec]
    obtain ⟨h1, h2, _⟩ := encString_ok cfg (encode cps) e he
    exact ⟨_, rfl, h1, h2⟩

theorem inbox_atom : ∀ b ∈ inboxBytes, isAtomChar b = true := by decide

/-- `ExpectMailbox` of the peer over what `Encoder.Mailbox` wrote for a valid UTF-8 name -/
theorem expectMailbox_mboxBytes (cfg : Cfg) (name : Bytes) (cps : List Nat)
    (hdec : utf8dec name = some cps) (hlen : (encode cps).length < lim63)
    (c : Nat) (r : Bytes) (hc : isAtomChar c = false) (l : List (Nat × Bool)) :
    expectMailbox cfg.side.peer ⟨mboxBytes cfg name cps ++ c :: r, none, l⟩ =
      (true, if equalFoldInbox name then inboxBytes else name, ⟨c :: r, none, l ++ mboxLits cfg name cps⟩) := by
  obtain ⟨hname, hscal⟩ := utf8dec_sound name cps hdec
  unfold mboxBytes mboxLits
  by_cases hi : equalFoldInbox name = true
  · simp only [hi, if_true, List.append_nil]
    have hatom : expectAtom ⟨inboxBytes ++ c :: r, none, l⟩ = (true, inboxBytes, ⟨c :: r, none, l⟩) := by
      unfold expectAtom decAtom
      rw [decFunc_append isAtomChar inboxBytes c r none l (by decide) inbox_atom hc]
      simp [expect]
    have hA : expectAString cfg.side.peer ⟨inboxBytes ++ c :: r, none, l⟩ =
        (true, inboxBytes, ⟨c :: r, none, l⟩) := by
      unfold expectAString
      have hq : decQuoted ⟨inboxBytes ++ c :: r, none, l⟩ = (false, [], ⟨inboxBytes ++ c :: r, none, l⟩) := by
        simp [decQuoted, acceptByte, inboxBytes]
      have hl : decLiteral cfg.side.peer ⟨inboxBytes ++ c :: r, none, l⟩ =
          (false, [], ⟨inboxBytes ++ c :: r, none, l⟩) := by
        simp [decLiteral, acceptByte, inboxBytes]
      rw [hq]; simp only [Bool.false_eq_true, if_false]
      rw [hl]; simp only [Bool.false_eq_true, if_false, Option.isSome_none]
      exact hatom
    unfold expectMailbox
    rw [hA]
    have : equalFoldInbox inboxBytes = true := by decide
    simp [this]
  · have hi' : equalFoldInbox name = false := by simpa using hi
    simp only [hi', Bool.false_eq_true, if_false]
    unfold expectMailbox
    rw [expectAString_strBytes cfg (encode cps) (c :: r) hlen none l]
    simp only [Bool.not_true, Bool.false_eq_true, if_false]
    rw [encode_not_inbox name cps hname hi', decode_encode' cps hscal]
    simp [hname]

end GoImap.Wire
