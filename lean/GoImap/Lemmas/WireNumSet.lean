/-
  C01: number sets — `Encoder.NumSet` (Set.String) against `Decoder.ExpectNumSet` (ParseSet).
  Builds on C15's `parseSet_toChars`.
-/
import GoImap.Lemmas.Wire
import GoImap.Lemmas.NumSetPrint
namespace GoImap.Wire
open GoImap.NumSet

/-- the characters `Set.String` produces -/
def SetChar (c : Char) : Prop := IsDig c ∨ c = ':' ∨ c = ',' ∨ c = '*'

theorem dchar_wire : ∀ k, k < 10 →
    isNumSetChar (dchar k).toNat = true ∧ (dchar k).toNat ≠ 36 := by
  decide

theorem SetChar.numSetChar {c : Char} (h : SetChar c) : isNumSetChar c.toNat = true ∧ c.toNat ≠ 36 := by
  rcases h with ⟨k, hk, rfl⟩ | rfl | rfl | rfl
  · exact dchar_wire k hk
  · decide
  · decide
  · decide

theorem digits_setChar (n : Nat) : ∀ c ∈ NumSet.digits n, SetChar c :=
  fun c hc => Or.inl ((digits_spec n).2.1 c hc)

theorem range_toChars_setChar (r : Range) : ∀ c ∈ r.toChars, SetChar c := by
  intro c hc
  rcases toChars_cases r with ⟨_, e⟩ | ⟨_, _, e⟩ | ⟨_, _, _, e⟩ | ⟨_, _, _, e⟩ <;> rw [e] at hc
  · simp at hc; subst hc; exact Or.inr (Or.inr (Or.inr rfl))
  · exact digits_setChar _ c hc
  · rcases List.mem_append.1 hc with h | h
    · exact digits_setChar _ c h
    · simp at h
      rcases h with h | h <;> subst h
      · exact Or.inr (Or.inl rfl)
      · exact Or.inr (Or.inr (Or.inr rfl))
  · rcases List.mem_append.1 hc with h | h
    · exact digits_setChar _ c h
    · rcases List.mem_cons.1 h with h | h
      · subst h; exact Or.inr (Or.inl rfl)
      · exact digits_setChar _ c h

theorem range_toChars_ne_nil (r : Range) : r.toChars ≠ [] := by
  rcases toChars_cases r with ⟨_, e⟩ | ⟨_, _, e⟩ | ⟨_, _, _, e⟩ | ⟨_, _, _, e⟩ <;> rw [e]
  · simp
  · exact (digits_spec _).2.2.1
  · simp
  · simp

theorem toChars_setChar : ∀ (s : NumSet.Set), ∀ c ∈ toChars s, SetChar c
  | [], c, hc => by simp [toChars] at hc
  | [r], c, hc => by
    simp only [toChars] at hc
    exact range_toChars_setChar r c hc
  | r :: r2 :: rest, c, hc => by
    simp only [toChars] at hc
    rcases List.mem_append.1 hc with h | h
    · exact range_toChars_setChar r c h
    · rcases List.mem_cons.1 h with h | h
      · subst h; exact Or.inr (Or.inr (Or.inl rfl))
      · exact toChars_setChar (r2 :: rest) c h

theorem toChars_ne_nil : ∀ (s : NumSet.Set), s ≠ [] → toChars s ≠ []
  | [], h => absurd rfl h
  | [r], _ => by simp only [toChars]; exact range_toChars_ne_nil r
  | r :: r2 :: rest, _ => by
    simp only [toChars]
    intro h
    have := List.append_eq_nil_iff.1 h
    exact range_toChars_ne_nil r this.1

theorem map_ofNat_toNat (cs : List Char) : (cs.map Char.toNat).map Char.ofNat = cs := by
  induction cs with
  | nil => rfl
  | cons c r ih => simp [ih]

/-- `ExpectNumSet` over the text of a non-empty canonical set, followed by a byte that cannot
    continue a sequence-set -/
theorem expectNumSet_text (s : NumSet.Set) (hparse : parseSet (toChars s) = some s) (hne : s ≠ [])
    (c : Nat) (r : Bytes) (hc : isNumSetChar c = false) (e : Option Err) (l : List (Nat × Bool)) :
    expectNumSet ⟨(NumSetV.set s).text ++ c :: r, e, l⟩ = (true, .set s, ⟨c :: r, e, l⟩) := by
  have hchars := toChars_setChar s
  have hnn := toChars_ne_nil s hne
  have htext : (NumSetV.set s).text = (toChars s).map Char.toNat := rfl
  have hne' : (NumSetV.set s).text ≠ [] := by
    rw [htext]; intro h; exact hnn (List.map_eq_nil_iff.1 h)
  have hall : ∀ b ∈ (NumSetV.set s).text, isNumSetChar b = true := by
    intro b hb
    rw [htext] at hb
    obtain ⟨ch, hch, rfl⟩ := List.mem_map.1 hb
    exact (hchars ch hch).numSetChar.1
  have h36 : acceptByte 36 ⟨(NumSetV.set s).text ++ c :: r, e, l⟩ =
      (false, ⟨(NumSetV.set s).text ++ c :: r, e, l⟩) := by
    cases htx : (NumSetV.set s).text with
    | nil => exact absurd htx hne'
    | cons b t =>
      have hb : b ≠ 36 := by
        have hmem : b ∈ (NumSetV.set s).text := by rw [htx]; simp
        rw [htext] at hmem
        obtain ⟨ch, hch, rfl⟩ := List.mem_map.1 hmem
        exact (hchars ch hch).numSetChar.2
      simp [acceptByte, hb]
  unfold expectNumSet
  rw [h36]
  simp only [Bool.false_eq_true, if_false]
  rw [decFunc_append isNumSetChar _ c r e l hne' hall hc]
  simp only [expect, if_true, Bool.not_true, Bool.false_eq_true, if_false]
  rw [htext, map_ofNat_toNat, hparse]

end GoImap.Wire
