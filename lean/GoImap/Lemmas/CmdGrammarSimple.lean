/-
  C02 helper lemmas: the simple-argument commands (LOGIN, SELECT/EXAMINE, DELETE, SUBSCRIBE,
  UNSUBSCRIBE, RENAME) through writer and reader.
-/
import GoImap.Lemmas.CmdGrammarMailbox
namespace GoImap.CmdLemmas
open GoImap.CmdGrammar GoImap.CmdSpec

theorem isName_kw (x : String) (h : (str x ≠ [] ∧ (str x).all isAtomChar = true ∧ upper (str x) = str x) := by decide) :
    IsName (str x) :=
  ⟨h.1, fun c hc => List.all_eq_true.mp h.2.1 c hc, h.2.2⟩

/-- one protocol command on the wire: tag, body, CRLF -/
theorem printCmd_single (q : Quirks) (cfg : Cfg) (tag : Nat) (c : Cmd) (segs : List Seg)
    (h : wBody q cfg c = .ok [segs]) :
    printCmd q cfg tag c = .ok [[.fixed ([.b 84] ++ atom (digits tag) ++ sp)] ++ segs ++ [.fixed crlf]] := by
  simp [printCmd, h, bind, Except.bind, pure, Except.pure, List.zipIdx]

theorem linearise_single (tag : Nat) (body : Wire) :
    linearise ([Seg.fixed ([.b 84] ++ atom (digits tag) ++ sp)] ++ [Seg.fixed body] ++ [Seg.fixed crlf]) = tagW tag ++ body ++ crlf := by
  simp [linearise, Seg.lin, tagW]

/-- the frame around a single-command round trip -/
theorem roundTrip_single (cfg : Cfg) (tag : Nat) (c : Cmd) (body : Wire) (calls : List Cmd)
    (hw : wBody {} cfg c = .ok [[.fixed body]])
    (hp : parseOne cfg (tagW tag ++ body ++ crlf) = .ok (calls, [])) :
    roundTrip {} cfg tag c = .calls calls := by
  unfold roundTrip
  rw [printCmd_single _ _ _ _ _ hw]
  simp only [List.map_cons, List.map_nil]
  rw [linearise_single]
  simp only [parseCmds, bind, Except.bind, hp]
  simp [pure, Except.pure]

theorem stops_crlf_atom (r : Wire) : Stops isAtomChar (crlf ++ r) := stops_crlf _ (by decide) _
theorem stops_sp_atom (r : Wire) : Stops isAtomChar (sp ++ r) := stops_sp _ (by decide) _

theorem pCRLF_crlf_nil : pCRLF crlf = .ok ((), []) := by
  have := pCRLF_crlf []
  simpa using this

theorem login_fidelity (cfg : Cfg) (tag : Nat) (u p : Str) (hu : strOk u = true) (hp : strOk p = true) :
    roundTrip {} cfg tag (.login u p) = .calls (sem cfg (.login u p)) := by
  apply roundTrip_single cfg tag _ (kw "LOGIN" ++ sp ++ [.s u] ++ sp ++ [.s p])
  · rfl
  · unfold parseOne
    have hu' : u.length ≤ maxBuffered := by simpa [strOk] using hu
    have hp' : p.length ≤ maxBuffered := by simpa [strOk] using hp
    have := pHeader_plain tag (str "LOGIN") (sp ++ [.s u] ++ sp ++ [.s p] ++ crlf) (isName_kw "LOGIN") (by decide)
      (by simp only [List.append_assoc]; exact stops_sp_atom _)
    simp only [kw, List.append_assoc, List.singleton_append, List.cons_append, List.nil_append] at this ⊢
    rw [this]
    simp only [bind, Except.bind, dispatch]
    rw [if_pos (by decide)]
    simp only [one, pLogin, bind, Except.bind, pSP_sp _ (notEol_s _ _), pAString_s _ _ hu', pAString_s _ _ hp', pCRLF_crlf_nil]
    simp [pure, Except.pure, sem, semRaw, canon]


theorem parse_plain (cfg : Cfg) (tag : Nat) (name : Str) (rest : Wire) (hn : IsName name) (hnu : name ≠ str "UID")
    (hs : Stops isAtomChar rest) :
    parseOne cfg (tagW tag ++ (atom name ++ rest)) = dispatch cfg false name rest := by
  unfold parseOne
  have := pHeader_plain tag name rest hn hnu hs
  simp only [List.append_assoc] at this
  rw [this]
  rfl

theorem parse_uid (cfg : Cfg) (tag : Nat) (name : Str) (rest : Wire) (hn : IsName name)
    (hs : Stops isAtomChar rest) :
    parseOne cfg (tagW tag ++ (kw "UID " ++ (atom name ++ rest))) = dispatch cfg true name rest := by
  unfold parseOne
  have := pHeader_uid tag name rest hn hs
  simp only [List.append_assoc] at this
  rw [this]
  rfl

theorem dispatch_delete (cfg : Cfg) (w : Wire) : dispatch cfg false (str "DELETE") w = one (pOneMailbox .delete) w := by
  unfold dispatch
  simp (decide := true)

end GoImap.CmdLemmas
