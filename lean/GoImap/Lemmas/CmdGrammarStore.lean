/-
  C02 helper lemmas: STORE, COPY, MOVE (also as COPY + STORE + EXPUNGE), EXPUNGE, UID EXPUNGE.
-/
import GoImap.Lemmas.CmdGrammarCmds
namespace GoImap.CmdLemmas
open GoImap.CmdGrammar GoImap.CmdSpec

/-- the name of a command with an optional `UID ` prefix, parsed by the reader's head -/
theorem parse_uidName (cfg : Cfg) (tag : Nat) (uid : Bool) (name : String) (rest : Wire)
    (hn : IsName (str name)) (hnu : str name ≠ str "UID") (hs : Stops isAtomChar rest) :
    parseOne cfg (tagW tag ++ (uidName uid name ++ rest)) = dispatch cfg uid (str name) rest := by
  cases uid with
  | false => simpa [uidName, kw] using parse_plain cfg tag (str name) rest hn hnu hs
  | true =>
    simp only [uidName, if_true, List.append_assoc]
    simpa [kw] using parse_uid cfg tag (str name) rest hn hs

/-! ### COPY / MOVE -/

theorem pCopy_w (uid mv : Bool) (s : NSet) (m : List Nat) (hs : SetOK s) (hm : MailboxOK m) :
    pCopy uid mv (sp ++ (atom s.text ++ (sp ++ (wMailbox m ++ crlf)))) =
      .ok ((if mv then Cmd.move uid s (canonMailbox m) else Cmd.copy uid s (canonMailbox m)), []) := by
  unfold pCopy
  simp only [bind, Except.bind, pSP_sp _ (notEol_text s _ hs), pNumSet_text s _ hs (stops_sp_numset _),
    pSP_sp _ (notEol_wMailbox m crlf), pMailbox_wMailbox m crlf hm stops_crlf0, pCRLF_crlf_nil]
  rfl

/-- a set in normal form for the specification as well (the literal, non-canonical sets a caller can
    write down are covered by the oracle only) -/
def SetNF : NSet → Prop
  | .searchRes => True
  | .set rs => normSet rs = rs

theorem canonNSet_nf (s : NSet) (h : SetNF s) : canonNSet s = s := by
  cases s with
  | searchRes => rfl
  | set rs => simp only [canonNSet]; rw [show normSet rs = rs from h]

theorem copy_fidelity (cfg : Cfg) (tag : Nat) (uid : Bool) (s : NSet) (m : List Nat)
    (hs : SetOK s) (hnf : SetNF s) (hm : MailboxOK m) :
    roundTrip {} cfg tag (.copy uid s m) = .calls (sem cfg (.copy uid s m)) := by
  apply roundTrip_single cfg tag _ (uidName uid "COPY" ++ sp ++ atom s.text ++ sp ++ wMailbox m)
  · simp [wBody, wNumSet_ok s hs, bind, Except.bind, pure, Except.pure]
  · simp only [List.append_assoc]
    rw [parse_uidName cfg tag uid "COPY" _ (isName_kw "COPY") (by decide) (stops_sp_atom _), dispatch_copy]
    simp only [one, bind, Except.bind, pCopy_w uid false s m hs hm]
    simp [sem, semRaw, canon, canonNSet_nf s hnf, pure, Except.pure]

theorem move_fidelity (cfg : Cfg) (tag : Nat) (uid : Bool) (s : NSet) (m : List Nat)
    (hs : SetOK s) (hnf : SetNF s) (hm : MailboxOK m) (hmove : cfg.hasMove = true) :
    roundTrip {} cfg tag (.move uid s m) = .calls (sem cfg (.move uid s m)) := by
  apply roundTrip_single cfg tag _ (uidName uid "MOVE" ++ sp ++ atom s.text ++ sp ++ wMailbox m)
  · simp [wBody, wNumSet_ok s hs, hmove, bind, Except.bind, pure, Except.pure]
  · simp only [List.append_assoc]
    rw [parse_uidName cfg tag uid "MOVE" _ (isName_kw "MOVE") (by decide) (stops_sp_atom _), dispatch_move]
    simp only [one, bind, Except.bind, pCopy_w uid true s m hs hm]
    simp [sem, semRaw, canon, canonNSet_nf s hnf, hmove, pure, Except.pure]

/-! ### STORE -/

def storeItem (op : Nat) (silent : Bool) : Wire :=
  (if op = 1 then [.b 43] else if op = 2 then [.b 45] else []) ++ kw "FLAGS" ++ (if silent then kw ".SILENT" else [])

def storeItemStr (op : Nat) (silent : Bool) : Str :=
  (if op = 1 then [43] else if op = 2 then [45] else []) ++ str "FLAGS" ++ (if silent then str ".SILENT" else [])

theorem storeItem_atom (op : Nat) (silent : Bool) : storeItem op silent = atom (storeItemStr op silent) := by
  unfold storeItem storeItemStr atom kw atom
  split_ifs <;> simp

theorem storeItem_chars (op : Nat) (silent : Bool) :
    storeItemStr op silent ≠ [] ∧ ∀ c ∈ storeItemStr op silent, isAtomChar c = true := by
  unfold storeItemStr
  cases silent <;> split_ifs <;> decide

theorem storeAnalyse_item (op : Nat) (silent : Bool) (h : op ≤ 2) :
    storeAnalyse (storeItemStr op silent) = some (op, silent) := by
  have : op = 0 ∨ op = 1 ∨ op = 2 := by omega
  rcases this with rfl | rfl | rfl <;> cases silent <;> decide

theorem pStore_w (uid : Bool) (s : NSet) (op : Nat) (silent : Bool) (flags : List Str)
    (hs : SetOK s) (hop : op ≤ 2) (hf : ∀ f ∈ flags, FlagOK f) :
    pStore uid (sp ++ (atom s.text ++ (sp ++ (storeItem op silent ++ (sp ++ (wList (flags.map fun f => atom f) ++ crlf)))))) =
      .ok (.store uid s op silent (flags.map canonFlag), []) := by
  have hlist := pListOpt_wList flagItemSpec flags hf [] crlf
  rw [foldl_canonFlag] at hlist
  have hitem := storeItem_chars op silent
  have hne : NotEol (wList (flags.map fun f => atom f) ++ crlf) := by simp [wList, NotEol]
  unfold pStore
  rw [storeItem_atom]
  simp only [bind, Except.bind, pSP_sp _ (notEol_text s _ hs), pNumSet_text s _ hs (stops_sp_numset _),
    pSP_sp _ (notEol_atom _ _ hitem.1 hitem.2), pAtom_atom _ _ hitem.1 hitem.2 (stops_sp_atom _), pSP_sp _ hne, hlist,
    pCRLF_crlf_nil, List.nil_append, storeAnalyse_item op silent hop]
  rfl

theorem store_fidelity (cfg : Cfg) (tag : Nat) (uid : Bool) (s : NSet) (op : Nat) (silent : Bool) (flags : List Str)
    (hs : SetOK s) (hnf : SetNF s) (hop : op ≤ 2) (hf : ∀ f ∈ flags, FlagOK f) :
    roundTrip {} cfg tag (.store uid s op silent flags) = .calls (sem cfg (.store uid s op silent flags)) := by
  apply roundTrip_single cfg tag _
    (uidName uid "STORE" ++ sp ++ atom s.text ++ sp ++ storeItem op silent ++ sp ++ wList (flags.map fun f => atom f))
  · have : ¬ op > 2 := by omega
    simp [wBody, wNumSet_ok s hs, wFlagList_ok flags hf, this, storeItem, bind, Except.bind, pure, Except.pure]
  · simp only [List.append_assoc]
    rw [parse_uidName cfg tag uid "STORE" _ (isName_kw "STORE") (by decide) (stops_sp_atom _), dispatch_store]
    simp only [one, bind, Except.bind, pStore_w uid s op silent flags hs hop hf]
    simp [sem, semRaw, canon, canonNSet_nf s hnf, pure, Except.pure]

/-! ### EXPUNGE -/

theorem expunge_fidelity (cfg : Cfg) (tag : Nat) :
    roundTrip {} cfg tag (.expunge none) = .calls (sem cfg (.expunge none)) := by
  apply roundTrip_single cfg tag _ (kw "EXPUNGE")
  · rfl
  · have := parse_plain cfg tag (str "EXPUNGE") crlf (isName_kw "EXPUNGE") (by decide) stops_crlf0
    simp only [kw, List.append_assoc] at this ⊢
    rw [this, dispatch_expunge]
    simp [one, pExpunge, bind, Except.bind, pCRLF_crlf_nil, sem, semRaw, canon, pure, Except.pure]

theorem uidExpunge_fidelity (cfg : Cfg) (tag : Nat) (s : NSet) (hs : SetOK s) (hnf : SetNF s) :
    roundTrip {} cfg tag (.expunge (some s)) = .calls (sem cfg (.expunge (some s))) := by
  apply roundTrip_single cfg tag _ (kw "UID EXPUNGE" ++ sp ++ atom s.text)
  · simp [wBody, wNumSet_ok s hs, bind, Except.bind, pure, Except.pure]
  · have hk : kw "UID EXPUNGE" = kw "UID " ++ atom (str "EXPUNGE") := by decide
    rw [hk]
    simp only [List.append_assoc]
    rw [parse_uid cfg tag (str "EXPUNGE") _ (isName_kw "EXPUNGE") (stops_sp_atom _), dispatch_uidexpunge]
    have hst : Stops isNumSetChar crlf := by simp [crlf, Stops]; decide
    have hp := pNumSet_text s crlf hs hst
    simp only [one, pUidExpunge, bind, Except.bind, pSP_sp _ (notEol_text s _ hs), hp, pCRLF_crlf_nil]
    simp [sem, semRaw, canon, canonNSet_nf s hnf, pure, Except.pure]

end GoImap.CmdLemmas
