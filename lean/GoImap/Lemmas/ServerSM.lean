/-
  Helper lemmas for C05: complete enumerations of the finite types of the server state machine, the
  reduction of a configuration to the three switches `step` and `rfcStep` read, the one-step facts
  (checked over the whole table by kernel evaluation) and their lifting over histories.
-/
import GoImap.Model.ServerSM
import GoImap.Spec.ServerSM
namespace GoImap.ServerLemmas
open GoImap.ServerSM GoImap.ServerSpec

/-! ### enumerations -/

def allBool : List Bool := [false, true]
def allSt : List St := [.notAuth, .auth, .selected, .logout]
def allCapsMode : List CapsMode := [.rev1, .both, .rev2]
def allOutcome : List Outcome := [.parseErr, .backendOk, .backendErr, .auxErr, .pollErr]
def allKind : List CmdKind :=
  [.noop, .check, .logout, .capability, .starttls, .authenticate, .authCont, .authCancel, .authMech,
   .unauthenticate, .login, .enable, .create, .delete, .rename, .subscribe, .unsubscribe, .status, .list, .lsub,
   .namespace, .idle, .select, .examine, .close, .unselect, .append, .fetch, .uidFetch, .expunge, .uidExpunge,
   .store, .uidStore, .copy, .uidCopy, .move, .uidMove, .search, .uidSearch, .unknown, .uidUnknown]
def allConn : List Conn :=
  allSt.flatMap fun s => allBool.flatMap fun t => allBool.map fun cl => ⟨s, t, cl⟩
/-- the connections that still process commands -/
def openConn : List Conn := allSt.flatMap fun s => allBool.map fun t => ⟨s, t, false⟩
def allCap : List Cap :=
  [.imap4rev2, .imap4rev1, .saslIR, .literalMinus, .startTLS, .authPlain, .loginDisabled, .unselect, .enable, .idle,
   .utf8Accept, .namespace, .uidPlus, .eSearch, .searchRes, .listExtended, .listStatus, .move, .statusSize, .binary,
   .createSpecialUse, .literalPlus, .unauthenticate]

theorem mem_allBool (b : Bool) : b ∈ allBool := by cases b <;> decide
theorem mem_allSt (s : St) : s ∈ allSt := by cases s <;> decide
theorem mem_allCapsMode (m : CapsMode) : m ∈ allCapsMode := by cases m <;> decide
theorem mem_allOutcome (o : Outcome) : o ∈ allOutcome := by cases o <;> decide
theorem mem_allKind (k : CmdKind) : k ∈ allKind := by cases k <;> decide
theorem mem_allCap (c : Cap) : c ∈ allCap := by cases c <;> decide
theorem mem_allConn (c : Conn) : c ∈ allConn := by
  obtain ⟨s, t, cl⟩ := c
  cases s <;> cases t <;> cases cl <;> decide

theorem mem_openConn (c : Conn) (h : c.closed = false) : c ∈ openConn := by
  obtain ⟨s, t, cl⟩ := c
  simp only at h
  subst h
  cases s <;> cases t <;> decide

theorem forall_of_all {α : Type} (l : List α) (hl : ∀ x, x ∈ l) (p : α → Bool) (h : l.all p = true) :
    ∀ x, p x = true := fun x => List.all_eq_true.mp h x (hl x)

/-! ### only three switches of the configuration reach `step` and `rfcStep` -/

/-- the configuration with everything `step` does not read set to a fixed value -/
def knobs (ins full stls : Bool) : Cfg := ⟨false, ins, false, full, stls, .rev1⟩

def norm (cfg : Cfg) : Cfg := knobs cfg.ins cfg.full cfg.stls

theorem handle_norm (cfg : Cfg) (c : Conn) (k : CmdKind) (b a p : Bool) :
    handle cfg c k b a p = handle (norm cfg) c k b a p := by
  cases k <;> rfl

theorem step_norm (cfg : Cfg) (c : Conn) (k : CmdKind) (o : Outcome) : step cfg c k o = step (norm cfg) c k o := by
  simp only [step, handle_norm cfg]

theorem rfcStep_norm (cfg : Cfg) (c : RConn) (k : CmdKind) (o : Outcome) :
    rfcStep cfg c k o = rfcStep (norm cfg) c k o := rfl

theorem credsAllowed_norm (cfg : Cfg) (t : Bool) : credsAllowed cfg t = credsAllowed (norm cfg) t := rfl

/-- a closed connection processes nothing -/
theorem step_closed (cfg : Cfg) (c : Conn) (k : CmdKind) (o : Outcome) (h : c.closed = true) :
    step cfg c k o = ⟨c, [], .none, false, 0, false⟩ := by
  simp [step, h]

/-! ### one-step facts -/

/-- every call of one step is permitted in the state it is made in -/
def gateOK (cfg : Cfg) (c : Conn) (k : CmdKind) (o : Outcome) : Bool :=
  (step cfg c k o).calls.all fun call => Permitted call.2 call.1

/-- a step that hands credentials to the backend runs on TLS or with InsecureAuth -/
def credsOK (cfg : Cfg) (c : Conn) (k : CmdKind) (o : Outcome) : Bool :=
  (step cfg c k o).calls.all fun call => !call.1.isLogin || credsAllowed cfg c.tls

def bsame : Bool → Bool → Bool
  | true, true | false, false => true
  | _, _ => false

theorem bsame_iff (a b : Bool) : bsame a b = true ↔ a = b := by cases a <;> cases b <;> simp [bsame]
theorem same_iff (a b : St) : a.same b = true ↔ a = b := by cases a <;> cases b <;> simp [St.same]
theorem isPollErr_iff (o : Outcome) : o.isPollErr = true ↔ o = .pollErr := by cases o <;> simp [Outcome.isPollErr]
theorem isLogout_iff (s : St) : s.isLogout = true ↔ s = .logout := by cases s <;> simp [St.isLogout]

/-- reachable connections: the logout state is only ever seen on a closed connection -/
def Wf (c : Conn) : Bool := !c.st.isLogout || c.closed

/-- the RFC's view of a model connection -/
def view (c : Conn) : RConn := ⟨obsSt c, c.tls⟩

/-- one step refines the RFC diagram: the observable successor is allowed, TLS status agrees, and
    well-formedness is kept -/
def refineOK (cfg : Cfg) (c : Conn) (k : CmdKind) (o : Outcome) : Bool :=
  !Wf c || c.closed ||
    (Wf (step cfg c k o).conn && rfcAllowed cfg (view c) k o (obsSt (step cfg c k o).conn)
       && ((step cfg c k o).conn.closed || bsame (step cfg c k o).conn.tls (rfcStep cfg (view c) k o).tls)
       && (o.isPollErr || (obsSt (step cfg c k o).conn).same (rfcStep cfg (view c) k o).st))

/-- the three one-step facts in one pass over the table -/
def stepOK (cfg : Cfg) (c : Conn) (k : CmdKind) (o : Outcome) : Bool :=
  gateOK cfg c k o && credsOK cfg c k o && refineOK cfg c k o

/-- the table of one command kind: all switches, open connections and outcomes -/
def kindOK (k : CmdKind) : Bool :=
  allBool.all fun i => allBool.all fun f => allBool.all fun s => openConn.all fun c =>
    allOutcome.all fun o => stepOK (knobs i f s) c k o

/-! one kernel evaluation per command kind (they are checked in parallel) -/
theorem kindOK_noop : kindOK .noop = true := by decide +kernel
theorem kindOK_check : kindOK .check = true := by decide +kernel
theorem kindOK_logout : kindOK .logout = true := by decide +kernel
theorem kindOK_capability : kindOK .capability = true := by decide +kernel
theorem kindOK_starttls : kindOK .starttls = true := by decide +kernel
theorem kindOK_authenticate : kindOK .authenticate = true := by decide +kernel
theorem kindOK_authCont : kindOK .authCont = true := by decide +kernel
theorem kindOK_authCancel : kindOK .authCancel = true := by decide +kernel
theorem kindOK_authMech : kindOK .authMech = true := by decide +kernel
theorem kindOK_unauthenticate : kindOK .unauthenticate = true := by decide +kernel
theorem kindOK_login : kindOK .login = true := by decide +kernel
theorem kindOK_enable : kindOK .enable = true := by decide +kernel
theorem kindOK_create : kindOK .create = true := by decide +kernel
theorem kindOK_delete : kindOK .delete = true := by decide +kernel
theorem kindOK_rename : kindOK .rename = true := by decide +kernel
theorem kindOK_subscribe : kindOK .subscribe = true := by decide +kernel
theorem kindOK_unsubscribe : kindOK .unsubscribe = true := by decide +kernel
theorem kindOK_status : kindOK .status = true := by decide +kernel
theorem kindOK_list : kindOK .list = true := by decide +kernel
theorem kindOK_lsub : kindOK .lsub = true := by decide +kernel
theorem kindOK_namespace : kindOK .namespace = true := by decide +kernel
theorem kindOK_idle : kindOK .idle = true := by decide +kernel
theorem kindOK_select : kindOK .select = true := by decide +kernel
theorem kindOK_examine : kindOK .examine = true := by decide +kernel
theorem kindOK_close : kindOK .close = true := by decide +kernel
theorem kindOK_unselect : kindOK .unselect = true := by decide +kernel
theorem kindOK_append : kindOK .append = true := by decide +kernel
theorem kindOK_fetch : kindOK .fetch = true := by decide +kernel
theorem kindOK_uidFetch : kindOK .uidFetch = true := by decide +kernel
theorem kindOK_expunge : kindOK .expunge = true := by decide +kernel
theorem kindOK_uidExpunge : kindOK .uidExpunge = true := by decide +kernel
theorem kindOK_store : kindOK .store = true := by decide +kernel
theorem kindOK_uidStore : kindOK .uidStore = true := by decide +kernel
theorem kindOK_copy : kindOK .copy = true := by decide +kernel
theorem kindOK_uidCopy : kindOK .uidCopy = true := by decide +kernel
theorem kindOK_move : kindOK .move = true := by decide +kernel
theorem kindOK_uidMove : kindOK .uidMove = true := by decide +kernel
theorem kindOK_search : kindOK .search = true := by decide +kernel
theorem kindOK_uidSearch : kindOK .uidSearch = true := by decide +kernel
theorem kindOK_unknown : kindOK .unknown = true := by decide +kernel
theorem kindOK_uidUnknown : kindOK .uidUnknown = true := by decide +kernel

theorem kindOK_all (k : CmdKind) : kindOK k = true := by
  cases k
  · exact kindOK_noop
  · exact kindOK_check
  · exact kindOK_logout
  · exact kindOK_capability
  · exact kindOK_starttls
  · exact kindOK_authenticate
  · exact kindOK_authCont
  · exact kindOK_authCancel
  · exact kindOK_authMech
  · exact kindOK_unauthenticate
  · exact kindOK_login
  · exact kindOK_enable
  · exact kindOK_create
  · exact kindOK_delete
  · exact kindOK_rename
  · exact kindOK_subscribe
  · exact kindOK_unsubscribe
  · exact kindOK_status
  · exact kindOK_list
  · exact kindOK_lsub
  · exact kindOK_namespace
  · exact kindOK_idle
  · exact kindOK_select
  · exact kindOK_examine
  · exact kindOK_close
  · exact kindOK_unselect
  · exact kindOK_append
  · exact kindOK_fetch
  · exact kindOK_uidFetch
  · exact kindOK_expunge
  · exact kindOK_uidExpunge
  · exact kindOK_store
  · exact kindOK_uidStore
  · exact kindOK_copy
  · exact kindOK_uidCopy
  · exact kindOK_move
  · exact kindOK_uidMove
  · exact kindOK_search
  · exact kindOK_uidSearch
  · exact kindOK_unknown
  · exact kindOK_uidUnknown

theorem stepOK_table (cfg : Cfg) (c : Conn) (hc : c.closed = false) (k : CmdKind) (o : Outcome) :
    stepOK (norm cfg) c k o = true := by
  have h := kindOK_all k
  have h1 := forall_of_all _ mem_allBool _ h cfg.ins
  have h2 := forall_of_all _ mem_allBool _ h1 cfg.full
  have h3 := forall_of_all _ mem_allBool _ h2 cfg.stls
  have h4 := List.all_eq_true.mp h3 c (mem_openConn c hc)
  exact forall_of_all _ mem_allOutcome _ h4 o

theorem rfcAllowed_norm (cfg : Cfg) (c : RConn) (k : CmdKind) (o : Outcome) (s : St) :
    rfcAllowed cfg c k o s = rfcAllowed (norm cfg) c k o s := rfl

theorem stepOK_norm (cfg : Cfg) (c : Conn) (k : CmdKind) (o : Outcome) : stepOK cfg c k o = stepOK (norm cfg) c k o := by
  simp only [stepOK, gateOK, credsOK, refineOK, ← step_norm, ← rfcStep_norm, ← rfcAllowed_norm, ← credsAllowed_norm]

theorem stepOK_all (cfg : Cfg) (c : Conn) (k : CmdKind) (o : Outcome) : stepOK cfg c k o = true := by
  cases hc : c.closed
  · rw [stepOK_norm]; exact stepOK_table cfg c hc k o
  · simp [stepOK, gateOK, credsOK, refineOK, step_closed cfg c k o hc, hc]

theorem step_gate (cfg : Cfg) (c : Conn) (k : CmdKind) (o : Outcome) :
    ∀ call ∈ (step cfg c k o).calls, Permitted call.2 call.1 = true := by
  have h := stepOK_all cfg c k o
  simp only [stepOK, Bool.and_eq_true] at h
  exact List.all_eq_true.mp h.1.1

theorem step_creds (cfg : Cfg) (c : Conn) (k : CmdKind) (o : Outcome) (s : St)
    (h : (SessionCall.login, s) ∈ (step cfg c k o).calls) : c.tls = true ∨ cfg.ins = true := by
  have ht := stepOK_all cfg c k o
  simp only [stepOK, Bool.and_eq_true] at ht
  have := List.all_eq_true.mp ht.1.2 _ h
  simpa [credsAllowed, SessionCall.isLogin] using this

theorem refine_step (cfg : Cfg) (c : Conn) (k : CmdKind) (o : Outcome) : refineOK cfg c k o = true := by
  have h := stepOK_all cfg c k o
  simp only [stepOK, Bool.and_eq_true] at h
  exact h.2

/-- inputs the harness cannot tell apart give the same table entry -/
def hasPrincipal : CmdKind → Bool
  | .noop | .check | .logout | .capability | .starttls | .authCancel | .authMech | .enable | .unknown | .uidUnknown => false
  | _ => true

def hasAux : CmdKind → Bool
  | .select | .examine | .close => true
  | _ => false

theorem step_no_aux (cfg : Cfg) (c : Conn) (k : CmdKind) (h : hasAux k = false) :
    step cfg c k .auxErr = step cfg c k .backendOk := by
  cases k <;> first | rfl | exact absurd h (by decide)

theorem step_no_principal (cfg : Cfg) (c : Conn) (k : CmdKind) (h : hasPrincipal k = false) :
    step cfg c k .backendErr = step cfg c k .backendOk := by
  cases k <;> first | rfl | exact absurd h (by decide)

theorem step_unknown_parse (cfg : Cfg) (c : Conn) (k : CmdKind) (h : isUnknown k = true) :
    step cfg c k .parseErr = step cfg c k .backendOk := by
  cases k <;> first | rfl | exact absurd h (by decide)

/-! ### lifting over histories -/

/-- the history's steps together with the connection each one started from -/
def runPre (cfg : Cfg) : Conn → Hist → List (Conn × CmdKind × Outcome × Out)
  | _, [] => []
  | c, (k, o) :: h => let r := step cfg c k o; (c, k, o, r) :: runPre cfg r.conn h

theorem runPre_outs (cfg : Cfg) (c : Conn) (h : Hist) : (runPre cfg c h).map (·.2.2.2) = runFrom cfg c h := by
  induction h generalizing c with
  | nil => rfl
  | cons x h ih => obtain ⟨k, o⟩ := x; simp [runPre, runFrom, ih]

theorem runPre_step (cfg : Cfg) (c : Conn) (h : Hist) :
    ∀ e ∈ runPre cfg c h, e.2.2.2 = step cfg e.1 e.2.1 e.2.2.1 := by
  induction h generalizing c with
  | nil => intro e he; simp [runPre] at he
  | cons x h ih =>
    obtain ⟨k, o⟩ := x
    intro e he
    simp only [runPre, List.mem_cons] at he
    rcases he with rfl | he
    · rfl
    · exact ih _ e he

theorem gate_from (cfg : Cfg) (c : Conn) (h : Hist) :
    ∀ call ∈ callsWithState (runFrom cfg c h), Permitted call.2 call.1 = true := by
  induction h generalizing c with
  | nil => intro call hc; simp [runFrom, callsWithState] at hc
  | cons x h ih =>
    obtain ⟨k, o⟩ := x
    intro call hc
    simp only [runFrom, callsWithState, List.flatMap_cons, List.mem_append] at hc
    rcases hc with hc | hc
    · exact step_gate cfg c k o call hc
    · exact ih _ call hc

theorem wf_greet (cfg : Cfg) : Wf (greet cfg) = true := by
  cases h : cfg.pre <;> simp [Wf, greet, h, St.isLogout]

theorem view_greet (cfg : Cfg) : view (greet cfg) = rfcInit cfg := by
  cases h : cfg.pre <;> simp [view, greet, rfcInit, obsSt, h]

/-- the relation between a trace of observable states and the RFC diagram -/
def RfcTraceOK (cfg : Cfg) : RConn → Hist → List St → Prop
  | _, [], [] => True
  | rc, (k, o) :: h, s :: tr => rfcAllowed cfg rc k o s = true ∧ RfcTraceOK cfg ⟨s, (rfcStep cfg rc k o).tls⟩ h tr
  | _, _, _ => False

theorem rfcStep_logout (cfg : Cfg) (rc : RConn) (k : CmdKind) (o : Outcome) (h : rc.st = .logout) :
    rfcStep cfg rc k o = rc := by
  simp [rfcStep, h, St.isLogout]

/-- once the connection is closed the model stays closed and the RFC trace stays in logout -/
theorem trace_closed (cfg : Cfg) (c : Conn) (hc : c.closed = true) (t : Bool) (h : Hist) :
    RfcTraceOK cfg ⟨.logout, t⟩ h (stateTrace (runFrom cfg c h)) := by
  induction h with
  | nil => simp [runFrom, stateTrace, RfcTraceOK]
  | cons x h ih =>
    obtain ⟨k, o⟩ := x
    simp only [runFrom, stateTrace, List.map_cons, step_closed cfg c k o hc, RfcTraceOK]
    refine ⟨by simp [rfcAllowed, rfcStep_logout, obsSt, hc, St.same], ?_⟩
    have : (rfcStep cfg ⟨.logout, t⟩ k o).tls = t := by rw [rfcStep_logout cfg _ k o rfl]
    rw [this]
    have hobs : obsSt c = .logout := by simp [obsSt, hc]
    rw [hobs]
    exact ih

theorem trace_from (cfg : Cfg) (c : Conn) (hw : Wf c = true) (h : Hist) :
    RfcTraceOK cfg (view c) h (stateTrace (runFrom cfg c h)) := by
  induction h generalizing c with
  | nil => simp [runFrom, stateTrace, RfcTraceOK]
  | cons x h ih =>
    obtain ⟨k, o⟩ := x
    by_cases hc : c.closed = true
    · have := trace_closed cfg c hc c.tls ((k, o) :: h)
      have hv : view c = ⟨.logout, c.tls⟩ := by simp [view, obsSt, hc]
      rw [hv]; exact this
    · have hr := refine_step cfg c k o
      simp only [refineOK, hw, Bool.not_true, Bool.false_or] at hr
      have hc' : c.closed = false := by simpa using hc
      simp only [hc', Bool.false_or, Bool.and_eq_true, Bool.or_eq_true] at hr
      obtain ⟨⟨⟨hwf, hallow⟩, htls⟩, _⟩ := hr
      simp only [runFrom, stateTrace, List.map_cons, RfcTraceOK]
      refine ⟨hallow, ?_⟩
      by_cases hcl : (step cfg c k o).conn.closed = true
      · have hobs : obsSt (step cfg c k o).conn = .logout := by simp [obsSt, hcl]
        rw [hobs]
        exact trace_closed cfg _ hcl _ h
      · have ht : (step cfg c k o).conn.tls = (rfcStep cfg (view c) k o).tls := by
          rcases htls with h1 | h1
          · exact absurd h1 hcl
          · exact (bsame_iff _ _).mp h1
        have := ih (step cfg c k o).conn hwf
        have hv : view (step cfg c k o).conn
            = ⟨obsSt (step cfg c k o).conn, (rfcStep cfg (view c) k o).tls⟩ := by
          simp only [view, ht]
        rw [hv] at this
        exact this

/-- without failing polls the trace is the RFC's function of the history -/
theorem trace_fun_from (cfg : Cfg) (c : Conn) (hw : Wf c = true) (h : Hist) (hp : ∀ e ∈ h, e.2 ≠ .pollErr)
    (rc : RConn) (hst : rc.st = obsSt c) (htls : c.closed = false → rc.tls = c.tls) :
    stateTrace (runFrom cfg c h) = rfcTraceFrom cfg rc h := by
  induction h generalizing c rc with
  | nil => rfl
  | cons x h ih =>
    obtain ⟨k, o⟩ := x
    have hp' : ∀ e ∈ h, e.2 ≠ .pollErr := fun e he => hp e (List.mem_cons_of_mem _ he)
    have ho : o ≠ .pollErr := hp (k, o) (List.mem_cons_self ..)
    simp only [runFrom, stateTrace, List.map_cons, rfcTraceFrom]
    by_cases hc : c.closed = true
    · have hlo : rc.st = .logout := by simp [hst, obsSt, hc]
      rw [step_closed cfg c k o hc, rfcStep_logout cfg rc k o hlo]
      have := ih c hw hp' rc hst htls
      simp only [stateTrace] at this
      rw [this]
      simp [obsSt, hc, hlo]
    · have hc' : c.closed = false := by simpa using hc
      have hrc : rc = view c := by
        obtain ⟨s, t⟩ := rc
        simp only [view, RConn.mk.injEq]
        exact ⟨hst, htls hc'⟩
      subst hrc
      have hr := refine_step cfg c k o
      simp only [refineOK, hw, Bool.not_true, Bool.false_or, hc', Bool.and_eq_true, Bool.or_eq_true] at hr
      obtain ⟨⟨⟨hwf, _⟩, htl⟩, hfun⟩ := hr
      have hs : obsSt (step cfg c k o).conn = (rfcStep cfg (view c) k o).st := by
        rcases hfun with h1 | h1
        · exact absurd ((isPollErr_iff o).mp h1) ho
        · exact (same_iff _ _).mp h1
      have := ih (step cfg c k o).conn hwf hp' (rfcStep cfg (view c) k o) hs.symm (by
        intro hcl
        rcases htl with h1 | h1
        · rw [hcl] at h1; exact absurd h1 (by simp)
        · exact ((bsame_iff _ _).mp h1).symm)
      simp only [stateTrace] at this
      rw [this, hs]

/-! ### capability advertisement -/

def capsOK (cfg : Cfg) (c : Conn) : Bool :=
  c.closed ||
    (bsame ((availableCaps cfg c).any Cap.isAuthPlain) (wantAuthPlain cfg (view c))
     && bsame ((availableCaps cfg c).any Cap.isLoginDisabled) (wantLoginDisabled cfg (view c))
     && bsame ((availableCaps cfg c).any Cap.isStartTLS) (wantStartTLS cfg (view c)))

def allCfg : List Cfg :=
  allBool.flatMap fun t => allBool.flatMap fun i => allBool.flatMap fun p => allBool.flatMap fun f =>
    allBool.flatMap fun s => allCapsMode.map fun m => ⟨t, i, p, f, s, m⟩

theorem mem_allCfg (cfg : Cfg) : cfg ∈ allCfg := by
  obtain ⟨t, i, p, f, s, m⟩ := cfg
  cases t <;> cases i <;> cases p <;> cases f <;> cases s <;> cases m <;> decide

theorem caps_table : (allCfg.all fun cfg => allConn.all fun c => capsOK cfg c) = true := by decide +kernel

theorem caps_ok (cfg : Cfg) (c : Conn) : capsOK cfg c = true :=
  forall_of_all _ mem_allConn _ (forall_of_all _ mem_allCfg _ caps_table cfg) c

end GoImap.ServerLemmas
