import GoImap.Lemmas.ClientConcReader
import GoImap.Lemmas.ClientConcMeasure
/-!
  C13: `Close` returns. While the closer thread has not finished, the reader or the closer itself
  can take a step (they are never blocked once `Close` has closed the connection), every step of
  any thread strictly decreases the measure `mu`, hence these two threads alone bring every
  reachable state to one in which `Close` has returned, in at most `mu` steps.
-/
namespace GoImap.ClientConc

theorem run_append (v : Variant) (s : St) (a b : List Nat) : run v s (a ++ b) = run v (run v s a) b := by
  unfold run; rw [List.foldl_append]

/-- the invariants the progress argument uses, for variants that initialise before registering -/
structure CloseCtx (s : St) : Prop where
  rd : RdInv s
  closer : CloserInv s
  send : SendInv s
  once : Once s

theorem closeCtx_step (v : Variant) (hv : v.initFirst = true) (s : St) (t : Nat) (h : CloseCtx s) :
    CloseCtx (step v s t) :=
  ⟨rdInv_step v s t h.rd, closerInv_step v s t h.closer, sendInv_step v hv s t h.once h.send,
    once_step v s t h.once⟩

theorem closeCtx_run (v : Variant) (hv : v.initFirst = true) (sched : List Nat) (s : St) (h : CloseCtx s) :
    CloseCtx (run v s sched) := by
  induction sched generalizing s with
  | nil => exact h
  | cons t ts ih => exact ih (step v s t) (closeCtx_step v hv s t h)

theorem closeCtx_init (v : Variant) (sc : Scenario) : CloseCtx (init v sc) :=
  ⟨rdInv_init v sc, closerInv_init v sc, sendInv_init v sc, once_init v sc⟩

/-- progress: as long as `Close` has not returned, the reader or the closer is enabled -/
theorem closer_progress (v : Variant) (s : St) (h : CloseCtx s) (hcr : s.crashed = false)
    (hne : s.prog tCloser ≠ []) : enabled v s tReader = true ∨ enabled v s tCloser = true := by
  match hp : s.prog tCloser with
  | [] => exact absurd hp hne
  | i :: rest =>
    rcases h.closer.instrs i (by rw [hp]; exact List.mem_cons_self) with e | e
    · right
      exact closer_enabled v s h.closer hcr hne (Or.inr (by rw [hp, e]; rfl))
    · -- waiting for decCh: Close has closed the connection, the reader cannot be blocked
      have hflag : s.closedFlag = true := by
        rcases h.closer.begun with b | b
        · exact b
        · rw [hp, e] at b; exact absurd rfl b
      have hconn := h.closer.closed hflag
      by_cases hr : s.prog tReader = []
      · right
        have hl := h.rd.last
        rw [hr] at hl
        exact closer_enabled v s h.closer hcr hne (Or.inl hl.1)
      · left
        exact reader_enabled v s h.rd h.send h.once hcr hconn hr

/-- from every reachable state the reader and the closer alone make `Close` return (or the process
    has crashed), in at most `mu` steps -/
theorem close_returns_from (v : Variant) (hv : v.initFirst = true) :
    ∀ n (s : St), CloseCtx s → mu s ≤ n →
      ∃ sched : List Nat, (∀ t, t ∈ sched → t = tReader ∨ t = tCloser) ∧ sched.length ≤ n ∧
        ((run v s sched).prog tCloser = [] ∨ (run v s sched).crashed = true) := by
  intro n
  induction n with
  | zero =>
    intro s h hmu
    by_cases hcr : s.crashed = true
    · exact ⟨[], (fun _ ht => (List.not_mem_nil ht).elim), Nat.le_refl _, Or.inr hcr⟩
    · by_cases hne : s.prog tCloser = []
      · exact ⟨[], (fun _ ht => (List.not_mem_nil ht).elim), Nat.le_refl _, Or.inl hne⟩
      · have hcr' : s.crashed = false := by simpa using hcr
        rcases closer_progress v s h hcr' hne with e | e
        · have := step_decreases v s tReader e; omega
        · have := step_decreases v s tCloser e; omega
  | succ n ih =>
    intro s h hmu
    by_cases hcr : s.crashed = true
    · exact ⟨[], (fun _ ht => (List.not_mem_nil ht).elim), Nat.zero_le _, Or.inr hcr⟩
    · by_cases hne : s.prog tCloser = []
      · exact ⟨[], (fun _ ht => (List.not_mem_nil ht).elim), Nat.zero_le _, Or.inl hne⟩
      · have hcr' : s.crashed = false := by simpa using hcr
        have key : ∀ t, (t = tReader ∨ t = tCloser) → enabled v s t = true →
            ∃ sched : List Nat, (∀ u, u ∈ sched → u = tReader ∨ u = tCloser) ∧ sched.length ≤ n + 1 ∧
              ((run v s sched).prog tCloser = [] ∨ (run v s sched).crashed = true) := by
          intro t ht he
          have hd := step_decreases v s t he
          obtain ⟨sch, h1, h2, h3⟩ := ih (step v s t) (closeCtx_step v hv s t h) (by omega)
          refine ⟨t :: sch, ?_, by simp only [List.length_cons]; omega, ?_⟩
          · intro u hu
            rcases List.mem_cons.mp hu with e | e
            · rw [e]; exact ht
            · exact h1 u e
          · exact h3
        rcases closer_progress v s h hcr' hne with e | e
        · exact key tReader (Or.inl rfl) e
        · exact key tCloser (Or.inr rfl) e

end GoImap.ClientConc
