/-
  Canonical form as a Prop (`CanonFrom`, `Canon`), its equivalence with the executable
  `NumSetSpec.canonical`, and its basic structural lemmas.
-/
import GoImap.Spec.NumSet
import GoImap.Lemmas.NumSetMerge
namespace GoImap.NumSet
open GoImap.NumSetSpec

/-- canonical form above the bound `lo`: every element well formed; every element but the last
    is static; starts are above the previous stop plus one (a trailing "*" is exempt) -/
def CanonFrom (lo : Nat) : Set → Prop
  | [] => True
  | r :: rest =>
    r.WF ∧ (r.start = 0 ∨ lo < r.start) ∧ (rest ≠ [] → r.stop ≠ 0) ∧ CanonFrom (r.stop + 1) rest

def Canon (s : Set) : Prop := CanonFrom 0 s

theorem canonFrom_single_iff (lo : Nat) (r : Range) :
    canonicalFrom lo [r] = true ↔ r.WF ∧ (r.start = 0 ∨ lo < r.start) := by
  obtain ⟨a, b⟩ := r
  simp only [canonicalFrom, NumSetSpec.Range.isStatic, Range.WF, ne_eq, Bool.and_eq_true,
    Bool.or_eq_true, decide_eq_true_eq]
  simp only [W]
  omega

theorem canonFrom_cons_iff (lo : Nat) (r r' : Range) (rest : Set) :
    canonicalFrom lo (r :: r' :: rest) = true ↔
      (r.WF ∧ (r.start = 0 ∨ lo < r.start) ∧ r.stop ≠ 0) ∧
        canonicalFrom (r.stop + 1) (r' :: rest) = true := by
  obtain ⟨a, b⟩ := r
  simp only [canonicalFrom, NumSetSpec.Range.isStatic, Range.WF, ne_eq, Bool.and_eq_true,
    decide_eq_true_eq]
  simp only [W]
  constructor
  · rintro ⟨h1, h2⟩
    refine ⟨by omega, h2⟩
  · rintro ⟨h1, h2⟩
    refine ⟨by omega, h2⟩

theorem canonFrom_iff (s : Set) : ∀ lo, canonicalFrom lo s = true ↔ CanonFrom lo s := by
  induction s with
  | nil => intro lo; simp [canonicalFrom, CanonFrom]
  | cons r rest ih =>
    intro lo
    cases rest with
    | nil =>
      rw [canonFrom_single_iff]
      simp [CanonFrom]
    | cons r' rest' =>
      rw [canonFrom_cons_iff, ih (r.stop + 1)]
      simp only [CanonFrom, ne_eq, reduceCtorEq, not_false_eq_true, forall_const, and_assoc]

theorem canonical_iff (s : Set) : canonical s = true ↔ Canon s := canonFrom_iff s 0

theorem CanonFrom.anti {s : Set} {lo lo' : Nat} (h : CanonFrom lo s) (hle : lo' ≤ lo) :
    CanonFrom lo' s := by
  cases s with
  | nil => trivial
  | cons r rest =>
    obtain ⟨h1, h2, h3, h4⟩ := h
    exact ⟨h1, by omega, h3, h4⟩

theorem CanonFrom.tail {r : Range} {rest : Set} {lo : Nat} (h : CanonFrom lo (r :: rest)) :
    CanonFrom (r.stop + 1) rest := h.2.2.2

theorem CanonFrom.canon {s : Set} {lo : Nat} (h : CanonFrom lo s) : Canon s :=
  h.anti (Nat.zero_le _)

/-- every element of a canonical list is well formed -/
theorem CanonFrom.wf {s : Set} : ∀ {lo : Nat}, CanonFrom lo s → ∀ r ∈ s, r.WF := by
  induction s with
  | nil => intro lo _ r hr; cases hr
  | cons a rest ih =>
    intro lo h r hr
    rcases List.mem_cons.1 hr with rfl | hr'
    · exact h.1
    · exact ih h.tail r hr'

/-- every start is `0` ("*") or above the bound -/
theorem CanonFrom.starts {s : Set} : ∀ {lo : Nat}, CanonFrom lo s →
    ∀ r ∈ s, r.start = 0 ∨ lo < r.start := by
  induction s with
  | nil => intro lo _ r hr; cases hr
  | cons a rest ih =>
    intro lo h r hr
    rcases List.mem_cons.1 hr with rfl | hr'
    · exact h.2.1
    · have hne : rest ≠ [] := List.ne_nil_of_mem hr'
      have h3 := h.2.2.1 hne
      have hw := h.1
      have h2 := h.2.1
      have := ih h.tail r hr'
      unfold Range.WF at hw
      omega

/-- change of the lower bound, given the head's start -/
theorem CanonFrom.relo {r : Range} {rest : Set} {lo lo' : Nat} (h : CanonFrom lo (r :: rest))
    (h' : r.start = 0 ∨ lo' < r.start) : CanonFrom lo' (r :: rest) :=
  ⟨h.1, h', h.2.2.1, h.2.2.2⟩

end GoImap.NumSet
