/-
  C08 helper lemmas, part 1: rendering of dequeued updates, polls of a connection.
-/
import GoImap.Model.Views
import GoImap.Spec.Views
import GoImap.Lemmas.TrackerBasic
namespace GoImap.ViewsLemmas
open GoImap.Tracker GoImap.Views GoImap.ViewsSpec

/-- run a history of (connection, command) pairs, collecting the responses -/
def runAll (v : Variant) : Views.St → List (Nat × Cmd) → Views.St × List Resp
  | st, [] => (st, [])
  | st, (c, k) :: r => ((runAll v (exec v st c k).1 r).1, (exec v st c k).2 :: (runAll v (exec v st c k).1 r).2)

/-- rendering never invents an EXPUNGE -/
theorem render_no_expunge : ∀ (us : List Upd) (p : List (Nat × Nat)),
    (∀ u ∈ us, ∀ k, u ≠ Upd.expunge k) → ∀ k, Ev.expunge k ∉ (render us p).1
  | [], p, _, k => by simp [render]
  | .expunge j :: us, p, h, k => absurd rfl (h _ List.mem_cons_self j)
  | .exists_ a n :: us, p, h, k => by
    simp only [render, List.mem_cons, not_or]
    exact ⟨(by intro hh; cases hh), render_no_expunge us p (fun u hu => h u (List.mem_cons_of_mem _ hu)) k⟩
  | .mflags :: us, p, h, k => by
    simp only [render]
    exact render_no_expunge us p (fun u hu => h u (List.mem_cons_of_mem _ hu)) k
  | .fetch a :: us, (u, f) :: p, h, k => by
    simp only [render, List.mem_cons, not_or]
    exact ⟨(by intro hh; cases hh), render_no_expunge us p (fun u hu => h u (List.mem_cons_of_mem _ hu)) k⟩
  | .fetch a :: us, [], h, k => by
    simp only [render, List.mem_cons, not_or]
    exact ⟨(by intro hh; cases hh), render_no_expunge us [] (fun u hu => h u (List.mem_cons_of_mem _ hu)) k⟩

/-- what `pollConn` returns, spelled out -/
theorem pollConn_some {st st' : Views.St} {c : Nat} {allow : Bool} {evs : List Ev}
    (h : pollConn st c allow = some (st', evs)) :
    (evs = [] ∧ st' = st ∧ ∀ cn, getConn st c = some cn → cn.sel = none) ∨
    ∃ cn m b t out, getConn st c = some cn ∧ cn.sel = some m ∧ getMb st m = some b ∧
      step b.tr (.poll c allow) = some (t, out) ∧ evs = (render out cn.pay).1 ∧
      st' = setConn (setMb st m { b with tr := t }) c { cn with pay := (render out cn.pay).2 } := by
  unfold pollConn at h
  cases hc : getConn st c with
  | none => simp only [hc, Option.some.injEq, Prod.mk.injEq] at h; exact Or.inl ⟨h.2.symm, h.1.symm, fun _ hh => by cases hh⟩
  | some cn =>
    simp only [hc] at h
    cases hs : cn.sel with
    | none =>
      simp only [hs, Option.some.injEq, Prod.mk.injEq] at h
      exact Or.inl ⟨h.2.symm, h.1.symm, fun cn' hh => by cases hh; exact hs⟩
    | some m =>
      simp only [hs] at h
      cases hb : getMb st m with
      | none => simp [hb] at h
      | some b =>
        simp only [hb, MBox.tstep] at h
        cases ht : step b.tr (.poll c allow) with
        | none => simp [ht] at h
        | some r =>
          obtain ⟨t, out⟩ := r
          simp only [ht, Option.some.injEq, Prod.mk.injEq] at h
          exact Or.inr ⟨cn, m, b, t, out, rfl, hs, hb, ht, h.2.symm, by rw [hs]; exact h.1.symm⟩

/-- the specification's fold over events, split at an append -/
theorem applyEvs_append {q sr : Bool} : ∀ {a : List Ev} {b : List Ev} {v v1 v2 : View},
    applyEvs q sr v a = .ok v1 → applyEvs q sr v1 b = .ok v2 → applyEvs q sr v (a ++ b) = .ok v2
  | [], b, v, v1, v2, h1, h2 => by
    simp only [applyEvs, Except.ok.injEq] at h1
    subst h1; exact h2
  | e :: a, b, v, v1, v2, h1, h2 => by
    simp only [applyEvs, List.cons_append] at h1 ⊢
    cases he : applyEv q sr v e with
    | error x => simp [he] at h1
    | ok v' =>
      simp only [he] at h1 ⊢
      exact applyEvs_append h1 h2

end GoImap.ViewsLemmas
