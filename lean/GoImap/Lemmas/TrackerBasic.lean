/-
  C07 helper lemmas, part 1: `posOf`, `deliver`, `deliverAll`, ids appended by pending updates.
-/
import GoImap.Model.Tracker
import GoImap.Spec.Tracker
namespace GoImap.TrackerLemmas
open GoImap.Tracker GoImap.TrackerSpec

/-- ids introduced by a list of pending ghost updates -/
def appended : List GUpd → List Id
  | [] => []
  | .exists_ ids :: q => ids ++ appended q
  | _ :: q => appended q

theorem appended_append (a b : List GUpd) : appended (a ++ b) = appended a ++ appended b := by
  induction a with
  | nil => rfl
  | cons u a ih => cases u <;> simp [appended, ih]

/-! ### posOf -/

theorem posOf_eq_zero_iff {x : Id} {l : List Id} : posOf x l = 0 ↔ x ∉ l := by
  unfold posOf
  by_cases h : x ∈ l <;> simp [h]

theorem posOf_le_length (x : Id) (l : List Id) : posOf x l ≤ l.length := by
  unfold posOf
  by_cases h : x ∈ l
  · have := List.idxOf_lt_length_iff.mpr h
    simp [h]; omega
  · simp [h]

theorem posOf_of_mem {x : Id} {l : List Id} (h : x ∈ l) : posOf x l = l.idxOf x + 1 := by
  unfold posOf; simp [h]

/-- a non-zero position really holds the element -/
theorem getElem?_of_posOf {x : Id} {l : List Id} {p : Nat} (h : posOf x l = p) (hp : p ≠ 0) :
    1 ≤ p ∧ p ≤ l.length ∧ l[p - 1]? = some x := by
  have hm : x ∈ l := by
    apply Classical.byContradiction; intro hn
    exact hp (h ▸ posOf_eq_zero_iff.mpr hn)
  rw [posOf_of_mem hm] at h
  have hlt := List.idxOf_lt_length_iff.mpr hm
  subst h
  refine ⟨by omega, by omega, ?_⟩
  simp only [Nat.add_sub_cancel]
  rw [List.getElem?_eq_getElem hlt, List.getElem_idxOf]

/-- in a duplicate-free list, the position of the element at index `r-1` is `r` -/
theorem posOf_of_getElem? {l : List Id} (hnd : l.Nodup) {r : Nat} {x : Id} (h1 : 1 ≤ r)
    (h : l[r - 1]? = some x) : posOf x l = r := by
  have hm : x ∈ l := List.mem_of_getElem? h
  rw [posOf_of_mem hm]
  obtain ⟨hlt, hx⟩ := List.getElem?_eq_some_iff.mp h
  have := hnd.idxOf_getElem (r - 1) hlt
  rw [hx] at this
  omega

theorem posOf_getElem {l : List Id} (hnd : l.Nodup) {r : Nat} (h1 : 1 ≤ r) (h2 : r ≤ l.length) :
    posOf (l[r - 1]'(by omega)) l = r :=
  posOf_of_getElem? hnd h1 (List.getElem?_eq_getElem (by omega))

/-! ### deliver -/

theorem deliver_expunge {v : List Id} {id : Id} {x : Upd} {v' : List Id}
    (h : deliver v (.expunge id) = some (x, v')) :
    posOf id v ≠ 0 ∧ x = .expunge (posOf id v) ∧ v' = v.eraseIdx (posOf id v - 1) := by
  simp only [deliver] at h
  split at h
  · cases h
  · rename_i hp
    simp only [Option.some.injEq, Prod.mk.injEq] at h
    exact ⟨hp, h.1.symm, h.2.symm⟩

theorem deliver_fetch {v : List Id} {id : Id} {x : Upd} {v' : List Id}
    (h : deliver v (.fetch id) = some (x, v')) :
    posOf id v ≠ 0 ∧ x = .fetch (posOf id v) ∧ v' = v := by
  simp only [deliver] at h
  split at h
  · cases h
  · rename_i hp
    simp only [Option.some.injEq, Prod.mk.injEq] at h
    exact ⟨hp, h.1.symm, h.2.symm⟩

theorem deliver_exists {v : List Id} {ids : List Id} {x : Upd} {v' : List Id}
    (h : deliver v (.exists_ ids) = some (x, v')) :
    x = .exists_ v.length (v.length + ids.length) ∧ v' = v ++ ids := by
  simp only [deliver, Option.some.injEq, Prod.mk.injEq] at h
  exact ⟨h.1.symm, h.2.symm⟩

theorem deliver_mflags {v : List Id} {x : Upd} {v' : List Id}
    (h : deliver v .mflags = some (x, v')) : x = .mflags ∧ v' = v := by
  simp only [deliver, Option.some.injEq, Prod.mk.injEq] at h
  exact ⟨h.1.symm, h.2.symm⟩

/-! ### deliverAll -/

theorem deliverAll_nil (v : List Id) : deliverAll v [] = some ([], v) := rfl

theorem deliverAll_cons (v : List Id) (u : GUpd) (us : List GUpd) :
    deliverAll v (u :: us) =
      match deliver v u with
      | none => none
      | some (x, v') =>
        match deliverAll v' us with
        | none => none
        | some (xs, v'') => some (x :: xs, v'') := by
  simp only [deliverAll]
  cases deliver v u with
  | none => rfl
  | some p =>
    obtain ⟨x, v'⟩ := p
    simp only [Option.bind_eq_bind, Option.bind_some]
    cases deliverAll v' us with
    | none => rfl
    | some r => rfl

theorem deliverAll_cons_some {v : List Id} {u : GUpd} {us : List GUpd} {q : List Upd} {m : List Id}
    (h : deliverAll v (u :: us) = some (q, m)) :
    ∃ x v' xs, deliver v u = some (x, v') ∧ deliverAll v' us = some (xs, m) ∧ q = x :: xs := by
  rw [deliverAll_cons] at h
  cases hd : deliver v u with
  | none => rw [hd] at h; cases h
  | some p =>
    obtain ⟨x, v'⟩ := p
    rw [hd] at h
    simp only at h
    cases hr : deliverAll v' us with
    | none => rw [hr] at h; cases h
    | some r =>
      obtain ⟨xs, v''⟩ := r
      rw [hr] at h
      simp only [Option.some.injEq, Prod.mk.injEq] at h
      exact ⟨x, v', xs, rfl, by rw [hr, h.2], h.1.symm⟩

theorem deliverAll_cons_of {v : List Id} {u : GUpd} {us : List GUpd} {x : Upd} {v' : List Id}
    {xs : List Upd} {m : List Id}
    (h1 : deliver v u = some (x, v')) (h2 : deliverAll v' us = some (xs, m)) :
    deliverAll v (u :: us) = some (x :: xs, m) := by
  rw [deliverAll_cons, h1]; simp only; rw [h2]

theorem deliverAll_append_of : ∀ (p1 : List GUpd) {p2 : List GUpd} {v : List Id} {q1 q2 : List Upd}
    {v1 m : List Id},
    deliverAll v p1 = some (q1, v1) → deliverAll v1 p2 = some (q2, m) →
    deliverAll v (p1 ++ p2) = some (q1 ++ q2, m)
  | [], p2, v, q1, q2, v1, m, h1, h2 => by
    simp only [deliverAll_nil, Option.some.injEq, Prod.mk.injEq] at h1
    obtain ⟨rfl, rfl⟩ := h1
    simpa using h2
  | u :: us, p2, v, q1, q2, v1, m, h1, h2 => by
    obtain ⟨x, v', xs, hd, hr, rfl⟩ := deliverAll_cons_some h1
    have := deliverAll_append_of us hr h2
    exact deliverAll_cons_of hd this

theorem deliverAll_append_some : ∀ (p1 : List GUpd) {p2 : List GUpd} {v : List Id} {q : List Upd}
    {m : List Id},
    deliverAll v (p1 ++ p2) = some (q, m) →
    ∃ q1 v1 q2, deliverAll v p1 = some (q1, v1) ∧ deliverAll v1 p2 = some (q2, m) ∧ q = q1 ++ q2
  | [], p2, v, q, m, h => ⟨[], v, q, rfl, by simpa using h, rfl⟩
  | u :: us, p2, v, q, m, h => by
    rw [List.cons_append] at h
    obtain ⟨x, v', xs, hd, hr, rfl⟩ := deliverAll_cons_some h
    obtain ⟨q1, v1, q2, h1, h2, rfl⟩ := deliverAll_append_some us hr
    exact ⟨x :: q1, v1, q2, deliverAll_cons_of hd h1, h2, rfl⟩

theorem deliverAll_singleton {v : List Id} {u : GUpd} {q : List Upd} {m : List Id}
    (h : deliverAll v [u] = some (q, m)) : ∃ x, deliver v u = some (x, m) ∧ q = [x] := by
  obtain ⟨x, v', xs, hd, hr, rfl⟩ := deliverAll_cons_some h
  simp only [deliverAll_nil, Option.some.injEq, Prod.mk.injEq] at hr
  obtain ⟨rfl, rfl⟩ := hr
  exact ⟨x, hd, rfl⟩

theorem deliverAll_singleton_of {v : List Id} {u : GUpd} {x : Upd} {m : List Id}
    (h : deliver v u = some (x, m)) : deliverAll v [u] = some ([x], m) :=
  deliverAll_cons_of h rfl

theorem deliverAll_snoc_some {p : List GUpd} {u : GUpd} {v : List Id} {q : List Upd} {m' : List Id}
    (h : deliverAll v (p ++ [u]) = some (q, m')) :
    ∃ q0 m x, deliverAll v p = some (q0, m) ∧ deliver m u = some (x, m') ∧ q = q0 ++ [x] := by
  obtain ⟨q1, v1, q2, h1, h2, rfl⟩ := deliverAll_append_some p h
  obtain ⟨x, hd, rfl⟩ := deliverAll_singleton h2
  exact ⟨q1, v1, x, h1, hd, rfl⟩

/-- one delivery: the new view is a sublist of the old view plus the ids the update brings -/
theorem deliver_sublist {v : List Id} {u : GUpd} {x : Upd} {v' : List Id}
    (h : deliver v u = some (x, v')) : v'.Sublist (v ++ appended [u]) := by
  cases u with
  | expunge id =>
    obtain ⟨_, _, rfl⟩ := deliver_expunge h
    simpa [appended] using List.eraseIdx_sublist _ _
  | exists_ ids =>
    obtain ⟨_, rfl⟩ := deliver_exists h
    simp [appended]
  | mflags =>
    obtain ⟨_, rfl⟩ := deliver_mflags h
    simp [appended]
  | fetch id =>
    obtain ⟨_, _, rfl⟩ := deliver_fetch h
    simp [appended]

/-- the view after delivering a list of updates only contains ids of the old view or appended ones,
    in the same relative order -/
theorem deliverAll_sublist : ∀ (p : List GUpd) {v : List Id} {q : List Upd} {m : List Id},
    deliverAll v p = some (q, m) → m.Sublist (v ++ appended p)
  | [], v, q, m, h => by
    simp only [deliverAll_nil, Option.some.injEq, Prod.mk.injEq] at h
    simp [appended, h.2]
  | u :: us, v, q, m, h => by
    obtain ⟨x, v', xs, hd, hr, rfl⟩ := deliverAll_cons_some h
    have h1 := deliverAll_sublist us hr
    have h2 := deliver_sublist hd
    have : appended (u :: us) = appended [u] ++ appended us := appended_append [u] us
    rw [this, ← List.append_assoc]
    exact h1.trans (List.Sublist.append h2 (List.Sublist.refl _))

theorem deliverAll_length : ∀ (p : List GUpd) {v : List Id} {q : List Upd} {m : List Id},
    deliverAll v p = some (q, m) → q.length = p.length
  | [], v, q, m, h => by
    simp only [deliverAll_nil, Option.some.injEq, Prod.mk.injEq] at h
    simp [← h.1]
  | u :: us, v, q, m, h => by
    obtain ⟨x, v', xs, hd, hr, rfl⟩ := deliverAll_cons_some h
    simp [deliverAll_length us hr]

/-! ### takeWhile / drop -/

theorem takeWhile_all {α} (p : α → Bool) : (l : List α) → ∀ x ∈ l.takeWhile p, p x = true
  | [], x, h => by simp at h
  | a :: l, x, h => by
    simp only [List.takeWhile] at h
    split at h
    · rcases List.mem_cons.mp h with rfl | h'
      · assumption
      · exact takeWhile_all p l x h'
    · simp at h

theorem takeWhile_drop {α} (p : α → Bool) : (l : List α) → l.takeWhile p ++ l.drop (l.takeWhile p).length = l
  | [] => by simp
  | a :: l => by
    simp only [List.takeWhile]
    split
    · simp [takeWhile_drop p l]
    · simp

end GoImap.TrackerLemmas
