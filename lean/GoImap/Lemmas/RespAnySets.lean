/-
  Helper lemmas for C03: COPYUID and ESEARCH with number sets that are NOT in canonical form.

  RespCodes.lean / RespSearch.lean prove the round trips for canonical sets, where the set read back is the very
  list of ranges that was printed. A backend may hand over any list of static ranges
  (`imap.UIDSet{{5,9},{1,3},{2,4}}`: unsorted, overlapping, `start > stop`); `Set.String()` prints the ranges as they
  are and the client's `imapnum.ParseSet` normalises, so the delivered set is another list with the SAME MEMBERS
  (`RespSpec.memRanges`, membership in a range in either orientation, RFC 3501 "2:4 and 4:2 are equivalent").
  The bridge is `GoImap.C15.parse_sound`: the printed text is an RFC `sequence-set` (`any_seqSetText`) and
  `ParseSet` denotes it.
-/
import GoImap.Lemmas.RespCodes
import GoImap.Lemmas.RespSearch
import GoImap.Props.C15
namespace GoImap.Resp

/-! ### 1. the text of any static set is an RFC sequence-set denoting it -/

/-- every range has both ends in `1 .. 2^32-1` (no `*`), in any order -/
def any_Static (s : NumSet.Set) : Prop :=
  ∀ r ∈ s, 0 < r.start ∧ r.start < 4294967296 ∧ 0 < r.stop ∧ r.stop < 4294967296

/-- the executable `RespSpec.staticSet` implies `any_Static` -/
theorem any_Static_of (s : NumSet.Set) (h : RespSpec.staticSet s = true) : any_Static s := by
  intro r hr
  have h1 := List.all_eq_true.mp h r hr
  simp only [Bool.and_eq_true, bne_iff_ne, ne_eq, decide_eq_true_eq] at h1
  omega

theorem any_seqNumber_digits (n : Nat) (h0 : 0 < n) (hW : n < 4294967296) :
    NumSetSpec.seqNumber (NumSet.digits n) = some n := by
  rw [← NumSet.parseNum_eq_seqNumber]
  exact NumSet.parseNum_digits n h0 hW

/-- `n` (for `start = stop`) and `a:b` are the RFC items `(n, n)` and `(a, b)` -/
theorem any_seqItem (r : NumSet.Range)
    (h : 0 < r.start ∧ r.start < 4294967296 ∧ 0 < r.stop ∧ r.stop < 4294967296) :
    NumSetSpec.seqItem r.toChars = some (r.start, r.stop) := by
  have hd := fun n => NumSet.digits_no n ':' NumSet.not_isDig_colon
  obtain ⟨a, b⟩ := r
  simp only at h
  obtain ⟨h1, h2, h3, h4⟩ := h
  rcases NumSet.toChars_cases ⟨a, b⟩ with ⟨h0, _⟩ | ⟨_, he, e⟩ | ⟨_, _, h0, _⟩ | ⟨_, _, _, e⟩
  · simp only at h0; omega
  · rw [e]
    simp only at he ⊢
    subst he
    have hs := NumSet.splitOn_not_mem ':' _ (hd a)
    have e1 : NumSetSpec.seqItem (NumSet.digits a) = (NumSetSpec.seqNumber (NumSet.digits a)).map fun n => (n, n) := by
      unfold NumSetSpec.seqItem; rw [hs]
    rw [e1, any_seqNumber_digits a h1 h2]
    rfl
  · simp only at h0; omega
  · rw [e]
    simp only
    have hs : NumSet.splitOn ':' (NumSet.digits a ++ ':' :: NumSet.digits b) = [NumSet.digits a, NumSet.digits b] := by
      rw [NumSet.splitOn_append ':' _ _ (hd a), NumSet.splitOn_not_mem ':' _ (hd b)]
    have e1 : NumSetSpec.seqItem (NumSet.digits a ++ ':' :: NumSet.digits b) =
        match NumSetSpec.seqNumber (NumSet.digits a), NumSetSpec.seqNumber (NumSet.digits b) with
        | some x, some y => some (x, y)
        | _, _ => none := by
      unfold NumSetSpec.seqItem; rw [hs]
      rfl
    rw [e1, any_seqNumber_digits a h1 h2, any_seqNumber_digits b h3 h4]

theorem any_mapM_seqItem (s : NumSet.Set) (h : any_Static s) :
    (s.map NumSet.Range.toChars).mapM NumSetSpec.seqItem = some (s.map fun r => (r.start, r.stop)) := by
  induction s with
  | nil => rfl
  | cons r t ih =>
    rw [List.map_cons, NumSet.mapM_cons_opt, any_seqItem r (h r (by simp)), ih (fun x hx => h x (by simp [hx]))]
    rfl

/-- the C15 reading of an item and `memRanges` agree on positive ends: both take `a:b` in either orientation -/
theorem any_memItem (a b q : Nat) (ha : 0 < a) (hb : 0 < b) :
    (if a = b then (a ≠ 0 && a = q : Bool) else NumSetSpec.memRange a b q) =
      ((a ≤ q && q ≤ b) || (b ≤ q && q ≤ a)) := by
  have ha' : ¬ a = 0 := by omega
  have hb' : ¬ b = 0 := by omega
  by_cases hab : a = b
  · subst hab
    rw [if_pos rfl, Bool.eq_iff_iff]
    simp only [Bool.and_eq_true, Bool.or_eq_true, decide_eq_true_eq, ne_eq]
    omega
  · rw [if_neg hab]
    unfold NumSetSpec.memRange
    simp only [ha', hb', decide_false, Bool.false_and, Bool.false_eq_true, if_false]
    rw [Bool.eq_iff_iff]
    simp only [Bool.and_eq_true, Bool.or_eq_true, decide_eq_true_eq]
    omega

theorem any_memText (s : NumSet.Set) (h : any_Static s) (q : Nat) :
    NumSetSpec.memText (s.map fun r => (r.start, r.stop)) q = RespSpec.memRanges s q := by
  induction s with
  | nil => rfl
  | cons r t ih =>
    have hr := h r (by simp)
    have iht := ih (fun x hx => h x (by simp [hx]))
    unfold NumSetSpec.memText RespSpec.memRanges at iht ⊢
    rw [List.map_cons, List.any_cons, List.any_cons, iht]
    congr 1
    exact any_memItem r.start r.stop q hr.1 hr.2.2.1

theorem any_starText (s : NumSet.Set) (h : any_Static s) :
    NumSetSpec.starText (s.map fun r => (r.start, r.stop)) = false := by
  unfold NumSetSpec.starText
  rw [Bool.eq_false_iff]
  intro ha
  rw [List.any_eq_true] at ha
  obtain ⟨x, hx, hb⟩ := ha
  obtain ⟨r, hr, rfl⟩ := List.mem_map.mp hx
  have := h r hr
  simp only [Bool.or_eq_true, decide_eq_true_eq] at hb
  omega

/-- `Set.String()` of any non-empty static set is an RFC `sequence-set`; its items are the ranges as given, it has
    the members of the set (for every `q`, also outside `1 .. 2^32-1`) and no `*` -/
theorem any_seqSetText (s : NumSet.Set) (hne : s ≠ []) (h : any_Static s) :
    ∃ items, NumSetSpec.seqSetText (NumSet.toChars s) = some items ∧
      (∀ q, NumSetSpec.memText items q = RespSpec.memRanges s q) ∧ NumSetSpec.starText items = false := by
  refine ⟨s.map fun r => (r.start, r.stop), ?_, any_memText s h, any_starText s h⟩
  unfold NumSetSpec.seqSetText
  rw [NumSet.splitOn_toChars s hne]
  exact any_mapM_seqItem s h

/-! ### 2. reading it back -/

/-- `imapnum.ParseSet` on the printed text: a canonical static set with the same members -/
theorem any_parseSet (s : NumSet.Set) (hne : s ≠ []) (h : any_Static s) :
    ∃ s', NumSet.parseSet (NumSet.toChars s) = some s' ∧ NumSetSpec.canonical s' = true ∧ NumSet.dynamic s' = false ∧
      ∀ q, 0 < q → q < 4294967296 → NumSet.contains s' q = RespSpec.memRanges s q := by
  obtain ⟨items, hi, hm, hstar⟩ := any_seqSetText s hne h
  obtain ⟨s', hp, hc, hcont, hdyn⟩ := (GoImap.C15.parse_sound (NumSet.toChars s)).2 items hi
  refine ⟨s', hp, hc, by rw [hdyn, hstar], ?_⟩
  intro q hq hqW
  rw [hcont q hq hqW, hm q]

/-- the printed text of `s` is read by Decoder.ExpectNumSet as the static set `s'`, whatever follows the span -/
def any_Reads (s s' : NumSet.Set) : Prop :=
  s ≠ [] ∧ NumSet.dynamic s' = false ∧
  ∀ r, StopsAt (fun c => decide (c = 42) || isAtomChar c) r →
    decNumSetText ((NumSet.toChars s).map Char.toNat ++ r) = some (s', r)

theorem any_setText_ne_nil (s : NumSet.Set) (hne : s ≠ []) : (NumSet.toChars s).map Char.toNat ≠ [] :=
  search_setText_ne s hne

/-- one set `s'` (independent of what follows) is what `ExpectNumSet` reads, and it has the members of `s` -/
theorem any_reads (s : NumSet.Set) (hne : s ≠ []) (h : any_Static s) :
    ∃ s', any_Reads s s' ∧ NumSetSpec.canonical s' = true ∧
      ∀ q, 0 < q → q < 4294967296 → NumSet.contains s' q = RespSpec.memRanges s q := by
  obtain ⟨s', hp, hc, hdyn, hmem⟩ := any_parseSet s hne h
  refine ⟨s', ⟨hne, hdyn, ?_⟩, hc, hmem⟩
  intro r hr
  unfold decNumSetText
  rw [spanB_append _ _ _ (codes_setText_ok s) hr]
  cases hd : (NumSet.toChars s).map Char.toNat with
  | nil => exact absurd hd (any_setText_ne_nil s hne)
  | cons a l =>
    simp only []
    rw [← hd, codes_map_ofNat_toNat, hp]
    rfl

theorem any_decNumSetText (s : NumSet.Set) (hne : s ≠ []) (h : any_Static s) (r : Str)
    (hr : StopsAt (fun c => decide (c = 42) || isAtomChar c) r) :
    ∃ s', decNumSetText ((NumSet.toChars s).map Char.toNat ++ r) = some (s', r) ∧ NumSet.dynamic s' = false ∧
      ∀ q, 0 < q → q < 4294967296 → NumSet.contains s' q = RespSpec.memRanges s q := by
  obtain ⟨s', hrd, _, hmem⟩ := any_reads s hne h
  exact ⟨s', hrd.2.2 r hr, hrd.2.1, hmem⟩

/-! ### 3. COPYUID with arbitrary static sets -/

/-- copy.go readRespCodeCopyUID on what writeCopyOK wrote between `COPYUID ` and `]`: `codes_readCopyUID` with the
    `ExpectNumSet` steps abstracted -/
theorem any_readCopyUID (v : Nat) (hv : v < 4294967296) (src src' dst dst' : NumSet.Set)
    (hs : any_Reads src src') (hd : any_Reads dst dst') (rest : Str) :
    readCopyUID (encNumber v ++ 32 :: ((NumSet.toChars src).map Char.toNat ++
        32 :: ((NumSet.toChars dst).map Char.toNat ++ 93 :: rest))) =
      some (Code.copyUID v src' dst', 93 :: rest) := by
  have h1 := decNumber_encNumber v hv
    (32 :: ((NumSet.toChars src).map Char.toNat ++ 32 :: ((NumSet.toChars dst).map Char.toNat ++ 93 :: rest)))
    (StopsAt.cons _ (by decide))
  have h2 := codes_expectSP_of ((NumSet.toChars src).map Char.toNat)
    (32 :: ((NumSet.toChars dst).map Char.toNat ++ 93 :: rest)) (any_setText_ne_nil src hs.1) (codes_setText_noeol src)
  have h3 := hs.2.2 (32 :: ((NumSet.toChars dst).map Char.toNat ++ 93 :: rest)) (StopsAt.cons _ (by decide))
  have h4 := codes_expectSP_of ((NumSet.toChars dst).map Char.toNat) (93 :: rest)
    (any_setText_ne_nil dst hd.1) (codes_setText_noeol dst)
  have h5 := hd.2.2 (93 :: rest) (StopsAt.cons _ (by decide))
  simp [readCopyUID, h1, h2, h3, h4, h5, hs.2.1, hd.2.1]

/-- the printed COPYUID code followed by the text, after `OK` -/
theorem any_readRespText_copyCode (tagged : Bool) (d : CopyData) (hv : d.uidValidity < 4294967296)
    (src' dst' : NumSet.Set) (hs : any_Reads d.src src') (hd : any_Reads d.dst dst')
    (text rest : Str) (hx : IsText text) :
    readRespText tagged (32 :: (asc "[COPYUID " ++ encNumber d.uidValidity ++ [32] ++ (NumSet.toChars d.src).map Char.toNat ++
      [32] ++ (NumSet.toChars d.dst).map Char.toNat ++ asc "] " ++ text ++ 13 :: 10 :: rest)) =
      some (Code.copyUID d.uidValidity src' dst', 13 :: 10 :: rest) := by
  have e : 32 :: (asc "[COPYUID " ++ encNumber d.uidValidity ++ [32] ++ (NumSet.toChars d.src).map Char.toNat ++
      [32] ++ (NumSet.toChars d.dst).map Char.toNat ++ asc "] " ++ text ++ 13 :: 10 :: rest) =
      32 :: 91 :: (asc "COPYUID" ++ 32 :: (encNumber d.uidValidity ++ 32 :: ((NumSet.toChars d.src).map Char.toNat ++
        32 :: ((NumSet.toChars d.dst).map Char.toNat ++ 93 :: 32 :: (text ++ 13 :: 10 :: rest))))) := by
    simp [asc, List.append_assoc]
  rw [e]
  exact codes_readRespText_copyuid tagged _ text rest _ hx (codes_expectSP_num d.uidValidity _)
    (any_readCopyUID d.uidValidity hv d.src src' d.dst dst' hs hd (32 :: (text ++ 13 :: 10 :: rest)))

/-- `tag OK [COPYUID v src dst] text` (copy.go writeCopyOK) is read as the completion carrying the sets the client
    parsed -/
theorem any_copyuid_line (tag text : Str) (ht : IsTag tag) (hx : IsText text) (d : CopyData)
    (hv : d.uidValidity < 4294967296) (src' dst' : NumSet.Set) (hs : any_Reads d.src src') (hd : any_Reads d.dst dst')
    (code : Str) (hc : copyCodeText (some d) = some code) :
    ReadsAs (tag ++ asc " OK " ++ code ++ text ++ CRLFb)
      (Event.done tag (asc "OK") (Code.copyUID d.uidValidity src' dst')) := by
  rw [codes_copyCodeText d hs.1 hd.1] at hc
  injection hc with hc
  subst hc
  have e : ∀ (code : Str), tag ++ asc " OK " ++ code ++ text ++ CRLFb = tag ++ asc " OK " ++ (code ++ text) ++ CRLFb := by
    intro code; simp [List.append_assoc]
  rw [e]
  apply codes_done_of_respText tag _ ht
  intro rest
  exact any_readRespText_copyCode true d hv src' dst' hs hd text rest hx

/-- COPY fidelity for arbitrary static sets: `CopyCommand.Wait` returns the supplied UIDVALIDITY and sets with the
    members of the supplied ones -/
theorem any_copy_fidelity (tag text : Str) (ht : IsTag tag) (hx : IsText text) (d : CopyData)
    (hv : d.uidValidity < 4294967296)
    (hsne : d.src ≠ []) (hs : any_Static d.src) (hdne : d.dst ≠ []) (hd : any_Static d.dst)
    (code : Str) (hc : copyCodeText (some d) = some code) :
    ∃ d', (parseAll (tag ++ asc " OK " ++ code ++ text ++ CRLFb)).map deliverCopy = some d' ∧
      d'.uidValidity = d.uidValidity ∧
      (∀ q, 0 < q → q < 4294967296 → NumSet.contains d'.src q = RespSpec.memRanges d.src q) ∧
      (∀ q, 0 < q → q < 4294967296 → NumSet.contains d'.dst q = RespSpec.memRanges d.dst q) := by
  obtain ⟨src', hrs, _, hms⟩ := any_reads d.src hsne hs
  obtain ⟨dst', hrd, _, hmd⟩ := any_reads d.dst hdne hd
  refine ⟨{ uidValidity := d.uidValidity, src := src', dst := dst' }, ?_, rfl, hms, hmd⟩
  rw [codes_parseAll_single _ _ (any_copyuid_line tag text ht hx d hv src' dst' hrs hrd code hc)]
  rfl

/-- `* OK [COPYUID v src dst] COPY completed` (move.go, WriteCopyData) -/
theorem any_move_copyuid_line (d : CopyData) (hv : d.uidValidity < 4294967296)
    (src' dst' : NumSet.Set) (hs : any_Reads d.src src') (hd : any_Reads d.dst dst')
    (code : Str) (hc : copyCodeText (some d) = some code) :
    ReadsAs (asc "* OK " ++ code ++ asc "COPY completed\r\n") (Event.cond (asc "OK") (Code.copyUID d.uidValidity src' dst')) := by
  rw [codes_copyCodeText d hs.1 hd.1] at hc
  injection hc with hc
  subst hc
  have e : ∀ (code : Str), asc "* OK " ++ code ++ asc "COPY completed\r\n" = asc "* OK " ++ (code ++ asc "COPY completed") ++ CRLFb := by
    intro code; simp [asc, CRLFb, List.append_assoc]
  rw [e]
  apply codes_cond_of_respText
  intro rest
  exact any_readRespText_copyCode false d hv src' dst' hs hd _ rest codes_isText_copyCompleted

theorem any_move_lines (d : CopyData) (ex : List Nat) (tag text : Str) (ht : IsTag tag) (hx : IsText text)
    (hv : d.uidValidity < 4294967296) (src' dst' : NumSet.Set) (hs : any_Reads d.src src') (hd : any_Reads d.dst dst')
    (hex : ∀ n ∈ ex, n ≠ 0 ∧ n < 4294967296) (bytes : Str) (hp : printMove (some d) ex = some bytes) :
    parseAll (bytes ++ (tag ++ asc " OK " ++ text ++ CRLFb)) =
      some ([Event.cond (asc "OK") (Code.copyUID d.uidValidity src' dst')] ++ ex.map Event.expunge ++
        [Event.done tag (asc "OK") Code.none]) := by
  unfold printMove at hp
  cases hcode : copyCodeText (some d) with
  | none => rw [hcode] at hp; cases hp
  | some code =>
    rw [hcode] at hp
    simp only [Option.map_some, Option.some.injEq] at hp
    subst hp
    exact codes_move_stream _ _ (any_move_copyuid_line d hv src' dst' hs hd code hcode) ex hex tag text ht hx

/-- MOVE fidelity for arbitrary static sets: `MoveCommand.Wait` returns sets with the members of the supplied ones,
    and the unilateral-data handler sees the supplied sequence numbers in order -/
theorem any_move_fidelity (d : CopyData) (ex : List Nat) (tag text : Str) (ht : IsTag tag) (hx : IsText text)
    (hv : d.uidValidity < 4294967296)
    (hsne : d.src ≠ []) (hs : any_Static d.src) (hdne : d.dst ≠ []) (hd : any_Static d.dst)
    (hex : ∀ n ∈ ex, n ≠ 0 ∧ n < 4294967296) (bytes : Str) (hp : printMove (some d) ex = some bytes) :
    ∃ d', (parseAll (bytes ++ (tag ++ asc " OK " ++ text ++ CRLFb))).map deliverMove = some (d', ex) ∧
      d'.uidValidity = d.uidValidity ∧
      (∀ q, 0 < q → q < 4294967296 → NumSet.contains d'.src q = RespSpec.memRanges d.src q) ∧
      (∀ q, 0 < q → q < 4294967296 → NumSet.contains d'.dst q = RespSpec.memRanges d.dst q) := by
  obtain ⟨src', hrs, _, hms⟩ := any_reads d.src hsne hs
  obtain ⟨dst', hrd, _, hmd⟩ := any_reads d.dst hdne hd
  refine ⟨{ uidValidity := d.uidValidity, src := src', dst := dst' }, ?_, rfl, hms, hmd⟩
  rw [any_move_lines d ex tag text ht hx hv src' dst' hrs hrd hex bytes hp]
  simp only [Option.map_some, codes_deliverMove_copy]

/-! ### 4. ESEARCH with an arbitrary static ALL set -/

/-- the ALL pair: `search_items_step` with the `ExpectNumSet` step abstracted -/
theorem any_items_step_all (set s' : NumSet.Set) (hrd : any_Reads set s') (fuel : Nat) (d : SearchData) (r' : Str)
    (hr' : search_End r') :
    readESearchItems (fuel + 1) d (search_Item.all set).name (32 :: ((search_Item.all set).text ++ r')) =
      search_cont fuel { d with all := some (d.uid, s') } r' := by
  have hsp : expectSP (32 :: ((search_Item.all set).text ++ r')) = some ((search_Item.all set).text ++ r') := by
    obtain ⟨c, t, e, h13, h10⟩ := search_head_of (fun c => c = 42 || isAtomChar c) _ (search_setText_ne set hrd.1)
      (search_setText_chars set) (by decide) (by decide)
    simp only [search_Item.text]
    rw [e]; exact expectSP_sp c _ h13 h10
  rw [readESearchItems, hsp]
  have hv : decNumSetText (search_setText set ++ r') = some (s', r') := hrd.2.2 r' hr'.stopsSet
  have hu : toUpper (asc "ALL") = asc "ALL" := by decide
  have n1 : ¬ (asc "ALL" = asc "MIN") := by decide
  have n2 : ¬ (asc "ALL" = asc "MAX") := by decide
  have n3 : ¬ (asc "ALL" = asc "COUNT") := by decide
  simp only [search_Item.name, search_Item.text, hu, hv, n1, n2, n3, if_true, if_false, Option.bind_some,
    hrd.2.1, Bool.false_eq_true]
  rfl

/-- `search_first` for a first pair whose reading step is given as a hypothesis -/
theorem any_first (y : search_Item) (U : SearchData → SearchData)
    (hstep : ∀ fuel d r', search_End r' →
      readESearchItems (fuel + 1) d y.name (32 :: (y.text ++ r')) = search_cont fuel (U d) r')
    (ys : List search_Item) (hok : ∀ x ∈ ys, x.Ok) (d : SearchData) (rest : Str) :
    decSP (search_itemsText (y :: ys) ++ 13 :: rest) = (true, y.name ++ 32 :: (y.text ++ (search_itemsText ys ++ 13 :: rest))) ∧
    tryAtom (y.name ++ 32 :: (y.text ++ (search_itemsText ys ++ 13 :: rest))) =
      some (y.name, 32 :: (y.text ++ (search_itemsText ys ++ 13 :: rest))) ∧
    (∀ fuel, (search_itemsText ys).length < fuel → readESearchItems fuel d y.name
      (32 :: (y.text ++ (search_itemsText ys ++ 13 :: rest))) = some (search_apply ys (U d), 13 :: rest)) := by
  obtain ⟨c, t, e, h13, h10⟩ := search_name_head y
  refine ⟨?_, ?_, ?_⟩
  · have e1 : search_itemsText (y :: ys) ++ 13 :: rest = 32 :: c :: (t ++ 32 :: (y.text ++ (search_itemsText ys ++ 13 :: rest))) := by
      simp [search_itemsText, e, List.append_assoc]
    rw [e1, search_decSP_sp c _ h13 h10, e]; rfl
  · exact tryAtom_append y.name _ (search_name_atom y).1 (search_name_atom y).2 (StopsAt.cons _ (by decide))
  · intro fuel hf
    cases fuel with
    | zero => omega
    | succ f =>
      cases ys with
      | nil =>
        show readESearchItems (f + 1) d y.name (32 :: (y.text ++ 13 :: rest)) = _
        rw [hstep f d _ ⟨13, rest, rfl, Or.inr rfl⟩, search_cont_last]
        rfl
      | cons z zs =>
        have e2 : search_itemsText (z :: zs) ++ 13 :: rest =
            32 :: (z.name ++ 32 :: (z.text ++ (search_itemsText zs ++ 13 :: rest))) := by
          simp [search_itemsText, List.append_assoc]
        have hl := search_length_le_itemsText (z :: zs)
        rw [List.length_cons] at hl
        rw [e2, hstep f d _ ⟨32, _, rfl, Or.inl rfl⟩, search_cont_more,
          search_items_all zs z f (U d) rest (by omega) (hok z (by simp)) (fun x hx => hok x (by simp [hx]))]

/-- `search_readESearch` for a run of pairs whose first one is read by a given step -/
theorem any_readESearch (tag : Str) (ht : IsTag tag) (uid : Bool) (y : search_Item) (U : SearchData → SearchData)
    (hstep : ∀ fuel d r', search_End r' →
      readESearchItems (fuel + 1) d y.name (32 :: (y.text ++ r')) = search_cont fuel (U d) r')
    (ys : List search_Item) (hok : ∀ x ∈ ys, x.Ok) (rest : Str) :
    readESearch (40 :: (asc "TAG" ++ 32 :: (tag ++ 41 :: ((if uid then asc " UID" else []) ++
        (search_itemsText (y :: ys) ++ 13 :: rest))))) =
      some (tag, search_apply ys (U { all := none, uid := uid, min := 0, max := 0, count := 0 }), 13 :: rest) := by
  obtain ⟨a, t, htag, h13, h10⟩ := search_head_of isAtomChar tag ht.ne ht.atom (by decide) (by decide)
  have h1 : ∀ tail, tryAtom (asc "TAG" ++ 32 :: (tag ++ 41 :: tail)) = some (asc "TAG", 32 :: (tag ++ 41 :: tail)) :=
    fun tail => tryAtom_append _ _ (by decide) (by decide) (StopsAt.cons _ (by decide))
  have h2 : ∀ tail, expectSP (32 :: (tag ++ 41 :: tail)) = some (tag ++ 41 :: tail) := by
    intro tail; rw [htag]; exact expectSP_sp a _ h13 h10
  have h3 := search_decAString_tag tag ht
  have hU : ∀ x, asc " UID" ++ x = 32 :: (asc "UID" ++ x) := fun x => by simp [asc]
  have hUsp : ∀ x, decSP (32 :: (asc "UID" ++ x)) = (true, asc "UID" ++ x) := fun x => by simp [asc, decSP]
  have hUat : tryAtom (asc "UID" ++ (search_itemsText (y :: ys) ++ 13 :: rest)) =
      some (asc "UID", search_itemsText (y :: ys) ++ 13 :: rest) :=
    tryAtom_append _ _ (by decide) (by decide) (search_itemsText_stops (y :: ys) rest)
  unfold readESearch
  cases uid with
  | true =>
    obtain ⟨f1, f2, f3⟩ := any_first y U hstep ys hok { all := none, uid := true, min := 0, max := 0, count := 0 } rest
    simp [h1, h2, h3, hU, hUsp, hUat, f1, f2]
    rw [f3 _ (by omega)]; rfl
  | false =>
    obtain ⟨f1, f2, f3⟩ := any_first y U hstep ys hok { all := none, uid := false, min := 0, max := 0, count := 0 } rest
    simp [h1, h2, h3, f1, f2, search_name_ne_uid y]
    rw [f3 _ (by omega)]; rfl

/-- the line-level part of `esearch_line`: whatever `readESearch` returns for the printed pairs is the event -/
theorem any_esearch_reads (tag : Str) (uid : Bool) (its : List search_Item) (D : SearchData)
    (hread : ∀ rest, readESearch (40 :: (asc "TAG" ++ 32 :: (tag ++ 41 :: ((if uid then asc " UID" else []) ++
        (search_itemsText its ++ 13 :: rest))))) = some (tag, D, 13 :: rest)) :
    ReadsAs (asc "* ESEARCH (TAG " ++ tag ++ [41] ++ (if uid then asc " UID" else []) ++ search_itemsText its ++ CRLFb)
      (Event.esearch tag D) := by
  refine ⟨?_, ?_⟩
  · simp [asc]
  · intro rest
    have e : asc "* ESEARCH (TAG " ++ tag ++ [41] ++ (if uid then asc " UID" else []) ++ search_itemsText its ++ CRLFb ++ rest =
        42 :: 32 :: 69 :: (asc "SEARCH" ++ 32 :: 40 :: (asc "TAG" ++ 32 :: (tag ++ 41 :: ((if uid then asc " UID" else []) ++
          (search_itemsText its ++ 13 :: 10 :: rest))))) := by
      simp [asc, CRLFb, List.append_assoc]
    rw [e, readResponse_star 69 _ (by decide) (by decide)]
    have e2 : ∀ x, 69 :: (asc "SEARCH" ++ x) = asc "ESEARCH" ++ x := fun x => by simp [asc]
    rw [e2, readUntagged_name (asc "ESEARCH") _ (isName_of _ (by decide)) (StopsAt.cons _ (by decide)), search_dispatch_e,
      expectSP_sp 40 _ (by decide) (by decide)]
    simp only [Option.bind_some]
    rw [hread (10 :: rest)]
    simp only [Option.map_some]
    exact finishLine_crlf _ _

/-- the pairs after ALL do not depend on the set -/
theorem any_items_pos (e : SearchOpts) (d : SearchData) (set : NumSet.Set) (h : (e.all && !set.isEmpty) = true) :
    search_items e d set = search_Item.all set :: search_items e d [] := by
  unfold search_items
  rw [if_pos h]
  simp

theorem any_items_neg (e : SearchOpts) (d : SearchData) (set : NumSet.Set) (h : ¬ (e.all && !set.isEmpty) = true) :
    search_items e d set = search_items e d [] := by
  unfold search_items
  rw [if_neg h]
  simp

theorem any_items_ok (e : SearchOpts) (d : SearchData)
    (hmin : d.min < 4294967296) (hmax : d.max < 4294967296) (hcount : d.count < 4294967296) :
    ∀ x ∈ search_items e d [], x.Ok :=
  search_items_ok e d [] trivial rfl hmin hmax hcount

/-- `search_apply_items` for the pairs after ALL, whatever the ALL field already holds -/
theorem any_apply_items (e : SearchOpts) (d : SearchData) (uid : Bool) (a : Option (Bool × NumSet.Set)) :
    search_apply (search_items e d []) { all := a, uid := uid, min := 0, max := 0, count := 0 } =
      { all := a,
        uid := uid,
        min := if e.min then d.min else 0,
        max := if e.max then d.max else 0,
        count := if e.count then d.count else 0 } := by
  rw [← search_pos_if e.min d.min, ← search_pos_if e.max d.max]
  unfold search_apply search_items
  have hA : ¬ (e.all && !([] : NumSet.Set).isEmpty) = true := by simp
  by_cases hm : (e.min && decide (d.min > 0)) = true <;>
    by_cases hM : (e.max && decide (d.max > 0)) = true <;> by_cases hc : e.count = true <;>
    simp only [hA, hm, hM, hc, if_true, if_false, List.foldl_append, List.foldl_cons, List.foldl_nil, search_Item.upd,
      List.append_nil, List.nil_append, Bool.false_eq_true]

/-- `* ESEARCH (TAG "tag") [UID] [ALL set] [MIN n] [MAX n] [COUNT n] CRLF` (search.go writeESearch) with an arbitrary
    static ALL set: the event carries a static set `s'` with the members of `set` (an empty ALL set is not sent and
    reads back as a nil set); MIN / MAX / COUNT as in `esearch_line` -/
theorem any_esearch_line (cfg : Cfg) (tag : Str) (o : Option SearchOpts) (d : SearchData) (kind : Bool) (set : NumSet.Set)
    (hes : isESearch cfg o = true) (hall : d.all = some (kind, set)) (ht : IsTag tag) (hst : any_Static set)
    (hmin : d.min < 4294967296) (hmax : d.max < 4294967296) (hcount : d.count < 4294967296) :
    ∃ b s', printSearch cfg tag o d = some b ∧ NumSet.dynamic s' = false ∧
      (∀ q, 0 < q → q < 4294967296 → NumSet.contains s' q = RespSpec.memRanges set q) ∧
      ReadsAs b (Event.esearch tag
        { all := if (searchOpts o).all && !set.isEmpty then some (d.uid, s') else none,
          uid := d.uid,
          min := if (searchOpts o).min then d.min else 0,
          max := if (searchOpts o).max then d.max else 0,
          count := if (searchOpts o).count then d.count else 0 }) := by
  have hok := any_items_ok (searchOpts o) d hmin hmax hcount
  by_cases hA : ((searchOpts o).all && !set.isEmpty) = true
  · have hne : set ≠ [] := by
      intro e0; subst e0; simp at hA
    obtain ⟨s', hrd, _, hmem⟩ := any_reads set hne hst
    refine ⟨_, s', search_print cfg tag o d kind set hall hes, hrd.2.1, hmem, ?_⟩
    rw [if_pos hA]
    apply any_esearch_reads
    intro rest
    rw [any_items_pos _ d set hA,
      any_readESearch tag ht d.uid (search_Item.all set) (fun d0 => { d0 with all := some (d0.uid, s') })
        (fun fuel d0 r' hr' => any_items_step_all set s' hrd fuel d0 r' hr') _ hok rest]
    simp only [any_apply_items]
  · by_cases hne : set = []
    · refine ⟨_, [], search_print cfg tag o d kind set hall hes, rfl, ?_, ?_⟩
      · intro q _ _; subst hne; rfl
      · rw [if_neg hA]
        apply any_esearch_reads
        intro rest
        rw [any_items_neg _ d set hA, search_readESearch tag ht d.uid _ hok rest, any_apply_items]
    · obtain ⟨s', hrd, _, hmem⟩ := any_reads set hne hst
      refine ⟨_, s', search_print cfg tag o d kind set hall hes, hrd.2.1, hmem, ?_⟩
      rw [if_neg hA]
      apply any_esearch_reads
      intro rest
      rw [any_items_neg _ d set hA, search_readESearch tag ht d.uid _ hok rest, any_apply_items]

/-- ESEARCH fidelity for an arbitrary static ALL set: what `SearchCommand.Wait` returns -/
theorem any_esearch_fidelity (cfg : Cfg) (uidMode : Bool) (stag : Str) (o : Option SearchOpts) (d : SearchData) (kind : Bool)
    (set : NumSet.Set) (tag text : Str) (hst : IsTag stag) (ht : IsTag tag) (hx : IsText text)
    (hes : isESearch cfg o = true) (hall : d.all = some (kind, set)) (hs : any_Static set)
    (hmin : d.min < 4294967296) (hmax : d.max < 4294967296) (hcount : d.count < 4294967296) :
    ∃ b s', printSearch cfg stag o d = some b ∧ NumSet.dynamic s' = false ∧
      (∀ q, 0 < q → q < 4294967296 → NumSet.contains s' q = RespSpec.memRanges set q) ∧
      (parseAll (b ++ (tag ++ asc " OK " ++ text ++ CRLFb))).map (deliverSearch uidMode) =
        some { all := if (searchOpts o).all && !set.isEmpty then some (d.uid, s') else none, uid := d.uid,
               min := if (searchOpts o).min then d.min else 0, max := if (searchOpts o).max then d.max else 0,
               count := if (searchOpts o).count then d.count else 0 } := by
  obtain ⟨b, s', hb, hdyn, hmem, hread⟩ := any_esearch_line cfg stag o d kind set hes hall hst hs hmin hmax hcount
  refine ⟨b, s', hb, hdyn, hmem, ?_⟩
  have hlines := AllRead.cons hread (AllRead.single (done_line tag text ht hx))
  have e : b ++ (tag ++ asc " OK " ++ text ++ CRLFb) = [b, tag ++ asc " OK " ++ text ++ CRLFb].flatten := by simp
  rw [e, parseAll_lines _ _ hlines]
  simp only [Option.map_some, search_deliver_esearch]

/-! ### examples: `imap.UIDSet{{5,9},{1,3},{2,4}}` — unsorted and overlapping; its members are 1 .. 9 -/

example : any_Static [⟨5, 9⟩, ⟨1, 3⟩, ⟨2, 4⟩] := any_Static_of _ (by decide)

example : ∃ items, NumSetSpec.seqSetText (NumSet.toChars [⟨5, 9⟩, ⟨1, 3⟩, ⟨2, 4⟩]) = some items ∧
    (∀ q, NumSetSpec.memText items q = RespSpec.memRanges [⟨5, 9⟩, ⟨1, 3⟩, ⟨2, 4⟩] q) ∧ NumSetSpec.starText items = false :=
  any_seqSetText _ (by decide) (any_Static_of _ (by decide))

example : ∃ s', decNumSetText ((NumSet.toChars [⟨5, 9⟩, ⟨1, 3⟩, ⟨2, 4⟩]).map Char.toNat ++ [32]) = some (s', [32]) ∧
    NumSet.dynamic s' = false ∧
    ∀ q, 0 < q → q < 4294967296 → NumSet.contains s' q = RespSpec.memRanges [⟨5, 9⟩, ⟨1, 3⟩, ⟨2, 4⟩] q :=
  any_decNumSetText _ (by decide) (any_Static_of _ (by decide)) _ (StopsAt.cons _ (by decide))

/-- what the client actually builds: the one range `1:9` -/
example : NumSet.parseSet (NumSet.toChars [⟨5, 9⟩, ⟨1, 3⟩, ⟨2, 4⟩]) = some [⟨1, 9⟩] := by decide +kernel

example : ∃ code, copyCodeText (some { uidValidity := 7, src := [⟨5, 9⟩, ⟨1, 3⟩, ⟨2, 4⟩], dst := [⟨12, 10⟩] }) = some code ∧
    ∃ d', (parseAll (asc "A1" ++ asc " OK " ++ code ++ asc "done" ++ CRLFb)).map deliverCopy = some d' ∧
      d'.uidValidity = 7 ∧
      (∀ q, 0 < q → q < 4294967296 → NumSet.contains d'.src q = RespSpec.memRanges [⟨5, 9⟩, ⟨1, 3⟩, ⟨2, 4⟩] q) ∧
      (∀ q, 0 < q → q < 4294967296 → NumSet.contains d'.dst q = RespSpec.memRanges [⟨12, 10⟩] q) :=
  ⟨_, rfl, any_copy_fidelity _ _ (codes_isTag_of _ (by decide)) (codes_isText_of _ (by decide))
    { uidValidity := 7, src := [⟨5, 9⟩, ⟨1, 3⟩, ⟨2, 4⟩], dst := [⟨12, 10⟩] } (by decide)
    (by decide) (any_Static_of _ (by decide)) (by decide) (any_Static_of _ (by decide)) _ rfl⟩

example : ∃ bytes, printMove (some { uidValidity := 7, src := [⟨5, 9⟩, ⟨1, 3⟩, ⟨2, 4⟩], dst := [⟨12, 10⟩] }) [3, 2, 1] = some bytes ∧
    ∃ d', (parseAll (bytes ++ (asc "A1" ++ asc " OK " ++ asc "done" ++ CRLFb))).map deliverMove = some (d', [3, 2, 1]) ∧
      d'.uidValidity = 7 ∧
      (∀ q, 0 < q → q < 4294967296 → NumSet.contains d'.src q = RespSpec.memRanges [⟨5, 9⟩, ⟨1, 3⟩, ⟨2, 4⟩] q) ∧
      (∀ q, 0 < q → q < 4294967296 → NumSet.contains d'.dst q = RespSpec.memRanges [⟨12, 10⟩] q) :=
  ⟨_, rfl, any_move_fidelity { uidValidity := 7, src := [⟨5, 9⟩, ⟨1, 3⟩, ⟨2, 4⟩], dst := [⟨12, 10⟩] } [3, 2, 1] _ _
    (codes_isTag_of _ (by decide)) (codes_isText_of _ (by decide)) (by decide)
    (by decide) (any_Static_of _ (by decide)) (by decide) (any_Static_of _ (by decide)) (by decide) _ rfl⟩

example : ∃ b s', printSearch .plain (asc "T1") (some { min := true, max := false, all := true, count := true })
      { all := some (true, [⟨5, 9⟩, ⟨1, 3⟩, ⟨2, 4⟩]), uid := true, min := 1, max := 9, count := 9 } = some b ∧
    NumSet.dynamic s' = false ∧
    (∀ q, 0 < q → q < 4294967296 → NumSet.contains s' q = RespSpec.memRanges [⟨5, 9⟩, ⟨1, 3⟩, ⟨2, 4⟩] q) ∧
    (parseAll (b ++ (asc "T1" ++ asc " OK " ++ asc "done" ++ CRLFb))).map (deliverSearch true) =
      some { all := some (true, s'), uid := true, min := 1, max := 0, count := 9 } :=
  any_esearch_fidelity .plain true (asc "T1") (some { min := true, max := false, all := true, count := true })
    { all := some (true, [⟨5, 9⟩, ⟨1, 3⟩, ⟨2, 4⟩]), uid := true, min := 1, max := 9, count := 9 } true [⟨5, 9⟩, ⟨1, 3⟩, ⟨2, 4⟩]
    _ _ search_isTag_T1 search_isTag_T1 (codes_isText_of _ (by decide)) (by decide) rfl (any_Static_of _ (by decide))
    (by decide) (by decide) (by decide)

end GoImap.Resp
