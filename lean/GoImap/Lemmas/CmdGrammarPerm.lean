/-
  C02 helper lemmas: every way the client may write a command (`Lin`: map-ordered items in any order).
-/
import GoImap.Lemmas.CmdGrammarFetch
namespace GoImap.CmdLemmas
open GoImap.CmdGrammar GoImap.CmdSpec

/-! ### inversion of `Lin` -/

theorem lin_nil {w : Wire} (h : Lin [] w) : w = [] := by cases h; rfl

theorem lin_fixed_cons {a : Wire} {ss : List Seg} {w : Wire} (h : Lin (.fixed a :: ss) w) :
    ∃ w', w = a ++ w' ∧ Lin ss w' := by
  cases h with
  | cons s ss w1 ws h1 t => cases h1; exact ⟨ws, rfl, t⟩

theorem lin_any_cons {items : List Wire} {ss : List Seg} {w : Wire} (h : Lin (.anyOrder items :: ss) w) :
    ∃ perm w', perm.Perm items ∧ w = joinSp perm ++ w' ∧ Lin ss w' := by
  cases h with
  | cons s ss w1 ws h1 t => cases h1 with | anyOrder _ perm hp => exact ⟨perm, ws, hp, rfl, t⟩

theorem linAll_single {segs : List Seg} {wires : List Wire} (h : LinAll [segs] wires) : ∃ w, wires = [w] ∧ Lin segs w := by
  cases h with
  | cons _ _ w ws h1 t => cases t; exact ⟨w, rfl, h1⟩

/-- segments without map-ordered items are written in one way only -/
theorem lin_fixed_only : ∀ (ws : List Wire) (w : Wire), Lin (ws.map Seg.fixed) w → w = ws.flatMap id
  | [], w, h => by simpa using lin_nil h
  | a :: ws, w, h => by
    obtain ⟨w', rfl, h'⟩ := lin_fixed_cons h
    rw [lin_fixed_only ws w' h']
    simp

/-! ### permutations -/

/-- a permutation of an image is the image of a permutation -/
theorem perm_map_inv {α β : Type} (f : α → β) {l₁ l₂ : List β} (h : l₁.Perm l₂) :
    ∀ (l : List α), l₂ = l.map f → ∃ l' : List α, l'.Perm l ∧ l₁ = l'.map f := by
  induction h with
  | nil => intro l hl; exact ⟨[], by cases l <;> simp_all, rfl⟩
  | cons x _ ih =>
    intro l hl
    cases l with
    | nil => simp at hl
    | cons a l0 =>
      simp only [List.map_cons, List.cons.injEq] at hl
      obtain ⟨t', hp, ht⟩ := ih l0 hl.2
      exact ⟨a :: t', hp.cons a, by simp [hl.1, ht]⟩
  | swap x y t =>
    intro l hl
    cases l with
    | nil => simp at hl
    | cons a l0 =>
      cases l0 with
      | nil => simp at hl
      | cons b l1 =>
        simp only [List.map_cons, List.cons.injEq] at hl
        exact ⟨b :: a :: l1, List.Perm.swap a b l1, by simp [hl.1, hl.2.1, hl.2.2]⟩
  | trans _ _ ih1 ih2 =>
    intro l hl
    obtain ⟨l'', hp2, h2⟩ := ih2 l hl
    obtain ⟨l', hp1, h1⟩ := ih1 l'' h2
    exact ⟨l', hp1.trans hp2, h1⟩

/-- folding setters that commute with one another gives the same result in any order -/
theorem foldl_perm_comm {α β : Type} (f : β → α → β) (hc : ∀ a b x, f (f x a) b = f (f x b) a)
    {l₁ l₂ : List α} (h : l₁.Perm l₂) : ∀ x, l₁.foldl f x = l₂.foldl f x := by
  induction h with
  | nil => intro x; rfl
  | cons a _ ih => intro x; simp only [List.foldl_cons]; exact ih _
  | swap a b t => intro x; simp only [List.foldl_cons]; rw [hc]
  | trans _ _ ih1 ih2 => intro x; rw [ih1, ih2]

theorem perm_nil_iff {α : Type} {l₁ l₂ : List α} (h : l₁.Perm l₂) : (l₁ = []) = (l₂ = []) := by
  have := h.length_eq
  cases l₁ <;> cases l₂ <;> simp_all


/-! ### frames -/

/-- a call that is one protocol command: it is delivered when every written form of that command is read as `calls` -/
theorem delivers_single (cfg : Cfg) (tag : Nat) (c : Cmd) (segs : List Seg) (calls : List Cmd)
    (hw : wBody {} cfg c = .ok [segs])
    (hp : ∀ w, Lin segs w → parseOne cfg (tagW tag ++ (w ++ crlf)) = .ok (calls, [])) :
    Delivers {} cfg tag c calls := by
  refine ⟨_, printCmd_single _ _ _ _ _ hw, ?_⟩
  intro wires hl
  obtain ⟨w, rfl, hlin⟩ := linAll_single hl
  simp only [List.cons_append, List.nil_append] at hlin
  obtain ⟨w1, rfl, h1⟩ := lin_fixed_cons hlin
  -- split off the final CRLF segment
  have hsplit : ∀ (ss : List Seg) (x : Wire), Lin (ss ++ [Seg.fixed crlf]) x → ∃ y, x = y ++ crlf ∧ Lin ss y := by
    intro ss
    induction ss with
    | nil =>
      intro x hx
      obtain ⟨x', rfl, hx'⟩ := lin_fixed_cons hx
      have := lin_nil hx'
      subst this
      exact ⟨[], by simp, Lin.nil⟩
    | cons s ss ih =>
      intro x hx
      cases hx with
      | cons _ _ w0 ws0 h0 t0 =>
        obtain ⟨y, rfl, hy⟩ := ih ws0 t0
        exact ⟨w0 ++ y, by simp, Lin.cons _ _ _ _ h0 hy⟩
  obtain ⟨y, rfl, hy⟩ := hsplit segs w1 h1
  have := hp y hy
  simp only [tagW, List.append_assoc, List.singleton_append, List.cons_append, List.nil_append] at this ⊢
  simp only [parseCmds, bind, Except.bind, this]
  simp [pure, Except.pure]

/-- a command without map-ordered items is written in one way: `roundTrip` says it all -/
theorem delivers_of_fixed (cfg : Cfg) (tag : Nat) (c : Cmd) (body : Wire) (calls : List Cmd)
    (hw : wBody {} cfg c = .ok [[.fixed body]]) (hr : roundTrip {} cfg tag c = .calls calls) :
    Delivers {} cfg tag c calls := by
  apply delivers_single cfg tag c _ calls hw
  intro w hl
  obtain ⟨w', rfl, h'⟩ := lin_fixed_cons hl
  have := lin_nil h'
  subst this
  unfold roundTrip at hr
  rw [printCmd_single _ _ _ _ _ hw] at hr
  simp only [List.map_cons, List.map_nil, linearise_single, parseCmds, bind, Except.bind] at hr
  cases hpo : parseOne cfg (tagW tag ++ body ++ crlf) with
  | error e => rw [hpo] at hr; cases e <;> simp at hr
  | ok v =>
    rw [hpo] at hr
    obtain ⟨cs, rest⟩ := v
    by_cases hrest : rest = []
    · subst hrest
      simp [pure, Except.pure] at hr
      subst hr
      simpa [List.append_assoc] using hpo
    · simp [hrest] at hr

theorem segLin_lin (s : Seg) : Seg.Lin s s.lin := by
  cases s with
  | fixed w => exact Seg.Lin.fixed w
  | anyOrder items => exact Seg.Lin.anyOrder items items (List.Perm.refl _)

theorem lin_linearise : ∀ (segs : List Seg), Lin segs (linearise segs)
  | [] => Lin.nil
  | s :: ss => by
    have := Lin.cons s ss _ _ (segLin_lin s) (lin_linearise ss)
    simpa [linearise] using this

theorem linAll_linearise : ∀ (cmds : List (List Seg)), LinAll cmds (cmds.map linearise)
  | [] => LinAll.nil
  | c :: cs => LinAll.cons _ _ _ _ (lin_linearise c) (linAll_linearise cs)

/-- the listed order is one of the orders: `Delivers` implies the `roundTrip` statement -/
theorem roundTrip_of_delivers (cfg : Cfg) (tag : Nat) (c : Cmd) (calls : List Cmd) (h : Delivers {} cfg tag c calls) :
    roundTrip {} cfg tag c = .calls calls := by
  obtain ⟨cmds, hp, hall⟩ := h
  unfold roundTrip
  rw [hp]
  simp only [hall _ (linAll_linearise cmds)]

/-- STATUS: every order of the items -/
theorem status_delivers (cfg : Cfg) (tag : Nat) (m : List Nat) (o : StatusOpts) (hm : MailboxOK m) (ho : o.highestModSeq = false) :
    Delivers {} cfg tag (.status m o) (sem cfg (.status m o)) := by
  have hw : wBody {} cfg (.status m o) =
      .ok [[.fixed (kw "STATUS" ++ sp ++ wMailbox m ++ sp ++ [.b 40]), .anyOrder (statusItems o), .fixed [.b 41]]] := rfl
  apply delivers_single cfg tag _ _ _ hw
  intro w hl
  obtain ⟨w1, rfl, h1⟩ := lin_fixed_cons hl
  obtain ⟨perm, w2, hperm, rfl, h2⟩ := lin_any_cons h1
  obtain ⟨w3, rfl, h3⟩ := lin_fixed_cons h2
  have := lin_nil h3
  subst this
  rw [statusItems_eq o ho] at hperm
  obtain ⟨l, hl', rfl⟩ := perm_map_inv SItem.wire hperm (sItems o) rfl
  have := parse_status cfg tag m o hm ho l hl'
  simp only [statusWire, wList, List.append_assoc, List.append_nil] at this ⊢
  rw [this]
  simp [sem, semRaw, canon]

end GoImap.CmdLemmas
