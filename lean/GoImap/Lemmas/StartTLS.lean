/-
  Helper lemmas for C17 (Model/StartTLS.lean): the router under `Handover.drain` does not depend on the
  segmentation, the plaintext parser's share of the input is a prefix, TLS mode only forwards bytes,
  events carry origins below the current offset.
-/
import GoImap.Model.StartTLS
namespace GoImap.StartTLSLemmas
open GoImap GoImap.StartTLS

variable {σ ε : Type}

theorem scan_nil (h : Handover) (exec : Exec σ ε) (s : RSt σ ε) : scan h exec s [] = s := rfl

theorem scan_cons (h : Handover) (exec : Exec σ ε) (s : RSt σ ε) (b : UInt8) (bs : Bytes) :
    scan h exec s (b :: bs) = scan h exec (stepByte h exec s b) bs := rfl

theorem scan_append (h : Handover) (exec : Exec σ ε) (s : RSt σ ε) (a b : Bytes) :
    scan h exec s (a ++ b) = scan h exec (scan h exec s a) b := by
  simp [scan, List.foldl_append]

/-! ### under `drain` the mode `held` never occurs -/

theorem nextMode_drain_ne_held (m : Mode) (a : Act) (hm : m ≠ .held) : nextMode .drain m a ≠ .held := by
  cases a <;> simp [nextMode, hm]

theorem stepByte_drain_ne_held (exec : Exec σ ε) (s : RSt σ ε) (b : UInt8) (hm : s.mode ≠ .held) :
    (stepByte .drain exec s b).mode ≠ .held := by
  unfold stepByte
  split
  · simp_all
  · simp_all
  · split
    · exact nextMode_drain_ne_held _ _ (by simp)
    · simp_all
  · simp_all

theorem scan_drain_ne_held (exec : Exec σ ε) (bs : Bytes) (s : RSt σ ε) (hm : s.mode ≠ .held) :
    (scan .drain exec s bs).mode ≠ .held := by
  induction bs generalizing s with
  | nil => simpa [scan_nil] using hm
  | cons b bs ih => rw [scan_cons]; exact ih _ (stepByte_drain_ne_held exec s b hm)

theorem endSeg_of_ne_held (s : RSt σ ε) (hm : s.mode ≠ .held) : endSeg s = s := by
  unfold endSeg
  split
  · simp_all
  · rfl

/-- segmentation independence: with a drained reader the router is the byte-wise scan of the
    concatenated segments -/
theorem route_drain_eq_scan (exec : Exec σ ε) (segs : List Bytes) (s : RSt σ ε) (hm : s.mode ≠ .held) :
    route .drain exec s segs = scan .drain exec s segs.flatten := by
  induction segs generalizing s with
  | nil => rfl
  | cons seg rest ih =>
    have h1 : (scan .drain exec s seg).mode ≠ .held := scan_drain_ne_held exec seg s hm
    show route .drain exec (feedSeg .drain exec s seg) rest = _
    rw [feedSeg, endSeg_of_ne_held _ h1, ih _ h1, List.flatten_cons, scan_append]

/-! ### plaintext mode -/

theorem nextMode_held_ne_plain (h : Handover) (a : Act) : nextMode h .held a ≠ .plain := by
  cases a <;> cases h <;> simp [nextMode]

theorem stepByte_plain_inv (h : Handover) (exec : Exec σ ε) (s : RSt σ ε) (b : UInt8)
    (hm : (stepByte h exec s b).mode = .plain) : s.mode = .plain := by
  unfold stepByte at hm
  split at hm
  · simp_all
  · simp_all
  · assumption
  · split at hm
    · exact absurd hm (nextMode_held_ne_plain h _)
    · simp_all

/-- as long as the mode is still `plain` afterwards, every byte went to the IMAP parser -/
theorem scan_plain (h : Handover) (exec : Exec σ ε) (bs : Bytes) (s : RSt σ ε)
    (hm : (scan h exec s bs).mode = .plain) :
    s.mode = .plain ∧ (scan h exec s bs).plain = s.plain ++ bs ∧ (scan h exec s bs).tls = s.tls ∧
      (scan h exec s bs).off = s.off + bs.length := by
  induction bs generalizing s with
  | nil => simp [scan_nil] at hm ⊢; exact hm
  | cons b bs ih =>
    rw [scan_cons] at hm ⊢
    obtain ⟨h1, h2, h3, h4⟩ := ih _ hm
    have hs := stepByte_plain_inv h exec s b h1
    refine ⟨hs, ?_, ?_, ?_⟩
    · rw [h2]; unfold stepByte; rw [hs]; dsimp only; split <;> simp
    · rw [h3]; unfold stepByte; rw [hs]; dsimp only; split <;> simp
    · rw [h4]; unfold stepByte; rw [hs]; dsimp only; split <;> simp <;> omega

/-- bytes without LF only extend the current line -/
theorem scan_noLF (h : Handover) (exec : Exec σ ε) (body : Bytes) (s : RSt σ ε) (hm : s.mode = .plain)
    (hb : ∀ b ∈ body, b ≠ 10) :
    scan h exec s body =
      { s with cur := s.cur ++ body, off := s.off + body.length, plain := s.plain ++ body } := by
  induction body generalizing s with
  | nil => simp [scan_nil]
  | cons b bs ih =>
    have hb0 : b ≠ 10 := hb b (by simp)
    have hstep : stepByte h exec s b = { s with cur := s.cur ++ [b], off := s.off + 1, plain := s.plain ++ [b] } := by
      unfold stepByte; rw [hm]; simp [hb0]
    rw [scan_cons, hstep, ih _ (by simpa using hm) (fun x hx => hb x (by simp [hx]))]
    simp [Nat.add_assoc, Nat.add_comm 1]

/-- the LF that completes a line hands it to the handler -/
theorem stepByte_LF (h : Handover) (exec : Exec σ ε) (s : RSt σ ε) (hm : s.mode = .plain) :
    stepByte h exec s 10 =
      { mode := nextMode h .plain (exec s.st (s.cur ++ [10])).2.2, st := (exec s.st (s.cur ++ [10])).1, cur := [],
        off := s.off + 1, plain := s.plain ++ [10], tls := s.tls, held := s.held,
        evs := s.evs ++ (exec s.st (s.cur ++ [10])).2.1.map (fun e => (s.off, e)) } := by
  unfold stepByte; rw [hm]; simp

/-! ### TLS mode -/

theorem scan_tls (h : Handover) (exec : Exec σ ε) (bs : Bytes) (s : RSt σ ε) (hm : s.mode = .tls) :
    scan h exec s bs = { s with off := s.off + bs.length, tls := s.tls ++ bs } := by
  induction bs generalizing s with
  | nil => simp [scan_nil]
  | cons b bs ih =>
    have hstep : stepByte h exec s b = { s with off := s.off + 1, tls := s.tls ++ [b] } := by
      unfold stepByte; rw [hm]
    rw [scan_cons, hstep, ih _ (by simpa using hm)]
    simp [Nat.add_assoc, Nat.add_comm 1]

/-! ### origins -/

def OriginsBelow (s : RSt σ ε) : Prop := ∀ e ∈ s.evs, e.1 < s.off

theorem stepByte_origins (h : Handover) (exec : Exec σ ε) (s : RSt σ ε) (b : UInt8) (ho : OriginsBelow s) :
    OriginsBelow (stepByte h exec s b) := by
  unfold stepByte
  split
  · intro e he; have := ho e he; simp at *; omega
  · intro e he; have := ho e he; simp at *; omega
  · split
    · intro e he
      simp only [List.mem_append, List.mem_map] at he
      rcases he with he | ⟨x, _, rfl⟩
      · have := ho e he; simp; omega
      · simp
    · intro e he; have := ho e he; simp at *; omega
  · split
    · intro e he
      simp only [List.mem_append, List.mem_map] at he
      rcases he with he | ⟨x, _, rfl⟩
      · have := ho e he; simp; omega
      · simp
    · intro e he; have := ho e he; simp at *; omega

theorem scan_origins (h : Handover) (exec : Exec σ ε) (bs : Bytes) (s : RSt σ ε) (ho : OriginsBelow s) :
    OriginsBelow (scan h exec s bs) := by
  induction bs generalizing s with
  | nil => simpa [scan_nil] using ho
  | cons b bs ih => rw [scan_cons]; exact ih _ (stepByte_origins h exec s b ho)

theorem init_origins (x : σ) : OriginsBelow (RSt.init x : RSt σ ε) := by
  intro e he; simp [RSt.init] at he

/-! ### the switch, for an arbitrary line handler -/

/-- Input `pre ++ line ++ suffix` in any segmentation. If `pre` leaves the parser in plaintext mode at a
    line boundary and the handler answers `switch` to `line = body ++ [LF]`, then with a drained reader:
    the parser consumed exactly `pre ++ line`, the TLS layer received exactly `suffix`, the events are
    those of `pre ++ line` (none originates in `suffix`), and every origin lies inside `pre ++ line`. -/
theorem switch_generic (exec : Exec σ ε) (x : σ) (pre body suffix : Bytes) (segs : List Bytes)
    (hflat : segs.flatten = pre ++ (body ++ [10]) ++ suffix)
    (hpre : (scan .drain exec (RSt.init x) pre).mode = .plain ∧ (scan .drain exec (RSt.init x) pre).cur = [])
    (hbody : ∀ b ∈ body, b ≠ 10)
    (hsw : (exec (scan .drain exec (RSt.init x) pre).st (body ++ [10])).2.2 = .switch) :
    let r := route .drain exec (RSt.init x) segs
    r.mode = .tls ∧ r.plain = pre ++ (body ++ [10]) ∧ r.tls = suffix ∧
      r.evs = (scan .drain exec (RSt.init x) (pre ++ (body ++ [10]))).evs ∧
      (∀ e ∈ r.evs, e.1 < (pre ++ (body ++ [10])).length) := by
  intro r
  have hr : r = scan .drain exec (RSt.init x) (pre ++ (body ++ [10]) ++ suffix) := by
    show route .drain exec (RSt.init x) segs = _
    rw [route_drain_eq_scan exec segs _ (by simp [RSt.init]), hflat]
  obtain ⟨hm1, hc1⟩ := hpre
  obtain ⟨_, hp1, ht1, ho1⟩ := scan_plain .drain exec pre (RSt.init x) hm1
  -- after `pre`
  generalize hs1 : scan .drain exec (RSt.init x) pre = s1 at *
  -- after `body`
  have hs2 := scan_noLF .drain exec body s1 hm1 hbody
  -- after the LF
  have hs3 := stepByte_LF .drain exec (scan .drain exec s1 body) (by rw [hs2]; exact hm1)
  have hline : scan .drain exec s1 (body ++ [10]) = stepByte .drain exec (scan .drain exec s1 body) 10 := by
    rw [scan_append]; rfl
  have hcur : (scan .drain exec s1 body).cur = body := by rw [hs2]; simp [hc1]
  have hst : (scan .drain exec s1 body).st = s1.st := by rw [hs2]
  rw [hcur, hst, hsw] at hs3
  generalize hs3' : scan .drain exec s1 (body ++ [10]) = s3 at *
  rw [← hline] at hs3
  have hm3 : s3.mode = .tls := by rw [hs3]; rfl
  have hfin := scan_tls .drain exec suffix s3 hm3
  have hall : r = scan .drain exec s3 suffix := by
    rw [hr, scan_append, scan_append, hs1, hs3']
  have hpl : s3.plain = pre ++ (body ++ [10]) := by
    rw [hs3, hs2]; simp [hp1, RSt.init]
  have htl : s3.tls = [] := by
    rw [hs3, hs2]; simp [ht1, RSt.init]
  have hoff : s3.off = (pre ++ (body ++ [10])).length := by
    rw [hs3, hs2]; simp [ho1, RSt.init]; omega
  have hev : s3 = scan .drain exec (RSt.init x) (pre ++ (body ++ [10])) := by
    rw [scan_append, hs1, hs3']
  have horig : OriginsBelow s3 := by
    rw [hev]; exact scan_origins .drain exec _ _ (init_origins x)
  rw [hall, hfin]
  refine ⟨hm3, hpl, by simp [htl], by rw [← hev], ?_⟩
  intro e he
  have := horig e he
  rw [hoff] at this
  exact this

end GoImap.StartTLSLemmas
