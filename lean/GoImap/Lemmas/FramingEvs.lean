import GoImap.Model.Framing
import Mathlib.Tactic.SplitIfs
/-
  Event invariants of Model/Framing.lean: every function of the model only ever adds events that
  are `Good` (a buffered literal has at most 4096 octets, an accepted APPEND literal is within the
  limit, a recursive parser runs at most 2000 deep when NOT/OR nesting is bounded).
  `Ext cfg s s'` : every event of s' is an event of s or is Good.
-/
namespace GoImap.Framing

/-- `lv` = true: handler level: below `finishCommand` nothing writes a tagged reply -/
def Good (cfg : Cfg) (lv : Bool) : Event → Prop
  | .buffered n => n ≤ maxBuffered
  | .appendLit n true => n ≤ appendLimit
  | .depthAt n => cfg.fx.depth = true → n ≤ 2000
  | .close => False          -- only the epilogue of the command loop closes the connection
  | .fuel _ => False         -- no loop of the model ever runs out of fuel
  | .tagged _ _ => lv = false
  | _ => True

/-- `Ext cfg lv s s'`: s' is reached from s by consuming a prefix of the unread input (the offset
    advances by as much) and adding events in front, all of them Good -/
structure Ext (cfg : Cfg) (lv : Bool) (s s' : S) : Prop where
  evs : ∃ new, s'.evs = new ++ s.evs ∧ ∀ e ∈ new, Good cfg lv e
  suffix : ∃ c, s.inp = c ++ s'.inp ∧ s'.pos = s.pos + c.length

namespace Ext
variable {cfg : Cfg} {lv : Bool} {s s' s'' : S}

theorem good (h : Ext cfg lv s s') : ∀ e ∈ s'.evs, e ∈ s.evs ∨ Good cfg lv e := by
  obtain ⟨new, hn, hg⟩ := h.evs
  intro e he
  rw [hn, List.mem_append] at he
  rcases he with he | he
  · exact .inr (hg e he)
  · exact .inl he

theorem mono (h : Ext cfg lv s s') : ∀ e ∈ s.evs, e ∈ s'.evs := by
  obtain ⟨new, hn, _⟩ := h.evs
  intro e he
  rw [hn]; exact List.mem_append_right _ he

theorem refl : Ext cfg lv s s := ⟨⟨[], by simp⟩, [], by simp⟩

theorem trans (h1 : Ext cfg lv s s') (h2 : Ext cfg lv s' s'') : Ext cfg lv s s'' := by
  refine ⟨?_, ?_⟩
  · obtain ⟨n1, hn1, hg1⟩ := h1.evs
    obtain ⟨n2, hn2, hg2⟩ := h2.evs
    refine ⟨n2 ++ n1, by rw [hn2, hn1, List.append_assoc], ?_⟩
    intro e he
    rw [List.mem_append] at he
    rcases he with he | he
    · exact hg2 e he
    · exact hg1 e he
  · obtain ⟨c1, hc1, hp1⟩ := h1.suffix
    obtain ⟨c2, hc2, hp2⟩ := h2.suffix
    exact ⟨c1 ++ c2, by rw [hc1, hc2, List.append_assoc], by rw [hp2, hp1, List.length_append]; omega⟩

/-- a step that touches neither the events, the unread input nor the offset -/
theorem of_eq (h : s'.evs = s.evs ∧ s'.inp = s.inp ∧ s'.pos = s.pos) : Ext cfg lv s s' :=
  ⟨⟨[], by simp [h.1]⟩, [], by simp [h.2.1], by simp [h.2.2]⟩

theorem emit {e : Event} (hg : Good cfg lv e) : Ext cfg lv s (s.emit e) :=
  ⟨⟨[e], by simp [S.emit], by intro e' he; simp at he; rw [he]; exact hg⟩, [], by simp [S.emit], by simp [S.emit]⟩

theorem emit_of {e : Event} (h : Ext cfg lv s s') (hg : Good cfg lv e) : Ext cfg lv s (s'.emit e) :=
  h.trans (emit hg)

theorem take (k : Nat) (r : Role) : Ext cfg lv s (s.take k r) := by
  refine ⟨⟨[], by simp [S.take]⟩, s.inp.take (min k s.inp.length), ?_, ?_⟩
  · simp [S.take]
  · simp only [S.take, List.length_take]; omega

theorem length_le (h : Ext cfg lv s s') : s'.inp.length ≤ s.inp.length := by
  obtain ⟨c, hc, _⟩ := h.suffix
  rw [hc, List.length_append]; omega

end Ext

@[simp] theorem fail_evs (s : S) (e : Err) : (s.fail e).evs = s.evs := by
  unfold S.fail; split <;> rfl
@[simp] theorem fail_inp (s : S) (e : Err) : (s.fail e).inp = s.inp := by
  unfold S.fail; split <;> rfl
@[simp] theorem fail_pos (s : S) (e : Err) : (s.fail e).pos = s.pos := by
  unfold S.fail; split <;> rfl

@[simp] theorem expect_evs (s : S) (b : Bool) : (s.expect b).evs = s.evs := by
  unfold S.expect; split <;> simp
@[simp] theorem expect_inp (s : S) (b : Bool) : (s.expect b).inp = s.inp := by
  unfold S.expect; split <;> simp
@[simp] theorem expect_pos (s : S) (b : Bool) : (s.expect b).pos = s.pos := by
  unfold S.expect; split <;> simp

theorem fail_ext {cfg} {lv : Bool} (s : S) (e : Err) : Ext cfg lv s (s.fail e) := .of_eq (by simp)

theorem sawEof_ext {cfg} {lv : Bool} (s : S) : Ext cfg lv s s.sawEof := by
  unfold S.sawEof
  exact (Ext.emit (by trivial)).trans (fail_ext _ _)

theorem look_ext {cfg} {lv : Bool} {s : S} {r s1} (h : s.look = (r, s1)) : Ext cfg lv s s1 := by
  unfold S.look at h
  dsimp only at h
  split at h
  · cases h; exact .of_eq (by simp)
  · split at h
    · cases h; exact Ext.trans (s' := { s with crlf := false }) (.of_eq ⟨rfl, rfl, rfl⟩) (sawEof_ext _)
    · cases h; exact .of_eq ⟨rfl, rfl, rfl⟩

theorem accept_ext {cfg} {lv : Bool} {s : S} {w : Nat} {r s1} (h : s.accept w = (r, s1)) : Ext cfg lv s s1 := by
  unfold S.accept at h
  split at h
  · rename_i b s2 heq
    split at h
    · cases h; exact (look_ext heq).trans (Ext.take _ _)
    · cases h; exact look_ext heq
  · rename_i s2 heq
    cases h; exact look_ext heq

theorem func_ext {cfg} {lv : Bool} {s : S} {valid : Nat → Bool} {r s1} (h : s.func valid = (r, s1)) : Ext cfg lv s s1 := by
  unfold S.func at h
  dsimp only at h
  split at h
  · cases h; exact .of_eq (by simp)
  · split at h
    · cases h
      refine Ext.trans ?_ (sawEof_ext _)
      refine Ext.trans ?_ (Ext.take _ _)
      exact .of_eq ⟨rfl, rfl, rfl⟩
    · split at h <;>
        (cases h
         refine Ext.trans ?_ (Ext.take _ _)
         exact .of_eq ⟨rfl, rfl, rfl⟩)

theorem expectAtom_ext {cfg} {lv : Bool} {s : S} {r s1} (h : s.expectAtom = (r, s1)) : Ext cfg lv s s1 := by
  unfold S.expectAtom at h
  split at h
  · rename_i a s2 heq; cases h; exact func_ext heq
  · rename_i s2 heq; cases h; exact (func_ext heq).trans (fail_ext _ _)

theorem sp_ext {cfg} {lv : Bool} {s : S} {r s1} (h : s.sp = (r, s1)) : Ext cfg lv s s1 := by
  unfold S.sp at h
  split at h
  · rename_i s2 heq
    split at h
    · rename_i b s3 heq2; cases h; exact (accept_ext heq).trans (look_ext heq2)
    · rename_i s3 heq2; cases h; exact (accept_ext heq).trans (look_ext heq2)
  · rename_i s2 heq
    split at h
    · rename_i b s3 heq2; cases h; exact (accept_ext heq).trans (look_ext heq2)
    · rename_i s3 heq2; cases h; exact (accept_ext heq).trans (look_ext heq2)

theorem expectSP_ext {cfg} {lv : Bool} {s : S} {r s1} (h : s.expectSP = (r, s1)) : Ext cfg lv s s1 := by
  unfold S.expectSP at h
  generalize hsp : s.sp = p at h
  obtain ⟨ok, s2⟩ := p
  cases h
  exact (sp_ext hsp).trans (.of_eq (by simp))

theorem crlfP_ext {cfg} {lv : Bool} {s : S} {r s1} (h : s.crlfP = (r, s1)) : Ext cfg lv s s1 := by
  unfold S.crlfP at h
  have h123 : Ext cfg lv s (((s.accept 32).2.accept 13).2.accept 10).2 :=
    ((accept_ext rfl).trans (accept_ext rfl)).trans (accept_ext rfl)
  dsimp only at h
  split at h
  · cases h
    split
    · exact h123.trans ((Ext.emit (by trivial)).trans (.of_eq ⟨rfl, rfl, rfl⟩))
    · exact h123.trans (.of_eq ⟨rfl, rfl, rfl⟩)
  · cases h; exact h123

theorem expectCRLF_ext {cfg} {lv : Bool} {s : S} {r s1} (h : s.expectCRLF = (r, s1)) : Ext cfg lv s s1 := by
  unfold S.expectCRLF at h
  generalize hsp : s.crlfP = p at h
  obtain ⟨ok, s2⟩ := p
  cases h
  exact (crlfP_ext hsp).trans (.of_eq (by simp))

theorem quoted_ext {cfg} {lv : Bool} {s : S} {r s1} (h : s.quoted = (r, s1)) : Ext cfg lv s s1 := by
  unfold S.quoted at h
  split at h
  · rename_i s2 heq; cases h; exact accept_ext heq
  · rename_i s2 heq
    split at h
    · cases h; exact (accept_ext heq).trans ((Ext.take _ _).trans (sawEof_ext _))
    · rename_i v n _
      cases h
      split
      · exact (accept_ext heq).trans ((Ext.take _ _).trans (Ext.emit (by trivial)))
      · exact (accept_ext heq).trans (Ext.take _ _)

theorem number64_ext {cfg} {lv : Bool} {s : S} {r s1} (h : s.number64 = (r, s1)) : Ext cfg lv s s1 := by
  unfold S.number64 at h
  split at h
  · rename_i ds s2 heq
    split at h <;> (cases h; exact func_ext heq)
  · rename_i s2 heq; cases h; exact func_ext heq

theorem literalReader_ext {cfg} {lv : Bool} {fx : Fixes} {s : S} {r s1} (h : s.literalReader fx = (r, s1)) : Ext cfg lv s s1 := by
  unfold S.literalReader at h
  split at h
  · rename_i s2 heq; cases h; exact accept_ext heq
  · rename_i s2 heq
    split at h
    · rename_i s3 heq2; cases h; exact ((accept_ext heq).trans (number64_ext heq2)).trans (fail_ext _ _)
    · rename_i n s3 heq2
      have h5 : Ext cfg lv s ((s3.accept 43).2.accept 125).2 :=
        (((accept_ext heq).trans (number64_ext heq2)).trans (accept_ext rfl)).trans (accept_ext rfl)
      dsimp only at h
      split at h
      · cases h; exact h5.trans (fail_ext _ _)
      · have h6 : Ext cfg lv s (((s3.accept 43).2.accept 125).2.expectCRLF).2 := h5.trans (expectCRLF_ext rfl)
        split at h
        · cases h; exact h6
        · cases h; exact h6.trans (.of_eq ⟨rfl, rfl, rfl⟩)

theorem acceptLiteral_ext {cfg} {lv : Bool} {n : Nat} {ns : Bool} {s : S} {r s1}
    (h : acceptLiteral cfg n ns s = (r, s1)) : Ext cfg lv s s1 := by
  unfold acceptLiteral at h
  split at h
  · cases h; exact .refl
  · split at h
    · cases h; exact .refl
    · cases h; exact Ext.emit (by trivial)

theorem checkBufferedLiteral_ext {cfg} {lv : Bool} {n : Nat} {ns : Bool} {s : S} {r s1}
    (h : checkBufferedLiteral cfg n ns s = (r, s1)) : Ext cfg lv s s1 := by
  unfold checkBufferedLiteral at h
  split at h
  · cases h; exact .refl
  · exact acceptLiteral_ext h

theorem checkBufferedLiteral_ok {cfg} {n : Nat} {ns : Bool} {s : S} {s1}
    (h : checkBufferedLiteral cfg n ns s = (none, s1)) : n ≤ maxBuffered := by
  unfold checkBufferedLiteral at h
  split at h
  · cases h
  · omega

theorem payload_ext {cfg} {lv : Bool} {s : S} {n : Nat} {r s1} (h : s.payload n = (r, s1)) : Ext cfg lv s s1 := by
  unfold S.payload at h
  dsimp only at h
  cases h
  have e1 : Ext cfg lv s ({ (s.take (s.inp.take n).length .payload) with lit := none } : S) :=
    Ext.trans (Ext.take (s.inp.take n).length .payload) (.of_eq ⟨rfl, rfl, rfl⟩)
  split
  · exact e1.trans (Ext.emit (by trivial))
  · exact e1

theorem literal_ext {cfg} {lv : Bool} {s : S} {r s1} (h : s.literal cfg = (r, s1)) : Ext cfg lv s s1 := by
  unfold S.literal at h
  split at h
  · rename_i s2 heq; cases h; exact literalReader_ext heq
  · rename_i n ns s2 heq
    split at h
    · rename_i e s3 heq2
      split at h
      · cases h; exact ((literalReader_ext heq).trans (checkBufferedLiteral_ext heq2)).trans (fail_ext _ _)
      · cases h; exact ((literalReader_ext heq).trans (checkBufferedLiteral_ext heq2)).trans (.of_eq ⟨rfl, rfl, rfl⟩)
    · rename_i s3 heq2
      generalize h4 : s3.payload n = p4 at h
      obtain ⟨v, s4⟩ := p4
      cases h
      exact (((literalReader_ext heq).trans (checkBufferedLiteral_ext heq2)).trans (payload_ext h4)).trans
        (Ext.emit (checkBufferedLiteral_ok heq2))

theorem astring_ext {cfg} {lv : Bool} {s : S} {r s1} (h : s.astring cfg = (r, s1)) : Ext cfg lv s s1 := by
  unfold S.astring at h
  split at h
  · rename_i v s2 heq; cases h; exact quoted_ext heq
  · rename_i s2 heq
    split at h
    · rename_i v s3 heq2; cases h; exact (quoted_ext heq).trans (literal_ext heq2)
    · rename_i s3 heq2
      split at h
      · cases h; exact (quoted_ext heq).trans (literal_ext heq2)
      · exact ((quoted_ext heq).trans (literal_ext heq2)).trans (expectAtom_ext h)

theorem mailbox_ext {cfg} {lv : Bool} {s : S} {r s1} (h : s.mailbox cfg = (r, s1)) : Ext cfg lv s s1 := by
  unfold S.mailbox at h
  split at h
  · rename_i s2 heq; cases h; exact astring_ext heq
  · rename_i v s2 heq
    split at h
    · cases h; exact astring_ext heq
    · cases h; exact (astring_ext heq).trans (fail_ext _ _)

theorem textP_ext {cfg} {lv : Bool} {s : S} {r s1} (h : s.textP = (r, s1)) : Ext cfg lv s s1 := by
  unfold S.textP at h
  split at h
  · rename_i t s2 heq; cases h; exact (func_ext heq).trans (.of_eq ⟨rfl, rfl, rfl⟩)
  · rename_i s2 heq; cases h; exact func_ext heq

theorem discardLine_ext {cfg} {lv : Bool} {fx : Fixes} (s : S) : Ext cfg lv s (s.discardLine fx) := by
  unfold S.discardLine
  split
  · exact .refl
  · have h2 : Ext cfg lv s (s.textP.2.crlfP).2 := (textP_ext rfl).trans (crlfP_ext rfl)
    dsimp only
    split
    · exact h2.trans (.of_eq ⟨rfl, rfl, rfl⟩)
    · exact h2

/-! ## listDepth is only touched by the list parsers -/

@[simp] theorem fail_ld (s : S) (e : Err) : (s.fail e).listDepth = s.listDepth := by
  unfold S.fail; split <;> rfl

@[simp] theorem expect_ld (s : S) (b : Bool) : (s.expect b).listDepth = s.listDepth := by
  unfold S.expect; split <;> simp

@[simp] theorem sawEof_ld (s : S) : s.sawEof.listDepth = s.listDepth := by
  unfold S.sawEof; simp [S.emit]

theorem look_ld {s : S} {r s1} (h : s.look = (r, s1)) : s1.listDepth = s.listDepth := by
  unfold S.look at h
  dsimp only at h
  split at h
  · cases h; simp
  · split at h <;> (cases h; simp)

theorem accept_ld {s : S} {w : Nat} {r s1} (h : s.accept w = (r, s1)) : s1.listDepth = s.listDepth := by
  unfold S.accept at h
  split at h
  · rename_i b s2 heq
    split at h <;> (cases h; simp [S.take, look_ld heq])
  · rename_i s2 heq
    cases h; exact look_ld heq

theorem func_ld {s : S} {valid : Nat → Bool} {r s1} (h : s.func valid = (r, s1)) : s1.listDepth = s.listDepth := by
  unfold S.func at h
  dsimp only at h
  split at h
  · cases h; simp
  · split at h
    · cases h; simp [S.take]
    · split at h <;> (cases h; simp [S.take])

theorem sp_ld {s : S} {r s1} (h : s.sp = (r, s1)) : s1.listDepth = s.listDepth := by
  unfold S.sp at h
  split at h
  · rename_i s2 heq
    split at h
    · rename_i b s3 heq2; cases h; rw [look_ld heq2, accept_ld heq]
    · rename_i s3 heq2; cases h; rw [look_ld heq2, accept_ld heq]
  · rename_i s2 heq
    split at h
    · rename_i b s3 heq2; cases h; rw [look_ld heq2, accept_ld heq]
    · rename_i s3 heq2; cases h; rw [look_ld heq2, accept_ld heq]

theorem expectSP_ld {s : S} {r s1} (h : s.expectSP = (r, s1)) : s1.listDepth = s.listDepth := by
  unfold S.expectSP at h
  cases h
  simp [sp_ld (rfl : s.sp = (s.sp.1, s.sp.2))]

/-! ## the recursive search-key parser -/

theorem func_some_lt {s : S} {valid : Nat → Bool} {t s1} (h : s.func valid = (some t, s1)) :
    s1.inp.length < s.inp.length := by
  unfold S.func at h
  dsimp only at h
  split at h
  · cases h
  · split at h
    · cases h
    · split at h
      · cases h
      · rename_i hne hne2
        cases h
        simp only [S.take, List.length_drop]
        have : (List.takeWhile valid s.inp).length ≠ 0 := by
          intro h0; apply hne2; simpa using h0
        have hle : (List.takeWhile valid s.inp).length ≤ s.inp.length := by
          have := List.takeWhile_sublist (p := valid) (l := s.inp)
          exact this.length_le
        omega

theorem accept_true_lt {s : S} {w : Nat} {s1} (h : s.accept w = (true, s1)) : s1.inp.length < s.inp.length := by
  unfold S.accept at h
  split at h
  · rename_i b s2 heq
    unfold S.look at heq
    dsimp only at heq
    split at heq
    · cases heq
    · split at heq
      · cases heq
      · rename_i b' r hinp
        cases heq
        split at h
        · cases h
          simp only [S.take, hinp, List.length_cons, List.length_drop]
          omega
        · cases h
  · cases h

theorem expectAtom_some_lt {s : S} {a s1} (h : s.expectAtom = (some a, s1)) : s1.inp.length < s.inp.length := by
  unfold S.expectAtom at h
  split at h
  · rename_i a' s2 heq; cases h; exact func_some_lt heq
  · cases h

/-- what the three mutually recursive functions guarantee when their fuel covers twice the unread
    input: good events only (in particular no `fuel` event), listDepth restored, and a successful
    key consumes at least one octet -/
def SearchOK (cfg : Cfg) (lv : Bool) (fuel : Nat) : Prop :=
  (∀ d cur s r s1, cur = 1 + d + s.listDepth → (cfg.fx.depth = true → d ≤ 1000) → s.listDepth ≤ 999 →
      2 * s.inp.length + 3 ≤ fuel →
      searchKey cfg fuel d cur s = (r, s1) → Ext cfg lv s s1 ∧ s1.listDepth = s.listDepth ∧
        (r = none → s1.inp.length < s.inp.length)) ∧
  (∀ d cur s r s1, cur = 1 + d + s.listDepth → (cfg.fx.depth = true → d ≤ 1000) → s.listDepth ≤ 999 →
      2 * s.inp.length + 4 ≤ fuel →
      searchList cfg fuel d cur s = (r, s1) → Ext cfg lv s s1 ∧ s1.listDepth = s.listDepth) ∧
  (∀ d cur k s r s1, cur = 1 + d + s.listDepth → (cfg.fx.depth = true → d ≤ 1000) → s.listDepth ≤ 999 →
      2 * s.inp.length + 4 ≤ fuel →
      searchKeyAtom cfg fuel d cur k s = (r, s1) → Ext cfg lv s s1 ∧ s1.listDepth = s.listDepth)

theorem searchOK (cfg : Cfg) (lv : Bool) : ∀ fuel, SearchOK cfg lv fuel := by
  intro fuel
  induction fuel with
  | zero =>
    refine ⟨?_, ?_, ?_⟩
    · intro d cur s r s1 _ _ _ hf; omega
    · intro d cur s r s1 _ _ _ hf; omega
    · intro d cur k s r s1 _ _ _ hf; omega
  | succ fuel ih =>
    obtain ⟨ihK, ihL, ihA⟩ := ih
    refine ⟨?_, ?_, ?_⟩
    · -- searchKey
      intro d cur s r s1 hcur hd hl hf h
      simp only [searchKey] at h
      have hen : Ext cfg lv s (s.enter cur) := by
        unfold S.enter
        refine Ext.emit ?_
        intro hdep
        have := hd hdep
        show cur ≤ 2000
        omega
      have henl : (s.enter cur).listDepth = s.listDepth := rfl
      have heni : (s.enter cur).inp = s.inp := rfl
      split at h
      · rename_i k s2 heq
        have hlt2 : s2.inp.length < s.inp.length := by have := func_some_lt heq; rwa [heni] at this
        have hA := ihA d cur k s2 r s1 (by rw [func_ld heq, henl]; exact hcur) hd (by rw [func_ld heq, henl]; exact hl)
          (by omega) h
        have := hA.1.length_le
        exact ⟨hen.trans ((func_ext heq).trans hA.1), by rw [hA.2, func_ld heq, henl], fun _ => by omega⟩
      · rename_i s2 heq
        have e2 : Ext cfg lv s s2 := hen.trans (func_ext heq)
        have l2 : s2.listDepth = s.listDepth := by rw [func_ld heq, henl]
        have n2 := e2.length_le
        split at h
        · rename_i s3 heq3
          cases h
          refine ⟨e2.trans ((accept_ext heq3).trans (.of_eq (by simp))), by simp [accept_ld heq3, l2], ?_⟩
          intro hr
          -- the result is the decoder error after Expect(false): never none
          exfalso
          unfold S.expect S.fail at hr
          simp only [Bool.false_eq_true, if_false] at hr
          split at hr
          · rename_i hsome; rw [hr] at hsome; simp at hsome
          · simp at hr
        · rename_i s3 heq3
          have e3 : Ext cfg lv s s3 := e2.trans (accept_ext heq3)
          have l3 : s3.listDepth = s.listDepth := by rw [accept_ld heq3, l2]
          have n3 : s3.inp.length < s.inp.length := by have := accept_true_lt heq3; omega
          split at h
          · rename_i s4 heq4
            cases h
            have := (accept_ext (cfg := cfg) (lv := lv) heq4).length_le
            exact ⟨e3.trans (accept_ext heq4), by rw [accept_ld heq4, l3], fun _ => by omega⟩
          · rename_i s4 heq4
            have e4 : Ext cfg lv s s4 := e3.trans (accept_ext heq4)
            have l4 : s4.listDepth = s.listDepth := by rw [accept_ld heq4, l3]
            have n4 : s4.inp.length < s.inp.length := by
              have := (accept_ext (cfg := cfg) (lv := lv) heq4).length_le; omega
            split at h
            · cases h
              exact ⟨e4.trans (.of_eq ⟨rfl, rfl, rfl⟩), by simp [l4], fun hr => by cases hr⟩
            · rename_i hlt
              generalize hL : searchList cfg fuel d (cur + 1) { s4 with listDepth := s4.listDepth + 1 } = pL at h
              obtain ⟨e, s5⟩ := pL
              cases h
              have hlt' : ¬ (s4.listDepth + 1 ≥ maxListDepth) := hlt
              have hL' := ihL d (cur + 1) { s4 with listDepth := s4.listDepth + 1 } e s5
                (by simp only [l4]; omega) hd (by simp only [maxListDepth] at hlt'; simp only; omega)
                (by show 2 * s4.inp.length + 4 ≤ fuel; omega) hL
              have e5 : Ext cfg lv s4 s5 :=
                Ext.trans (s' := { s4 with listDepth := s4.listDepth + 1 }) (.of_eq ⟨rfl, rfl, rfl⟩) hL'.1
              have n5 := e5.length_le
              refine ⟨e4.trans (Ext.trans e5 (.of_eq ⟨rfl, rfl, rfl⟩)), ?_, fun _ => by show s5.inp.length < s.inp.length; omega⟩
              simp only [hL'.2, l4]
              omega
    · -- searchList
      intro d cur s r s1 hcur hd hl hf h
      simp only [searchList] at h
      split at h
      · rename_i e s2 heq
        cases h
        have hK := ihK d cur s _ _ hcur hd hl (by omega) heq
        exact ⟨hK.1, hK.2.1⟩
      · rename_i s2 heq
        have hK := ihK d cur s _ _ hcur hd hl (by omega) heq
        have n2 := hK.2.2 rfl
        split at h
        · rename_i s3 heq3
          cases h
          exact ⟨hK.1.trans (accept_ext heq3), by rw [accept_ld heq3, hK.2.1]⟩
        · rename_i s3 heq3
          have e3 : Ext cfg lv s s3 := hK.1.trans (accept_ext heq3)
          have l3 : s3.listDepth = s.listDepth := by rw [accept_ld heq3, hK.2.1]
          have n3 := (accept_ext (cfg := cfg) (lv := lv) heq3).length_le
          split at h
          · rename_i s4 heq4
            cases h
            exact ⟨e3.trans (expectSP_ext heq4), by rw [expectSP_ld heq4, l3]⟩
          · rename_i s4 heq4
            have l4 : s4.listDepth = s.listDepth := by rw [expectSP_ld heq4, l3]
            have n4 := (expectSP_ext (cfg := cfg) (lv := lv) heq4).length_le
            have hL := ihL d cur s4 r s1 (by rw [l4]; exact hcur) hd (by rw [l4]; exact hl) (by omega) h
            exact ⟨(e3.trans (expectSP_ext heq4)).trans hL.1, by rw [hL.2, l4]⟩
    · -- searchKeyAtom
      intro d cur k s r s1 hcur hd hl hf h
      simp only [searchKeyAtom] at h
      split at h
      · cases h; exact ⟨.refl, rfl⟩
      · cases h; exact ⟨Ext.emit (by trivial), rfl⟩
      · split at h
        · cases h; exact ⟨.refl, rfl⟩
        · rename_i hnot
          have hd' : cfg.fx.depth = true → d + 1 ≤ 1000 := by
            intro hdep
            have : ¬ (d ≥ maxSearchKeyDepth) := by
              intro hge; apply hnot; simp [hdep, hge]
            simp only [maxSearchKeyDepth] at this
            omega
          split at h
          · rename_i s2 heq
            cases h
            exact ⟨expectSP_ext heq, expectSP_ld heq⟩
          · rename_i s2 heq
            have l2 := expectSP_ld heq
            have n2 := (expectSP_ext (cfg := cfg) (lv := lv) heq).length_le
            have hK := ihK (d + 1) (cur + 1) s2 r s1 (by rw [l2]; omega) hd' (by rw [l2]; exact hl) (by omega) h
            exact ⟨(expectSP_ext heq).trans hK.1, by rw [hK.2.1, l2]⟩
      · split at h
        · cases h; exact ⟨.refl, rfl⟩
        · rename_i hnot
          have hd' : cfg.fx.depth = true → d + 1 ≤ 1000 := by
            intro hdep
            have : ¬ (d ≥ maxSearchKeyDepth) := by
              intro hge; apply hnot; simp [hdep, hge]
            simp only [maxSearchKeyDepth] at this
            omega
          split at h
          · rename_i s2 heq
            cases h
            exact ⟨expectSP_ext heq, expectSP_ld heq⟩
          · rename_i s2 heq
            have l2 := expectSP_ld heq
            have n2 := (expectSP_ext (cfg := cfg) (lv := lv) heq).length_le
            split at h
            · rename_i e s3 heq3
              cases h
              have hK := ihK (d + 1) (cur + 1) s2 _ _ (by rw [l2]; omega) hd' (by rw [l2]; exact hl) (by omega) heq3
              exact ⟨(expectSP_ext heq).trans hK.1, by rw [hK.2.1, l2]⟩
            · rename_i s3 heq3
              have hK := ihK (d + 1) (cur + 1) s2 _ _ (by rw [l2]; omega) hd' (by rw [l2]; exact hl) (by omega) heq3
              have l3 : s3.listDepth = s.listDepth := by rw [hK.2.1, l2]
              have n3 := hK.1.length_le
              split at h
              · rename_i s4 heq4
                cases h
                exact ⟨((expectSP_ext heq).trans hK.1).trans (expectSP_ext heq4), by rw [expectSP_ld heq4, l3]⟩
              · rename_i s4 heq4
                have l4 : s4.listDepth = s.listDepth := by rw [expectSP_ld heq4, l3]
                have n4 := (expectSP_ext (cfg := cfg) (lv := lv) heq4).length_le
                have hK2 := ihK (d + 1) (cur + 1) s4 r s1 (by rw [l4]; omega) hd' (by rw [l4]; exact hl) (by omega) h
                exact ⟨(((expectSP_ext heq).trans hK.1).trans (expectSP_ext heq4)).trans hK2.1, by rw [hK2.2.1, l4]⟩

/-! ## the other loops and the handlers -/

theorem flagItems_ext {cfg} {lv : Bool} : ∀ (fuel : Nat) (s : S) r s1, s.inp.length < fuel →
    flagItems fuel s = (r, s1) → Ext cfg lv s s1 := by
  intro fuel
  induction fuel with
  | zero => intro s r s1 hf; omega
  | succ fuel ih =>
    intro s r s1 hf h
    simp only [flagItems] at h
    have e1 : Ext cfg lv s (s.accept 92).2 := accept_ext rfl
    generalize (s.accept 92) = p1 at h e1
    obtain ⟨sys, s2⟩ := p1
    dsimp only at h e1
    have e2 : Ext cfg lv s (if sys = true then s2.accept 42 else (false, s2)).2 ∧
        ((if sys = true then s2.accept 42 else (false, s2)).1 = true →
          (if sys = true then s2.accept 42 else (false, s2)).2.inp.length < s.inp.length) := by
      split
      · refine ⟨e1.trans (accept_ext rfl), fun hstar => ?_⟩
        have := accept_true_lt (Prod.ext hstar rfl : s2.accept 42 = (true, (s2.accept 42).2))
        have := e1.length_le
        omega
      · exact ⟨e1, fun hf => by cases hf⟩
    generalize (if sys = true then s2.accept 42 else (false, s2)) = p2 at h e2
    obtain ⟨star, s3⟩ := p2
    dsimp only at h e2
    obtain ⟨e2, hstar⟩ := e2
    have e3 : Ext cfg lv s (if star = true then ((none : Option Err), s3) else
        match s3.expectAtom with
        | (some _, s) => (none, s)
        | (none, s) => (s.err, s)).2 ∧
        ((if star = true then ((none : Option Err), s3) else
        match s3.expectAtom with
        | (some _, s) => (none, s)
        | (none, s) => (s.err, s)).1 = none →
         (if star = true then ((none : Option Err), s3) else
        match s3.expectAtom with
        | (some _, s) => (none, s)
        | (none, s) => (s.err, s)).2.inp.length < s.inp.length) := by
      split
      · rename_i hs; exact ⟨e2, fun _ => hstar hs⟩
      · split
        · rename_i heq
          refine ⟨e2.trans (expectAtom_ext heq), fun _ => ?_⟩
          have := expectAtom_some_lt heq
          have := e2.length_le
          dsimp only
          omega
        · rename_i s4 heq
          refine ⟨e2.trans (expectAtom_ext heq), fun hn => ?_⟩
          -- the error of a failed ExpectAtom is set: never none
          exfalso
          unfold S.expectAtom at heq
          split at heq
          · cases heq
          · rename_i s5 h5
            cases heq
            dsimp only at hn
            unfold S.fail at hn
            split at hn
            · rename_i hsome; rw [hn] at hsome; simp at hsome
            · simp at hn
    generalize (if star = true then ((none : Option Err), s3) else
        match s3.expectAtom with
        | (some _, s) => (none, s)
        | (none, s) => (s.err, s)) = p3 at h e3
    obtain ⟨e, s4⟩ := p3
    dsimp only at h e3
    obtain ⟨e3, hprog⟩ := e3
    split at h
    · cases h; exact e3
    · have n4 := hprog rfl
      split at h
      · rename_i s5 heq; cases h; exact e3.trans (accept_ext heq)
      · rename_i s5 heq
        split at h
        · rename_i s6 heq6; cases h; exact (e3.trans (accept_ext heq)).trans (expectSP_ext heq6)
        · rename_i s6 heq6
          have n5 := (accept_ext (cfg := cfg) (lv := lv) heq).length_le
          have n6 := (expectSP_ext (cfg := cfg) (lv := lv) heq6).length_le
          exact ((e3.trans (accept_ext heq)).trans (expectSP_ext heq6)).trans (ih _ _ _ (by omega) h)

theorem flagList_ext {cfg} {lv : Bool} {s : S} {b r s1} (h : s.flagList = (b, r, s1)) : Ext cfg lv s s1 := by
  unfold S.flagList at h
  split at h
  · rename_i s2 heq; cases h; exact accept_ext heq
  · rename_i s2 heq
    split at h
    · rename_i s3 heq3; cases h; exact (accept_ext heq).trans (accept_ext heq3)
    · rename_i s3 heq3
      dsimp only at h
      cases h
      refine ((accept_ext heq).trans (accept_ext heq3)).trans ?_
      have e1 : Ext cfg lv s3 (S.enter { s3 with listDepth := s3.listDepth + 1 } 1) := by
        refine Ext.trans (s' := { s3 with listDepth := s3.listDepth + 1 }) (.of_eq ⟨rfl, rfl, rfl⟩) ?_
        unfold S.enter
        exact Ext.emit (show Good cfg lv (.depthAt 1) from fun _ => by omega)
      exact (e1.trans (flagItems_ext _ _ _ _ (Nat.lt_succ_self _) rfl)).trans (.of_eq ⟨rfl, rfl, rfl⟩)

theorem noArgs_ext {cfg} {lv : Bool} {s : S} {body : S → Option Err × S} {r s1}
    (hb : ∀ s r s1, body s = (r, s1) → Ext cfg lv s s1) (h : noArgs s body = (r, s1)) : Ext cfg lv s s1 := by
  unfold noArgs at h
  split at h
  · rename_i s2 heq; cases h; exact expectCRLF_ext heq
  · rename_i s2 heq; exact (expectCRLF_ext heq).trans (hb _ _ _ h)

theorem needAuth_ext {cfg} {lv : Bool} {s : S} {k : S → Option Err × S} {r s1}
    (hb : ∀ s r s1, k s = (r, s1) → Ext cfg lv s s1) (h : needAuth s k = (r, s1)) : Ext cfg lv s s1 := by
  unfold needAuth at h
  split at h
  · exact hb _ _ _ h
  · cases h; exact .refl

theorem oneMailbox_ext {cfg} {lv : Bool} {s : S} {body : Bytes → S → Option Err × S} {r s1}
    (hb : ∀ m s r s1, body m s = (r, s1) → Ext cfg lv s s1) (h : oneMailbox cfg s body = (r, s1)) : Ext cfg lv s s1 := by
  unfold oneMailbox at h
  split at h
  · rename_i s2 heq; cases h; exact expectSP_ext heq
  · rename_i s2 heq
    split at h
    · rename_i s3 heq3; cases h; exact (expectSP_ext heq).trans (mailbox_ext heq3)
    · rename_i m s3 heq3
      split at h
      · rename_i s4 heq4; cases h; exact ((expectSP_ext heq).trans (mailbox_ext heq3)).trans (expectCRLF_ext heq4)
      · rename_i s4 heq4
        exact (((expectSP_ext heq).trans (mailbox_ext heq3)).trans (expectCRLF_ext heq4)).trans (hb _ _ _ _ h)

theorem emitCall_ext {cfg} {lv : Bool} (s : S) (fn : Fn) (args : List Bytes) : Ext cfg lv s (s.emit (call fn args)) :=
  Ext.emit (by unfold call; trivial)

theorem hLogin_ext {cfg} {lv : Bool} {s : S} {r s1} (h : hLogin cfg s = (r, s1)) : Ext cfg lv s s1 := by
  unfold hLogin at h
  split at h
  · rename_i s2 h2; cases h; exact expectSP_ext h2
  · rename_i s2 h2
    split at h
    · rename_i s3 h3; cases h; exact (expectSP_ext h2).trans (astring_ext h3)
    · rename_i u s3 h3
      split at h
      · rename_i s4 h4; cases h; exact ((expectSP_ext h2).trans (astring_ext h3)).trans (expectSP_ext h4)
      · rename_i s4 h4
        split at h
        · rename_i s5 h5; cases h
          exact (((expectSP_ext h2).trans (astring_ext h3)).trans (expectSP_ext h4)).trans (astring_ext h5)
        · rename_i p s5 h5
          have e5 := (((expectSP_ext (cfg := cfg) (lv := lv) h2).trans (astring_ext h3)).trans (expectSP_ext h4)).trans (astring_ext h5)
          split at h
          · rename_i s6 h6; cases h; exact e5.trans (expectCRLF_ext h6)
          · rename_i s6 h6
            split at h
            · cases h; exact e5.trans (expectCRLF_ext h6)
            · cases h; exact (e5.trans (expectCRLF_ext h6)).trans ((emitCall_ext _ _ _).trans (.of_eq ⟨rfl, rfl, rfl⟩))

theorem hSelect_ext {cfg} {lv : Bool} {ro : Bool} {s : S} {r s1} (h : hSelect cfg ro s = (r, s1)) : Ext cfg lv s s1 := by
  unfold hSelect at h
  refine oneMailbox_ext ?_ h
  intro m s r s1 h
  refine needAuth_ext ?_ h
  intro s r s1 h
  dsimp only at h
  cases h
  split
  · exact ((emitCall_ext _ _ _).trans (.of_eq ⟨rfl, rfl, rfl⟩)).trans ((emitCall_ext _ _ _).trans (.of_eq ⟨rfl, rfl, rfl⟩))
  · exact (emitCall_ext _ _ _).trans (.of_eq ⟨rfl, rfl, rfl⟩)

theorem hCreate_ext {cfg} {lv : Bool} {s : S} {r s1} (h : hCreate cfg s = (r, s1)) : Ext cfg lv s s1 := by
  unfold hCreate at h
  split at h
  · rename_i s2 h2; cases h; exact expectSP_ext h2
  · rename_i s2 h2
    split at h
    · rename_i s3 h3; cases h; exact (expectSP_ext h2).trans (mailbox_ext h3)
    · rename_i m s3 h3
      split at h
      · rename_i s4 h4; cases h
        exact ((expectSP_ext h2).trans (mailbox_ext h3)).trans ((sp_ext h4).trans (Ext.emit (by trivial)))
      · rename_i s4 h4
        have e4 := ((expectSP_ext (cfg := cfg) (lv := lv) h2).trans (mailbox_ext h3)).trans (sp_ext h4)
        split at h
        · rename_i s5 h5; cases h; exact e4.trans (expectCRLF_ext h5)
        · rename_i s5 h5
          refine (e4.trans (expectCRLF_ext h5)).trans (needAuth_ext ?_ h)
          intro s r s1 h; cases h; exact emitCall_ext _ _ _

theorem hRename_ext {cfg} {lv : Bool} {s : S} {r s1} (h : hRename cfg s = (r, s1)) : Ext cfg lv s s1 := by
  unfold hRename at h
  split at h
  · rename_i s2 h2; cases h; exact expectSP_ext h2
  · rename_i s2 h2
    split at h
    · rename_i s3 h3; cases h; exact (expectSP_ext h2).trans (mailbox_ext h3)
    · rename_i a s3 h3
      split at h
      · rename_i s4 h4; cases h; exact ((expectSP_ext h2).trans (mailbox_ext h3)).trans (expectSP_ext h4)
      · rename_i s4 h4
        split at h
        · rename_i s5 h5; cases h
          exact (((expectSP_ext h2).trans (mailbox_ext h3)).trans (expectSP_ext h4)).trans (mailbox_ext h5)
        · rename_i b s5 h5
          have e5 := (((expectSP_ext (cfg := cfg) (lv := lv) h2).trans (mailbox_ext h3)).trans (expectSP_ext h4)).trans (mailbox_ext h5)
          split at h
          · rename_i s6 h6; cases h; exact e5.trans (expectCRLF_ext h6)
          · rename_i s6 h6
            refine (e5.trans (expectCRLF_ext h6)).trans (needAuth_ext ?_ h)
            intro s r s1 h; cases h; exact emitCall_ext _ _ _

theorem enableArgs_ext {cfg} {lv : Bool} : ∀ (fuel : Nat) (s : S) r s1, s.inp.length < fuel →
    enableArgs fuel s = (r, s1) → Ext cfg lv s s1 := by
  intro fuel
  induction fuel with
  | zero => intro s r s1 hf; omega
  | succ fuel ih =>
    intro s r s1 hf h
    simp only [enableArgs] at h
    split at h
    · rename_i s2 h2
      split at h
      · rename_i s3 h3; cases h; exact (sp_ext h2).trans (expectCRLF_ext h3)
      · rename_i s3 h3
        refine ((sp_ext h2).trans (expectCRLF_ext h3)).trans (needAuth_ext ?_ h)
        intro s r s1 h; cases h; exact .refl
    · rename_i s2 h2
      split at h
      · rename_i s3 h3; cases h; exact (sp_ext h2).trans (expectAtom_ext h3)
      · rename_i a s3 h3
        have n2 := (sp_ext (cfg := cfg) (lv := lv) h2).length_le
        have n3 := expectAtom_some_lt h3
        exact ((sp_ext h2).trans (expectAtom_ext h3)).trans (ih _ _ _ (by omega) h)

theorem hEnable_ext {cfg} {lv : Bool} {s : S} {r s1} (h : hEnable s = (r, s1)) : Ext cfg lv s s1 :=
  enableArgs_ext _ _ _ _ (Nat.lt_succ_self _) h

theorem appendLiteral_ext {cfg} {lv : Bool} {m : Bytes} {s : S} {r s1} (h : appendLiteral cfg m s = (r, s1)) : Ext cfg lv s s1 := by
  unfold appendLiteral at h
  split at h
  · rename_i s2 h2; cases h; exact (literalReader_ext h2).trans (.of_eq (by simp))
  · rename_i n ns s2 h2
    have e2 := literalReader_ext (cfg := cfg) (lv := lv) h2
    split at h
    · cases h; exact e2.trans (Ext.emit (by trivial))
    · rename_i hle
      split at h
      · rename_i e s3 h3; cases h; exact (e2.trans (acceptLiteral_ext h3)).trans (Ext.emit (by trivial))
      · rename_i s3 h3
        have e3 : Ext cfg lv s (s3.emit (.appendLit n true)) :=
          (e2.trans (acceptLiteral_ext h3)).trans (Ext.emit (by show n ≤ appendLimit; omega))
        have e4 : Ext cfg lv s ((s3.emit (.appendLit n true)).payload n).2 := e3.trans (payload_ext rfl)
        dsimp only at h
        split at h
        · cases h; exact e4.trans (crlfP_ext rfl)
        · have e5 := e4.trans (emitCall_ext (cfg := cfg) (lv := lv) _ .append
            [m, if cfg.appendFails then [] else ((s3.emit (.appendLit n true)).payload n).1])
          split at h
          · rename_i s6 h6
            split at h
            · cases h; exact e5.trans (expectCRLF_ext h6)
            · cases h; exact (e5.trans (expectCRLF_ext h6)).trans (.of_eq ⟨rfl, rfl, rfl⟩)
          · rename_i s6 h6
            split at h <;> (cases h; exact e5.trans (expectCRLF_ext h6))

theorem hAppend_ext {cfg} {lv : Bool} {s : S} {r s1} (h : hAppend cfg s = (r, s1)) : Ext cfg lv s s1 := by
  unfold hAppend at h
  split at h
  · rename_i s2 h2; cases h; exact expectSP_ext h2
  · rename_i s2 h2
    split at h
    · rename_i s3 h3; cases h; exact (expectSP_ext h2).trans (mailbox_ext h3)
    · rename_i m s3 h3
      split at h
      · rename_i s4 h4; cases h; exact ((expectSP_ext h2).trans (mailbox_ext h3)).trans (expectSP_ext h4)
      · rename_i s4 h4
        have e4 := ((expectSP_ext (cfg := cfg) (lv := lv) h2).trans (mailbox_ext h3)).trans (expectSP_ext h4)
        split at h
        · rename_i b e s5 h5; cases h; exact e4.trans (flagList_ext h5)
        · rename_i hasFlags s5 h5
          have e5 := e4.trans (flagList_ext (cfg := cfg) (lv := lv) h5)
          have e6 : Ext cfg lv s (if hasFlags = true then s5.expectSP else (true, s5)).2 := by
            split
            · exact e5.trans (expectSP_ext rfl)
            · exact e5
          generalize (if hasFlags = true then s5.expectSP else (true, s5)) = p6 at h e6
          obtain ⟨okSp, s6⟩ := p6
          dsimp only at h e6
          split at h
          · cases h; exact e6
          · split at h
            · rename_i s7 h7; cases h; exact e6.trans (look_ext h7)
            · rename_i b s7 h7
              split at h
              · cases h; exact (e6.trans (look_ext h7)).trans (Ext.emit (by trivial))
              · exact (e6.trans (look_ext h7)).trans (appendLiteral_ext h)

theorem plainFinish_ext {cfg} {lv : Bool} {resp : Bytes} {s : S} {r s1} (h : plainFinish resp s = (r, s1)) : Ext cfg lv s s1 := by
  unfold plainFinish at h
  split at h
  · cases h; exact .refl
  · cases h; exact (Ext.emit (by trivial)).trans (.of_eq ⟨rfl, rfl, rfl⟩)

theorem hAuthenticate_ext {cfg} {lv : Bool} {s : S} {r s1} (h : hAuthenticate cfg s = (r, s1)) : Ext cfg lv s s1 := by
  unfold hAuthenticate at h
  split at h
  · rename_i s2 h2; cases h; exact expectSP_ext h2
  · rename_i s2 h2
    split at h
    · rename_i s3 h3; cases h; exact (expectSP_ext h2).trans (expectAtom_ext h3)
    · rename_i mech s3 h3
      have e4 : Ext cfg lv s s3.sp.2 := ((expectSP_ext h2).trans (expectAtom_ext h3)).trans (sp_ext rfl)
      generalize s3.sp = p4 at h e4
      obtain ⟨hasIR, s4⟩ := p4
      dsimp only at h e4
      have e5 : Ext cfg lv s (if hasIR = true then
          match s4.textP with
          | (none, s) => let s := s.expect false; ((none : Option Bytes), s.err, s)
          | (some t, s) =>
            match decodeSASL t with
            | none => (none, some Err.internal, s)
            | some r => (some r, none, s)
        else (none, none, s4)).2.2 := by
        split
        · split
          · rename_i s5 h5; exact (e4.trans (textP_ext h5)).trans (.of_eq (by simp))
          · rename_i t s5 h5
            split <;> exact e4.trans (textP_ext h5)
        · exact e4
      generalize (if hasIR = true then
          match s4.textP with
          | (none, s) => let s := s.expect false; ((none : Option Bytes), s.err, s)
          | (some t, s) =>
            match decodeSASL t with
            | none => (none, some Err.internal, s)
            | some r => (some r, none, s)
        else (none, none, s4)) = p5 at h e5
      obtain ⟨ir, e, s5⟩ := p5
      dsimp only at h e5
      split at h
      · cases h; exact e5
      · split at h
        · rename_i s6 h6; cases h; exact e5.trans (expectCRLF_ext h6)
        · rename_i s6 h6
          have e6 := e5.trans (expectCRLF_ext (cfg := cfg) (lv := lv) h6)
          split at h
          · cases h; exact e6
          · split at h
            · cases h; exact e6
            · split at h
              · exact e6.trans (plainFinish_ext h)
              · have e7 : Ext cfg lv s (s6.emit (.cont s6.pos)) := e6.trans (Ext.emit (by trivial))
                split at h
                · cases h; exact e7.trans ((Ext.take _ _).trans (Ext.emit (by trivial)))
                · rename_i line tooLong k atEnd _
                  have e8 : Ext cfg lv s (if atEnd = true then ((s6.emit (.cont s6.pos)).take k .line).emit .eof
                      else (s6.emit (.cont s6.pos)).take k .line) := by
                    split
                    · exact e7.trans ((Ext.take _ _).trans (Ext.emit (by trivial)))
                    · exact e7.trans (Ext.take _ _)
                  split at h
                  · cases h; exact e8
                  · split at h
                    · cases h; exact e8
                    · split at h
                      · cases h; exact e8
                      · exact e8.trans (plainFinish_ext h)

theorem hIdle_ext {cfg} {lv : Bool} {s : S} {r s1} (h : hIdle cfg s = (r, s1)) : Ext cfg lv s s1 := by
  unfold hIdle at h
  refine noArgs_ext ?_ h
  intro s r s1 h
  refine needAuth_ext ?_ h
  intro s r s1 h
  dsimp only at h
  have e1 : Ext cfg lv s ((s.emit (.cont s.pos)).emit (call .idle)) :=
    (Ext.emit (by trivial)).trans (emitCall_ext _ _ _)
  split at h
  · cases h; exact e1.trans ((Ext.take _ _).trans (Ext.emit (by trivial)))
  · rename_i line tooLong k atEnd _
    have e2 : Ext cfg lv s (if atEnd = true then (((s.emit (.cont s.pos)).emit (call .idle)).take k .line).emit .eof
        else ((s.emit (.cont s.pos)).emit (call .idle)).take k .line) := by
      split
      · exact e1.trans ((Ext.take _ _).trans (Ext.emit (by trivial)))
      · exact e1.trans (Ext.take _ _)
    split at h <;> (cases h; exact e2)

theorem searchKeys_ext {cfg} {lv : Bool} : ∀ (fuel : Nat) (s : S) r s1, s.listDepth = 0 → s.inp.length < fuel →
    searchKeys cfg fuel s = (r, s1) → Ext cfg lv s s1 := by
  intro fuel
  induction fuel with
  | zero => intro s r s1 _ hf; omega
  | succ fuel ih =>
    intro s r s1 hl hf h
    simp only [searchKeys] at h
    split at h
    · rename_i e s2 h2
      cases h
      exact ((searchOK cfg lv _).1 0 1 s _ _ (by omega) (by intro _; omega) (by omega) (by omega) h2).1
    · rename_i s2 h2
      have hK := (searchOK cfg lv _).1 0 1 s _ _ (by omega) (by intro _; omega) (by omega) (by omega) h2
      have n2 := hK.2.2 rfl
      split at h
      · rename_i s3 h3
        have n3 := (sp_ext (cfg := cfg) (lv := lv) h3).length_le
        exact (hK.1.trans (sp_ext h3)).trans (ih _ _ _ (by rw [sp_ld h3, hK.2.1, hl]) (by omega) h)
      · rename_i s3 h3
        split at h
        · rename_i s4 h4; cases h; exact (hK.1.trans (sp_ext h3)).trans (expectCRLF_ext h4)
        · rename_i s4 h4
          split at h
          · cases h; exact (hK.1.trans (sp_ext h3)).trans (expectCRLF_ext h4)
          · cases h; exact ((hK.1.trans (sp_ext h3)).trans (expectCRLF_ext h4)).trans (emitCall_ext _ _ _)

theorem hSearch_ext {cfg} {lv : Bool} {s : S} {r s1} (hl : s.listDepth = 0) (h : hSearch cfg s = (r, s1)) : Ext cfg lv s s1 := by
  unfold hSearch at h
  split at h
  · rename_i s2 h2; cases h; exact expectSP_ext h2
  · rename_i s2 h2
    dsimp only at h
    split at h
    · cases h; exact (expectSP_ext h2).trans (Ext.emit (by trivial))
    · exact (expectSP_ext h2).trans (searchKeys_ext _ _ _ _ (by rw [expectSP_ld h2, hl]) (Nat.lt_succ_self _) h)

theorem lookup_mem {α β} [BEq α] : ∀ (l : List (α × β)) (k : α) (v : β),
    l.lookup k = some v → ∃ k', (k', v) ∈ l := by
  intro l
  induction l with
  | nil => intro k v h; simp [List.lookup] at h
  | cons a t ih =>
    intro k v h
    obtain ⟨k0, v0⟩ := a
    simp only [List.lookup] at h
    split at h
    · cases h; exact ⟨k0, List.mem_cons_self⟩
    · obtain ⟨k', hk⟩ := ih k v h
      exact ⟨k', List.mem_cons_of_mem _ hk⟩

theorem hNoop_ext {cfg} {lv : Bool} {s : S} {r s1} (h : hNoop s = (r, s1)) : Ext cfg lv s s1 :=
  noArgs_ext (fun s r s1 h => by cases h; exact .refl) h

theorem hLogout_ext {cfg} {lv : Bool} {s : S} {r s1} (h : hLogout s = (r, s1)) : Ext cfg lv s s1 :=
  noArgs_ext (fun s r s1 h => by cases h; exact (Ext.emit (by trivial)).trans (.of_eq ⟨rfl, rfl, rfl⟩)) h

theorem hStartTLS_ext {cfg} {lv : Bool} {s : S} {r s1} (h : hStartTLS s = (r, s1)) : Ext cfg lv s s1 :=
  noArgs_ext (fun s r s1 h => by cases h; exact .refl) h

theorem hUnauthenticate_ext {cfg} {lv : Bool} {s : S} {r s1} (h : hUnauthenticate s = (r, s1)) : Ext cfg lv s s1 :=
  noArgs_ext (fun s r s1 h => needAuth_ext
      (fun s r s1 h => by cases h; exact (emitCall_ext _ _ _).trans (.of_eq ⟨rfl, rfl, rfl⟩)) h) h

theorem hNamespace_ext {cfg} {lv : Bool} {s : S} {r s1} (h : hNamespace s = (r, s1)) : Ext cfg lv s s1 :=
  noArgs_ext (fun s r s1 h => needAuth_ext (fun s r s1 h => by cases h; exact emitCall_ext _ _ _) h) h

theorem hUnselect_ext {cfg} {lv : Bool} {b : Bool} {s : S} {r s1} (h : hUnselect b s = (r, s1)) : Ext cfg lv s s1 := by
  refine noArgs_ext (fun s r s1 h => ?_) h
  split at h
  · cases h; exact .refl
  · cases h
    split
    · exact ((emitCall_ext _ _ _).trans (emitCall_ext _ _ _)).trans (.of_eq ⟨rfl, rfl, rfl⟩)
    · exact (emitCall_ext _ _ _).trans (.of_eq ⟨rfl, rfl, rfl⟩)

theorem hExpunge_ext {cfg} {lv : Bool} {s : S} {r s1} (h : hExpunge s = (r, s1)) : Ext cfg lv s s1 := by
  refine noArgs_ext (fun s r s1 h => ?_) h
  split at h
  · cases h; exact .refl
  · cases h; exact emitCall_ext _ _ _

theorem hMailbox_ext {cfg} {lv : Bool} {fn : Fn} {s : S} {r s1} (h : hMailbox cfg fn s = (r, s1)) : Ext cfg lv s s1 :=
  oneMailbox_ext (fun m s r s1 h => needAuth_ext (fun s r s1 h => by cases h; exact emitCall_ext _ _ _) h) h

theorem handlerOf_ext {cfg} {lv : Bool} {name : Bytes} {f : S → Option Err × S}
    (hf : handlerOf cfg name = .run f) :
    ∀ s r s1, s.listDepth = 0 → f s = (r, s1) → Ext cfg lv s s1 := by
  unfold handlerOf at hf
  split at hf
  · rename_i hh hlk
    subst hf
    obtain ⟨k', hmem⟩ := lookup_mem _ _ _ hlk
    intro s r s1 hl h
    simp only [handlerTable, List.mem_cons, Prod.mk.injEq, List.mem_nil_iff, or_false] at hmem
    rcases hmem with ⟨_, hh⟩ | ⟨_, hh⟩ | ⟨_, hh⟩ | ⟨_, hh⟩ | ⟨_, hh⟩ | ⟨_, hh⟩ | ⟨_, hh⟩ | ⟨_, hh⟩ | ⟨_, hh⟩ |
      ⟨_, hh⟩ | ⟨_, hh⟩ | ⟨_, hh⟩ | ⟨_, hh⟩ | ⟨_, hh⟩ | ⟨_, hh⟩ | ⟨_, hh⟩ | ⟨_, hh⟩ | ⟨_, hh⟩ | ⟨_, hh⟩ |
      ⟨_, hh⟩ | ⟨_, hh⟩ | ⟨_, hh⟩ | ⟨_, hh⟩ | ⟨_, hh⟩ | ⟨_, hh⟩ | ⟨_, hh⟩ | ⟨_, hh⟩ | ⟨_, hh⟩ | ⟨_, hh⟩ |
      ⟨_, hh⟩ | ⟨_, hh⟩ | ⟨_, hh⟩ | ⟨_, hh⟩ | ⟨_, hh⟩ | ⟨_, hh⟩ | ⟨_, hh⟩
    all_goals first
      | (cases hh; first
          | exact hNoop_ext h | exact hLogout_ext h | exact hStartTLS_ext h | exact hUnauthenticate_ext h
          | exact hNamespace_ext h | exact hUnselect_ext h | exact hExpunge_ext h
          | exact hEnable_ext h | exact hLogin_ext h | exact hSelect_ext h | exact hCreate_ext h
          | exact hMailbox_ext h | exact hRename_ext h | exact hAppend_ext h | exact hAuthenticate_ext h
          | exact hIdle_ext h | exact hSearch_ext hl h)
      | (exact absurd hh (by simp))
  · cases hf

theorem expectAtom_ld {s : S} {r s1} (h : s.expectAtom = (r, s1)) : s1.listDepth = s.listDepth := by
  unfold S.expectAtom at h
  split at h
  · rename_i a s2 heq; cases h; exact func_ld heq
  · rename_i s2 heq; cases h; simp [func_ld heq]

theorem uidName_ext {cfg} {lv : Bool} {s : S} {r s1} (h : uidName s = (r, s1)) : Ext cfg lv s s1 ∧ s1.listDepth = s.listDepth := by
  unfold uidName at h
  split at h
  · rename_i s2 h2; cases h; exact ⟨expectSP_ext h2, expectSP_ld h2⟩
  · rename_i s2 h2
    split at h
    · rename_i s3 h3; cases h
      exact ⟨(expectSP_ext h2).trans (expectAtom_ext h3), by rw [expectAtom_ld h3, expectSP_ld h2]⟩
    · rename_i sub s3 h3; cases h
      exact ⟨(expectSP_ext h2).trans (expectAtom_ext h3), by rw [expectAtom_ld h3, expectSP_ld h2]⟩

theorem cmdHeader_ext {cfg} {lv : Bool} {s : S} {r s1} (h : cmdHeader s = (r, s1)) : Ext cfg lv s s1 ∧ s1.listDepth = s.listDepth := by
  unfold cmdHeader at h
  split at h
  · rename_i s2 h2; cases h; exact ⟨expectAtom_ext h2, expectAtom_ld h2⟩
  · rename_i tag s2 h2
    split at h
    · cases h; exact ⟨(expectAtom_ext h2).trans (fail_ext _ _), by simp [expectAtom_ld h2]⟩
    · split at h
      · rename_i s3 h3; cases h
        exact ⟨(expectAtom_ext h2).trans (expectSP_ext h3), by rw [expectSP_ld h3, expectAtom_ld h2]⟩
      · rename_i s3 h3
        split at h
        · rename_i s4 h4; cases h
          exact ⟨((expectAtom_ext h2).trans (expectSP_ext h3)).trans (expectAtom_ext h4),
            by rw [expectAtom_ld h4, expectSP_ld h3, expectAtom_ld h2]⟩
        · rename_i name0 s4 h4
          have e4 : Ext cfg lv s s4 := ((expectAtom_ext h2).trans (expectSP_ext h3)).trans (expectAtom_ext h4)
          have l4 : s4.listDepth = s.listDepth := by rw [expectAtom_ld h4, expectSP_ld h3, expectAtom_ld h2]
          split at h
          · split at h
            · rename_i s5 h5; cases h; exact ⟨e4.trans (uidName_ext h5).1, by rw [(uidName_ext (cfg := cfg) (lv := lv) h5).2, l4]⟩
            · rename_i name s5 h5; cases h; exact ⟨e4.trans (uidName_ext h5).1, by rw [(uidName_ext (cfg := cfg) (lv := lv) h5).2, l4]⟩
          · cases h; exact ⟨e4, l4⟩

theorem runHandler_ext {cfg} {lv : Bool} {name : Bytes} {s : S} {b e s1} (hl : s.listDepth = 0)
    (h : runHandler name (handlerOf cfg name) s = (b, e, s1)) : Ext cfg lv s s1 := by
  unfold runHandler at h
  have e0 : Ext cfg lv s (s.emit (.dispatch name)) := Ext.emit (by trivial)
  dsimp only at h
  split at h
  · rename_i f hf
    cases h
    exact e0.trans (handlerOf_ext hf (s.emit (.dispatch name)) _ _ hl rfl)
  · split at h
    · cases h; exact e0.trans (.of_eq ⟨rfl, rfl, rfl⟩)
    · cases h; exact e0

theorem ite_emit_ext {cfg} {lv : Bool} (c : Prop) [Decidable c] (s : S) (e : Event) (hg : Good cfg lv e) :
    Ext cfg lv s (if c then s.emit e else s) := by
  split
  · exact Ext.emit hg
  · exact .refl

theorem finishCommand_ext {cfg} (tag : Bytes) (bu : Bool) (e : Option Err) (s : S) :
    Ext cfg false s (finishCommand cfg tag bu e s) := by
  unfold finishCommand
  have e1 : Ext cfg false s (s.discardLine cfg.fx) := discardLine_ext _
  generalize (s.discardLine cfg.fx) = s1 at e1
  dsimp only
  split_ifs <;>
    repeat (first
      | exact e1
      | exact e1.trans (.of_eq ⟨rfl, rfl, rfl⟩)
      | refine Ext.emit_of ?_ (by trivial))

theorem readCommand_ext {cfg} {s : S} {b s1} (h : readCommand cfg s = (b, s1)) : Ext cfg false s s1 := by
  unfold readCommand at h
  have e0 : Ext cfg false s s.reset := .of_eq ⟨rfl, rfl, rfl⟩
  have l0 : s.reset.listDepth = 0 := rfl
  split at h
  · rename_i s2 h2; cases h; exact e0.trans (cmdHeader_ext h2).1
  · rename_i tag name s2 h2
    have e2 := e0.trans (cmdHeader_ext (cfg := cfg) (lv := false) h2).1
    have l2 : s2.listDepth = 0 := by rw [(cmdHeader_ext (cfg := cfg) (lv := false) h2).2, l0]
    split at h
    · cases h; exact e2.trans (Ext.emit (by trivial))
    · rename_i hh hne
      have e3 : Ext cfg false s (runHandler name (handlerOf cfg name) s2).2.2 := e2.trans (runHandler_ext l2 rfl)
      generalize runHandler name (handlerOf cfg name) s2 = p3 at h e3
      obtain ⟨bu, e, s3⟩ := p3
      dsimp only at h e3
      split at h
      · cases h; exact e3
      · cases h; exact e3.trans (finishCommand_ext _ _ _ _)

/-- how a run of the command loop ends -/
inductive LoopEnd (cfg : Cfg) (lv : Bool) (s : S) (r : S) : Prop where
  | closed (s1 : S) (h : Ext cfg lv s s1) (hr : r = s1.emit .close)
  | gaveUp (h : Ext cfg lv s r) (ho : r.evs.head? = some .opaque)

theorem cmdHeader_some_lt {cfg : Cfg} {lv : Bool} {s : S} {tn s1} (h : cmdHeader s = (some tn, s1)) :
    s1.inp.length < s.inp.length := by
  unfold cmdHeader at h
  split at h
  · cases h
  · rename_i tag s2 h2
    have hlt : s2.inp.length < s.inp.length := by
      unfold S.expectAtom at h2
      split at h2
      · rename_i a s3 h3; cases h2; exact func_some_lt h3
      · cases h2
    split at h
    · cases h
    · split at h
      · cases h
      · rename_i s3 h3
        have l3 := (expectSP_ext (cfg := cfg) (lv := lv) h3).length_le
        split at h
        · cases h
        · rename_i name0 s4 h4
          have l4 := (expectAtom_ext (cfg := cfg) (lv := lv) h4).length_le
          split at h
          · split at h
            · cases h
            · rename_i name s5 h5
              cases h
              have l5 := (uidName_ext (cfg := cfg) (lv := lv) h5).1.length_le
              omega
          · cases h; omega

theorem readCommand_go_lt {cfg} {s : S} {s1} (h : readCommand cfg s = (true, s1)) :
    s1.inp.length < s.inp.length := by
  unfold readCommand at h
  split at h
  · cases h
  · rename_i tag name s2 h2
    have l2 : s2.inp.length < s.inp.length := by
      have := cmdHeader_some_lt (cfg := cfg) (lv := false) h2
      simpa [S.reset] using this
    split at h
    · cases h
    · rename_i hh hne
      have e3 : Ext cfg false s2 (runHandler name (handlerOf cfg name) s2).2.2 :=
        runHandler_ext (by rw [(cmdHeader_ext (cfg := cfg) (lv := false) h2).2]; rfl) rfl
      generalize runHandler name (handlerOf cfg name) s2 = p3 at h e3
      obtain ⟨bu, e, s3⟩ := p3
      dsimp only at h e3
      split at h
      · cases h
      · cases h
        have := e3.length_le
        have := (finishCommand_ext (cfg := cfg) tag bu e s3).length_le
        omega

theorem serveLoop_end {cfg} : ∀ (fuel : Nat) (s : S), s.inp.length < fuel →
    LoopEnd cfg false s (serveLoop cfg fuel s) := by
  intro fuel
  induction fuel with
  | zero => intro s h; omega
  | succ fuel ih =>
    intro s hfuel
    simp only [serveLoop]
    split
    · exact .closed s .refl rfl
    · split
      · rename_i ho; exact .gaveUp .refl (by simpa using ho)
      · split
        · exact .closed (s.emit .eof) (Ext.emit (by trivial)) rfl
        · have e1 : Ext cfg false s (readCommand cfg s).2 := readCommand_ext rfl
          have hlt : ∀ s1, readCommand cfg s = (true, s1) → s1.inp.length < s.inp.length :=
            fun s1 h => readCommand_go_lt h
          generalize readCommand cfg s = p at e1 hlt
          obtain ⟨go, s1⟩ := p
          dsimp only at e1 ⊢
          split
          · rename_i ho; exact .gaveUp e1 (by simpa using ho)
          · split
            · rename_i hgo
              have hl := hlt s1 (by rw [hgo])
              rcases ih s1 (by omega) with ⟨s2, h2, hr⟩ | ⟨h2, ho⟩
              · exact .closed s2 (e1.trans h2) hr
              · exact .gaveUp (e1.trans h2) ho
            · exact .closed s1 e1 rfl

/-- a run ends with the epilogue (`close`) unless the model gave up (`opaque`) -/
theorem run_end (cfg : Cfg) (inp : Bytes) : LoopEnd cfg false (initial cfg inp) (run cfg inp) := by
  unfold run
  exact serveLoop_end _ _ (by simp [initial])

/-- every event of a run is the final `close` or is Good -/
theorem serve_good (cfg : Cfg) (inp : Bytes) : ∀ e ∈ serve cfg inp, e = .close ∨ Good cfg false e := by
  intro e he
  unfold serve at he
  rw [List.mem_reverse] at he
  rcases run_end cfg inp with ⟨s1, h, hr⟩ | ⟨h, _⟩
  · rw [hr] at he
    simp only [S.emit, List.mem_cons] at he
    rcases he with rfl | he
    · exact .inl rfl
    · rcases h.good e he with h0 | hg
      · simp [initial] at h0
      · exact .inr hg
  · rcases h.good e he with h0 | hg
    · simp [initial] at h0
    · exact .inr hg

theorem foldl_depth_le (b : Nat) : ∀ (l : List Event) (m : Nat), m ≤ b →
    (∀ n, Event.depthAt n ∈ l → n ≤ b) →
    l.foldl (fun m e => match e with | .depthAt n => max m n | _ => m) m ≤ b := by
  intro l
  induction l with
  | nil => intro m hm _; simpa using hm
  | cons e t ih =>
    intro m hm hall
    simp only [List.foldl_cons]
    apply ih
    · cases e <;> simp only <;> try exact hm
      rename_i n
      have := hall n (by simp)
      omega
    · intro n hn; exact hall n (by simp [hn])

end GoImap.Framing
