/-
  C02 helper lemmas: SEARCH keys, one key at a time — what `writeSearchKey` writes for a criterion
  and what `readSearchKeyWithAtom` makes of it.
-/
import GoImap.Lemmas.CmdGrammarListCmd
import GoImap.Lemmas.CmdGrammarLitSet
namespace GoImap.CmdLemmas
open GoImap.CmdGrammar GoImap.CmdSpec

/-- a key on the wire together with its effect on the criteria being accumulated by the reader -/
abbrev KI := Wire × (Crit → Crit)

def addF (g : Flat → Flat) : Crit → Crit := fun c => c.withFlat g

/-- what follows a key inside a parenthesised key list: the closing parenthesis or a space -/
def Sep : Wire → Prop
  | .b c :: _ => c = 41 ∨ c = 32
  | _ => False

theorem sep_close (r : Wire) : Sep (.b 41 :: r) := Or.inl rfl
theorem sep_sp (r : Wire) : Sep (sp ++ r) := Or.inr rfl

theorem sep_stops (p : Nat → Bool) (h41 : p 41 = false) (h32 : p 32 = false) {tail : Wire} (h : Sep tail) : Stops p tail := by
  cases tail with
  | nil => exact absurd h (by simp [Sep])
  | cons i r =>
    cases i with
    | b c =>
      rcases h with rfl | rfl
      · exact h41
      · exact h32
    | s v => exact absurd h (by simp [Sep])
    | lit v => exact absurd h (by simp [Sep])
    | date d => exact absurd h (by simp [Sep])
    | datetime t => exact absurd h (by simp [Sep])

theorem sep_stops_search {tail : Wire} (h : Sep tail) : Stops isSearchAtomChar tail := sep_stops _ (by decide) (by decide) h
theorem sep_stops_atom {tail : Wire} (h : Sep tail) : Stops isAtomChar tail := sep_stops _ (by decide) (by decide) h
theorem sep_stops_numset {tail : Wire} (h : Sep tail) : Stops isNumSetChar tail := sep_stops _ (by decide) (by decide) h
theorem sep_stops_digit {tail : Wire} (h : Sep tail) : Stops isDigit tail := sep_stops _ (by decide) (by decide) h

/-- the key `a` is read back by `readSearchKey` (with nesting budget `fuel`) with exactly its effect, whatever
    criteria have been accumulated, when a separator follows -/
structure Good (fuel ld kd : Nat) (a : KI) : Prop where
  parse : ∀ c tail, Sep tail → pSearchKey fuel ld kd c (a.1 ++ tail) = .ok (a.2 c, tail)
  notEol : ∀ tail, NotEol (a.1 ++ tail)
  notClose : ∀ tail, special 41 (a.1 ++ tail) = none
  nonEmpty : 1 ≤ a.1.length

/-- a list of keys, all readable with budget `fuel`, inside parentheses -/
theorem keyItemSpec (fuel ld kd : Nat) : ItemSpec (pSearchKey fuel ld kd) (fun a : KI => a.1) (fun c a => a.2 c) (Good fuel ld kd) Sep where
  parse := fun st a tail hv hok => hv.parse st tail hok
  okClose := sep_close
  okSp := sep_sp
  notEol := fun a tail hv => hv.notEol tail
  notClose := fun a tail hv => hv.notClose tail
  nonEmpty := fun a hv => hv.nonEmpty

theorem searchAtom_ne_eol {c : Nat} (h : isSearchAtomChar c = true) : c ≠ 13 ∧ c ≠ 10 ∧ c ≠ 41 ∧ c ≠ 40 := by
  refine ⟨?_, ?_, ?_, ?_⟩ <;> (intro he; subst he; revert h; decide)

/-- a key that starts with an atom: `KEY` followed by its arguments `argW`, read by `readSearchKeyWithAtom`
    (nested keys are read with the remaining budget) -/
theorem good_atomKey' (fuel ld kd : Nat) (key : Str) (argW : Wire) (eff : Crit → Crit)
    (hne : key ≠ []) (hchars : ∀ c ∈ key, isSearchAtomChar c = true) (hup : upper key = key)
    (hstop : ∀ tail, Sep tail → Stops isSearchAtomChar (argW ++ tail))
    (hparse : ∀ c tail, Sep tail → pSearchKeyAtom (pSearchKey fuel ld (kd + 1)) kd c key (argW ++ tail) = .ok (eff c, tail)) :
    Good (fuel + 1) ld kd (atom key ++ argW, eff) where
  parse := by
    intro c tail hsep
    simp only [pSearchKey, List.append_assoc]
    rw [span_atom isSearchAtomChar key _ hchars (hstop tail hsep)]
    simp only [hne, ne_eq, not_false_eq_true, if_true, hup]
    exact hparse c tail hsep
  notEol := by
    intro tail
    cases key with
    | nil => exact absurd rfl hne
    | cons c t =>
      have := searchAtom_ne_eol (hchars c (by simp))
      simp only [atom, List.map_cons, List.cons_append, NotEol]
      exact ⟨this.1, this.2.1⟩
  notClose := by
    intro tail
    cases key with
    | nil => exact absurd rfl hne
    | cons c t =>
      have := searchAtom_ne_eol (hchars c (by simp))
      simp only [atom, List.map_cons, List.cons_append, special]
      simp [this.2.2.1]
  nonEmpty := by
    cases key with
    | nil => exact absurd rfl hne
    | cons c t => simp [atom]

/-- … for keys that do not nest: any reader of nested keys will do -/
theorem good_atomKey (fuel ld kd : Nat) (key : Str) (argW : Wire) (eff : Crit → Crit)
    (hne : key ≠ []) (hchars : ∀ c ∈ key, isSearchAtomChar c = true) (hup : upper key = key)
    (hstop : ∀ tail, Sep tail → Stops isSearchAtomChar (argW ++ tail))
    (hparse : ∀ rec c tail, Sep tail → pSearchKeyAtom rec kd c key (argW ++ tail) = .ok (eff c, tail)) :
    Good (fuel + 1) ld kd (atom key ++ argW, eff) :=
  good_atomKey' fuel ld kd key argW eff hne hchars hup hstop (hparse _)

end GoImap.CmdLemmas
