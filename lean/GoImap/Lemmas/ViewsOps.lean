/-
  C08 helper lemmas, part 7: the mailbox operations of the backend (append, expunge from the highest
  position down, flag changes queued for the other sessions) keep the global invariant.
-/
import GoImap.Lemmas.ViewsSel
import GoImap.Lemmas.ViewsList
namespace GoImap.ViewsLemmas
open GoImap.Tracker GoImap.TrackerSpec GoImap.TrackerLemmas GoImap.Views GoImap.ViewsSpec

theorem set_self_of_getElem? {α} {l : List α} {i : Nat} {a : α} (h : l[i]? = some a) : l.set i a = l := by
  apply List.ext_getElem?
  intro j
  by_cases hij : i = j
  · subst hij
    rw [List.getElem?_set_self (List.getElem?_eq_some_iff.mp h).1, h]
  · rw [List.getElem?_set_ne hij]

theorem setMb_mb (st : Views.St) (m : Nat) (b : MBox) : (setMb st m b).mb = st.mb.set m b := rfl
theorem setMb_conns (st : Views.St) (m : Nat) (b : MBox) : (setMb st m b).conns = st.conns := rfl

/-- replacing a mailbox by one with the same tracker, UIDs and uidNext (flags may differ) -/
theorem ginv_setMb_same {st : Views.St} {G : List GSt} {A : List View} (h : GInv st G A) {m : Nat} {b b' : MBox}
    (hb : st.mb[m]? = some b) (htr : b'.tr = b.tr) (hn : b'.uidNext = b.uidNext)
    (hu : b'.msgs.map (·.uid) = b.msgs.map (·.uid)) : GInv (setMb st m b') G A := by
  refine ⟨by simp [setMb, h.mlen], ?_, h.clen, h.conn, h.sess⟩
  intro m1 b1 g1 hb1 hg1
  change (st.mb.set m b')[m1]? = some b1 at hb1
  by_cases hm : m = m1
  · subst hm
    have e1 := getElem?_set_eq' hb1
    subst e1
    have := h.mb m b g1 hb hg1
    exact ⟨htr ▸ this.inv, hu ▸ this.uids, hn ▸ this.next, this.ids⟩
  · rw [List.getElem?_set_ne hm] at hb1
    exact h.mb m1 b1 g1 hb1 hg1

/-- the announced view of a selected connection may be replaced by any view related to its session -/
theorem ginv_relabel {st : Views.St} {G : List GSt} {A : List View} (h : GInv st G A) {c : Nat} {cn : Conn}
    (hc : st.conns[c]? = some cn) {m : Nat} (hsel : cn.sel = some m) {Ac' : View}
    (hv : ∀ g gs, G[m]? = some g → gs ∈ g.sess → gs.id = c → ViewRel Ac' gs.view) :
    GInv st G (A.set c Ac') := by
  have hclt : c < st.conns.length := (List.getElem?_eq_some_iff.mp hc).1
  have hcA : c < A.length := by rw [← h.clen]; exact hclt
  refine ⟨h.mlen, h.mb, by simp [h.clen], ?_, h.sess⟩
  intro c1 cn1 hc1
  by_cases hcc : c = c1
  · subst hcc
    rw [hc] at hc1
    cases hc1
    rw [getD_set_self A hcA]
    have hold := h.conn c cn hc
    unfold ConnInv at hold ⊢
    rw [hsel] at hold ⊢
    obtain ⟨g, gs, hg, hgs, hid, _, hp⟩ := hold
    exact ⟨g, gs, hg, hgs, hid, hv g gs hg hgs hid, hp⟩
  · rw [getD_set_ne A hcc]
    exact h.conn c1 cn1 hc1

theorem gdispatch_ids (g : GSt) (u : GUpd) (src : Option Nat) :
    (gdispatch g u src).map (·.id) = g.sess.map (·.id) := by
  simp only [gdispatch, List.map_map]
  apply List.map_congr_left
  intro x _
  simp only [Function.comp]
  split <;> rfl

theorem fetchIds_snoc_nonfetch (p : List GUpd) {u : GUpd} (hu : ∀ id, u ≠ .fetch id) :
    fetchIds (p ++ [u]) = fetchIds p := by
  rw [fetchIds_append]
  cases u with
  | fetch id => exact absurd rfl (hu id)
  | _ => simp [fetchIds]

/-- `ginv_dispatch` for an update that is not a flag change: connections are untouched -/
theorem ginv_dispatch_plain {st : Views.St} {G : List GSt} {A : List View} (h : GInv st G A) {m : Nat} {b : MBox}
    {g : GSt} (hb : st.mb[m]? = some b) (hg : G[m]? = some g) {b' : MBox} {g' : GSt} {u : GUpd}
    (hu : ∀ id, u ≠ .fetch id) (hmb : MbInv b' g') (hsess : g'.sess = gdispatch g u none) :
    GInv (setMb st m b') (G.set m g') A := by
  refine ginv_dispatch (conns' := st.conns) h hb hg hmb hsess rfl ?_
  intro c cn hc
  refine ⟨cn, hc, rfl, ?_, fun _ => rfl⟩
  intro _ gs _ _ hp
  simp only [reduceCtorEq, if_false]
  unfold PayRel at hp ⊢
  rw [fetchIds_snoc_nonfetch _ hu]; exact hp

/-- Mailbox.appendBytes -/
theorem ginv_append {st : Views.St} {G : List GSt} {A : List View} (h : GInv st G A) {m : Nat} {b : MBox}
    {g : GSt} (hb : st.mb[m]? = some b) (hg : G[m]? = some g) (fl : Nat) :
    ∃ b' g', b.append fl = some (b', b.uidNext) ∧ GInv (setMb st m b') (G.set m g') A := by
  have hmb := h.mb m b g hb hg
  have hlen := msgs_length hmb
  have hgst : gstep g (.numMessages (b.msgs ++ [(⟨b.uidNext, fl⟩ : Msg)]).length) =
      some (⟨g.mbox ++ [g.next], g.next + 1, gdispatch g (.exists_ [g.next]) none⟩, []) := by
    have h1 : ¬ (b.msgs ++ [(⟨b.uidNext, fl⟩ : Msg)]).length < g.mbox.length := by simp; omega
    have h2 : (b.msgs ++ [(⟨b.uidNext, fl⟩ : Msg)]).length - g.mbox.length = 1 := by simp; omega
    simp only [gstep, h1, if_false, h2]
    rfl
  obtain ⟨t, hst, hinv⟩ := inv_step hmb.inv _ hgst
  refine ⟨⟨b.msgs ++ [(⟨b.uidNext, fl⟩ : Msg)], b.uidNext + 1, t⟩,
    ⟨g.mbox ++ [g.next], g.next + 1, gdispatch g (.exists_ [g.next]) none⟩, ?_, ?_⟩
  · simp only [MBox.append, MBox.tstep, hst]
  · refine ginv_dispatch_plain h hb hg (u := .exists_ [g.next]) (by intro id hh; cases hh) ?_ rfl
    refine ⟨hinv, ?_, ?_, ?_⟩
    · simp only [List.map_append, List.map_cons, List.map_nil, hmb.uids, hmb.next]
    · simp only [hmb.next]
    · show (List.map (fun x : GSess => x.id) (gdispatch g _ none)).Nodup
      rw [gdispatch_ids]; exact hmb.ids

/-- the appends of COPY / MOVE into the destination -/
theorem ginv_appendAll {A : List View} : ∀ (msgs : List Msg) {st : Views.St} {G : List GSt}, GInv st G A →
    ∀ {m : Nat} {b : MBox} {g : GSt}, st.mb[m]? = some b → G[m]? = some g →
    ∃ b' us G', appendAll b msgs = some (b', us) ∧ GInv (setMb st m b') G' A
  | [], st, G, h, m, b, g, hb, hg => by
    refine ⟨b, [], G, rfl, ?_⟩
    have : setMb st m b = st := by
      cases st
      simp only [setMb]
      congr 1
      exact set_self_of_getElem? hb
    rw [this]; exact h
  | msg :: rest, st, G, h, m, b, g, hb, hg => by
    obtain ⟨b1, g1, ha, h1⟩ := ginv_append h hb hg msg.flags
    have hmlt : m < st.mb.length := (List.getElem?_eq_some_iff.mp hb).1
    have hmlt' : m < G.length := (List.getElem?_eq_some_iff.mp hg).1
    have hb1 : (setMb st m b1).mb[m]? = some b1 := by simp [setMb, List.getElem?_set_self hmlt]
    have hg1 : (G.set m g1)[m]? = some g1 := by rw [List.getElem?_set_self hmlt']
    obtain ⟨b2, us, G2, ha2, h2⟩ := ginv_appendAll rest h1 hb1 hg1
    refine ⟨b2, b.uidNext :: us, G2, ?_, ?_⟩
    · simp only [appendAll, ha, ha2]
    · have : setMb (setMb st m b1) m b2 = setMb st m b2 := by simp [setMb]
      rw [this] at h2; exact h2

/-! ### expunge -/

/-- one QueueExpunge, seen on a mailbox whose message list loses the message at once -/
theorem ginv_expunge1 {st : Views.St} {G : List GSt} {A : List View} (h : GInv st G A) {m : Nat} {b : MBox}
    {g : GSt} (hb : st.mb[m]? = some b) (hg : G[m]? = some g) {i : Nat} (h1 : 1 ≤ i) (h2 : i ≤ b.msgs.length) :
    ∃ t g', step b.tr (.expunge i) = some (t, []) ∧
      GInv (setMb st m ⟨b.msgs.eraseIdx (i - 1), b.uidNext, t⟩) (G.set m g') A := by
  have hmb := h.mb m b g hb hg
  have hlen := msgs_length hmb
  have hlt : i - 1 < g.mbox.length := by omega
  have hex : ∃ id0, g.mbox[i - 1]? = some id0 := ⟨_, List.getElem?_eq_getElem hlt⟩
  obtain ⟨id0, hid0⟩ := hex
  have hgst : gstep g (.expunge i) =
      some (⟨g.mbox.eraseIdx (i - 1), g.next, gdispatch g (.expunge id0) none⟩, []) := by
    have hi0 : ¬ i = 0 := by omega
    simp only [gstep, hid0, hi0, if_false]
  obtain ⟨t, hst, hinv⟩ := inv_step hmb.inv _ hgst
  refine ⟨t, ⟨g.mbox.eraseIdx (i - 1), g.next, gdispatch g (.expunge id0) none⟩, hst, ?_⟩
  refine ginv_dispatch_plain h hb hg (u := .expunge id0) (by intro id hh; cases hh) ?_ rfl
  refine ⟨hinv, ?_, hmb.next, ?_⟩
  · show List.map (fun x : Msg => x.uid) (b.msgs.eraseIdx (i - 1)) = List.map (· + 1) (g.mbox.eraseIdx (i - 1))
    rw [map_eraseIdx', map_eraseIdx', hmb.uids]
  · show (List.map (fun x : GSess => x.id) (gdispatch g _ none)).Nodup
    rw [gdispatch_ids]; exact hmb.ids

theorem expungeLoop_fields : ∀ (ps : List Nat) {b b1 : MBox}, expungeLoop b ps = some b1 →
    b1.msgs = b.msgs ∧ b1.uidNext = b.uidNext
  | [], b, b1, h => by
    simp only [expungeLoop, Option.some.injEq] at h
    subst h; exact ⟨rfl, rfl⟩
  | p :: ps, b, b1, h => by
    simp only [expungeLoop, MBox.tstep] at h
    cases hs : step b.tr (.expunge p) with
    | none => simp [hs] at h
    | some r =>
      obtain ⟨t, out⟩ := r
      simp only [hs] at h
      exact expungeLoop_fields ps (b := { b with tr := t }) h

/-- the loop only looks at the tracker -/
theorem expungeLoop_tr : ∀ (ps : List Nat) {b b' : MBox}, b.tr = b'.tr →
    (expungeLoop b ps).map (·.tr) = (expungeLoop b' ps).map (·.tr)
  | [], b, b', h => by simp [expungeLoop, h]
  | p :: ps, b, b', h => by
    simp only [expungeLoop, MBox.tstep, h]
    cases hs : step b'.tr (.expunge p) with
    | none => rfl
    | some r =>
      obtain ⟨t, out⟩ := r
      simp only
      exact expungeLoop_tr ps rfl

/-- the QueueExpunge calls of expungeLocked, from the highest position down -/
theorem ginv_expungeDesc {A : List View} : ∀ (ps : List Nat) {st : Views.St} {G : List GSt}, GInv st G A →
    ∀ {m : Nat} {b : MBox} {g : GSt}, st.mb[m]? = some b → G[m]? = some g → ps.Pairwise (· > ·) →
    (∀ p ∈ ps, 1 ≤ p ∧ p ≤ b.msgs.length) →
    ∃ b1 G', expungeLoop b ps = some b1 ∧ GInv (setMb st m ⟨eraseDesc b.msgs ps, b.uidNext, b1.tr⟩) G' A
  | [], st, G, h, m, b, g, hb, hg, _, _ => by
    refine ⟨b, G, rfl, ?_⟩
    have : setMb st m ⟨eraseDesc b.msgs [], b.uidNext, b.tr⟩ = st := by
      cases st
      simp only [setMb, eraseDesc]
      congr 1
      exact set_self_of_getElem? hb
    rw [this]; exact h
  | p :: ps, st, G, h, m, b, g, hb, hg, hs, hr => by
    obtain ⟨hp1, hp2⟩ := hr p List.mem_cons_self
    obtain ⟨t, g1, hst, h1⟩ := ginv_expunge1 h hb hg hp1 hp2
    have hmlt : m < st.mb.length := (List.getElem?_eq_some_iff.mp hb).1
    have hmlt' : m < G.length := (List.getElem?_eq_some_iff.mp hg).1
    have hb1 : (setMb st m ⟨b.msgs.eraseIdx (p - 1), b.uidNext, t⟩).mb[m]? =
        some ⟨b.msgs.eraseIdx (p - 1), b.uidNext, t⟩ := by simp [setMb, List.getElem?_set_self hmlt]
    have hg1 : (G.set m g1)[m]? = some g1 := by rw [List.getElem?_set_self hmlt']
    rw [List.pairwise_cons] at hs
    have hr' : ∀ q ∈ ps, 1 ≤ q ∧ q ≤ (b.msgs.eraseIdx (p - 1)).length := by
      intro q hq
      have := hs.1 q hq
      have := (hr q (List.mem_cons_of_mem _ hq)).1
      rw [List.length_eraseIdx]
      have : p - 1 < b.msgs.length := by omega
      simp only [this, if_true]
      omega
    obtain ⟨b2, G2, hl2, h2⟩ := ginv_expungeDesc ps h1 hb1 hg1 hs.2 hr'
    -- the model's loop runs on `{ b with tr := t }`, which has the same tracker
    have htr := expungeLoop_tr ps (b := { b with tr := t }) (b' := ⟨b.msgs.eraseIdx (p - 1), b.uidNext, t⟩) rfl
    rw [hl2] at htr
    cases hl : expungeLoop { b with tr := t } ps with
    | none => rw [hl] at htr; cases htr
    | some b3 =>
      rw [hl] at htr
      simp only [Option.map_some, Option.some.injEq] at htr
      refine ⟨b3, G2, ?_, ?_⟩
      · simp only [expungeLoop, MBox.tstep, hst, hl]
      · have : setMb (setMb st m ⟨b.msgs.eraseIdx (p - 1), b.uidNext, t⟩) m
            ⟨eraseDesc (b.msgs.eraseIdx (p - 1)) ps, b.uidNext, b2.tr⟩ =
            setMb st m ⟨eraseDesc b.msgs (p :: ps), b.uidNext, b3.tr⟩ := by
          simp [setMb, eraseDesc, htr]
        rw [this] at h2; exact h2

/-- Mailbox.expungeLocked for the positions a filter over the indexed message list selects -/
theorem ginv_expungeAt {st : Views.St} {G : List GSt} {A : List View} (h : GInv st G A) {m : Nat} {b : MBox}
    {g : GSt} (hb : st.mb[m]? = some b) (hg : G[m]? = some g) (p : Nat × Msg → Bool) :
    ∃ b' G', b.expungeAt (((indexed b.msgs 1).filter p).map (·.1)) = some b' ∧ GInv (setMb st m b') G' A := by
  have hsorted := indexed_filter_sorted b.msgs 1 p
  have hbounds : ∀ q ∈ ((indexed b.msgs 1).filter p).map (·.1), 1 ≤ q ∧ q ≤ b.msgs.length := by
    intro q hq
    have := indexed_filter_bounds hq
    omega
  obtain ⟨b1, G', hl, h1⟩ := ginv_expungeDesc (((indexed b.msgs 1).filter p).map (·.1)).reverse h hb hg
    (by rw [List.pairwise_reverse]; exact hsorted)
    (by intro q hq; exact hbounds q (List.mem_reverse.mp hq))
  obtain ⟨hf1, hf2⟩ := expungeLoop_fields _ hl
  refine ⟨{ b1 with msgs := (indexed b.msgs 1).filterMap fun im =>
      if (((indexed b.msgs 1).filter p).map (·.1)).contains im.1 then none else some im.2 }, G',
    by simp only [MBox.expungeAt, hl], ?_⟩
  rw [eraseDesc_reverse_eq_filterMap _ _ hsorted (fun q hq => (hbounds q hq).1)] at h1
  have : ({ b1 with msgs := (indexed b.msgs 1).filterMap fun im =>
      if (((indexed b.msgs 1).filter p).map (·.1)).contains im.1 then none else some im.2 } : MBox) =
      ⟨(indexed b.msgs 1).filterMap fun im =>
        if (((indexed b.msgs 1).filter p).map (·.1)).contains im.1 then none else some im.2, b.uidNext, b1.tr⟩ := by
    rw [← hf2]
  rw [this]; exact h1

/-! ### flag updates -/

/-- QueueMessageFlags for a list of (position, message) pairs naming messages of the mailbox -/
theorem ginv_queueFlags {A : List View} : ∀ (items : List (Nat × Msg)) {st : Views.St} {G : List GSt},
    GInv st G A → ∀ {m : Nat} {b : MBox} {g : GSt}, st.mb[m]? = some b → G[m]? = some g → ∀ (src : Option Nat),
    (∀ im ∈ items, 1 ≤ im.1 ∧ g.mbox[im.1 - 1]? = some (im.2.uid - 1) ∧ 1 ≤ im.2.uid) →
    ∃ st' G' b' g', queueFlags st m src items = some st' ∧ GInv st' G' A ∧
      st'.mb[m]? = some b' ∧ G'[m]? = some g' ∧ g'.mbox = g.mbox ∧ b'.msgs = b.msgs ∧
      ∀ (c : Nat) cn, st.conns[c]? = some cn → ∃ cn', st'.conns[c]? = some cn' ∧ cn'.sel = cn.sel
  | [], st, G, h, m, b, g, hb, hg, src, _ =>
    ⟨st, G, b, g, rfl, h, hb, hg, rfl, rfl, fun c cn hc => ⟨cn, hc, rfl⟩⟩
  | (i, msg) :: rest, st, G, h, m, b, g, hb, hg, src, hitems => by
    obtain ⟨hi1, hid, hu1⟩ := hitems (i, msg) List.mem_cons_self
    simp only at hi1 hid hu1
    have hmb := h.mb m b g hb hg
    have hgst : gstep g (.messageFlags i src) =
        some ({ g with sess := gdispatch g (.fetch (msg.uid - 1)) src }, []) := by
      have hi0 : ¬ i = 0 := by omega
      simp only [gstep, hid, hi0, if_false]
    obtain ⟨t, hst, hinv⟩ := inv_step hmb.inv _ hgst
    have hmb' : MbInv { b with tr := t } { g with sess := gdispatch g (.fetch (msg.uid - 1)) src } := by
      refine ⟨hinv, hmb.uids, hmb.next, ?_⟩
      show (List.map (fun x : GSess => x.id) (gdispatch g _ src)).Nodup
      rw [gdispatch_ids]; exact hmb.ids
    have h1 : GInv ⟨st.mb.set m { b with tr := t }, pushPay st.conns m src (msg.uid, msg.flags)⟩
        (G.set m { g with sess := gdispatch g (.fetch (msg.uid - 1)) src }) A := by
      refine ginv_dispatch h hb hg hmb' rfl (pushPay_length _ _ _ _) ?_
      intro c cn hc
      refine ⟨_, by rw [pushPay_getElem?, hc]; rfl, ?_, ?_, ?_⟩
      · dsimp only
        split <;> rfl
      · intro hsel gs _ _ hp
        by_cases hsc : src = some c
        · simp only [hsc, if_true, bne_self_eq_false, Bool.and_false, Bool.false_eq_true, if_false]
          exact hp
        · have : (src != some c) = true := by simp [bne_iff_ne, hsc]
          simp only [hsc, if_false, hsel, this, decide_true, Bool.and_self, if_true]
          unfold PayRel at hp ⊢
          rw [fetchIds_append]
          simp only [List.map_append, hp, fetchIds, List.map_cons, List.map_nil]
          congr 2
          omega
      · intro hsel
        have : (decide (cn.sel = some m)) = false := by simp [hsel]
        simp [this]
    have hmlt : m < st.mb.length := (List.getElem?_eq_some_iff.mp hb).1
    have hmlt' : m < G.length := (List.getElem?_eq_some_iff.mp hg).1
    have hrest : ∀ im ∈ rest, 1 ≤ im.1 ∧
        ({ g with sess := gdispatch g (.fetch (msg.uid - 1)) src } : GSt).mbox[im.1 - 1]? = some (im.2.uid - 1) ∧
        1 ≤ im.2.uid := fun im him => hitems im (List.mem_cons_of_mem _ him)
    obtain ⟨st2, G2, b2, g2, hq2, h2, hb2, hg2, hm2, hmsgs2, hsel2⟩ :=
      ginv_queueFlags rest h1 (m := m) (b := { b with tr := t })
        (g := { g with sess := gdispatch g (.fetch (msg.uid - 1)) src })
        (by simp [List.getElem?_set_self hmlt]) (by rw [List.getElem?_set_self hmlt']) src hrest
    refine ⟨st2, G2, b2, g2, ?_, h2, hb2, hg2, hm2, hmsgs2, ?_⟩
    · simp only [queueFlags, getMb, hb, MBox.tstep, hst]
      exact hq2
    · intro c cn hc
      have : (pushPay st.conns m src (msg.uid, msg.flags))[c]? = some
          (if cn.sel = some m && src != some c then { cn with pay := cn.pay ++ [(msg.uid, msg.flags)] } else cn) := by
        rw [pushPay_getElem?, hc]; rfl
      obtain ⟨cn', hc', hs'⟩ := hsel2 c _ this
      refine ⟨cn', hc', ?_⟩
      rw [hs']
      split <;> rfl

end GoImap.ViewsLemmas
