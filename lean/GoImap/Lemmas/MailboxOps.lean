/-
  Helper lemmas for C09: what the individual commands do to the addressed mailbox (exactness laws).
-/
import GoImap.Lemmas.MailboxInv
namespace GoImap.MailboxLemmas
open GoImap GoImap.Mailbox

/-! ### object lookup -/

theorem getObj_congr {a b : St} (h : core b = core a) (id : Nat) : b.getObj id = a.getObj id := by
  unfold St.getObj
  have : b.objs = a.objs := congrArg Prod.fst h
  rw [this]

theorem find_mapObj_same (f : Mbox → Mbox) (hid : ∀ o, (f o).id = o.id) (id : Nat) :
    ∀ l : List Mbox, (mapObj id f l).find? (·.id == id) = (l.find? (·.id == id)).map f := by
  intro l
  induction l with
  | nil => rfl
  | cons a l ih =>
    unfold mapObj at ih ⊢
    rw [List.map_cons, List.find?_cons, List.find?_cons]
    by_cases h : a.id = id
    · have h1 : (a.id == id) = true := by simpa using h
      simp only [h1, if_true]
      have h2 : ((f a).id == id) = true := by rw [hid]; exact h1
      rw [h2]; rfl
    · have h1 : (a.id == id) = false := by simpa using h
      rw [h1]
      simp only [Bool.false_eq_true, if_false]
      rw [h1]
      exact ih

theorem find_mapObj_other (f : Mbox → Mbox) (hid : ∀ o, (f o).id = o.id) (id id' : Nat) (hne : id' ≠ id) :
    ∀ l : List Mbox, (mapObj id f l).find? (·.id == id') = l.find? (·.id == id') := by
  intro l
  induction l with
  | nil => rfl
  | cons a l ih =>
    unfold mapObj at ih ⊢
    rw [List.map_cons, List.find?_cons, List.find?_cons]
    by_cases h : a.id = id
    · have h1 : (a.id == id) = true := by simpa using h
      simp only [h1, if_true]
      have h2 : (a.id == id') = false := by simp; omega
      have h3 : ((f a).id == id') = false := by rw [hid]; exact h2
      rw [h2, h3]; exact ih
    · have h1 : (a.id == id) = false := by simpa using h
      simp only [h1, Bool.false_eq_true, if_false]
      cases (a.id == id')
      · exact ih
      · rfl

theorem getObj_setObj_same (st : St) (id : Nat) (f : Mbox → Mbox) (hf : Good f) :
    (st.setObj id f).getObj id = (st.getObj id).map f :=
  find_mapObj_same f (fun o => (hf o).2.id) id st.objs

theorem getObj_setObj_other (st : St) (id id' : Nat) (f : Mbox → Mbox) (hf : Good f) (hne : id' ≠ id) :
    (st.setObj id f).getObj id' = st.getObj id' :=
  find_mapObj_other f (fun o => (hf o).2.id) id id' hne st.objs

/-! ### APPEND / COPY -/

theorem appendMsg_spec (st : St) (oid : Nat) (m : Message) (o : Mbox) (ho : st.getObj oid = some o) :
    (appendMsg st oid m).2 = o.uidNext ∧
    (appendMsg st oid m).1.getObj oid = some (pushMsg m o) ∧
    ∀ id', id' ≠ oid → (appendMsg st oid m).1.getObj id' = st.getObj id' := by
  unfold appendMsg
  rw [ho]
  refine ⟨rfl, ?_, ?_⟩
  · rw [getObj_congr (dispatch_core _ _ _ _), getObj_setObj_same _ _ _ (good_pushMsg m), ho]; rfl
  · intro id' hne
    rw [getObj_congr (dispatch_core _ _ _ _), getObj_setObj_other _ _ _ _ (good_pushMsg m) hne]

/-- the mailbox after appending copies of `ms` in order -/
def pushAll (o : Mbox) : List Message → Mbox
  | [] => o
  | m :: rest => pushAll (pushMsg m o) rest

theorem copyMsgs_spec (dest : Nat) : ∀ (ms : List Message) (st : St) (o : Mbox), st.getObj dest = some o →
    (copyMsgs st dest ms).2 = List.range' o.uidNext ms.length ∧
    (copyMsgs st dest ms).1.getObj dest = some (pushAll o ms) ∧
    ∀ id', id' ≠ dest → (copyMsgs st dest ms).1.getObj id' = st.getObj id' := by
  intro ms
  induction ms with
  | nil => intro st o ho; exact ⟨rfl, ho, fun _ _ => rfl⟩
  | cons m rest ih =>
    intro st o ho
    obtain ⟨h1, h2, h3⟩ := appendMsg_spec st dest m o ho
    obtain ⟨i1, i2, i3⟩ := ih (appendMsg st dest m).1 (pushMsg m o) h2
    unfold copyMsgs
    simp only
    refine ⟨?_, ?_, ?_⟩
    · rw [h1, i1]
      show o.uidNext :: List.range' (o.uidNext + 1) rest.length = _
      rw [List.length_cons, List.range'_succ]
    · rw [i2]; rfl
    · intro id' hne
      rw [i3 id' hne, h3 id' hne]

theorem pushAll_msgs : ∀ (ms : List Message) (o : Mbox),
    (pushAll o ms).msgs = o.msgs ++ (ms.zip (List.range' o.uidNext ms.length)).map (fun p => { p.1 with uid := p.2 }) ∧
    (pushAll o ms).uidNext = o.uidNext + ms.length ∧ (pushAll o ms).uidValidity = o.uidValidity ∧ (pushAll o ms).id = o.id := by
  intro ms
  induction ms with
  | nil => intro o; simp [pushAll]
  | cons m rest ih =>
    intro o
    obtain ⟨h1, h2, h3, h4⟩ := ih (pushMsg m o)
    unfold pushAll
    refine ⟨?_, ?_, ?_, ?_⟩
    · rw [h1]
      show (o.msgs ++ [{ m with uid := o.uidNext }]) ++ _ = _
      rw [List.length_cons, List.range'_succ, List.zip_cons_cons, List.map_cons, List.append_assoc]
      rfl
    · rw [h2]; show o.uidNext + 1 + rest.length = _; rw [List.length_cons]; omega
    · rw [h3]; rfl
    · rw [h4]; rfl

/-! ### STORE: flag-set algebra -/

theorem mem_addFlag (l : List Str) (f x : Str) : x ∈ addFlag l f ↔ x ∈ l ∨ x = f := by
  unfold addFlag
  split
  · rename_i h
    constructor
    · exact Or.inl
    · rintro (h' | rfl)
      · exact h'
      · exact List.contains_iff_mem.mp h |> fun hm => by simpa using hm
  · simp [List.mem_append]

theorem mem_addFlags (fs : List Str) : ∀ (l : List Str) (x : Str), x ∈ addFlags l fs ↔ x ∈ l ∨ x ∈ fs := by
  induction fs with
  | nil => intro l x; simp [addFlags]
  | cons f fs ih =>
    intro l x
    unfold addFlags
    rw [List.foldl_cons]
    have := ih (addFlag l f) x
    unfold addFlags at this
    rw [this, mem_addFlag, List.mem_cons]
    constructor
    · rintro ((h | h) | h)
      · exact Or.inl h
      · exact Or.inr (Or.inl h)
      · exact Or.inr (Or.inr h)
    · rintro (h | h | h)
      · exact Or.inl (Or.inl h)
      · exact Or.inl (Or.inr h)
      · exact Or.inr h

/-- STORE FLAGS / +FLAGS / -FLAGS as set operations on lower-cased names -/
theorem mem_storeFlags (op : StoreOp) (old fs : List Str) (x : Str) :
    x ∈ storeFlags op old fs ↔
      match op with
      | .set => x ∈ fs.map lower
      | .add => x ∈ old ∨ x ∈ fs.map lower
      | .del => x ∈ old ∧ x ∉ fs.map lower := by
  cases op with
  | set => unfold storeFlags; simp only; rw [mem_addFlags]; simp
  | add => unfold storeFlags; simp only; rw [mem_addFlags]
  | del =>
    unfold storeFlags delFlags
    simp only [List.mem_filter, Bool.not_eq_true', List.contains_eq_mem, decide_eq_false_iff_not]

/-! ### positions -/

theorem mem_zipSeq {l : List Message} {i : Nat} {m : Message} : (i, m) ∈ zipSeq l ↔ i ≥ 1 ∧ l[i - 1]? = some m := by
  unfold zipSeq
  constructor
  · intro h
    obtain ⟨⟨m', j⟩, hmem, heq⟩ := List.mem_map.mp h
    simp only [Prod.mk.injEq] at heq
    obtain ⟨rfl, rfl⟩ := heq
    have := List.mem_zipIdx_iff_getElem?.mp hmem
    exact ⟨by omega, by simpa using this⟩
  · intro ⟨h1, h2⟩
    refine List.mem_map.mpr ⟨(m, i - 1), ?_, ?_⟩
    · apply List.mem_zipIdx_iff_getElem?.mpr
      simpa using h2
    · simp only [Prod.mk.injEq, and_true]; omega

theorem zipSeq_snd (l : List Message) : (zipSeq l).map (·.2) = l := by
  unfold zipSeq
  rw [List.map_map]
  conv => rhs; rw [← List.zipIdx_map_fst 0 l]
  rfl

theorem zipSeq_inj {l : List Message} {p q : Nat × Message} (hp : p ∈ zipSeq l) (hq : q ∈ zipSeq l) (h : p.1 = q.1) : p = q := by
  obtain ⟨i, m⟩ := p
  obtain ⟨j, m'⟩ := q
  simp only at h
  subst h
  have h1 := (mem_zipSeq.mp hp).2
  have h2 := (mem_zipSeq.mp hq).2
  rw [h1] at h2
  cases h2
  rfl

/-- removing the positions selected by a predicate is filtering by its negation -/
theorem dropSeqs_filter (o : Mbox) (p : Nat × Message → Bool) :
    (dropSeqs (((zipSeq o.msgs).filter p).map (·.1)) o).msgs = ((zipSeq o.msgs).filter (fun q => !p q)).map (·.2) := by
  unfold dropSeqs
  simp only
  congr 1
  apply List.filter_congr
  intro q hq
  congr 1
  rw [Bool.eq_iff_iff, List.contains_iff_mem]
  constructor
  · intro h
    obtain ⟨q', hq', he⟩ := List.mem_map.mp h
    have hm := (List.mem_filter.mp hq').1
    have := zipSeq_inj hm hq he
    subst this
    exact (List.mem_filter.mp hq').2
  · intro h
    exact List.mem_map.mpr ⟨q, List.mem_filter.mpr ⟨hq, h⟩, rfl⟩

/-- … and when the predicate looks at the message only, it is a filter of the message list -/
theorem dropSeqs_filter_msg (o : Mbox) (p : Message → Bool) :
    (dropSeqs (((zipSeq o.msgs).filter fun q => p q.2).map (·.1)) o).msgs = o.msgs.filter (fun m => !p m) := by
  rw [dropSeqs_filter]
  have : ((zipSeq o.msgs).filter fun q => !p q.2) = (zipSeq o.msgs).filter ((fun m => !p m) ∘ (·.2)) := rfl
  rw [this, ← List.filter_map, zipSeq_snd]

end GoImap.MailboxLemmas
