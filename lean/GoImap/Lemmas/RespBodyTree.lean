/-
  C03, BODY / BODYSTRUCTURE: the RECURSIVE part of the round trip of Model/RespBody.lean —
  `printBody` / `printBodies` (writeBodyStructure, writeBodyType1part, writeBodyTypeMpart) against
  `readBody` / `readMpart` / `readOnePart` (readBody, readBodyTypeMpart, readBodyType1part), for body
  trees of arbitrary depth, in the extended and the non-extended form.

  The non-recursive pieces (envelope, parameter lists, extension blocks) enter as hypotheses bundled
  in `bt_Pieces`; they are proved in sibling files.

  Main results: `bt_body_fidelity` (with `bt_msg_fidelity`, `bt_bodies_fidelity`), `bt_fuel_le`,
  `bt_body_fidelity_top` (the call `readBody dec (r.length + 1) r` of `readItemQ`).
  Building blocks: `bt_onePart_head` + `bt_after_leaf` / `bt_after_text` / `bt_after_msg` (the single-part
  line), `bt_single_line`, `bt_mpart_last` / `bt_mpart_more` (one `readMpart` step each).
-/
import GoImap.Lemmas.RespWire
import GoImap.Lemmas.RespQ
namespace GoImap.Resp

/-- the non-recursive pieces of the body round trip, over abstract side conditions -/
structure bt_Pieces (utf8 : Bool) (enc dec : QTab) where
  EnvP : Envelope → Prop
  ParamsP : Params → Prop
  Ext1P : SingleExt → Prop
  ExtMP : MultiExt → Prop
  env : ∀ e t r, EnvP e → printEnvelope utf8 enc (some e) = some t →
    readEnvelope dec (t ++ r) = some (RespSpec.canonEnvelope e, r)
  envNil : ∀ t r, printEnvelope utf8 enc none = some t → readEnvelope dec (t ++ r) = some (RespSpec.emptyEnvelope, r)
  params : ∀ p r, ParamsP p → StopsAt isAtomChar r →
    readParams dec (printParams utf8 p ++ r) = some (RespSpec.canonParams p, r)
  ext1 : ∀ x r, Ext1P x → (∃ u, r = 41 :: u) →
    readExt1 dec (NILb ++ 32 :: (printDisp utf8 x.disp ++ 32 :: (printLang utf8 x.lang ++ 32 :: (encNString utf8 x.loc ++ r)))) =
      some (RespSpec.canonSingleExt x, r)
  extM : ∀ x r, ExtMP x → (∃ u, r = 41 :: u) →
    readExtM dec (printParams utf8 x.params ++ 32 :: (printDisp utf8 x.disp ++ 32 :: (printLang utf8 x.lang ++ 32 ::
      (encNString utf8 x.loc ++ r)))) = some (RespSpec.canonMultiExt x, r)
  paramsHead : ∀ p, ∃ c t, printParams utf8 p = c :: t ∧ c ≠ 13 ∧ c ≠ 10

/-! ## first bytes, SP -/

/-- the first byte is neither CR nor LF -/
def bt_Head (s : Str) : Prop := ∃ c t, s = c :: t ∧ c ≠ 13 ∧ c ≠ 10

theorem bt_Head.append {s : Str} (h : bt_Head s) (r : Str) : bt_Head (s ++ r) := by
  obtain ⟨c, t, e, h1, h2⟩ := h
  exact ⟨c, t ++ r, by rw [e]; rfl, h1, h2⟩

theorem bt_decSP_sp (s : Str) (h : bt_Head s) : decSP (32 :: s) = (true, s) := by
  obtain ⟨c, t, e, h1, h2⟩ := h
  subst e
  simp [decSP, h1, h2]

theorem bt_expectSP_sp (s : Str) (h : bt_Head s) : expectSP (32 :: s) = some s := by
  unfold expectSP
  rw [bt_decSP_sp s h]

theorem bt_decSP_close (r : Str) : decSP (41 :: r) = (false, 41 :: r) := by
  simp [decSP]

theorem bt_encString_cases (utf8 : Bool) (s : Str) : ∃ t, encString utf8 s = 34 :: t ∨ encString utf8 s = 123 :: t := by
  unfold encString
  split
  · exact ⟨_, Or.inl rfl⟩
  · exact ⟨_, Or.inr rfl⟩

theorem bt_encString_head (utf8 : Bool) (s : Str) : bt_Head (encString utf8 s) := by
  obtain ⟨t, h | h⟩ := bt_encString_cases utf8 s
  · exact ⟨34, t, h, by decide, by decide⟩
  · exact ⟨123, t, h, by decide, by decide⟩

theorem bt_encNString_head (utf8 : Bool) (s : Str) : bt_Head (encNString utf8 s) := by
  unfold encNString
  split
  · exact ⟨78, _, rfl, by decide, by decide⟩
  · exact bt_encString_head utf8 s

theorem bt_encNumber_cons (n : Nat) : ∃ c t, encNumber n = c :: t ∧ isDigitB c = true := by
  obtain ⟨_, h2, h3⟩ := encNumber_spec n
  cases hd : encNumber n with
  | nil => exact absurd hd h3
  | cons c t => exact ⟨c, t, rfl, h2 c (by rw [hd]; simp)⟩

theorem bt_digit_facts (c : Nat) (h : isDigitB c = true) : c ≠ 13 ∧ c ≠ 10 ∧ c ≠ 45 := by
  simp only [isDigitB, Bool.and_eq_true, decide_eq_true_eq] at h
  omega

theorem bt_encNumber_head (n : Nat) : bt_Head (encNumber n) := by
  obtain ⟨c, t, e, hc⟩ := bt_encNumber_cons n
  obtain ⟨h1, h2, _⟩ := bt_digit_facts c hc
  exact ⟨c, t, e, h1, h2⟩

theorem bt_NILb_head : bt_Head NILb := ⟨78, [73, 76], rfl, by decide, by decide⟩

theorem bt_paren_head (u : Str) : bt_Head (40 :: u) := ⟨40, u, rfl, by decide, by decide⟩

/-- Decoder.ExpectBodyFldOctets on a number the server wrote -/
theorem bt_decOctets (n : Nat) (hn : n < 4294967296) (rest : Str) (hr : StopsAt isDigitB rest) :
    decOctets (encNumber n ++ rest) = some (n, rest) := by
  have hd := decNumber_encNumber n hn rest hr
  obtain ⟨c, t, e, hc⟩ := bt_encNumber_cons n
  obtain ⟨_, _, h45⟩ := bt_digit_facts c hc
  rw [e] at hd ⊢
  rw [List.cons_append] at hd ⊢
  unfold decOctets
  split
  · rename_i heq; injection heq with h _; exact absurd h h45
  · rename_i heq; injection heq with h _; exact absurd h h45
  · exact hd

/-! ## the single-part line after the size -/

/-- `readOnePart` from the point where the header fields have been read -/
def bt_after (dec : QTab) (fuel : Nat) (typ sub : Str) (h : SingleHdr) (r : Str) : Option (Body × Str) :=
  match decSP r with
  | (false, r) => pure (Body.single h .none none none, r)
  | (true, r) =>
    if eqFold typ (asc "message") && (eqFold sub (asc "rfc822") || eqFold sub (asc "global")) then do
      let (env, r) ← readEnvelope dec r
      let r ← expectSP r
      let (b, r) ← readBody dec fuel r
      let r ← expectSP r
      let (n, r) ← decNumber64 r
      match decSP r with
      | (false, r) => pure (Body.single h (.some (some env) b n) none none, r)
      | (true, r) =>
        let (x, r) ← readExt1 dec r
        pure (Body.single h (.some (some env) b n) none (some x), r)
    else if eqFold typ (asc "text") then do
      let (n, r) ← decNumber64 r
      match decSP r with
      | (false, r) => pure (Body.single h .none (some (n : Int)) none, r)
      | (true, r) =>
        let (x, r) ← readExt1 dec r
        pure (Body.single h .none (some (n : Int)) (some x), r)
    else do
      let (x, r) ← readExt1 dec r
      pure (Body.single h .none none (some x), r)

/-- the header fields of a single part, one reader step each -/
theorem bt_onePart_steps (dec : QTab) (fuel : Nat) (typ s : Str)
    (s1 s2 s3 s4 s5 s6 s7 s8 s9 s10 s11 R sub id desc desc' enc : Str) (params : Params) (size : Nat)
    (h1 : expectSP s = some s1) (h2 : decString s1 = some (sub, s2)) (h3 : expectSP s2 = some s3)
    (h4 : readParams dec s3 = some (params, s4)) (h5 : expectSP s4 = some s5) (h6 : decNString s5 = some (id, s6))
    (h7 : expectSP s6 = some s7) (h8 : decNString s7 = some (desc, s8)) (h9 : expectSP s8 = some s9)
    (h10 : decNString s9 = some (enc, s10)) (h11 : expectSP s10 = some s11) (h12 : decOctets s11 = some (size, R))
    (h13 : qdec dec desc = some desc') :
    readOnePart dec (fuel + 1) typ s =
      bt_after dec fuel typ sub { type := typ, subtype := sub, params := params, id := id, desc := desc',
                                  enc := if enc.isEmpty then asc "7BIT" else enc, size := size } R := by
  rw [readOnePart]
  simp only [h1, h2, h3, h4, h5, h6, h7, h8, h9, h10, h11, h12, h13, Option.bind_eq_bind, Option.bind_some]
  rfl

/-- how the single-part line ends: `)` (non-extended form) or SP and the extension block -/
def bt_End1 (dec : QTab) (R : Str) (xo : Option SingleExt) (R' : Str) : Prop :=
  (decSP R = (false, R') ∧ xo = none) ∨ (∃ r3 x, decSP R = (true, r3) ∧ readExt1 dec r3 = some (x, R') ∧ xo = some x)

theorem bt_End1.close (dec : QTab) (r : Str) : bt_End1 dec (41 :: r) none (41 :: r) :=
  Or.inl ⟨bt_decSP_close r, rfl⟩

theorem bt_after_close (dec : QTab) (fuel : Nat) (typ sub : Str) (h : SingleHdr) (r : Str) :
    bt_after dec fuel typ sub h (41 :: r) = some (Body.single h .none none none, 41 :: r) := by
  unfold bt_after
  rw [bt_decSP_close]
  rfl

theorem bt_after_leaf_ext (dec : QTab) (fuel : Nat) (typ sub : Str) (h : SingleHdr) (X R' : Str) (x : SingleExt)
    (hm : (eqFold typ (asc "message") && (eqFold sub (asc "rfc822") || eqFold sub (asc "global"))) = false)
    (ht : eqFold typ (asc "text") = false) (hX : bt_Head X) (hx : readExt1 dec X = some (x, R')) :
    bt_after dec fuel typ sub h (32 :: X) = some (Body.single h .none none (some x), R') := by
  unfold bt_after
  rw [bt_decSP_sp X hX]
  simp only [hm, ht, hx, Option.bind_eq_bind, Option.bind_some, Option.pure_def, Bool.false_eq_true, if_false]

theorem bt_after_text (dec : QTab) (fuel : Nat) (typ sub : Str) (h : SingleHdr) (n : Nat) (hn : n < 9223372036854775808)
    (R2 R' : Str) (xo : Option SingleExt)
    (hm : (eqFold typ (asc "message") && (eqFold sub (asc "rfc822") || eqFold sub (asc "global"))) = false)
    (ht : eqFold typ (asc "text") = true) (hstop : StopsAt isDigitB R2) (hend : bt_End1 dec R2 xo R') :
    bt_after dec fuel typ sub h (32 :: (encNumber n ++ R2)) = some (Body.single h .none (some (n : Int)) xo, R') := by
  unfold bt_after
  rw [bt_decSP_sp _ ((bt_encNumber_head n).append R2)]
  have hN := decNumber64_encNumber n hn R2 hstop
  rcases hend with ⟨h1, h2⟩ | ⟨r3, x, h1, h2, h3⟩
  · subst h2
    simp only [hm, ht, hN, h1, Option.bind_eq_bind, Option.bind_some, Option.pure_def, Bool.false_eq_true, if_false, if_true]
  · subst h3
    simp only [hm, ht, hN, h1, h2, Option.bind_eq_bind, Option.bind_some, Option.pure_def, Bool.false_eq_true, if_false, if_true]

theorem bt_after_msg (dec : QTab) (fuel : Nat) (typ sub : Str) (h : SingleHdr) (et bt : Str) (env : Envelope) (b : Body)
    (n : Nat) (hn : n < 9223372036854775808) (R2 R' : Str) (xo : Option SingleExt)
    (hm : (eqFold typ (asc "message") && (eqFold sub (asc "rfc822") || eqFold sub (asc "global"))) = true)
    (hetH : bt_Head et) (hbtH : bt_Head bt)
    (henv : ∀ r, readEnvelope dec (et ++ r) = some (env, r))
    (hbody : ∀ r, readBody dec fuel (bt ++ r) = some (b, r))
    (hstop : StopsAt isDigitB R2) (hend : bt_End1 dec R2 xo R') :
    bt_after dec fuel typ sub h (32 :: (et ++ 32 :: (bt ++ 32 :: (encNumber n ++ R2)))) =
      some (Body.single h (.some (some env) b n) none xo, R') := by
  unfold bt_after
  rw [bt_decSP_sp _ (hetH.append _)]
  have hN := decNumber64_encNumber n hn R2 hstop
  have hS1 := bt_expectSP_sp _ (hbtH.append (32 :: (encNumber n ++ R2)))
  have hS2 := bt_expectSP_sp _ ((bt_encNumber_head n).append R2)
  have hE := henv (32 :: (bt ++ 32 :: (encNumber n ++ R2)))
  have hB := hbody (32 :: (encNumber n ++ R2))
  rcases hend with ⟨h1, h2⟩ | ⟨r3, x, h1, h2, h3⟩
  · subst h2
    simp only [hm, hE, hS1, hB, hS2, hN, h1, Option.bind_eq_bind, Option.bind_some, Option.pure_def, if_true]
  · subst h3
    simp only [hm, hE, hS1, hB, hS2, hN, h1, h2, Option.bind_eq_bind, Option.bind_some, Option.pure_def, if_true]

/-! ## what the printer wrote -/

theorem bt_encNumber64 (n : Int) (nt : Str) (h : encNumber64 n = some nt) : 0 ≤ n ∧ nt = encNumber n.toNat := by
  unfold encNumber64 at h
  split at h
  · cases h
  · injection h with h; exact ⟨by omega, h.symm⟩

/-- the encoding text the server writes -/
def bt_encT (h : SingleHdr) : Str := if h.enc.isEmpty then asc "7BIT" else toUpper h.enc

/-- the part of a single-part line between the size and the extension data -/
def bt_MidOf (utf8 : Bool) (enc : QTab) (ext : Bool) : MsgOpt → Option Int → Str → Prop
  | .some e b n, _, mid => ∃ et bt, printEnvelope utf8 enc e = some et ∧ printBody utf8 enc ext b = some bt ∧ 0 ≤ n ∧
      mid = 32 :: (et ++ 32 :: (bt ++ 32 :: encNumber n.toNat))
  | .none, some n, mid => 0 ≤ n ∧ mid = 32 :: encNumber n.toNat
  | .none, none, mid => mid = []

/-- the extension data of a single-part line -/
def bt_Tail1Of (utf8 : Bool) (ext : Bool) (x : Option SingleExt) (tail : Str) : Prop :=
  if ext then ∃ x', x = some x' ∧
    tail = 32 :: (NILb ++ 32 :: (printDisp utf8 x'.disp ++ 32 :: (printLang utf8 x'.lang ++ 32 :: encNString utf8 x'.loc)))
  else tail = []

set_option hygiene false in
/-- the extension part of `printBody` on a single part (local to the next proof) -/
local macro "bt_tail_block" : tactic => `(tactic| (
  cases ext with
  | false =>
    simp only [Bool.false_eq_true, if_false, Option.bind_some] at hp
    injection hp with hp
    exact ⟨[], by simp [bt_Tail1Of], by rw [← hp]; rfl⟩
  | true =>
    cases x with
    | none => simp at hp
    | some x' =>
      simp only [if_true, Option.bind_some] at hp
      injection hp with hp
      exact ⟨asc " NIL " ++ printDisp utf8 x'.disp ++ [32] ++ printLang utf8 x'.lang ++ [32] ++ encNString utf8 x'.loc,
        by simp only [bt_Tail1Of, if_true]; exact ⟨x', rfl, by rw [e5]; simp⟩, by rw [← hp]; rfl⟩))

theorem bt_printBody_single (utf8 : Bool) (enc : QTab) (ext : Bool) (h : SingleHdr) (msg : MsgOpt) (text : Option Int)
    (x : Option SingleExt) (t : Str) (hp : printBody utf8 enc ext (.single h msg text x) = some t) :
    isASCIIStr h.enc = true ∧ ∃ mid tail, bt_MidOf utf8 enc ext msg text mid ∧ bt_Tail1Of utf8 ext x tail ∧
      t = 40 :: (encString utf8 h.type ++ 32 :: (encString utf8 h.subtype ++ 32 :: (printParams utf8 h.params ++ 32 ::
        (encNString utf8 h.id ++ 32 :: (encNString utf8 h.desc ++ 32 :: (encString utf8 (bt_encT h) ++ 32 ::
          (encNumber h.size ++ (mid ++ (tail ++ [41]))))))))) := by
  rw [printBody] at hp
  cases ha : isASCIIStr h.enc with
  | false => simp [ha] at hp
  | true =>
    refine ⟨rfl, ?_⟩
    simp only [ha, Bool.not_true, Bool.false_eq_true, if_false] at hp
    have e5 : asc " NIL " = 32 :: (NILb ++ [32]) := by decide
    have hgoal : ∃ mid, bt_MidOf utf8 enc ext msg text mid ∧ ∃ tail, bt_Tail1Of utf8 ext x tail ∧
        t = 40 :: (encString utf8 h.type ++ [32] ++ encString utf8 h.subtype ++ [32] ++ printParams utf8 h.params ++ [32] ++
          encNString utf8 h.id ++ [32] ++ encNString utf8 h.desc ++ [32] ++ encString utf8 (bt_encT h) ++ [32] ++
          encNumber h.size ++ mid ++ tail ++ [41]) := by
      cases msg with
      | some e b n =>
        simp only [Option.bind_eq_bind, Option.bind_eq_some_iff, Option.pure_def] at hp
        obtain ⟨et, het, bt, hbt, nt, hnt, mid, hmid, hp⟩ := hp
        obtain ⟨hn0, hnt'⟩ := bt_encNumber64 n nt hnt
        injection hmid with hmid
        refine ⟨mid, ⟨et, bt, het, hbt, hn0, by rw [← hmid, hnt']; simp⟩, ?_⟩
        bt_tail_block
      | none =>
        cases text with
        | some n =>
          simp only [Option.bind_eq_bind, Option.bind_eq_some_iff, Option.pure_def, Option.map_eq_some_iff] at hp
          obtain ⟨mid, ⟨nt, hnt, hmid⟩, hp⟩ := hp
          obtain ⟨hn0, hnt'⟩ := bt_encNumber64 n nt hnt
          refine ⟨mid, ⟨hn0, by rw [← hmid, hnt']⟩, ?_⟩
          bt_tail_block
        | none =>
          simp only [Option.bind_eq_bind, Option.bind_some, Option.pure_def] at hp
          refine ⟨[], rfl, ?_⟩
          bt_tail_block
    obtain ⟨mid, hM, tail, hT, ht⟩ := hgoal
    refine ⟨mid, tail, hM, hT, ?_⟩
    rw [ht]
    simp only [List.append_assoc, List.cons_append, List.nil_append]

/-- the extension data of a multipart -/
def bt_TailMOf (utf8 : Bool) (ext : Bool) (x : Option MultiExt) (tail : Str) : Prop :=
  if ext then ∃ x', x = some x' ∧
    tail = 32 :: (printParams utf8 x'.params ++ 32 :: (printDisp utf8 x'.disp ++ 32 :: (printLang utf8 x'.lang ++ 32 ::
      encNString utf8 x'.loc)))
  else tail = []

theorem bt_printBody_multi (utf8 : Bool) (enc : QTab) (ext : Bool) (ch : BodyList) (st : Str) (x : Option MultiExt) (t : Str)
    (hp : printBody utf8 enc ext (.multi ch st x) = some t) :
    ∃ cs tail, printBodies utf8 enc ext ch = some cs ∧ cs ≠ [] ∧ bt_TailMOf utf8 ext x tail ∧
      t = 40 :: (joinSP cs ++ 32 :: (encString utf8 st ++ (tail ++ [41]))) := by
  rw [printBody] at hp
  simp only [Option.bind_eq_bind, Option.bind_eq_some_iff, Option.pure_def] at hp
  obtain ⟨cs, hcs, hp⟩ := hp
  cases hcs' : cs with
  | nil => rw [hcs'] at hp; simp at hp
  | cons c cs' =>
    have hne : cs ≠ [] := by rw [hcs']; simp
    have hemp : cs.isEmpty = false := by rw [hcs']; rfl
    simp only [hemp, Bool.false_eq_true, if_false] at hp
    cases ext with
    | false =>
      simp only [Bool.false_eq_true, if_false, Option.bind_some] at hp
      injection hp with hp
      exact ⟨cs, [], hcs, hne, by simp [bt_TailMOf], by rw [← hp]; simp⟩
    | true =>
      cases x with
      | none => simp at hp
      | some x' =>
        simp only [if_true, Option.bind_some] at hp
        injection hp with hp
        exact ⟨cs, _, hcs, hne, by simp only [bt_TailMOf, if_true]; exact ⟨x', rfl, rfl⟩, by rw [← hp]; simp⟩

theorem bt_printBodies_cons (utf8 : Bool) (enc : QTab) (ext : Bool) (b : Body) (t : BodyList) (cs : List Str)
    (hp : printBodies utf8 enc ext (.cons b t) = some cs) :
    ∃ x ts, printBody utf8 enc ext b = some x ∧ printBodies utf8 enc ext t = some ts ∧ cs = x :: ts := by
  rw [printBodies] at hp
  simp only [Option.bind_eq_bind, Option.bind_eq_some_iff, Option.pure_def, Option.some.injEq] at hp
  obtain ⟨x, hx, ts, hts, e⟩ := hp
  exact ⟨x, ts, hx, hts, e.symm⟩

theorem bt_printBodies_nil (utf8 : Bool) (enc : QTab) (ext : Bool) (l : BodyList)
    (hp : printBodies utf8 enc ext l = some []) : l = .nil := by
  cases l with
  | nil => rfl
  | cons b t =>
    obtain ⟨x, ts, _, _, e⟩ := bt_printBodies_cons utf8 enc ext b t [] hp
    cases e

theorem bt_printEnvelope_head (utf8 : Bool) (enc : QTab) (e : Option Envelope) (t : Str)
    (hp : printEnvelope utf8 enc e = some t) : ∃ u, t = 40 :: u := by
  unfold printEnvelope at hp
  simp only [Option.bind_eq_bind, Option.bind_eq_some_iff, Option.pure_def, Option.some.injEq] at hp
  obtain ⟨_, _, _, _, _, _, _, _, _, _, _, _, _, _, hp⟩ := hp
  exact ⟨_, hp.symm⟩

theorem bt_printBody_head (utf8 : Bool) (enc : QTab) (ext : Bool) (b : Body) (t : Str)
    (hp : printBody utf8 enc ext b = some t) : ∃ u, t = 40 :: u := by
  cases b with
  | single h msg text x =>
    obtain ⟨_, mid, tail, _, _, e⟩ := bt_printBody_single utf8 enc ext h msg text x t hp
    exact ⟨_, e⟩
  | multi ch st x =>
    obtain ⟨cs, tail, _, _, _, e⟩ := bt_printBody_multi utf8 enc ext ch st x t hp
    exact ⟨_, e⟩

/-! ## specification vocabulary against the model's -/

theorem bt_encT_canon (h : SingleHdr) : bt_encT h = RespSpec.canonEnc h.enc := rfl

theorem bt_encT_ne (h : SingleHdr) : bt_encT h ≠ [] := by
  unfold bt_encT
  cases he : h.enc with
  | nil => simp only [List.isEmpty_nil, if_true]; decide
  | cons c t => simp [toUpper]

theorem bt_encT_fits (h : SingleHdr) (hf : Fits h.enc) : Fits (bt_encT h) := by
  unfold bt_encT Fits at *
  cases he : h.enc with
  | nil => simp only [List.isEmpty_nil, if_true]; decide
  | cons c t => rw [he] at hf; simpa [toUpper] using hf

theorem bt_isText_eq (h : SingleHdr) : eqFold h.type (asc "text") = RespSpec.isText h := by
  have e : (asc "text").map lowerB = RespSpec.str "text" := by decide
  unfold eqFold RespSpec.isText
  rw [e]
  rfl

theorem bt_isMessage_eq (h : SingleHdr) :
    (eqFold h.type (asc "message") && (eqFold h.subtype (asc "rfc822") || eqFold h.subtype (asc "global"))) =
      RespSpec.isMessage h := by
  have e1 : (asc "message").map lowerB = RespSpec.str "message" := by decide
  have e2 : (asc "rfc822").map lowerB = RespSpec.str "rfc822" := by decide
  have e3 : (asc "global").map lowerB = RespSpec.str "global" := by decide
  unfold eqFold RespSpec.isMessage
  rw [e1, e2, e3]
  rfl

theorem bt_msg_not_text (h : SingleHdr) (hm : RespSpec.isMessage h = true) : RespSpec.isText h = false := by
  unfold RespSpec.isMessage at hm
  simp only [Bool.and_eq_true, beq_iff_eq] at hm
  unfold RespSpec.isText
  rw [hm.1]
  decide

theorem bt_after_leaf (dec : QTab) (fuel : Nat) (typ sub : Str) (h : SingleHdr) (R R' : Str) (xo : Option SingleExt)
    (hm : (eqFold typ (asc "message") && (eqFold sub (asc "rfc822") || eqFold sub (asc "global"))) = false)
    (ht : eqFold typ (asc "text") = false) (hend : bt_End1 dec R xo R') :
    bt_after dec fuel typ sub h R = some (Body.single h .none none xo, R') := by
  unfold bt_after
  rcases hend with ⟨h1, h2⟩ | ⟨r3, x, h1, h2, h3⟩
  · subst h2
    simp only [h1, Option.pure_def]
  · subst h3
    simp only [hm, ht, h1, h2, Option.bind_eq_bind, Option.bind_some, Option.pure_def, Bool.false_eq_true, if_false]

/-- side conditions on the scalar fields of a single part -/
def bt_HdrOK {utf8 : Bool} {enc dec : QTab} (P : bt_Pieces utf8 enc dec) (h : SingleHdr) : Prop :=
  P.ParamsP h.params ∧ Fits h.type ∧ Fits h.subtype ∧ Fits h.id ∧ Fits h.desc ∧ QRaw dec h.desc ∧ Fits h.enc ∧
    h.size < 4294967296

theorem bt_onePart_head {utf8 : Bool} {enc dec : QTab} (P : bt_Pieces utf8 enc dec) (h : SingleHdr) (hH : bt_HdrOK P h)
    (fuel : Nat) (R : Str) (hR : StopsAt isDigitB R) :
    readOnePart dec (fuel + 1) h.type (32 :: (encString utf8 h.subtype ++ 32 :: (printParams utf8 h.params ++ 32 ::
      (encNString utf8 h.id ++ 32 :: (encNString utf8 h.desc ++ 32 :: (encString utf8 (bt_encT h) ++ 32 ::
        (encNumber h.size ++ R))))))) = bt_after dec fuel h.type h.subtype (RespSpec.canonHdr h) R := by
  obtain ⟨hP, _, hFs, hFi, hFd, hQ, hFe, hsz⟩ := hH
  have hsp : StopsAt isAtomChar (32 :: (encNString utf8 h.id ++ 32 :: (encNString utf8 h.desc ++ 32 ::
      (encNString utf8 (bt_encT h) ++ 32 :: (encNumber h.size ++ R))))) := StopsAt.cons _ (by decide)
  have eE : encString utf8 (bt_encT h) = encNString utf8 (bt_encT h) := by
    unfold encNString
    cases he : bt_encT h with
    | nil => exact absurd he (bt_encT_ne h)
    | cons c t => rfl
  rw [eE]
  have key := bt_onePart_steps dec fuel h.type _ _ _ _ _ _ _ _ _ _ _ _ R h.subtype h.id h.desc h.desc (bt_encT h)
    (RespSpec.canonParams h.params) h.size
    (bt_expectSP_sp _ ((bt_encString_head utf8 h.subtype).append _))
    (decString_encString utf8 h.subtype _ hFs)
    (bt_expectSP_sp _ (bt_Head.append (P.paramsHead h.params) _))
    (P.params h.params _ hP hsp)
    (bt_expectSP_sp _ ((bt_encNString_head utf8 h.id).append _))
    (decNString_encNString utf8 h.id _ hFi (StopsAt.cons _ (by decide)))
    (bt_expectSP_sp _ ((bt_encNString_head utf8 h.desc).append _))
    (decNString_encNString utf8 h.desc _ hFd (StopsAt.cons _ (by decide)))
    (bt_expectSP_sp _ ((bt_encNString_head utf8 (bt_encT h)).append _))
    (decNString_encNString utf8 (bt_encT h) _ (bt_encT_fits h hFe) (StopsAt.cons _ (by decide)))
    (bt_expectSP_sp _ ((bt_encNumber_head h.size).append R))
    (bt_decOctets h.size hsz R hR)
    hQ
  rw [key]
  have eh : ({ type := h.type, subtype := h.subtype, params := RespSpec.canonParams h.params, id := h.id, desc := h.desc,
               enc := if (bt_encT h).isEmpty then asc "7BIT" else bt_encT h, size := h.size } : SingleHdr) = RespSpec.canonHdr h := by
    have : (bt_encT h).isEmpty = false := by
      cases he : bt_encT h with
      | nil => exact absurd he (bt_encT_ne h)
      | cons c t => rfl
    rw [this]
    rfl
  rw [eh]

/-- the end of a single-part line the server wrote: what the reader finds there -/
theorem bt_End1_of_tail {utf8 : Bool} {enc dec : QTab} (P : bt_Pieces utf8 enc dec) (ext : Bool) (x : Option SingleExt)
    (tail r : Str) (hT : bt_Tail1Of utf8 ext x tail) (hX : ext = true → ∃ x', x = some x' ∧ P.Ext1P x') :
    bt_End1 dec (tail ++ 41 :: r) (if ext then x.map RespSpec.canonSingleExt else none) (41 :: r) ∧
      StopsAt isDigitB (tail ++ 41 :: r) := by
  cases ext with
  | false =>
    have e : tail = [] := by simpa [bt_Tail1Of] using hT
    subst e
    exact ⟨bt_End1.close dec r, StopsAt.cons _ (by decide)⟩
  | true =>
    obtain ⟨x', hx', hP⟩ := hX rfl
    subst hx'
    simp only [bt_Tail1Of, if_true] at hT
    obtain ⟨x'', hx'', e⟩ := hT
    injection hx'' with hx''
    subst hx''
    subst e
    refine ⟨Or.inr ⟨NILb ++ 32 :: (printDisp utf8 x'.disp ++ 32 :: (printLang utf8 x'.lang ++ 32 :: (encNString utf8 x'.loc ++
      41 :: r))), RespSpec.canonSingleExt x', ?_, ?_, rfl⟩, StopsAt.cons _ (by decide)⟩
    · have e : (32 :: (NILb ++ 32 :: (printDisp utf8 x'.disp ++ 32 :: (printLang utf8 x'.lang ++ 32 :: encNString utf8 x'.loc)))) ++
          41 :: r = 32 :: (NILb ++ 32 :: (printDisp utf8 x'.disp ++ 32 :: (printLang utf8 x'.lang ++ 32 :: (encNString utf8 x'.loc ++
            41 :: r)))) := by simp
      rw [e]
      exact bt_decSP_sp _ (bt_NILb_head.append _)
    · exact P.ext1 x' (41 :: r) hP ⟨r, rfl⟩

/-- `readBody` on a single part: the media type is a string, so the byte after `(` is not `(` -/
theorem bt_readBody_single (dec : QTab) (fuel : Nat) (s rest typ : Str) (b : Body) (r' : Str)
    (hs : decString s = some (typ, rest)) (hne : ∀ u, s ≠ 40 :: u)
    (h : readOnePart dec fuel typ rest = some (b, 41 :: r')) : readBody dec (fuel + 1) (40 :: s) = some (b, r') := by
  rw [readBody]
  · simp only [hs, h]
  · intro tail e; exact hne tail e

theorem bt_readBody_multi (dec : QTab) (fuel : Nat) (u : Str) (b : Body) (r' : Str)
    (h : readMpart dec fuel .nil (40 :: u) = some (b, 41 :: r')) : readBody dec (fuel + 1) (40 :: 40 :: u) = some (b, r') := by
  rw [readBody]
  simp only [h]

/-! ## well-formedness, unfolded -/

theorem bt_wf_single (ext : Bool) (h : SingleHdr) (msg : MsgOpt) (text : Option Int) (x : Option SingleExt)
    (hwf : RespSpec.wfBody ext (.single h msg text x) = true) :
    (RespSpec.isText h == text.isSome) = true ∧ RespSpec.wfMsg ext (RespSpec.isMessage h) msg = true := by
  unfold RespSpec.wfBody at hwf
  simp only [Bool.and_eq_true] at hwf
  exact ⟨hwf.1.1.1.2, hwf.2⟩

theorem bt_wf_msg_some (ext : Bool) (im : Bool) (e : Option Envelope) (b : Body) (n : Int)
    (hwf : RespSpec.wfMsg ext im (.some e b n) = true) : im = true ∧ 0 ≤ n ∧ RespSpec.wfBody ext b = true := by
  unfold RespSpec.wfMsg at hwf
  simp only [Bool.and_eq_true, decide_eq_true_eq] at hwf
  exact ⟨hwf.1.1.1, hwf.1.1.2, hwf.2⟩

theorem bt_wf_msg_none (ext : Bool) (im : Bool) (hwf : RespSpec.wfMsg ext im .none = true) : im = false := by
  unfold RespSpec.wfMsg at hwf
  simpa using hwf

theorem bt_wf_multi (ext : Bool) (ch : BodyList) (st : Str) (x : Option MultiExt)
    (hwf : RespSpec.wfBody ext (.multi ch st x) = true) : RespSpec.wfBodies ext ch = true := by
  unfold RespSpec.wfBody at hwf
  simp only [Bool.and_eq_true] at hwf
  exact hwf.1.2

theorem bt_wf_cons (ext : Bool) (b : Body) (t : BodyList)
    (hwf : RespSpec.wfBodies ext (.cons b t) = true) : RespSpec.wfBody ext b = true ∧ RespSpec.wfBodies ext t = true := by
  unfold RespSpec.wfBodies at hwf
  simpa using hwf
/-- the single-part line, given the round trip of the nested message body (if any) -/
theorem bt_single_line {utf8 : Bool} {enc dec : QTab} (P : bt_Pieces utf8 enc dec) (ext : Bool) (h : SingleHdr) (msg : MsgOpt)
    (text : Option Int) (x : Option SingleExt)
    (hwf : RespSpec.wfBody ext (.single h msg text x) = true)
    (hH : bt_HdrOK P h) (hText : ∀ n, text = some n → n < 9223372036854775808)
    (hX : ext = true → ∃ x', x = some x' ∧ P.Ext1P x')
    (hMsg : ∀ e b n, msg = .some e b n → (∀ e', e = some e' → P.EnvP e') ∧ n < 9223372036854775808)
    (t r : Str) (hp : printBody utf8 enc ext (.single h msg text x) = some t) (fuel : Nat)
    (hnest : ∀ e b n, msg = .some e b n → ∀ bt r', printBody utf8 enc ext b = some bt →
      readBody dec fuel (bt ++ r') = some (RespSpec.canonBody ext b, r')) :
    readBody dec (fuel + 2) (t ++ r) = some (RespSpec.canonBody ext (.single h msg text x), r) := by
  obtain ⟨_, mid, tail, hM, hT, rfl⟩ := bt_printBody_single utf8 enc ext h msg text x t hp
  obtain ⟨hend, hstop⟩ := bt_End1_of_tail P ext x tail r hT hX
  obtain ⟨hwt, hwm⟩ := bt_wf_single ext h msg text x hwf
  have eq0 : (40 :: (encString utf8 h.type ++ 32 :: (encString utf8 h.subtype ++ 32 :: (printParams utf8 h.params ++ 32 ::
        (encNString utf8 h.id ++ 32 :: (encNString utf8 h.desc ++ 32 :: (encString utf8 (bt_encT h) ++ 32 ::
          (encNumber h.size ++ (mid ++ (tail ++ [41])))))))))) ++ r =
      40 :: (encString utf8 h.type ++ 32 :: (encString utf8 h.subtype ++ 32 :: (printParams utf8 h.params ++ 32 ::
        (encNString utf8 h.id ++ 32 :: (encNString utf8 h.desc ++ 32 :: (encString utf8 (bt_encT h) ++ 32 ::
          (encNumber h.size ++ (mid ++ (tail ++ 41 :: r))))))))) := by
    simp only [List.append_assoc, List.cons_append, List.nil_append]
  rw [eq0]
  clear eq0
  apply bt_readBody_single dec (fuel + 1) _ _ h.type _ r (decString_encString utf8 h.type _ hH.2.1)
  · intro u hu
    obtain ⟨t', h' | h'⟩ := bt_encString_cases utf8 h.type <;> rw [h'] at hu <;> injection hu with hu _ <;> omega
  · have hR : StopsAt isDigitB (mid ++ (tail ++ 41 :: r)) := by
      cases msg with
      | some e b n => obtain ⟨et, bt, _, _, _, hm⟩ := hM; rw [hm]; exact StopsAt.cons _ (by decide)
      | none =>
        cases text with
        | some n => obtain ⟨_, hm⟩ := hM; rw [hm]; exact StopsAt.cons _ (by decide)
        | none => have hm : mid = [] := hM; rw [hm]; exact hstop
    rw [bt_onePart_head P h hH fuel _ hR, RespSpec.canonBody]
    cases msg with
    | some e b n =>
      obtain ⟨et, bt, het, hbt, hn0, hm⟩ := hM
      obtain ⟨hE, hn⟩ := hMsg e b n rfl
      have hmsg : RespSpec.isMessage h = true := (bt_wf_msg_some ext _ e b n hwm).1
      have htxt : text = none := by
        have := bt_msg_not_text h hmsg
        rw [this] at hwt
        cases text with
        | none => rfl
        | some n => simp at hwt
      subst htxt
      subst hm
      obtain ⟨u1, hu1⟩ := bt_printEnvelope_head utf8 enc e et het
      obtain ⟨u2, hu2⟩ := bt_printBody_head utf8 enc ext b bt hbt
      have e2 : (32 :: (et ++ 32 :: (bt ++ 32 :: encNumber n.toNat))) ++ (tail ++ 41 :: r) =
          32 :: (et ++ 32 :: (bt ++ 32 :: (encNumber n.toNat ++ (tail ++ 41 :: r)))) := by
        simp only [List.append_assoc, List.cons_append]
      rw [e2]
      have henv : ∀ r0, readEnvelope dec (et ++ r0) =
          some ((match e with | some e' => RespSpec.canonEnvelope e' | none => RespSpec.emptyEnvelope), r0) := by
        intro r0
        cases e with
        | none => exact P.envNil et r0 het
        | some e' => exact P.env e' et r0 (hE e' rfl) het
      rw [bt_after_msg dec fuel h.type h.subtype _ et bt _ (RespSpec.canonBody ext b) n.toNat (by omega) _ (41 :: r) _
        ((bt_isMessage_eq h).trans hmsg) (by rw [hu1]; exact bt_paren_head _) (by rw [hu2]; exact bt_paren_head _) henv
        (fun r' => hnest e b n rfl bt r' hbt) hstop hend]
      have hn' : ((n.toNat : Nat) : Int) = n := Int.toNat_of_nonneg hn0
      rw [hn', RespSpec.canonMsg]
      cases e <;> rfl
    | none =>
      have hmsg : RespSpec.isMessage h = false := bt_wf_msg_none ext _ hwm
      cases text with
      | some n =>
        obtain ⟨hn0, hm⟩ := hM
        subst hm
        have htxt : RespSpec.isText h = true := by simpa using hwt
        have e2 : (32 :: encNumber n.toNat) ++ (tail ++ 41 :: r) = 32 :: (encNumber n.toNat ++ (tail ++ 41 :: r)) := rfl
        rw [e2, bt_after_text dec fuel h.type h.subtype _ n.toNat (by have := hText n rfl; omega) _ (41 :: r) _
          ((bt_isMessage_eq h).trans hmsg) ((bt_isText_eq h).trans htxt) hstop hend]
        have hn' : ((n.toNat : Nat) : Int) = n := Int.toNat_of_nonneg hn0
        rw [hn', RespSpec.canonMsg]
      | none =>
        have hm : mid = [] := hM
        subst hm
        have htxt : RespSpec.isText h = false := by simpa using hwt
        rw [List.nil_append, bt_after_leaf dec fuel h.type h.subtype _ _ (41 :: r) _
          ((bt_isMessage_eq h).trans hmsg) ((bt_isText_eq h).trans htxt) hend, RespSpec.canonMsg]

/-! ## multipart: children, subtype, extension data -/

/-- appending at the end, which is what `snocBody` iterates -/
def bt_append : BodyList → BodyList → BodyList
  | .nil, l => l
  | .cons x t, l => .cons x (bt_append t l)

theorem bt_append_nil : ∀ l : BodyList, bt_append l .nil = l
  | .nil => rfl
  | .cons x t => by rw [bt_append, bt_append_nil t]

theorem bt_append_snoc (c : Body) (l : BodyList) : ∀ acc : BodyList, bt_append (snocBody acc c) l = bt_append acc (.cons c l)
  | .nil => rfl
  | .cons x t => by rw [snocBody, bt_append, bt_append, bt_append_snoc c l t]

theorem bt_snoc_eq_append (acc : BodyList) (c : Body) : snocBody acc c = bt_append acc (.cons c .nil) := by
  rw [← bt_append_snoc, bt_append_nil]

theorem bt_canonBodies_append (ext : Bool) (l : BodyList) : ∀ acc : BodyList,
    RespSpec.canonBodies ext (bt_append acc l) = bt_append (RespSpec.canonBodies ext acc) (RespSpec.canonBodies ext l)
  | .nil => by simp only [bt_append, RespSpec.canonBodies]
  | .cons x t => by simp only [bt_append, RespSpec.canonBodies, bt_canonBodies_append ext l t]

theorem bt_canonBodies_snoc (ext : Bool) (acc : BodyList) (c : Body) :
    RespSpec.canonBodies ext (snocBody acc c) = snocBody (RespSpec.canonBodies ext acc) (RespSpec.canonBody ext c) := by
  rw [bt_snoc_eq_append, bt_canonBodies_append, bt_snoc_eq_append]
  simp only [RespSpec.canonBodies]

/-- how a multipart ends after the subtype: `)` (non-extended form) or SP and the extension block -/
def bt_EndM (dec : QTab) (R : Str) (xo : Option MultiExt) (R' : Str) : Prop :=
  (decSP R = (false, R') ∧ xo = none) ∨ (∃ r3 x, decSP R = (true, r3) ∧ readExtM dec r3 = some (x, R') ∧ xo = some x)

theorem bt_EndM_of_tail {utf8 : Bool} {enc dec : QTab} (P : bt_Pieces utf8 enc dec) (ext : Bool) (x : Option MultiExt)
    (tail r : Str) (hT : bt_TailMOf utf8 ext x tail) (hX : ext = true → ∃ x', x = some x' ∧ P.ExtMP x') :
    bt_EndM dec (tail ++ 41 :: r) (if ext then x.map RespSpec.canonMultiExt else none) (41 :: r) := by
  cases ext with
  | false =>
    have e : tail = [] := by simpa [bt_TailMOf] using hT
    subst e
    exact Or.inl ⟨bt_decSP_close r, rfl⟩
  | true =>
    obtain ⟨x', hx', hP⟩ := hX rfl
    subst hx'
    simp only [bt_TailMOf, if_true] at hT
    obtain ⟨x'', hx'', e⟩ := hT
    injection hx'' with hx''
    subst hx''
    subst e
    refine Or.inr ⟨printParams utf8 x'.params ++ 32 :: (printDisp utf8 x'.disp ++ 32 :: (printLang utf8 x'.lang ++ 32 ::
      (encNString utf8 x'.loc ++ 41 :: r))), RespSpec.canonMultiExt x', ?_, ?_, rfl⟩
    · have e : (32 :: (printParams utf8 x'.params ++ 32 :: (printDisp utf8 x'.disp ++ 32 :: (printLang utf8 x'.lang ++ 32 ::
          encNString utf8 x'.loc)))) ++ 41 :: r = 32 :: (printParams utf8 x'.params ++ 32 :: (printDisp utf8 x'.disp ++ 32 ::
            (printLang utf8 x'.lang ++ 32 :: (encNString utf8 x'.loc ++ 41 :: r)))) := by simp
      rw [e]
      exact bt_decSP_sp _ (bt_Head.append (P.paramsHead x'.params) _)
    · exact P.extM x' (41 :: r) hP ⟨r, rfl⟩

/-- the last child: the subtype string follows -/
theorem bt_mpart_last (dec : QTab) (utf8 : Bool) (fuel : Nat) (acc : BodyList) (c : Str) (child : Body) (st : Str) (hst : Fits st)
    (R R' : Str) (xo : Option MultiExt)
    (hc : readBody dec fuel (c ++ 32 :: (encString utf8 st ++ R)) = some (child, 32 :: (encString utf8 st ++ R)))
    (hend : bt_EndM dec R xo R') :
    readMpart dec (fuel + 1) acc (c ++ 32 :: (encString utf8 st ++ R)) = some (Body.multi (snocBody acc child) st xo, R') := by
  rw [readMpart]
  have hS := bt_decSP_sp _ ((bt_encString_head utf8 st).append R)
  have hD := decString_encString utf8 st R hst
  obtain ⟨t', ht' | ht'⟩ := bt_encString_cases utf8 st
  all_goals
    rcases hend with ⟨h1, h2⟩ | ⟨r3, x, h1, h2, h3⟩
    · subst h2
      simp only [hc, hS]
      rw [ht'] at hD ⊢
      simp only [List.cons_append] at hD ⊢
      simp only [hD, h1]
    · subst h3
      simp only [hc, hS]
      rw [ht'] at hD ⊢
      simp only [List.cons_append] at hD ⊢
      simp only [hD, h1, h2, Option.map_some]

/-- a child that is not the last: the next child follows -/
theorem bt_mpart_more (dec : QTab) (fuel : Nat) (acc : BodyList) (c : Str) (child : Body) (u : Str)
    (hc : readBody dec fuel (c ++ 32 :: 40 :: u) = some (child, 32 :: 40 :: u)) :
    readMpart dec (fuel + 1) acc (c ++ 32 :: 40 :: u) = readMpart dec fuel (snocBody acc child) (40 :: u) := by
  rw [readMpart]
  have hS := bt_decSP_sp (40 :: u) (bt_paren_head u)
  simp only [hc, hS]

/-! ## side conditions on a tree, fuel -/

mutual
  /-- what the round trip of a body tree needs beyond `RespSpec.wfBody`: the side conditions of the pieces,
      strings that fit a literal, numbers in the decoder's range -/
  def bt_BodyOK {utf8 : Bool} {enc dec : QTab} (P : bt_Pieces utf8 enc dec) (ext : Bool) : Body → Prop
    | .single h msg text x => bt_HdrOK P h ∧ (∀ n, text = some n → n < 9223372036854775808) ∧
        (ext = true → ∃ x', x = some x' ∧ P.Ext1P x') ∧ bt_MsgOK P ext msg
    | .multi ch st x => Fits st ∧ (ext = true → ∃ x', x = some x' ∧ P.ExtMP x') ∧ bt_BodiesOK P ext ch
  def bt_MsgOK {utf8 : Bool} {enc dec : QTab} (P : bt_Pieces utf8 enc dec) (ext : Bool) : MsgOpt → Prop
    | .none => True
    | .some e b n => (∀ e', e = some e' → P.EnvP e') ∧ n < 9223372036854775808 ∧ bt_BodyOK P ext b
  def bt_BodiesOK {utf8 : Bool} {enc dec : QTab} (P : bt_Pieces utf8 enc dec) (ext : Bool) : BodyList → Prop
    | .nil => True
    | .cons b t => bt_BodyOK P ext b ∧ bt_BodiesOK P ext t
end

mutual
  /-- fuel that `readBody` needs: one unit per nesting level (two for a single part: `readBody`, `readOnePart`)
      and one per child of a multipart (`readMpart`) -/
  def bt_fuel : Body → Nat
    | .single _ msg _ _ => bt_fuelMsg msg + 2
    | .multi ch _ _ => bt_fuelList ch + 1
  def bt_fuelMsg : MsgOpt → Nat
    | .none => 0
    | .some _ b _ => bt_fuel b
  def bt_fuelList : BodyList → Nat
    | .nil => 0
    | .cons b t => bt_fuel b + bt_fuelList t + 1
end

theorem bt_printBodies_head (utf8 : Bool) (enc : QTab) (ext : Bool) (l : BodyList) (y : Str) (ys : List Str)
    (hp : printBodies utf8 enc ext l = some (y :: ys)) : ∃ u, y = 40 :: u := by
  cases l with
  | nil => rw [printBodies] at hp; cases hp
  | cons b t =>
    obtain ⟨x, ts, hx, _, e⟩ := bt_printBodies_cons utf8 enc ext b t _ hp
    injection e with e1 _
    subst e1
    exact bt_printBody_head utf8 enc ext b y hx

theorem bt_joinSP_head (y : Str) (ys : List Str) (rest u : Str) (hy : y = 40 :: u) :
    ∃ u', joinSP (y :: ys) ++ rest = 40 :: u' := by
  subst hy
  cases ys with
  | nil => exact ⟨u ++ rest, rfl⟩
  | cons z zs => exact ⟨u ++ 32 :: joinSP (z :: zs) ++ rest, by rw [joinSP_cons_cons]; simp⟩

/-! ## the tree theorem -/

mutual
  /-- BODY / BODYSTRUCTURE round trip: the client reads what the server wrote for a well-formed body tree, and
      delivers its canonical form -/
  theorem bt_body_fidelity {utf8 : Bool} {enc dec : QTab} (P : bt_Pieces utf8 enc dec) (ext : Bool) :
      ∀ (b : Body), RespSpec.wfBody ext b = true → bt_BodyOK P ext b → ∀ (t r : Str), printBody utf8 enc ext b = some t →
        ∀ fuel, bt_fuel b ≤ fuel → readBody dec fuel (t ++ r) = some (RespSpec.canonBody ext b, r)
    | .single h msg text x, hwf, hok, t, r, hp, fuel, hf => by
      rw [bt_BodyOK] at hok
      obtain ⟨hH, hText, hX, hMok⟩ := hok
      rw [bt_fuel] at hf
      have ihm := bt_msg_fidelity P ext msg (RespSpec.isMessage h) (bt_wf_single ext h msg text x hwf).2 hMok
      obtain ⟨f, rfl⟩ : ∃ f, fuel = f + 2 := ⟨fuel - 2, by omega⟩
      exact bt_single_line P ext h msg text x hwf hH hText hX (fun e b n hm => (ihm e b n hm).1) t r hp f
        (fun e b n hm bt r' hbt => (ihm e b n hm).2 bt r' hbt f (by omega))
    | .multi ch st x, hwf, hok, t, r, hp, fuel, hf => by
      rw [bt_BodyOK] at hok
      obtain ⟨hst, hX, hch⟩ := hok
      obtain ⟨cs, tail, hcs, hne, hT, rfl⟩ := bt_printBody_multi utf8 enc ext ch st x t hp
      rw [bt_fuel] at hf
      have ih := bt_bodies_fidelity P ext ch (bt_wf_multi ext ch st x hwf) hch cs hcs hne st hst
      obtain ⟨f, rfl⟩ : ∃ f, fuel = f + 1 := ⟨fuel - 1, by omega⟩
      have hend := bt_EndM_of_tail P ext x tail r hT hX
      have ih' := ih _ _ _ hend .nil f (by omega)
      cases cs with
      | nil => exact absurd rfl hne
      | cons c0 cs0 =>
        obtain ⟨u, hu⟩ := bt_printBodies_head utf8 enc ext ch c0 cs0 hcs
        obtain ⟨u', hu'⟩ := bt_joinSP_head c0 cs0 (32 :: (encString utf8 st ++ (tail ++ 41 :: r))) u hu
        have e0 : (40 :: (joinSP (c0 :: cs0) ++ 32 :: (encString utf8 st ++ (tail ++ [41])))) ++ r =
            40 :: (joinSP (c0 :: cs0) ++ 32 :: (encString utf8 st ++ (tail ++ 41 :: r))) := by
          simp only [List.append_assoc, List.cons_append, List.nil_append]
        rw [e0, hu']
        rw [hu'] at ih'
        rw [RespSpec.canonBody]
        exact bt_readBody_multi dec f u' _ r ih'
  /-- the nested message of a message/rfc822 part -/
  theorem bt_msg_fidelity {utf8 : Bool} {enc dec : QTab} (P : bt_Pieces utf8 enc dec) (ext : Bool) :
      ∀ (m : MsgOpt) (im : Bool), RespSpec.wfMsg ext im m = true → bt_MsgOK P ext m →
        ∀ e b n, m = .some e b n → ((∀ e', e = some e' → P.EnvP e') ∧ n < 9223372036854775808) ∧
          ∀ (bt r : Str), printBody utf8 enc ext b = some bt → ∀ fuel, bt_fuelMsg m ≤ fuel →
            readBody dec fuel (bt ++ r) = some (RespSpec.canonBody ext b, r)
    | .none, _, _, _ => by intro e b n hm; cases hm
    | .some e0 b0 n0, im, hwf, hok => by
      rw [bt_MsgOK] at hok
      obtain ⟨hE, hn, hb⟩ := hok
      have ih := bt_body_fidelity P ext b0 (bt_wf_msg_some ext im e0 b0 n0 hwf).2.2 hb
      intro e b n hm
      injection hm with h1 h2 h3
      subst h1; subst h2; subst h3
      refine ⟨⟨hE, hn⟩, ?_⟩
      intro bt r hbt fuel hf
      rw [bt_fuelMsg] at hf
      exact ih bt r hbt fuel hf
  /-- the children of a multipart, then its subtype and extension data: `readMpart` with the children read so far -/
  theorem bt_bodies_fidelity {utf8 : Bool} {enc dec : QTab} (P : bt_Pieces utf8 enc dec) (ext : Bool) :
      ∀ (l : BodyList), RespSpec.wfBodies ext l = true → bt_BodiesOK P ext l →
        ∀ (cs : List Str), printBodies utf8 enc ext l = some cs → cs ≠ [] →
        ∀ (st : Str), Fits st → ∀ (R R' : Str) (xo : Option MultiExt), bt_EndM dec R xo R' →
        ∀ (acc : BodyList) (fuel : Nat), bt_fuelList l ≤ fuel →
          readMpart dec fuel acc (joinSP cs ++ 32 :: (encString utf8 st ++ R)) =
            some (Body.multi (bt_append acc (RespSpec.canonBodies ext l)) st xo, R')
    | .nil, _, _, cs, hp, hne, _, _, _, _, _, _, _, _, _ => by
      rw [printBodies] at hp
      injection hp with hp
      exact absurd hp.symm hne
    | .cons b t, hwf, hok, cs, hp, _, st, hst, R, R', xo, hend, acc, fuel, hf => by
      obtain ⟨hwb, hwt⟩ := bt_wf_cons ext b t hwf
      rw [bt_BodiesOK] at hok
      obtain ⟨hob, hot⟩ := hok
      obtain ⟨x, ts, hx, hts, rfl⟩ := bt_printBodies_cons utf8 enc ext b t cs hp
      rw [bt_fuelList] at hf
      have ihb := bt_body_fidelity P ext b hwb hob x
      have iht := bt_bodies_fidelity P ext t hwt hot ts hts
      obtain ⟨f, rfl⟩ : ∃ f, fuel = f + 1 := ⟨fuel - 1, by omega⟩
      rw [RespSpec.canonBodies]
      cases ts with
      | nil =>
        have ht : t = .nil := bt_printBodies_nil utf8 enc ext t hts
        rw [ht, RespSpec.canonBodies, ← bt_snoc_eq_append]
        exact bt_mpart_last dec utf8 f acc x (RespSpec.canonBody ext b) st hst R R' xo (ihb _ hx f (by omega)) hend
      | cons y ys =>
        obtain ⟨u, hu⟩ := bt_printBodies_head utf8 enc ext t y ys hts
        obtain ⟨u', hu'⟩ := bt_joinSP_head y ys (32 :: (encString utf8 st ++ R)) u hu
        have e0 : joinSP (x :: y :: ys) ++ 32 :: (encString utf8 st ++ R) = x ++ 32 :: 40 :: u' := by
          rw [joinSP_cons_cons, List.append_assoc, List.cons_append, hu']
        rw [e0, bt_mpart_more dec f acc x (RespSpec.canonBody ext b) u' (ihb _ hx f (by omega)), ← hu', ← bt_append_snoc]
        exact iht (by simp) st hst R R' xo hend _ f (by omega)
end

/-! ## enough fuel -/

mutual
  theorem bt_fuel_le (utf8 : Bool) (enc : QTab) (ext : Bool) : ∀ (b : Body) (t : Str),
      printBody utf8 enc ext b = some t → bt_fuel b ≤ t.length
    | .single h msg text x, t, hp => by
      obtain ⟨_, mid, tail, hM, _, rfl⟩ := bt_printBody_single utf8 enc ext h msg text x t hp
      have := bt_fuelMsg_le utf8 enc ext msg text mid hM
      rw [bt_fuel]
      simp only [List.length_cons, List.length_append, List.length_nil]
      omega
    | .multi ch st x, t, hp => by
      obtain ⟨cs, tail, hcs, _, _, rfl⟩ := bt_printBody_multi utf8 enc ext ch st x t hp
      have := bt_fuelList_le utf8 enc ext ch cs hcs
      rw [bt_fuel]
      simp only [List.length_cons, List.length_append, List.length_nil]
      omega
  theorem bt_fuelMsg_le (utf8 : Bool) (enc : QTab) (ext : Bool) : ∀ (m : MsgOpt) (text : Option Int) (mid : Str),
      bt_MidOf utf8 enc ext m text mid → bt_fuelMsg m ≤ mid.length
    | .none, _, _, _ => by rw [bt_fuelMsg]; omega
    | .some e b n, text, mid, hM => by
      obtain ⟨et, bt, _, hbt, _, rfl⟩ := hM
      have := bt_fuel_le utf8 enc ext b bt hbt
      rw [bt_fuelMsg]
      simp only [List.length_cons, List.length_append]
      omega
  theorem bt_fuelList_le (utf8 : Bool) (enc : QTab) (ext : Bool) : ∀ (l : BodyList) (cs : List Str),
      printBodies utf8 enc ext l = some cs → bt_fuelList l ≤ (joinSP cs).length + 1
    | .nil, _, _ => by rw [bt_fuelList]; omega
    | .cons b t, cs, hp => by
      obtain ⟨x, ts, hx, hts, rfl⟩ := bt_printBodies_cons utf8 enc ext b t cs hp
      have h1 := bt_fuel_le utf8 enc ext b x hx
      have h2 := bt_fuelList_le utf8 enc ext t ts hts
      rw [bt_fuelList]
      cases ts with
      | nil =>
        have ht : t = .nil := bt_printBodies_nil utf8 enc ext t hts
        rw [ht, bt_fuelList]
        simp only [joinSP]
        omega
      | cons y ys =>
        rw [joinSP_cons_cons]
        simp only [List.length_cons, List.length_append]
        omega
end

/-- the form in which `readItemQ` calls `readBody`: fuel from the length of the unread input -/
theorem bt_body_fidelity_top {utf8 : Bool} {enc dec : QTab} (P : bt_Pieces utf8 enc dec) (ext : Bool) (b : Body)
    (hwf : RespSpec.wfBody ext b = true) (hok : bt_BodyOK P ext b) (t r : Str) (hp : printBody utf8 enc ext b = some t) :
    readBody dec ((t ++ r).length + 1) (t ++ r) = some (RespSpec.canonBody ext b, r) := by
  apply bt_body_fidelity P ext b hwf hok t r hp
  have := bt_fuel_le utf8 enc ext b t hp
  simp only [List.length_append]
  omega

/-! ## a concrete tree -/

mutual
  /-- equality test on body trees (the mutual inductive has no derived `DecidableEq`); used to evaluate examples -/
  def bt_beq : Body → Body → Bool
    | .single h m t x, .single h' m' t' x' => decide (h = h') && bt_beqMsg m m' && decide (t = t') && decide (x = x')
    | .multi c s x, .multi c' s' x' => bt_beqList c c' && decide (s = s') && decide (x = x')
    | _, _ => false
  def bt_beqMsg : MsgOpt → MsgOpt → Bool
    | .none, .none => true
    | .some e b n, .some e' b' n' => decide (e = e') && bt_beq b b' && decide (n = n')
    | _, _ => false
  def bt_beqList : BodyList → BodyList → Bool
    | .nil, .nil => true
    | .cons b t, .cons b' t' => bt_beq b b' && bt_beqList t t'
    | _, _ => false
end

mutual
  theorem bt_beq_eq : ∀ a b : Body, bt_beq a b = true → a = b
    | .single h m t x, .single h' m' t' x', hb => by
      simp only [bt_beq, Bool.and_eq_true, decide_eq_true_eq] at hb
      obtain ⟨⟨⟨h1, h2⟩, h3⟩, h4⟩ := hb
      rw [h1, bt_beqMsg_eq m m' h2, h3, h4]
    | .multi c s x, .multi c' s' x', hb => by
      simp only [bt_beq, Bool.and_eq_true, decide_eq_true_eq] at hb
      obtain ⟨⟨h1, h2⟩, h3⟩ := hb
      rw [bt_beqList_eq c c' h1, h2, h3]
    | .single _ _ _ _, .multi _ _ _, hb => by simp [bt_beq] at hb
    | .multi _ _ _, .single _ _ _ _, hb => by simp [bt_beq] at hb
  theorem bt_beqMsg_eq : ∀ a b : MsgOpt, bt_beqMsg a b = true → a = b
    | .none, .none, _ => rfl
    | .some e b n, .some e' b' n', hb => by
      simp only [bt_beqMsg, Bool.and_eq_true, decide_eq_true_eq] at hb
      obtain ⟨⟨h1, h2⟩, h3⟩ := hb
      rw [h1, bt_beq_eq b b' h2, h3]
    | .none, .some _ _ _, hb => by simp [bt_beqMsg] at hb
    | .some _ _ _, .none, hb => by simp [bt_beqMsg] at hb
  theorem bt_beqList_eq : ∀ a b : BodyList, bt_beqList a b = true → a = b
    | .nil, .nil, _ => rfl
    | .cons b t, .cons b' t', hb => by
      simp only [bt_beqList, Bool.and_eq_true] at hb
      rw [bt_beq_eq b b' hb.1, bt_beqList_eq t t' hb.2]
    | .nil, .cons _ _, hb => by simp [bt_beqList] at hb
    | .cons _ _, .nil, hb => by simp [bt_beqList] at hb
end

/-- a decidable test for `o = some (b, r)` -/
def bt_reads (o : Option (Body × Str)) (b : Body) (r : Str) : Bool :=
  match o with
  | some (b', r') => bt_beq b' b && decide (r' = r)
  | none => false

theorem bt_reads_eq (o : Option (Body × Str)) (b : Body) (r : Str) (h : bt_reads o b r = true) : o = some (b, r) := by
  cases o with
  | none => simp [bt_reads] at h
  | some p =>
    obtain ⟨b', r'⟩ := p
    simp only [bt_reads, Bool.and_eq_true, decide_eq_true_eq] at h
    rw [bt_beq_eq b' b h.1, h.2]

/-- `(("text" "plain" ("charset" "utf-8") NIL NIL "7BIT" 5 1)("image" "png" NIL NIL NIL "BASE64" 7) "mixed")`
    as a backend would supply it (encodings in lower case, to see `canonEnc` at work) -/
def bt_exampleBody : Body :=
  .multi
    (.cons (.single { type := asc "text", subtype := asc "plain", params := some [(asc "Charset", asc "utf-8")], id := [], desc := [],
                      enc := asc "7bit", size := 5 } .none (some 1) none)
      (.cons (.single { type := asc "image", subtype := asc "png", params := none, id := [], desc := [], enc := asc "base64",
                        size := 7 } .none none none) .nil))
    (asc "mixed") none

example : RespSpec.wfBody false bt_exampleBody = true := by decide +kernel

/-- what the server writes for it (children separated by SP) -/
example : printBody false [] false bt_exampleBody =
    some (asc "((\"text\" \"plain\" (\"Charset\" \"utf-8\") " ++ asc "NIL NIL \"7BIT\" 5 1) " ++
          asc "(\"image\" \"png\" NIL NIL NIL " ++ asc "\"BASE64\" 7) \"mixed\")") := by
  decide +kernel

/-- the client reads that text back as the canonical tree (the conclusion of `bt_body_fidelity_top`) -/
example : (printBody false [] false bt_exampleBody).bind (fun t => readBody [] ((t ++ [13, 10]).length + 1) (t ++ [13, 10])) =
    some (RespSpec.canonBody false bt_exampleBody, [13, 10]) :=
  bt_reads_eq _ _ _ (by decide +kernel)

/-- and also the form without SP between the children that other servers send -/
example : readBody [] 100
    (asc "((\"text\" \"plain\" (\"charset\" \"utf-8\") " ++ asc "NIL NIL \"7BIT\" 5 1)" ++
     asc "(\"image\" \"png\" NIL NIL NIL " ++ asc "\"BASE64\" 7) \"mixed\")\r\n") =
    some (RespSpec.canonBody false bt_exampleBody, [13, 10]) :=
  bt_reads_eq _ _ _ (by decide +kernel)

/-- the side conditions of the example hold for any pieces that accept its two parameter lists -/
theorem bt_example_ok {utf8 : Bool} {enc dec : QTab} (P : bt_Pieces utf8 enc dec)
    (h1 : P.ParamsP (some [(asc "Charset", asc "utf-8")])) (h2 : P.ParamsP none) : bt_BodyOK P false bt_exampleBody := by
  have hf : ∀ s : Str, s.length < 1000 → Fits s := fun s h => by unfold Fits; omega
  have hq : QRaw dec [] := rfl
  unfold bt_exampleBody
  simp only [bt_BodyOK, bt_BodiesOK, bt_MsgOK, bt_HdrOK]
  refine ⟨hf _ (by decide), (fun h => by cases h), ⟨⟨h1, hf _ (by decide), hf _ (by decide), hf _ (by decide), hf _ (by decide), hq,
    hf _ (by decide), by decide⟩, ?_, (fun h => by cases h), trivial⟩,
    ⟨⟨h2, hf _ (by decide), hf _ (by decide), hf _ (by decide), hf _ (by decide), hq, hf _ (by decide), by decide⟩, ?_,
      (fun h => by cases h), trivial⟩, trivial⟩
  · intro n hn; injection hn with hn; omega
  · intro n hn; cases hn

/-- the tree theorem applied to the example -/
example {utf8 : Bool} {enc dec : QTab} (P : bt_Pieces utf8 enc dec)
    (h1 : P.ParamsP (some [(asc "Charset", asc "utf-8")])) (h2 : P.ParamsP none) (t r : Str)
    (hp : printBody utf8 enc false bt_exampleBody = some t) :
    readBody dec ((t ++ r).length + 1) (t ++ r) = some (RespSpec.canonBody false bt_exampleBody, r) :=
  bt_body_fidelity_top P false bt_exampleBody (by decide +kernel) (bt_example_ok P h1 h2) t r hp

end GoImap.Resp
