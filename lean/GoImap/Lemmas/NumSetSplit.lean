/-
  `splitOn` and `cutColon` on texts whose pieces do not contain the separator.
-/
import GoImap.Model.NumSet
namespace GoImap.NumSet

theorem splitOn_ne_nil (c : Char) (l : List Char) : splitOn c l ≠ [] := by
  induction l with
  | nil => simp [splitOn]
  | cons x xs ih =>
    simp only [splitOn]
    cases h : splitOn c xs with
    | nil => exact absurd h ih
    | cons a t =>
      simp only
      by_cases hx : x = c <;> simp [hx]

theorem splitOn_cons_eq (c x : Char) (xs : List Char) (hx : x = c) :
    splitOn c (x :: xs) = [] :: splitOn c xs := by
  simp only [splitOn]
  cases h : splitOn c xs with
  | nil => exact absurd h (splitOn_ne_nil c xs)
  | cons a t => simp [hx]

theorem splitOn_cons_ne (c x : Char) (xs : List Char) (hx : x ≠ c) (a : List Char)
    (t : List (List Char)) (h : splitOn c xs = a :: t) :
    splitOn c (x :: xs) = (x :: a) :: t := by
  simp only [splitOn, h, hx, if_false]

theorem splitOn_not_mem (c : Char) (l : List Char) (h : c ∉ l) : splitOn c l = [l] := by
  induction l with
  | nil => rfl
  | cons x xs ih =>
    have hx : x ≠ c := by intro e; exact h (by simp [e])
    have hxs : c ∉ xs := by intro e; exact h (by simp [e])
    exact splitOn_cons_ne c x xs hx xs [] (ih hxs)

theorem splitOn_append (c : Char) (l r : List Char) (h : c ∉ l) :
    splitOn c (l ++ c :: r) = l :: splitOn c r := by
  induction l with
  | nil => exact splitOn_cons_eq c c r rfl
  | cons x xs ih =>
    have hx : x ≠ c := by intro e; exact h (by simp [e])
    have hxs : c ∉ xs := by intro e; exact h (by simp [e])
    exact splitOn_cons_ne c x _ hx xs _ (ih hxs)

theorem cutColon_not_mem (l : List Char) (h : ':' ∉ l) : cutColon l = none := by
  induction l with
  | nil => rfl
  | cons x xs ih =>
    have hx : x ≠ ':' := by intro e; exact h (by simp [e])
    have hxs : ':' ∉ xs := by intro e; exact h (by simp [e])
    simp only [cutColon, hx, if_false, ih hxs]

theorem cutColon_append (l r : List Char) (h : ':' ∉ l) :
    cutColon (l ++ ':' :: r) = some (l, r) := by
  induction l with
  | nil => simp [cutColon]
  | cons x xs ih =>
    have hx : x ≠ ':' := by intro e; exact h (by simp [e])
    have hxs : ':' ∉ xs := by intro e; exact h (by simp [e])
    simp only [List.cons_append, cutColon, hx, if_false, ih hxs]

end GoImap.NumSet
