/-
  The public operations (`addNum`, `addRange`, `addSet`) and sequences of them.
-/
import GoImap.Lemmas.NumSetInsert
import GoImap.Lemmas.NumSetContains
namespace GoImap.NumSet
open GoImap.NumSetSpec

/-- the range `AddRange(a, b)` inserts -/
def normRange (a b : Nat) : Range :=
  if (b < a && b ≠ 0) || a = 0 then ⟨b, a⟩ else ⟨a, b⟩

theorem addRange_eq (s : Set) (a b : Nat) : addRange s a b = insert s (normRange a b) := by
  unfold addRange normRange
  split <;> rfl

theorem normRange_cases (a b : Nat) :
    (((b < a ∧ b ≠ 0) ∨ a = 0) ∧ normRange a b = ⟨b, a⟩) ∨
    (¬ ((b < a ∧ b ≠ 0) ∨ a = 0) ∧ normRange a b = ⟨a, b⟩) := by
  unfold normRange
  simp only [ne_eq, Bool.or_eq_true, Bool.and_eq_true, decide_eq_true_eq]
  by_cases h : (b < a ∧ ¬b = 0) ∨ a = 0
  · left; exact ⟨h, by simp only [h, if_true]⟩
  · right; exact ⟨h, by simp only [h, if_false]⟩

theorem normRange_wf (a b : Nat) (ha : a < W) (hb : b < W) : (normRange a b).WF := by
  rcases normRange_cases a b with ⟨h, e⟩ | ⟨h, e⟩ <;> rw [e] <;> unfold Range.WF <;>
    simp only <;> omega

theorem num_wf (n : Nat) (hn : n < W) : (⟨n, n⟩ : Range).WF := by
  unfold Range.WF; simp only; omega

theorem memRange_iff (a b q : Nat) :
    memRange a b q = true ↔
      ¬ (a = 0 ∧ b = 0) ∧ ((a = 0 ∧ b ≤ q) ∨ (a ≠ 0 ∧ b = 0 ∧ a ≤ q) ∨
        (a ≠ 0 ∧ b ≠ 0 ∧ min a b ≤ q ∧ q ≤ max a b)) := by
  unfold memRange
  by_cases h1 : a = 0 <;> by_cases h2 : b = 0 <;> simp [h1, h2]

theorem normRange_contains (a b q : Nat) (hq : q ≠ 0) :
    (normRange a b).contains q = memRange a b q := by
  rw [Bool.eq_iff_iff, Range.contains_iff, memRange_iff]
  rcases normRange_cases a b with ⟨h, e⟩ | ⟨h, e⟩ <;> rw [e] <;> simp only <;> omega

theorem Range.contains_zero (r : Range) : r.contains 0 = decide (r.stop = 0) := by
  simp [Range.contains]

theorem normRange_star (a b : Nat) : (normRange a b).contains 0 = starRange a b := by
  rw [Range.contains_zero, Bool.eq_iff_iff]
  unfold starRange
  simp only [Bool.or_eq_true, decide_eq_true_eq]
  rcases normRange_cases a b with ⟨h, e⟩ | ⟨h, e⟩ <;> rw [e] <;> simp only <;> omega

theorem Range.contains_eq_memRange (r : Range) (hw : r.WF) (q : Nat) (hq : q ≠ 0) :
    r.contains q = memRange r.start r.stop q := by
  rw [Bool.eq_iff_iff, Range.contains_iff, memRange_iff]
  unfold Range.WF at hw
  omega

theorem Range.contains_zero_eq_star (r : Range) (hw : r.WF) :
    r.contains 0 = starRange r.start r.stop := by
  rw [Range.contains_zero, Bool.eq_iff_iff]
  unfold starRange
  simp only [Bool.or_eq_true, decide_eq_true_eq]
  unfold Range.WF at hw
  omega

/-! ### `addSet` -/

theorem foldl_insert_canon (t : Set) : ∀ s, Canon s → (∀ r ∈ t, r.WF) →
    Canon (t.foldl insert s) := by
  induction t with
  | nil => intro s h _; exact h
  | cons r t ih =>
    intro s h ht
    exact ih _ (insert_canon s r h (ht r (by simp))) (fun x hx => ht x (by simp [hx]))

theorem foldl_insert_any (q : Nat) (hq : q < W) (t : Set) : ∀ s, Canon s → (∀ r ∈ t, r.WF) →
    (t.foldl insert s).any (fun r => r.contains q) =
      (s.any (fun r => r.contains q) || t.any (fun r => r.contains q)) := by
  induction t with
  | nil => intro s _ _; simp
  | cons r t ih =>
    intro s h ht
    have hr := ht r (by simp)
    rw [List.foldl_cons, ih _ (insert_canon s r h hr) (fun x hx => ht x (by simp [hx])),
      insert_any s r h hr q hq, List.any_cons, Bool.or_assoc]

/-! ### sequences of operations -/

def applyOp (s : Set) : Op → Set
  | .num q => addNum s q
  | .range a b => addRange s a b
  | .set t => addSet s t

def run (ops : List Op) : Set := ops.foldl applyOp []

/-- arguments a caller can pass: numbers below 2^32, sets in canonical form -/
def OpOk : Op → Prop
  | .num q => q < W
  | .range a b => a < W ∧ b < W
  | .set t => canonical t = true

/-- what an operation denotes at `q` (`q = 0` asks for "*") -/
def opDen (o : Op) (q : Nat) : Bool := if q = 0 then o.star else o.mem q

theorem applyOp_canon (s : Set) (o : Op) (h : Canon s) (ho : OpOk o) : Canon (applyOp s o) := by
  cases o with
  | num n => exact insert_canon s _ h (num_wf n ho)
  | range a b =>
    simp only [applyOp, addRange_eq]
    exact insert_canon s _ h (normRange_wf a b ho.1 ho.2)
  | set t =>
    exact foldl_insert_canon t s h (CanonFrom.wf ((canonical_iff t).1 ho))

theorem any_congr_mem (t : Set) (f g : Range → Bool) (h : ∀ r ∈ t, f r = g r) :
    t.any f = t.any g := by
  induction t with
  | nil => rfl
  | cons r t ih =>
    rw [List.any_cons, List.any_cons, h r (by simp), ih (fun x hx => h x (by simp [hx]))]

theorem applyOp_any (s : Set) (o : Op) (h : Canon s) (ho : OpOk o) (q : Nat) (hq : q < W) :
    (applyOp s o).any (fun r => r.contains q) =
      (s.any (fun r => r.contains q) || opDen o q) := by
  cases o with
  | num n =>
    simp only [applyOp, addNum]
    rw [insert_any s _ h (num_wf n ho) q hq]
    congr 1
    unfold opDen
    by_cases h0 : q = 0
    · subst h0; simp [Range.contains, Op.star]
    · rw [Bool.eq_iff_iff, Range.contains_iff]
      rw [if_neg h0]
      simp only [Op.mem, ne_eq, Bool.and_eq_true, decide_eq_true_eq]
      omega
  | range a b =>
    simp only [applyOp, addRange_eq]
    rw [insert_any s _ h (normRange_wf a b ho.1 ho.2) q hq]
    congr 1
    unfold opDen
    by_cases h0 : q = 0
    · subst h0; simp [normRange_star, Op.star]
    · simp only [h0, if_false, Op.mem]; exact normRange_contains a b q h0
  | set t =>
    have htw := CanonFrom.wf ((canonical_iff t).1 ho)
    simp only [applyOp, addSet]
    rw [foldl_insert_any q hq t s h htw]
    congr 1
    unfold opDen
    by_cases h0 : q = 0
    · subst h0
      simp only [if_true, Op.star]
      exact any_congr_mem t _ _ (fun r hr => Range.contains_zero_eq_star r (htw r hr))
    · simp only [h0, if_false, Op.mem]
      exact any_congr_mem t _ _ (fun r hr => Range.contains_eq_memRange r (htw r hr) q h0)

theorem foldl_applyOp (ops : List Op) : ∀ s, Canon s → (∀ o ∈ ops, OpOk o) →
    Canon (ops.foldl applyOp s) ∧
    ∀ q, q < W → (ops.foldl applyOp s).any (fun r => r.contains q) =
      (s.any (fun r => r.contains q) || ops.any (fun o => opDen o q)) := by
  induction ops with
  | nil => intro s h _; exact ⟨h, by intro q _; simp⟩
  | cons o ops ih =>
    intro s h hok
    have ho := hok o (by simp)
    obtain ⟨h1, h2⟩ := ih _ (applyOp_canon s o h ho) (fun x hx => hok x (by simp [hx]))
    refine ⟨h1, ?_⟩
    intro q hq
    rw [List.foldl_cons, h2 q hq, applyOp_any s o h ho q hq, List.any_cons, Bool.or_assoc]

theorem any_opDen_pos (ops : List Op) (q : Nat) (hq : q ≠ 0) :
    ops.any (fun o => opDen o q) = memOps ops q := by
  unfold memOps opDen
  simp only [hq, if_false]

theorem any_opDen_zero (ops : List Op) : ops.any (fun o => opDen o 0) = starOps ops := by
  unfold starOps opDen
  simp only [if_true]

end GoImap.NumSet
