/-
  Helper lemmas for C03: flags, mailbox attributes and hierarchy delimiters are read back as the
  specification's canonical values.
-/
import GoImap.Lemmas.RespRead
import GoImap.Spec.RespGrammar
import GoImap.Lemmas.Utf7Basic
namespace GoImap.Resp
open GoImap.RespSpec (validFlag validAttr canonFlag canonAttr canonOf knownFlags knownAttrs isAtom atomChar validDelim)

theorem flags_atomChar_isAtomChar {c : Nat} (h : atomChar c = true) : isAtomChar c = true := by
  simp only [atomChar, Bool.and_eq_true, decide_eq_true_eq, Bool.not_eq_true', Bool.or_eq_false_iff, beq_eq_false_iff_ne, ne_eq] at h
  obtain ⟨⟨h1, h2⟩, h3⟩ := h
  simp only [isAtomChar, Bool.and_eq_true, Bool.not_eq_true', Bool.or_eq_false_iff, decide_eq_false_iff_not, Bool.and_eq_false_iff]
  refine ⟨⟨⟨⟨⟨⟨⟨⟨⟨?_, ?_⟩, ?_⟩, ?_⟩, ?_⟩, ?_⟩, ?_⟩, ?_⟩, ?_⟩, ?_, ?_⟩ <;> omega

theorem flags_eqFold_eq (a b : Str) : eqFold a b = (RespSpec.lower a == RespSpec.lower b) := rfl

theorem flags_lookup_eq (table : List Str) (s : Str) : lookupFold table s = canonOf table s := by
  unfold lookupFold canonOf
  induction table with
  | nil => rfl
  | cons k t ih => simp only [List.find?_cons, flags_eqFold_eq]; split <;> simp_all

theorem flags_table_eq : canonFlagTable = knownFlags := rfl
theorem flags_attrTable_eq : canonAttrTable = knownAttrs := rfl

theorem canonicalFlag_eq (f : Str) : canonicalFlag f = canonFlag f := by
  unfold canonicalFlag canonFlag; rw [flags_lookup_eq, flags_table_eq]

theorem canonicalMailboxAttr_eq (f : Str) : canonicalMailboxAttr f = canonOf knownAttrs f := by
  unfold canonicalMailboxAttr; rw [flags_lookup_eq, flags_attrTable_eq]

theorem flags_isAtom_spec {s : Str} (h : isAtom s = true) : s ≠ [] ∧ ∀ x ∈ s, isAtomChar x = true := by
  simp only [isAtom, Bool.and_eq_true, Bool.not_eq_true', List.all_eq_true] at h
  refine ⟨?_, fun x hx => flags_atomChar_isAtomChar (h.2 x hx)⟩
  intro e; rw [e] at h; simp at h

/-- a valid flag followed by something that ends an atom is read as its canonical spelling -/
theorem decFlag_valid (perm : Bool) (f rest : Str) (h : validFlag perm f = true) (hr : StopsAt isAtomChar rest) :
    decFlag (f ++ rest) = some (canonFlag f, rest) := by
  unfold decFlag
  cases f with
  | nil => simp [validFlag, isAtom] at h
  | cons c t =>
    by_cases hc : c = 92
    · subst hc
      simp only [validFlag, Bool.or_eq_true, Bool.and_eq_true, beq_iff_eq] at h
      by_cases hstar : t = [42]
      · subst hstar
        have : canonFlag [92, 42] = [92, 42] := by decide
        simp [decFlagRaw, this]
      · have hat : isAtom t = true := by
          rcases h with ⟨_, h⟩ | h
          · exact absurd h hstar
          · exact h
        obtain ⟨hne, hall⟩ := flags_isAtom_spec hat
        cases t with
        | nil => exact absurd rfl hne
        | cons a u =>
          have ha : isAtomChar a = true := hall a (by simp)
          have h42 : a ≠ 42 := by intro e; rw [e] at ha; exact absurd ha (by decide)
          have hta := tryAtom_append (a :: u) rest hne hall hr
          have : decFlagRaw (92 :: a :: u ++ rest) = some (92 :: a :: u, rest) := by
            simp only [List.cons_append] at hta ⊢
            unfold decFlagRaw
            split
            · rename_i heq; injection heq with _ h2; injection h2 with h3 _; exact absurd h3 h42
            · rename_i heq; injection heq with _ h2; subst h2; rw [hta]; rfl
            · rename_i _ hne2; exact absurd rfl (hne2 (a :: (u ++ rest)))
          rw [this]
          have hne3 : (92 :: a :: u) ≠ [92, 42] := by
            intro e; injection e with _ e2; injection e2 with e3 _; exact h42 e3
          simp [hne3, canonicalFlag_eq]
    · have hat : isAtom (c :: t) = true := by
        unfold validFlag at h
        split at h
        · rename_i heq; injection heq with e _; exact absurd e hc
        · exact h
      obtain ⟨hne, hall⟩ := flags_isAtom_spec hat
      have hta := tryAtom_append (c :: t) rest hne hall hr
      have : decFlagRaw (c :: t ++ rest) = some (c :: t, rest) := by
        simp only [List.cons_append] at hta ⊢
        unfold decFlagRaw
        split
        · rename_i heq; injection heq with e _; exact absurd e hc
        · rename_i heq; injection heq with e _; exact absurd e hc
        · exact hta
      rw [this]
      have hne3 : (c :: t) ≠ [92, 42] := by
        intro e; injection e with e1 _; exact hc e1
      simp [hne3, canonicalFlag_eq]

theorem flags_tail_ok : ∀ (s : Str), (∀ x ∈ s, isAtomChar x = true) → isValidFlagTail s = true := by
  intro s
  induction s with
  | nil => intro _; rfl
  | cons c t ih =>
    intro h
    have hc : isAtomChar c = true := h c (by simp)
    have h92 : c ≠ 92 := by intro e; rw [e] at hc; exact absurd hc (by decide)
    simp [isValidFlagTail, h92, hc, ih (fun x hx => h x (by simp [hx]))]

theorem encFlag_valid (perm : Bool) (f : Str) (h : validFlag perm f = true) : encFlag f = some f := by
  unfold encFlag
  by_cases hs : f = [92, 42]
  · simp [hs]
  · have hv : isValidFlag f = true := by
      cases f with
      | nil => simp [validFlag, isAtom] at h
      | cons c t =>
        by_cases hc : c = 92
        · subst hc
          simp only [validFlag, Bool.or_eq_true, Bool.and_eq_true, beq_iff_eq] at h
          have hat : isAtom t = true := by
            rcases h with ⟨_, h⟩ | h
            · exact absurd (by rw [h]) hs
            · exact h
          obtain ⟨hne, hall⟩ := flags_isAtom_spec hat
          cases t with
          | nil => exact absurd rfl hne
          | cons a u => simp [isValidFlag, flags_tail_ok (a :: u) hall]
        · have hat : isAtom (c :: t) = true := by
            unfold validFlag at h
            split at h
            · rename_i heq; injection heq with e _; exact absurd e hc
            · exact h
          obtain ⟨_, hall⟩ := flags_isAtom_spec hat
          have hca : isAtomChar c = true := hall c (by simp)
          unfold isValidFlag
          split
          · rename_i heq; cases heq
          · rename_i heq; injection heq with e _; exact absurd e hc
          · rename_i heq; injection heq with e1 e2; subst e1; subst e2
            simp [hca, flags_tail_ok t (fun x hx => hall x (by simp [hx]))]
    simp [hv]

theorem flags_goodHead (perm : Bool) (f : Str) (h : validFlag perm f = true) : GoodHead f := by
  cases f with
  | nil => simp [validFlag, isAtom] at h
  | cons c t =>
    refine ⟨c, t, rfl, ?_⟩
    by_cases hc : c = 92
    · subst hc; decide
    · have hat : isAtom (c :: t) = true := by
        unfold validFlag at h
        split at h
        · rename_i heq; injection heq with e _; exact absurd e hc
        · exact h
      have hca : isAtomChar c = true := (flags_isAtom_spec hat).2 c (by simp)
      refine ⟨?_, ?_, ?_⟩ <;> (intro e; rw [e] at hca; exact absurd hca (by decide))

theorem flags_itemEnd_stops {r : Str} (h : ItemEnd r) : StopsAt isAtomChar r := by
  rcases h with ⟨t, rfl⟩ | ⟨t, rfl⟩ <;> exact StopsAt.cons _ (by decide)

theorem flags_optAll_some {α : Type} : ∀ (l : List α) (f : α → Option α), (∀ x ∈ l, f x = some x) → optAll (l.map f) = some l := by
  intro l f
  induction l with
  | nil => intro _; rfl
  | cons x t ih => intro h; simp [optAll, h x (by simp), ih (fun y hy => h y (by simp [hy]))]

/-- a parenthesised list of valid flags (FLAGS item, FLAGS response, PERMANENTFLAGS code) is read as
    the list of their canonical spellings -/
theorem flagList_fidelity (perm : Bool) (l : List Str) (h : ∀ f ∈ l, validFlag perm f = true) (rest : Str) :
    ∃ t, flagListText l = some t ∧ decList decFlag (t ++ rest) = some (l.map canonFlag, rest) := by
  refine ⟨encList l, ?_, ?_⟩
  · unfold flagListText
    rw [flags_optAll_some l encFlag (fun f hf => encFlag_valid perm f (h f hf))]; rfl
  · have := decList_encList decFlag (fun f => f) canonFlag l rest
      (fun f hf r hr => decFlag_valid perm f r (h f hf) (flags_itemEnd_stops hr))
      (fun f hf => flags_goodHead perm f (h f hf))
    simpa using this

/-! ### mailbox attributes -/

theorem attrs_valid_flag (f : Str) (h : validAttr f = true) : validFlag false f = true := by
  simp only [validAttr, Bool.and_eq_true] at h
  cases f with
  | nil => simp at h
  | cons c t =>
    by_cases hc : c = 92
    · subst hc; simp only [validFlag, Bool.false_and, Bool.false_or]; exact h.1
    · exfalso
      have := h.1
      split at this
      · rename_i heq; injection heq with e _; exact hc e
      · cases this

theorem decAttr_valid (f rest : Str) (h : validAttr f = true) (hr : StopsAt isAtomChar rest) :
    decAttr (f ++ rest) = some (canonAttr f, rest) := by
  unfold decAttr
  rw [decFlag_valid false f rest (attrs_valid_flag f h) hr]
  simp only [Option.map_some, canonicalMailboxAttr_eq]
  simp only [validAttr, Bool.and_eq_true, beq_iff_eq] at h
  rw [h.2]; rfl

theorem encAttr_valid (f : Str) (h : validAttr f = true) : encAttr f = some f := by
  have hf := encFlag_valid false f (attrs_valid_flag f h)
  unfold encFlag at hf
  unfold encAttr
  cases f with
  | nil => simp [validAttr] at h
  | cons c t =>
    have hc : c = 92 := by
      simp only [validAttr, Bool.and_eq_true] at h
      have := h.1
      by_cases hc : c = 92
      · exact hc
      · exfalso
        split at this
        all_goals first
          | cases this
          | (rename_i heq; injection heq with e _; exact hc e)
    subst hc
    have hne : (92 :: t) ≠ [92, 42] := by
      intro e
      have hv := attrs_valid_flag _ h
      rw [e] at hv
      exact absurd hv (by decide)
    have hv : isValidFlag (92 :: t) = true := by
      by_cases hv : isValidFlag (92 :: t) = true
      · exact hv
      · simp [hne, hv] at hf
    simp [hv]

/-- a parenthesised list of valid attributes is read as the list of their canonical spellings -/
theorem attrList_fidelity (l : List Str) (h : ∀ f ∈ l, validAttr f = true) (rest : Str) :
    optAll (l.map encAttr) = some l ∧ decList decAttr (encList l ++ rest) = some (l.map canonAttr, rest) := by
  refine ⟨flags_optAll_some l encAttr (fun f hf => encAttr_valid f (h f hf)), ?_⟩
  have := decList_encList decAttr (fun f => f) canonAttr l rest
    (fun f hf r hr => decAttr_valid f r (h f hf) (flags_itemEnd_stops hr))
    (fun f hf => flags_goodHead false f (attrs_valid_flag f (h f hf)))
  simpa using this

/-! ### hierarchy delimiter -/

theorem utf8dec_utf8enc_one (c : Nat) (hc : Utf7Lemmas.Scalar c) : Utf7.utf8dec (Utf7.utf8enc c) = some [c] := by
  unfold Utf7Lemmas.Scalar at hc
  unfold Utf7.utf8enc
  by_cases h1 : c < 128
  · simp [h1, Utf7.utf8dec]
  · by_cases h2 : c < 2048
    · simp only [h1, h2, if_true, if_false]
      have e1 : 192 + c / 64 - 192 = c / 64 := by omega
      have : ¬ (192 + c / 64 < 128) := by omega
      have hb : 194 ≤ 192 + c / 64 ∧ 192 + c / 64 < 224 := by omega
      have hcont : Utf7.isCont (128 + c % 64) = true := by simp [Utf7.isCont]; omega
      have hval : (192 + c / 64 - 192) * 64 + (128 + c % 64 - 128) = c := by omega
      simp [Utf7.utf8dec, this, hb, hcont, hval]
      omega
    · by_cases h3 : c < 65536
      · simp only [h1, h2, h3, if_true, if_false]
        have n1 : ¬ (224 + c / 4096 < 128) := by omega
        have n2 : ¬ (194 ≤ 224 + c / 4096 ∧ 224 + c / 4096 < 224) := by omega
        have hb : 224 ≤ 224 + c / 4096 ∧ 224 + c / 4096 < 240 := by omega
        have hc1 : Utf7.isCont (128 + c / 64 % 64) = true := by simp [Utf7.isCont]; omega
        have hc2 : Utf7.isCont (128 + c % 64) = true := by simp [Utf7.isCont]; omega
        have hval : (224 + c / 4096 - 224) * 4096 + (128 + c / 64 % 64 - 128) * 64 + (128 + c % 64 - 128) = c := by omega
        have hrange : 2048 ≤ c ∧ ¬ (55296 ≤ c ∧ c < 57344) := by omega
        simp [Utf7.utf8dec, n1, n2, hb, hc1, hc2, hval, hrange]
        omega
      · simp only [h1, h2, h3, if_false]
        have hlt : c < 1114112 := by omega
        have n1 : ¬ (240 + c / 262144 < 128) := by omega
        have n2 : ¬ (194 ≤ 240 + c / 262144 ∧ 240 + c / 262144 < 224) := by omega
        have n3 : ¬ (224 ≤ 240 + c / 262144 ∧ 240 + c / 262144 < 240) := by omega
        have hb : 240 ≤ 240 + c / 262144 ∧ 240 + c / 262144 < 245 := by omega
        have hc1 : Utf7.isCont (128 + c / 4096 % 64) = true := by simp [Utf7.isCont]; omega
        have hc2 : Utf7.isCont (128 + c / 64 % 64) = true := by simp [Utf7.isCont]; omega
        have hc3 : Utf7.isCont (128 + c % 64) = true := by simp [Utf7.isCont]; omega
        have hval : (240 + c / 262144 - 240) * 262144 + (128 + c / 4096 % 64 - 128) * 4096 + (128 + c / 64 % 64 - 128) * 64 +
            (128 + c % 64 - 128) = c := by omega
        have hrange : 65536 ≤ c ∧ c < 1114112 := by omega
        simp [Utf7.utf8dec, n1, n2, n3, hb, hc1, hc2, hc3, hval, hrange]
        omega

/-- the delimiter of a LIST / NAMESPACE entry (NIL or one quoted character) is read back -/
theorem readDelim_delimText (d : Int) (rest : Str) (h : validDelim d = true) (hr : StopsAt isAtomChar rest) :
    ∃ dl, delimText d = some dl ∧ readDelim (dl ++ rest) = some (d, rest) := by
  by_cases h0 : d = 0
  · subst h0
    refine ⟨NILb, by simp [delimText], ?_⟩
    have hta := tryAtom_append NILb rest (by decide) (by decide) hr
    have e : NILb ++ rest = 78 :: 73 :: 76 :: rest := rfl
    rw [e] at hta ⊢
    unfold readDelim
    simp [hta, NILb]
  · simp only [validDelim, Bool.or_eq_true, beq_iff_eq, Bool.and_eq_true, decide_eq_true_eq, Bool.not_eq_true',
      Bool.and_eq_false_iff, decide_eq_false_iff_not, bne_iff_ne, ne_eq] at h
    have h' := h.resolve_left h0
    obtain ⟨⟨⟨⟨⟨hpos, hlt⟩, hsur⟩, hfffd⟩, h13⟩, h10⟩ := h'
    have hsc : Utf7Lemmas.Scalar d.toNat := by unfold Utf7Lemmas.Scalar; omega
    have hdl : delimText d = some (encQuoted (Utf7.utf8enc d.toNat)) := by
      unfold delimText
      have hs2 : (55296 ≤ d → 57344 ≤ d) := by
        intro a
        rcases hsur with b | b
        · exact absurd a b
        · omega
      simp [h0, hpos, hlt]
      exact hs2
    refine ⟨_, hdl, ?_⟩
    have hq := decQuoted_encQuoted (Utf7.utf8enc d.toNat) rest
    have e : encQuoted (Utf7.utf8enc d.toNat) ++ rest = 34 :: (escQuoted (Utf7.utf8enc d.toNat) ++ [34] ++ rest) := rfl
    rw [e] at hq ⊢
    unfold readDelim
    simp only [hq, utf8dec_utf8enc_one _ hsc]
    have hne : ¬ (d.toNat = 65533) := by omega
    have hcast : ((d.toNat : Nat) : Int) = d := by omega
    simp [hne, hcast]

end GoImap.Resp
