/-
  Helper lemmas for C03: assembling a command's whole response (several lines) from line lemmas.
-/
import GoImap.Lemmas.RespRead
namespace GoImap.Resp

/-- a concatenation of optional pieces is defined iff every piece is -/
theorem concatOpt_map {α : Type} (f : α → Option Str) : ∀ (xs : List α) (bytes : Str),
    concatOpt (xs.map f) = some bytes →
    ∃ ls : List Str, ls.length = xs.length ∧ (∀ i (h1 : i < xs.length) (h2 : i < ls.length), f xs[i] = some ls[i]) ∧ bytes = ls.flatten := by
  intro xs
  induction xs with
  | nil => intro bytes h; simp [concatOpt] at h; exact ⟨[], rfl, by intro i h1; simp at h1, by simp [h]⟩
  | cons x t ih =>
    intro bytes h
    simp only [List.map_cons, concatOpt] at h
    cases hx : f x with
    | none => rw [hx] at h; simp [concatOpt] at h
    | some l =>
      rw [hx] at h
      simp only [concatOpt] at h
      cases ht : concatOpt (t.map f) with
      | none => rw [ht] at h; simp at h
      | some rest =>
        rw [ht] at h
        simp only [Option.map_some, Option.some.injEq] at h
        obtain ⟨ls, hlen, hall, hflat⟩ := ih rest ht
        refine ⟨l :: ls, by simp [hlen], ?_, by simp [← h, hflat]⟩
        intro i h1 h2
        cases i with
        | zero => simpa using hx
        | succ j => simpa using hall j (by simpa using h1) (by simpa using h2)

/-- if every piece is read as an event, the pieces line up with the events -/
theorem AllRead.of_get {α : Type} (f : α → Option Str) (g : α → Event) : ∀ (xs : List α) (ls : List Str),
    ls.length = xs.length → (∀ i (h1 : i < xs.length) (h2 : i < ls.length), f xs[i] = some ls[i]) →
    (∀ x ∈ xs, ∀ l, f x = some l → ReadsAs l (g x)) → AllRead ls (xs.map g) := by
  intro xs
  induction xs with
  | nil => intro ls hlen _ _; cases ls with
    | nil => exact AllRead.nil
    | cons a b => simp at hlen
  | cons x t ih =>
    intro ls hlen hall hread
    cases ls with
    | nil => simp at hlen
    | cons l rest =>
      have h0 := hall 0 (by simp) (by simp)
      simp only [List.getElem_cons_zero] at h0
      refine AllRead.cons (hread x (by simp) l h0) (ih rest (by simpa using hlen) ?_ (fun y hy => hread y (by simp [hy])))
      intro i h1 h2
      have := hall (i + 1) (by simpa using h1) (by simpa using h2)
      simpa using this

end GoImap.Resp

namespace GoImap.Resp

/-- the key by which FetchCommand recognises a message as its own -/
def fetchKey (uidMode : Bool) (m : Msg) : Nat := if uidMode then uidBeforeLiteral m.items 0 else m.seq

theorem deliverFetchAux_distinct (uidMode : Bool) (tag typ : Str) (code : Code) : ∀ (ms : List Msg) (seen : List Nat),
    (∀ m ∈ ms, fetchKey uidMode m ≠ 0 ∧ fetchKey uidMode m ∉ seen) → (ms.map (fetchKey uidMode)).Nodup →
    deliverFetchAux uidMode seen (ms.map Event.fetch ++ [Event.done tag typ code]) = ms := by
  intro ms
  induction ms with
  | nil => intro seen _ _; simp [deliverFetchAux]
  | cons m t ih =>
    intro seen h hnd
    obtain ⟨h0, hns⟩ := h m (by simp)
    simp only [List.map_cons, List.nodup_cons] at hnd
    have hrest := ih (fetchKey uidMode m :: seen)
      (fun x hx => ⟨(h x (by simp [hx])).1, by
        intro hmem
        rcases List.mem_cons.mp hmem with e | hm
        · exact hnd.1 (List.mem_map.mpr ⟨x, hx, e⟩)
        · exact (h x (by simp [hx])).2 hm⟩) hnd.2
    simp only [List.map_cons, List.cons_append, deliverFetchAux]
    have hk : (if uidMode = true then uidBeforeLiteral m.items 0 else m.seq) = fetchKey uidMode m := rfl
    rw [hk]
    have hc : (decide (fetchKey uidMode m ≠ 0) && !seen.contains (fetchKey uidMode m)) = true := by
      simp [h0, hns]
    rw [if_pos hc, hrest]

end GoImap.Resp
