/-
  C03, BODY / BODYSTRUCTURE: the non-recursive pieces of the round trip of Model/RespBody.lean —
  parameter lists (`printParams` / `readParams`), disposition (`printDisp` / `readDisp`), language
  (`printLang` / `readLang`) and the two extension blocks (`readExt1`, `readExtM`), against the
  specification side `RespSpec.canonParams`, `canonDisp`, `normOpt`, `canonSingleExt`, `canonMultiExt`.

  Every result has the shape `reader (bytes ++ r) = some (value, r)` with explicit hypotheses on `r`.
-/
import GoImap.Lemmas.RespWire
import GoImap.Lemmas.RespQ
namespace GoImap.Resp

/-! ## first bytes -/

/-- the first byte of `s` is one of `cs` -/
def bp_Head (cs : List Nat) (s : Str) : Prop := ∃ c t, s = c :: t ∧ c ∈ cs

theorem bp_Head.mono {cs ds : List Nat} {s : Str} (h : bp_Head cs s) (hsub : ∀ c ∈ cs, c ∈ ds) : bp_Head ds s := by
  obtain ⟨c, t, e, hc⟩ := h
  exact ⟨c, t, e, hsub c hc⟩

theorem bp_Head.append {cs : List Nat} {s : Str} (h : bp_Head cs s) (r : Str) : bp_Head cs (s ++ r) := by
  obtain ⟨c, t, e, hc⟩ := h
  exact ⟨c, t ++ r, by rw [e]; rfl, hc⟩

/-- `"` or `{` -/
theorem bp_encString_head (utf8 : Bool) (s : Str) : bp_Head [34, 123] (encString utf8 s) := by
  unfold encString
  split
  · exact ⟨34, _, rfl, by simp⟩
  · exact ⟨123, _, rfl, by simp⟩

/-- `N`, `"` or `{` -/
theorem bp_encNString_head (utf8 : Bool) (s : Str) : bp_Head [78, 34, 123] (encNString utf8 s) := by
  unfold encNString
  split
  · exact ⟨78, _, rfl, by simp⟩
  · exact (bp_encString_head utf8 s).mono (by simp)

/-- `N` or `(` -/
theorem bp_printParams_head (utf8 : Bool) (p : Params) : bp_Head [78, 40] (printParams utf8 p) := by
  cases p with
  | none => exact ⟨78, _, rfl, by simp⟩
  | some l => exact ⟨40, _, rfl, by simp⟩

/-- `N` or `(` -/
theorem bp_printDisp_head (utf8 : Bool) (x : Option Disposition) : bp_Head [78, 40] (printDisp utf8 x) := by
  cases x with
  | none => exact ⟨78, _, rfl, by simp⟩
  | some d => exact ⟨40, _, rfl, by simp⟩

/-- `N` or `(` -/
theorem bp_printLang_head (utf8 : Bool) (x : Option (List Str)) : bp_Head [78, 40] (printLang utf8 x) := by
  cases x with
  | none => exact ⟨78, _, rfl, by simp⟩
  | some l => exact ⟨40, _, rfl, by simp⟩

/-- a space followed by such a byte is accepted by `Decoder.SP` -/
theorem bp_Head.decSP {cs : List Nat} {s : Str} (h : bp_Head cs s) (h13 : 13 ∉ cs) (h10 : 10 ∉ cs) (r : Str) :
    decSP (32 :: (s ++ r)) = (true, s ++ r) := by
  obtain ⟨c, t, e, hc⟩ := h
  have c13 : c ≠ 13 := fun e' => h13 (e' ▸ hc)
  have c10 : c ≠ 10 := fun e' => h10 (e' ▸ hc)
  rw [e]
  simp [Resp.decSP, c13, c10]

theorem bp_Head.expectSP {cs : List Nat} {s : Str} (h : bp_Head cs s) (h13 : 13 ∉ cs) (h10 : 10 ∉ cs) (r : Str) :
    expectSP (32 :: (s ++ r)) = some (s ++ r) := by
  unfold Resp.expectSP
  rw [h.decSP h13 h10 r]

theorem bp_Head.goodHead {cs : List Nat} {s : Str} (h : bp_Head cs s) (h13 : 13 ∉ cs) (h10 : 10 ∉ cs) (h41 : 41 ∉ cs) :
    GoodHead s := by
  obtain ⟨c, t, e, hc⟩ := h
  exact ⟨c, t, e, fun e' => h13 (e' ▸ hc), fun e' => h10 (e' ▸ hc), fun e' => h41 (e' ▸ hc)⟩

theorem bp_Head.stopsAt {cs : List Nat} {s : Str} (h : bp_Head cs s) (p : Nat → Bool) (hp : ∀ c ∈ cs, p c = false) (r : Str) :
    StopsAt p (s ++ r) := by
  obtain ⟨c, t, e, hc⟩ := h
  rw [e]
  exact StopsAt.cons _ (hp c hc)

/-- the first byte is never CR or LF: string -/
theorem bp_encString_ne_crlf (utf8 : Bool) (s : Str) : ∃ c t, encString utf8 s = c :: t ∧ c ≠ 13 ∧ c ≠ 10 := by
  obtain ⟨c, t, e, hc⟩ := bp_encString_head utf8 s
  exact ⟨c, t, e, fun e' => absurd (e' ▸ hc) (by decide), fun e' => absurd (e' ▸ hc) (by decide)⟩

theorem bp_encNString_ne_crlf (utf8 : Bool) (s : Str) : ∃ c t, encNString utf8 s = c :: t ∧ c ≠ 13 ∧ c ≠ 10 := by
  obtain ⟨c, t, e, hc⟩ := bp_encNString_head utf8 s
  exact ⟨c, t, e, fun e' => absurd (e' ▸ hc) (by decide), fun e' => absurd (e' ▸ hc) (by decide)⟩

theorem bp_printParams_ne_crlf (utf8 : Bool) (p : Params) : ∃ c t, printParams utf8 p = c :: t ∧ c ≠ 13 ∧ c ≠ 10 := by
  obtain ⟨c, t, e, hc⟩ := bp_printParams_head utf8 p
  exact ⟨c, t, e, fun e' => absurd (e' ▸ hc) (by decide), fun e' => absurd (e' ▸ hc) (by decide)⟩

theorem bp_printDisp_ne_crlf (utf8 : Bool) (x : Option Disposition) : ∃ c t, printDisp utf8 x = c :: t ∧ c ≠ 13 ∧ c ≠ 10 := by
  obtain ⟨c, t, e, hc⟩ := bp_printDisp_head utf8 x
  exact ⟨c, t, e, fun e' => absurd (e' ▸ hc) (by decide), fun e' => absurd (e' ▸ hc) (by decide)⟩

theorem bp_printLang_ne_crlf (utf8 : Bool) (x : Option (List Str)) : ∃ c t, printLang utf8 x = c :: t ∧ c ≠ 13 ∧ c ≠ 10 := by
  obtain ⟨c, t, e, hc⟩ := bp_printLang_head utf8 x
  exact ⟨c, t, e, fun e' => absurd (e' ▸ hc) (by decide), fun e' => absurd (e' ▸ hc) (by decide)⟩

/-! ### SP before each kind of field -/

theorem bp_decSP_encString (utf8 : Bool) (s r : Str) : decSP (32 :: (encString utf8 s ++ r)) = (true, encString utf8 s ++ r) :=
  (bp_encString_head utf8 s).decSP (by decide) (by decide) r
theorem bp_decSP_encNString (utf8 : Bool) (s r : Str) : decSP (32 :: (encNString utf8 s ++ r)) = (true, encNString utf8 s ++ r) :=
  (bp_encNString_head utf8 s).decSP (by decide) (by decide) r
theorem bp_decSP_printParams (utf8 : Bool) (p : Params) (r : Str) :
    decSP (32 :: (printParams utf8 p ++ r)) = (true, printParams utf8 p ++ r) :=
  (bp_printParams_head utf8 p).decSP (by decide) (by decide) r
theorem bp_decSP_printDisp (utf8 : Bool) (x : Option Disposition) (r : Str) :
    decSP (32 :: (printDisp utf8 x ++ r)) = (true, printDisp utf8 x ++ r) :=
  (bp_printDisp_head utf8 x).decSP (by decide) (by decide) r
theorem bp_decSP_printLang (utf8 : Bool) (x : Option (List Str)) (r : Str) :
    decSP (32 :: (printLang utf8 x ++ r)) = (true, printLang utf8 x ++ r) :=
  (bp_printLang_head utf8 x).decSP (by decide) (by decide) r

theorem bp_expectSP_encString (utf8 : Bool) (s r : Str) : expectSP (32 :: (encString utf8 s ++ r)) = some (encString utf8 s ++ r) :=
  (bp_encString_head utf8 s).expectSP (by decide) (by decide) r
theorem bp_expectSP_encNString (utf8 : Bool) (s r : Str) : expectSP (32 :: (encNString utf8 s ++ r)) = some (encNString utf8 s ++ r) :=
  (bp_encNString_head utf8 s).expectSP (by decide) (by decide) r
theorem bp_expectSP_printParams (utf8 : Bool) (p : Params) (r : Str) :
    expectSP (32 :: (printParams utf8 p ++ r)) = some (printParams utf8 p ++ r) :=
  (bp_printParams_head utf8 p).expectSP (by decide) (by decide) r
theorem bp_expectSP_printDisp (utf8 : Bool) (x : Option Disposition) (r : Str) :
    expectSP (32 :: (printDisp utf8 x ++ r)) = some (printDisp utf8 x ++ r) :=
  (bp_printDisp_head utf8 x).expectSP (by decide) (by decide) r
theorem bp_expectSP_printLang (utf8 : Bool) (x : Option (List Str)) (r : Str) :
    expectSP (32 :: (printLang utf8 x ++ r)) = some (printLang utf8 x ++ r) :=
  (bp_printLang_head utf8 x).expectSP (by decide) (by decide) r

/-- an atom cannot run into any of these fields -/
theorem bp_stopsAt_encString (utf8 : Bool) (s r : Str) : StopsAt isAtomChar (encString utf8 s ++ r) :=
  (bp_encString_head utf8 s).stopsAt isAtomChar (by decide) r

/-! ## parameters -/

theorem bp_ltStrM_eq : ∀ a b : Str, ltStrM a b = RespSpec.ltStr a b
  | [], [] => rfl
  | [], _ :: _ => rfl
  | _ :: _, [] => rfl
  | a :: as, b :: bs => by
    simp only [ltStrM, RespSpec.ltStr]
    rw [bp_ltStrM_eq as bs]

theorem bp_lower_eq (s : Str) : s.map lowerB = RespSpec.lower s := rfl

/-- assignment to a key the map does not have is the specification's sorted insertion -/
theorem bp_mapSet_insertKV (k v : Str) : ∀ m : List (Str × Str), (∀ h ∈ m, h.1 ≠ k) →
    mapSet k v m = RespSpec.insertKV (k, v) m
  | [], _ => rfl
  | h :: t, hm => by
    have h1 : (h.1 == k) = false := by simp [hm h (by simp)]
    have ih := bp_mapSet_insertKV k v t (fun x hx => hm x (by simp [hx]))
    simp [mapSet, RespSpec.insertKV, h1, bp_ltStrM_eq, ih]

theorem bp_mem_insertKV (kv : Str × Str) : ∀ (m : List (Str × Str)) (h : Str × Str),
    h ∈ RespSpec.insertKV kv m → h = kv ∨ h ∈ m
  | [], h, hh => by simpa [RespSpec.insertKV] using hh
  | x :: t, h, hh => by
    unfold RespSpec.insertKV at hh
    split at hh
    · simpa using hh
    · rcases List.mem_cons.mp hh with e | hin
      · exact Or.inr (by simp [e])
      · rcases bp_mem_insertKV kv t h hin with e | hin'
        · exact Or.inl e
        · exact Or.inr (by simp [hin'])

theorem bp_nodupKeys_cons (k : Str) (t : List Str) (h : RespSpec.nodupKeys (k :: t) = true) :
    k ∉ t ∧ RespSpec.nodupKeys t = true := by
  simpa [RespSpec.nodupKeys] using h

/-- the client's map after all assignments is the specification's sorted list -/
theorem bp_fold_mapSet : ∀ (l m : List (Str × Str)),
    RespSpec.nodupKeys (l.map fun kv => RespSpec.lower kv.1) = true →
    (∀ kv ∈ l, ∀ h ∈ m, h.1 ≠ RespSpec.lower kv.1) →
    l.foldl (fun m kv => mapSet (kv.1.map lowerB) kv.2 m) m =
      (l.map fun kv => (RespSpec.lower kv.1, kv.2)).foldl (fun m kv => RespSpec.insertKV kv m) m
  | [], _, _, _ => rfl
  | kv :: t, m, hnd, hm => by
    obtain ⟨hnot, hnd'⟩ := bp_nodupKeys_cons _ _ hnd
    have e : mapSet (kv.1.map lowerB) kv.2 m = RespSpec.insertKV (RespSpec.lower kv.1, kv.2) m :=
      bp_mapSet_insertKV (RespSpec.lower kv.1) kv.2 m (fun h hh => hm kv (by simp) h hh)
    simp only [List.foldl_cons, List.map_cons]
    rw [e]
    apply bp_fold_mapSet t _ hnd'
    intro kv' hkv' h hh
    rcases bp_mem_insertKV _ _ _ hh with e' | hin
    · subst e'
      intro heq
      apply hnot
      show RespSpec.lower kv.1 ∈ t.map fun kv => RespSpec.lower kv.1
      exact List.mem_map.mpr ⟨kv', hkv', heq.symm⟩
    · exact hm kv' (by simp [hkv']) h hin

/-- the strings of a parameter list in wire order -/
def bp_flat : List (Str × Str) → List Str
  | [] => []
  | kv :: t => kv.1 :: kv.2 :: bp_flat t

theorem bp_mem_flat : ∀ (l : List (Str × Str)) (x : Str), x ∈ bp_flat l → ∃ kv ∈ l, x = kv.1 ∨ x = kv.2
  | [], x, h => by simp [bp_flat] at h
  | kv :: t, x, h => by
    simp only [bp_flat, List.mem_cons] at h
    rcases h with e | e | h
    · exact ⟨kv, by simp, Or.inl e⟩
    · exact ⟨kv, by simp, Or.inr e⟩
    · obtain ⟨kv', hin, h'⟩ := bp_mem_flat t x h
      exact ⟨kv', by simp [hin], h'⟩

/-- `k SP v` pairs separated by SP are the flat list of strings separated by SP -/
theorem bp_joinSP_flat (utf8 : Bool) : ∀ l : List (Str × Str),
    joinSP (l.map fun kv => encString utf8 kv.1 ++ [32] ++ encString utf8 kv.2) = joinSP ((bp_flat l).map (encString utf8))
  | [] => rfl
  | [kv] => by simp [bp_flat, joinSP, SPb]
  | kv :: kv' :: t => by
    have ih := bp_joinSP_flat utf8 (kv' :: t)
    simp only [List.map_cons, bp_flat] at ih ⊢
    rw [joinSP_cons_cons (encString utf8 kv.1 ++ [32] ++ encString utf8 kv.2), ih,
      joinSP_cons_cons (encString utf8 kv.1), joinSP_cons_cons (encString utf8 kv.2)]
    simp

/-- readBodyFldParam's callback over the strings of a well-formed list: alternately key and value -/
theorem bp_pairUp (dec : QTab) : ∀ (l m : List (Str × Str)), (∀ kv ∈ l, kv.1 ≠ [] ∧ QRaw dec kv.2) →
    pairUp dec [] m (bp_flat l) = some (l.foldl (fun m kv => mapSet (kv.1.map lowerB) kv.2 m) m)
  | [], m, _ => by simp [bp_flat, pairUp]
  | kv :: t, m, h => by
    obtain ⟨hk, hv⟩ := h kv (by simp)
    have hk' : kv.1.isEmpty = false := by cases hkv : kv.1 with
      | nil => exact absurd hkv hk
      | cons a b => rfl
    have ih := bp_pairUp dec t (mapSet (kv.1.map lowerB) kv.2 m) (fun x hx => h x (by simp [hx]))
    have hv' : qdec dec kv.2 = some kv.2 := hv
    simp only [bp_flat, List.foldl_cons]
    rw [pairUp, if_pos (by rfl), pairUp, hk', hv']
    simpa using ih

theorem bp_normOpt_some {α : Type} (m : List α) : (if m.isEmpty = true then none else some m) = RespSpec.normOpt (some m) := by
  cases m <;> rfl

/-- what travels in a parameter list: values are decoded as header text, keys and values are strings -/
def bp_ParamsOK (dec : QTab) (p : Params) : Prop := ∀ l, p = some l → ∀ kv ∈ l, QRaw dec kv.2 ∧ Fits kv.1 ∧ Fits kv.2

/-- the flat list of strings of a parameter list, as `decList decString` reads it -/
theorem bp_decList_params (utf8 : Bool) (l : List (Str × Str)) (r : Str) (hf : ∀ kv ∈ l, Fits kv.1 ∧ Fits kv.2) :
    decList decString (printParams utf8 (some l) ++ r) = some (bp_flat l, r) := by
  have hd := decList_encList decString (encString utf8) (fun x => x) (bp_flat l) r
    (fun x hx r' _ => by
      obtain ⟨kv, hin, h⟩ := bp_mem_flat l x hx
      rcases h with e | e
      · exact decString_encString utf8 x r' (e ▸ (hf kv hin).1)
      · exact decString_encString utf8 x r' (e ▸ (hf kv hin).2))
    (fun x _ => (bp_encString_head utf8 x).goodHead (by decide) (by decide) (by decide))
  have e : printParams utf8 (some l) = encList ((bp_flat l).map (encString utf8)) := by
    simp only [printParams, encList, bp_joinSP_flat]
  rw [e, hd]
  simp

/-- writeBodyFldParam / readBodyFldParam: the keys come back lower-cased, the map listed by key,
    an empty map as nil -/
theorem bp_readParams (utf8 : Bool) (dec : QTab) (p : Params) (r : Str)
    (hwf : RespSpec.wfParams p = true)
    (hq : ∀ l, p = some l → ∀ kv ∈ l, QRaw dec kv.2 ∧ Fits kv.1 ∧ Fits kv.2)
    (hr : StopsAt isAtomChar r) :
    readParams dec (printParams utf8 p ++ r) = some (RespSpec.canonParams p, r) := by
  cases p with
  | none =>
    have hta := tryAtom_append NILb r (by decide) (by decide) hr
    show readParams dec (NILb ++ r) = _
    unfold readParams decNList
    rw [hta]
    simp [RespSpec.canonParams, RespSpec.normOpt]
  | some l =>
    have hnone : tryAtom (printParams utf8 (some l) ++ r) = none := by
      simp [printParams, encList, tryAtom, spanB, isAtomChar]
    have hd := bp_decList_params utf8 l r (fun kv hkv => (hq l rfl kv hkv).2)
    simp only [RespSpec.wfParams, Bool.and_eq_true, List.all_eq_true, Bool.not_eq_true'] at hwf
    obtain ⟨hkeys, hnd⟩ := hwf
    have hp := bp_pairUp dec l [] (fun kv hkv => by
      refine ⟨?_, (hq l rfl kv hkv).1⟩
      intro e
      have := (hkeys kv hkv).1
      rw [e] at this
      cases this)
    rw [bp_fold_mapSet l [] hnd (fun _ _ h hh => by cases hh)] at hp
    unfold readParams decNList
    rw [hnone, hd]
    simp only [Option.map_some, Option.bind_some, hp, bp_normOpt_some]
    rfl

/-! ## disposition -/

def bp_DispOK (dec : QTab) (x : Option Disposition) : Prop := ∀ d, x = some d → Fits d.value ∧ bp_ParamsOK dec d.params

theorem bp_expectNIL (r : Str) (hr : StopsAt isAtomChar r) : expectNIL (NILb ++ r) = some r := by
  unfold expectNIL
  rw [tryAtom_append NILb r (by decide) (by decide) hr]
  simp

/-- writeBodyFldDsp / readBodyFldDsp -/
theorem bp_readDisp (utf8 : Bool) (dec : QTab) (x : Option Disposition) (r : Str)
    (hwf : RespSpec.wfDisp x = true) (hq : bp_DispOK dec x) (hr : StopsAt isAtomChar r) :
    readDisp dec (printDisp utf8 x ++ r) = some (x.map RespSpec.canonDisp, r) := by
  cases x with
  | none =>
    have h := bp_expectNIL r hr
    show readDisp dec (78 :: 73 :: 76 :: r) = _
    unfold readDisp
    simp only []
    show (expectNIL (NILb ++ r)).map _ = _
    rw [h]
    rfl
  | some d =>
    obtain ⟨hv, hp⟩ := hq d rfl
    have e : printDisp utf8 (some d) ++ r = 40 :: (encString utf8 d.value ++ 32 :: (printParams utf8 d.params ++ 41 :: r)) := by
      simp [printDisp, List.append_assoc]
    have h1 := decString_encString utf8 d.value (32 :: (printParams utf8 d.params ++ 41 :: r)) hv
    have h2 := bp_expectSP_printParams utf8 d.params (41 :: r)
    have h3 := bp_readParams utf8 dec d.params (41 :: r) hwf hp (StopsAt.cons _ (by decide))
    rw [e]
    unfold readDisp
    simp [h1, h2, h3, RespSpec.canonDisp]

/-! ## language -/

/-- writeBodyFldLang / readBodyFldLang -/
theorem bp_readLang (utf8 : Bool) (x : Option (List Str)) (r : Str)
    (hf : ∀ l, x = some l → ∀ s ∈ l, Fits s) (hr : StopsAt isAtomChar r) :
    readLang (printLang utf8 x ++ r) = some (RespSpec.normOpt x, r) := by
  cases x with
  | none =>
    have h := decNString_encNString utf8 [] r (by decide) hr
    have e : encNString utf8 [] = NILb := rfl
    rw [e] at h
    show readLang (78 :: 73 :: 76 :: r) = _
    unfold readLang
    simp only []
    show (decNString (NILb ++ r)).map _ = _
    rw [h]
    rfl
  | some l =>
    have hd := decList_encList decString (encString utf8) (fun x => x) l r
      (fun s hs r' _ => decString_encString utf8 s r' (hf l rfl s hs))
      (fun s _ => (bp_encString_head utf8 s).goodHead (by decide) (by decide) (by decide))
    have e : printLang utf8 (some l) ++ r = 40 :: (joinSP (l.map (encString utf8)) ++ 41 :: r) := by
      simp [printLang, encList, List.append_assoc]
    have hd' : decList decString (40 :: (joinSP (l.map (encString utf8)) ++ 41 :: r)) = some (l, r) := by
      rw [← e]; simpa [printLang] using hd
    rw [e]
    unfold readLang
    simp only [hd', Option.map_some, bp_normOpt_some]

/-! ## extension blocks -/

/-- what travels in the extension data of a single part -/
structure bp_ExtOK1 (dec : QTab) (x : SingleExt) : Prop where
  wf : RespSpec.wfDisp x.disp = true
  disp : bp_DispOK dec x.disp
  lang : ∀ l, x.lang = some l → ∀ s ∈ l, Fits s
  loc : Fits x.loc

/-- what travels in the extension data of a multipart -/
structure bp_ExtOKM (dec : QTab) (x : MultiExt) : Prop where
  wfp : RespSpec.wfParams x.params = true
  params : bp_ParamsOK dec x.params
  wf : RespSpec.wfDisp x.disp = true
  disp : bp_DispOK dec x.disp
  lang : ∀ l, x.lang = some l → ∀ s ∈ l, Fits s
  loc : Fits x.loc

/-- the bytes `writeBodyType1part` writes after ` ` when extension data is requested:
    `NIL` (md5) SP disposition SP language SP location -/
def bp_ext1Text (utf8 : Bool) (x : SingleExt) : Str :=
  NILb ++ 32 :: (printDisp utf8 x.disp ++ 32 :: (printLang utf8 x.lang ++ 32 :: encNString utf8 x.loc))

/-- the bytes `writeBodyTypeMpart` writes after ` ` when extension data is requested -/
def bp_extMText (utf8 : Bool) (x : MultiExt) : Str :=
  printParams utf8 x.params ++ 32 :: (printDisp utf8 x.disp ++ 32 :: (printLang utf8 x.lang ++ 32 :: encNString utf8 x.loc))

/-- the tail of `printBody` (single part, `ext = true`) is a space and `bp_ext1Text` -/
theorem bp_ext1Text_eq (utf8 : Bool) (x : SingleExt) :
    asc " NIL " ++ printDisp utf8 x.disp ++ [32] ++ printLang utf8 x.lang ++ [32] ++ encNString utf8 x.loc =
      32 :: bp_ext1Text utf8 x := by
  have e : asc " NIL " = 32 :: (NILb ++ [32]) := by decide
  rw [e]
  simp [bp_ext1Text, List.append_assoc]

/-- the tail of `printBody` (multipart, `ext = true`) is a space and `bp_extMText` -/
theorem bp_extMText_eq (utf8 : Bool) (x : MultiExt) :
    [32] ++ printParams utf8 x.params ++ [32] ++ printDisp utf8 x.disp ++ [32] ++ printLang utf8 x.lang ++ [32] ++
      encNString utf8 x.loc = 32 :: bp_extMText utf8 x := by
  simp [bp_extMText, List.append_assoc]

/-- readBodyExt1part (entered after the SP): md5 NIL, disposition, language, location -/
theorem bp_readExt1 (utf8 : Bool) (dec : QTab) (x : SingleExt) (r : Str) (hx : bp_ExtOK1 dec x)
    (hr : StopsAt isAtomChar r) :
    readExt1 dec (NILb ++ 32 :: (printDisp utf8 x.disp ++ 32 :: (printLang utf8 x.lang ++ 32 :: (encNString utf8 x.loc ++ r)))) =
      some (RespSpec.canonSingleExt x, r) := by
  have h0 : decNString (NILb ++ 32 :: (printDisp utf8 x.disp ++ 32 :: (printLang utf8 x.lang ++ 32 :: (encNString utf8 x.loc ++ r)))) =
      some ([], 32 :: (printDisp utf8 x.disp ++ 32 :: (printLang utf8 x.lang ++ 32 :: (encNString utf8 x.loc ++ r)))) :=
    decNString_encNString utf8 [] _ (by decide) (StopsAt.cons _ (by decide))
  have s1 := bp_decSP_printDisp utf8 x.disp (32 :: (printLang utf8 x.lang ++ 32 :: (encNString utf8 x.loc ++ r)))
  have h1 := bp_readDisp utf8 dec x.disp (32 :: (printLang utf8 x.lang ++ 32 :: (encNString utf8 x.loc ++ r))) hx.wf hx.disp
    (StopsAt.cons _ (by decide))
  have s2 := bp_decSP_printLang utf8 x.lang (32 :: (encNString utf8 x.loc ++ r))
  have h2 := bp_readLang utf8 x.lang (32 :: (encNString utf8 x.loc ++ r)) hx.lang (StopsAt.cons _ (by decide))
  have s3 := bp_decSP_encNString utf8 x.loc r
  have h3 := decNString_encNString utf8 x.loc r hx.loc hr
  unfold readExt1
  simp [h0, s1, h1, s2, h2, s3, h3, RespSpec.canonSingleExt]

/-- the same on the named bytes -/
theorem bp_readExt1_text (utf8 : Bool) (dec : QTab) (x : SingleExt) (r : Str) (hx : bp_ExtOK1 dec x)
    (hr : StopsAt isAtomChar r) :
    readExt1 dec (bp_ext1Text utf8 x ++ r) = some (RespSpec.canonSingleExt x, r) := by
  have e : bp_ext1Text utf8 x ++ r =
      NILb ++ 32 :: (printDisp utf8 x.disp ++ 32 :: (printLang utf8 x.lang ++ 32 :: (encNString utf8 x.loc ++ r))) := by
    simp [bp_ext1Text, List.append_assoc]
  rw [e]
  exact bp_readExt1 utf8 dec x r hx hr

/-- readBodyExtMpart (entered after the SP): parameters, disposition, language, location -/
theorem bp_readExtM (utf8 : Bool) (dec : QTab) (x : MultiExt) (r : Str) (hx : bp_ExtOKM dec x)
    (hr : StopsAt isAtomChar r) :
    readExtM dec (printParams utf8 x.params ++ 32 :: (printDisp utf8 x.disp ++ 32 :: (printLang utf8 x.lang ++ 32 ::
      (encNString utf8 x.loc ++ r)))) = some (RespSpec.canonMultiExt x, r) := by
  have h0 := bp_readParams utf8 dec x.params
    (32 :: (printDisp utf8 x.disp ++ 32 :: (printLang utf8 x.lang ++ 32 :: (encNString utf8 x.loc ++ r)))) hx.wfp hx.params
    (StopsAt.cons _ (by decide))
  have s1 := bp_decSP_printDisp utf8 x.disp (32 :: (printLang utf8 x.lang ++ 32 :: (encNString utf8 x.loc ++ r)))
  have h1 := bp_readDisp utf8 dec x.disp (32 :: (printLang utf8 x.lang ++ 32 :: (encNString utf8 x.loc ++ r))) hx.wf hx.disp
    (StopsAt.cons _ (by decide))
  have s2 := bp_decSP_printLang utf8 x.lang (32 :: (encNString utf8 x.loc ++ r))
  have h2 := bp_readLang utf8 x.lang (32 :: (encNString utf8 x.loc ++ r)) hx.lang (StopsAt.cons _ (by decide))
  have s3 := bp_decSP_encNString utf8 x.loc r
  have h3 := decNString_encNString utf8 x.loc r hx.loc hr
  unfold readExtM
  simp [h0, s1, h1, s2, h2, s3, h3, RespSpec.canonMultiExt]

theorem bp_readExtM_text (utf8 : Bool) (dec : QTab) (x : MultiExt) (r : Str) (hx : bp_ExtOKM dec x)
    (hr : StopsAt isAtomChar r) :
    readExtM dec (bp_extMText utf8 x ++ r) = some (RespSpec.canonMultiExt x, r) := by
  have e : bp_extMText utf8 x ++ r =
      printParams utf8 x.params ++ 32 :: (printDisp utf8 x.disp ++ 32 :: (printLang utf8 x.lang ++ 32 :: (encNString utf8 x.loc ++ r))) := by
    simp [bp_extMText, List.append_assoc]
  rw [e]
  exact bp_readExtM utf8 dec x r hx hr

theorem bp_ext1Text_head (utf8 : Bool) (x : SingleExt) : bp_Head [78] (bp_ext1Text utf8 x) :=
  ⟨78, _, rfl, by simp⟩

theorem bp_extMText_head (utf8 : Bool) (x : MultiExt) : bp_Head [78, 40] (bp_extMText utf8 x) :=
  (bp_printParams_head utf8 x.params).append _

/-- the caller's `decSP` in front of the extension block -/
theorem bp_decSP_ext1Text (utf8 : Bool) (x : SingleExt) (r : Str) :
    decSP (32 :: (bp_ext1Text utf8 x ++ r)) = (true, bp_ext1Text utf8 x ++ r) :=
  (bp_ext1Text_head utf8 x).decSP (by decide) (by decide) r

theorem bp_decSP_extMText (utf8 : Bool) (x : MultiExt) (r : Str) :
    decSP (32 :: (bp_extMText utf8 x ++ r)) = (true, bp_extMText utf8 x ++ r) :=
  (bp_extMText_head utf8 x).decSP (by decide) (by decide) r

/-! ## the hypotheses are satisfiable: plain values, concrete instances -/

instance bp_decFits (s : Str) : Decidable (Fits s) := by unfold Fits; infer_instance

/-- values without "=?" and strings of any reasonable length satisfy `bp_ParamsOK`, whatever the table -/
theorem bp_paramsOK_plain (dec : QTab) (p : Params)
    (h : ∀ l, p = some l → ∀ kv ∈ l, hasEqQ kv.2 = false ∧ Fits kv.1 ∧ Fits kv.2) : bp_ParamsOK dec p := by
  intro l e kv hkv
  obtain ⟨h1, h2, h3⟩ := h l e kv hkv
  exact ⟨qraw_plain dec kv.2 h1, h2, h3⟩

theorem bp_dispOK_plain (dec : QTab) (x : Option Disposition)
    (h : ∀ d, x = some d → Fits d.value ∧ ∀ l, d.params = some l → ∀ kv ∈ l, hasEqQ kv.2 = false ∧ Fits kv.1 ∧ Fits kv.2) :
    bp_DispOK dec x := by
  intro d e
  exact ⟨(h d e).1, bp_paramsOK_plain dec d.params (h d e).2⟩

/-- `("Name" "x" "CHARSET" "utf-8")`: keys lower-cased, listed by key -/
example : readParams [] (asc "(\"Name\" \"x\" \"CHARSET\" \"utf-8\") 7") =
    some (some [(asc "charset", asc "utf-8"), (asc "name", asc "x")], asc " 7") := by
  have h := bp_readParams false [] (some [(asc "Name", asc "x"), (asc "CHARSET", asc "utf-8")]) (asc " 7") (by decide)
    (bp_paramsOK_plain [] _ (by intro l e; injection e with e; subst e; decide)) (StopsAt.cons _ (by decide))
  have e1 : printParams false (some [(asc "Name", asc "x"), (asc "CHARSET", asc "utf-8")]) ++ asc " 7" =
      asc "(\"Name\" \"x\" \"CHARSET\" \"utf-8\") 7" := by decide
  have e2 : RespSpec.canonParams (some [(asc "Name", asc "x"), (asc "CHARSET", asc "utf-8")]) =
      some [(asc "charset", asc "utf-8"), (asc "name", asc "x")] := by decide
  rw [e1, e2] at h
  exact h

/-- `NIL` and `()` both read as no parameters -/
example : readParams [] (asc "NIL)") = some (none, asc ")") :=
  bp_readParams false [] none (asc ")") rfl (fun _ e => by cases e) (StopsAt.cons _ (by decide))

example : readParams [] (asc "())") = some (none, asc ")") :=
  bp_readParams false [] (some []) (asc ")") rfl (fun l e kv hkv => by injection e with e; subst e; cases hkv)
    (StopsAt.cons _ (by decide))

/-- a single-part extension block with every field present -/
def bp_ex1 : SingleExt :=
  { disp := some { value := asc "attachment", params := some [(asc "FILENAME", asc "a.txt")] },
    lang := some [asc "en", asc "de"], loc := asc "http://x" }

theorem bp_ex1_ok : bp_ExtOK1 [] bp_ex1 where
  wf := by decide
  disp := bp_dispOK_plain [] _ (by
    intro d e; injection e with e; subst e
    refine ⟨by decide, ?_⟩
    intro l e; injection e with e; subst e; decide)
  lang := by intro l e; injection e with e; subst e; decide
  loc := by decide

example : readExt1 [] (asc "NIL (\"attachment\" (\"FILENAME\" \"a.txt\")) (\"en\" \"de\") \"http://x\")") =
    some ({ disp := some { value := asc "attachment", params := some [(asc "filename", asc "a.txt")] },
            lang := some [asc "en", asc "de"], loc := asc "http://x" }, [41]) := by
  have h := bp_readExt1_text false [] bp_ex1 [41] bp_ex1_ok (StopsAt.cons _ (by decide))
  have e1 : bp_ext1Text false bp_ex1 ++ [41] =
      asc "NIL (\"attachment\" (\"FILENAME\" \"a.txt\")) (\"en\" \"de\") \"http://x\")" := by decide
  have e2 : RespSpec.canonSingleExt bp_ex1 =
      { disp := some { value := asc "attachment", params := some [(asc "filename", asc "a.txt")] },
        lang := some [asc "en", asc "de"], loc := asc "http://x" } := by decide
  rw [e1, e2] at h
  exact h

/-- a multipart extension block with everything absent or empty: `NIL NIL () NIL` -/
def bp_exM : MultiExt := { params := none, disp := none, lang := some [], loc := [] }

theorem bp_exM_ok : bp_ExtOKM [] bp_exM where
  wfp := rfl
  params := fun _ e => by cases e
  wf := rfl
  disp := fun _ e => by cases e
  lang := fun l e s hs => by injection e with e; subst e; cases hs
  loc := by decide

example : readExtM [] (asc "NIL NIL () NIL)") = some ({ params := none, disp := none, lang := none, loc := [] }, [41]) := by
  have h := bp_readExtM_text false [] bp_exM [41] bp_exM_ok (StopsAt.cons _ (by decide))
  have e1 : bp_extMText false bp_exM ++ [41] = asc "NIL NIL () NIL)" := by decide
  have e2 : RespSpec.canonMultiExt bp_exM = { params := none, disp := none, lang := none, loc := [] } := by decide
  rw [e1, e2] at h
  exact h

end GoImap.Resp
