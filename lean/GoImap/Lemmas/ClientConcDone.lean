import GoImap.Lemmas.ClientConcOnce
/-!
  C13: `ContinuationRequest.Done` never closes a channel twice: whenever a thread is about to run
  `contDone k`, the request `k` is still `waiting` (invariant of every step of every variant).

  A *mark* for request id `k` is an instruction that will change `contSt k` from a program:
  `contDone k` (kind `false`) or `cancelOrphans ks` with `k ∈ ks` (kind `true`). Marks are created
  only for ids that leave the queue `contReqs` (`popCont`, `closeSwap`), ids are never reused.
-/
namespace GoImap.ClientConc

def isMark (m : Bool) (k : Nat) : Instr → Bool
  | .contDone j => !m && decide (j = k)
  | .cancelOrphans ks => m && decide (k ∈ ks)
  | _ => false

def marks (m : Bool) (k : Nat) (p : List Instr) : Nat := p.countP (isMark m k)

@[simp] theorem marks_nil (m : Bool) (k : Nat) : marks m k [] = 0 := rfl

theorem marks_cons (m : Bool) (k : Nat) (i : Instr) (p : List Instr) :
    marks m k (i :: p) = marks m k p + (if isMark m k i then 1 else 0) := by
  unfold marks; rw [List.countP_cons]

theorem marks_append (m : Bool) (k : Nat) (p q : List Instr) :
    marks m k (p ++ q) = marks m k p + marks m k q := by
  unfold marks; rw [List.countP_append]

theorem marks_dropThrough_le (m : Bool) (k : Nat) (f : Instr → Bool) (p : List Instr) :
    marks m k (dropThrough f p) ≤ marks m k p := by
  induction p with
  | nil => exact Nat.le_refl _
  | cons i p ih =>
    rw [dropThrough, marks_cons]
    split
    · exact Nat.le_add_right _ _
    · exact Nat.le_trans ih (Nat.le_add_right _ _)

theorem marks_handler (m : Bool) (k : Nat) (l : Line) : marks m k (handler l) = 0 := by
  cases l <;> rfl

theorem marks_readerExit (m : Bool) (k : Nat) : marks m k readerExit = 0 := rfl

theorem marks_complete (m : Bool) (k : Nat) (kd : Kind) (c : Nat) (r : Res) :
    marks m k (complete kd c r) = 0 := by
  unfold complete
  cases kd <;> cases r <;> rfl

theorem marks_completions (m : Bool) (k : Nat) (kind : Nat → Kind) (r : Res) (l : List Nat) :
    marks m k (l.flatMap fun c => complete (kind c) c r) = 0 := by
  induction l with
  | nil => rfl
  | cons c l ih => rw [List.flatMap_cons, marks_append, ih, marks_complete]

theorem marks_rest_le {s : St} {t : Nat} {i : Instr} {rest : List Instr} (hs : s.prog t = i :: rest)
    (m : Bool) (k u : Nat) : marks m k (if u = t then rest else s.prog u) ≤ marks m k (s.prog u) := by
  split
  · rename_i hu; rw [hu, hs, marks_cons]; exact Nat.le_add_right _ _
  · exact Nat.le_refl _

/-! ### The invariant -/

structure DoneInv (s : St) : Prop where
  /-- a queued request is waiting and its id has been allocated -/
  q1 : ∀ k : Nat, k ∈ s.contReqs.map Prod.fst → s.contSt k = .waiting ∧ k < s.nextCont
  /-- the queued ids are pairwise distinct -/
  q2 : (s.contReqs.map Prod.fst).Nodup
  /-- a pending `contDone k`: `k` is waiting, allocated, not queued, this is the only `contDone k`
      in any program, and no `cancelOrphans` mentions `k` -/
  d1 : ∀ k t : Nat, 1 ≤ marks false k (s.prog t) →
    s.contSt k = .waiting ∧ k < s.nextCont ∧ k ∉ s.contReqs.map Prod.fst ∧
    marks false k (s.prog t) = 1 ∧ (∀ u, u ≠ t → marks false k (s.prog u) = 0) ∧
    ∀ u, marks true k (s.prog u) = 0
  /-- a pending `cancelOrphans ks` with `k ∈ ks`: `k` is allocated and not queued -/
  o1 : ∀ k t : Nat, 1 ≤ marks true k (s.prog t) → k < s.nextCont ∧ k ∉ s.contReqs.map Prod.fst

theorem DoneInv.zero {s : St} (h : DoneInv s) {k : Nat} (hk : k ∈ s.contReqs.map Prod.fst)
    (m : Bool) (u : Nat) : marks m k (s.prog u) = 0 := by
  cases m
  · cases Nat.eq_zero_or_pos (marks false k (s.prog u)) with
    | inl e => exact e
    | inr p => exact absurd hk (h.d1 k u p).2.2.1
  · cases Nat.eq_zero_or_pos (marks true k (s.prog u)) with
    | inl e => exact e
    | inr p => exact absurd hk (h.o1 k u p).2

theorem marks_head_contDone {s : St} {t k : Nat} {rest : List Instr}
    (hs : s.prog t = Instr.contDone k :: rest) : 1 ≤ marks false k (s.prog t) := by
  rw [hs, marks_cons]
  simp [isMark]

theorem contDone_head_waiting (s : St) (h : DoneInv s) (t k : Nat) (rest : List Instr)
    (hs : s.prog t = Instr.contDone k :: rest) : s.contSt k = ContSt.waiting :=
  (h.d1 k t (marks_head_contDone hs)).1

/-! ### Generic preservation: no new marks -/

/-- no program gains a mark; the queue keeps old ids or gains freshly allocated waiting ones;
    `contSt` changes, among the allocated ids, only where nothing is queued and no `contDone`
    is pending -/
theorem doneInv_upd {s s' : St} (h : DoneInv s)
    (hn : s.nextCont ≤ s'.nextCont)
    (hq2 : (s'.contReqs.map Prod.fst).Nodup)
    (hq : ∀ k : Nat, k ∈ s'.contReqs.map Prod.fst →
      k ∈ s.contReqs.map Prod.fst ∨ (s.nextCont ≤ k ∧ k < s'.nextCont ∧ s'.contSt k = .waiting))
    (hm : ∀ m k u, marks m k (s'.prog u) ≤ marks m k (s.prog u))
    (hc : ∀ j : Nat, j < s.nextCont → s'.contSt j ≠ s.contSt j →
      j ∉ s'.contReqs.map Prod.fst ∧ ∀ u, marks false j (s'.prog u) = 0) : DoneInv s' := by
  constructor
  · intro k hk
    rcases hq k hk with ho | ⟨_, b, c⟩
    · obtain ⟨a, b⟩ := h.q1 k ho
      have e : s'.contSt k = s.contSt k := by
        by_cases e : s'.contSt k = s.contSt k
        · exact e
        · exact absurd hk (hc k b e).1
      exact ⟨by rw [e]; exact a, Nat.lt_of_lt_of_le b hn⟩
    · exact ⟨c, b⟩
  · exact hq2
  · intro k t ht
    have hle := hm false k t
    obtain ⟨a1, a2, a3, a4, a5, a6⟩ := h.d1 k t (Nat.le_trans ht hle)
    have e : s'.contSt k = s.contSt k := by
      by_cases e : s'.contSt k = s.contSt k
      · exact e
      · have := (hc k a2 e).2 t; omega
    refine ⟨by rw [e]; exact a1, Nat.lt_of_lt_of_le a2 hn, fun hk => ?_, by omega, fun u hu => ?_, fun u => ?_⟩
    · rcases hq k hk with ho | ⟨b, _, _⟩
      · exact a3 ho
      · omega
    · have := hm false k u
      rw [a5 u hu] at this
      exact Nat.le_zero.mp this
    · have := hm true k u
      rw [a6 u] at this
      exact Nat.le_zero.mp this
  · intro k t ht
    have hle := hm true k t
    obtain ⟨a1, a2⟩ := h.o1 k t (Nat.le_trans ht hle)
    refine ⟨Nat.lt_of_lt_of_le a1 hn, fun hk => ?_⟩
    rcases hq k hk with ho | ⟨b, _, _⟩
    · exact a2 ho
    · omega

/-- `s'` differs from `s` (as far as the invariant can see) only by programs that lost
    instructions or gained mark-free ones -/
structure DFrame (s s' : St) : Prop where
  contReqs : s'.contReqs = s.contReqs
  contSt : s'.contSt = s.contSt
  nextCont : s'.nextCont = s.nextCont
  marks : ∀ m k u, marks m k (s'.prog u) ≤ marks m k (s.prog u)

theorem DFrame.refl (s : St) : DFrame s s := ⟨rfl, rfl, rfl, fun _ _ _ => Nat.le_refl _⟩

theorem doneInv_of_frame {s s' : St} (h : DoneInv s) (f : DFrame s s') : DoneInv s' := by
  refine doneInv_upd h (by rw [f.nextCont]; exact Nat.le_refl _) (by rw [f.contReqs]; exact h.q2)
    (fun k hk => Or.inl (by rw [f.contReqs] at hk; exact hk)) f.marks (fun j _ hj => ?_)
  rw [f.contSt] at hj
  exact absurd rfl hj

theorem dframe_of (s s' : St) (t : Nat)
    (h1 : s'.contReqs = s.contReqs) (h2 : s'.contSt = s.contSt) (h3 : s'.nextCont = s.nextCont)
    (hprog : ∀ u, u ≠ t → s'.prog u = s.prog u)
    (ht : ∀ m k, marks m k (s'.prog t) ≤ marks m k (s.prog t)) : DFrame s s' := by
  refine ⟨h1, h2, h3, fun m k u => ?_⟩
  by_cases hu : u = t
  · rw [hu]; exact ht m k
  · rw [hprog u hu]; exact Nat.le_refl _

/-- the instructions that touch the queue, `contSt`, `nextCont`, or are handled on their own -/
def dSpecial : Instr → Bool
  | .regCont _ | .popCont | .contDone _ | .cancelConts .. | .closeSwap | .cancelOrphans _
  | .idleGo _ | .srv _ | .delByTag .. => true
  | _ => false

theorem exec_dframe (v : Variant) (s : St) (t : Nat) (i : Instr) (rest : List Instr)
    (hs : s.prog t = i :: rest) (hb : dSpecial i = false) : DFrame s (exec v s t i rest) := by
  have hrest : ∀ m k, marks m k rest ≤ marks m k (s.prog t) := by
    intro m k; rw [hs, marks_cons]; exact Nat.le_add_right _ _
  cases i
  case regCont | popCont | contDone | cancelConts | closeSwap | cancelOrphans | idleGo | srv | delByTag =>
    simp [dSpecial] at hb
  all_goals simp only [exec, flushBody]
  all_goals repeat' split
  all_goals
    first
      | exact DFrame.refl s
      | (refine dframe_of s _ t rfl rfl rfl (fun u hu => by simp [setProg_prog, hu]) (fun m k => ?_)
         simp only [setProg_prog, if_true]
         first
           | exact hrest m k
           | (have h1 := hrest m k
              have h2 := marks_dropThrough_le m k isFinalFlush rest
              have h3 := marks_dropThrough_le m k isOpEnd rest
              try simp only [marks_cons, isMark, marks_append, marks_handler, marks_nil, readerExit,
                Bool.false_eq_true, ↓reduceIte, Nat.add_zero]
              omega))

/-! ### The instructions that move request ids -/

@[simp] theorem setProg_nextCont (s : St) (t : Nat) (p : List Instr) : (s.setProg t p).nextCont = s.nextCont := rfl
@[simp] theorem setProg_contSt (s : St) (t : Nat) (p : List Instr) : (s.setProg t p).contSt = s.contSt := rfl
@[simp] theorem updCmd_nextCont (s : St) (c : Nat) (f : CmdRec → CmdRec) : (s.updCmd c f).nextCont = s.nextCont := rfl
@[simp] theorem updCmd_contSt (s : St) (c : Nat) (f : CmdRec → CmdRec) : (s.updCmd c f).contSt = s.contSt := rfl

theorem foldl_setCont_dfields (ks : List Nat) (s : St) :
    (ks.foldl (fun acc k => acc.setCont k .cancelled) s).contReqs = s.contReqs ∧
    (ks.foldl (fun acc k => acc.setCont k .cancelled) s).nextCont = s.nextCont ∧
    (ks.foldl (fun acc k => acc.setCont k .cancelled) s).prog = s.prog ∧
    ∀ j, j ∉ ks → (ks.foldl (fun acc k => acc.setCont k .cancelled) s).contSt j = s.contSt j := by
  induction ks generalizing s with
  | nil => exact ⟨rfl, rfl, rfl, fun _ _ => rfl⟩
  | cons k ks ih =>
    simp only [List.foldl]
    obtain ⟨a, b, c, d⟩ := ih (s.setCont k .cancelled)
    refine ⟨a, b, c, fun j hj => ?_⟩
    rw [d j (fun hm => hj (List.mem_cons_of_mem _ hm))]
    show (if j = k then _ else s.contSt j) = _
    rw [if_neg]
    intro e; apply hj; rw [e]; exact List.mem_cons_self

theorem foldl_setCont2_dfields (ks : List (Nat × Nat)) (x : ContSt) (s : St) :
    (ks.foldl (fun acc kc => acc.setCont kc.1 x) s).contReqs = s.contReqs ∧
    (ks.foldl (fun acc kc => acc.setCont kc.1 x) s).nextCont = s.nextCont ∧
    (ks.foldl (fun acc kc => acc.setCont kc.1 x) s).prog = s.prog ∧
    ∀ j, j ∉ ks.map Prod.fst → (ks.foldl (fun acc kc => acc.setCont kc.1 x) s).contSt j = s.contSt j := by
  induction ks generalizing s with
  | nil => exact ⟨rfl, rfl, rfl, fun _ _ => rfl⟩
  | cons k ks ih =>
    simp only [List.foldl]
    obtain ⟨a, b, c, d⟩ := ih (s.setCont k.1 x)
    refine ⟨a, b, c, fun j hj => ?_⟩
    rw [List.map_cons] at hj
    rw [d j (fun hm => hj (List.mem_cons_of_mem _ hm))]
    show (if j = k.1 then _ else s.contSt j) = _
    rw [if_neg]
    intro e; apply hj; rw [e]; exact List.mem_cons_self

theorem fst_unique {l : List (Nat × Nat)} (h : (l.map Prod.fst).Nodup) {k c1 c2 : Nat}
    (h1 : (k, c1) ∈ l) (h2 : (k, c2) ∈ l) : c1 = c2 := by
  induction l with
  | nil => cases h1
  | cons a l ih =>
    rw [List.map_cons, List.nodup_cons] at h
    rw [List.mem_cons] at h1 h2
    rcases h1 with e1 | m1
    · rcases h2 with e2 | m2
      · rw [← e1] at e2; injection e2 with _ e; exact e.symm
      · exfalso; apply h.1; rw [← e1]; exact List.mem_map.mpr ⟨(k, c2), m2, rfl⟩
    · rcases h2 with e2 | m2
      · exfalso; apply h.1; rw [← e2]; exact List.mem_map.mpr ⟨(k, c1), m1, rfl⟩
      · exact ih h.2 m1 m2

theorem doneInv_contDone {v : Variant} {s : St} (h : DoneInv s) (t k : Nat) (rest : List Instr)
    (hs : s.prog t = .contDone k :: rest) : DoneInv (exec v s t (.contDone k) rest) := by
  simp only [exec]
  split
  · have hk := marks_head_contDone hs
    obtain ⟨a1, a2, a3, a4, a5, a6⟩ := h.d1 k t hk
    have hrest0 : marks false k rest = 0 := by
      rw [hs, marks_cons] at a4
      simp [isMark] at a4
      exact a4
    refine doneInv_upd h (Nat.le_refl _) h.q2 (fun j hj => Or.inl hj)
      (fun m j u => marks_rest_le hs m j u) (fun j _ hj => ?_)
    have e : j = k := by
      by_cases e : j = k
      · exact e
      · exfalso; apply hj
        show (if j = k then _ else s.contSt j) = _
        rw [if_neg e]
    subst e
    refine ⟨a3, fun u => ?_⟩
    show marks false j (if u = t then rest else s.prog u) = 0
    split
    · exact hrest0
    · rename_i hu; exact a5 u hu
  · exact doneInv_of_frame h ⟨rfl, rfl, rfl, fun _ _ _ => Nat.le_refl _⟩

theorem doneInv_cancelOrphans {v : Variant} {s : St} (h : DoneInv s) (t : Nat) (ks : List Nat)
    (rest : List Instr) (hs : s.prog t = .cancelOrphans ks :: rest) :
    DoneInv (exec v s t (.cancelOrphans ks) rest) := by
  simp only [exec]
  obtain ⟨e1, e2, e3, e4⟩ := foldl_setCont_dfields ks s
  refine doneInv_upd h ?_ ?_ (fun j hj => Or.inl ?_) (fun m j u => ?_) (fun j _ hj => ?_)
  · show s.nextCont ≤ (ks.foldl (fun acc k => acc.setCont k .cancelled) s).nextCont
    rw [e2]; exact Nat.le_refl _
  · show ((ks.foldl (fun acc k => acc.setCont k .cancelled) s).contReqs.map Prod.fst).Nodup
    rw [e1]; exact h.q2
  · have hj' : j ∈ (ks.foldl (fun acc k => acc.setCont k .cancelled) s).contReqs.map Prod.fst := hj
    rw [e1] at hj'; exact hj'
  · show marks m j (if u = t then rest else (ks.foldl (fun acc k => acc.setCont k .cancelled) s).prog u) ≤ _
    rw [e3]; exact marks_rest_le hs m j u
  · have hjk : j ∈ ks := by
      by_cases hjk : j ∈ ks
      · exact hjk
      · exact absurd (e4 j hjk) hj
    have ho : 1 ≤ marks true j (s.prog t) := by
      rw [hs, marks_cons]; simp [isMark, hjk]
    obtain ⟨_, b⟩ := h.o1 j t ho
    have hz : ∀ u, marks false j (s.prog u) = 0 := by
      intro u
      cases Nat.eq_zero_or_pos (marks false j (s.prog u)) with
      | inl e => exact e
      | inr p => have := (h.d1 j u p).2.2.2.2.2 t; omega
    constructor
    · show j ∉ (ks.foldl (fun acc k => acc.setCont k .cancelled) s).contReqs.map Prod.fst
      rw [e1]; exact b
    · intro u
      show marks false j (if u = t then rest else (ks.foldl (fun acc k => acc.setCont k .cancelled) s).prog u) = 0
      rw [e3]
      have := marks_rest_le hs false j u
      rw [hz u] at this
      exact Nat.le_zero.mp this

theorem doneInv_cancelConts {v : Variant} {s : St} (h : DoneInv s) (t c : Nat) (r : Res)
    (rest : List Instr) (hs : s.prog t = .cancelConts c r :: rest) :
    DoneInv (exec v s t (.cancelConts c r) rest) := by
  simp only [exec]
  obtain ⟨e1, e2, e3, e4⟩ := foldl_setCont2_dfields (s.contReqs.filter (·.2 = c))
    (if r = .no then .refused else .cancelled) { s with contReqs := s.contReqs.filter (·.2 ≠ c) }
  have hsub : ∀ j, j ∈ (s.contReqs.filter (·.2 ≠ c)).map Prod.fst → j ∈ s.contReqs.map Prod.fst :=
    fun j hj => (List.filter_sublist.map Prod.fst).subset hj
  refine doneInv_upd h ?_ ?_ (fun j hj => Or.inl ?_) (fun m j u => ?_) (fun j _ hj => ?_)
  · rw [setProg_nextCont, updCmd_nextCont, e2]; exact Nat.le_refl _
  · rw [setProg_contReqs, updCmd_contReqs, e1]; exact h.q2.sublist (List.filter_sublist.map Prod.fst)
  · rw [setProg_contReqs, updCmd_contReqs, e1] at hj; exact hsub j hj
  · rw [setProg_prog, updCmd_prog, e3]; exact marks_rest_le hs m j u
  · rw [setProg_contSt, updCmd_contSt] at hj
    have hjg : j ∈ (s.contReqs.filter (·.2 = c)).map Prod.fst := by
      by_cases hjg : j ∈ (s.contReqs.filter (·.2 = c)).map Prod.fst
      · exact hjg
      · exact absurd (e4 j hjg) hj
    have hjq : j ∈ s.contReqs.map Prod.fst := (List.filter_sublist.map Prod.fst).subset hjg
    constructor
    · rw [setProg_contReqs, updCmd_contReqs, e1]
      intro hk
      obtain ⟨⟨j1, c1⟩, m1, f1⟩ := List.mem_map.mp hjg
      obtain ⟨⟨j2, c2⟩, m2, f2⟩ := List.mem_map.mp hk
      have m2' : (j2, c2) ∈ s.contReqs.filter (·.2 ≠ c) := m2
      simp only [List.mem_filter, decide_eq_true_eq, ne_eq] at m1 m2'
      simp only at f1 f2
      subst f1 f2
      have := fst_unique h.q2 m1.1 m2'.1
      exact m2'.2 (by rw [← this]; exact m1.2)
    · intro u
      rw [setProg_prog, updCmd_prog, e3]
      have := marks_rest_le hs false j u
      rw [h.zero hjq false u] at this
      exact Nat.le_zero.mp this

theorem doneInv_regCont {v : Variant} {s : St} (h : DoneInv s) (t c : Nat)
    (rest : List Instr) (hs : s.prog t = .regCont c :: rest) :
    DoneInv (exec v s t (.regCont c) rest) := by
  simp only [exec]
  split
  · exact h
  · split
    · refine doneInv_upd h (Nat.le_succ _) h.q2 (fun j hj => Or.inl hj)
        (fun m j u => marks_rest_le hs m j u) (fun j hlt hj => ?_)
      exfalso; apply hj
      show (if j = s.nextCont then _ else s.contSt j) = _
      rw [if_neg (Nat.ne_of_lt hlt)]
    · refine doneInv_upd h (Nat.le_succ _) ?_ (fun j hj => ?_)
        (fun m j u => marks_rest_le hs m j u) (fun j hlt hj => ?_)
      · show ((s.contReqs ++ [(s.nextCont, c)]).map Prod.fst).Nodup
        rw [List.map_append, List.nodup_append]
        refine ⟨h.q2, by simp, ?_⟩
        intro a ha b hb
        rw [List.map_cons, List.map_nil, List.mem_singleton] at hb
        have := (h.q1 a ha).2
        rw [hb]; exact Nat.ne_of_lt this
      · have hj' : j ∈ (s.contReqs ++ [(s.nextCont, c)]).map Prod.fst := hj
        rw [List.map_append, List.mem_append, List.map_cons, List.map_nil, List.mem_singleton] at hj'
        rcases hj' with ho | hn
        · exact Or.inl ho
        · refine Or.inr ⟨by rw [hn]; exact Nat.le_refl _, by rw [hn]; exact Nat.lt_succ_self _, ?_⟩
          show (if j = s.nextCont then _ else s.contSt j) = _
          rw [if_pos hn]
      · exfalso; apply hj
        show (if j = s.nextCont then _ else s.contSt j) = _
        rw [if_neg (Nat.ne_of_lt hlt)]

/-- abstract form of `popCont` on a non-empty queue -/
theorem doneInv_pop {s s' : St} (h : DoneInv s) (t k c : Nat) (more : List (Nat × Nat)) (rest : List Instr)
    (i : Instr) (hi : ∀ m j, isMark m j i = false)
    (hs : s.prog t = i :: rest) (hq : s.contReqs = (k, c) :: more)
    (hq' : s'.contReqs = more) (hst : s'.contSt = s.contSt) (hn : s'.nextCont = s.nextCont)
    (hp : ∀ u, s'.prog u = if u = t then Instr.contDone k :: rest else s.prog u) : DoneInv s' := by
  have hk : k ∈ s.contReqs.map Prod.fst := by rw [hq]; simp
  have hz := h.zero hk
  have hnd : k ∉ more.map Prod.fst ∧ (more.map Prod.fst).Nodup := by
    have := h.q2; rw [hq, List.map_cons, List.nodup_cons] at this; exact this
  have hsub : ∀ j, j ∈ more.map Prod.fst → j ∈ s.contReqs.map Prod.fst := by
    intro j hj; rw [hq, List.map_cons]; exact List.mem_cons_of_mem _ hj
  have hne : ∀ m j u, j ≠ k → marks m j (s'.prog u) ≤ marks m j (s.prog u) := by
    intro m j u hj
    rw [hp]
    split
    · rename_i hu
      rw [hu, hs, marks_cons, marks_cons, hi]
      simp [isMark, Ne.symm hj]
    · exact Nat.le_refl _
  have hrest0 : ∀ m, marks m k rest = 0 := by
    intro m; have := hz m t; rw [hs, marks_cons] at this; omega
  have hkt : marks false k (s'.prog t) = 1 := by
    rw [hp, if_pos rfl, marks_cons, hrest0]; simp [isMark]
  have hkt' : marks true k (s'.prog t) = 0 := by
    rw [hp, if_pos rfl, marks_cons, hrest0]; simp [isMark]
  have hku : ∀ m u, u ≠ t → marks m k (s'.prog u) = 0 := by
    intro m u hu; rw [hp, if_neg hu]; exact hz m u
  constructor
  · intro j hj
    rw [hq'] at hj
    rw [hst, hn]
    exact h.q1 j (hsub j hj)
  · rw [hq']; exact hnd.2
  · intro j u hj
    rw [hst, hn, hq']
    by_cases e : j = k
    · subst e
      have hu : u = t := by
        by_cases hu : u = t
        · exact hu
        · rw [hku false u hu] at hj; omega
      subst hu
      obtain ⟨a, b⟩ := h.q1 j hk
      refine ⟨a, b, hnd.1, hkt, fun w hw => hku false w hw, fun w => ?_⟩
      by_cases hw : w = u
      · rw [hw]; exact hkt'
      · exact hku true w hw
    · have hle := hne false j u e
      obtain ⟨a1, a2, a3, a4, a5, a6⟩ := h.d1 j u (Nat.le_trans hj hle)
      refine ⟨a1, a2, fun hm => a3 (hsub j hm), by omega, fun w hw => ?_, fun w => ?_⟩
      · have := hne false j w e; rw [a5 w hw] at this; exact Nat.le_zero.mp this
      · have := hne true j w e; rw [a6 w] at this; exact Nat.le_zero.mp this
  · intro j u hj
    rw [hn, hq']
    have e : j ≠ k := by
      intro e; subst e
      by_cases hu : u = t
      · rw [hu, hkt'] at hj; omega
      · rw [hku true u hu] at hj; omega
    obtain ⟨a, b⟩ := h.o1 j u (Nat.le_trans hj (hne true j u e))
    exact ⟨a, fun hm => b (hsub j hm)⟩

theorem doneInv_popCont {v : Variant} {s : St} (h : DoneInv s) (t : Nat)
    (rest : List Instr) (hs : s.prog t = .popCont :: rest) :
    DoneInv (exec v s t .popCont rest) := by
  simp only [exec]
  split
  · refine doneInv_of_frame h (dframe_of s _ t rfl rfl rfl (fun u hu => by simp [setProg_prog, hu]) (fun m k => ?_))
    rw [setProg_prog, if_pos rfl, marks_readerExit]; exact Nat.zero_le _
  · rename_i k c more hq
    exact doneInv_pop h t k c more rest .popCont (fun _ _ => rfl) hs hq rfl rfl rfl (fun _ => rfl)

/-- abstract form of `closeSwap` with `cancelOnClose` -/
theorem doneInv_swap {s s' : St} (h : DoneInv s) (t : Nat) (comp rest : List Instr) (i : Instr)
    (hcomp : ∀ m k, marks m k comp = 0)
    (hs : s.prog t = i :: rest)
    (hq' : s'.contReqs = []) (hst : s'.contSt = s.contSt) (hn : s'.nextCont = s.nextCont)
    (hp : ∀ u, s'.prog u =
      if u = t then comp ++ Instr.cancelOrphans (s.contReqs.map Prod.fst) :: rest else s.prog u) :
    DoneInv s' := by
  have hrest : ∀ m k, marks m k rest ≤ marks m k (s.prog t) := by
    intro m k; rw [hs, marks_cons]; exact Nat.le_add_right _ _
  have hF : ∀ j u, marks false j (s'.prog u) ≤ marks false j (s.prog u) := by
    intro j u
    rw [hp]
    split
    · rename_i hu
      rw [hu, marks_append, hcomp, marks_cons]
      have := hrest false j
      simp [isMark]
      exact this
    · exact Nat.le_refl _
  have hT : ∀ j, marks true j (s'.prog t) =
      marks true j rest + (if j ∈ s.contReqs.map Prod.fst then 1 else 0) := by
    intro j
    rw [hp, if_pos rfl, marks_append, hcomp, marks_cons]
    by_cases hm : j ∈ s.contReqs.map Prod.fst <;> simp [isMark, hm]
  have hTu : ∀ j u, u ≠ t → marks true j (s'.prog u) = marks true j (s.prog u) := by
    intro j u hu; rw [hp, if_neg hu]
  constructor
  · intro j hj; rw [hq'] at hj; cases hj
  · rw [hq']; exact List.nodup_nil
  · intro j u hj
    rw [hst, hn, hq']
    have hle := hF j u
    obtain ⟨a1, a2, a3, a4, a5, a6⟩ := h.d1 j u (Nat.le_trans hj hle)
    refine ⟨a1, a2, List.not_mem_nil, by omega, fun w hw => ?_, fun w => ?_⟩
    · have := hF j w; rw [a5 w hw] at this; exact Nat.le_zero.mp this
    · by_cases hw : w = t
      · rw [hw, hT, if_neg a3]
        have := hrest true j
        have := a6 t
        omega
      · rw [hTu j w hw]; exact a6 w
  · intro j u hj
    rw [hn, hq']
    refine ⟨?_, List.not_mem_nil⟩
    by_cases hu : u = t
    · rw [hu, hT] at hj
      by_cases hm : j ∈ s.contReqs.map Prod.fst
      · exact (h.q1 j hm).2
      · rw [if_neg hm] at hj
        have := hrest true j
        exact (h.o1 j t (by omega)).1
    · rw [hTu j u hu] at hj
      exact (h.o1 j u hj).1

theorem doneInv_closeSwap {v : Variant} {s : St} (h : DoneInv s) (t : Nat)
    (rest : List Instr) (hs : s.prog t = .closeSwap :: rest) :
    DoneInv (exec v s t .closeSwap rest) := by
  have hrest : ∀ m k, marks m k rest ≤ marks m k (s.prog t) := by
    intro m k; rw [hs, marks_cons]; exact Nat.le_add_right _ _
  simp only [exec]
  split
  · exact doneInv_swap h t _ rest .closeSwap (fun m k => marks_completions m k _ _ _) hs rfl rfl rfl
      (fun _ => rfl)
  · refine doneInv_of_frame h (dframe_of s _ t rfl rfl rfl (fun u hu => by simp [setProg_prog, hu]) (fun m k => ?_))
    rw [setProg_prog, if_pos rfl, marks_append, marks_completions, Nat.zero_add]
    exact hrest m k

theorem doneInv_delByTag {v : Variant} {s : St} (h : DoneInv s) (t tag : Nat) (rep : Reply) (caps : Bool)
    (rest : List Instr) (hs : s.prog t = .delByTag tag rep caps :: rest) :
    DoneInv (exec v s t (.delByTag tag rep caps) rest) := by
  have hrest : ∀ m k, marks m k rest ≤ marks m k (s.prog t) := by
    intro m k; rw [hs, marks_cons]; exact Nat.le_add_right _ _
  simp only [exec]
  split
  · refine doneInv_of_frame h (dframe_of s _ t rfl rfl rfl (fun u hu => by simp [setProg_prog, hu]) (fun m k => ?_))
    rw [setProg_prog, if_pos rfl, marks_readerExit]; exact Nat.zero_le _
  · refine doneInv_of_frame h (dframe_of s _ t rfl rfl rfl (fun u hu => by simp [setProg_prog, hu]) (fun m k => ?_))
    rw [setProg_prog, if_pos rfl, marks_append, marks_append, marks_complete]
    have : marks m k (if caps = true then [Instr.setCaps] else []) = 0 := by split <;> rfl
    rw [this]
    have := hrest m k
    omega

theorem doneInv_idleGo {v : Variant} {s : St} (h : DoneInv s) (t c : Nat) (rest : List Instr)
    (hs : s.prog t = .idleGo c :: rest) : DoneInv (exec v s t (.idleGo c) rest) := by
  simp only [exec]
  split
  · exact h
  refine doneInv_of_frame h ⟨rfl, rfl, rfl, fun m k u => ?_⟩
  simp only [setProg_prog]
  split
  · exact Nat.zero_le _
  · split
    · rename_i hu; rw [hu, hs, marks_cons]; exact Nat.le_add_right _ _
    · exact Nat.le_refl _

theorem deliver_dframe (s : St) (l : Line) :
    (deliver s l).contReqs = s.contReqs ∧ (deliver s l).contSt = s.contSt ∧
    (deliver s l).nextCont = s.nextCont ∧ (deliver s l).prog = s.prog := by
  unfold deliver; split <;> exact ⟨rfl, rfl, rfl, rfl⟩

theorem doneInv_srv {v : Variant} {s : St} (h : DoneInv s) (t : Nat) (a : SrvAct) (rest : List Instr)
    (hs : s.prog t = .srv a :: rest) : DoneInv (exec v s t (.srv a) rest) := by
  have hrest : ∀ m k, marks m k rest ≤ marks m k (s.prog t) := by
    intro m k; rw [hs, marks_cons]; exact Nat.le_add_right _ _
  simp only [exec]
  split
  · exact h
  · cases a <;> simp only [execSrv]
    case reply rep oldest =>
      split
      · exact h
      · obtain ⟨d1, d2, d3, d4⟩ := deliver_dframe s (.tagged (s.cmd _).ltag rep _)
        refine doneInv_of_frame h (dframe_of s _ t d1 d2 d3 (fun u hu => ?_) (fun m k => ?_))
        · rw [setProg_prog, if_neg hu]; show (deliver s _).prog u = _; rw [d4]
        · rw [setProg_prog, if_pos rfl]; exact hrest m k
    case cont =>
      split
      · exact h
      · obtain ⟨d1, d2, d3, d4⟩ := deliver_dframe s .cont
        refine doneInv_of_frame h (dframe_of s _ t d1 d2 d3 (fun u hu => ?_) (fun m k => ?_))
        · rw [setProg_prog, if_neg hu]; show (deliver s _).prog u = _; rw [d4]
        · rw [setProg_prog, if_pos rfl]; exact hrest m k
    case enabled =>
      obtain ⟨d1, d2, d3, d4⟩ := deliver_dframe s .enabled
      refine doneInv_of_frame h (dframe_of s _ t d1 d2 d3 (fun u hu => ?_) (fun m k => ?_))
      · rw [setProg_prog, if_neg hu, d4]
      · rw [setProg_prog, if_pos rfl]; exact hrest m k
    case close =>
      exact doneInv_of_frame h (dframe_of s _ t rfl rfl rfl (fun u hu => by simp [setProg_prog, hu])
        (fun m k => by rw [setProg_prog, if_pos rfl]; exact hrest m k))
    case rerr =>
      exact doneInv_of_frame h (dframe_of s _ t rfl rfl rfl (fun u hu => by simp [setProg_prog, hu])
        (fun m k => by rw [setProg_prog, if_pos rfl]; exact hrest m k))

theorem doneInv_skipCaps {s : St} (h : DoneInv s) (t : Nat) : DoneInv (skipCaps s t) := by
  unfold skipCaps
  split
  · rename_i record rest hs
    split
    · refine doneInv_of_frame h (dframe_of s _ t ?_ ?_ ?_ (fun u hu => ?_) (fun m k => ?_))
      · split <;> rfl
      · split <;> rfl
      · split <;> rfl
      · rw [setProg_prog, if_neg hu]; split <;> rfl
      · rw [setProg_prog, if_pos rfl, hs, marks_cons, marks_cons]; omega
    · exact h
  · exact h

theorem doneInv_step (v : Variant) (s : St) (t : Nat) (h : DoneInv s) : DoneInv (step v s t) := by
  unfold step
  split
  · exact h
  · split
    · split
      · exact doneInv_skipCaps h _
      · exact h
    · split
      · exact h
      · split
        · exact h
        · rename_i i rest hs
          cases hi : dSpecial i
          · exact doneInv_of_frame h (exec_dframe v s t i rest hs hi)
          · cases i <;> simp [dSpecial] at hi
            · exact doneInv_regCont h t _ rest hs
            · exact doneInv_idleGo h t _ rest hs
            · exact doneInv_closeSwap h t rest hs
            · exact doneInv_cancelOrphans h t _ rest hs
            · exact doneInv_cancelConts h t _ _ rest hs
            · exact doneInv_delByTag h t _ _ _ rest hs
            · exact doneInv_popCont h t rest hs
            · exact doneInv_contDone h t _ rest hs
            · exact doneInv_srv h t _ rest hs

theorem doneInv_run_of (v : Variant) (sched : List Nat) (s : St) (h : DoneInv s) :
    DoneInv (run v s sched) := by
  induction sched generalizing s with
  | nil => exact h
  | cons t ts ih => exact ih (step v s t) (doneInv_step v s t h)

/-! ### The initial state -/

theorem marks_map_srv (m : Bool) (k : Nat) (l : List SrvAct) : marks m k (l.map Instr.srv) = 0 := by
  induction l with
  | nil => rfl
  | cons a l ih => rw [List.map_cons, marks_cons, ih]; rfl

theorem marks_closerProg (m : Bool) (k n : Nat) : marks m k (closerProg n) = 0 := by
  induction n with
  | zero => rfl
  | succ n ih => rw [closerProg, marks_cons, marks_cons, ih]; rfl

theorem marks_obsProg (m : Bool) (k : Nat) (l : List Nat) : marks m k (obsProg l) = 0 := by
  induction l with
  | nil => rfl
  | cons a l ih =>
    match a with
    | 0 => rw [obsProg, marks_cons, ih]; rfl
    | 1 => rw [obsProg, marks_cons, ih]; rfl
    | (n + 2) => rw [obsProg, marks_cons, marks_cons, ih]; rfl
                 all_goals omega

theorem marks_opProg (m : Bool) (k : Nat) (v : Variant) (kd : Kind) (d : Nat) :
    marks m k (opProg v kd d) = 0 := by
  cases kd <;> simp only [opProg] <;> (try split) <;> rfl

theorem marks_progOfKinds (m : Bool) (k : Nat) (v : Variant) (ks : List Kind) (d : Nat) :
    marks m k (progOfKinds v ks d) = 0 := by
  induction ks generalizing d with
  | nil => rfl
  | cons kd ks ih => rw [progOfKinds, marks_append, marks_opProg, ih]

theorem marks_init (m : Bool) (k : Nat) (v : Variant) (sc : Scenario) (t : Nat) :
    marks m k ((init v sc).prog t) = 0 := by
  simp only [init]
  split
  · rfl
  · split
    · exact marks_map_srv m k _
    · split
      · exact marks_closerProg m k _
      · split
        · exact marks_obsProg m k _
        · split
          · unfold subProg; split
            · rfl
            · exact marks_progOfKinds m k v _ _
          · rfl

theorem doneInv_init (v : Variant) (sc : Scenario) : DoneInv (init v sc) := by
  constructor
  · intro k hk; cases hk
  · exact List.nodup_nil
  · intro k t h; rw [marks_init] at h; omega
  · intro k t h; rw [marks_init] at h; omega

/-- the invariant holds after every schedule, for every variant and scenario -/
theorem doneInv_run (v : Variant) (sc : Scenario) (sched : List Nat) :
    DoneInv (run v (init v sc) sched) :=
  doneInv_run_of v sched _ (doneInv_init v sc)

/-- `contDone` never takes its crashing branch in a reachable state -/
theorem contDone_no_crash (v : Variant) (sc : Scenario) (sched : List Nat) (t k : Nat) (rest : List Instr)
    (hs : (run v (init v sc) sched).prog t = Instr.contDone k :: rest) :
    (exec v (run v (init v sc) sched) t (.contDone k) rest).crashed = (run v (init v sc) sched).crashed := by
  have hw := contDone_head_waiting _ (doneInv_run v sc sched) t k rest hs
  simp only [exec, hw, if_true]
  rfl

end GoImap.ClientConc
