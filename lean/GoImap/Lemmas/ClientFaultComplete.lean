/-
  C10 helper lemmas, part 4: a command's result is success only if its tagged completion was among
  the delivered tokens, i.e. (repaired tokenizer) was fully received.
-/
import GoImap.Lemmas.ClientFaultDrain
import GoImap.Spec.ClientFault
import GoImap.Drive.C10
import Mathlib.Tactic.SplitIfs
namespace GoImap.ClientFaultLemmas
open GoImap.ClientFault

/-- what a step may do to the input and to successful results: the input only shrinks, and a
    result becomes `some true` only by consuming that command's tagged OK (or, legacy, `early`) -/
def ResOK (s s' : St) : Prop :=
  (∀ t ∈ s'.inbox, t ∈ s.inbox) ∧
  (∀ c x', s'.cmds[c]? = some x' → x'.result = some true →
    (∃ x, s.cmds[c]? = some x ∧ x.result = some true) ∨ Tok.tagged c true ∈ s.inbox ∨ Tok.early c true ∈ s.inbox)

theorem ResOK.same {s s' : St} (h1 : s'.inbox = s.inbox) (h2 : s'.cmds = s.cmds) : ResOK s s' :=
  ⟨fun t ht => by rw [← h1]; exact ht, fun c x' hx hr => Or.inl ⟨x', by rw [← h2]; exact hx, hr⟩⟩

theorem ResOK.trans {a b c : St} (h1 : ResOK a b) (h2 : ResOK b c) : ResOK a c := by
  refine ⟨fun t ht => h1.1 t (h2.1 t ht), ?_⟩
  intro i x' hx hr
  rcases h2.2 i x' hx hr with ⟨y, hy, hyr⟩ | h | h
  · exact h1.2 i y hy hyr
  · exact Or.inr (Or.inl (h1.1 _ h))
  · exact Or.inr (Or.inr (h1.1 _ h))

theorem ResOK.record {s t : St} (c : Cls) (h : ResOK s t) : ResOK s (record t c) := by
  obtain ⟨f1, f2, _⟩ := record_fields t c
  exact h.trans (ResOK.same f2 f1)

theorem failAll_res {l : List Cmd} {c : Nat} {y : Cmd} (hy : (failAll l)[c]? = some y)
    (hr : y.result = some true) : ∃ x, l[c]? = some x ∧ x.result = some true := by
  simp only [failAll, List.getElem?_map, Option.map_eq_some_iff] at hy
  obtain ⟨x, hx, rfl⟩ := hy
  refine ⟨x, hx, ?_⟩
  split_ifs at hr with hp
  · simp [cancelCont, completeOne] at hr
  · exact hr

/-- closing / failing everything never creates a success -/
theorem ResOK.fail {s s' : St} (h1 : s'.inbox = []) (h2 : s'.cmds = failAll s.cmds) : ResOK s s' := by
  refine ⟨fun t ht => by rw [h1] at ht; simp at ht, ?_⟩
  intro c x' hx hr
  rw [h2] at hx
  exact Or.inl (failAll_res hx hr)

theorem ResOK.closeConn {s s' : St} (h1 : s'.inbox = []) (h2 : s'.cmds = s.cmds) : ResOK s s' :=
  ⟨fun t ht => by rw [h1] at ht; simp at ht, fun c x' hx hr => Or.inl ⟨x', by rw [← h2]; exact hx, hr⟩⟩

/-- replacing command c by a record with the same result -/
theorem ResOK.set {s s' : St} {c : Nat} {x x' : Cmd} (hx : s.cmds[c]? = some x) (hres : x'.result = x.result)
    (h1 : ∀ t ∈ s'.inbox, t ∈ s.inbox) (h2 : s'.cmds = s.cmds.set c x') : ResOK s s' := by
  refine ⟨h1, ?_⟩
  intro i y hy hr
  rw [h2] at hy
  by_cases hic : c = i
  · subst hic
    rw [getElem?_set_self' hx] at hy
    cases hy
    exact Or.inl ⟨x, hx, by rw [← hres]; exact hr⟩
  · rw [List.getElem?_set_ne hic] at hy
    exact Or.inl ⟨y, hy, hr⟩

theorem issueCmd_resOK (s : St) (c : Nat) (x : Cmd) (wc : Bool) (hx : s.cmds[c]? = some x) :
    ResOK s (issueCmd s c x wc) := by
  rw [issueCmd_eq]
  have h0 : ResOK s { s with cmds := s.cmds.set c (issued1 x wc) } :=
    ResOK.set (x' := issued1 x wc) hx rfl (fun t ht => ht) rfl
  split_ifs
  · refine h0.trans ⟨fun t ht => ht, ?_⟩
    intro i y hy hr
    exact Or.inl (failAll_res hy hr)
  · exact h0

theorem step_resOK {s s' : St} (hs : Step s s') : ResOK s s' := by
  obtain ⟨r, hr, hs⟩ := hs
  simp only [rules, List.mem_cons, List.mem_nil_iff, or_false] at hr
  rcases hr with rfl | rfl | rfl | rfl | rfl | rfl | rfl | rfl | rfl | rfl | rfl | rfl | rfl | rfl | rfl
  · -- cStart
    simp only [cStart] at hs
    split_ifs at hs
    split at hs
    · simp at hs
    · rename_i ph rest hprog
      simp only [Option.some.injEq] at hs; subst hs
      have hrec : ∀ cl, ResOK s (ClientFault.record s cl) := fun cl => ResOK.record cl (ResOK.same rfl rfl)
      have hrecm : ∀ cl, ResOK s (ClientFault.record { s with mutex := false } cl) :=
        fun cl => ResOK.record cl (ResOK.same rfl rfl)
      have hiss : ∀ (c : Nat) (x : Cmd) (wc m : Bool) (p : Pos), s.cmds[c]? = some x →
          ResOK s { issueCmd s c x wc with mutex := m, pos := p } :=
        fun c x wc m p hx => (issueCmd_resOK s c x wc hx).trans (ResOK.same rfl rfl)
      cases ph <;> simp only [startPhase, consume, issueBlocking]
      · exact ResOK.same rfl rfl
      · split
        · rename_i x hx
          split_ifs
          · exact hrec _
          · exact ResOK.record _ (issueCmd_resOK s _ x false hx)
        · exact hrec _
      · split
        · split_ifs
          · exact hrec _
          · exact ResOK.same rfl rfl
        · exact hrec _
      · split
        · split_ifs
          · exact ResOK.same rfl rfl
          · exact hrec _
        · exact hrec _
      · split
        · split_ifs
          · exact ResOK.same rfl rfl
          · exact hrec _
        · exact hrec _
      · split
        · split_ifs
          · exact ResOK.same rfl rfl
          · exact hrec _
        · exact hrec _
      · split
        · rename_i x hx
          split_ifs
          · exact hiss _ x _ _ _ hx
          · exact hrec _
        · exact hrec _
      · split
        · rename_i x hx
          split_ifs
          · exact hiss _ x _ _ _ hx
          · exact hrec _
        · exact hrec _
      · split
        · split_ifs
          · exact hrecm _
          · exact hrec _
        · exact hrec _
      · exact hrecm _
      · split
        · rename_i x hx
          split_ifs
          · exact hiss _ x _ _ _ hx
          · exact hrec _
        · exact hrec _
      · split
        · rename_i x hx
          split_ifs
          · exact hiss _ x _ _ _ hx
          · exact hrec _
        · exact hrec _
  · -- cGreet
    simp only [cGreet] at hs
    split_ifs at hs
    simp only [Option.some.injEq] at hs; subst hs
    exact ResOK.record _ (ResOK.same rfl rfl)
  · -- cRes
    simp only [cRes] at hs
    split at hs
    · split at hs
      · split at hs
        · split_ifs at hs
          · simp only [Option.some.injEq] at hs; subst hs; exact ResOK.same rfl rfl
          · simp only [Option.some.injEq] at hs; subst hs; exact ResOK.record _ (ResOK.closeConn rfl rfl)
          · simp only [Option.some.injEq] at hs; subst hs; exact ResOK.record _ (ResOK.same rfl rfl)
        · simp at hs
      · simp at hs
    · simp at hs
  · -- cTls
    simp only [cTls] at hs
    split at hs
    · split_ifs at hs
      simp only [Option.some.injEq] at hs; subst hs; exact ResOK.record _ (ResOK.same rfl rfl)
    · simp at hs
  · -- cMsgs
    simp only [cMsgs] at hs
    split at hs
    · split at hs
      · split_ifs at hs
        · simp only [Option.some.injEq] at hs; subst hs; exact ResOK.same rfl rfl
        · simp only [Option.some.injEq] at hs; subst hs; exact ResOK.same rfl rfl
        · simp only [Option.some.injEq] at hs; subst hs; exact ResOK.record _ (ResOK.same rfl rfl)
      · simp at hs
    · simp at hs
  · -- cItems
    simp only [cItems] at hs
    split at hs
    · split at hs
      · simp only [Option.some.injEq] at hs; subst hs; exact ResOK.same rfl rfl
      · simp only [Option.some.injEq] at hs; subst hs; exact ResOK.same rfl rfl
      · simp at hs
    · simp at hs
  · -- cLit
    simp only [cLit] at hs
    split at hs
    · split_ifs at hs
      · simp only [Option.some.injEq] at hs; subst hs; exact ResOK.same rfl rfl
      · split at hs
        · simp at hs
        · simp only [Option.some.injEq] at hs; subst hs; exact ResOK.same rfl rfl
        · simp only [Option.some.injEq] at hs; subst hs; exact ResOK.same rfl rfl
    · simp at hs
  · -- cCont
    simp only [cCont] at hs
    split at hs
    · split at hs
      · rename_i x hx
        split at hs
        · simp only [Option.some.injEq] at hs; subst hs; exact ResOK.record _ (ResOK.same rfl rfl)
        · simp only [Option.some.injEq] at hs; subst hs; exact ResOK.record _ (ResOK.same rfl rfl)
        · simp only [Option.some.injEq] at hs; subst hs; exact ResOK.record _ (ResOK.same rfl rfl)
        · simp only [Option.some.injEq] at hs; subst hs; exact ResOK.record _ (ResOK.same rfl rfl)
        · simp only [Option.some.injEq] at hs; subst hs; exact ResOK.record _ (ResOK.same rfl rfl)
        · simp only [Option.some.injEq] at hs; subst hs; exact ResOK.record _ (ResOK.same rfl rfl)
        · split_ifs at hs
          · simp only [Option.some.injEq] at hs; subst hs; exact ResOK.record _ (ResOK.same rfl rfl)
          · simp only [Option.some.injEq] at hs; subst hs
            exact ResOK.set (x := x) (x' := { x with cont := Cont.waiting }) hx rfl (fun t ht => ht) rfl
        · simp only [Option.some.injEq] at hs; subst hs; exact ResOK.same rfl rfl
        · simp at hs
      · simp at hs
    · simp at hs
  · -- rTok
    simp only [rTok] at hs
    split_ifs at hs
    split at hs
    · rename_i r hin
      simp only [Option.some.injEq] at hs; subst hs
      exact ⟨fun t ht => by rw [hin]; exact List.mem_cons_of_mem _ ht, fun c x' hx hr => Or.inl ⟨x', hx, hr⟩⟩
    · rename_i r hin
      simp only [Option.some.injEq] at hs; subst hs
      exact ⟨fun t ht => by rw [hin]; exact List.mem_cons_of_mem _ ht, fun c x' hx hr => Or.inl ⟨x', hx, hr⟩⟩
    · rename_i c r hin
      split at hs
      · rename_i x hx
        split_ifs at hs
        simp only [Option.some.injEq] at hs; subst hs
        exact ResOK.set (x := x) (x' := { x with cont := Cont.granted }) hx rfl
          (fun t ht => by rw [hin]; exact List.mem_cons_of_mem _ ht) rfl
      · simp at hs
    · rename_i c ok r hin
      split at hs
      · rename_i x hx
        split_ifs at hs
        simp only [Option.some.injEq] at hs; subst hs
        refine ⟨fun t ht => by rw [hin]; exact List.mem_cons_of_mem _ ht, ?_⟩
        intro i y hy hr
        have hx' : s.cmds[c]? = some x := hx
        simp only [setCmd] at hy
        by_cases hic : c = i
        · subst hic
          rw [getElem?_set_self' hx'] at hy
          cases hy
          have hok : ok = true := by simpa [completeOne] using hr
          subst hok
          exact Or.inr (Or.inl (by rw [hin]; exact List.mem_cons_self))
        · rw [List.getElem?_set_ne hic] at hy
          exact Or.inl ⟨y, hy, hr⟩
      · simp at hs
    · rename_i c ok r hin
      split at hs
      · rename_i x hx
        split_ifs at hs
        simp only [Option.some.injEq] at hs; subst hs
        refine ⟨fun t ht => by rw [hin]; exact List.mem_cons_of_mem _ ht, ?_⟩
        intro i y hy hr
        have hx' : s.cmds[c]? = some x := hx
        simp only [setCmd] at hy
        by_cases hic : c = i
        · subst hic
          rw [getElem?_set_self' hx'] at hy
          cases hy
          have hok : ok = true := by simpa [completeOne] using hr
          subst hok
          exact Or.inr (Or.inr (by rw [hin]; exact List.mem_cons_self))
        · rw [List.getElem?_set_ne hic] at hy
          exact Or.inl ⟨y, hy, hr⟩
      · simp at hs
    · rename_i c n got r hin
      split at hs
      · split_ifs at hs
        simp only [Option.some.injEq] at hs; subst hs
        exact ⟨fun t ht => by rw [hin]; exact List.mem_cons_of_mem _ ht, fun c x' hx hr => Or.inl ⟨x', hx, hr⟩⟩
      · simp at hs
    · rename_i r hin
      simp only [Option.some.injEq] at hs; subst hs
      exact ⟨fun t ht => by rw [hin]; exact List.mem_cons_of_mem _ ht, fun c x' hx hr => Or.inl ⟨x', hx, hr⟩⟩
    · simp at hs
    · simp at hs
  · -- rResume
    simp only [rResume] at hs
    split_ifs at hs
    simp only [Option.some.injEq] at hs; subst hs; exact ResOK.same rfl rfl
  · -- rFail
    simp only [rFail] at hs
    split_ifs at hs
    simp only [Option.some.injEq] at hs; subst hs; exact ResOK.fail rfl rfl
  · -- kClose
    simp only [kClose] at hs
    split_ifs at hs
    simp only [Option.some.injEq] at hs; subst hs; exact ResOK.closeConn rfl rfl
  · -- kRet
    simp only [kRet] at hs
    split_ifs at hs
    simp only [Option.some.injEq] at hs; subst hs; exact ResOK.same rfl rfl
  · -- pFire
    simp only [pFire] at hs
    split_ifs at hs
    simp only [Option.some.injEq] at hs; subst hs; exact ResOK.fail rfl rfl
  · -- kFinal
    simp only [kFinal] at hs
    split_ifs at hs
    simp only [Option.some.injEq] at hs; subst hs; exact ResOK.same rfl rfl


/-! ### the tokenizer -/

/-- tokens that neither complete a command nor are legacy artefacts -/
def Plain (t : Tok) : Prop := (∀ c ok, t ≠ .tagged c ok) ∧ (∀ c ok, t ≠ .early c ok)

theorem fetchFull_plain (c : Nat) (segs : List Seg) : ∀ t ∈ fetchFull c segs, Plain t := by
  induction segs with
  | nil => intro t ht; simp only [fetchFull, List.mem_singleton] at ht; subst ht; exact ⟨by simp, by simp⟩
  | cons sg r ih =>
    intro t ht
    cases sg with
    | txt n => exact ih t (by simpa [fetchFull] using ht)
    | lit n =>
      simp only [fetchFull, List.mem_cons] at ht
      rcases ht with rfl | ht
      · exact ⟨by simp, by simp⟩
      · exact ih t ht

theorem fetchToks_plain (c : Nat) (segs : List Seg) : ∀ got, ∀ t ∈ fetchToks c segs got, Plain t := by
  induction segs with
  | nil => intro got t ht; simp only [fetchToks, List.mem_singleton] at ht; subst ht; exact ⟨by simp, by simp⟩
  | cons sg r ih =>
    intro got t ht
    cases sg with
    | txt n =>
      simp only [fetchToks] at ht
      split_ifs at ht
      · simp only [List.mem_singleton] at ht; subst ht; exact ⟨by simp, by simp⟩
      · exact ih _ t ht
    | lit n =>
      simp only [fetchToks] at ht
      split_ifs at ht
      · simp only [List.mem_singleton] at ht; subst ht; exact ⟨by simp, by simp⟩
      · simp only [List.mem_cons] at ht
        rcases ht with rfl | ht
        · exact ⟨by simp, by simp⟩
        · exact ih _ t ht

theorem partToks_plain (it : Item) (got : Nat) : ∀ t ∈ partToks false it got, Plain t := by
  intro t ht
  cases it with
  | tagged c ok len head =>
    simp only [partToks, Bool.false_and, Bool.false_eq_true, if_false, List.mem_singleton] at ht
    subst ht; exact ⟨by simp, by simp⟩
  | fetch c segs => exact fetchToks_plain c segs got t (by simpa [partToks] using ht)
  | greet n => simp only [partToks, List.mem_singleton] at ht; subst ht; exact ⟨by simp, by simp⟩
  | line n => simp only [partToks, List.mem_singleton] at ht; subst ht; exact ⟨by simp, by simp⟩
  | cont c n => simp only [partToks, List.mem_singleton] at ht; subst ht; exact ⟨by simp, by simp⟩

theorem fullToks_noEarly (it : Item) : ∀ t ∈ fullToks it, ∀ c ok, t ≠ .early c ok := by
  intro t ht c ok
  cases it with
  | fetch d segs => exact (fetchFull_plain d segs t (by simpa [fullToks] using ht)).2 c ok
  | tagged d ok' len head => simp only [fullToks, List.mem_singleton] at ht; subst ht; simp
  | greet n => simp only [fullToks, List.mem_singleton] at ht; subst ht; simp
  | line n => simp only [fullToks, List.mem_singleton] at ht; subst ht; simp
  | cont d n => simp only [fullToks, List.mem_singleton] at ht; subst ht; simp

theorem tagged_mem_fullToks {it : Item} {c : Nat} (h : Tok.tagged c true ∈ fullToks it) :
    ∃ len head, it = .tagged c true len head := by
  cases it with
  | fetch d segs => exact absurd rfl ((fetchFull_plain d segs _ (by simpa [fullToks] using h)).1 c true)
  | tagged d ok len head =>
    simp only [fullToks, List.mem_singleton, Tok.tagged.injEq] at h
    obtain ⟨rfl, rfl⟩ := h
    exact ⟨len, head, rfl⟩
  | greet n => simp [fullToks] at h
  | line n => simp [fullToks] at h
  | cont d n => simp [fullToks] at h

theorem tokenize_noEarly (items : List Item) : ∀ k, NoEarly (tokenize false items k).1 := by
  induction items with
  | nil => intro k c ok h; simp [tokenize] at h
  | cons it r ih =>
    intro k c ok h
    simp only [tokenize] at h
    split_ifs at h with h0 h1
    · simp at h
    · simp only [List.mem_append] at h
      rcases h with h | h
      · exact fullToks_noEarly it _ h c ok rfl
      · exact ih _ c ok h
    · exact (partToks_plain it k _ h).2 c ok rfl

theorem toResp_len (it : Item) : (DriveC10.toResp it).len = it.len := by
  cases it <;> rfl

/-- a tagged OK among the delivered tokens means that the response line lies before the cut -/
theorem tagged_mem_complete (items : List Item) : ∀ (k off c : Nat),
    Tok.tagged c true ∈ (tokenize false items k).1 →
    ∃ e, ClientFaultSpec.completionEnd c (items.map DriveC10.toResp) off = some e ∧ e ≤ off + k := by
  induction items with
  | nil => intro k off c h; simp [tokenize] at h
  | cons it r ih =>
    intro k off c h
    simp only [tokenize] at h
    split_ifs at h with h0 h1
    · simp at h
    · simp only [List.mem_append] at h
      simp only [List.map_cons, ClientFaultSpec.completionEnd, toResp_len]
      split_ifs with hcomp
      · exact ⟨_, rfl, by omega⟩
      · rcases h with h | h
        · obtain ⟨len, head, rfl⟩ := tagged_mem_fullToks h
          exact absurd rfl hcomp
        · obtain ⟨e, he, hle⟩ := ih (k - it.len) (off + it.len) c h
          exact ⟨e, he, by omega⟩
    · exact absurd rfl ((partToks_plain it k _ h).1 c true)

theorem tagged_mem_fullyReceived {items : List Item} {k c : Nat}
    (h : Tok.tagged c true ∈ (tokenize false items k).1) :
    ClientFaultSpec.fullyReceived (items.map DriveC10.toResp) k c = true := by
  obtain ⟨e, he, hle⟩ := tagged_mem_complete items k 0 c h
  simp only [ClientFaultSpec.fullyReceived, he]
  simpa using hle

/-! ### reachable states of the experiment -/

/-- the states of the experiment: from the initial state by steps of the system and the
    injection of the fault -/
inductive Reach (cfg : Config) : St → Prop
  | init : Reach cfg (initial cfg)
  | step {s s' : St} : Reach cfg s → Step s s' → Reach cfg s'
  | inject {s : St} : Reach cfg s → Reach cfg (ClientFault.inject cfg s)

theorem inv_initial (cfg : Config) (h1 : cfg.legacyLit = false) (h2 : cfg.legacyTag = false) :
    Inv (initial cfg) := by
  constructor
  · intro h; simp [initial] at h
  · intro h; simp [initial] at h
  · intro h; simp [initial] at h
  · simp [initial, PosOK]
  · intro h; simp [initial] at h
  · intro x hx _ hr
    simp only [initial, List.mem_map] at hx
    obtain ⟨k, _, rfl⟩ := hx
    simp at hr
  · simp only [initial, h2]; exact tokenize_noEarly _ _
  · simp [initial, h1]
  · intro x hx hr
    simp only [initial, List.mem_map] at hx
    obtain ⟨k, _, rfl⟩ := hx
    simp at hr

theorem inject_cases (cfg : Config) (s : St) :
    (ClientFault.inject cfg s).cmds = s.cmds ∧ (ClientFault.inject cfg s).inbox = s.inbox ∧
    (ClientFault.inject cfg s).reader = s.reader ∧ (ClientFault.inject cfg s).flight = s.flight ∧
    (ClientFault.inject cfg s).litDone = s.litDone ∧ (ClientFault.inject cfg s).pos = s.pos ∧
    (ClientFault.inject cfg s).upgraded = s.upgraded ∧ (ClientFault.inject cfg s).closedLocal = s.closedLocal ∧
    (ClientFault.inject cfg s).legacyLit = s.legacyLit ∧ (ClientFault.inject cfg s).failed = s.failed ∧
    (s.closedLocal = true → (ClientFault.inject cfg s).tail = s.tail) := by
  unfold ClientFault.inject
  by_cases h0 : (decide (cfg.k ≥ totalLen cfg.items) || s.closedLocal) = true
  · rw [if_pos h0]; simp
  · rw [if_neg h0]
    simp only [Bool.or_eq_true, decide_eq_true_eq, not_or] at h0
    have hcl : ¬ s.closedLocal = true := h0.2
    cases hf : cfg.fault <;> simp only <;> (try split_ifs) <;> simp [hcl]

theorem inv_inject (cfg : Config) {s : St} (h : Inv s) : Inv (ClientFault.inject cfg s) := by
  obtain ⟨f1, f2, f3, f4, f5, f6, f7, f8, f9, f10, f11⟩ := inject_cases cfg s
  constructor
  · intro hc
    rw [f8] at hc
    rw [f2, f11 hc]; exact h.closed hc
  · rw [f10, f8, f1]; exact h.failed
  · rw [f3, f10, f4]; exact h.exited
  · rw [f6, f1]; exact h.pos
  · rw [f3, f5, f4, f6]; exact h.lit
  · rw [f1, f7]; exact h.tls
  · rw [f2]; exact h.early
  · rw [f9]; exact h.fixed
  · rw [f1]; exact h.done

theorem inv_reach {cfg : Config} (h1 : cfg.legacyLit = false) (h2 : cfg.legacyTag = false) {s : St}
    (hr : Reach cfg s) : Inv s := by
  induction hr with
  | init => exact inv_initial cfg h1 h2
  | step _ hs ih => exact inv_step ih hs
  | inject _ ih => exact inv_inject cfg ih

/-- in every reachable state: the input is part of what was delivered, and a successful result
    stems from a delivered tagged OK (or, with the legacy tokenizer, an early one) -/
theorem reach_resOK {cfg : Config} {s : St} (hr : Reach cfg s) :
    (∀ t ∈ s.inbox, t ∈ (tokenize cfg.legacyTag cfg.items cfg.k).1) ∧
    (∀ c x, s.cmds[c]? = some x → x.result = some true →
      Tok.tagged c true ∈ (tokenize cfg.legacyTag cfg.items cfg.k).1 ∨
      Tok.early c true ∈ (tokenize cfg.legacyTag cfg.items cfg.k).1) := by
  induction hr with
  | init =>
    refine ⟨fun t ht => ht, ?_⟩
    intro c x hx hres
    have hm := List.mem_of_getElem? hx
    simp only [initial, List.mem_map] at hm
    obtain ⟨k, _, rfl⟩ := hm
    simp at hres
  | step _ hs ih =>
    have r := step_resOK hs
    refine ⟨fun t ht => ih.1 t (r.1 t ht), ?_⟩
    intro c x hx hres
    rcases r.2 c x hx hres with ⟨y, hy, hyr⟩ | h | h
    · exact ih.2 c y hy hyr
    · exact Or.inl (ih.1 _ h)
    · exact Or.inr (ih.1 _ h)
  | inject _ ih =>
    obtain ⟨f1, f2, _⟩ := inject_cases cfg _
    rw [f1, f2]; exact ih


/-! ### the scheduler's runs are runs of the system -/

theorem reach_run (cfg : Config) (rs : List (St → Option St)) (hsub : ∀ r ∈ rs, r ∈ rules) :
    ∀ (n : Nat) (s : St), Reach cfg s → Reach cfg (run rs n s) := by
  intro n
  induction n with
  | zero => intro s h; exact h
  | succ n ih =>
    intro s h
    simp only [run]
    cases hn : next rs s with
    | none => exact h
    | some s' =>
      simp only [next] at hn
      obtain ⟨r, hr, hs⟩ := List.exists_of_findSome?_eq_some hn
      exact ih s' (Reach.step h ⟨r, hsub r hr, hs⟩)

theorem rulesNoFinal_sub : ∀ r ∈ rulesNoFinal, r ∈ rules := by
  intro r hr
  simp only [rulesNoFinal, List.mem_cons, List.mem_nil_iff, or_false] at hr
  simp only [rules, List.mem_cons, List.mem_nil_iff, or_false]
  rcases hr with h | h | h | h | h | h | h | h | h | h | h | h | h | h <;> simp [h]

/-- the state in which the fault has just been injected is reachable -/
theorem reach_injected (cfg : Config) :
    Reach cfg (ClientFault.inject cfg (run rulesNoFinal (fuelFor cfg) (initial cfg))) :=
  Reach.inject (reach_run cfg _ rulesNoFinal_sub _ _ Reach.init)

end GoImap.ClientFaultLemmas
