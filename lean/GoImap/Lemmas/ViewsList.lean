/-
  C08 helper lemmas: positions of `indexed` lists, erasing positions from the highest down.
-/
import GoImap.Model.Views
namespace GoImap.ViewsLemmas
open GoImap.Views

universe u v
variable {α : Type u} {β : Type v}

/-- erase the 1-based positions in the given order -/
def eraseDesc : List α → List Nat → List α
  | l, [] => l
  | l, p :: ps => eraseDesc (l.eraseIdx (p - 1)) ps

/-! ### `indexed` -/

theorem indexed_length (l : List α) (s : Nat) : (indexed l s).length = l.length := by
  induction l generalizing s with
  | nil => rfl
  | cons a l ih => simp only [indexed, List.length_cons, ih]

theorem indexed_map_snd (l : List α) (s : Nat) : (indexed l s).map (·.2) = l := by
  induction l generalizing s with
  | nil => rfl
  | cons a l ih => simp only [indexed, List.map_cons, ih]

theorem mem_indexed_iff {l : List α} {s i : Nat} {a : α} :
    (i, a) ∈ indexed l s ↔ s ≤ i ∧ l[i - s]? = some a := by
  induction l generalizing s with
  | nil => simp [indexed]
  | cons b l ih =>
    simp only [indexed, List.mem_cons, Prod.mk.injEq, ih]
    by_cases h : i = s
    · subst h
      simp only [Nat.sub_self, List.getElem?_cons_zero, Option.some.injEq, true_and, Nat.le_refl]
      constructor
      · rintro (h | h)
        · exact h.symm
        · omega
      · intro h
        exact Or.inl h.symm
    · constructor
      · rintro (h' | h')
        · exact absurd h'.1 h
        · have e : i - s = (i - (s + 1)) + 1 := by omega
          rw [e, List.getElem?_cons_succ]
          exact ⟨(by omega), h'.2⟩
      · rintro ⟨h1, h2⟩
        have e : i - s = (i - (s + 1)) + 1 := by omega
        rw [e, List.getElem?_cons_succ] at h2
        exact Or.inr ⟨(by omega), h2⟩

theorem indexed_fst_bounds {l : List α} {s i : Nat} (h : i ∈ (indexed l s).map (·.1)) :
    s ≤ i ∧ i < s + l.length := by
  rw [List.mem_map] at h
  obtain ⟨⟨j, a⟩, hm, rfl⟩ := h
  have := mem_indexed_iff.mp hm
  obtain ⟨h1, h2⟩ := this
  have := (List.getElem?_eq_some_iff.mp h2).1
  exact ⟨h1, (by omega)⟩

theorem indexed_fst_sorted (l : List α) (s : Nat) :
    ((indexed l s).map (·.1)).Pairwise (· < ·) := by
  induction l generalizing s with
  | nil => exact List.Pairwise.nil
  | cons a l ih =>
    simp only [indexed, List.map_cons, List.pairwise_cons]
    refine ⟨?_, ih (s + 1)⟩
    intro j hj
    have := indexed_fst_bounds hj
    omega

theorem indexed_filter_sorted (l : List α) (s : Nat) (p : Nat × α → Bool) :
    (((indexed l s).filter p).map (·.1)).Pairwise (· < ·) :=
  (indexed_fst_sorted l s).sublist (List.Sublist.map _ List.filter_sublist)

theorem indexed_filter_bounds {l : List α} {s : Nat} {p : Nat × α → Bool} {i : Nat}
    (h : i ∈ ((indexed l s).filter p).map (·.1)) : s ≤ i ∧ i < s + l.length :=
  indexed_fst_bounds ((List.Sublist.map _ List.filter_sublist).subset h)

/-! ### `eraseDesc` -/

theorem map_eraseIdx' (f : α → β) : ∀ (l : List α) (i : Nat),
    (l.eraseIdx i).map f = (l.map f).eraseIdx i
  | [], _ => rfl
  | _ :: _, 0 => rfl
  | a :: l, i + 1 => by
    simp only [List.eraseIdx_cons_succ, List.map_cons, map_eraseIdx' f l i]

theorem eraseDesc_map (f : α → β) (l : List α) (ps : List Nat) :
    (eraseDesc l ps).map f = eraseDesc (l.map f) ps := by
  induction ps generalizing l with
  | nil => rfl
  | cons p ps ih => simp only [eraseDesc, ih, map_eraseIdx']

theorem eraseDesc_length_le (l : List α) (ps : List Nat) : (eraseDesc l ps).length ≤ l.length := by
  induction ps generalizing l with
  | nil => exact Nat.le_refl _
  | cons p ps ih =>
    exact Nat.le_trans (ih _) (List.eraseIdx_sublist l (p - 1)).length_le

/-- the selection function of `expungeSeqs` -/
def keepOut (ps : List Nat) (im : Nat × α) : Option α :=
  if ps.contains im.1 then none else some im.2

theorem filterMap_keepOut_all (ps : List Nat) :
    ∀ (l : List α) (s : Nat), (∀ i, s ≤ i → ps.contains i = false) →
      (indexed l s).filterMap (keepOut ps) = l
  | [], _, _ => rfl
  | a :: l, s, h => by
    have ih := filterMap_keepOut_all ps l (s + 1) (fun i hi => h i (by omega))
    have h0 : keepOut ps (s, a) = some a := by
      simp only [keepOut, h s (Nat.le_refl s)]
      rfl
    simp only [indexed]
    rw [List.filterMap_cons_some h0, ih]

theorem filterMap_eraseIdx (ps : List Nat) (p : Nat) (hlt : ∀ q ∈ ps, q < p) :
    ∀ (l : List α) (s : Nat), s ≤ p →
      (indexed (l.eraseIdx (p - s)) s).filterMap (keepOut ps)
        = (indexed l s).filterMap (keepOut (p :: ps))
  | [], _, _ => rfl
  | a :: l, s, hsp => by
    have hps : ∀ i, p ≤ i → ps.contains i = false := by
      intro i hi
      cases hc : ps.contains i with
      | false => rfl
      | true =>
        have := hlt i (List.contains_iff_mem.mp hc)
        omega
    by_cases h : p = s
    · subst h
      rw [Nat.sub_self, List.eraseIdx_cons_zero, filterMap_keepOut_all ps l p hps]
      have h0 : keepOut (p :: ps) (p, a) = none := by
        simp [keepOut]
      simp only [indexed]
      rw [List.filterMap_cons_none h0]
      refine (filterMap_keepOut_all (p :: ps) l (p + 1) ?_).symm
      intro i hi
      rw [List.contains_cons, hps i (by omega)]
      have : (i == p) = false := by
        rw [beq_eq_false_iff_ne]
        omega
      rw [this]
      rfl
    · have e : p - s = (p - (s + 1)) + 1 := by omega
      have ih := filterMap_eraseIdx ps p hlt l (s + 1) (by omega)
      have hk : keepOut (p :: ps) (s, a) = keepOut ps (s, a) := by
        have : (s == p) = false := by
          rw [beq_eq_false_iff_ne]
          exact fun h' => h h'.symm
        simp only [keepOut, List.contains_cons, this, Bool.false_or]
      rw [e, List.eraseIdx_cons_succ]
      simp only [indexed, List.filterMap_cons, hk, ih]

/-- erasing a descending list of distinct 1-based positions in order -/
theorem eraseDesc_eq_filterMap :
    ∀ (ps : List Nat) (l : List α), ps.Pairwise (· > ·) → (∀ p ∈ ps, 1 ≤ p) →
      eraseDesc l ps = (indexed l 1).filterMap (keepOut ps)
  | [], l, _, _ => by
    exact (filterMap_keepOut_all [] l 1 (fun _ _ => rfl)).symm
  | p :: ps, l, hs, h1 => by
    rw [List.pairwise_cons] at hs
    have ih := eraseDesc_eq_filterMap ps (l.eraseIdx (p - 1)) hs.2
      (fun q hq => h1 q (List.mem_cons_of_mem _ hq))
    have := filterMap_eraseIdx ps p (fun q hq => hs.1 q hq) l 1 (h1 p List.mem_cons_self)
    simp only [eraseDesc]
    rw [ih, this]

theorem keepOut_congr {ps qs : List Nat} (h : ∀ i, i ∈ ps ↔ i ∈ qs) :
    (keepOut ps : Nat × α → Option α) = keepOut qs := by
  funext im
  have : ps.contains im.1 = qs.contains im.1 := by
    rw [Bool.eq_iff_iff, List.contains_iff_mem, List.contains_iff_mem]
    exact h _
  simp only [keepOut, this]

/-- erasing an ascending list of distinct 1-based positions from the highest down keeps exactly the
    elements at the other positions -/
theorem eraseDesc_reverse_eq_filterMap (l : List α) (pos : List Nat) (hs : pos.Pairwise (· < ·))
    (h1 : ∀ p ∈ pos, 1 ≤ p) :
    eraseDesc l pos.reverse
      = (indexed l 1).filterMap fun im => if pos.contains im.1 then none else some im.2 := by
  have hd : pos.reverse.Pairwise (· > ·) := by
    rw [List.pairwise_reverse]
    exact hs
  have := eraseDesc_eq_filterMap pos.reverse l hd (fun p hp => h1 p (List.mem_reverse.mp hp))
  rw [this, keepOut_congr (α := α) (ps := pos.reverse) (qs := pos) (fun i => List.mem_reverse)]
  rfl

end GoImap.ViewsLemmas
