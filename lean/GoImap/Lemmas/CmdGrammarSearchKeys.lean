/-
  C02 helper lemmas: each kind of SEARCH key is `Good`.
-/
import GoImap.Lemmas.CmdGrammarSearchItems
namespace GoImap.CmdLemmas
open GoImap.CmdGrammar GoImap.CmdSpec

/-! ### decimal round trip (strconv.FormatInt / ParseInt on non-negative numbers) -/

def valAcc (a : Nat) (l : Str) : Nat := l.foldl (fun a d => a * 10 + (d - 48)) a

theorem valAcc_digitsAux : ∀ (fuel n : Nat) (acc : Str), n < fuel → valAcc 0 (digitsAux fuel n acc) = valAcc n acc
  | 0, n, _, h => by omega
  | fuel+1, n, acc, h => by
    unfold digitsAux
    split_ifs with hn
    · simp [valAcc]
    · rw [valAcc_digitsAux fuel (n / 10) _ (by omega)]
      simp only [valAcc, List.foldl_cons]
      congr 1
      omega

theorem valOf_digits (n : Nat) : valOf (digits n) = n := by
  have := valAcc_digitsAux (n + 1) n [] (by omega)
  simpa [valOf, valAcc, digits] using this

theorem pNumber_digits (lim n : Nat) (tail : Wire) (h : n < lim) (hs : Stops isDigit tail) :
    pNumber lim (atom (digits n) ++ tail) = .ok (n, tail) := by
  unfold pNumber
  rw [span_atom isDigit _ tail (digits_digit n) hs]
  simp [digits_ne_nil, valOf_digits, h]

/-! ### keys without nesting -/

theorem sp_stops (argW tail : Wire) : Stops isSearchAtomChar (sp ++ argW ++ tail) := by
  simp only [List.append_assoc]; exact stops_sp _ (by decide) _

section keys
variable (fuel ld kd : Nat)

theorem good_all : Good (fuel + 1) ld kd (kw "ALL", id) := by
  have := good_atomKey fuel ld kd (str "ALL") [] id (by decide) (by decide) (by decide)
    (fun tail h => by simpa using sep_stops_search h)
    (fun rec c tail _ => by simp (decide := true) [pSearchKeyAtom])
  simpa [kw] using this

theorem good_uid (s s' : NSet) (hs : SetReads s s') :
    Good (fuel + 1) ld kd (kw "UID" ++ sp ++ atom s.text, addF fun f => { f with uidSets := f.uidSets ++ [s'] }) := by
  have := good_atomKey fuel ld kd (str "UID") (sp ++ atom s.text) (addF fun f => { f with uidSets := f.uidSets ++ [s'] })
    (by decide) (by decide) (by decide) (fun tail _ => sp_stops _ _)
    (fun rec c tail hsep => by
      simp (decide := true) only [pSearchKeyAtom, List.append_assoc, bind, Except.bind, pSP_sp _ (hs.notEol _),
        hs.read tail (sep_stops_numset hsep)]
      rfl)
  simpa [kw, List.append_assoc] using this

theorem good_string (key : String) (v : Str) (eff : Crit → Crit) (hv : strOk v = true)
    (hk : (str key ≠ [] ∧ (str key).all isSearchAtomChar = true ∧ upper (str key) = str key) := by decide)
    (hp : ∀ rec c tail, pSearchKeyAtom rec kd c (str key) (sp ++ (Item.s v :: tail)) = .ok (eff c, tail)) :
    Good (fuel + 1) ld kd (kw key ++ sp ++ [.s v], eff) := by
  have := good_atomKey fuel ld kd (str key) (sp ++ [.s v]) eff hk.1 (fun c hc => List.all_eq_true.mp hk.2.1 c hc) hk.2.2
    (fun tail _ => sp_stops _ _)
    (fun rec c tail _ => by simpa [List.append_assoc] using hp rec c tail)
  simpa [kw, List.append_assoc] using this

theorem good_body (v : Str) (hv : strOk v = true) :
    Good (fuel + 1) ld kd (kw "BODY" ++ sp ++ [.s v], addF fun f => { f with body := f.body ++ [v] }) :=
  good_string fuel ld kd "BODY" v _ hv (by decide) (fun rec c tail => by
    have : v.length ≤ maxBuffered := by simpa [strOk] using hv
    simp (decide := true) only [pSearchKeyAtom, bind, Except.bind, pSP_sp _ (notEol_s _ _), pAString_s _ _ this]
    rfl)

theorem good_text (v : Str) (hv : strOk v = true) :
    Good (fuel + 1) ld kd (kw "TEXT" ++ sp ++ [.s v], addF fun f => { f with text := f.text ++ [v] }) :=
  good_string fuel ld kd "TEXT" v _ hv (by decide) (fun rec c tail => by
    have : v.length ≤ maxBuffered := by simpa [strOk] using hv
    simp (decide := true) only [pSearchKeyAtom, bind, Except.bind, pSP_sp _ (notEol_s _ _), pAString_s _ _ this]
    rfl)


theorem good_header (k v : Str) (hk : strOk k = true) (hv : strOk v = true) :
    Good (fuel + 1) ld kd (kw "HEADER" ++ sp ++ [.s k] ++ sp ++ [.s v], addF fun f => { f with header := f.header ++ [(k, v)] }) := by
  have hk' : k.length ≤ maxBuffered := by simpa [strOk] using hk
  have hv' : v.length ≤ maxBuffered := by simpa [strOk] using hv
  have := good_atomKey fuel ld kd (str "HEADER") (sp ++ [.s k] ++ sp ++ [.s v]) (addF fun f => { f with header := f.header ++ [(k, v)] })
    (by decide) (by decide) (by decide)
    (fun tail _ => by simp only [List.append_assoc]; exact stops_sp _ (by decide) _)
    (fun rec c tail _ => by
      simp (decide := true) only [pSearchKeyAtom, List.append_assoc, List.singleton_append, List.cons_append, List.nil_append, bind,
        Except.bind, pSP_sp _ (notEol_s _ _), pAString_s _ _ hk', pAString_s _ _ hv']
      rfl)
  simpa [kw, List.append_assoc] using this

/-- BCC, CC, FROM, SUBJECT, TO -/
theorem good_addr (key : Str) (v : Str) (hkey : addrKeys.contains key = true) (hv : strOk v = true) :
    Good (fuel + 1) ld kd (atom key ++ sp ++ [.s v], addF fun f => { f with header := f.header ++ [(titleCase key, v)] }) := by
  have hv' : v.length ≤ maxBuffered := by simpa [strOk] using hv
  have hmem : key ∈ addrKeys := by simpa using hkey
  have hcases : key = str "BCC" ∨ key = str "CC" ∨ key = str "FROM" ∨ key = str "SUBJECT" ∨ key = str "TO" := by
    simpa [addrKeys] using hmem
  have := good_atomKey fuel ld kd key (sp ++ [.s v]) (addF fun f => { f with header := f.header ++ [(titleCase key, v)] })
    (by rcases hcases with rfl | rfl | rfl | rfl | rfl <;> decide)
    (by rcases hcases with rfl | rfl | rfl | rfl | rfl <;> decide)
    (by rcases hcases with rfl | rfl | rfl | rfl | rfl <;> decide)
    (fun tail _ => sp_stops _ _)
    (fun rec c tail _ => by
      rcases hcases with rfl | rfl | rfl | rfl | rfl <;>
        simp (decide := true) only [pSearchKeyAtom, List.append_assoc, List.singleton_append, List.cons_append, List.nil_append, bind,
          Except.bind, pSP_sp _ (notEol_s _ _), pAString_s _ _ hv'] <;> rfl)
  simpa [List.append_assoc] using this

theorem notEol_date (d : Int) (r : Wire) : NotEol (Item.date d :: r) := by simp [NotEol]

theorem good_date (key : String) (d : Int) (g : Flat → Flat)
    (hk : (str key ≠ [] ∧ (str key).all isSearchAtomChar = true ∧ upper (str key) = str key) := by decide)
    (hp : ∀ rec c tail, pSearchKeyAtom rec kd c (str key) (sp ++ (Item.date d :: tail)) = .ok (c.withFlat g, tail)) :
    Good (fuel + 1) ld kd (kw key ++ sp ++ [.date d], addF g) := by
  have := good_atomKey fuel ld kd (str key) (sp ++ [.date d]) (addF g) hk.1 (fun c hc => List.all_eq_true.mp hk.2.1 c hc) hk.2.2
    (fun tail _ => sp_stops _ _)
    (fun rec c tail _ => by simpa [List.append_assoc, addF] using hp rec c tail)
  simpa [kw, List.append_assoc] using this

theorem good_since (d : Int) :
    Good (fuel + 1) ld kd (kw "SINCE" ++ sp ++ [.date d], addF fun f => { f with since := dateOnly (interSince f.since.day d) }) :=
  good_date fuel ld kd "SINCE" d _ (by decide) (fun rec c tail => by
    simp (decide := true) only [pSearchKeyAtom, bind, Except.bind, pSP_sp _ (notEol_date _ _), pDate]; rfl)

theorem good_before (d : Int) :
    Good (fuel + 1) ld kd (kw "BEFORE" ++ sp ++ [.date d], addF fun f => { f with before := dateOnly (interBefore f.before.day d) }) :=
  good_date fuel ld kd "BEFORE" d _ (by decide) (fun rec c tail => by
    simp (decide := true) only [pSearchKeyAtom, bind, Except.bind, pSP_sp _ (notEol_date _ _), pDate]; rfl)

theorem good_on (d : Int) :
    Good (fuel + 1) ld kd (kw "ON" ++ sp ++ [.date d], addF fun f =>
      { f with since := dateOnly (interSince f.since.day d), before := dateOnly (interBefore f.before.day (d + day1)) }) :=
  good_date fuel ld kd "ON" d _ (by decide) (fun rec c tail => by
    simp (decide := true) only [pSearchKeyAtom, bind, Except.bind, pSP_sp _ (notEol_date _ _), pDate]; rfl)

theorem good_sentsince (d : Int) :
    Good (fuel + 1) ld kd (kw "SENTSINCE" ++ sp ++ [.date d], addF fun f => { f with sentSince := dateOnly (interSince f.sentSince.day d) }) :=
  good_date fuel ld kd "SENTSINCE" d _ (by decide) (fun rec c tail => by
    simp (decide := true) only [pSearchKeyAtom, bind, Except.bind, pSP_sp _ (notEol_date _ _), pDate]; rfl)

theorem good_sentbefore (d : Int) :
    Good (fuel + 1) ld kd (kw "SENTBEFORE" ++ sp ++ [.date d], addF fun f => { f with sentBefore := dateOnly (interBefore f.sentBefore.day d) }) :=
  good_date fuel ld kd "SENTBEFORE" d _ (by decide) (fun rec c tail => by
    simp (decide := true) only [pSearchKeyAtom, bind, Except.bind, pSP_sp _ (notEol_date _ _), pDate]; rfl)

theorem good_senton (d : Int) :
    Good (fuel + 1) ld kd (kw "SENTON" ++ sp ++ [.date d], addF fun f =>
      { f with sentSince := dateOnly (interSince f.sentSince.day d), sentBefore := dateOnly (interBefore f.sentBefore.day (d + day1)) }) :=
  good_date fuel ld kd "SENTON" d _ (by decide) (fun rec c tail => by
    simp (decide := true) only [pSearchKeyAtom, bind, Except.bind, pSP_sp _ (notEol_date _ _), pDate]; rfl)

/-- the five system flags that have a key of their own -/
theorem good_sysflag (f k : Str) (h : flagSearchKey f = some k) :
    Good (fuel + 1) ld kd (atom k, addF fun x => { x with flags := x.flags ++ [f] }) ∧
    Good (fuel + 1) ld kd (kw "UN" ++ atom k, addF fun x => { x with notFlags := x.notFlags ++ [f] }) := by
  have hcases : (f = str "\\Answered" ∧ k = str "ANSWERED") ∨ (f = str "\\Deleted" ∧ k = str "DELETED") ∨
      (f = str "\\Draft" ∧ k = str "DRAFT") ∨ (f = str "\\Flagged" ∧ k = str "FLAGGED") ∨ (f = str "\\Seen" ∧ k = str "SEEN") := by
    unfold flagSearchKey at h
    split_ifs at h with h1 h2 h3 h4 h5 <;> simp_all
  constructor
  · have := good_atomKey fuel ld kd k [] (addF fun x => { x with flags := x.flags ++ [f] })
      (by rcases hcases with ⟨_, rfl⟩ | ⟨_, rfl⟩ | ⟨_, rfl⟩ | ⟨_, rfl⟩ | ⟨_, rfl⟩ <;> decide)
      (by rcases hcases with ⟨_, rfl⟩ | ⟨_, rfl⟩ | ⟨_, rfl⟩ | ⟨_, rfl⟩ | ⟨_, rfl⟩ <;> decide)
      (by rcases hcases with ⟨_, rfl⟩ | ⟨_, rfl⟩ | ⟨_, rfl⟩ | ⟨_, rfl⟩ | ⟨_, rfl⟩ <;> decide)
      (fun tail h => by simpa using sep_stops_search h)
      (fun rec c tail _ => by
        rcases hcases with ⟨rfl, rfl⟩ | ⟨rfl, rfl⟩ | ⟨rfl, rfl⟩ | ⟨rfl, rfl⟩ | ⟨rfl, rfl⟩ <;>
          simp (decide := true) [pSearchKeyAtom, addF] <;> rfl)
    simpa using this
  · have hun : kw "UN" ++ atom k = atom (str "UN" ++ k) := by simp [kw, atom]
    rw [hun]
    have := good_atomKey fuel ld kd (str "UN" ++ k) [] (addF fun x => { x with notFlags := x.notFlags ++ [f] })
      (by rcases hcases with ⟨_, rfl⟩ | ⟨_, rfl⟩ | ⟨_, rfl⟩ | ⟨_, rfl⟩ | ⟨_, rfl⟩ <;> decide)
      (by rcases hcases with ⟨_, rfl⟩ | ⟨_, rfl⟩ | ⟨_, rfl⟩ | ⟨_, rfl⟩ | ⟨_, rfl⟩ <;> decide)
      (by rcases hcases with ⟨_, rfl⟩ | ⟨_, rfl⟩ | ⟨_, rfl⟩ | ⟨_, rfl⟩ | ⟨_, rfl⟩ <;> decide)
      (fun tail h => by simpa using sep_stops_search h)
      (fun rec c tail _ => by
        rcases hcases with ⟨rfl, rfl⟩ | ⟨rfl, rfl⟩ | ⟨rfl, rfl⟩ | ⟨rfl, rfl⟩ | ⟨rfl, rfl⟩ <;>
          simp (decide := true) [pSearchKeyAtom, addF] <;> rfl)
    simpa using this

theorem good_keyword (f : Str) (hf : FlagOK f) :
    Good (fuel + 1) ld kd (kw "KEYWORD" ++ sp ++ atom f, addF fun x => { x with flags := x.flags ++ [canonFlag f] }) ∧
    Good (fuel + 1) ld kd (kw "UNKEYWORD" ++ sp ++ atom f, addF fun x => { x with notFlags := x.notFlags ++ [canonFlag f] }) := by
  obtain ⟨c0, t0, rfl, hc0⟩ := flag_first_atomOrBackslash f hf
  have hne : ∀ tail, NotEol (atom (c0 :: t0) ++ tail) := by
    intro tail
    simp only [atom, List.map_cons, List.cons_append, NotEol]
    rcases hc0 with rfl | hc
    · decide
    · constructor <;> (intro he; subst he; revert hc; decide)
  constructor
  · have := good_atomKey fuel ld kd (str "KEYWORD") (sp ++ atom (c0 :: t0)) (addF fun x => { x with flags := x.flags ++ [canonFlag (c0 :: t0)] })
      (by decide) (by decide) (by decide) (fun tail _ => sp_stops _ _)
      (fun rec c tail hsep => by
        simp (decide := true) only [pSearchKeyAtom, List.append_assoc, bind, Except.bind, pSP_sp _ (hne _),
          pFlag_atom _ tail hf (sep_stops_atom hsep)]
        rfl)
    simpa [kw, List.append_assoc] using this
  · have := good_atomKey fuel ld kd (str "UNKEYWORD") (sp ++ atom (c0 :: t0)) (addF fun x => { x with notFlags := x.notFlags ++ [canonFlag (c0 :: t0)] })
      (by decide) (by decide) (by decide) (fun tail _ => sp_stops _ _)
      (fun rec c tail hsep => by
        simp (decide := true) only [pSearchKeyAtom, List.append_assoc, bind, Except.bind, pSP_sp _ (hne _),
          pFlag_atom _ tail hf (sep_stops_atom hsep)]
        rfl)
    simpa [kw, List.append_assoc] using this

theorem notEol_digits (n : Nat) (tail : Wire) : NotEol (atom (digits n) ++ tail) :=
  notEol_atom _ _ (digits_ne_nil n) (fun c hc => digit_atomChar (digits_digit n c hc))

theorem good_larger (n : Nat) (h : n < lim63) :
    Good (fuel + 1) ld kd (kw "LARGER" ++ sp ++ atom (digits n), addF fun x => { x with larger := andLarger x.larger n }) := by
  have := good_atomKey fuel ld kd (str "LARGER") (sp ++ atom (digits n)) (addF fun x => { x with larger := andLarger x.larger n })
    (by decide) (by decide) (by decide) (fun tail _ => sp_stops _ _)
    (fun rec c tail hsep => by
      simp (decide := true) only [pSearchKeyAtom, List.append_assoc, bind, Except.bind, pSP_sp _ (notEol_digits _ _),
        pNumber_digits lim63 n tail h (sep_stops_digit hsep)]
      rfl)
  simpa [kw, List.append_assoc] using this

theorem good_smaller (n : Nat) (h : n < lim63) :
    Good (fuel + 1) ld kd (kw "SMALLER" ++ sp ++ atom (digits n), addF fun x => { x with smaller := andSmaller x.smaller n }) := by
  have := good_atomKey fuel ld kd (str "SMALLER") (sp ++ atom (digits n)) (addF fun x => { x with smaller := andSmaller x.smaller n })
    (by decide) (by decide) (by decide) (fun tail _ => sp_stops _ _)
    (fun rec c tail hsep => by
      simp (decide := true) only [pSearchKeyAtom, List.append_assoc, bind, Except.bind, pSP_sp _ (notEol_digits _ _),
        pNumber_digits lim63 n tail h (sep_stops_digit hsep)]
      rfl)
  simpa [kw, List.append_assoc] using this

end keys
end GoImap.CmdLemmas
