/-
  Helper lemmas for C03: the INTERNALDATE text the server writes (`dateTimeText`, mirror of
  `t.Format("_2-Jan-2006 15:04:05 -0700")`) is read back by the client's `parseDateTime` as the same
  time with whole seconds (`RespSpec.canonTime`).
-/
import GoImap.Lemmas.RespWire
import GoImap.Lemmas.NumSetDigits
import GoImap.Model.RespGrammar
import GoImap.Spec.RespGrammar
namespace GoImap.Resp

open GoImap.NumSet (digits digitsAux dchar digitsAux_succ)

/-! ### decimal digits of small numbers -/

theorem date_dchar_toNat : ∀ k, k < 10 → (dchar k).toNat = 48 + k := by decide

theorem date_digitsAux_fuel : ∀ f g n, n < f → n < g → digitsAux f n [] = digitsAux g n [] := by
  intro f
  induction f with
  | zero => intro g n h; omega
  | succ f ih =>
    intro g n hf hg
    cases g with
    | zero => omega
    | succ g =>
      rw [digitsAux_succ, digitsAux_succ]
      by_cases h : n / 10 = 0
      · simp only [h, if_true]
      · simp only [h, if_false]
        rw [ih g (n / 10) (by omega) (by omega)]

theorem date_encNumber_small (n : Nat) (h : n < 10) : encNumber n = [48 + n] := by
  unfold encNumber digits
  rw [digitsAux_succ]
  have h0 : n / 10 = 0 := by omega
  have h1 : n % 10 = n := by omega
  simp only [h0, if_true, h1, List.map_cons, List.map_nil, date_dchar_toNat n h]

theorem date_encNumber_step (n : Nat) (h : 10 ≤ n) : encNumber n = encNumber (n / 10) ++ [48 + n % 10] := by
  unfold encNumber digits
  rw [digitsAux_succ]
  have h0 : ¬ n / 10 = 0 := by omega
  simp only [h0, if_false, List.map_append, List.map_cons, List.map_nil, date_dchar_toNat (n % 10) (by omega)]
  rw [date_digitsAux_fuel n (n / 10 + 1) (n / 10) (by omega) (by omega)]

theorem date_encNumber_2 (n : Nat) (h1 : 10 ≤ n) (h2 : n < 100) : encNumber n = [48 + n / 10, 48 + n % 10] := by
  rw [date_encNumber_step n h1, date_encNumber_small (n / 10) (by omega)]
  rfl

theorem date_encNumber_3 (n : Nat) (h1 : 100 ≤ n) (h2 : n < 1000) :
    encNumber n = [48 + n / 100, 48 + n / 10 % 10, 48 + n % 10] := by
  rw [date_encNumber_step n (by omega), date_encNumber_2 (n / 10) (by omega) (by omega)]
  have e : n / 10 / 10 = n / 100 := by omega
  rw [e]
  rfl

theorem date_encNumber_4 (n : Nat) (h1 : 1000 ≤ n) (h2 : n < 10000) :
    encNumber n = [48 + n / 1000, 48 + n / 100 % 10, 48 + n / 10 % 10, 48 + n % 10] := by
  rw [date_encNumber_step n (by omega), date_encNumber_3 (n / 10) (by omega) (by omega)]
  have e1 : n / 10 / 100 = n / 1000 := by omega
  have e2 : n / 10 / 10 = n / 100 := by omega
  rw [e1, e2]
  rfl

theorem date_pad2 (n : Nat) (h : n < 100) : pad2 n = [48 + n / 10, 48 + n % 10] := by
  unfold pad2
  by_cases h10 : n < 10
  · rw [if_pos h10, date_encNumber_small n h10]
    have h0 : n / 10 = 0 := by omega
    have h1 : n % 10 = n := by omega
    rw [h0, h1]
  · rw [if_neg h10, date_encNumber_2 n (by omega) h]

theorem date_pad4 (n : Nat) (h : n < 10000) :
    pad4 n = [48 + n / 1000, 48 + n / 100 % 10, 48 + n / 10 % 10, 48 + n % 10] := by
  unfold pad4
  by_cases h10 : n < 10
  · rw [if_pos h10, date_encNumber_small n h10]
    have a0 : n / 1000 = 0 := by omega
    have a1 : n / 100 % 10 = 0 := by omega
    have a2 : n / 10 % 10 = 0 := by omega
    have a3 : n % 10 = n := by omega
    rw [a0, a1, a2, a3]
  · rw [if_neg h10]
    by_cases h100 : n < 100
    · rw [if_pos h100, date_encNumber_2 n (by omega) h100]
      have a0 : n / 1000 = 0 := by omega
      have a1 : n / 100 % 10 = 0 := by omega
      have a2 : n / 10 % 10 = n / 10 := by omega
      rw [a0, a1, a2]
    · rw [if_neg h100]
      by_cases h1000 : n < 1000
      · rw [if_pos h1000, date_encNumber_3 n (by omega) h1000]
        have a0 : n / 1000 = 0 := by omega
        have a1 : n / 100 % 10 = n / 100 := by omega
        rw [a0, a1]
      · rw [if_neg h1000, date_encNumber_4 n (by omega) h]

/-! ### the fixed-width number readers on digit bytes -/

theorem date_isDigitB (x : Nat) (h : x < 10) : isDigitB (48 + x) = true := by
  unfold isDigitB
  simp only [Bool.and_eq_true, decide_eq_true_eq]
  omega

theorem date_num2_digits (x y : Nat) (hx : x < 10) (hy : y < 10) (r : Str) :
    num2 ((48 + x) :: (48 + y) :: r) = some (x * 10 + y, r) := by
  simp only [num2, date_isDigitB x hx, date_isDigitB y hy, Bool.and_self, if_true, Nat.add_sub_cancel_left]

theorem date_num12_digits2 (x y : Nat) (hx : x < 10) (hy : y < 10) (r : Str) :
    num12 ((48 + x) :: (48 + y) :: r) = some (x * 10 + y, r) := by
  simp only [num12, date_isDigitB x hx, date_isDigitB y hy, Bool.and_self, if_true, Nat.add_sub_cancel_left]

theorem date_num12_digit1 (x : Nat) (hx : x < 10) (r : Str) :
    num12 ((48 + x) :: 45 :: r) = some (x, 45 :: r) := by
  have h45 : isDigitB 45 = false := by decide
  simp [num12, date_isDigitB x hx, h45]

theorem date_num4_digits (w x y z : Nat) (hw : w < 10) (hx : x < 10) (hy : y < 10) (hz : z < 10) (r : Str) :
    num4 ((48 + w) :: (48 + x) :: (48 + y) :: (48 + z) :: r) = some (w * 1000 + x * 100 + y * 10 + z, r) := by
  simp only [num4, date_isDigitB w hw, date_isDigitB x hx, date_isDigitB y hy, date_isDigitB z hz, Bool.and_self, if_true,
    Nat.add_sub_cancel_left]

theorem date_num2_pad2 (n : Nat) (h : n < 100) (r : Str) : num2 (pad2 n ++ r) = some (n, r) := by
  rw [date_pad2 n h]
  simp only [List.cons_append, List.nil_append]
  rw [date_num2_digits (n / 10) (n % 10) (by omega) (by omega)]
  have e : n / 10 * 10 + n % 10 = n := by omega
  rw [e]

theorem date_num12_pad2 (n : Nat) (h : n < 100) (r : Str) : num12 (pad2 n ++ r) = some (n, r) := by
  rw [date_pad2 n h]
  simp only [List.cons_append, List.nil_append]
  rw [date_num12_digits2 (n / 10) (n % 10) (by omega) (by omega)]
  have e : n / 10 * 10 + n % 10 = n := by omega
  rw [e]

theorem date_num4_pad4 (n : Nat) (h : n < 10000) (r : Str) : num4 (pad4 n ++ r) = some (n, r) := by
  rw [date_pad4 n h]
  simp only [List.cons_append, List.nil_append]
  rw [date_num4_digits (n / 1000) (n / 100 % 10) (n / 10 % 10) (n % 10) (by omega) (by omega) (by omega) (by omega)]
  have e : n / 1000 * 1000 + n / 100 % 10 * 100 + n / 10 % 10 * 10 + n % 10 = n := by omega
  rw [e]

/-! ### month names -/

theorem date_month : ∀ m, m < 12 →
    (asc (monthNames.getD m "???")).length = 3 ∧ monthIdx (asc (monthNames.getD m "???")) = some (m + 1) := by
  decide

theorem date_len3 (l : Str) (h : l.length = 3) : ∃ a b c, l = [a, b, c] := by
  cases l with
  | nil => simp at h
  | cons a l =>
    cases l with
    | nil => simp at h
    | cons b l =>
      cases l with
      | nil => simp at h
      | cons c l =>
        cases l with
        | nil => exact ⟨a, b, c, rfl⟩
        | cons d l => simp at h

theorem date_daysIn_le (y m : Nat) : daysIn y m ≤ 31 := by
  unfold daysIn
  split
  · split <;> omega
  · split <;> omega

/-! ### the parser on a text of the right shape -/

theorem date_parse_strip (x : Nat) (r : Str) (hx : x ≠ 32) :
    parseDateTime (32 :: x :: r) = parseDateTime (x :: r) := by
  conv => rhs; unfold parseDateTime
  split
  · rename_i heq
    injection heq with h1 _
    exact absurd h1 hx
  · rfl

theorem date_parse_core {x : Nat} {r0 : Str} (hx : x ≠ 32)
    {d a b c mo y h mi sec sg zh zm : Nat} {r1 r2 r3 r4 r5 r6 : Str}
    (h1 : num12 (x :: r0) = some (d, 45 :: a :: b :: c :: 45 :: r1))
    (h2 : monthIdx [a, b, c] = some mo)
    (h3 : num4 r1 = some (y, 32 :: r2))
    (h4 : num12 r2 = some (h, 58 :: r3))
    (h5 : num2 r3 = some (mi, 58 :: r4))
    (h6 : num2 r4 = some (sec, 32 :: sg :: r5))
    (h7 : num2 r5 = some (zh, r6))
    (h8 : num2 r6 = some (zm, []))
    (hsg : sg = 43 ∨ sg = 45) (hd1 : 1 ≤ d) (hd2 : d ≤ daysIn y mo) (hh : h < 24) (hmi : mi < 60) (hsec : sec < 60)
    (hzh : zh ≤ 24) (hzm : zm ≤ 60) :
    parseDateTime (x :: r0) = some
      { unix := unixOfCivil y mo d h mi sec ((if sg = 45 then -1 else 1) * (((zh * 60 + zm) * 60 : Nat) : Int)),
        off := (if sg = 45 then -1 else 1) * (((zh * 60 + zm) * 60 : Nat) : Int), ns := 0, year := y, month := mo,
        day := d, hour := h, min := mi, sec := sec, wd := weekdayOf y mo d } := by
  unfold parseDateTime
  split
  · rename_i heq
    injection heq with e1 _
    exact absurd e1 hx
  · simp only []
    rw [h1]
    simp only []
    rw [h2, h3]
    simp only []
    rw [h4]
    simp only []
    rw [h5]
    simp only []
    rw [h6]
    simp only []
    rw [h7]
    simp only []
    rw [h8]
    simp only []
    rw [if_pos]
    simp only [Bool.and_eq_true, Bool.or_eq_true, decide_eq_true_eq]
    exact ⟨⟨⟨⟨⟨⟨⟨hsg, hd1⟩, hd2⟩, hh⟩, hmi⟩, hsec⟩, hzh⟩, hzm⟩

/-! ### the round trip -/

/-- what Go's time package guarantees about a broken-down time, plus the RFC 3501 date-time domain -/
structure DateOK (t : DateTime) : Prop where
  year : 1 ≤ t.year ∧ t.year ≤ 9999
  month : 1 ≤ t.month ∧ t.month ≤ 12
  day : 1 ≤ t.day ∧ t.day ≤ daysIn t.year.toNat t.month
  hour : t.hour < 24
  min : t.min < 60
  sec : t.sec < 60
  off : t.off % 60 = 0 ∧ -86400 < t.off ∧ t.off < 86400
  civil : civilOK t = true

/-- the zone digits and sign give the offset back -/
theorem date_off (off : Int) (h0 : off % 60 = 0) (h1 : -86400 < off) (h2 : off < 86400) :
    (if (if off ≤ -60 then 45 else 43 : Nat) = 45 then -1 else 1) *
      (((off.natAbs / 60 / 60 * 60 + off.natAbs / 60 % 60) * 60 : Nat) : Int) = off := by
  by_cases h : off ≤ -60
  · rw [if_pos h]
    simp only [if_true]
    omega
  · rw [if_neg h]
    have e : ¬ ((43 : Nat) = 45) := by decide
    rw [if_neg e]
    omega

/-- everything after the optional leading space -/
theorem date_parse_text (t : DateTime) (h : DateOK t) (x : Nat) (r0 : Str) (hx : x ≠ 32) (a b c : Nat)
    (hmo : monthIdx [a, b, c] = some t.month)
    (h1 : num12 (x :: r0) = some (t.day, 45 :: a :: b :: c :: 45 :: (pad4 t.year.toNat ++ 32 :: (pad2 t.hour ++ 58 ::
      (pad2 t.min ++ 58 :: (pad2 t.sec ++ 32 :: (if t.off ≤ -60 then 45 else 43) ::
        (pad2 (t.off.natAbs / 60 / 60) ++ pad2 (t.off.natAbs / 60 % 60)))))))) :
    parseDateTime (x :: r0) = some (RespSpec.canonTime t) := by
  obtain ⟨⟨hy1, hy2⟩, ⟨_, _⟩, ⟨hd1, hd2⟩, hh, hmi, hs, ⟨ho1, ho2, ho3⟩, hciv⟩ := h
  have hzm : num2 (pad2 (t.off.natAbs / 60 % 60)) = some (t.off.natAbs / 60 % 60, []) := by
    have := date_num2_pad2 (t.off.natAbs / 60 % 60) (by omega) []
    rwa [List.append_nil] at this
  rw [date_parse_core hx h1 hmo (date_num4_pad4 _ (by omega) _) (date_num12_pad2 _ (by omega) _)
    (date_num2_pad2 _ (by omega) _) (date_num2_pad2 _ (by omega) _) (date_num2_pad2 _ (by omega) _) hzm
    (by by_cases h : t.off ≤ -60
        · right; rw [if_pos h]
        · left; rw [if_neg h])
    hd1 hd2 hh hmi hs (by omega) (by omega)]
  rw [date_off t.off ho1 ho2 ho3]
  have ey : ((t.year.toNat : Nat) : Int) = t.year := by omega
  rw [ey]
  simp only [civilOK, Bool.and_eq_true, beq_iff_eq] at hciv
  rw [← hciv.1, ← hciv.2]
  rfl

theorem parseDateTime_dateTimeText (t : DateTime) (h : DateOK t) :
    parseDateTime (dateTimeText t) = some (RespSpec.canonTime t) := by
  obtain ⟨hlen, hidx⟩ := date_month (t.month - 1) (by have := h.month; omega)
  have em : t.month - 1 + 1 = t.month := by have := h.month; omega
  rw [em] at hidx
  have htxt : dateTimeText t =
      (if t.day < 10 then 32 :: encNumber t.day else encNumber t.day) ++ 45 :: (asc (monthNames.getD (t.month - 1) "???") ++
        45 :: (pad4 t.year.toNat ++ 32 :: (pad2 t.hour ++ 58 :: (pad2 t.min ++ 58 :: (pad2 t.sec ++ 32 ::
          (if t.off ≤ -60 then 45 else 43) :: (pad2 (t.off.natAbs / 60 / 60) ++ pad2 (t.off.natAbs / 60 % 60))))))) := by
    simp only [dateTimeText, zoneText, List.append_assoc, List.cons_append, List.nil_append]
  rw [htxt]
  obtain ⟨a, b, c, habc⟩ := date_len3 _ hlen
  rw [habc] at hidx ⊢
  simp only [List.cons_append, List.nil_append]
  have hd31 : t.day ≤ 31 := Nat.le_trans h.day.2 (date_daysIn_le _ _)
  have hd1 : 1 ≤ t.day := h.day.1
  by_cases h10 : t.day < 10
  · rw [if_pos h10, date_encNumber_small _ h10]
    simp only [List.cons_append, List.nil_append]
    rw [date_parse_strip _ _ (by omega)]
    exact date_parse_text t h _ _ (by omega) a b c hidx (date_num12_digit1 _ h10 _)
  · rw [if_neg h10, date_encNumber_2 _ (by omega) (by omega)]
    simp only [List.cons_append, List.nil_append]
    refine date_parse_text t h _ _ (by omega) a b c hidx ?_
    rw [date_num12_digits2 _ _ (by omega) (by omega)]
    have e : t.day / 10 * 10 + t.day % 10 = t.day := by omega
    rw [e]

example : parseDateTime (dateTimeText
      { unix := 951868799, off := 20700, ns := 5, year := 2000, month := 3, day := 1, hour := 5, min := 44, sec := 59, wd := 3 }) =
    some { unix := 951868799, off := 20700, ns := 0, year := 2000, month := 3, day := 1, hour := 5, min := 44, sec := 59, wd := 3 } :=
  parseDateTime_dateTimeText _
    { year := by decide, month := by decide, day := by decide, hour := by decide, min := by decide, sec := by decide,
      off := by decide, civil := by decide }

end GoImap.Resp
