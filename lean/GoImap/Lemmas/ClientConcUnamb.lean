import GoImap.Lemmas.ClientConcSuf
/-!
  C13: the continuation-request queue is unambiguous. In the variants that register the IDLE
  request under the encoder lock, cancel the queue in closeWithError and do not queue requests of
  completed commands, requests of two different commands never coexist in `contReqs`.

  The owner of the encoder lock cannot release it while a request is queued: a queued request of
  command c is the command's latest request and the owner still has to wait for it, or the
  command's encoder has failed and the owner's next release point is the final flush of c (which
  then closes the client), or the owner is about to run closeWithError's swap.
-/
namespace GoImap.ClientConc

/-! ### scanners over programs -/

/-- classification for `waitB`: `none` = skipped, `some none` = stop, `some (some c)` = wait of c -/
def wK : Instr → Option (Option Nat)
  | .contWait c _ => some (some c)
  | .regCont _ | .flush _ _ .final | .encUnlock | .idleGo _ | .encLock | .idleDoneW _ | .idleWait _
  | .closeSwap | .connRead | .rdNext | .delByTag .. | .popCont => some none
  | _ => none

/-- the first relevant instruction is the wait for a continuation request of `c` -/
def waitB (c : Nat) : List Instr → Bool
  | [] => false
  | i :: r =>
    match wK i with
    | none => waitB c r
    | some none => false
    | some (some d) => d == c

/-- classification for `finalCmd`: `none` = skipped, `some x` = the answer is x -/
def fK : Instr → Option (Option Nat)
  | .flush c _ .final => some (some c)
  | .encUnlock | .idleGo _ | .encLock | .idleDoneW _ | .idleWait _
  | .closeSwap | .connRead | .rdNext | .delByTag .. | .popCont => some none
  | _ => none

/-- the command whose final flush is the next point at which the encoder lock is released -/
def finalCmd : List Instr → Option Nat
  | [] => none
  | i :: r =>
    match fK i with
    | none => finalCmd r
    | some x => x

/-- the program starts with closeWithError's swap -/
def swapA : List Instr → Bool
  | .closeSwap :: _ => true
  | _ => false

def loc2 : Instr → List Instr → Bool
  | .regCont c, r => waitB c r && (finalCmd r == none || finalCmd r == some c)
  | .contWait c false, r => finalCmd r == some c
  | .contWait _ true, r => finalCmd r == none
  | _, _ => true

theorem loc2_ok : LocOK loc2 := by
  refine ⟨?_, rfl, rfl, ?_, rfl, fun _ => rfl⟩
  · intro i r h
    cases i <;> simp [pushed] at h <;> rfl
  · intro l; cases l <;> rfl

theorem loc2_opProg (v : Variant) (h1 : v.idleUnderEnc = true) (k : Kind) (c : Nat) (q : List Instr)
    (hq : AllSuf loc2 q = true) : AllSuf loc2 (opProg v k c ++ q) = true := by
  cases k <;> simp only [opProg] <;>
    simp [h1, AllSuf, loc2, waitB, wK, finalCmd, fK, hq]

theorem loc2_progOfKinds (v : Variant) (h1 : v.idleUnderEnc = true) (ks : List Kind) (c : Nat) :
    AllSuf loc2 (progOfKinds v ks c) = true := by
  induction ks generalizing c with
  | nil => rfl
  | cons k ks ih => rw [progOfKinds]; exact loc2_opProg v h1 k c _ (ih _)

theorem loc2_map_srv (l : List SrvAct) : AllSuf loc2 (l.map Instr.srv) = true := by
  induction l with
  | nil => rfl
  | cons a l ih => simp only [List.map_cons, AllSuf, loc2, Bool.true_and]; exact ih

theorem loc2_closerProg (n : Nat) : AllSuf loc2 (closerProg n) = true := by
  induction n with
  | zero => rfl
  | succ n ih => simp only [closerProg, AllSuf, loc2, Bool.true_and]; exact ih

theorem loc2_obsProg (l : List Nat) : AllSuf loc2 (obsProg l) = true := by
  induction l with
  | nil => rfl
  | cons a l ih =>
    match a with
    | 0 => simp only [obsProg, AllSuf, loc2, Bool.true_and]; exact ih
    | 1 => simp only [obsProg, AllSuf, loc2, Bool.true_and]; exact ih
    | (n + 2) => simp only [obsProg, AllSuf, loc2, Bool.true_and]; exact ih
                 all_goals omega

theorem loc2_init (v : Variant) (h1 : v.idleUnderEnc = true) (sc : Scenario) :
    ∀ u, AllSuf loc2 ((init v sc).prog u) = true := by
  intro u
  simp only [init]
  split
  · rfl
  · split
    · exact loc2_map_srv _
    · split
      · exact loc2_closerProg _
      · split
        · exact loc2_obsProg _
        · split
          · unfold subProg; split
            · rfl
            · exact loc2_progOfKinds v h1 _ _
          · rfl

/-! ### the part of the state the invariant talks about -/

def uView (s : St) : Option Nat × List (Nat × Nat) × (Nat → Nat × Nat × Bool) :=
  (s.enc, s.contReqs, fun c => ((s.cmd c).cont, (s.cmd c).encErr, (s.cmd c).completed))

def uSpecial : Instr → Bool
  | .encLock | .flush .. | .regCont _ | .contWait .. | .idleGo _ | .idleDoneW _ | .closeSwap
  | .cancelConts .. | .encUnlock | .popCont => true
  | _ => false

theorem foldl_setCont_uView (ks : List Nat) (s : St) :
    uView (ks.foldl (fun acc k => acc.setCont k .cancelled) s) = uView s := by
  induction ks generalizing s with
  | nil => rfl
  | cons k ks ih => simp only [List.foldl]; rw [ih]; rfl

theorem foldl_setCont2_uView (ks : List (Nat × Nat)) (x : ContSt) (s : St) :
    uView (ks.foldl (fun acc kc => acc.setCont kc.1 x) s) = uView s := by
  induction ks generalizing s with
  | nil => rfl
  | cons k ks ih => simp only [List.foldl]; rw [ih]; rfl

theorem deliver_uView (s : St) (l : Line) : uView (deliver s l) = uView s := by
  unfold deliver; split <;> rfl

theorem exec_uView (v : Variant) (s : St) (t : Nat) (i : Instr) (rest : List Instr)
    (hi : uSpecial i = false) : uView (exec v s t i rest) = uView s := by
  cases i <;> simp [uSpecial] at hi
  case srv a =>
    simp only [exec]
    split
    · rfl
    · cases a <;> simp only [execSrv]
      case reply rep oldest =>
        split
        · rfl
        · show uView (deliver s _) = _; exact deliver_uView s _
      case cont =>
        split
        · rfl
        · show uView (deliver s _) = _; exact deliver_uView s _
      case enabled => show uView (deliver s _) = _; exact deliver_uView s _
      case close => rfl
      case rerr => rfl
  case cancelOrphans ks =>
    simp only [exec]
    show uView (List.foldl _ _ _) = _
    exact foldl_setCont_uView _ _
  all_goals
    simp only [exec]
    repeat' split
    all_goals
      first
        | rfl
        | (refine Prod.ext rfl (Prod.ext rfl ?_)
           funext d
           simp only [uView, setProg_cmd, updCmd_cmd]
           split <;> rfl)

/-! ### the scanners along a step of the program's own thread -/

theorem scan_same {p : List Instr} {i : Instr} {rest : List Instr} (hs : p = i :: rest) (c : Nat) :
    (waitB c (i :: rest) = true → waitB c p = true) ∧ (finalCmd (i :: rest) = some c → finalCmd p = some c) := by
  subst hs; exact ⟨id, id⟩

theorem exec_scan (v : Variant) (s : St) (t : Nat) (i : Instr) (rest : List Instr)
    (hs : s.prog t = i :: rest) (hi : uSpecial i = false) (c : Nat) :
    (waitB c (i :: rest) = true → waitB c ((exec v s t i rest).prog t) = true) ∧
    (finalCmd (i :: rest) = some c → finalCmd ((exec v s t i rest).prog t) = some c) := by
  cases i <;> simp [uSpecial] at hi
  case idleWait d => constructor <;> intro h <;> simp [waitB, wK, finalCmd, fK] at h
  case connRead => constructor <;> intro h <;> simp [waitB, wK, finalCmd, fK] at h
  case rdNext => constructor <;> intro h <;> simp [waitB, wK, finalCmd, fK] at h
  case delByTag tag rep caps => constructor <;> intro h <;> simp [waitB, wK, finalCmd, fK] at h
  case srv a =>
    simp only [exec]
    split
    · exact scan_same hs c
    · cases a <;> simp only [execSrv]
      case reply rep oldest =>
        split
        · exact scan_same hs c
        · simp only [setProg_prog, if_true]; simp [waitB, wK, finalCmd, fK]
      case cont =>
        split
        · exact scan_same hs c
        · simp only [setProg_prog, if_true]; simp [waitB, wK, finalCmd, fK]
      case enabled => simp only [setProg_prog, if_true]; simp [waitB, wK, finalCmd, fK]
      case close => simp only [setProg_prog, if_true]; simp [waitB, wK, finalCmd, fK]
      case rerr => simp only [setProg_prog, if_true]; simp [waitB, wK, finalCmd, fK]
  all_goals
    simp only [exec]
    repeat' split
    all_goals
      first
        | exact scan_same hs c
        | (simp only [setProg_prog, if_true]; simp [waitB, wK, finalCmd, fK])

/-! ### the invariant -/

/-- why the queued request `e` cannot outlive the critical section of the lock's owner, whose
    program is `p` -/
def Cov (s : St) (e : Nat × Nat) (p : List Instr) : Prop :=
  (e.1 = (s.cmd e.2).cont ∧ waitB e.2 p = true) ∨
  ((s.cmd e.2).encErr ≠ 0 ∧ finalCmd p = some e.2) ∨ swapA p = true

structure UCore (s : St) : Prop where
  cu1 : s.enc = none → s.contReqs = []
  cu4 : ∀ c, (s.cmd c).completed = true → ∀ e, e ∈ s.contReqs → e.2 ≠ c
  cu6 : ∀ c, (s.cmd c).encErr = 1 → (s.cmd c).completed = true
  w3 : ∀ e, e ∈ s.contReqs → ∃ t, s.enc = some t ∧ Cov s e (s.prog t)
  x : ∀ e1 e2, e1 ∈ s.contReqs → e2 ∈ s.contReqs → e1.2 = e2.2

structure Unamb (s : St) : Prop where
  core : UCore s
  suf : ∀ u, AllSuf loc2 (s.prog u) = true

theorem unamb_same (s : St) (h : Unamb s) :
    ∀ e1 e2, e1 ∈ s.contReqs → e2 ∈ s.contReqs → e1.2 = e2.2 := h.core.x

theorem ucore_empty {s' : St} (he : s'.contReqs = [])
    (h6 : ∀ c, (s'.cmd c).encErr = 1 → (s'.cmd c).completed = true) : UCore s' := by
  refine ⟨fun _ => he, ?_, h6, ?_, ?_⟩
  · intro c _ e hm; rw [he] at hm; cases hm
  · intro e hm; rw [he] at hm; cases hm
  · intro e1 _ hm; rw [he] at hm; cases hm

theorem nil_of_forall_false {α : Type} (l : List α) (h : ∀ e, e ∈ l → False) : l = [] := by
  cases l with
  | nil => rfl
  | cons a l => exact (h a List.mem_cons_self).elim

theorem owner_cov {s : St} (h : Unamb s) {t : Nat} (ht : s.enc = some t) {p : List Instr}
    (hs : s.prog t = p) : ∀ e, e ∈ s.contReqs → Cov s e p := by
  intro e he
  obtain ⟨t', h1, h2⟩ := h.core.w3 e he
  rw [ht] at h1
  injection h1 with h1
  subst h1
  rw [hs] at h2
  exact h2

theorem cov_of {s s' : St} {e : Nat × Nat} {p p' : List Instr}
    (hc : (s'.cmd e.2).cont = (s.cmd e.2).cont)
    (he : (s.cmd e.2).encErr ≠ 0 → (s'.cmd e.2).encErr ≠ 0)
    (hw : waitB e.2 p = true → waitB e.2 p' = true)
    (hf : finalCmd p = some e.2 → finalCmd p' = some e.2)
    (hsw : swapA p = true → swapA p' = true) : Cov s e p → Cov s' e p' := by
  intro h
  rcases h with ⟨a, b⟩ | ⟨a, b⟩ | b
  · exact Or.inl ⟨by rw [hc]; exact a, hw b⟩
  · exact Or.inr (Or.inl ⟨he a, hf b⟩)
  · exact Or.inr (Or.inr (hsw b))

/-- a step that neither adds to the queue nor changes the owner of the lock -/
theorem ucore_transfer {s s' : St} (h : Unamb s)
    (hsub : ∀ e, e ∈ s'.contReqs → e ∈ s.contReqs)
    (henc : s'.enc = s.enc)
    (hcompl : ∀ c, (s'.cmd c).completed = true →
      (s.cmd c).completed = true ∨ ∀ e, e ∈ s'.contReqs → e.2 ≠ c)
    (hcu6 : ∀ c, (s'.cmd c).encErr = 1 → (s'.cmd c).completed = true)
    (hcov : ∀ e, e ∈ s'.contReqs → ∀ t, s.enc = some t → Cov s e (s.prog t) → Cov s' e (s'.prog t)) :
    UCore s' := by
  refine ⟨?_, ?_, hcu6, ?_, ?_⟩
  · intro hn
    rw [henc] at hn
    have := h.core.cu1 hn
    apply nil_of_forall_false
    intro e he
    have := hsub e he
    rw [‹s.contReqs = []›] at this
    cases this
  · intro c hc e he
    rcases hcompl c hc with a | a
    · exact h.core.cu4 c a e (hsub e he)
    · exact a e he
  · intro e he
    obtain ⟨t, h1, h2⟩ := h.core.w3 e (hsub e he)
    exact ⟨t, by rw [henc]; exact h1, hcov e he t h1 h2⟩
  · intro e1 e2 h1 h2
    exact h.core.x e1 e2 (hsub e1 h1) (hsub e2 h2)

theorem holds_of {s : St} {t : Nat} (h : ¬ (!s.holds t) = true) : s.enc = some t := by
  simpa [St.holds] using h

/-- instructions outside the submission protocol -/
theorem ucore_boring (v : Variant) (s : St) (t : Nat) (i : Instr) (rest : List Instr)
    (hs : s.prog t = i :: rest) (hi : uSpecial i = false) (h : Unamb s) : UCore (exec v s t i rest) := by
  have hv := exec_uView v s t i rest hi
  simp only [uView, Prod.mk.injEq] at hv
  obtain ⟨e1, e2, e3⟩ := hv
  have e3' : ∀ c, ((exec v s t i rest).cmd c).cont = (s.cmd c).cont ∧
      ((exec v s t i rest).cmd c).encErr = (s.cmd c).encErr ∧
      ((exec v s t i rest).cmd c).completed = (s.cmd c).completed := by
    intro c
    have := congrFun e3 c
    simp only [Prod.mk.injEq] at this
    exact this
  refine ucore_transfer h (fun e he => by rw [e2] at he; exact he) e1
    (fun c hc => Or.inl (by rw [(e3' c).2.2] at hc; exact hc))
    (fun c hc => by rw [(e3' c).2.2]; rw [(e3' c).2.1] at hc; exact h.core.cu6 c hc) ?_
  intro e _ t0 ht0 hc
  by_cases htt : t0 = t
  · subst htt
    rw [hs] at hc
    refine cov_of (e3' _).1 (fun a => by rw [(e3' _).2.1]; exact a)
      (exec_scan v s t0 i rest hs hi e.2).1 (exec_scan v s t0 i rest hs hi e.2).2 ?_ hc
    intro hsw
    cases i <;> simp [swapA] at hsw
    simp [uSpecial] at hi
  · rw [exec_prog_other v s t t0 i rest htt (fun c e => by subst e; simp [uSpecial] at hi)]
    exact cov_of (e3' _).1 (fun a => by rw [(e3' _).2.1]; exact a) id id id hc

/-! ### the instructions of the submission protocol -/

theorem ucore_encLock (v : Variant) (s : St) (t : Nat) (rest : List Instr) (h : Unamb s) :
    UCore (exec v s t .encLock rest) := by
  simp only [exec]
  split
  · rename_i hn
    exact ucore_empty (h.core.cu1 hn) h.core.cu6
  · exact h.core

theorem ucore_closeSwap (v : Variant) (h2 : v.cancelOnClose = true) (s : St) (t : Nat) (rest : List Instr)
    (h : Unamb s) : UCore (exec v s t .closeSwap rest) := by
  simp only [exec, h2, if_true]
  exact ucore_empty rfl h.core.cu6

theorem owner_stop {s : St} (h : Unamb s) {t : Nat} (ht : s.enc = some t) {p : List Instr}
    (hs : s.prog t = p) (h1 : ∀ c, waitB c p = false) (h2 : finalCmd p = none) (h3 : swapA p = false) :
    s.contReqs = [] := by
  apply nil_of_forall_false
  intro e he
  rcases owner_cov h ht hs e he with ⟨_, b⟩ | ⟨_, b⟩ | b
  · rw [h1] at b; cases b
  · rw [h2] at b; cases b
  · rw [h3] at b; cases b

theorem ucore_encUnlock (v : Variant) (s : St) (t : Nat) (rest : List Instr)
    (hs : s.prog t = .encUnlock :: rest) (h : Unamb s) : UCore (exec v s t .encUnlock rest) := by
  simp only [exec]
  split
  · exact h.core
  · rename_i hg
    have hempty := owner_stop h (holds_of hg) hs (fun c => by simp [waitB, wK]) (by simp [finalCmd, fK]) rfl
    exact ucore_empty hempty h.core.cu6

theorem ucore_idleDoneW (v : Variant) (s : St) (t c : Nat) (rest : List Instr)
    (hs : s.prog t = .idleDoneW c :: rest) (h : Unamb s) : UCore (exec v s t (.idleDoneW c) rest) := by
  simp only [exec]
  split
  · exact h.core
  · rename_i hg
    have hempty := owner_stop h (holds_of hg) hs (fun c => by simp [waitB, wK]) (by simp [finalCmd, fK]) rfl
    split
    · exact ucore_empty hempty h.core.cu6
    · refine ucore_empty hempty ?_
      intro d hd
      simp only [setProg_cmd, updCmd_cmd] at hd ⊢
      split at hd <;> split <;> first | exact h.core.cu6 _ hd | (rename_i a b; exact absurd a b) | skip
      all_goals exact h.core.cu6 _ hd

theorem ucore_idleGo (v : Variant) (s : St) (t c : Nat) (rest : List Instr)
    (hs : s.prog t = .idleGo c :: rest) (h : Unamb s) : UCore (exec v s t (.idleGo c) rest) := by
  simp only [exec]
  split
  · exact h.core
  · rename_i hg
    have ht : s.enc = some t := by
      simp only [Bool.or_eq_true, not_or] at hg
      exact holds_of hg.1.1
    have hempty := owner_stop h ht hs (fun c => by simp [waitB, wK]) (by simp [finalCmd, fK]) rfl
    exact ucore_empty hempty h.core.cu6

theorem ucore_popCont (v : Variant) (s : St) (t : Nat) (rest : List Instr)
    (hs : s.prog t = .popCont :: rest) (h : Unamb s) : UCore (exec v s t .popCont rest) := by
  simp only [exec]
  split
  · rename_i hn
    exact ucore_empty hn h.core.cu6
  · rename_i k c more hq
    refine ucore_transfer h (fun e he => by rw [hq]; exact List.mem_cons_of_mem _ he) rfl
      (fun c hc => Or.inl hc) h.core.cu6 ?_
    intro e _ t0 ht0 hc
    by_cases htt : t0 = t
    · subst htt
      rw [hs] at hc
      rcases hc with ⟨_, b⟩ | ⟨_, b⟩ | b
      · simp [waitB, wK] at b
      · simp [finalCmd, fK] at b
      · simp [swapA] at b
    · rw [setProg_prog, if_neg htt]
      exact cov_of rfl id id id id hc

theorem ucore_cancel_aux {s F : St} (c t : Nat) (r : Res) (rest : List Instr) (h : Unamb s)
    (hs : s.prog t = .cancelConts c r :: rest)
    (hv : uView F = uView { s with contReqs := s.contReqs.filter (fun x => decide (x.2 ≠ c)) })
    (hp : F.prog = s.prog) :
    UCore ((F.updCmd c fun rc => { rc with completed := true }).setProg t rest) := by
  simp only [uView, Prod.mk.injEq] at hv
  obtain ⟨e1, e2, e3⟩ := hv
  have e3' : ∀ d, (F.cmd d).cont = (s.cmd d).cont ∧ (F.cmd d).encErr = (s.cmd d).encErr ∧
      (F.cmd d).completed = (s.cmd d).completed := by
    intro d
    have := congrFun e3 d
    simp only [Prod.mk.injEq] at this
    exact this
  have hcont : ∀ d, (((F.updCmd c fun rc => { rc with completed := true }).setProg t rest).cmd d).cont = (s.cmd d).cont := by
    intro d; rw [setProg_cmd, updCmd_cmd]; split
    · exact (e3' d).1
    · exact (e3' d).1
  have herr : ∀ d, (((F.updCmd c fun rc => { rc with completed := true }).setProg t rest).cmd d).encErr = (s.cmd d).encErr := by
    intro d; rw [setProg_cmd, updCmd_cmd]; split
    · exact (e3' d).2.1
    · exact (e3' d).2.1
  have hmem : ∀ e, e ∈ ((F.updCmd c fun rc => { rc with completed := true }).setProg t rest).contReqs →
      e ∈ s.contReqs ∧ e.2 ≠ c := by
    intro e he
    rw [setProg_contReqs, updCmd_contReqs, e2] at he
    have := List.mem_filter.mp he
    exact ⟨this.1, by simpa using this.2⟩
  refine ucore_transfer h (fun e he => (hmem e he).1) e1 ?_ ?_ ?_
  · intro d hd
    by_cases hdc : d = c
    · right; intro e he; rw [hdc]; exact (hmem e he).2
    · left
      rw [setProg_cmd, updCmd_cmd, if_neg hdc, (e3' d).2.2] at hd
      exact hd
  · intro d hd
    rw [herr] at hd
    have := h.core.cu6 d hd
    rw [setProg_cmd, updCmd_cmd]
    split
    · rfl
    · rw [(e3' d).2.2]; exact this
  · intro e _ t0 ht0 hc
    refine cov_of (hcont _) (fun a => by rw [herr]; exact a) ?_ ?_ ?_ hc
    all_goals
      rw [setProg_prog, updCmd_prog, hp]
      split
      · rename_i htt
        rw [htt, hs]
        simp [waitB, wK, finalCmd, fK, swapA]
      · exact id

theorem ucore_cancelConts (v : Variant) (s : St) (t c : Nat) (r : Res) (rest : List Instr)
    (hs : s.prog t = .cancelConts c r :: rest) (h : Unamb s) :
    UCore (exec v s t (.cancelConts c r) rest) := by
  simp only [exec]
  exact ucore_cancel_aux c t r rest h hs (foldl_setCont2_uView _ _ _) (foldl_setCont2_prog _ _ _)

theorem ucore_regCont (v : Variant) (h1 : v.idleUnderEnc = true) (h3 : v.cancelIfCompleted = true)
    (s : St) (t c : Nat) (rest : List Instr)
    (hs : s.prog t = .regCont c :: rest) (h : Unamb s) : UCore (exec v s t (.regCont c) rest) := by
  simp only [exec, h1, h3, Bool.true_and]
  split
  · exact h.core
  · rename_i hg
    have ht := holds_of hg
    have hloc : loc2 (.regCont c) rest = true := by
      have := h.suf t; rw [hs] at this; exact allSuf_head this
    simp only [loc2, Bool.and_eq_true, Bool.or_eq_true, beq_iff_eq] at hloc
    have hold : ∀ e, e ∈ s.contReqs → (s.cmd e.2).encErr ≠ 0 ∧ finalCmd rest = some e.2 := by
      intro e he
      rcases owner_cov h ht hs e he with ⟨_, b⟩ | ⟨a, b⟩ | b
      · simp [waitB, wK] at b
      · exact ⟨a, by simpa [finalCmd, fK] using b⟩
      · simp [swapA] at b
    have holdc : ∀ e, e ∈ s.contReqs → e.2 = c := by
      intro e he
      have := (hold e he).2
      rcases hloc.2 with a | a
      · rw [a] at this; cases this
      · rw [a] at this; injection this with this; exact this.symm
    split
    · -- the command is completed: nothing is queued
      refine ucore_transfer h (fun e he => he) rfl (fun d hd => Or.inl ?_) ?_ ?_
      · simp only [setProg_cmd, updCmd_cmd] at hd
        split at hd <;> exact hd
      · intro d hd
        simp only [setProg_cmd, updCmd_cmd] at hd ⊢
        split at hd <;> split <;> first | exact h.core.cu6 _ hd | (rename_i a b; exact absurd a b) | skip
        all_goals exact h.core.cu6 _ hd
      · intro e he t0 ht0 _
        rw [ht] at ht0; injection ht0 with ht0; subst ht0
        rw [setProg_prog, if_pos rfl]
        right; left
        refine ⟨?_, (hold e he).2⟩
        simp only [setProg_cmd, updCmd_cmd]
        split <;> exact (hold e he).1
    · rename_i hcomp
      refine ⟨?_, ?_, ?_, ?_, ?_⟩
      · intro hn
        have : s.enc = none := hn
        rw [ht] at this; cases this
      · intro d hd e he
        have hd' : (s.cmd d).completed = true := by
          simp only [setProg_cmd, updCmd_cmd] at hd
          split at hd <;> exact hd
        have he' : e ∈ s.contReqs ++ [(s.nextCont, c)] := he
        rcases List.mem_append.mp he' with hm | hm
        · exact h.core.cu4 d hd' e hm
        · rw [List.mem_singleton] at hm
          rw [hm]
          intro e0
          exact hcomp (by rw [← e0] at hd'; exact hd')
      · intro d hd
        simp only [setProg_cmd, updCmd_cmd] at hd ⊢
        split at hd <;> split <;> first | exact h.core.cu6 _ hd | (rename_i a b; exact absurd a b) | skip
        all_goals exact h.core.cu6 _ hd
      · intro e he
        refine ⟨t, ht, ?_⟩
        have he' : e ∈ s.contReqs ++ [(s.nextCont, c)] := he
        rw [setProg_prog, if_pos rfl]
        rcases List.mem_append.mp he' with hm | hm
        · right; left
          refine ⟨?_, (hold e hm).2⟩
          simp only [setProg_cmd, updCmd_cmd]
          split <;> exact (hold e hm).1
        · rw [List.mem_singleton] at hm
          left
          rw [hm]
          refine ⟨?_, hloc.1⟩
          simp only [setProg_cmd, updCmd_cmd, if_true]
      · intro e1 e2 he1 he2
        have key : ∀ e, e ∈ s.contReqs ++ [(s.nextCont, c)] → e.2 = c := by
          intro e he
          rcases List.mem_append.mp he with hm | hm
          · exact holdc e hm
          · rw [List.mem_singleton] at hm; rw [hm]
        rw [key e1 he1, key e2 he2]

/-- the owner passes `contWait c idle`: requests covered by that wait are now covered by the
    command's final flush (or are gone) -/
theorem ucore_contWait_pass {s s' : St} (h : Unamb s) (t c : Nat) (idle : Bool) (rest : List Instr)
    (hs : s.prog t = .contWait c idle :: rest) (ht : s.enc = some t)
    (henc : s'.enc = s.enc) (hreq : s'.contReqs = s.contReqs) (hprog : s'.prog t = rest)
    (hcmd : ∀ d, (s'.cmd d).cont = (s.cmd d).cont ∧ (s'.cmd d).completed = (s.cmd d).completed ∧
      ((s.cmd d).encErr ≠ 0 → (s'.cmd d).encErr ≠ 0) ∧
      ((s'.cmd d).encErr = 1 → (s.cmd d).encErr = 1 ∨ (s.cmd d).completed = true))
    (hd1 : ∀ e, e ∈ s.contReqs → e.2 = c → e.1 = (s.cmd c).cont →
      (s'.cmd c).encErr ≠ 0 ∧ finalCmd rest = some c) : UCore s' := by
  refine ucore_transfer h (fun e he => by rw [hreq] at he; exact he) henc
    (fun d hd => Or.inl (by rw [(hcmd d).2.1] at hd; exact hd)) ?_ ?_
  · intro d hd
    rw [(hcmd d).2.1]
    rcases (hcmd d).2.2.2 hd with a | a
    · exact h.core.cu6 d a
    · exact a
  · intro e he t0 ht0 hc
    rw [hreq] at he
    rw [ht] at ht0; injection ht0 with ht0; subst ht0
    rw [hs] at hc
    rw [hprog]
    rcases hc with ⟨a, b⟩ | ⟨a, b⟩ | b
    · have hec : e.2 = c := by
        simp only [waitB, wK, beq_iff_eq] at b; exact b.symm
      have := hd1 e he hec (by rw [← hec]; exact a)
      right; left
      rw [hec]; exact this
    · right; left
      exact ⟨(hcmd _).2.2.1 a, by simpa [finalCmd, fK] using b⟩
    · simp [swapA] at b

theorem ucore_contWait (v : Variant) (s : St) (t c : Nat) (idle : Bool) (rest : List Instr)
    (hs : s.prog t = .contWait c idle :: rest)
    (hq : ∀ e, e ∈ s.contReqs → s.contSt e.1 = ContSt.waiting) (h : Unamb s) :
    UCore (exec v s t (.contWait c idle) rest) := by
  have hloc : loc2 (.contWait c idle) rest = true := by
    have := h.suf t; rw [hs] at this; exact allSuf_head this
  have hnw : s.contSt (s.cmd c).cont ≠ ContSt.waiting →
      ∀ e, e ∈ s.contReqs → e.2 = c → e.1 = (s.cmd c).cont → False := by
    intro hne e he _ h1
    have := hq e he
    rw [h1] at this
    exact hne this
  have hsame : ∀ d, ((s.setProg t rest).cmd d).cont = (s.cmd d).cont ∧
      ((s.setProg t rest).cmd d).completed = (s.cmd d).completed ∧
      ((s.cmd d).encErr ≠ 0 → ((s.setProg t rest).cmd d).encErr ≠ 0) ∧
      (((s.setProg t rest).cmd d).encErr = 1 → (s.cmd d).encErr = 1 ∨ (s.cmd d).completed = true) :=
    fun d => ⟨rfl, rfl, id, Or.inl⟩
  cases idle
  · simp only [loc2, beq_iff_eq] at hloc
    simp only [exec, Bool.not_false, Bool.true_and, decide_eq_true_eq, Bool.false_eq_true, if_false]
    split
    · exact h.core
    · rename_i hg
      have ht := holds_of hg
      split
      · rename_i herr
        exact ucore_contWait_pass h t c false rest hs ht rfl rfl (by rw [setProg_prog, if_pos rfl]) hsame
          (fun e _ _ _ => ⟨herr, hloc⟩)
      · split
        · rename_i hst
          exact ucore_contWait_pass h t c false rest hs ht rfl rfl (by rw [setProg_prog, if_pos rfl]) hsame
            (fun e he a b => (hnw (by rw [hst]; exact fun x => by cases x) e he a b).elim)
        · rename_i hst
          refine ucore_contWait_pass h t c false rest hs ht rfl rfl (by rw [setProg_prog, if_pos rfl]) ?_
            (fun e he a b => (hnw (by rw [hst]; exact fun x => by cases x) e he a b).elim)
          intro d
          simp only [setProg_cmd, updCmd_cmd]
          split
          · exact ⟨rfl, rfl, fun _ => by simp, fun x => by simp at x⟩
          · exact ⟨rfl, rfl, id, Or.inl⟩
        · rename_i hst
          refine ucore_contWait_pass h t c false rest hs ht rfl rfl (by rw [setProg_prog, if_pos rfl]) ?_
            (fun e he a b => (hnw (by rw [hst]; exact fun x => by cases x) e he a b).elim)
          intro d
          simp only [setProg_cmd, updCmd_cmd]
          split
          · refine ⟨rfl, rfl, fun _ => ?_, fun x => ?_⟩
            · show (if (s.cmd d).completed = true then 1 else 2) ≠ 0
              split <;> simp
            · right
              have x' : (if (s.cmd d).completed = true then 1 else 2) = 1 := x
              split at x'
              · assumption
              · simp at x'
          · exact ⟨rfl, rfl, id, Or.inl⟩
        · exact h.core
  · simp only [loc2, beq_iff_eq] at hloc
    simp only [exec, Bool.not_true, Bool.false_and, Bool.false_eq_true, if_false, if_true]
    split
    · exact h.core
    · rename_i hg
      have ht := holds_of hg
      have hgone : s.contSt (s.cmd c).cont ≠ ContSt.waiting → s.contReqs = [] := by
        intro hne
        apply nil_of_forall_false
        intro e he
        rcases owner_cov h ht hs e he with ⟨a, b⟩ | ⟨a, b⟩ | b
        · have hec : e.2 = c := by
            simp only [waitB, wK, beq_iff_eq] at b; exact b.symm
          exact hnw hne e he hec (by rw [← hec]; exact a)
        · have : finalCmd rest = some e.2 := by simpa [finalCmd, fK] using b
          rw [hloc] at this; cases this
        · simp [swapA] at b
      split
      · rename_i hst
        exact ucore_contWait_pass h t c true rest hs ht rfl rfl (by rw [setProg_prog, if_pos rfl]) hsame
          (fun e he a b => (hnw (by rw [hst]; exact fun x => by cases x) e he a b).elim)
      · rename_i hst
        exact ucore_empty (hgone (by rw [hst]; exact fun x => by cases x)) h.core.cu6
      · rename_i hst
        exact ucore_empty (hgone (by rw [hst]; exact fun x => by cases x)) h.core.cu6
      · exact h.core

theorem ucore_flushBody {s : St} (h : Unamb s) (t c : Nat) (w : WireKind) (m : FlushMode) (rest : List Instr)
    (ht : s.enc = some t) (hs : s.prog t = .flush c w m :: rest) : UCore (flushBody s t c w m rest) := by
  have hown : ∀ t0, s.enc = some t0 → t0 = t := by
    intro t0 h0; rw [ht] at h0; injection h0 with h0; exact h0.symm
  cases m
  case final =>
    have hfin : ∀ e, e ∈ s.contReqs → e.2 = c ∧ (s.cmd c).encErr ≠ 0 := by
      intro e he
      rcases owner_cov h ht hs e he with ⟨_, b⟩ | ⟨a, b⟩ | b
      · simp [waitB, wK] at b
      · have : c = e.2 := by simpa [finalCmd, fK] using b
        exact ⟨this.symm, by rw [this]; exact a⟩
      · simp [swapA] at b
    simp only [flushBody]
    split
    · rename_i hb
      simp only [Bool.and_eq_true, decide_eq_true_eq] at hb
      refine ucore_empty (nil_of_forall_false _ ?_) h.core.cu6
      intro e he
      have he' : e ∈ s.contReqs := he
      exact h.core.cu4 c (h.core.cu6 c hb.1) e he' (hfin e he').1
    · split
      · rename_i hb
        simp only [Bool.and_eq_true, decide_eq_true_eq] at hb
        refine ucore_empty (nil_of_forall_false _ ?_) h.core.cu6
        intro e he
        have he' : e ∈ s.contReqs := he
        exact (hfin e he').2 hb.1
      · refine ucore_transfer h (fun e he => he) rfl (fun d hd => Or.inl hd) h.core.cu6 ?_
        intro e _ t0 ht0 _
        rw [hown t0 ht0, setProg_prog, if_pos rfl]
        exact Or.inr (Or.inr rfl)
  case lit =>
    have hpop : ∀ e t0, s.enc = some t0 → ∀ s' : St, s'.prog t0 = rest →
        (s'.cmd e.2).cont = (s.cmd e.2).cont → ((s.cmd e.2).encErr ≠ 0 → (s'.cmd e.2).encErr ≠ 0) →
        Cov s e (s.prog t0) → Cov s' e (s'.prog t0) := by
      intro e t0 ht0 s' hp hc he hcv
      rw [hown t0 ht0] at hcv hp ⊢
      rw [hs] at hcv; rw [hp]
      refine cov_of hc he ?_ ?_ ?_ hcv
      · simp [waitB, wK]
      · simp [finalCmd, fK]
      · simp [swapA]
    simp only [flushBody]
    split
    · exact ucore_transfer h (fun e he => he) rfl (fun d hd => Or.inl hd) h.core.cu6
        (fun e _ t0 ht0 hcv => hpop e t0 ht0 _ (by rw [hown t0 ht0, setProg_prog, if_pos rfl]) rfl id hcv)
    · split
      · exact ucore_transfer h (fun e he => he) rfl (fun d hd => Or.inl hd) h.core.cu6
          (fun e _ t0 ht0 hcv => hpop e t0 ht0 _ (by rw [hown t0 ht0, setProg_prog, if_pos rfl]) rfl id hcv)
      · refine ucore_transfer h (fun e he => he) rfl (fun d hd => Or.inl ?_) ?_ ?_
        · simp only [setProg_cmd, updCmd_cmd] at hd
          split at hd <;> exact hd
        · intro d hd
          simp only [setProg_cmd, updCmd_cmd] at hd ⊢
          split at hd
          · simp at hd
          · rename_i hne; rw [if_neg hne]; exact h.core.cu6 d hd
        · intro e _ t0 ht0 hcv
          refine hpop e t0 ht0 _ (by rw [hown t0 ht0, setProg_prog, if_pos rfl]) ?_ ?_ hcv
          · simp only [setProg_cmd, updCmd_cmd]; split <;> rfl
          · intro hne
            simp only [setProg_cmd, updCmd_cmd]
            split
            · simp
            · exact hne
  case idle =>
    simp only [flushBody]
    split
    · refine ucore_transfer h (fun e he => he) rfl (fun d hd => Or.inl hd) h.core.cu6 ?_
      intro e _ t0 ht0 hcv
      rw [hown t0 ht0] at hcv ⊢
      rw [hs] at hcv; rw [setProg_prog, if_pos rfl]
      refine cov_of rfl id ?_ ?_ ?_ hcv
      · simp [waitB, wK]
      · simp [finalCmd, fK]
      · simp [swapA]
    · refine ucore_transfer h (fun e he => he) rfl (fun d hd => Or.inl hd) h.core.cu6 ?_
      intro e _ t0 ht0 _
      rw [hown t0 ht0, setProg_prog, if_pos rfl]
      exact Or.inr (Or.inr rfl)

theorem ucore_flush (v : Variant) (s : St) (t c : Nat) (w : WireKind) (m : FlushMode) (rest : List Instr)
    (hs : s.prog t = .flush c w m :: rest) (h : Unamb s) : UCore (exec v s t (.flush c w m) rest) := by
  simp only [exec]
  split
  · exact h.core
  · rename_i hg
    have ht := holds_of hg
    split
    · exact h.core
    · split
      · exact ucore_flushBody (s := { s with unfl := none })
          ⟨⟨h.core.cu1, h.core.cu4, h.core.cu6, h.core.w3, h.core.x⟩, h.suf⟩ t c w m rest ht hs
      · exact ucore_flushBody h t c w m rest ht hs

/-! ### the step lemma -/

theorem ucore_exec (v : Variant) (h1 : v.idleUnderEnc = true) (h2 : v.cancelOnClose = true)
    (h3 : v.cancelIfCompleted = true) (s : St) (t : Nat) (i : Instr) (rest : List Instr)
    (hs : s.prog t = i :: rest)
    (hq : ∀ e, e ∈ s.contReqs → s.contSt e.1 = ContSt.waiting) (h : Unamb s) :
    UCore (exec v s t i rest) := by
  cases hi : uSpecial i
  · exact ucore_boring v s t i rest hs hi h
  · cases i <;> simp [uSpecial] at hi
    case encLock => exact ucore_encLock v s t rest h
    case flush c w m => exact ucore_flush v s t c w m rest hs h
    case regCont c => exact ucore_regCont v h1 h3 s t c rest hs h
    case contWait c idle => exact ucore_contWait v s t c idle rest hs hq h
    case idleGo c => exact ucore_idleGo v s t c rest hs h
    case idleDoneW c => exact ucore_idleDoneW v s t c rest hs h
    case closeSwap => exact ucore_closeSwap v h2 s t rest h
    case cancelConts c r => exact ucore_cancelConts v s t c r rest hs h
    case encUnlock => exact ucore_encUnlock v s t rest hs h
    case popCont => exact ucore_popCont v s t rest hs h

theorem ucore_skipCaps (s : St) (t : Nat) (h : Unamb s) : UCore (skipCaps s t) := by
  unfold skipCaps
  split
  · rename_i record rest hs
    split
    · have key : ∀ s0 : St, s0.enc = s.enc → s0.contReqs = s.contReqs → s0.cmd = s.cmd → s0.prog = s.prog →
          UCore (s0.setProg t rest) := by
        intro s0 e1 e2 e3 e4
        refine ucore_transfer h (fun e he => by rw [setProg_contReqs, e2] at he; exact he)
          (by rw [setProg_enc, e1]) (fun d hd => Or.inl (by rw [setProg_cmd, e3] at hd; exact hd))
          (fun d hd => by rw [setProg_cmd, e3] at hd ⊢; exact h.core.cu6 d hd) ?_
        intro e _ t0 _ hc
        have hcm : (s0.setProg t rest).cmd = s.cmd := by rw [setProg_cmd, e3]
        refine cov_of (by rw [hcm]) (by rw [hcm]; exact id) ?_ ?_ ?_ hc
        all_goals
          rw [setProg_prog, e4]
          split
          · rename_i htt
            rw [htt, hs]
            simp [waitB, wK, finalCmd, fK, swapA]
          · exact id
      split
      · exact key _ rfl rfl rfl rfl
      · exact key _ rfl rfl rfl rfl
    · exact h.core
  · exact h.core

theorem unamb_step (v : Variant) (h1 : v.idleUnderEnc = true) (h2 : v.cancelOnClose = true)
    (h3 : v.cancelIfCompleted = true) (s : St) (t : Nat)
    (hq : ∀ e, e ∈ s.contReqs → s.contSt e.1 = ContSt.waiting) (h : Unamb s) : Unamb (step v s t) := by
  refine ⟨?_, allSuf_step loc2_ok v s t h.suf⟩
  unfold step
  split
  · exact h.core
  · split
    · split
      · exact ucore_skipCaps s _ h
      · exact h.core
    · split
      · exact h.core
      · split
        · exact h.core
        · rename_i i rest hs
          exact ucore_exec v h1 h2 h3 s t i rest hs hq h

theorem unamb_init (v : Variant) (h1 : v.idleUnderEnc = true) (sc : Scenario) : Unamb (init v sc) :=
  ⟨ucore_empty rfl (fun c hc => by simp [init] at hc), loc2_init v h1 sc⟩

end GoImap.ClientConc
