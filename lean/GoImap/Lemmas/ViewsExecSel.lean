/-
  C08 helper lemmas, part 10: the commands of the selected state.
-/
import GoImap.Lemmas.ViewsExec
namespace GoImap.ViewsLemmas
open GoImap.Tracker GoImap.TrackerSpec GoImap.TrackerLemmas GoImap.Views GoImap.ViewsSpec

/-- positions selected by a set name messages of the mailbox -/
theorem selectMsgs_items {b : MBox} {g : GSt} (hmb : MbInv b g) (c : Nat) (uid : Bool) (set : NSet) :
    ∀ im ∈ selectMsgs b c uid set, 1 ≤ im.1 ∧ g.mbox[im.1 - 1]? = some (im.2.uid - 1) ∧ 1 ≤ im.2.uid := by
  intro im him
  simp only [selectMsgs, List.mem_filter] at him
  obtain ⟨i, msg⟩ := im
  obtain ⟨h1, h2⟩ := mem_indexed him.1
  obtain ⟨h3, h4⟩ := msg_uid hmb h2
  exact ⟨h1, h3, h4⟩

theorem good_no {st : Views.St} {G : List GSt} {A : List View} (h : GInv st G A) (c : Nat) {k : Kind}
    (hk : k ≠ .select) : Good A c k (st, Views.no) := good_same h c hk .no (by intro hh; cases hh) (by intro hh; cases hh) (by intro hh; cases hh)

theorem exec_close {st : Views.St} {G : List GSt} {A : List View} (h : GInv st G A) {c : Nat} {cn : Conn}
    (hc : st.conns[c]? = some cn) {m : Nat} {b : MBox} (hb : st.mb[m]? = some b) :
    ∃ r, execSelected {} st c cn m b .close = some r ∧ Good A c .unselect r := by
  have hmlt : m < G.length := by rw [← h.mlen]; exact (List.getElem?_eq_some_iff.mp hb).1
  obtain ⟨b', G1, hex, h1⟩ := ginv_expungeAt h hb (List.getElem?_eq_getElem hmlt) (fun im => im.2.flags &&& 1 == 1)
  obtain ⟨st1, G2, cn1, hu, h2, _, _⟩ := unselectConn_good h1 (c := c) (cn := cn) hc
  exact ⟨(st1, Views.ok []), by simp only [execSelected, hex, hu], by simp [Views.ok], by simp [Views.ok], G2, [], rfl, h2⟩

theorem exec_unselect {st : Views.St} {G : List GSt} {A : List View} (h : GInv st G A) {c : Nat} {cn : Conn}
    (hc : st.conns[c]? = some cn) {m : Nat} {b : MBox} :
    ∃ r, execSelected {} st c cn m b .unselect = some r ∧ Good A c .unselect r := by
  obtain ⟨st1, G2, cn1, hu, h2, _, _⟩ := unselectConn_good h hc
  exact ⟨(st1, Views.ok []), by simp only [execSelected, hu], by simp [Views.ok], by simp [Views.ok], G2, [], rfl, h2⟩

theorem exec_expunge {st : Views.St} {G : List GSt} {A : List View} (h : GInv st G A) {c : Nat} {cn : Conn}
    (hc : st.conns[c]? = some cn) {m : Nat} {b : MBox} (hb : st.mb[m]? = some b) :
    ∃ r, execSelected {} st c cn m b .expunge = some r ∧ Good A c .other r := by
  have hcA : c < A.length := by rw [← h.clen]; exact (List.getElem?_eq_some_iff.mp hc).1
  have hmlt : m < G.length := by rw [← h.mlen]; exact (List.getElem?_eq_some_iff.mp hb).1
  obtain ⟨b', G1, hex, h1⟩ := ginv_expungeAt h hb (List.getElem?_eq_getElem hmlt) (fun im => im.2.flags &&& 1 == 1)
  have hX : GInv (setMb st m b') G1 (A.set c (A.getD c [])) := by rw [set_getD_self]; exact h1
  obtain ⟨r', hr', hg⟩ := good_poll_tail (k := .other) (evs := []) hcA hX rfl rfl (allow := true)
    (by intro hh; cases hh) none none
  exact ⟨(r'.1, Views.ok r'.2), by simp only [execSelected, hex, hr'], by simpa [Views.ok] using hg⟩

theorem exec_uidExpunge {st : Views.St} {G : List GSt} {A : List View} (h : GInv st G A) {c : Nat} {cn : Conn}
    (hc : st.conns[c]? = some cn) {m : Nat} {b : MBox} (hb : st.mb[m]? = some b) (set : NSet) :
    ∃ r, execSelected {} st c cn m b (.uidExpunge set) = some r ∧ Good A c .other r := by
  have hcA : c < A.length := by rw [← h.clen]; exact (List.getElem?_eq_some_iff.mp hc).1
  have hmlt : m < G.length := by rw [← h.mlen]; exact (List.getElem?_eq_some_iff.mp hb).1
  obtain ⟨b', G1, hex, h1⟩ := ginv_expungeAt h hb (List.getElem?_eq_getElem hmlt)
    (fun im => inSet (b.uidNext - 1) set im.2.uid && im.2.flags &&& 1 == 1)
  have hX : GInv (setMb st m b') G1 (A.set c (A.getD c [])) := by rw [set_getD_self]; exact h1
  obtain ⟨r', hr', hg⟩ := good_poll_tail (k := .other) (evs := []) hcA hX rfl rfl (allow := true)
    (by intro hh; cases hh) none none
  exact ⟨(r'.1, Views.ok r'.2), by simp only [execSelected, hex, hr'], by simpa [Views.ok] using hg⟩

theorem exec_copy {st : Views.St} {G : List GSt} {A : List View} (h : GInv st G A) {c : Nat} {cn : Conn}
    (hc : st.conns[c]? = some cn) {m : Nat} {b : MBox} (uid : Bool) (set : NSet) (d : Nat) :
    ∃ r, execSelected {} st c cn m b (.copy uid set d) = some r ∧ Good A c .other r := by
  have hcA : c < A.length := by rw [← h.clen]; exact (List.getElem?_eq_some_iff.mp hc).1
  cases hd : getMb st d with
  | none =>
    exact ⟨(st, Views.no), by simp only [execSelected, hd], good_no h c (by intro hh; cases hh)⟩
  | some dest =>
    by_cases hdm : d = m
    · subst hdm
      exact ⟨(st, Views.no), by simp only [execSelected, hd, if_true], good_no h c (by intro hh; cases hh)⟩
    · have hdlt : d < G.length := by rw [← h.mlen]; exact (List.getElem?_eq_some_iff.mp hd).1
      obtain ⟨b', us, G1, ha, h1⟩ := ginv_appendAll ((selectMsgs b c uid set).map (·.2)) h hd
        (List.getElem?_eq_getElem hdlt)
      have hX : GInv (setMb st d b') G1 (A.set c (A.getD c [])) := by rw [set_getD_self]; exact h1
      obtain ⟨r', hr', hg⟩ := good_poll_tail (k := .other) (evs := []) hcA hX rfl rfl (allow := true)
        (by intro hh; cases hh) none
        (if (selectMsgs b c uid set).isEmpty then none else some ((selectMsgs b c uid set).map (·.2.uid), us))
      exact ⟨_, by simp only [execSelected, hd, hdm, if_false, ha, hr']; rfl, by simpa using hg⟩

theorem exec_move {st : Views.St} {G : List GSt} {A : List View} (h : GInv st G A) {c : Nat} {cn : Conn}
    (hc : st.conns[c]? = some cn) {m : Nat} {b : MBox} (hb : st.mb[m]? = some b) (uid : Bool) (set : NSet) (d : Nat) :
    ∃ r, execSelected {} st c cn m b (.move uid set d) = some r ∧ Good A c .other r := by
  have hcA : c < A.length := by rw [← h.clen]; exact (List.getElem?_eq_some_iff.mp hc).1
  cases hd : getMb st d with
  | none =>
    exact ⟨(st, Views.no), by simp only [execSelected, hd], good_no h c (by intro hh; cases hh)⟩
  | some dest =>
    by_cases hdm : d = m
    · subst hdm
      exact ⟨(st, Views.no), by simp only [execSelected, hd, if_true], good_no h c (by intro hh; cases hh)⟩
    · have hdlt : d < G.length := by rw [← h.mlen]; exact (List.getElem?_eq_some_iff.mp hd).1
      obtain ⟨b', us, G1, ha, h1⟩ := ginv_appendAll ((selectMsgs b c uid set).map (·.2)) h hd
        (List.getElem?_eq_getElem hdlt)
      -- the source mailbox is still `b` after the appends into `d ≠ m`
      have hb1 : (setMb st d b').mb[m]? = some b := by
        simp only [setMb]; rw [List.getElem?_set_ne hdm]; exact hb
      have hmlt : m < G1.length := by rw [← h1.mlen]; exact (List.getElem?_eq_some_iff.mp hb1).1
      obtain ⟨b2, G2, hex, h2⟩ := ginv_expungeAt h1 hb1 (List.getElem?_eq_getElem hmlt)
        (fun im => if uid then inSet (b.uidNext - 1) set im.2.uid
          else b.enc c im.1 != 0 && inSet b.msgs.length set (b.enc c im.1))
      have hsel : (selectMsgs b c uid set).map (·.1) = ((indexed b.msgs 1).filter (fun im =>
          if uid then inSet (b.uidNext - 1) set im.2.uid
          else b.enc c im.1 != 0 && inSet b.msgs.length set (b.enc c im.1))).map (·.1) := rfl
      rw [← hsel] at hex
      have hev : applyEvs false true (A.getD c [])
          (if (selectMsgs b c uid set).isEmpty then []
            else [Ev.copyuid ((selectMsgs b c uid set).map (·.2.uid)) us]) = .ok (A.getD c []) := by
        split <;> simp [applyEvs, applyEv]
      have hX : GInv (setMb (setMb st d b') m b2) G2 (A.set c (A.getD c [])) := by rw [set_getD_self]; exact h2
      obtain ⟨r', hr', hg⟩ := good_poll_tail (k := .other) hcA hX rfl hev (allow := true)
        (by intro hh; cases hh) none none
      exact ⟨_, by simp only [execSelected, hd, hdm, if_false, ha, hex, hr', Bool.false_eq_true, List.append_nil]; rfl,
        by simpa [Views.ok] using hg⟩

theorem exec_fetch {st : Views.St} {G : List GSt} {A : List View} (h : GInv st G A) {c : Nat} {cn : Conn}
    (hc : st.conns[c]? = some cn) {m : Nat} (hsel : cn.sel = some m) {b : MBox} (hb : st.mb[m]? = some b)
    (uid : Bool) (set : NSet) (wf ms : Bool) :
    ∃ r, execSelected {} st c cn m b (.fetch uid set wf ms) = some r ∧
      Good A c (if uid then .other else .quiet) r := by
  have hcA : c < A.length := by rw [← h.clen]; exact (List.getElem?_eq_some_iff.mp hc).1
  have hmlt : m < G.length := by rw [← h.mlen]; exact (List.getElem?_eq_some_iff.mp hb).1
  have hg : G[m]? = some G[m] := List.getElem?_eq_getElem hmlt
  have hmb := h.mb m b _ hb hg
  obtain ⟨st1, evs, G1, Ac1, hl, hev, h1, _⟩ := ginv_fetchLoop (!uid) true wf ms (selectMsgs b c uid set) h hc hsel
    hg rfl (selectMsgs_items hmb c uid set)
  have hk : kindParams (if uid then Kind.other else Kind.quiet) = some (!uid, true) := by cases uid <;> rfl
  obtain ⟨r', hr', hgood⟩ := good_poll_tail hcA h1 hk hev (allow := uid)
    (by intro hh; cases uid <;> simp at hh ⊢) none none
  exact ⟨_, by simp only [execSelected, hl, hr']; rfl, by simpa [Views.ok] using hgood⟩

theorem exec_search {st : Views.St} {G : List GSt} {A : List View} (h : GInv st G A) {c : Nat} {cn : Conn}
    (hc : st.conns[c]? = some cn) {m : Nat} (hsel : cn.sel = some m) {b : MBox} (hb : st.mb[m]? = some b)
    (uid : Bool) (key : Key) (ext : Bool) :
    ∃ r, execSelected {} st c cn m b (.search uid key ext) = some r ∧
      Good A c (if uid then .uidSearch else .quiet) r := by
  have hcA : c < A.length := by rw [← h.clen]; exact (List.getElem?_eq_some_iff.mp hc).1
  have hk : kindParams (if uid then Kind.uidSearch else Kind.quiet) = some (!uid, !uid) := by cases uid <;> rfl
  have hev : applyEvs (!uid) (!uid) (A.getD c [])
      [if ext then Ev.esearch (setOf (searchLoop b c uid key (indexed b.msgs 1)))
          (minOf (searchLoop b c uid key (indexed b.msgs 1))) (maxOf (searchLoop b c uid key (indexed b.msgs 1)))
          (searchLoop b c uid key (indexed b.msgs 1)).length
        else Ev.search (setOf (searchLoop b c uid key (indexed b.msgs 1)))] = .ok (A.getD c []) := by
    cases uid with
    | true => cases ext <;> simp [applyEvs, applyEv]
    | false =>
      have hin : ∀ k ∈ searchLoop b c false key (indexed b.msgs 1), inRange (A.getD c []) k = true :=
        fun k hk' => search_inRange h hc hsel hb key hk'
      have hall : (setOf (searchLoop b c false key (indexed b.msgs 1))).all (inRange (A.getD c [])) = true := by
        rw [List.all_eq_true]
        exact fun k hk' => hin k (mem_setOf hk')
      cases ext with
      | false =>
        simp only [applyEvs, applyEv, Bool.false_eq_true, if_false, Bool.not_false, hall, Bool.not_true,
          Bool.and_false]
      | true =>
        have hmin : (minOf (searchLoop b c false key (indexed b.msgs 1)) = 0 ||
            inRange (A.getD c []) (minOf (searchLoop b c false key (indexed b.msgs 1)))) = true := by
          rcases minOf_mem (searchLoop b c false key (indexed b.msgs 1)) with h0 | h0
          · simp [h0]
          · rw [hin _ h0, Bool.or_true]
        have hmax : (maxOf (searchLoop b c false key (indexed b.msgs 1)) = 0 ||
            inRange (A.getD c []) (maxOf (searchLoop b c false key (indexed b.msgs 1)))) = true := by
          rcases maxOf_mem (searchLoop b c false key (indexed b.msgs 1)) with h0 | h0
          · simp [h0]
          · rw [hin _ h0, Bool.or_true]
        simp only [applyEvs, applyEv, if_true, Bool.not_false, Bool.true_and, hall, hmin, hmax,
          Bool.and_self, Bool.not_true, Bool.false_eq_true, if_false]
  have hX : GInv st G (A.set c (A.getD c [])) := by rw [set_getD_self]; exact h
  obtain ⟨r', hr', hgood⟩ := good_poll_tail hcA hX hk hev (allow := uid)
    (by intro hh; cases uid <;> simp at hh ⊢) none none
  exact ⟨_, by simp only [execSelected, hr']; rfl, by simpa [Views.ok] using hgood⟩

theorem exec_store {st : Views.St} {G : List GSt} {A : List View} (h : GInv st G A) {c : Nat} {cn : Conn}
    (hc : st.conns[c]? = some cn) {m : Nat} (hsel : cn.sel = some m) {b : MBox} (hb : st.mb[m]? = some b)
    (uid : Bool) (set : NSet) (op : StoreOp) (fl : Nat) (silent : Bool) :
    ∃ r, execSelected {} st c cn m b (.store uid set op fl silent) = some r ∧
      Good A c (if uid then .other else .quiet) r := by
  have hcA : c < A.length := by rw [← h.clen]; exact (List.getElem?_eq_some_iff.mp hc).1
  have hmlt : m < G.length := by rw [← h.mlen]; exact (List.getElem?_eq_some_iff.mp hb).1
  have hmlt' : m < st.mb.length := (List.getElem?_eq_some_iff.mp hb).1
  have hg : G[m]? = some G[m] := List.getElem?_eq_getElem hmlt
  generalize G[m] = g at hg
  have hmb := h.mb m b g hb hg
  -- the flags are stored: same UIDs at the same places
  have hupd : ∀ x ∈ (selectMsgs b c uid set).map (fun im => (im.1, (⟨im.2.uid, storeFlags op fl im.2.flags⟩ : Msg))),
      ∃ im ∈ selectMsgs b c uid set, x.1 = im.1 ∧ x.2.uid = im.2.uid := by
    intro x hx
    obtain ⟨im, him, rfl⟩ := List.mem_map.mp hx
    exact ⟨im, him, rfl, rfl⟩
  have hu : (replaceAt ((selectMsgs b c uid set).map (fun im => (im.1, (⟨im.2.uid, storeFlags op fl im.2.flags⟩ : Msg))))
      (indexed b.msgs 1)).map (·.uid) = b.msgs.map (·.uid) := by
    rw [replaceAt_uids]
    · have : (indexed b.msgs 1).map (·.2.uid) = ((indexed b.msgs 1).map (·.2)).map (·.uid) := by
        rw [List.map_map]; rfl
      rw [this, indexed_map_snd]
    · intro im' him' x hf
      have hx := List.mem_of_find?_eq_some hf
      have hx1 := List.find?_some hf
      simp only [decide_eq_true_eq] at hx1
      obtain ⟨im, him, h1, h2⟩ := hupd x hx
      simp only [selectMsgs, List.mem_filter] at him
      obtain ⟨i, a⟩ := im
      obtain ⟨i', a'⟩ := im'
      obtain ⟨_, hg1⟩ := mem_indexed him.1
      obtain ⟨_, hg2⟩ := mem_indexed him'
      simp only at h1 h2 hx1 ⊢
      rw [h2]
      have : i = i' := by omega
      subst this
      rw [hg1] at hg2
      exact congrArg Msg.uid (Option.some.inj hg2)
  have h1 := ginv_setMb_same h hb (b' := { b with msgs := replaceAt ((selectMsgs b c uid set).map
    (fun im => (im.1, (⟨im.2.uid, storeFlags op fl im.2.flags⟩ : Msg)))) (indexed b.msgs 1) }) rfl rfl hu
  have hb1 : (setMb st m { b with msgs := replaceAt ((selectMsgs b c uid set).map
      (fun im => (im.1, (⟨im.2.uid, storeFlags op fl im.2.flags⟩ : Msg)))) (indexed b.msgs 1) }).mb[m]? =
      some { b with msgs := replaceAt ((selectMsgs b c uid set).map
        (fun im => (im.1, (⟨im.2.uid, storeFlags op fl im.2.flags⟩ : Msg)))) (indexed b.msgs 1) } := by
    simp only [setMb]; exact List.getElem?_set_self hmlt'
  have hitems : ∀ x ∈ (selectMsgs b c uid set).map (fun im => (im.1, (⟨im.2.uid, storeFlags op fl im.2.flags⟩ : Msg))),
      1 ≤ x.1 ∧ g.mbox[x.1 - 1]? = some (x.2.uid - 1) ∧ 1 ≤ x.2.uid := by
    intro x hx
    obtain ⟨im, him, h1', h2'⟩ := hupd x hx
    have := selectMsgs_items hmb c uid set im him
    rw [h1', h2']; exact this
  obtain ⟨st1, G1, b2, g2, hq1, h2, hb2, hg2, hm2, _, hsel2⟩ := ginv_queueFlags _ h1 hb1 hg (some c) hitems
  obtain ⟨cn1, hc1, hs1⟩ := hsel2 c cn hc
  have hk : kindParams (if uid then Kind.other else Kind.quiet) = some (!uid, true) := by cases uid <;> rfl
  have hqa : (!uid) = true → uid = false := by intro hh; cases uid <;> simp at hh ⊢
  cases silent with
  | true =>
    have hX : GInv st1 G1 (A.set c (A.getD c [])) := by rw [set_getD_self]; exact h2
    obtain ⟨r', hr', hgood⟩ := good_poll_tail (evs := []) hcA hX hk rfl (allow := uid) hqa none none
    exact ⟨_, by simp only [execSelected, hq1, if_true, hr']; rfl, by simpa [Views.ok] using hgood⟩
  | false =>
    have hmb2 := h2.mb m b2 g2 hb2 hg2
    obtain ⟨st2, evs, G3, Ac1, hl, hev, h3, _⟩ := ginv_fetchLoop (!uid) true true false (selectMsgs b2 c uid set) h2 hc1
      (hs1.trans hsel) hg2 rfl (selectMsgs_items hmb2 c uid set)
    obtain ⟨r', hr', hgood⟩ := good_poll_tail hcA h3 hk hev (allow := uid) hqa none none
    exact ⟨_, by simp only [execSelected, hq1, Bool.false_eq_true, if_false, getMb, hb2, hl, hr']; rfl,
      by simpa [Views.ok] using hgood⟩

end GoImap.ViewsLemmas
