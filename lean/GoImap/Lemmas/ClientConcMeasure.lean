import GoImap.Lemmas.ClientConcOnce
/-!
  C13: a variant (natural-number measure) for the client LTS. `enabled v s t` says exactly that the
  step of `t` changes the state, and every enabled step strictly decreases `mu`: every schedule
  performs at most `mu s` effective steps.
-/
namespace GoImap.ClientConc

/-- the cost of an instruction: what it may push in front of the program (plus what it adds to the
    queues) is strictly cheaper than the instruction itself -/
def weight : Instr → Nat
  | .encLock => 1
  | .register _ => 6
  | .postReg _ => 1
  | .flush _ _ _ => 4
  | .regCont _ => 1
  | .litCaps => 1
  | .contWait _ _ => 2
  | .wait _ => 1
  | .fetchNext _ => 1
  | .capsSel => 1
  | .capsLock _ => 1
  | .searchEnabled => 1
  | .opEnd => 1
  | .idleGo _ => 4
  | .idleStop _ => 1
  | .idleJoin _ => 1
  | .idleRunSel _ => 1
  | .idleDoneW _ => 1
  | .idleRunClose _ => 1
  | .idleWait _ => 1
  | .closeSwap => 2
  | .cancelOrphans _ => 1
  | .loadDone _ _ => 2
  | .send _ _ _ => 1
  | .closeDone _ => 1
  | .cancelConts _ _ => 1
  | .setState _ => 1
  | .closeMsgs _ => 1
  | .encUnlock => 1
  | .closeBegin => 1
  | .closeJoin => 1
  | .obsState => 1
  | .obsMailbox => 1
  | .connRead => 4
  | .rdNext => 5
  | .delByTag _ _ _ => 4
  | .setCaps => 1
  | .popCont => 4
  | .contDone _ => 1
  | .enabledW => 1
  | .findByType => 1
  | .rdExit => 1
  | .srv _ => 8

/-- the cost of a program -/
def progWeight : List Instr → Nat
  | [] => 0
  | i :: rest => weight i + progWeight rest

@[simp] theorem progWeight_nil : progWeight [] = 0 := rfl
@[simp] theorem progWeight_cons (i : Instr) (p : List Instr) :
    progWeight (i :: p) = weight i + progWeight p := rfl

theorem progWeight_append (p q : List Instr) :
    progWeight (p ++ q) = progWeight p + progWeight q := by
  induction p with
  | nil => simp
  | cons i p ih => simp only [List.cons_append, progWeight_cons, ih]; omega

theorem progWeight_dropThrough_le (f : Instr → Bool) (p : List Instr) :
    progWeight (dropThrough f p) ≤ progWeight p := by
  induction p with
  | nil => exact Nat.le_refl _
  | cons i p ih =>
    rw [dropThrough, progWeight_cons]
    split
    · exact Nat.le_add_left _ _
    · exact Nat.le_trans ih (Nat.le_add_left _ _)

theorem progWeight_complete_le (k : Kind) (c : Nat) (r : Res) : progWeight (complete k c r) ≤ 5 := by
  unfold complete
  cases k <;> cases r <;> simp [weight]

theorem progWeight_completions_le (kind : Nat → Kind) (r : Res) (l : List Nat) :
    progWeight (l.flatMap fun c => complete (kind c) c r) ≤ 5 * l.length := by
  induction l with
  | nil => simp
  | cons c l ih =>
    rw [List.flatMap_cons, progWeight_append, List.length_cons]
    have := progWeight_complete_le (kind c) c r
    omega

theorem progWeight_handler_le (l : Line) : progWeight (handler l) ≤ 4 := by
  cases l <;> simp [handler, weight]

theorem progWeight_readerExit : progWeight readerExit = 3 := rfl

/-! ### the sum over the threads -/

def sumTo (f : Nat → Nat) : Nat → Nat
  | 0 => 0
  | n + 1 => sumTo f n + f n

theorem sumTo_congr (f g : Nat → Nat) (n : Nat) (h : ∀ u, u < n → g u = f u) : sumTo g n = sumTo f n := by
  induction n with
  | zero => rfl
  | succ n ih =>
    rw [sumTo, sumTo, ih (fun u hu => h u (Nat.lt_succ_of_lt hu)), h n (Nat.lt_succ_self n)]

theorem sumTo_update (f : Nat → Nat) (t x n : Nat) (h : t < n) :
    sumTo (fun u => if u = t then x else f u) n + f t = sumTo f n + x := by
  induction n with
  | zero => omega
  | succ n ih =>
    rw [sumTo, sumTo]
    by_cases e : t = n
    · have h1 : sumTo (fun u => if u = t then x else f u) n = sumTo f n := by
        apply sumTo_congr
        intro u hu
        have : u ≠ t := by omega
        simp [this]
      rw [h1]
      simp only [e, if_true]
      omega
    · have hlt : t < n := by omega
      have := ih hlt
      have h2 : (if n = t then x else f n) = f n := by
        have : n ≠ t := fun x => e x.symm
        simp [this]
      simp only [h2]
      omega

theorem sum_range_eq_sumTo (g : Nat → Nat) (n : Nat) : ((List.range n).map g).sum = sumTo g n := by
  induction n with
  | zero => rfl
  | succ n ih => simp [List.range_succ, sumTo, ih]

/-- total cost of the programs of the threads that can have one -/
def progSum (f : Nat → List Instr) : Nat := ((List.range maxThreads).map fun t => progWeight (f t)).sum

theorem progSum_set (f : Nat → List Instr) (t : Nat) (p : List Instr) (ht : t < maxThreads) :
    progSum (fun u => if u = t then p else f u) + progWeight (f t) = progSum f + progWeight p := by
  unfold progSum
  rw [sum_range_eq_sumTo, sum_range_eq_sumTo]
  have h := sumTo_update (fun u => progWeight (f u)) t (progWeight p) maxThreads ht
  have e : sumTo (fun u => progWeight (if u = t then p else f u)) maxThreads =
      sumTo (fun u => if u = t then progWeight p else progWeight (f u)) maxThreads := by
    apply sumTo_congr
    intro u _
    split <;> rfl
  rw [e]
  exact h

/-- the measure: one for a live process, the cost of all programs, and the queues whose elements
    are turned into instructions later (pendingCmds, the reader's buffer, the client's inbox) -/
def mu (s : St) : Nat :=
  (if s.crashed then 0 else 1) + progSum s.prog +
    5 * s.pending.length + 5 * s.rdbuf.length + 7 * s.inbox.length

theorem mu_setProg_lt (s x : St) (t : Nat) (p : List Instr) (i : Instr) (rest : List Instr)
    (ht : t < maxThreads) (hs : s.prog t = i :: rest) (hprog : x.prog = s.prog)
    (hcr : x.crashed = s.crashed)
    (hlt : progWeight p + 5 * x.pending.length + 5 * x.rdbuf.length + 7 * x.inbox.length <
      weight i + progWeight rest + 5 * s.pending.length + 5 * s.rdbuf.length + 7 * s.inbox.length) :
    mu (x.setProg t p) < mu s := by
  have h := progSum_set x.prog t p ht
  rw [hprog, hs, progWeight_cons] at h
  unfold mu
  show (if x.crashed then 0 else 1) + progSum (fun u => if u = t then p else x.prog u) +
    5 * x.pending.length + 5 * x.rdbuf.length + 7 * x.inbox.length < _
  rw [hcr, hprog]
  omega

theorem mu_crash_lt (s : St) (hc : s.crashed = false) : mu { s with crashed := true } < mu s := by
  unfold mu
  simp only [hc]
  show 0 + progSum s.prog + 5 * s.pending.length + 5 * s.rdbuf.length + 7 * s.inbox.length < _
  simp only [Bool.false_eq_true, if_false]
  omega

/-! ### `enabled` is exactly "the step changes the state" -/

theorem skipCaps_eq_of_not (s : St) (t : Nat)
    (h : ∀ record rest, s.prog t = .capsSel :: .capsLock record :: rest → s.decClosed = false) :
    skipCaps s t = s := by
  unfold skipCaps
  split
  · rename_i record rest hs
    simp [h record rest hs]
  · rfl

theorem exec_eq_of_not_enabled (v : Variant) (s : St) (t : Nat) (i : Instr) (rest : List Instr)
    (hs : s.prog t = i :: rest) (ht : ¬ t ≥ 100) (ht' : ¬ t ≥ maxThreads) (hc : s.crashed = false)
    (hen : enabled v s t = false) : exec v s t i rest = s := by
  unfold enabled at hen
  rw [if_neg (by simp [hc]), if_neg ht, if_neg ht', hs] at hen
  cases i
  all_goals simp only [] at hen
  case idleGo c =>
    simp only [exec, flushBody]
    split
    · rfl
    · rename_i h
      exfalso
      revert hen h
      cases s.holds t <;> cases (s.prog (idleTid t)).isEmpty <;> cases decide (maxThreads ≤ idleTid t) <;> simp
  case srv a =>
    simp only [exec, flushBody]
    split
    · rfl
    · rename_i h
      simp only [h, Bool.not_false, Bool.true_and] at hen
      cases a <;> simp only [] at hen <;> simp only [execSrv]
      case reply rep oldest =>
        have he : unanswered s = [] := by simpa using hen
        rw [he]
        cases oldest <;> rfl
      case cont =>
        have he : openHeads s = [] := by simpa using hen
        rw [he]
        rfl
      all_goals exact absurd hen (by decide)
  all_goals simp only [exec, flushBody]
  all_goals repeat' split
  all_goals first | rfl | (exfalso; simp_all; done)

theorem step_eq_of_not_enabled (v : Variant) (s : St) (t : Nat) :
    enabled v s t = false → step v s t = s := by
  intro hen
  unfold step
  split
  · rfl
  · rename_i hc
    have hc' : s.crashed = false := by simpa using hc
    split
    · rename_i h100
      split
      · rename_i hlt
        apply skipCaps_eq_of_not
        intro record rest hs
        unfold enabled at hen
        rw [if_neg hc, if_pos h100, hs] at hen
        simpa [hlt] using hen
      · rfl
    · rename_i h100
      split
      · rfl
      · rename_i hmax
        split
        · rfl
        · rename_i i rest hs
          exact exec_eq_of_not_enabled v s t i rest hs h100 hmax hc' hen

/-! ### frame lemmas for the fields the measure reads -/

theorem mu_congr (x s : St) (hprog : x.prog = s.prog) (hcr : x.crashed = s.crashed)
    (hp : x.pending = s.pending) (hr : x.rdbuf = s.rdbuf) (hi : x.inbox = s.inbox) : mu x = mu s := by
  unfold mu
  rw [hprog, hcr, hp, hr, hi]

theorem mu_setProg_eq (x : St) (t : Nat) (p : List Instr) (ht : t < maxThreads) :
    mu (x.setProg t p) + progWeight (x.prog t) = mu x + progWeight p := by
  have h := progSum_set x.prog t p ht
  unfold mu
  show (if x.crashed then 0 else 1) + progSum (fun u => if u = t then p else x.prog u) +
    5 * x.pending.length + 5 * x.rdbuf.length + 7 * x.inbox.length + _ = _
  omega

theorem mu_foldl_setCont (ks : List Nat) (s : St) :
    (ks.foldl (fun acc k => acc.setCont k .cancelled) s).prog = s.prog ∧
    (ks.foldl (fun acc k => acc.setCont k .cancelled) s).crashed = s.crashed ∧
    (ks.foldl (fun acc k => acc.setCont k .cancelled) s).pending = s.pending ∧
    (ks.foldl (fun acc k => acc.setCont k .cancelled) s).rdbuf = s.rdbuf ∧
    (ks.foldl (fun acc k => acc.setCont k .cancelled) s).inbox = s.inbox := by
  induction ks generalizing s with
  | nil => exact ⟨rfl, rfl, rfl, rfl, rfl⟩
  | cons k ks ih => simp only [List.foldl]; exact ih _

theorem mu_foldl_setCont2 (ks : List (Nat × Nat)) (x : ContSt) (s : St) :
    (ks.foldl (fun acc kc => acc.setCont kc.1 x) s).prog = s.prog ∧
    (ks.foldl (fun acc kc => acc.setCont kc.1 x) s).crashed = s.crashed ∧
    (ks.foldl (fun acc kc => acc.setCont kc.1 x) s).pending = s.pending ∧
    (ks.foldl (fun acc kc => acc.setCont kc.1 x) s).rdbuf = s.rdbuf ∧
    (ks.foldl (fun acc kc => acc.setCont kc.1 x) s).inbox = s.inbox := by
  induction ks generalizing s with
  | nil => exact ⟨rfl, rfl, rfl, rfl, rfl⟩
  | cons k ks ih => simp only [List.foldl]; exact ih _

theorem mu_deliver (s : St) (l : Line) :
    (deliver s l).prog = s.prog ∧ (deliver s l).crashed = s.crashed ∧
    (deliver s l).pending = s.pending ∧ (deliver s l).rdbuf = s.rdbuf ∧
    (deliver s l).inbox.length ≤ s.inbox.length + 1 := by
  unfold deliver
  split
  · exact ⟨rfl, rfl, rfl, rfl, Nat.le_succ _⟩
  · refine ⟨rfl, rfl, rfl, rfl, ?_⟩
    show (s.inbox ++ [l]).length ≤ _
    simp

/-! ### every enabled step decreases the measure -/

attribute [local irreducible] mu progSum

set_option linter.unusedSimpArgs false

theorem dec_register (v : Variant) (s : St) (t c : Nat) (rest : List Instr) (hlt : t < maxThreads)
    (hs : s.prog t = .register c :: rest) (hen : (s.holds t && !(s.cmd c).registered) = true) :
    mu (exec v s t (.register c) rest) < mu s := by
  simp only [exec, flushBody]
  split
  · exfalso; simp_all
  · refine mu_setProg_lt s _ t _ _ rest hlt hs rfl rfl ?_
    dsimp only [St.updCmd]
    simp only [weight, List.length_append, List.length_cons, List.length_nil]
    omega

theorem dec_closeSwap (v : Variant) (s : St) (t : Nat) (rest : List Instr) (hlt : t < maxThreads)
    (hs : s.prog t = .closeSwap :: rest) : mu (exec v s t .closeSwap rest) < mu s := by
  have := progWeight_completions_le (fun c => (s.cmd c).kind) .err s.pending
  simp only [exec, flushBody]
  split
  · refine mu_setProg_lt s _ t _ _ rest hlt hs rfl rfl ?_
    dsimp only
    simp only [progWeight_append, progWeight_cons, weight, List.length_nil]
    omega
  · refine mu_setProg_lt s _ t _ _ rest hlt hs rfl rfl ?_
    dsimp only
    simp only [progWeight_append, progWeight_cons, weight, List.length_nil]
    omega

theorem dec_cancelOrphans (v : Variant) (s : St) (t : Nat) (ks : List Nat) (rest : List Instr)
    (hlt : t < maxThreads) (hs : s.prog t = .cancelOrphans ks :: rest) :
    mu (exec v s t (.cancelOrphans ks) rest) < mu s := by
  simp only [exec, flushBody]
  obtain ⟨h1, h2, h3, h4, h5⟩ := mu_foldl_setCont ks s
  refine mu_setProg_lt s _ t _ _ rest hlt hs h1 h2 ?_
  rw [h3, h4, h5]
  simp only [weight]
  omega

theorem dec_cancelConts (v : Variant) (s : St) (t c : Nat) (r : Res) (rest : List Instr)
    (hlt : t < maxThreads) (hs : s.prog t = .cancelConts c r :: rest) :
    mu (exec v s t (.cancelConts c r) rest) < mu s := by
  simp only [exec, flushBody]
  obtain ⟨h1, h2, h3, h4, h5⟩ := mu_foldl_setCont2 (s.contReqs.filter (·.2 = c))
    (if r = .no then .refused else .cancelled) { s with contReqs := s.contReqs.filter (·.2 ≠ c) }
  refine mu_setProg_lt s _ t _ _ rest hlt hs h1 h2 ?_
  dsimp only [St.updCmd]
  rw [h3, h4, h5]
  simp only [weight]
  omega

theorem dec_delByTag (v : Variant) (s : St) (t tag : Nat) (rep : Reply) (caps : Bool) (rest : List Instr)
    (hlt : t < maxThreads) (hs : s.prog t = .delByTag tag rep caps :: rest) :
    mu (exec v s t (.delByTag tag rep caps) rest) < mu s := by
  simp only [exec, flushBody]
  split
  · refine mu_setProg_lt s _ t _ _ rest hlt hs rfl rfl ?_
    dsimp only [St.closeConn]
    simp only [weight, List.length_nil, progWeight_readerExit]
    omega
  · rename_i c hc
    have hm : c ∈ s.pending := firstWithTag_mem s tag s.pending c hc
    have hpos := List.length_pos_of_mem hm
    have hcomp := progWeight_complete_le (s.cmd c).kind c (resOfReply rep)
    have hcaps : progWeight (if caps = true then [Instr.setCaps] else []) ≤ 1 := by
      split <;> simp [weight]
    refine mu_setProg_lt s _ t _ _ rest hlt hs rfl rfl ?_
    dsimp only
    rw [List.length_erase_of_mem hm]
    simp only [progWeight_append, weight]
    omega

theorem dec_connRead (v : Variant) (s : St) (t : Nat) (rest : List Instr)
    (hlt : t < maxThreads) (hs : s.prog t = .connRead :: rest)
    (hen : (!s.inbox.isEmpty || s.rerr || s.connClosed || s.srvClosed) = true) :
    mu (exec v s t .connRead rest) < mu s := by
  simp only [exec, flushBody]
  repeat' split
  · rename_i h
    have hpos : 1 ≤ s.inbox.length := by
      cases hi : s.inbox with
      | nil => simp [hi] at h
      | cons a l => simp
    refine mu_setProg_lt s _ t _ _ rest hlt hs rfl rfl ?_
    dsimp only
    simp only [progWeight_cons, progWeight_nil, weight, List.length_nil]
    omega
  · refine mu_setProg_lt s _ t _ _ rest hlt hs rfl rfl ?_
    dsimp only [St.closeConn]
    simp only [weight, List.length_nil, progWeight_readerExit]
    omega
  · refine mu_setProg_lt s _ t _ _ rest hlt hs rfl rfl ?_
    dsimp only [St.closeConn]
    simp only [weight, List.length_nil, progWeight_readerExit]
    omega
  · exfalso; simp_all

theorem dec_rdNext (v : Variant) (s : St) (t : Nat) (rest : List Instr)
    (hlt : t < maxThreads) (hs : s.prog t = .rdNext :: rest) :
    mu (exec v s t .rdNext rest) < mu s := by
  simp only [exec, flushBody]
  split
  · refine mu_setProg_lt s _ t _ _ rest hlt hs rfl rfl ?_
    simp only [progWeight_cons, progWeight_nil, weight]
    omega
  · rename_i l more heq
    have hh := progWeight_handler_le l
    refine mu_setProg_lt s _ t _ _ rest hlt hs rfl rfl ?_
    dsimp only
    rw [heq]
    simp only [progWeight_append, progWeight_cons, progWeight_nil, weight, List.length_cons]
    omega

theorem dec_idleGo (v : Variant) (s : St) (t c : Nat) (rest : List Instr)
    (hlt : t < maxThreads) (hs : s.prog t = .idleGo c :: rest)
    (hen : (s.holds t && (s.prog (idleTid t)).isEmpty && !decide (maxThreads ≤ idleTid t)) = true) :
    mu (exec v s t (.idleGo c) rest) < mu s := by
  simp only [exec, flushBody]
  split
  · exfalso
    rename_i h
    revert hen h
    cases s.holds t <;> cases (s.prog (idleTid t)).isEmpty <;> cases decide (maxThreads ≤ idleTid t) <;> simp
  · simp only [Bool.and_eq_true, Bool.not_eq_true', decide_eq_false_iff_not, Nat.not_le] at hen
    obtain ⟨⟨_, hemp⟩, hlt'⟩ := hen
    have hnil : s.prog (idleTid t) = [] := by simpa using hemp
    have hne : idleTid t ≠ t := by unfold idleTid; omega
    have e1 := mu_setProg_eq (({ s with enc := some (idleTid t) } : St).setProg t rest) (idleTid t)
      [.idleRunSel c, .idleDoneW c, .idleRunClose c] hlt'
    have e2 := mu_setProg_eq ({ s with enc := some (idleTid t) } : St) t rest hlt
    have e3 : mu ({ s with enc := some (idleTid t) } : St) = mu s := mu_congr _ _ rfl rfl rfl rfl rfl
    rw [setProg_prog, if_neg hne] at e1
    change _ + progWeight (s.prog (idleTid t)) = _ at e1
    change _ + progWeight (s.prog t) = _ at e2
    rw [hnil] at e1
    rw [hs] at e2
    simp only [progWeight_cons, progWeight_nil, weight] at e1 e2
    omega

theorem dec_srv (v : Variant) (s : St) (t : Nat) (a : SrvAct) (rest : List Instr)
    (hlt : t < maxThreads) (hs : s.prog t = .srv a :: rest)
    (hr : ∀ rep oldest, a = .reply rep oldest → unanswered s ≠ [])
    (hk : a = .cont → openHeads s ≠ [])
    (hcl : s.srvClosed = false) :
    mu (exec v s t (.srv a) rest) < mu s := by
  simp only [exec, flushBody, hcl, Bool.false_eq_true, if_false]
  cases a <;> simp only [execSrv]
  case reply rep oldest =>
    have hne := hr rep oldest rfl
    split
    · rename_i h
      exfalso
      cases oldest
      · simp only [Bool.false_eq_true, if_false, List.getLast?_eq_none_iff] at h; exact hne h
      · simp only [if_true, List.head?_eq_none_iff] at h; exact hne h
    · obtain ⟨h1, h2, h3, h4, h5⟩ := mu_deliver s
        (.tagged (s.cmd ‹Nat›).ltag rep ((decide ((s.cmd ‹Nat›).kind = .login) || decide ((s.cmd ‹Nat›).kind = .login2)) && decide (rep = .ok)))
      refine mu_setProg_lt s _ t _ _ rest hlt hs h1 h2 ?_
      dsimp only
      rw [h3, h4]
      simp only [weight]
      omega
  case cont =>
    have hne := hk rfl
    split
    · rename_i h
      exfalso
      simp only [List.head?_eq_none_iff] at h; exact hne h
    · obtain ⟨h1, h2, h3, h4, h5⟩ := mu_deliver s .cont
      refine mu_setProg_lt s _ t _ _ rest hlt hs h1 h2 ?_
      dsimp only
      rw [h3, h4]
      simp only [weight]
      omega
  case enabled =>
    obtain ⟨h1, h2, h3, h4, h5⟩ := mu_deliver s .enabled
    refine mu_setProg_lt s _ t _ _ rest hlt hs h1 h2 ?_
    rw [h3, h4]
    simp only [weight]
    omega
  case close =>
    refine mu_setProg_lt s _ t _ _ rest hlt hs rfl rfl ?_
    dsimp only
    simp only [weight]
    omega
  case rerr =>
    refine mu_setProg_lt s _ t _ _ rest hlt hs rfl rfl ?_
    dsimp only
    simp only [weight]
    omega

theorem exec_decreases (v : Variant) (s : St) (t : Nat) (i : Instr) (rest : List Instr)
    (hs : s.prog t = i :: rest) (ht : ¬ t ≥ 100) (ht' : ¬ t ≥ maxThreads) (hc : s.crashed = false)
    (hen : enabled v s t = true) : mu (exec v s t i rest) < mu s := by
  have hlt : t < maxThreads := Nat.lt_of_not_ge ht'
  have hdrop := progWeight_dropThrough_le isOpEnd rest
  unfold enabled at hen
  rw [if_neg (by simp [hc]), if_neg ht, if_neg ht', hs] at hen
  cases i
  all_goals simp only [] at hen
  case idleGo c => exact dec_idleGo v s t c rest hlt hs hen
  case srv a =>
    simp only [Bool.and_eq_true, Bool.not_eq_true'] at hen
    refine dec_srv v s t a rest hlt hs (fun rep oldest e => ?_) (fun e => ?_) hen.1
    · have h2 := hen.2
      rw [e] at h2
      simp only [] at h2
      intro h0
      rw [h0] at h2
      exact absurd h2 (by decide)
    · have h2 := hen.2
      rw [e] at h2
      simp only [] at h2
      intro h0
      rw [h0] at h2
      exact absurd h2 (by decide)
  case register c => exact dec_register v s t c rest hlt hs hen
  case closeSwap => exact dec_closeSwap v s t rest hlt hs
  case cancelOrphans ks => exact dec_cancelOrphans v s t ks rest hlt hs
  case cancelConts c r => exact dec_cancelConts v s t c r rest hlt hs
  case delByTag tag rep caps => exact dec_delByTag v s t tag rep caps rest hlt hs
  case connRead => exact dec_connRead v s t rest hlt hs hen
  case rdNext => exact dec_rdNext v s t rest hlt hs
  all_goals simp only [exec, flushBody]
  all_goals repeat' split
  all_goals
    first
      | exact mu_crash_lt s hc
      | (refine mu_setProg_lt s _ t _ _ rest hlt hs rfl rfl ?_
         try dsimp only [St.updCmd, St.closeConn, St.setCont]
         try simp only [progWeight_cons, progWeight_nil, weight, List.length_nil, progWeight_readerExit]
         omega)
      | (exfalso; simp_all; done)

theorem skipCaps_decreases (s : St) (t : Nat) (ht : t < maxThreads) (record : Bool) (rest : List Instr)
    (hs : s.prog t = .capsSel :: .capsLock record :: rest) (hd : s.decClosed = true) :
    mu (skipCaps s t) < mu s := by
  unfold skipCaps
  rw [hs]
  simp only [hd, if_true]
  split
  · refine mu_setProg_lt s _ t _ _ (.capsLock record :: rest) ht hs rfl rfl ?_
    dsimp only
    simp only [progWeight_cons, weight]
    omega
  · refine mu_setProg_lt s _ t _ _ (.capsLock record :: rest) ht hs rfl rfl ?_
    simp only [progWeight_cons, weight]
    omega

theorem step_decreases (v : Variant) (s : St) (t : Nat) :
    enabled v s t = true → mu (step v s t) < mu s := by
  intro hen
  have hc : s.crashed = false := by
    cases h : s.crashed
    · rfl
    · unfold enabled at hen
      rw [if_pos h] at hen
      exact absurd hen (by decide)
  have hc' : ¬ s.crashed = true := by simp [hc]
  unfold step
  rw [if_neg hc']
  split
  · rename_i h100
    unfold enabled at hen
    rw [if_neg hc', if_pos h100] at hen
    simp only [Bool.and_eq_true, decide_eq_true_eq] at hen
    obtain ⟨hlt, hm⟩ := hen
    rw [if_pos hlt]
    split at hm
    · rename_i record rest hs
      exact skipCaps_decreases s (t - 100) hlt record rest hs hm
    · exact absurd hm (by decide)
  · rename_i h100
    split
    · rename_i hmax
      unfold enabled at hen
      rw [if_neg hc', if_neg h100, if_pos hmax] at hen
      exact absurd hen (by decide)
    · rename_i hmax
      split
      · rename_i hs
        unfold enabled at hen
        rw [if_neg hc', if_neg h100, if_neg hmax, hs] at hen
        simp only [] at hen
        exact absurd hen (by decide)
      · rename_i i rest hs
        exact exec_decreases v s t i rest hs h100 hmax hc hen

end GoImap.ClientConc
