import GoImap.Lemmas.ClientConcOnce
/-!
  C13: no completion is ever lost. A registered command is still queued in pendingCmds, or some
  thread holds the instruction that will send its completion, or the completion has been sent.

  This needs the *shape* of programs: the instructions of closeWithError / completeCommand are
  only ever pushed in front of a program, so the code that abandons the rest of a submission
  (`dropThrough`) never drops one of them.
-/
namespace GoImap.ClientConc

/-- instructions of closeWithError / completeCommand (and the setCaps preceding a completion) -/
def cls : Instr → Bool
  | .closeSwap | .cancelOrphans _ | .loadDone .. | .send .. | .closeDone _ | .cancelConts .. | .setState _
  | .closeMsgs _ | .encUnlock | .setCaps => true
  | _ => false

def noCls (p : List Instr) : Bool := p.all fun i => !cls i

def shape : List Instr → Bool
  | [] => true
  | i :: r => if cls i then shape r else noCls r

theorem shape_of_noCls : ∀ p, noCls p = true → shape p = true
  | [], _ => rfl
  | i :: r, h => by
    simp only [noCls, List.all_cons, Bool.and_eq_true, Bool.not_eq_true'] at h
    simp only [shape, h.1]
    exact h.2

theorem noCls_dropThrough (f : Instr → Bool) : ∀ p, noCls p = true → noCls (dropThrough f p) = true
  | [], _ => rfl
  | i :: r, h => by
    simp only [noCls, List.all_cons, Bool.and_eq_true] at h
    rw [dropThrough]
    split
    · exact h.2
    · exact noCls_dropThrough f r h.2

theorem toks_of_noCls (c : Nat) : ∀ p, noCls p = true → toks c p = 0
  | [], _ => rfl
  | i :: r, h => by
    simp only [noCls, List.all_cons, Bool.and_eq_true, Bool.not_eq_true'] at h
    rw [toks_cons, toks_of_noCls c r h.2]
    have : isTok c i = false := by
      cases i <;> simp [cls] at h <;> rfl
    simp [this]

theorem shape_tail {i : Instr} {r : List Instr} (h : shape (i :: r) = true) : shape r = true := by
  simp only [shape] at h
  split at h
  · exact h
  · exact shape_of_noCls r h

theorem noCls_tail_of_head {i : Instr} {r : List Instr} (h : shape (i :: r) = true) (hi : cls i = false) :
    noCls r = true := by
  simp only [shape, hi] at h
  exact h

theorem shape_append_cls (p q : List Instr) (hp : ∀ i, i ∈ p → cls i = true) (hq : shape q = true) :
    shape (p ++ q) = true := by
  induction p with
  | nil => exact hq
  | cons i p ih =>
    have hi := hp i List.mem_cons_self
    simp only [List.cons_append, shape, hi, if_true]
    exact ih (fun j hj => hp j (List.mem_cons_of_mem _ hj))

theorem noCls_append (p q : List Instr) (hp : noCls p = true) (hq : noCls q = true) : noCls (p ++ q) = true := by
  simp only [noCls, List.all_append, Bool.and_eq_true] at *
  exact ⟨hp, hq⟩

theorem shape_append_noCls (p q : List Instr) (hp : shape p = true) (hq : noCls q = true) :
    shape (p ++ q) = true := by
  induction p with
  | nil => exact shape_of_noCls q hq
  | cons i p ih =>
    simp only [List.cons_append, shape] at hp ⊢
    split
    · rename_i hi; simp only [hi, if_true] at hp; exact ih hp
    · rename_i hi
      have hi' : cls i = false := by simpa using hi
      simp only [hi', Bool.false_eq_true, if_false] at hp
      exact noCls_append p q hp hq

theorem cls_complete (k : Kind) (c : Nat) (r : Res) : ∀ i, i ∈ complete k c r → cls i = true := by
  intro i hi
  unfold complete at hi
  cases k <;> cases r <;> simp at hi <;> (rcases hi with h | h | h | h <;> (try subst h) <;> rfl)

def Shape (s : St) : Prop := ∀ u, shape (s.prog u) = true

theorem foldl_setCont2_prog (ks : List (Nat × Nat)) (x : ContSt) (s : St) :
    (ks.foldl (fun acc kc => acc.setCont kc.1 x) s).prog = s.prog := (foldl_setCont2_eq ks x s).2.2

theorem foldl_setCont_prog (ks : List Nat) (s : St) :
    (ks.foldl (fun acc k => acc.setCont k .cancelled) s).prog = s.prog := (foldl_setCont_eq ks s).2.2

theorem deliver_prog (s : St) (l : Line) : (deliver s l).prog = s.prog := (deliver_frame s l).2.2

theorem noCls_handler (l : Line) : noCls (handler l ++ [Instr.rdNext]) = true := by
  cases l <;> rfl

theorem shape_exec (v : Variant) (s : St) (t : Nat) (i : Instr) (rest : List Instr)
    (hs : s.prog t = i :: rest) (hall : Shape s) : Shape (exec v s t i rest) := by
  have hsh : shape (i :: rest) = true := by rw [← hs]; exact hall t
  have h1 : shape rest = true := shape_tail hsh
  have h2 : cls i = false → noCls rest = true := noCls_tail_of_head hsh
  intro u
  cases i
  case closeSwap =>
    simp only [exec, flushBody]
    split
    all_goals
      simp only [setProg_prog]
      split
      · apply shape_append_cls
        · intro j hj
          rw [List.mem_flatMap] at hj
          obtain ⟨c, _, hc⟩ := hj
          exact cls_complete _ _ _ j hc
        · first | exact h1 | (simp only [shape, cls, if_true]; exact h1)
      · exact hall u
  case delByTag tag rep caps =>
    have hno := h2 rfl
    simp only [exec, flushBody]
    split
    · simp only [setProg_prog]
      split
      · rfl
      · exact hall u
    · simp only [setProg_prog]
      split
      · apply shape_append_cls
        · intro j hj
          rw [List.mem_append] at hj
          rcases hj with hj | hj
          · split at hj
            · rw [List.mem_singleton] at hj; rw [hj]; rfl
            · cases hj
          · exact cls_complete _ _ _ j hj
        · exact shape_of_noCls _ hno
      · exact hall u
  case idleGo c =>
    simp only [exec, flushBody]
    split
    · exact hall u
    · simp only [setProg_prog]
      split
      · rfl
      · split
        · exact h1
        · exact hall u
  case srv a =>
    simp only [exec, flushBody]
    split
    · exact hall u
    · cases a <;> simp only [execSrv]
      case reply rep oldest =>
        split
        · exact hall u
        · simp only [setProg_prog]; split
          · exact h1
          · show shape ((deliver s _).prog u) = true; rw [deliver_prog]; exact hall u
      case cont =>
        split
        · exact hall u
        · simp only [setProg_prog]; split
          · exact h1
          · show shape ((deliver s _).prog u) = true; rw [deliver_prog]; exact hall u
      case enabled =>
        simp only [setProg_prog]; split
        · exact h1
        · rw [deliver_prog]; exact hall u
      case close => simp only [setProg_prog]; split <;> first | exact h1 | exact hall u
      case rerr => simp only [setProg_prog]; split <;> first | exact h1 | exact hall u
  case cancelConts c r =>
    simp only [exec, flushBody, setProg_prog]
    split
    · exact h1
    · rw [updCmd_prog, foldl_setCont2_prog]; exact hall u
  case cancelOrphans ks =>
    simp only [exec, flushBody, setProg_prog]
    split
    · exact h1
    · rw [foldl_setCont_prog]; exact hall u
  all_goals
    have hno := h2
    simp only [exec, flushBody]
    repeat' split
    all_goals
      first
        | exact hall u
        | (simp only [setProg_prog, updCmd_prog, closeConn_prog, setCont_prog]
           split
           · first
               | exact h1
               | rfl
               | exact shape_of_noCls _ (noCls_handler _)
               | (try simp only [shape, cls, if_true, Bool.false_eq_true, if_false]
                  first
                    | exact h1
                    | exact hno rfl
                    | exact shape_of_noCls _ (noCls_dropThrough _ _ (hno rfl))
                    | exact noCls_dropThrough _ _ (hno rfl))
           · exact hall u)

theorem shape_skipCaps (s : St) (t : Nat) (hall : Shape s) : Shape (skipCaps s t) := by
  unfold skipCaps
  split
  · rename_i record rest hs
    split
    · intro u
      have hsh : shape (Instr.capsSel :: Instr.capsLock record :: rest) = true := by rw [← hs]; exact hall t
      have : shape rest = true := shape_tail (shape_tail hsh)
      simp only [setProg_prog]
      split
      · exact this
      · split <;> exact hall u
    · exact hall
  · exact hall

theorem shape_step (v : Variant) (s : St) (t : Nat) (hall : Shape s) : Shape (step v s t) := by
  unfold step
  split
  · exact hall
  · split
    · split
      · exact shape_skipCaps s _ hall
      · exact hall
    · split
      · exact hall
      · split
        · exact hall
        · rename_i i rest hs
          exact shape_exec v s t i rest hs hall

theorem noCls_map_srv (l : List SrvAct) : noCls (l.map Instr.srv) = true := by
  induction l with
  | nil => rfl
  | cons a l ih => simp only [List.map_cons, noCls, List.all_cons, cls, Bool.not_false, Bool.true_and]; exact ih

theorem noCls_closerProg (n : Nat) : noCls (closerProg n) = true := by
  induction n with
  | zero => rfl
  | succ n ih => simp only [closerProg, noCls, List.all_cons, cls, Bool.not_false, Bool.true_and]; exact ih

theorem noCls_obsProg (l : List Nat) : noCls (obsProg l) = true := by
  induction l with
  | nil => rfl
  | cons a l ih =>
    match a with
    | 0 => simp only [obsProg, noCls, List.all_cons, cls, Bool.not_false, Bool.true_and]; exact ih
    | 1 => simp only [obsProg, noCls, List.all_cons, cls, Bool.not_false, Bool.true_and]; exact ih
    | (n + 2) => simp only [obsProg, noCls, List.all_cons, cls, Bool.not_false, Bool.true_and]; exact ih
                 all_goals omega

theorem noCls_opProg (v : Variant) (k : Kind) (d : Nat) : noCls (opProg v k d) = true := by
  cases k <;> simp only [opProg] <;> (try split) <;> rfl

theorem noCls_progOfKinds (v : Variant) (ks : List Kind) (d : Nat) : noCls (progOfKinds v ks d) = true := by
  induction ks generalizing d with
  | nil => rfl
  | cons k ks ih => rw [progOfKinds]; exact noCls_append _ _ (noCls_opProg v k d) (ih _)

theorem shape_init (v : Variant) (sc : Scenario) : Shape (init v sc) := by
  intro t
  apply shape_of_noCls
  simp only [init]
  split
  · rfl
  · split
    · exact noCls_map_srv _
    · split
      · exact noCls_closerProg _
      · split
        · exact noCls_obsProg _
        · split
          · unfold subProg; split
            · rfl
            · exact noCls_progOfKinds v _ _
          · rfl

theorem shape_run (v : Variant) (sched : List Nat) (s : St) (h : Shape s) : Shape (run v s sched) := by
  induction sched generalizing s with
  | nil => exact h
  | cons t ts ih => exact ih (step v s t) (shape_step v s t h)

/-- programs of the other threads are untouched (except by `idleGo`, which starts a goroutine) -/
theorem exec_prog_other (v : Variant) (s : St) (t u : Nat) (i : Instr) (rest : List Instr)
    (hu : u ≠ t) (hi : ∀ c, i ≠ .idleGo c) : (exec v s t i rest).prog u = s.prog u := by
  cases i
  case idleGo c => exact absurd rfl (hi c)
  case srv a =>
    simp only [exec, flushBody]
    split
    · rfl
    · cases a <;> simp only [execSrv]
      case reply rep oldest =>
        split
        · rfl
        · rw [setProg_prog, if_neg hu]; show (deliver s _).prog u = _; rw [deliver_prog]
      case cont =>
        split
        · rfl
        · rw [setProg_prog, if_neg hu]; show (deliver s _).prog u = _; rw [deliver_prog]
      case enabled => rw [setProg_prog, if_neg hu, deliver_prog]
      case close => rw [setProg_prog, if_neg hu]
      case rerr => rw [setProg_prog, if_neg hu]
  case cancelConts c r => simp only [exec, flushBody]; rw [setProg_prog, if_neg hu, updCmd_prog, foldl_setCont2_prog]
  case cancelOrphans ks => simp only [exec, flushBody]; rw [setProg_prog, if_neg hu, foldl_setCont_prog]
  all_goals
    simp only [exec, flushBody]
    repeat' split
    all_goals
      first
        | rfl
        | (rw [setProg_prog, if_neg hu]; done)
        | (simp only [setProg_prog, if_neg hu, updCmd_prog, closeConn_prog, setCont_prog]; done)

/-- a step of a token-neutral instruction does not lose tokens either -/
theorem exec_toks_ge (v : Variant) (s : St) (t : Nat) (i : Instr) (rest : List Instr)
    (hs : s.prog t = i :: rest) (hsh : shape (i :: rest) = true) (hb : special i = false) (c u : Nat) :
    toks c (s.prog u) ≤ toks c ((exec v s t i rest).prog u) := by
  by_cases hu : u = t
  · subst hu
    by_cases hc : cls i = true
    · -- a completion instruction that is not a token: the program becomes `rest` or stays
      have hrest : toks c (s.prog u) = toks c rest := by
        rw [hs, toks_cons]
        have : isTok c i = false := by cases i <;> simp [special] at hb <;> rfl
        simp [this]
      cases i <;> simp [cls] at hc <;> simp [special] at hb
      case cancelConts d r =>
        simp only [exec, flushBody]; rw [setProg_prog, if_pos rfl, hrest]; exact Nat.le_refl _
      case cancelOrphans ks =>
        simp only [exec, flushBody]; rw [setProg_prog, if_pos rfl, hrest]; exact Nat.le_refl _
      all_goals
        simp only [exec, flushBody]
        repeat' split
        all_goals
          first
            | exact Nat.le_refl _
            | (simp only [setProg_prog, if_true]; rw [hrest]; exact Nat.le_refl _)
    · have hc' : cls i = false := by simpa using hc
      have hno := noCls_tail_of_head hsh hc'
      have h0 : toks c (s.prog u) = 0 := by
        rw [hs, toks_cons, toks_of_noCls c rest hno]
        have : isTok c i = false := by cases i <;> simp [cls] at hc' <;> rfl
        simp [this]
      rw [h0]; exact Nat.zero_le _
  · rw [exec_prog_other v s t u i rest hu (by intro d e; rw [e] at hb; simp [special] at hb)]
    exact Nat.le_refl _

/-- a registered command is queued, or about to be completed, or completed -/
def Keep (s : St) : Prop :=
  ∀ c, (s.cmd c).registered = true →
    c ∈ s.pending ∨ (∃ t, 1 ≤ toks c (s.prog t)) ∨ 1 ≤ (s.cmd c).sent

theorem keep_transfer {s s' : St} (h : Keep s)
    (hreg : ∀ d, (s'.cmd d).registered = true → (s.cmd d).registered = true ∨ d ∈ s'.pending)
    (hpend : ∀ d, d ∈ s.pending → d ∈ s'.pending ∨ ∃ t, 1 ≤ toks d (s'.prog t))
    (htok : ∀ d u, 1 ≤ toks d (s.prog u) → (∃ t, 1 ≤ toks d (s'.prog t)) ∨ 1 ≤ (s'.cmd d).sent)
    (hsent : ∀ d, 1 ≤ (s.cmd d).sent → 1 ≤ (s'.cmd d).sent) : Keep s' := by
  intro d hd
  rcases hreg d hd with hr | hr
  · rcases h d hr with h1 | ⟨u, h2⟩ | h3
    · rcases hpend d h1 with a | a
      · exact Or.inl a
      · exact Or.inr (Or.inl a)
    · rcases htok d u h2 with a | a
      · exact Or.inr (Or.inl a)
      · exact Or.inr (Or.inr a)
    · exact Or.inr (Or.inr (hsent d h3))
  · exact Or.inl hr

theorem keep_boring {v : Variant} {s : St} (h : Keep s) (t : Nat) (i : Instr) (rest : List Instr)
    (hs : s.prog t = i :: rest) (hsh : shape (i :: rest) = true) (hb : special i = false) :
    Keep (exec v s t i rest) := by
  have sh := exec_shrinks v s t i rest hs hb
  refine keep_transfer h (fun d hd => Or.inl (by rw [← sh.reg]; exact hd))
    (fun d hd => Or.inl (by rw [sh.pending]; exact hd))
    (fun d u hu => Or.inl ⟨u, Nat.le_trans hu (exec_toks_ge v s t i rest hs hsh hb d u)⟩)
    (fun d hd => by rw [sh.sent]; exact hd)

theorem keep_register {v : Variant} {s : St} (h : Keep s) (t c : Nat) (rest : List Instr)
    (hs : s.prog t = .register c :: rest) (hsh : shape (.register c :: rest) = true) :
    Keep (exec v s t (.register c) rest) := by
  have hno := noCls_tail_of_head hsh rfl
  simp only [exec, flushBody]
  split
  · exact h
  · refine keep_transfer h (fun d hd => ?_) (fun d hd => Or.inl ?_) (fun d u hu => Or.inl ⟨u, ?_⟩) (fun d hd => ?_)
    · by_cases hdc : d = c
      · right; show d ∈ s.pending ++ [c]; simp [hdc]
      · left; simpa only [setProg_cmd, updCmd_cmd, if_neg hdc] using hd
    · show d ∈ s.pending ++ [c]; exact List.mem_append_left _ hd
    · simp only [setProg_prog, updCmd_prog]
      split
      · rename_i e; rw [e, hs, toks_cons, toks_of_noCls d rest hno] at hu; simp [isTok] at hu
      · exact hu
    · simp only [setProg_cmd, updCmd_cmd]; split <;> exact hd

theorem keep_closeSwap {v : Variant} {s : St} (h : Keep s) (t : Nat) (rest : List Instr)
    (hs : s.prog t = .closeSwap :: rest) : Keep (exec v s t .closeSwap rest) := by
  have hrest : ∀ d, toks d (s.prog t) = toks d rest := by
    intro d; rw [hs, toks_cons]; simp [isTok]
  simp only [exec, flushBody]
  split
  all_goals
    refine keep_transfer h (fun d hd => Or.inl hd) (fun d hd => Or.inr ⟨t, ?_⟩) (fun d u hu => Or.inl ?_) (fun d hd => hd)
    · rw [setProg_prog, if_pos rfl, toks_append, toks_completions]
      have := List.count_pos_iff.mpr hd
      omega
    · by_cases e : u = t
      · refine ⟨t, ?_⟩
        rw [e, hrest] at hu
        rw [setProg_prog, if_pos rfl, toks_append]
        first
          | (rw [toks_cons]; omega)
          | omega
      · exact ⟨u, by rw [setProg_prog, if_neg e]; exact hu⟩

theorem keep_delByTag {v : Variant} {s : St} (h : Keep s) (t tag : Nat) (rep : Reply) (caps : Bool)
    (rest : List Instr) (hs : s.prog t = .delByTag tag rep caps :: rest)
    (hsh : shape (.delByTag tag rep caps :: rest) = true) : Keep (exec v s t (.delByTag tag rep caps) rest) := by
  have hno := noCls_tail_of_head hsh rfl
  have h0 : ∀ d, toks d (s.prog t) = 0 := by
    intro d; rw [hs, toks_cons, toks_of_noCls d rest hno]; simp [isTok]
  have htokother : ∀ (p : List Instr) d u, 1 ≤ toks d (s.prog u) →
      1 ≤ toks d ((if u = t then p else s.prog u)) := by
    intro p d u hu
    split
    · rename_i e; rw [e, h0] at hu; omega
    · exact hu
  simp only [exec, flushBody]
  split
  · refine keep_transfer h (fun d hd => Or.inl hd) (fun d hd => Or.inl hd) (fun d u hu => Or.inl ⟨u, ?_⟩) (fun d hd => hd)
    simp only [setProg_prog]; exact htokother _ d u hu
  · rename_i c hc
    refine keep_transfer h (fun d hd => Or.inl hd) (fun d hd => ?_) (fun d u hu => Or.inl ⟨u, ?_⟩) (fun d hd => hd)
    · by_cases e : d = c
      · right; refine ⟨t, ?_⟩
        rw [setProg_prog, if_pos rfl, toks_append, toks_append, toks_complete, e]
        simp only [if_true]; omega
      · left; show d ∈ s.pending.erase c
        exact (List.mem_erase_of_ne e).mpr hd
    · simp only [setProg_prog]; exact htokother _ d u hu

theorem keep_loadDone {v : Variant} {s : St} (h : Keep s) (t c : Nat) (r : Res) (rest : List Instr)
    (hs : s.prog t = .loadDone c r :: rest) : Keep (exec v s t (.loadDone c r) rest) := by
  simp only [exec, flushBody]
  refine keep_transfer h (fun d hd => Or.inl hd) (fun d hd => Or.inl hd) (fun d u hu => Or.inl ⟨u, ?_⟩) (fun d hd => hd)
  simp only [setProg_prog]
  split
  · rename_i e; rw [e, hs, toks_cons] at hu; rw [toks_cons]; simpa [isTok] using hu
  · exact hu

theorem keep_send {v : Variant} {s : St} (h : Keep s) (t c : Nat) (r : Res) (init : Bool) (rest : List Instr)
    (hs : s.prog t = .send c r init :: rest) : Keep (exec v s t (.send c r init) rest) := by
  simp only [exec, flushBody]
  split
  · exact h
  · split
    · exact keep_transfer h (fun d hd => Or.inl hd) (fun d hd => Or.inl hd) (fun d u hu => Or.inl ⟨u, hu⟩) (fun d hd => hd)
    · split
      · exact h
      · refine keep_transfer h (fun d hd => Or.inl ?_) (fun d hd => Or.inl hd) (fun d u hu => ?_) (fun d hd => ?_)
        · simp only [setProg_cmd, updCmd_cmd] at hd; split at hd <;> exact hd
        · by_cases e : d = c
          · right; simp only [setProg_cmd, updCmd_cmd, e, if_true]; omega
          · left; refine ⟨u, ?_⟩
            simp only [setProg_prog, updCmd_prog]
            split
            · rename_i e2; rw [e2, hs, toks_cons] at hu
              have : isTok d (Instr.send c r init) = false := by simp [isTok]; exact fun x => e x.symm
              simpa [this] using hu
            · exact hu
        · simp only [setProg_cmd, updCmd_cmd]; split
          · show 1 ≤ (s.cmd d).sent + 1; omega
          · exact hd

theorem keep_idleGo {v : Variant} {s : St} (h : Keep s) (t c : Nat) (rest : List Instr)
    (hs : s.prog t = .idleGo c :: rest) (hsh : shape (.idleGo c :: rest) = true) :
    Keep (exec v s t (.idleGo c) rest) := by
  have hno := noCls_tail_of_head hsh rfl
  simp only [exec, flushBody]
  split
  · exact h
  rename_i hg
  have hempty : s.prog (idleTid t) = [] := by
    simp only [Bool.or_eq_true, not_or, Bool.not_eq_true, Bool.not_eq_false'] at hg
    exact List.isEmpty_iff.mp (by simpa using hg.1.2)
  refine keep_transfer h (fun d hd => Or.inl hd) (fun d hd => Or.inl hd) (fun d u hu => Or.inl ⟨u, ?_⟩) (fun d hd => hd)
  simp only [setProg_prog]
  split
  · rename_i e; rw [e, hempty] at hu; simp at hu
  · split
    · rename_i e; rw [e, hs, toks_cons, toks_of_noCls d rest hno] at hu; simp [isTok] at hu
    · exact hu

theorem keep_srv {v : Variant} {s : St} (h : Keep s) (t : Nat) (a : SrvAct) (rest : List Instr)
    (hs : s.prog t = .srv a :: rest) (hsh : shape (.srv a :: rest) = true) :
    Keep (exec v s t (.srv a) rest) := by
  have hno := noCls_tail_of_head hsh rfl
  have h0 : ∀ d, toks d (s.prog t) = 0 := by
    intro d; rw [hs, toks_cons, toks_of_noCls d rest hno]; simp [isTok]
  have key : ∀ s' : St, s'.pending = s.pending → s'.cmd = s.cmd → (∀ u, u ≠ t → s'.prog u = s.prog u) → Keep s' := by
    intro s' hp hc hpr
    refine keep_transfer h (fun d hd => Or.inl (by rw [hc] at hd; exact hd)) (fun d hd => Or.inl (by rw [hp]; exact hd))
      (fun d u hu => Or.inl ⟨u, ?_⟩) (fun d hd => by rw [hc]; exact hd)
    by_cases e : u = t
    · rw [e, h0] at hu; omega
    · rw [hpr u e]; exact hu
  simp only [exec, flushBody]
  split
  · exact h
  · cases a <;> simp only [execSrv]
    case reply rep oldest =>
      split
      · exact h
      · exact key _ (deliver_frame s _).1 (deliver_frame s _).2.1
          (fun u hu => by rw [setProg_prog, if_neg hu]; show (deliver s _).prog u = _; rw [deliver_prog])
    case cont =>
      split
      · exact h
      · exact key _ (deliver_frame s _).1 (deliver_frame s _).2.1
          (fun u hu => by rw [setProg_prog, if_neg hu]; show (deliver s _).prog u = _; rw [deliver_prog])
    case enabled =>
      exact key _ (by rw [setProg_pending]; exact (deliver_frame s _).1) (by rw [setProg_cmd]; exact (deliver_frame s _).2.1)
        (fun u hu => by rw [setProg_prog, if_neg hu, deliver_prog])
    case close => exact key _ rfl rfl (fun u hu => by rw [setProg_prog, if_neg hu])
    case rerr => exact key _ rfl rfl (fun u hu => by rw [setProg_prog, if_neg hu])

theorem keep_skipCaps {s : St} (h : Keep s) (t : Nat) : Keep (skipCaps s t) := by
  unfold skipCaps
  split
  · rename_i record rest hs
    split
    · refine keep_transfer h (fun d hd => Or.inl ?_) (fun d hd => Or.inl ?_) (fun d u hu => Or.inl ⟨u, ?_⟩) (fun d hd => ?_)
      · rw [setProg_cmd] at hd; split at hd <;> exact hd
      · rw [setProg_pending]; split <;> exact hd
      · rw [setProg_prog]
        split
        · rename_i e; rw [e, hs, toks_cons, toks_cons] at hu; simpa [isTok] using hu
        · split <;> exact hu
      · rw [setProg_cmd]; split <;> exact hd
    · exact h
  · exact h

theorem keep_step (v : Variant) (s : St) (t : Nat) (hsh : Shape s) (h : Keep s) : Keep (step v s t) := by
  unfold step
  split
  · exact h
  · split
    · split
      · exact keep_skipCaps h _
      · exact h
    · split
      · exact h
      · split
        · exact h
        · rename_i i rest hs
          have hshape : shape (i :: rest) = true := by rw [← hs]; exact hsh t
          cases hi : special i
          · exact keep_boring h t i rest hs hshape hi
          · cases i <;> simp [special] at hi
            · exact keep_register h t _ rest hs hshape
            · exact keep_idleGo h t _ rest hs hshape
            · exact keep_closeSwap h t rest hs
            · exact keep_loadDone h t _ _ rest hs
            · exact keep_send h t _ _ _ rest hs
            · exact keep_delByTag h t _ _ _ rest hs hshape
            · exact keep_srv h t _ rest hs hshape

theorem keep_run (v : Variant) (sched : List Nat) (s : St) (hsh : Shape s) (h : Keep s) :
    Keep (run v s sched) ∧ Shape (run v s sched) := by
  induction sched generalizing s with
  | nil => exact ⟨h, hsh⟩
  | cons t ts ih => exact ih (step v s t) (shape_step v s t hsh) (keep_step v s t hsh h)

theorem keep_init (v : Variant) (sc : Scenario) : Keep (init v sc) := by
  intro c hc
  simp [init] at hc

end GoImap.ClientConc
