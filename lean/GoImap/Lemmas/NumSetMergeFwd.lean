/-
  The forward-merge loop of `insert` preserves the denotation and canonical form.
-/
import GoImap.Lemmas.NumSetMergeFacts
import GoImap.Lemmas.NumSetCanon
namespace GoImap.NumSet

theorem mergeFwd_nil (cur : Range) : mergeFwd cur [] = [cur] := rfl

theorem mergeFwd_cons (cur r : Range) (rest : Set) :
    mergeFwd cur (r :: rest) =
      if (cur.merge r).2 = true then mergeFwd (cur.merge r).1 rest else cur :: r :: rest := rfl

theorem mergeFwd_any (q : Nat) (hq : q < W) (rest : Set) : ∀ cur : Range, cur.WF →
    (∀ r ∈ rest, r.WF) →
    (mergeFwd cur rest).any (fun r => r.contains q) =
      (cur.contains q || rest.any (fun r => r.contains q)) := by
  induction rest with
  | nil => intro cur _ _; simp [mergeFwd_nil]
  | cons r rest ih =>
    intro cur hc hr
    have hrw : r.WF := hr r (by simp)
    rw [mergeFwd_cons]
    by_cases h : (cur.merge r).2 = true
    · simp only [h, if_true]
      rw [ih _ (Range.merge_wf cur r hc hrw h) (fun x hx => hr x (by simp [hx]))]
      rw [Range.merge_contains cur r hc hrw h q hq]
      simp [Bool.or_assoc]
    · simp [h]

theorem mergeFwd_canon (rest : Set) : ∀ (cur : Range) (lo : Nat), cur.WF →
    (cur.start = 0 ∨ lo < cur.start) → Canon rest →
    (∀ r ∈ rest, r.start = 0 ∨ cur.start < r.start) → (cur.start = 0 → rest = []) →
    CanonFrom lo (mergeFwd cur rest) := by
  induction rest with
  | nil =>
    intro cur lo hw hlo _ _ _
    rw [mergeFwd_nil]
    exact ⟨hw, hlo, by intro h; exact absurd rfl h, trivial⟩
  | cons r rest ih =>
    intro cur lo hw hlo hc hst h0
    have hcs : cur.start ≠ 0 := by intro h; have := h0 h; cases this
    have hrw : r.WF := hc.1
    have hr := hst r (by simp)
    rw [mergeFwd_cons]
    by_cases h : (cur.merge r).2 = true
    · simp only [h, if_true]
      have hs := Range.merge_start_left cur r hcs hr
      apply ih _ lo (Range.merge_wf cur r hw hrw h) (by rw [hs]; exact hlo) hc.tail.canon
      · intro x hx; rw [hs]; exact hst x (by simp [hx])
      · intro hz; rw [hs] at hz; exact absurd hz hcs
    · have h' : (cur.merge r).2 = false := by simpa using h
      simp only [h', Bool.false_eq_true, if_false]
      have hf := Range.merge_fail_before cur r hw hrw hcs hr h'
      refine ⟨hw, hlo, fun _ => hf.1, ?_⟩
      exact CanonFrom.relo hc hf.2

end GoImap.NumSet
