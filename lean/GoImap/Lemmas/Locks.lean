import GoImap.Model.Locks
import GoImap.Spec.Locks
/-
  Helper lemmas for C14: the rank invariant is preserved by every step, a state satisfying it
  always has an enabled thread while work remains (max-rank argument), every step consumes one
  operation, and the graph check is sound.
-/
namespace GoImap.Locks
open GoImap.LocksSpec

def Inv (rank : Nat → Nat) (s : State) : Prop := ∀ t ∈ s, Ordered rank t.held t.prog

theorem inv_step (rank : Nat → Nat) (s s' : State) (h : Inv rank s) (st : Step s s') : Inv rank s' := by
  cases st with
  | mk pre t post _ =>
    intro u hu
    simp only [List.mem_append, List.mem_cons] at hu
    rcases hu with hu | rfl | hu
    · exact h u (by simp [hu])
    · have ht := h t (by simp)
      unfold stepThr
      cases hp : t.prog with
      | nil => simpa [hp] using ht
      | cons a p =>
        rw [hp] at ht
        cases a with
        | acq l => exact ht.2
        | rel l => exact ht.2
    · exact h u (by simp [hu])

theorem inv_reachable (rank : Nat → Nat) (s0 s : State) (h : Inv rank s0) (hr : Reachable s0 s) :
    Inv rank s := by
  induction hr with
  | refl => exact h
  | step _ st ih => exact inv_step rank _ _ ih st

theorem reachable_trans {s0 s1 s2 : State} (h1 : Reachable s0 s1) (h2 : Reachable s1 s2) :
    Reachable s0 s2 := by
  induction h2 with
  | refl => exact h1
  | step _ st ih => exact Reachable.step ih st

theorem exists_max (f : Thr → Nat) : ∀ (l : List Thr), l ≠ [] → ∃ t ∈ l, ∀ u ∈ l, f u ≤ f t := by
  intro l
  induction l with
  | nil => intro h; exact absurd rfl h
  | cons a l ih =>
    intro _
    by_cases hl : l = []
    · subst hl; exact ⟨a, by simp, by intro u hu; simp at hu; subst hu; exact Nat.le_refl _⟩
    · obtain ⟨t, ht, hmax⟩ := ih hl
      by_cases hc : f t ≤ f a
      · refine ⟨a, by simp, ?_⟩
        intro u hu
        simp only [List.mem_cons] at hu
        rcases hu with rfl | hu
        · exact Nat.le_refl _
        · exact Nat.le_trans (hmax u hu) hc
      · refine ⟨t, by simp [ht], ?_⟩
        intro u hu
        simp only [List.mem_cons] at hu
        rcases hu with rfl | hu
        · omega
        · exact hmax u hu

/-- the lock a thread is about to take -/
def waits (t : Thr) : Option Nat :=
  match t.prog with
  | .acq l :: _ => some l
  | _ => none

/-- under the rank discipline a state with an unfinished thread has an enabled thread: among the
    blocked threads take one waiting for a lock of maximal rank; its holder is itself unfinished,
    hence blocked on a lock of strictly larger rank — contradiction -/
theorem inv_progress (rank : Nat → Nat) (s : State) (hinv : Inv rank s)
    (hun : ∃ t ∈ s, t.prog ≠ []) : ∃ t ∈ s, enabled s t := by
  apply Classical.byContradiction
  intro hno
  have hno' : ∀ t ∈ s, ¬ enabled s t := fun t ht he => hno ⟨t, ht, he⟩
  have hblocked : ∀ t ∈ s, t.prog ≠ [] → ∃ l p, t.prog = .acq l :: p ∧ heldBy s l := by
    intro t ht hu
    have hne := hno' t ht
    unfold enabled at hne
    cases hp : t.prog with
    | nil => exact absurd hp hu
    | cons a p =>
      rw [hp] at hne
      cases a with
      | rel l => exact absurd trivial hne
      | acq l => exact ⟨l, p, rfl, Classical.not_not.mp hne⟩
  let f : Thr → Nat := fun t => match waits t with | some l => rank l + 1 | none => 0
  obtain ⟨t0, ht0, hu0⟩ := hun
  obtain ⟨t, ht, hmax⟩ := exists_max f s (List.ne_nil_of_mem ht0)
  obtain ⟨l0, p0, hp0, _⟩ := hblocked t0 ht0 hu0
  have hft0 : f t0 = rank l0 + 1 := by simp [f, waits, hp0]
  have htun : t.prog ≠ [] := by
    intro hnil
    have : f t = 0 := by simp [f, waits, hnil]
    have := hmax t0 ht0
    omega
  obtain ⟨l, p, hp, u, hu, hlu⟩ := hblocked t ht htun
  have hft : f t = rank l + 1 := by simp [f, waits, hp]
  have hou := hinv u hu
  have huun : u.prog ≠ [] := by
    intro hnil
    rw [hnil] at hou
    simp only [Ordered] at hou
    rw [hou] at hlu; cases hlu
  obtain ⟨l', p', hp', _⟩ := hblocked u hu huun
  rw [hp'] at hou
  have hlt : rank l < rank l' := hou.1 l hlu
  have hfu : f u = rank l' + 1 := by simp [f, waits, hp']
  have := hmax u hu
  omega

/-- a well-nested program whose nestings all increase the rank satisfies the discipline -/
theorem ordered_of_nestings (rank : Nat → Nat) :
    ∀ (p : List Act) (held : List Nat), WellNested held p →
      (∀ q ∈ nestings held p, rank q.1 < rank q.2) → Ordered rank held p := by
  intro p
  induction p with
  | nil => intro held hw _; exact hw
  | cons a p ih =>
    intro held hw hn
    cases a with
    | acq l =>
      refine ⟨?_, ih (l :: held) hw ?_⟩
      · intro h hh
        exact hn (h, l) (by simp only [nestings, List.mem_append, List.mem_map]; exact Or.inl ⟨h, hh, rfl⟩)
      · intro q hq
        exact hn q (by simp only [nestings, List.mem_append]; exact Or.inr hq)
    | rel l =>
      exact ⟨hw.1, ih (held.erase l) hw.2 (fun q hq => hn q (by simpa only [nestings] using hq))⟩

/-! ### every step consumes one operation -/

theorem remaining_append (a b : State) : remaining (a ++ b) = remaining a + remaining b := by
  induction a with
  | nil => simp [remaining]
  | cons t a ih => simp only [List.cons_append, remaining, ih]; omega

theorem stepThr_length (t : Thr) (h : t.prog ≠ []) : (stepThr t).prog.length + 1 = t.prog.length := by
  unfold stepThr
  cases hp : t.prog with
  | nil => exact absurd hp h
  | cons a p => cases a <;> simp

theorem enabled_unfinished (s : State) (t : Thr) (h : enabled s t) : t.prog ≠ [] := by
  intro hnil
  unfold enabled at h
  rw [hnil] at h
  exact h

theorem step_remaining (s s' : State) (st : Step s s') : remaining s' + 1 = remaining s := by
  cases st with
  | mk pre t post hen =>
    have := stepThr_length t (enabled_unfinished _ _ hen)
    simp only [remaining_append, remaining]
    omega

theorem remaining_zero_done : ∀ (s : State), remaining s = 0 → AllDone s := by
  intro s
  induction s with
  | nil => intro _ t ht; cases ht
  | cons a s ih =>
    intro h t ht
    simp only [remaining] at h
    simp only [List.mem_cons] at ht
    rcases ht with rfl | ht
    · exact List.eq_nil_of_length_eq_zero (by omega)
    · exact ih (by omega) t ht

/-- under the discipline every reachable state can be run to completion, and no schedule is
    longer than the number of operations -/
theorem inv_completes (rank : Nat → Nat) : ∀ (n : Nat) (s : State), remaining s = n → Inv rank s →
    ∃ s', Reachable s s' ∧ AllDone s' := by
  intro n
  induction n with
  | zero => intro s h _; exact ⟨s, Reachable.refl, remaining_zero_done s h⟩
  | succ n ih =>
    intro s hn hinv
    by_cases hd : ∃ t ∈ s, t.prog ≠ []
    · obtain ⟨t, ht, hen⟩ := inv_progress rank s hinv hd
      obtain ⟨pre, post, rfl⟩ := List.append_of_mem ht
      have st : Step (pre ++ t :: post) (pre ++ stepThr t :: post) := Step.mk pre t post hen
      have hrem := step_remaining _ _ st
      obtain ⟨s', hr, hdone⟩ := ih _ (by omega) (inv_step rank _ _ hinv st)
      exact ⟨s', reachable_trans (Reachable.step Reachable.refl st) hr, hdone⟩
    · refine ⟨s, Reachable.refl, ?_⟩
      intro t ht
      apply Classical.byContradiction
      intro hne
      exact hd ⟨t, ht, hne⟩

/-! ### the graph check -/

theorem orderedBy_sound (r : List Nat) (es : List (Nat × Nat)) (h : orderedBy r es = true) :
    ∀ e ∈ es, rankOf r e.1 < rankOf r e.2 := by
  intro e he
  unfold orderedBy at h
  rw [List.all_eq_true] at h
  exact of_decide_eq_true (h e he)

end GoImap.Locks
