import GoImap.Lemmas.ClientConcSuf
/-!
  C13: in every program an instruction that sends a command's completion (`loadDone c` /
  `send c`) is immediately followed by `closeDone c` (the two statements of completeCommand).
-/
namespace GoImap.ClientConc

def tokCmd : Instr → Option Nat
  | .loadDone c _ => some c
  | .send c _ _ => some c
  | _ => none

def pairLoc (i : Instr) (r : List Instr) : Bool :=
  match tokCmd i with
  | some c => r.head? == some (Instr.closeDone c)
  | none => true

theorem pair_cons (i : Instr) (r : List Instr) (hi : tokCmd i = none) (h : AllSuf pairLoc r = true) :
    AllSuf pairLoc (i :: r) = true := by
  simp only [AllSuf, Bool.and_eq_true]
  exact ⟨by simp [pairLoc, hi], h⟩

theorem pair_complete (k : Kind) (c : Nat) (r : Res) (q : List Instr) (hq : AllSuf pairLoc q = true) :
    AllSuf pairLoc (complete k c r ++ q) = true := by
  unfold complete
  cases k <;> cases r <;> simp [AllSuf, pairLoc, tokCmd, hq]

theorem pair_completions (kind : Nat → Kind) (r : Res) (l : List Nat) (q : List Instr)
    (hq : AllSuf pairLoc q = true) :
    AllSuf pairLoc ((l.flatMap fun c => complete (kind c) c r) ++ q) = true := by
  induction l with
  | nil => exact hq
  | cons c l ih =>
    rw [List.flatMap_cons, List.append_assoc]
    exact pair_complete _ _ _ _ ih

theorem pair_exec (v : Variant) (s : St) (t : Nat) (i : Instr) (rest : List Instr)
    (hs : s.prog t = i :: rest) (hall : ∀ u, AllSuf pairLoc (s.prog u) = true) :
    ∀ u, AllSuf pairLoc ((exec v s t i rest).prog u) = true := by
  have h1 : AllSuf pairLoc rest = true := by have := hall t; rw [hs] at this; exact allSuf_tail this
  have h0 : pairLoc i rest = true := by have := hall t; rw [hs] at this; exact allSuf_head this
  intro u
  cases i
  case connRead =>
    simp only [exec, flushBody]
    repeat' split
    all_goals
      first
        | exact hall u
        | (simp only [setProg_prog, closeConn_prog]
           split
           · first | rfl | rfl
           · exact hall u)
  case popCont =>
    simp only [exec, flushBody]
    split
    · simp only [setProg_prog, closeConn_prog]
      split
      · rfl
      · exact hall u
    · simp only [setProg_prog]
      split
      · exact pair_cons _ _ rfl h1
      · exact hall u
  case closeSwap =>
    simp only [exec, flushBody]
    split
    all_goals
      simp only [setProg_prog]
      split
      · apply pair_completions
        first | exact h1 | exact pair_cons _ _ rfl h1
      · exact hall u
  case delByTag tag rep caps =>
    simp only [exec, flushBody]
    split
    · simp only [setProg_prog]
      split
      · rfl
      · exact hall u
    · simp only [setProg_prog]
      split
      · rename_i c0 _ _
        rw [List.append_assoc]
        have hc := pair_complete (s.cmd c0).kind c0 (resOfReply rep) rest h1
        split
        · exact pair_cons _ _ rfl hc
        · exact hc
      · exact hall u
  case loadDone c r =>
    simp only [exec, flushBody, setProg_prog]
    split
    · simp only [AllSuf, Bool.and_eq_true]
      exact ⟨h0, h1⟩
    · exact hall u
  case idleGo c =>
    simp only [exec, flushBody]
    split
    · exact hall u
    · simp only [setProg_prog]
      split
      · rfl
      · split
        · exact h1
        · exact hall u
  case srv a =>
    simp only [exec, flushBody]
    split
    · exact hall u
    · cases a <;> simp only [execSrv]
      case reply rep oldest =>
        split
        · exact hall u
        · simp only [setProg_prog]; split
          · exact h1
          · show AllSuf pairLoc ((deliver s _).prog u) = true; rw [deliver_prog]; exact hall u
      case cont =>
        split
        · exact hall u
        · simp only [setProg_prog]; split
          · exact h1
          · show AllSuf pairLoc ((deliver s _).prog u) = true; rw [deliver_prog]; exact hall u
      case enabled =>
        simp only [setProg_prog]; split
        · exact h1
        · rw [deliver_prog]; exact hall u
      case close => simp only [setProg_prog]; split <;> first | exact h1 | exact hall u
      case rerr => simp only [setProg_prog]; split <;> first | exact h1 | exact hall u
  case cancelConts c r =>
    simp only [exec, flushBody, setProg_prog]
    split
    · exact h1
    · rw [updCmd_prog, foldl_setCont2_prog]; exact hall u
  case cancelOrphans ks =>
    simp only [exec, flushBody, setProg_prog]
    split
    · exact h1
    · rw [foldl_setCont_prog]; exact hall u
  case rdNext =>
    simp only [exec, flushBody]
    split
    · simp only [setProg_prog]; split
      · rfl
      · exact hall u
    · simp only [setProg_prog]; split
      · (rename_i l _ _ _; cases l <;> rfl)
      · exact hall u
  all_goals
    simp only [exec, flushBody]
    repeat' split
    all_goals
      first
        | exact hall u
        | (simp only [setProg_prog, updCmd_prog, closeConn_prog, setCont_prog]
           split
           · first
               | exact h1
               | exact allSuf_dropThrough _ _ h1
               | exact pair_cons _ _ rfl h1
               | exact pair_cons _ _ rfl (allSuf_dropThrough _ _ h1)
               | exact pair_cons _ _ rfl (pair_cons _ _ rfl h1)
           · exact hall u)


theorem pair_skipCaps (s : St) (t : Nat) (hall : ∀ u, AllSuf pairLoc (s.prog u) = true) :
    ∀ u, AllSuf pairLoc ((skipCaps s t).prog u) = true :=
  allSuf_skipCaps s t hall

theorem pair_step (v : Variant) (s : St) (t : Nat) (hall : ∀ u, AllSuf pairLoc (s.prog u) = true) :
    ∀ u, AllSuf pairLoc ((step v s t).prog u) = true := by
  unfold step
  split
  · exact hall
  · split
    · split
      · exact pair_skipCaps s _ hall
      · exact hall
    · split
      · exact hall
      · split
        · exact hall
        · rename_i i rest hs
          exact pair_exec v s t i rest hs hall

theorem pair_run (v : Variant) (sched : List Nat) (s : St) (hall : ∀ u, AllSuf pairLoc (s.prog u) = true) :
    ∀ u, AllSuf pairLoc ((run v s sched).prog u) = true := by
  induction sched generalizing s with
  | nil => exact hall
  | cons t ts ih => exact ih (step v s t) (pair_step v s t hall)

/-- programs without completion instructions satisfy the pairing trivially -/
theorem pair_of_noCls : ∀ p, noCls p = true → AllSuf pairLoc p = true
  | [], _ => rfl
  | i :: r, h => by
    simp only [noCls, List.all_cons, Bool.and_eq_true, Bool.not_eq_true'] at h
    have hi : tokCmd i = none := by cases i <;> simp [cls] at h <;> rfl
    exact pair_cons i r hi (pair_of_noCls r h.2)

theorem pair_init (v : Variant) (sc : Scenario) : ∀ u, AllSuf pairLoc ((init v sc).prog u) = true := by
  intro u
  apply pair_of_noCls
  simp only [init]
  split
  · rfl
  · split
    · exact noCls_map_srv _
    · split
      · exact noCls_closerProg _
      · split
        · exact noCls_obsProg _
        · split
          · unfold subProg; split
            · rfl
            · exact noCls_progOfKinds v _ _
          · rfl

/-- a thread about to send the completion of `c` still holds `closeDone c` -/
theorem closeDone_after_token (s : St) (h : ∀ u, AllSuf pairLoc (s.prog u) = true) (t : Nat) (i : Instr)
    (rest : List Instr) (c : Nat) (hs : s.prog t = i :: rest) (hi : tokCmd i = some c) :
    Instr.closeDone c ∈ s.prog t := by
  have := h t
  rw [hs] at this
  have hl := allSuf_head this
  simp only [pairLoc, hi] at hl
  rw [hs]
  cases rest with
  | nil => simp at hl
  | cons j r =>
    simp only [List.head?_cons, beq_iff_eq, Option.some.injEq] at hl
    rw [hl]; exact List.mem_cons_of_mem _ List.mem_cons_self

end GoImap.ClientConc
