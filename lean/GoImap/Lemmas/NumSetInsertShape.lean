/-
  `insert` with the insertion index as a parameter, and the three shapes its result can take
  when the set is split at that index.
-/
import GoImap.Lemmas.NumSetSearch
namespace GoImap.NumSet

/-- the body of `insert` after the search -/
def insertIdx (s : Set) (i : Nat) (v : Range) : Set :=
  let prev := s.getD (i-1) zeroR
  let merged := i > 0 && (prev.merge v).2
  let s1 := if i > 0 then s.set (i-1) (prev.merge v).1 else s
  if i = s.length then
    if !merged then insertAt s1 i v else s1
  else if merged then
    s1.take (i-1) ++ mergeFwd (s1.getD (i-1) zeroR) (s1.drop i)
  else
    let cur := s1.getD i zeroR
    if !(cur.merge v).2 then insertAt s1 i v
    else s1.take i ++ mergeFwd (cur.merge v).1 (s1.drop (i+1))

theorem insert_eq (s : Set) (v : Range) : insert s v = insertIdx s (search s v.start).1 v := rfl

theorem insertIdx_nil (v : Range) : insertIdx [] 0 v = [v] := by
  simp [insertIdx, insertAt]

theorem insertIdx_zero_cons (c : Range) (rest : Set) (v : Range) :
    insertIdx (c :: rest) 0 v =
      if (c.merge v).2 = true then mergeFwd (c.merge v).1 rest else v :: c :: rest := by
  by_cases h : (c.merge v).2 = true <;> simp [insertIdx, insertAt, h]

theorem take_len_succ (pre : Set) (p : Range) (r : Set) :
    (pre ++ p :: r).take (pre.length + 1) = pre ++ [p] := by
  induction pre with
  | nil => simp
  | cons a l ih => simpa using ih

theorem drop_len_succ_succ (pre : Set) (p c : Range) (r : Set) :
    (pre ++ p :: c :: r).drop (pre.length + 1 + 1) = r := by
  induction pre with
  | nil => simp
  | cons a l ih => simp

theorem insertIdx_snoc_end (pre : Set) (p v : Range) :
    insertIdx (pre ++ [p]) (pre.length + 1) v =
      if (p.merge v).2 = true then pre ++ [(p.merge v).1] else pre ++ [p, v] := by
  by_cases h : (p.merge v).2 = true
  · simp [insertIdx, h]
  · have h' : (p.merge v).2 = false := by simpa using h
    have h1 := Range.merge_fail p v h'
    have := take_len_succ pre p []
    simp [insertIdx, insertAt, h', h1, this]

theorem insertIdx_snoc_mid_merged (pre : Set) (p c : Range) (rest : Set) (v : Range)
    (h : (p.merge v).2 = true) :
    insertIdx (pre ++ p :: c :: rest) (pre.length + 1) v =
      pre ++ mergeFwd (p.merge v).1 (c :: rest) := by
  simp [insertIdx, h]

theorem insertIdx_snoc_mid_fail (pre : Set) (p c : Range) (rest : Set) (v : Range)
    (h : (p.merge v).2 = false) :
    insertIdx (pre ++ p :: c :: rest) (pre.length + 1) v =
      if (c.merge v).2 = true then pre ++ p :: mergeFwd (c.merge v).1 rest
      else pre ++ p :: v :: c :: rest := by
  have h1 := Range.merge_fail p v h
  have e1 := take_len_succ pre p (c :: rest)
  have e2 := drop_len_succ_succ pre p c rest
  by_cases h2 : (c.merge v).2 = true
  · simp [insertIdx, h, h1, h2, e1, e2]
  · simp [insertIdx, insertAt, h, h1, h2, e1]

/-- the three possible results of inserting `v` between `pre` and `post` -/
inductive InsShape (pre post : Set) (v : Range) (out : Set) : Prop
  /-- no neighbour merges: `v` is placed between -/
  | plain (hp : ∀ pre' p, pre = pre' ++ [p] → (p.merge v).2 = false)
      (hc : ∀ c rest, post = c :: rest → (c.merge v).2 = false)
      (e : out = pre ++ v :: post)
  /-- the predecessor absorbs `v`, then merges forward -/
  | mprev (pre' : Set) (p : Range) (e0 : pre = pre' ++ [p]) (hm : (p.merge v).2 = true)
      (e : out = pre' ++ mergeFwd (p.merge v).1 post)
  /-- the predecessor does not merge, the successor absorbs `v`, then merges forward -/
  | mcur (c : Range) (rest : Set) (e0 : post = c :: rest)
      (hp : ∀ pre' p, pre = pre' ++ [p] → (p.merge v).2 = false)
      (hm : (c.merge v).2 = true)
      (e : out = pre ++ mergeFwd (c.merge v).1 rest)

theorem snoc_inj {l l' : Set} {a a' : Range} (h : l ++ [a] = l' ++ [a']) : l = l' ∧ a = a' := by
  have := List.append_inj' h rfl
  exact ⟨this.1, by simpa using this.2⟩

theorem insertIdx_shape (pre post : Set) (v : Range) :
    InsShape pre post v (insertIdx (pre ++ post) pre.length v) := by
  rcases List.eq_nil_or_concat pre with rfl | ⟨pre', p, rfl⟩
  · have hp : ∀ pre' p, ([] : Set) = pre' ++ [p] → (p.merge v).2 = false := by
      intro pre' p h; simp at h
    cases post with
    | nil =>
      refine .plain hp (by intro c rest h; cases h) ?_
      simp [insertIdx_nil]
    | cons c rest =>
      simp only [List.nil_append, List.length_nil]
      rw [insertIdx_zero_cons]
      by_cases h : (c.merge v).2 = true
      · simp only [h, if_true]
        exact .mcur c rest rfl hp h rfl
      · have h' : (c.merge v).2 = false := by simpa using h
        simp only [h', Bool.false_eq_true, if_false]
        refine .plain hp ?_ rfl
        intro c' rest' e; cases e; exact h'
  · rw [List.concat_eq_append]
    have hl : (pre' ++ [p]).length = pre'.length + 1 := by simp
    rw [hl]
    by_cases h : (p.merge v).2 = true
    · cases post with
      | nil =>
        rw [List.append_nil, insertIdx_snoc_end]
        simp only [h, if_true]
        exact .mprev pre' p rfl h rfl
      | cons c rest =>
        have e : pre' ++ [p] ++ c :: rest = pre' ++ p :: c :: rest := by simp
        rw [e, insertIdx_snoc_mid_merged _ _ _ _ _ h]
        exact .mprev pre' p rfl h rfl
    · have h' : (p.merge v).2 = false := by simpa using h
      have hp : ∀ pre'' p', pre' ++ [p] = pre'' ++ [p'] → (p'.merge v).2 = false := by
        intro pre'' p' e
        obtain ⟨_, rfl⟩ := snoc_inj e
        exact h'
      cases post with
      | nil =>
        rw [List.append_nil, insertIdx_snoc_end]
        simp only [h', Bool.false_eq_true, if_false]
        refine .plain hp (by intro c rest h; cases h) ?_
        simp
      | cons c rest =>
        have e : pre' ++ [p] ++ c :: rest = pre' ++ p :: c :: rest := by simp
        rw [e, insertIdx_snoc_mid_fail _ _ _ _ _ h']
        by_cases h2 : (c.merge v).2 = true
        · simp only [h2, if_true]
          refine .mcur c rest rfl hp h2 ?_
          simp
        · have h2' : (c.merge v).2 = false := by simpa using h2
          simp only [h2', Bool.false_eq_true, if_false]
          refine .plain hp ?_ (by simp)
          intro c' rest' e; cases e; exact h2'

end GoImap.NumSet
