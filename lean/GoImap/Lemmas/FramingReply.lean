import GoImap.Lemmas.FramingEvs
/-
  One tagged reply per parsed command (Conn.readCommand), stated on the events a command adds.
-/
namespace GoImap.Framing

def isTagged : Event → Bool
  | .tagged _ _ => true
  | _ => false

/-- the class of the tagged reply for a handler result -/
def replyCls : Option Err → Cls
  | none => .ok
  | some e => e.cls

theorem no_tagged_of_handler_level {cfg} {s s' : S} (h : Ext cfg true s s') :
    ∃ new, s'.evs = new ++ s.evs ∧ new.filter isTagged = [] := by
  obtain ⟨new, hn, hg⟩ := h.evs
  refine ⟨new, hn, ?_⟩
  rw [List.filter_eq_nil_iff]
  intro e he ht
  have := hg e he
  cases e <;> simp [isTagged] at ht
  simp [Good] at this

/-- what the tail of readCommand adds: the one tagged reply, then at most two BYEs -/
theorem finishCommand_events (cfg : Cfg) (hfix : cfg.fx.append = true) (tag : Bytes) (bu : Bool)
    (e : Option Err) (s : S) :
    ∃ byes, (finishCommand cfg tag bu e s).evs =
        byes ++ [Event.tagged tag (replyCls e)] ++ (s.discardLine cfg.fx).evs ∧
      ∀ x ∈ byes, x = Event.bye := by
  unfold finishCommand
  generalize (s.discardLine cfg.fx) = s1
  dsimp only
  have hcls : (match e with | none => Cls.ok | some e => e.cls) = replyCls e := by
    cases e <;> rfl
  simp only [hfix, Bool.not_true, Bool.false_and, Bool.false_eq_true, if_false]
  split_ifs <;> simp only [S.emit]
  · exact ⟨[.bye, .bye], by cases e <;> simp [replyCls], by simp⟩
  · exact ⟨[.bye], by cases e <;> simp [replyCls], by simp⟩
  · exact ⟨[.bye], by cases e <;> simp [replyCls], by simp⟩
  · exact ⟨[], by cases e <;> simp [replyCls], by simp⟩

/-- Every command the server parses (tag and name read) and runs to the end receives exactly one
    tagged reply, carrying its own tag. -/
theorem one_reply (cfg : Cfg) (hfix : cfg.fx.append = true) (s s1 : S)
    (h : readCommand cfg s = (true, s1)) :
    ∃ tag name s2 cls new,
      cmdHeader s.reset = (some (tag, name), s2) ∧
      s1.evs = new ++ s.evs ∧
      new.filter isTagged = [Event.tagged tag cls] := by
  unfold readCommand at h
  split at h
  · cases h
  · rename_i tag name s2 h2
    split at h
    · cases h
    · rename_i hh hne
      generalize hrun : runHandler name (handlerOf cfg name) s2 = p3 at h
      obtain ⟨bu, e, s3⟩ := p3
      dsimp only at h
      split at h
      · cases h
      · cases h
        have l2 : s2.listDepth = 0 := by rw [(cmdHeader_ext (cfg := cfg) (lv := true) h2).2]; rfl
        obtain ⟨n1, hn1, hf1⟩ := no_tagged_of_handler_level (cmdHeader_ext (cfg := cfg) (lv := true) h2).1
        obtain ⟨n2, hn2, hf2⟩ := no_tagged_of_handler_level (runHandler_ext (cfg := cfg) (lv := true) l2 hrun)
        obtain ⟨n3, hn3, hf3⟩ := no_tagged_of_handler_level (discardLine_ext (cfg := cfg) (lv := true) (fx := cfg.fx) s3)
        obtain ⟨byes, hfin, hb⟩ := finishCommand_events cfg hfix tag bu e s3
        refine ⟨tag, name, s2, replyCls e,
          byes ++ [Event.tagged tag (replyCls e)] ++ n3 ++ n2 ++ n1, h2, ?_, ?_⟩
        · rw [hfin, hn3, hn2, hn1]
          simp [S.reset, List.append_assoc]
        · have hbf : byes.filter isTagged = [] := by
            rw [List.filter_eq_nil_iff]
            intro x hx; rw [hb x hx]; simp [isTagged]
          simp only [List.filter_append, hbf, List.nil_append, List.filter_cons, isTagged, if_true,
            List.filter_nil, hf3, hf2, hf1, List.append_nil]

/-- a command line the server cannot use (no tag, no name) or that is outside the model's table
    is not answered -/
theorem no_reply_when_dropped (cfg : Cfg) (s s1 : S) (h : readCommand cfg s = (false, s1)) :
    ∃ new, s1.evs = new ++ s.evs ∧ new.filter isTagged = [] := by
  unfold readCommand at h
  split at h
  · rename_i s2 h2
    cases h
    obtain ⟨n1, hn1, hf1⟩ := no_tagged_of_handler_level (cmdHeader_ext (cfg := cfg) (lv := true) h2).1
    exact ⟨n1, by simpa [S.reset] using hn1, hf1⟩
  · rename_i tag name s2 h2
    obtain ⟨n1, hn1, hf1⟩ := no_tagged_of_handler_level (cmdHeader_ext (cfg := cfg) (lv := true) h2).1
    split at h
    · cases h
      exact ⟨Event.opaque :: n1, by simp [S.emit, hn1, S.reset], by simp [isTagged, hf1]⟩
    · generalize hrun : runHandler name (handlerOf cfg name) s2 = p3 at h
      obtain ⟨bu, e, s3⟩ := p3
      dsimp only at h
      split at h
      · cases h
        have l2 : s2.listDepth = 0 := by rw [(cmdHeader_ext (cfg := cfg) (lv := true) h2).2]; rfl
        obtain ⟨n2, hn2, hf2⟩ := no_tagged_of_handler_level (runHandler_ext (cfg := cfg) (lv := true) l2 hrun)
        exact ⟨n2 ++ n1, by rw [hn2, hn1]; simp [S.reset], by simp [hf1, hf2]⟩
      · cases h

end GoImap.Framing
