import GoImap.Model.ClientConc
/-!
  C13 helper lemmas: field projections of the state-update helpers, and the "frame" of a step
  with respect to the tag bookkeeping.
-/
namespace GoImap.ClientConc

@[simp] theorem setProg_cmd (s : St) (t : Nat) (p : List Instr) : (s.setProg t p).cmd = s.cmd := rfl
@[simp] theorem setProg_cmdTag (s : St) (t : Nat) (p : List Instr) : (s.setProg t p).cmdTag = s.cmdTag := rfl
@[simp] theorem setProg_pending (s : St) (t : Nat) (p : List Instr) : (s.setProg t p).pending = s.pending := rfl
@[simp] theorem setProg_crashed (s : St) (t : Nat) (p : List Instr) : (s.setProg t p).crashed = s.crashed := rfl
@[simp] theorem setProg_contReqs (s : St) (t : Nat) (p : List Instr) : (s.setProg t p).contReqs = s.contReqs := rfl
@[simp] theorem setProg_enc (s : St) (t : Nat) (p : List Instr) : (s.setProg t p).enc = s.enc := rfl
@[simp] theorem setProg_prog (s : St) (t : Nat) (p : List Instr) (u : Nat) :
    (s.setProg t p).prog u = if u = t then p else s.prog u := rfl

@[simp] theorem updCmd_cmdTag (s : St) (c : Nat) (f : CmdRec → CmdRec) : (s.updCmd c f).cmdTag = s.cmdTag := rfl
@[simp] theorem updCmd_pending (s : St) (c : Nat) (f : CmdRec → CmdRec) : (s.updCmd c f).pending = s.pending := rfl
@[simp] theorem updCmd_prog (s : St) (c : Nat) (f : CmdRec → CmdRec) : (s.updCmd c f).prog = s.prog := rfl
@[simp] theorem updCmd_crashed (s : St) (c : Nat) (f : CmdRec → CmdRec) : (s.updCmd c f).crashed = s.crashed := rfl
@[simp] theorem updCmd_contReqs (s : St) (c : Nat) (f : CmdRec → CmdRec) : (s.updCmd c f).contReqs = s.contReqs := rfl
@[simp] theorem updCmd_cmd (s : St) (c : Nat) (f : CmdRec → CmdRec) (d : Nat) :
    (s.updCmd c f).cmd d = if d = c then f (s.cmd d) else s.cmd d := rfl

@[simp] theorem setCont_cmd (s : St) (k : Nat) (x : ContSt) : (s.setCont k x).cmd = s.cmd := rfl
@[simp] theorem setCont_cmdTag (s : St) (k : Nat) (x : ContSt) : (s.setCont k x).cmdTag = s.cmdTag := rfl
@[simp] theorem setCont_pending (s : St) (k : Nat) (x : ContSt) : (s.setCont k x).pending = s.pending := rfl
@[simp] theorem setCont_prog (s : St) (k : Nat) (x : ContSt) : (s.setCont k x).prog = s.prog := rfl
@[simp] theorem setCont_crashed (s : St) (k : Nat) (x : ContSt) : (s.setCont k x).crashed = s.crashed := rfl

@[simp] theorem closeConn_cmd (s : St) : s.closeConn.cmd = s.cmd := rfl
@[simp] theorem closeConn_cmdTag (s : St) : s.closeConn.cmdTag = s.cmdTag := rfl
@[simp] theorem closeConn_pending (s : St) : s.closeConn.pending = s.pending := rfl
@[simp] theorem closeConn_prog (s : St) : s.closeConn.prog = s.prog := rfl
@[simp] theorem closeConn_crashed (s : St) : s.closeConn.crashed = s.crashed := rfl

theorem foldl_setCont_cmd (ks : List Nat) (s : St) :
    (ks.foldl (fun acc k => acc.setCont k .cancelled) s).cmd = s.cmd := by
  induction ks generalizing s with
  | nil => rfl
  | cons k ks ih => simp [List.foldl, ih]

theorem foldl_setCont_cmdTag (ks : List Nat) (s : St) :
    (ks.foldl (fun acc k => acc.setCont k .cancelled) s).cmdTag = s.cmdTag := by
  induction ks generalizing s with
  | nil => rfl
  | cons k ks ih => simp [List.foldl, ih]

theorem foldl_setCont2_cmd (ks : List (Nat × Nat)) (x : ContSt) (s : St) :
    (ks.foldl (fun acc kc => acc.setCont kc.1 x) s).cmd = s.cmd := by
  induction ks generalizing s with
  | nil => rfl
  | cons k ks ih => simp [List.foldl, ih]

theorem foldl_setCont2_cmdTag (ks : List (Nat × Nat)) (x : ContSt) (s : St) :
    (ks.foldl (fun acc kc => acc.setCont kc.1 x) s).cmdTag = s.cmdTag := by
  induction ks generalizing s with
  | nil => rfl
  | cons k ks ih => simp [List.foldl, ih]

/-- the part of the state the tag theorems talk about -/
def tagView (s : St) : Nat × (Nat → Nat × Bool) :=
  (s.cmdTag, fun c => ((s.cmd c).ltag, (s.cmd c).registered))

theorem deliver_tagView (s : St) (l : Line) : tagView (deliver s l) = tagView s := by
  unfold deliver; split <;> rfl

theorem execSrv_tagView (s : St) (t : Nat) (rest : List Instr) (a : SrvAct) :
    tagView (execSrv s t rest a) = tagView s := by
  cases a <;> simp only [execSrv]
  · split
    · rfl
    · simp only [tagView, setProg_cmd, setProg_cmdTag]
      unfold deliver; split <;> rfl
  · split
    · rfl
    · simp only [tagView, setProg_cmd, setProg_cmdTag]
      unfold deliver; split <;> rfl
  · simp only [tagView, setProg_cmd, setProg_cmdTag]
    unfold deliver; split <;> rfl
  · rfl
  · rfl

end GoImap.ClientConc
