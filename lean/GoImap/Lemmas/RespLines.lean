/-
  Helper lemmas for C03: complete response lines that the client reads back as the event they carry
  (`ReadsAs`): the tagged completion line and the EXPUNGE line. Template for the other families.
-/
import GoImap.Lemmas.RespRead
namespace GoImap.Resp

/-- a command tag as the client generates it: a non-empty atom that is not a continuation marker -/
structure IsTag (tag : Str) : Prop where
  ne : tag ≠ []
  atom : ∀ x ∈ tag, isAtomChar x = true
  noplus : ∀ c t, tag = c :: t → c ≠ 43

/-- human-readable text: non-empty, no CR/LF, not starting with `[` -/
structure IsText (text : Str) : Prop where
  ne : text ≠ []
  noeol : ∀ x ∈ text, (x ≠ 13 ∧ x ≠ 10)
  nobracket : ∀ c t, text = c :: t → c ≠ 91

theorem decText_text (text rest : Str) (h : IsText text) : decText (text ++ 13 :: rest) = some (13 :: rest) := by
  unfold decText
  rw [spanB_append (fun c => c ≠ 13 && c ≠ 10) text (13 :: rest)
    (fun x hx => by have := h.noeol x hx; simp [this.1, this.2]) (StopsAt.cons _ (by decide))]
  cases text with
  | nil => exact absurd rfl h.ne
  | cons c t => rfl

theorem readTagged_of_tag (tag rest : Str) (h : IsTag tag) (c : Nat) (r : Str) (hrest : rest = 32 :: c :: r) (h13 : c ≠ 13) (h10 : c ≠ 10) :
    readResponse (tag ++ rest) = (match tryAtom (c :: r) with
      | none => none
      | some (typ, r') =>
        if typ = asc "OK" || typ = asc "NO" || typ = asc "BAD" then
          finishLine ((readRespText true r').map fun (cd, r'') => (Event.done tag typ cd, r''))
        else none) := by
  subst hrest
  have hta := tryAtom_append tag (32 :: c :: r) h.ne h.atom (StopsAt.cons _ (by decide))
  cases htag : tag with
  | nil => exact absurd htag h.ne
  | cons a t =>
    have ha : isAtomChar a = true := h.atom a (by rw [htag]; simp)
    have h43 : a ≠ 43 := h.noplus a t htag
    have h42 : a ≠ 42 := by intro e; rw [e] at ha; exact absurd ha (by decide)
    rw [htag] at hta
    have : readResponse (a :: t ++ 32 :: c :: r) = readTagged (a :: t ++ 32 :: c :: r) := by
      simp only [List.cons_append]
      unfold readResponse
      split
      · rename_i heq; injection heq with e _; exact absurd e h43
      · rename_i heq; injection heq with e _; exact absurd e h42
      · rfl
    rw [this]
    unfold readTagged
    rw [hta]
    simp only [expectSP_sp c r h13 h10]
    rfl

/-- `tag OK text CRLF` is read as the completion of `tag` without a response code -/
theorem done_line (tag text : Str) (ht : IsTag tag) (hx : IsText text) :
    ReadsAs (tag ++ asc " OK " ++ text ++ CRLFb) (Event.done tag (asc "OK") Code.none) := by
  constructor
  · cases tag with
    | nil => exact absurd rfl ht.ne
    | cons a t => simp
  · intro rest
    cases htext : text with
    | nil => exact absurd htext hx.ne
    | cons c t =>
      have hc := hx.noeol c (by rw [htext]; simp)
      have h91 : c ≠ 91 := hx.nobracket c t htext
      have e : tag ++ asc " OK " ++ (c :: t) ++ CRLFb ++ rest = tag ++ (32 :: 79 :: (75 :: 32 :: c :: (t ++ 13 :: 10 :: rest))) := by
        simp [asc, CRLFb, List.append_assoc]
      rw [e, readTagged_of_tag tag _ ht 79 _ rfl (by decide) (by decide)]
      have hta : tryAtom (79 :: 75 :: 32 :: c :: (t ++ 13 :: 10 :: rest)) = some (asc "OK", 32 :: c :: (t ++ 13 :: 10 :: rest)) :=
        tryAtom_append (asc "OK") (32 :: c :: (t ++ 13 :: 10 :: rest)) (by decide) (by decide) (StopsAt.cons _ (by decide))
      rw [hta]
      have htx : decText (c :: (t ++ 13 :: 10 :: rest)) = some (13 :: 10 :: rest) := by
        have := decText_text (c :: t) (10 :: rest) (htext ▸ hx)
        simpa using this
      have hrt : readRespText true (32 :: c :: (t ++ 13 :: 10 :: rest)) = some (Code.none, 13 :: 10 :: rest) := by
        unfold readRespText
        simp only [decSP, hc.1, hc.2, ne_eq, not_false_eq_true, decide_true, Bool.and_self]
        split
        · rename_i heq; cases heq
        · rename_i heq; injection heq with _ h2; injection h2 with h3 _; exact absurd h3 h91
        · rename_i heq; injection heq with _ h2; subst h2; rw [htx]; rfl
      have hok : (asc "OK" = asc "OK" || asc "OK" = asc "NO" || asc "OK" = asc "BAD") = true := by decide
      simp only [hrt, Option.map_some, finishLine_crlf]
      simp

/-- dispatch of the EXPUNGE response -/
theorem dispatch_expunge (n : Nat) (h0 : n ≠ 0) (r : Str) : dispatchData n (asc "EXPUNGE") r = some (Event.expunge n, r) := by
  simp [dispatchData, asc, h0]

/-- `* n EXPUNGE CRLF` (expunge.go writeExpunge) is read as the expunge event of `n` -/
theorem expunge_line (n : Nat) (h0 : n ≠ 0) (hn : n < 4294967296) :
    ReadsAs (star ++ [32] ++ encNumber n ++ asc " EXPUNGE\r\n") (Event.expunge n) := by
  constructor
  · simp [star]
  · intro rest
    obtain ⟨_, h2, h3⟩ := encNumber_spec n
    cases hd : encNumber n with
    | nil => exact absurd hd h3
    | cons a l =>
      have ha : isDigitB a = true := h2 a (by rw [hd]; simp)
      have h13 : a ≠ 13 := by intro e; rw [e] at ha; exact absurd ha (by decide)
      have h10 : a ≠ 10 := by intro e; rw [e] at ha; exact absurd ha (by decide)
      have e : star ++ [32] ++ (a :: l) ++ asc " EXPUNGE\r\n" ++ rest = 42 :: 32 :: a :: (l ++ 32 :: (asc "EXPUNGE" ++ (13 :: 10 :: rest))) := by
        simp [star, asc, List.append_assoc]
      rw [e, readResponse_star a _ h13 h10]
      have e2 : a :: (l ++ 32 :: (asc "EXPUNGE" ++ 13 :: 10 :: rest)) = encNumber n ++ 32 :: (asc "EXPUNGE" ++ 13 :: 10 :: rest) := by
        rw [hd]; rfl
      rw [e2, readUntagged_num n hn (asc "EXPUNGE") (13 :: 10 :: rest) (isName_of _ (by decide)) (StopsAt.cons _ (by decide)),
        dispatch_expunge n h0, finishLine_crlf]

end GoImap.Resp
