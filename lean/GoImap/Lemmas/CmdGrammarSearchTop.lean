/-
  C02 helper lemmas: the SEARCH command — return options, CHARSET, the criteria, and the nesting budget.
-/
import GoImap.Lemmas.CmdGrammarSearchWrite
namespace GoImap.CmdLemmas
open GoImap.CmdGrammar GoImap.CmdSpec

/-! ### the budget derived from the length of the line is enough -/

theorem joinSp_ge_mem : ∀ (l : List Wire) (w : Wire), w ∈ l → w.length ≤ (joinSp l).length
  | [], w, h => by simp at h
  | [a], w, h => by simp at h; subst h; simp [joinSp]
  | a :: b :: t, w, h => by
    have ih := joinSp_ge_mem (b :: t) w
    simp only [joinSp, List.length_append]
    rcases List.mem_cons.mp h with rfl | h
    · omega
    · have := ih h; omega

theorem wList_length (l : List Wire) : (wList l).length = (joinSp l).length + 2 := by
  simp [wList]

mutual
  theorem two_depth_le : ∀ (c : Crit), 2 * depth c ≤ (critWire c).length
    | .mk f nots ors => by
      unfold depth critWire
      rw [wList_length]
      have hB : ∀ a ∈ orAll (flatItems f ++ notItems nots ++ orItems ors), a.1.length ≤
          (joinSp ((orAll (flatItems f ++ notItems nots ++ orItems ors)).map (·.1))).length :=
        fun a ha => joinSp_ge_mem _ a.1 (List.mem_map.mpr ⟨a, ha, rfl⟩)
      have hsub : ∀ a ∈ flatItems f ++ notItems nots ++ orItems ors, a ∈ orAll (flatItems f ++ notItems nots ++ orItems ors) := by
        intro a ha
        unfold orAll
        cases hL : flatItems f ++ notItems nots ++ orItems ors with
        | nil => rw [hL] at ha; simp at ha
        | cons x t => rw [hL] at ha; simpa using ha
      have h1 := depthNots_le nots _ (fun a ha => hB a (hsub a (by simp [ha])))
      have h2 := depthOrs_le ors _ (fun a ha => hB a (hsub a (by simp [ha])))
      omega
  theorem depthNots_le : ∀ (nots : CritList) (B : Nat), (∀ a ∈ notItems nots, a.1.length ≤ B) → 2 * depthNots nots ≤ B
    | .nil, _, _ => by simp [depthNots]
    | .cons c t, B, h => by
      unfold depthNots
      have h1 := two_depth_le c
      have h2 : (kw "NOT" ++ sp ++ critWire c).length ≤ B :=
        h (kw "NOT" ++ sp ++ critWire c, fun x => .mk x.flat (x.nots.snoc (delivCrit c)) x.ors) (by simp [notItems])
      have h3 := depthNots_le t B (fun a ha => h a (by simp [notItems, ha]))
      simp only [List.length_append] at h2
      omega
  theorem depthOrs_le : ∀ (ors : OrList) (B : Nat), (∀ a ∈ orItems ors, a.1.length ≤ B) → 2 * depthOrs ors ≤ B
    | .nil, _, _ => by simp [depthOrs]
    | .cons a b t, B, h => by
      unfold depthOrs
      have h1 := two_depth_le a
      have h1' := two_depth_le b
      have h2 : (kw "OR" ++ sp ++ critWire a ++ sp ++ critWire b).length ≤ B :=
        h (kw "OR" ++ sp ++ critWire a ++ sp ++ critWire b, fun x => .mk x.flat x.nots (x.ors.snoc (delivCrit a) (delivCrit b)))
          (by simp [orItems])
      have h3 := depthOrs_le t B (fun x hx => h x (by simp [orItems, hx]))
      simp only [List.length_append] at h2
      omega
end

/-- the criteria written by the client, read by the top-level loop of handleSearch -/
theorem pSearchTop_crit (c : Crit) (hok : CritOK c) (hd : depth c < maxListDepth) (n : Nat) :
    pSearchTop (n + 1) Crit.empty none (critWire c ++ crlf) = .ok (delivCrit c, crlf) := by
  have hlen : 2 * depth c ≤ (critWire c ++ crlf).length + 2 := by
    have := two_depth_le c
    simp only [List.length_append]
    omega
  have hr := readsAs_crit c _ 0 0 hok (fun c' h' => composes c' h') hlen (by omega) (by unfold maxSearchKeyDepth; unfold maxListDepth at hd; omega) crlf
  simp only [pSearchTop, bind, Except.bind, hr, decSP_crlf]
  rfl

/-! ### return options -/

inductive ROpt where
  | min | max | all | count | save
deriving DecidableEq

def ROpt.name : ROpt → String
  | .min => "MIN" | .max => "MAX" | .all => "ALL" | .count => "COUNT" | .save => "SAVE"

def ROpt.wire (a : ROpt) : Wire := kw a.name

def ROpt.set (o : SearchOpts) : ROpt → SearchOpts
  | .min => { o with min := true } | .max => { o with max := true } | .all => { o with all := true }
  | .count => { o with count := true } | .save => { o with save := true }

def rOpts (o : SearchOpts) : List ROpt :=
  (if o.min then [.min] else []) ++ (if o.max then [.max] else []) ++ (if o.all then [.all] else []) ++
  (if o.count then [.count] else []) ++ (if o.save then [.save] else [])

theorem searchReturnItems_eq (o : SearchOpts) : searchReturnItems o = (rOpts o).map ROpt.wire := by
  obtain ⟨a, b, c, d, e⟩ := o
  cases a <;> cases b <;> cases c <;> cases d <;> cases e <;> rfl

theorem foldl_rOpts (o : SearchOpts) : (rOpts o).foldl ROpt.set {} = o := by
  obtain ⟨a, b, c, d, e⟩ := o
  cases a <;> cases b <;> cases c <;> cases d <;> cases e <;> rfl

theorem ropt_chars (a : ROpt) : str a.name ≠ [] ∧ ∀ c ∈ str a.name, isAtomChar c = true := by
  cases a <;> decide

theorem rOptSpec : ItemSpec pSearchReturnOpt ROpt.wire ROpt.set (fun _ => True) (Stops isAtomChar) where
  parse := by
    intro st a tail _ hok
    have hc := ropt_chars a
    simp only [pSearchReturnOpt, ROpt.wire, kw, pAtom_atom _ tail hc.1 hc.2 hok, bind, Except.bind]
    cases a <;> simp (decide := true) [ROpt.name, ROpt.set, pure, Except.pure]
  okClose := fun rest => stops_b _ 41 (by decide) rest
  okSp := fun rest => stops_sp_atom rest
  notEol := fun a tail _ => notEol_atom _ tail (ropt_chars a).1 (ropt_chars a).2
  notClose := by
    intro a tail _
    cases a <;> simp [ROpt.wire, ROpt.name, kw, str, atom, special]
  nonEmpty := by
    intro a _
    cases a <;> simp [ROpt.wire, ROpt.name, kw, str, atom]


/-! ### the command -/

theorem span_paren (p : Nat → Bool) (h : p 40 = false) (r : Wire) : span p (.b 40 :: r) = ([], .b 40 :: r) := by
  simp [span, h]

theorem critWire_cons (c : Crit) : ∃ r, critWire c = .b 40 :: r := paren_critWire c

/-- the optional `CHARSET UTF-8 ` and the criteria, as handleSearch reads them after the return options -/
def afterOpts (cs : Bool) (c : Crit) : Wire := (if cs then kw "CHARSET UTF-8 " else []) ++ critWire c

theorem notEol_afterOpts (cs : Bool) (c : Crit) (tail : Wire) : NotEol (afterOpts cs c ++ tail) := by
  obtain ⟨r, hr⟩ := critWire_cons c
  cases cs <;> simp [afterOpts, hr, NotEol, kw, str, atom]

theorem pSearchRest_w (uid : Bool) (opts : SearchOpts) (cs : Bool) (c : Crit) (hok : CritOK c) (hd : depth c < maxListDepth) :
    pSearchRest uid opts (afterOpts cs c ++ crlf) = .ok (.search uid (delivCrit c) (canonSearchOpts (some opts)), []) := by
  obtain ⟨r, hr⟩ := critWire_cons c
  have htop := pSearchTop_crit c hok hd (critWire c ++ crlf).length
  cases cs with
  | false =>
    have hsp : span isSearchAtomChar (critWire c ++ crlf) = ([], critWire c ++ crlf) := by
      rw [hr]; exact span_paren _ (by decide) _
    simp only [pSearchRest, afterOpts, Bool.false_eq_true, if_false, List.nil_append, hsp, ne_eq, not_true_eq_false,
      decide_false, Bool.false_and, bind, Except.bind, if_true, htop, pCRLF_crlf_nil]
    rfl
  | true =>
    have hk : kw "CHARSET UTF-8 " = atom (str "CHARSET") ++ (sp ++ (atom (str "UTF-8") ++ sp)) := by decide
    have hsp1 : span isSearchAtomChar (atom (str "CHARSET") ++ (sp ++ (atom (str "UTF-8") ++ (sp ++ (critWire c ++ crlf))))) =
        (str "CHARSET", sp ++ (atom (str "UTF-8") ++ (sp ++ (critWire c ++ crlf)))) :=
      span_atom _ _ _ (by decide) (stops_sp _ (by decide) _)
    have hsp2 : span isSearchAtomChar (critWire c ++ crlf) = ([], critWire c ++ crlf) := by
      rw [hr]; exact span_paren _ (by decide) _
    have hne1 : NotEol (atom (str "UTF-8") ++ (sp ++ (critWire c ++ crlf))) := notEol_atom _ _ (by decide) (by decide)
    have hne2 : NotEol (critWire c ++ crlf) := by rw [hr]; simp [NotEol]
    have hu1 : upper (str "CHARSET") = str "CHARSET" := by decide
    simp (decide := true) only [pSearchRest, afterOpts, if_true, hk, List.append_assoc, hsp1, hu1, bind, Except.bind, pSP_sp _ hne1,
      pAString_atom (str "UTF-8") _ (by decide) (by decide) (stops_sp_atom _), pSP_sp _ hne2, hsp2, if_false, pure, Except.pure]
    simp only [if_true, htop, pCRLF_crlf_nil]
    rfl


end GoImap.CmdLemmas
