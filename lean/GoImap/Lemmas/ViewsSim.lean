/-
  C08 helper lemmas, part 2: the announced view of the specification (Spec/Views.lean: slots,
  labelled by UIDs learnt from FETCH responses) against the ghost view of C07 (Spec/Tracker.lean:
  message identities). Identity `i` is the message with UID `i + 1`. Delivering pending ghost
  updates and applying the rendered wire events to the announced view go in lock step.
-/
import GoImap.Lemmas.ViewsBasic
import GoImap.Lemmas.TrackerInv
namespace GoImap.ViewsLemmas
open GoImap.Tracker GoImap.TrackerSpec GoImap.TrackerLemmas GoImap.Views GoImap.ViewsSpec

/-- slot by slot: unlabelled, or labelled with the UID of the ghost identity -/
def ViewRel : View → List Id → Prop
  | [], [] => True
  | a :: A, i :: v => (a = none ∨ a = some (i + 1)) ∧ ViewRel A v
  | [], _ :: _ => False
  | _ :: _, [] => False

theorem ViewRel.length : ∀ {A : View} {v : List Id}, ViewRel A v → A.length = v.length
  | [], [], _ => rfl
  | _ :: _, _ :: _, h => by simp [ViewRel.length h.2]
  | [], _ :: _, h => h.elim
  | _ :: _, [], h => h.elim

theorem ViewRel.eraseIdx : ∀ {A : View} {v : List Id} (j : Nat), ViewRel A v →
    ViewRel (A.eraseIdx j) (v.eraseIdx j)
  | [], [], _, _ => trivial
  | _ :: _, _ :: _, 0, h => h.2
  | _ :: _, _ :: _, j + 1, h => ⟨h.1, ViewRel.eraseIdx j h.2⟩
  | [], _ :: _, _, h => h.elim
  | _ :: _, [], _, h => h.elim

theorem ViewRel.replicate_none : ∀ (ids : List Id), ViewRel (List.replicate ids.length none) ids
  | [] => trivial
  | _ :: ids => ⟨Or.inl rfl, ViewRel.replicate_none ids⟩

theorem ViewRel.append : ∀ {A : View} {v : List Id} {B : View} {w : List Id}, ViewRel A v → ViewRel B w →
    ViewRel (A ++ B) (v ++ w)
  | [], [], _, _, _, h2 => h2
  | _ :: _, _ :: _, _, _, h, h2 => ⟨h.1, ViewRel.append h.2 h2⟩
  | [], _ :: _, _, _, h, _ => h.elim
  | _ :: _, [], _, _, h, _ => h.elim

/-- labelling slot `j` with the UID of the identity it holds keeps the relation -/
theorem ViewRel.set : ∀ {A : View} {v : List Id} (j : Nat) {i : Id}, ViewRel A v → v[j]? = some i →
    ViewRel (A.set j (some (i + 1))) v
  | [], [], _, _, _, _ => trivial
  | _ :: _, _ :: _, 0, i, h, hv => by
    simp only [List.getElem?_cons_zero, Option.some.injEq] at hv
    subst hv
    exact ⟨Or.inr rfl, h.2⟩
  | _ :: _, _ :: _, j + 1, i, h, hv => by
    simp only [List.getElem?_cons_succ] at hv
    exact ⟨h.1, ViewRel.set j h.2 hv⟩
  | [], _ :: _, _, _, h, _ => h.elim
  | _ :: _, [], _, _, h, _ => h.elim

/-- a labelled slot carries the UID of the identity at that place -/
theorem ViewRel.label : ∀ {A : View} {v : List Id} (j : Nat) {u : Nat}, ViewRel A v →
    A[j]? = some (some u) → ∃ i, v[j]? = some i ∧ u = i + 1
  | [], [], _, _, _, h => by simp at h
  | a :: _, i :: _, 0, u, h, ha => by
    simp only [List.getElem?_cons_zero, Option.some.injEq] at ha
    subst ha
    rcases h.1 with h1 | h1
    · cases h1
    · exact ⟨i, rfl, by simpa using h1⟩
  | _ :: _, _ :: _, j + 1, u, h, ha => by
    simp only [List.getElem?_cons_succ] at ha ⊢
    exact ViewRel.label j h.2 ha
  | [], _ :: _, _, _, h, _ => h.elim
  | _ :: _, [], _, _, h, _ => h.elim

/-- identities of the pending flag updates, in order -/
def fetchIds : List GUpd → List Id
  | [] => []
  | .fetch id :: q => id :: fetchIds q
  | _ :: q => fetchIds q

theorem fetchIds_append (a b : List GUpd) : fetchIds (a ++ b) = fetchIds a ++ fetchIds b := by
  induction a with
  | nil => rfl
  | cons u a ih => cases u <;> simp [fetchIds, ih]

theorem render_nil_snd : ∀ (us : List Upd), (render us []).2 = []
  | [] => rfl
  | .expunge _ :: us => by simp [render, render_nil_snd us]
  | .exists_ _ _ :: us => by simp [render, render_nil_snd us]
  | .mflags :: us => by simp [render, render_nil_snd us]
  | .fetch _ :: us => by simp [render]

/-- one delivered update against one wire event -/
theorem deliver_applyEv {quiet sr : Bool} {v v' : List Id} {u : GUpd} {x : Upd} {A : View}
    {pay : List (Nat × Nat)} {rest : List Id}
    (hd : deliver v u = some (x, v')) (hA : ViewRel A v)
    (hp : pay.map (·.1) = (fetchIds [u] ++ rest).map (· + 1))
    (hq : quiet = true → isExpunge u = false) :
    ∃ A', applyEvs quiet sr A (render [x] pay).1 = .ok A' ∧ ViewRel A' v' ∧
      (render [x] pay).2.map (·.1) = rest.map (· + 1) := by
  cases u with
  | expunge id =>
    obtain ⟨hp0, rfl, rfl⟩ := deliver_expunge hd
    obtain ⟨h1, h2, _⟩ := getElem?_of_posOf rfl hp0
    have hq' : quiet = false := by
      cases quiet
      · rfl
      · exact absurd (hq rfl) (by simp [isExpunge])
    subst hq'
    have hr : inRange A (posOf id v) = true := by
      simp only [inRange, Bool.and_eq_true, decide_eq_true_eq]
      rw [hA.length]; exact ⟨h1, h2⟩
    refine ⟨A.eraseIdx (posOf id v - 1), ?_, hA.eraseIdx _, ?_⟩
    · simp [render, applyEvs, applyEv, hr]
    · simpa [render, fetchIds] using hp
  | exists_ ids =>
    obtain ⟨rfl, rfl⟩ := deliver_exists hd
    refine ⟨A ++ List.replicate ids.length none, ?_, hA.append (ViewRel.replicate_none ids), ?_⟩
    · have : ¬ (v.length + ids.length < A.length) := by rw [hA.length]; omega
      have h2 : v.length + ids.length - A.length = ids.length := by rw [hA.length]; omega
      simp [render, applyEvs, applyEv, this, h2]
    · simpa [render, fetchIds] using hp
  | mflags =>
    obtain ⟨rfl, hv⟩ := deliver_mflags hd
    have hv' : v = v' := hv.symm
    subst hv'
    refine ⟨A, ?_, hA, ?_⟩
    · simp [render, applyEvs]
    · simpa [render, fetchIds] using hp
  | fetch id =>
    obtain ⟨hp0, rfl, hv⟩ := deliver_fetch hd
    have hv' : v = v' := hv.symm
    subst hv'
    obtain ⟨h1, h2, h3⟩ := getElem?_of_posOf rfl hp0
    have hr : inRange A (posOf id v) = true := by
      simp only [inRange, Bool.and_eq_true, decide_eq_true_eq]
      rw [hA.length]; exact ⟨h1, h2⟩
    cases pay with
    | nil => simp [fetchIds] at hp
    | cons p pay =>
      obtain ⟨u, f⟩ := p
      simp only [fetchIds, List.cons_append, List.nil_append, List.map_cons, List.cons.injEq] at hp
      obtain ⟨hu, hrest⟩ := hp
      subst hu
      have hlt : posOf id v - 1 < A.length := by rw [hA.length]; omega
      refine ⟨match A[posOf id v - 1]? with | some none => A.set (posOf id v - 1) (some (id + 1)) | _ => A,
        ?_, ?_, ?_⟩
      · simp only [render, applyEvs, applyEv, hr, Bool.not_true, Bool.false_eq_true, if_false]
        cases hA' : A[posOf id v - 1]? with
        | none => simp
        | some s => cases s <;> simp
      · cases hA' : A[posOf id v - 1]? with
        | none => exact hA
        | some s =>
          cases s with
          | none => exact hA.set _ h3
          | some _ => exact hA
      · simpa [render] using hrest

/-- delivering the due ghost updates and applying the rendered events to the announced view agree:
    every event is accepted by the specification (numbers within the announced count, no EXPUNGE
    when the command is a non-UID FETCH/STORE/SEARCH, EXISTS never below the count), the resulting
    view is again related, and the payloads of the flag updates still queued remain -/
theorem deliverAll_applyEvs {quiet sr : Bool} : ∀ (due : List GUpd) {v v' : List Id} {out : List Upd}
    {A : View} {pay : List (Nat × Nat)} {rest : List Id},
    deliverAll v due = some (out, v') → ViewRel A v →
    pay.map (·.1) = (fetchIds due ++ rest).map (· + 1) →
    (quiet = true → ∀ u ∈ due, isExpunge u = false) →
    ∃ A', applyEvs quiet sr A (render out pay).1 = .ok A' ∧ ViewRel A' v' ∧
      (render out pay).2.map (·.1) = rest.map (· + 1)
  | [], v, v', out, A, pay, rest, hd, hA, hp, _ => by
    simp only [deliverAll_nil, Option.some.injEq, Prod.mk.injEq] at hd
    obtain ⟨rfl, rfl⟩ := hd
    exact ⟨A, by simp [render, applyEvs], hA, by simpa [render, fetchIds] using hp⟩
  | u :: us, v, v', out, A, pay, rest, hd, hA, hp, hq => by
    obtain ⟨x, v1, xs, hd1, hd2, rfl⟩ := deliverAll_cons_some hd
    have hp1 : pay.map (·.1) = (fetchIds [u] ++ (fetchIds us ++ rest)).map (· + 1) := by
      have : fetchIds (u :: us) = fetchIds [u] ++ fetchIds us := fetchIds_append [u] us
      rw [hp, this, List.append_assoc]
    obtain ⟨A1, ha1, hA1, hr1⟩ := deliver_applyEv (quiet := quiet) (sr := sr) hd1 hA hp1
      (fun hq' => hq hq' u List.mem_cons_self)
    obtain ⟨A2, ha2, hA2, hr2⟩ := deliverAll_applyEvs us hd2 hA1 hr1
      (fun hq' w hw => hq hq' w (List.mem_cons_of_mem _ hw))
    refine ⟨A2, ?_, hA2, ?_⟩
    · have hsplit : (render (x :: xs) pay).1 = (render [x] pay).1 ++ (render xs (render [x] pay).2).1 := by
        cases x with
        | expunge k => simp [render]
        | exists_ a n => simp [render]
        | mflags => simp [render]
        | fetch k => cases pay with
          | nil => simp [render]
          | cons p pay => obtain ⟨a, b⟩ := p; simp [render]
      rw [hsplit]
      exact applyEvs_append ha1 ha2
    · have hsplit : (render (x :: xs) pay).2 = (render xs (render [x] pay).2).2 := by
        cases x with
        | expunge k => simp [render]
        | exists_ a n => simp [render]
        | mflags => simp [render]
        | fetch k => cases pay with
          | nil => simp [render, render_nil_snd]
          | cons p pay => obtain ⟨a, b⟩ := p; simp [render]
      rw [hsplit]; exact hr2

end GoImap.ViewsLemmas
