/- Helper lemmas for C20: the top-level `MatchList` (reference / pattern resolution). -/
import GoImap.Lemmas.ListMatchNFA
namespace GoImap.ListMatchLemmas
open GoImap.ListMatch GoImap.ListMatchSpec

theorem stripPrefix?_eq_some {p s r : List B} : stripPrefix? p s = some r ↔ s = p ++ r := by
  induction p generalizing s with
  | nil => simp [stripPrefix?]
  | cons a p ih =>
    cases s with
    | nil => simp [stripPrefix?]
    | cons x xs =>
      simp only [stripPrefix?]
      by_cases hax : a = x
      · simp [hax, ih]
      · simp only [hax, if_false, List.cons_append, List.cons.injEq]
        constructor
        · intro h; cases h
        · rintro ⟨h, _⟩; exact absurd h.symm hax

theorem stripPrefix?_eq_none {p s : List B} : stripPrefix? p s = none ↔ ∀ r, s ≠ p ++ r := by
  constructor
  · intro h r hr
    rw [stripPrefix?_eq_some.mpr hr] at h
    cases h
  · intro h
    cases hs : stripPrefix? p s with
    | none => rfl
    | some r => exact absurd (stripPrefix?_eq_some.mp hs) (h r)

theorem hasSuffix_singleton (s : List B) (d : B) :
    hasSuffix s [d] = decide (s.getLast? = some d) := by
  simp only [hasSuffix, List.reverse_cons, List.reverse_nil, List.nil_append,
    List.getLast?_eq_head?_reverse]
  generalize s.reverse = t
  cases t with
  | nil => simp [stripPrefix?]
  | cons x xs =>
    by_cases hdx : d = x
    · simp [stripPrefix?, hdx]
    · have : ¬ x = d := fun h => hdx h.symm
      simp [stripPrefix?, hdx, this]

theorem hasSuffix_singleton_iff (s : List B) (d : B) :
    hasSuffix s [d] = true ↔ s.getLast? = some d := by
  simp [hasSuffix_singleton]

/-- single-byte delimiter: `MatchList` resolves (reference, pattern) as documented, provided the
    recursive matcher agrees with the position-set matcher -/
theorem top_delim_of (name : List B) (d : B) (reference pattern : List B)
    (hm : ∀ pat nm, matchList (some d) pat nm = matchNFA (some d) pat nm) :
    matchListTop name [d] (some d) reference pattern = resolveMatch name (some d) reference pattern := by
  cases pattern with
  | nil =>
    simp [matchListTop, stripPrefix?, resolveMatch, resolveMatch.resolveRel, hasSuffix_singleton, hm]
    rfl
  | cons p ps =>
    by_cases hpd : p = d
    · subst hpd
      simp [matchListTop, stripPrefix?, resolveMatch, hm]
    · have hdp : ¬ d = p := fun h => hpd h.symm
      simp [matchListTop, stripPrefix?, resolveMatch, resolveMatch.resolveRel, hasSuffix_singleton, hm, hpd, hdp]
      rfl

/-- no delimiter -/
theorem top_nodelim_of (name : List B) (reference pattern : List B)
    (hm : ∀ pat nm, matchList none pat nm = matchNFA none pat nm) :
    matchListTop name [] none reference pattern = resolveMatch name none reference pattern := by
  simp [matchListTop, resolveMatch, resolveMatch.resolveRel, hm]
  rfl

/-! ### relational reading of the documented resolution -/

theorem resolveRel_nil_ref (name : List B) (delim : Option B) (pattern : List B) :
    resolveMatch.resolveRel name delim [] pattern = matchNFA delim pattern name := by
  simp [resolveMatch.resolveRel]

/-- with a non-empty reference completed to `r`: `r` is stripped from the name -/
theorem resolveRel_strip_iff (name : List B) (delim : Option B) (reference pattern r : List B)
    (href : reference ≠ [])
    (hr : r = match delim with
      | some d => if reference.getLast? = some d then reference else reference ++ [d]
      | none => reference) :
    resolveMatch.resolveRel name delim reference pattern = true ↔
      ∃ rest, name = r ++ rest ∧ Matches delim pattern rest := by
  subst hr
  simp only [resolveMatch.resolveRel, List.isEmpty_iff, href, if_false]
  split
  · rename_i hs
    simp only [Bool.false_eq_true, false_iff]
    rintro ⟨rest, hrest, _⟩
    exact stripPrefix?_eq_none.mp hs rest hrest
  · rename_i rest hs
    have hn := stripPrefix?_eq_some.mp hs
    rw [matchNFA_iff_matches]
    constructor
    · intro h; exact ⟨rest, hn, h⟩
    · rintro ⟨rest', hrest', h⟩
      have : rest = rest' := List.append_cancel_left (hn.symm.trans hrest')
      rw [this]; exact h

theorem resolveRel_some_iff (name : List B) (d : B) (reference pattern : List B) :
    resolveMatch.resolveRel name (some d) reference pattern = true ↔
      ∃ rest, name = (if reference = [] ∨ reference.getLast? = some d then reference
                      else reference ++ [d]) ++ rest ∧ Matches (some d) pattern rest := by
  by_cases href : reference = []
  · subst href
    simp [resolveRel_nil_ref, matchNFA_iff_matches]
  · rw [resolveRel_strip_iff name (some d) reference pattern _ href rfl]
    simp only [href, false_or]

theorem resolveRel_none_iff (name : List B) (reference pattern : List B) :
    resolveMatch.resolveRel name none reference pattern = true ↔
      ∃ rest, name = reference ++ rest ∧ Matches none pattern rest := by
  by_cases href : reference = []
  · subst href
    simp [resolveRel_nil_ref, matchNFA_iff_matches]
  · exact resolveRel_strip_iff name none reference pattern _ href rfl

/-- absolute pattern (starts with the delimiter): the reference is ignored -/
theorem resolveMatch_abs (name : List B) (d : B) (reference ps : List B) :
    resolveMatch name (some d) reference (d :: ps) = matchNFA (some d) ps name := by
  simp [resolveMatch]

/-- relative pattern -/
theorem resolveMatch_rel_some (name : List B) (d : B) (reference pattern : List B)
    (h : pattern.head? ≠ some d) :
    resolveMatch name (some d) reference pattern =
      resolveMatch.resolveRel name (some d) reference pattern := by
  cases pattern with
  | nil => simp [resolveMatch]
  | cons p ps =>
    have hpd : ¬ p = d := by simpa using h
    simp [resolveMatch, hpd]

theorem resolveMatch_none (name : List B) (reference pattern : List B) :
    resolveMatch name none reference pattern =
      resolveMatch.resolveRel name none reference pattern := by
  simp [resolveMatch]

end GoImap.ListMatchLemmas
