/- Helper lemmas for C20: the top-level `MatchList` (reference / pattern resolution). -/
import GoImap.Lemmas.ListMatchNFA
namespace GoImap.ListMatchLemmas
open GoImap.ListMatch GoImap.ListMatchSpec

theorem stripPrefix?_eq_some {p s r : List B} : stripPrefix? p s = some r ↔ s = p ++ r := by
  induction p generalizing s with
  | nil => simp [stripPrefix?]
  | cons a p ih =>
    cases s with
    | nil => simp [stripPrefix?]
    | cons x xs =>
      simp only [stripPrefix?]
      by_cases hax : a = x
      · simp [hax, ih]
      · simp only [hax, if_false, List.cons_append, List.cons.injEq]
        constructor
        · intro h; cases h
        · rintro ⟨h, _⟩; exact absurd h.symm hax

theorem stripPrefix?_eq_none {p s : List B} : stripPrefix? p s = none ↔ ∀ r, s ≠ p ++ r := by
  constructor
  · intro h r hr
    rw [stripPrefix?_eq_some.mpr hr] at h
    cases h
  · intro h
    cases hs : stripPrefix? p s with
    | none => rfl
    | some r => exact absurd (stripPrefix?_eq_some.mp hs) (h r)

theorem hasSuffix_singleton (s : List B) (d : B) :
    hasSuffix s [d] = decide (s.getLast? = some d) := by
  simp only [hasSuffix, List.reverse_cons, List.reverse_nil, List.nil_append,
    List.getLast?_eq_head?_reverse]
  generalize s.reverse = t
  cases t with
  | nil => simp [stripPrefix?]
  | cons x xs =>
    by_cases hdx : d = x
    · simp [stripPrefix?, hdx]
    · have : ¬ x = d := fun h => hdx h.symm
      simp [stripPrefix?, hdx, this]

theorem hasSuffix_singleton_iff (s : List B) (d : B) :
    hasSuffix s [d] = true ↔ s.getLast? = some d := by
  simp [hasSuffix_singleton]

theorem matchList_eq_matchNFA' (delim : Option B) (pat name : List B) :
    matchList delim pat name = matchNFA delim pat name := by
  sorry

theorem top_delim (name : List B) (d : B) (reference pattern : List B) :
    matchListTop name [d] (some d) reference pattern = resolveMatch name (some d) reference pattern := by
  cases pattern with
  | nil =>
    simp [matchListTop, stripPrefix?, resolveMatch, resolveMatch.resolveRel, hasSuffix_singleton, matchList_eq_matchNFA']
    trace_state
    sorry
  | cons p ps => sorry

end GoImap.ListMatchLemmas
