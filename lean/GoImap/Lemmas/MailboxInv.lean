/-
  Helper lemmas for C09: how any command can change the mailbox objects of the model
  (`Trans`: only by mapping a per-mailbox function that keeps UIDs ordered and never hands out an
  old UID again, or by creating a fresh mailbox), and the invariants that follow for all histories.
-/
import GoImap.Model.Mailbox
import Mathlib.Tactic.SplitIfs
namespace GoImap.MailboxLemmas
open GoImap GoImap.Mailbox

/-- UIDs strictly increase along the mailbox and lie below uidNext -/
def MboxOK (o : Mbox) : Prop := (o.msgs.map (·.uid)).Pairwise (· < ·) ∧ ∀ m ∈ o.msgs, m.uid < o.uidNext

/-- `o'` is a later state of mailbox `o`: same identity and UIDVALIDITY, uidNext never decreases,
    and every message carrying a UID below the old uidNext was already there (no UID is reused) -/
structure Evolves (o o' : Mbox) : Prop where
  id : o'.id = o.id
  uidv : o'.uidValidity = o.uidValidity
  next : o.uidNext ≤ o'.uidNext
  old : ∀ m' ∈ o'.msgs, m'.uid < o.uidNext → ∃ m ∈ o.msgs, m.uid = m'.uid

theorem Evolves.rfl' (o : Mbox) : Evolves o o := ⟨rfl, rfl, Nat.le_refl _, fun m hm _ => ⟨m, hm, rfl⟩⟩

theorem Evolves.trans' {a b c : Mbox} (h1 : Evolves a b) (h2 : Evolves b c) : Evolves a c := by
  refine ⟨h2.id.trans h1.id, h2.uidv.trans h1.uidv, Nat.le_trans h1.next h2.next, ?_⟩
  intro m' hm' hlt
  by_cases h : m'.uid < b.uidNext
  · obtain ⟨m, hm, he⟩ := h2.old m' hm' h
    obtain ⟨m0, hm0, he0⟩ := h1.old m hm (by omega)
    exact ⟨m0, hm0, by omega⟩
  · have := h1.next; omega

/-- a per-mailbox update that keeps the UID discipline -/
def Good (f : Mbox → Mbox) : Prop := ∀ o, (MboxOK o → MboxOK (f o)) ∧ Evolves o (f o)

theorem good_id : Good id := fun o => ⟨fun h => h, Evolves.rfl' o⟩

theorem good_pushMsg (m : Message) : Good (pushMsg m) := by
  intro o
  constructor
  · intro ⟨hp, hb⟩
    unfold pushMsg
    constructor
    · simp only [List.map_append, List.map_cons, List.map_nil]
      rw [List.pairwise_append]
      refine ⟨hp, List.pairwise_singleton _ _, ?_⟩
      intro a ha b hb'
      simp only [List.mem_singleton] at hb'
      obtain ⟨x, hx, rfl⟩ := List.mem_map.mp ha
      have := hb x hx
      omega
    · intro x hx
      simp only [List.mem_append, List.mem_singleton] at hx
      rcases hx with hx | rfl
      · have := hb x hx; show x.uid < o.uidNext + 1; omega
      · show o.uidNext < o.uidNext + 1; omega
  · refine ⟨rfl, rfl, Nat.le_succ _, ?_⟩
    intro m' hm' hlt
    unfold pushMsg at hm'
    simp only [List.mem_append, List.mem_singleton] at hm'
    rcases hm' with h | rfl
    · exact ⟨m', h, rfl⟩
    · exact absurd hlt (Nat.lt_irrefl _)

theorem good_mapAddressed (uids : List Nat) (f : List Str → List Str) : Good (mapAddressed uids f) := by
  have hmap : ∀ o : Mbox, (mapAddressed uids f o).msgs.map (·.uid) = o.msgs.map (·.uid) := by
    intro o
    unfold mapAddressed
    simp only [List.map_map]
    apply List.map_congr_left
    intro m _
    simp only [Function.comp]
    split <;> rfl
  have hmem : ∀ (o : Mbox) m', m' ∈ (mapAddressed uids f o).msgs → ∃ m ∈ o.msgs, m.uid = m'.uid := by
    intro o m' hm'
    unfold mapAddressed at hm'
    obtain ⟨m, hm, rfl⟩ := List.mem_map.mp hm'
    refine ⟨m, hm, ?_⟩
    split <;> rfl
  intro o
  constructor
  · intro ⟨hp, hb⟩
    refine ⟨by rw [hmap]; exact hp, ?_⟩
    intro m' hm'
    obtain ⟨m, hm, he⟩ := hmem o m' hm'
    have := hb m hm
    show m'.uid < o.uidNext
    omega
  · exact ⟨rfl, rfl, Nat.le_refl _, fun m' hm' _ => hmem o m' hm'⟩

theorem dropSeqs_sublist (seqs : List Nat) (o : Mbox) : (dropSeqs seqs o).msgs.Sublist o.msgs := by
  unfold dropSeqs zipSeq
  simp only
  have h2 : o.msgs = (o.msgs.zipIdx.map fun p => (p.2 + 1, p.1)).map (·.2) := by
    simp only [List.map_map]
    conv => lhs; rw [← List.zipIdx_map_fst 0 o.msgs]
    rfl
  conv => rhs; rw [h2]
  exact (List.filter_sublist).map _

theorem good_sublist (f : Mbox → Mbox) (hs : ∀ o, (f o).msgs.Sublist o.msgs) (hn : ∀ o, (f o).uidNext = o.uidNext)
    (hi : ∀ o, (f o).id = o.id) (hv : ∀ o, (f o).uidValidity = o.uidValidity) : Good f := by
  intro o
  constructor
  · intro ⟨hp, hb⟩
    exact ⟨hp.sublist ((hs o).map _), fun m hm => by rw [hn]; exact hb m ((hs o).subset hm)⟩
  · exact ⟨hi o, hv o, by rw [hn]; exact Nat.le_refl _, fun m' hm' _ => ⟨m', (hs o).subset hm', rfl⟩⟩

theorem good_dropSeqs (seqs : List Nat) : Good (dropSeqs seqs) :=
  good_sublist _ (dropSeqs_sublist seqs) (fun _ => rfl) (fun _ => rfl) (fun _ => rfl)

theorem good_filterMsgs (p : Message → Bool) : Good (fun o => { o with msgs := o.msgs.filter p }) :=
  good_sublist _ (fun _ => List.filter_sublist) (fun _ => rfl) (fun _ => rfl) (fun _ => rfl)

theorem good_rename (n : Str) : Good (fun o => { o with name := n }) :=
  good_sublist _ (fun _ => List.Sublist.refl _) (fun _ => rfl) (fun _ => rfl) (fun _ => rfl)

theorem good_subscribed (v : Bool) : Good (fun o => { o with subscribed := v }) :=
  good_sublist _ (fun _ => List.Sublist.refl _) (fun _ => rfl) (fun _ => rfl) (fun _ => rfl)

/-! ### how the object table can change -/

/-- (objects, nextId, prevUidValidity) -/
abbrev Core := List Mbox × Nat × Nat

def core (st : St) : Core := (st.objs, st.nextId, st.prevUidValidity)

def mapObj (id : Nat) (f : Mbox → Mbox) (l : List Mbox) : List Mbox := l.map fun o => if o.id == id then f o else o

inductive Trans : Core → Core → Prop
  | refl (c : Core) : Trans c c
  | map (l : List Mbox) (n v id : Nat) (f : Mbox → Mbox) (hf : Good f) : Trans (l, n, v) (mapObj id f l, n, v)
  | create (l : List Mbox) (n v : Nat) (name : Str) : Trans (l, n, v) (l ++ [⟨n, name, v + 1, 1, false, []⟩], n + 1, v + 1)
  | trans {a b c : Core} : Trans a b → Trans b c → Trans a c

theorem setObj_core (st : St) (id : Nat) (f : Mbox → Mbox) : core (st.setObj id f) = (mapObj id f st.objs, st.nextId, st.prevUidValidity) := rfl
theorem setConn_core (st : St) (cid : Nat) (f : Conn → Conn) : core (st.setConn cid f) = core st := rfl
theorem dispatch_core (st : St) (oid : Nat) (u : Upd) (src : Option Nat) : core (st.dispatch oid u src) = core st := rfl

theorem dispatchAll_core (us : List Upd) : ∀ (st : St) (oid : Nat) (src : Option Nat), core (st.dispatchAll oid us src) = core st := by
  induction us with
  | nil => intros; rfl
  | cons u us ih =>
    intro st oid src
    unfold St.dispatchAll
    simp only [List.foldl_cons]
    have := ih (st.dispatch oid u src) oid src
    unfold St.dispatchAll at this
    rw [this, dispatch_core]

theorem poll_core (st : St) (cid : Nat) (allow : Bool) : core (poll st cid allow).1 = core st := by
  unfold poll
  split
  · rfl
  · split
    · rfl
    · rfl

theorem finish_core (st : St) (cid : Nat) (allow : Bool) (items : List Item) (code : Code) :
    core (finish st cid allow items code).1 = core st := by
  unfold finish
  exact poll_core st cid allow

theorem withPoll_core (cid : Nat) (x : St × Resp) : core (withPoll cid x).1 = core x.1 := by
  unfold withPoll
  split
  · exact poll_core _ _ _
  · rfl

/-- the state-level relation -/
def T (st st' : St) : Prop := Trans (core st) (core st')

theorem T.refl (st : St) : T st st := Trans.refl _
theorem T.trans {a b c : St} (h1 : T a b) (h2 : T b c) : T a c := Trans.trans h1 h2
theorem T.of_core_eq {a b : St} (h : core b = core a) : T a b := by unfold T; rw [h]; exact Trans.refl _
theorem T.core_eq_right {a b c : St} (h1 : T a b) (h : core c = core b) : T a c := by unfold T at *; rw [h]; exact h1

theorem T_setObj (st : St) (id : Nat) (f : Mbox → Mbox) (hf : Good f) : T st (st.setObj id f) := by
  unfold T; rw [setObj_core]; exact Trans.map _ _ _ id f hf

theorem T_appendMsg (st : St) (oid : Nat) (m : Message) : T st (appendMsg st oid m).1 := by
  unfold appendMsg
  split
  · exact T.refl _
  · exact (T_setObj st oid _ (good_pushMsg m)).core_eq_right (dispatch_core _ _ _ _)

theorem T_copyMsgs (dest : Nat) : ∀ (ms : List Message) (st : St), T st (copyMsgs st dest ms).1 := by
  intro ms
  induction ms with
  | nil => intro st; exact T.refl _
  | cons m rest ih =>
    intro st
    unfold copyMsgs
    exact (T_appendMsg st dest m).trans (ih _)

theorem T_expungeSeqs (st : St) (oid : Nat) (seqs : List Nat) : T st (expungeSeqs st oid seqs) := by
  unfold expungeSeqs
  exact (T.of_core_eq (dispatchAll_core _ st oid none)).trans (T_setObj _ oid _ (good_dropSeqs seqs))

theorem T_finish {st st' : St} (h : T st st') (cid : Nat) (allow : Bool) (items : List Item) (code : Code) :
    T st (finish st' cid allow items code).1 := h.core_eq_right (finish_core _ _ _ _ _)

theorem T_withPoll {st : St} {x : St × Resp} (h : T st x.1) (cid : Nat) : T st (withPoll cid x).1 :=
  h.core_eq_right (withPoll_core cid x)

theorem T_doCreate (st : St) (n : Str) : T st (doCreate st n).1 := by
  unfold doCreate
  simp only
  split
  · exact T.refl _
  · exact Trans.create st.objs st.nextId st.prevUidValidity _

theorem T_doDelete (st : St) (n : Str) : T st (doDelete st n).1 := by
  unfold doDelete
  split
  · exact T.refl _
  · exact T.of_core_eq rfl

theorem T_doRename (st : St) (a b : Str) : T st (doRename st a b).1 := by
  unfold doRename
  simp only
  split
  · exact T.refl _
  · split
    · exact T.refl _
    · exact (T_setObj st _ _ (good_rename _)).core_eq_right rfl

theorem T_doSubscribe (st : St) (n : Str) (v : Bool) : T st (doSubscribe st n v).1 := by
  unfold doSubscribe
  split
  · exact T.refl _
  · exact T_setObj st _ _ (good_subscribed v)

theorem T_doAppend (st : St) (cid : Nat) (n : Str) (m : Message) : T st (doAppend st cid n m).1 := by
  unfold doAppend
  split
  · exact T.refl _
  · split
    · exact T.refl _
    · exact T_finish (T_appendMsg st _ m) _ _ _ _

theorem T_doSelect (st : St) (cid : Nat) (n : Str) (ro : Bool) : T st (doSelect st cid n ro).1 := by
  unfold doSelect
  split
  · exact T.refl _
  · simp only
    split
    · exact T.of_core_eq rfl
    · exact T.of_core_eq rfl

theorem T_doUnselect (st : St) (cid : Nat) (e : Bool) : T st (doUnselect st cid e).1 := by
  unfold doUnselect
  split
  · exact T.refl _
  · simp only
    split
    · exact (T_expungeSeqs st _ _).core_eq_right (setConn_core _ _ _)
    · exact T.of_core_eq rfl

theorem T_fetchTargets (cfg : Cfg) (st : St) (c : Conn) (o : Mbox) (tg : List (Nat × Message)) (opts : FetchOpts) :
    T st (fetchTargets cfg st c o tg opts).1 := by
  unfold fetchTargets
  simp only
  split
  · exact (T_setObj st _ _ (good_mapAddressed _ _)).core_eq_right (dispatchAll_core _ _ _ _)
  · exact T.refl _

theorem T_fetchTail (cfg : Cfg) (st0 st : St) (h : T st0 st) (cid : Nat) (uid : Bool) (c : Conn) (o : Mbox)
    (tg : List (Nat × Message)) (opts : FetchOpts) :
    T st0 (match fetchTargets cfg st c o tg opts with
      | (st1, none) => (st1, panicResp)
      | (st1, some items) => finish st1 cid uid items).1 := by
  have h3 := T_fetchTargets cfg st c o tg opts
  split
  · rename_i st1 heq; rw [heq] at h3; exact h.trans h3
  · rename_i st1 items heq; rw [heq] at h3; exact T_finish (h.trans h3) _ _ _ _

theorem T_doFetch (cfg : Cfg) (st : St) (cid : Nat) (uid : Bool) (set : NumSet.Set) (opts : FetchOpts) :
    T st (doFetch cfg st cid uid set opts).1 := by
  unfold doFetch
  split
  · exact T.refl _
  · exact T_fetchTail cfg st st (T.refl _) _ _ _ _ _ _

theorem T_storeApply (st : St) (cid : Nat) (o : Mbox) (tg : List (Nat × Message)) (op : StoreOp) (flags : List Str) :
    T st (storeApply st cid o tg op flags) := by
  unfold storeApply
  exact (T_setObj st _ _ (good_mapAddressed _ _)).core_eq_right (dispatchAll_core _ _ _ _)

theorem T_doStore (cfg : Cfg) (st : St) (cid : Nat) (uid : Bool) (set : NumSet.Set) (op : StoreOp) (silent : Bool)
    (flags : List Str) : T st (doStore cfg st cid uid set op silent flags).1 := by
  unfold doStore
  split
  · exact T.refl _
  · simp only
    split
    · exact T_finish (T_storeApply _ _ _ _ _ _) _ _ _ _
    · exact T_fetchTail cfg st _ (T_storeApply _ _ _ _ _ _) _ _ _ _ _ _

theorem T_doCopy (cfg : Cfg) (st : St) (cid : Nat) (uid : Bool) (set : NumSet.Set) (dest : Str) :
    T st (doCopy cfg st cid uid set dest).1 := by
  unfold doCopy
  split
  · exact T.refl _
  · split
    · exact T.refl _
    · split
      · exact T.refl _
      · simp only
        split
        · exact T_copyMsgs _ _ _
        · exact T_finish (T_copyMsgs _ _ _) _ _ _ _

theorem T_doMove (cfg : Cfg) (st : St) (cid : Nat) (uid : Bool) (set : NumSet.Set) (dest : Str) :
    T st (doMove cfg st cid uid set dest).1 := by
  unfold doMove
  split
  · exact T.refl _
  · split
    · exact T.refl _
    · split
      · exact T.refl _
      · simp only
        split
        · exact (T_copyMsgs _ _ _).trans (T_expungeSeqs _ _ _)
        · exact T_finish ((T_copyMsgs _ _ _).trans (T_expungeSeqs _ _ _)) _ _ _ _

theorem T_doExpunge (st : St) (cid : Nat) (uids : Option NumSet.Set) : T st (doExpunge st cid uids).1 := by
  unfold doExpunge
  split
  · exact T.refl _
  · exact T_finish (T_expungeSeqs st _ _) _ _ _ _

theorem T_doSearch (st : St) (cid : Nat) (uid : Bool) (ret : Option RetOpts) (keys : Search.KeyList) :
    T st (doSearch st cid uid ret keys).1 := by
  unfold doSearch
  split
  · exact T.refl _
  · simp only
    split
    · exact T_finish (T.refl _) _ _ _ _
    · exact T_finish (T.refl _) _ _ _ _

/-- every command changes the object table only in the ways `Trans` allows -/
theorem T_step (cfg : Cfg) (st : St) (cid : Nat) (cmd : Cmd) : T st (step cfg st cid cmd).1 := by
  cases cmd with
  | create n => exact T_withPoll (T_doCreate st _) cid
  | delete n => exact T_withPoll (T_doDelete st _) cid
  | rename a b => exact T_withPoll (T_doRename st _ _) cid
  | subscribe n => exact T_withPoll (T_doSubscribe st _ _) cid
  | unsubscribe n => exact T_withPoll (T_doSubscribe st _ _) cid
  | list ss ref paren pats s =>
    unfold step; simp only; split
    · exact T_finish (T.refl _) _ _ _ _
    · exact T.refl _
  | status n it =>
    unfold step; simp only; split
    · exact T_finish (T.refl _) _ _ _ _
    · exact T.refl _
  | append n fl d hdrs body sd se => exact T_doAppend st cid _ _
  | select n ro => exact T_doSelect st cid _ ro
  | close => exact T_doUnselect st cid true
  | unselect => exact T_doUnselect st cid false
  | noop => exact T_finish (T.refl _) _ _ _ _
  | store u s op sil fl => exact T_doStore cfg st cid u s op sil fl
  | copy u s d => exact T_doCopy cfg st cid u s _
  | move u s d => exact T_doMove cfg st cid u s _
  | expunge => exact T_doExpunge st cid none
  | uidExpunge s => exact T_doExpunge st cid (some s)
  | search u r k => exact T_doSearch st cid u r k
  | fetch u s o => exact T_doFetch cfg st cid u s o

theorem T_run (cfg : Cfg) : ∀ (ops : List (Nat × Cmd)) (st : St), T st (run cfg st ops).1 := by
  intro ops
  induction ops with
  | nil => intro st; exact T.refl _
  | cons op rest ih =>
    intro st
    obtain ⟨cid, cmd⟩ := op
    unfold run
    simp only
    split
    · exact T_step cfg st cid cmd
    · exact (T_step cfg st cid cmd).trans (ih _)

/-! ### what `Trans` preserves -/

structure CoreInv (c : Core) : Prop where
  ok : ∀ o ∈ c.1, MboxOK o
  idlt : ∀ o ∈ c.1, o.id < c.2.1
  uvle : ∀ o ∈ c.1, o.uidValidity ≤ c.2.2
  idnd : (c.1.map (·.id)).Nodup
  uvnd : (c.1.map (·.uidValidity)).Nodup

def CoreEvolves (c c' : Core) : Prop :=
  c.2.1 ≤ c'.2.1 ∧ c.2.2 ≤ c'.2.2 ∧ ∀ o ∈ c.1, ∃ o' ∈ c'.1, Evolves o o'

theorem mapObj_id (id : Nat) (f : Mbox → Mbox) (hf : Good f) (l : List Mbox) :
    (mapObj id f l).map (·.id) = l.map (·.id) := by
  unfold mapObj
  rw [List.map_map]
  apply List.map_congr_left
  intro o _
  simp only [Function.comp]
  split
  · exact (hf o).2.id
  · rfl

theorem mapObj_uidv (id : Nat) (f : Mbox → Mbox) (hf : Good f) (l : List Mbox) :
    (mapObj id f l).map (·.uidValidity) = l.map (·.uidValidity) := by
  unfold mapObj
  rw [List.map_map]
  apply List.map_congr_left
  intro o _
  simp only [Function.comp]
  split
  · exact (hf o).2.uidv
  · rfl

theorem trans_sound {c c' : Core} (h : Trans c c') : CoreInv c → CoreInv c' ∧ CoreEvolves c c' := by
  induction h with
  | refl c => exact fun hi => ⟨hi, Nat.le_refl _, Nat.le_refl _, fun o ho => ⟨o, ho, Evolves.rfl' o⟩⟩
  | map l n v id f hf =>
    intro hi
    have himg : ∀ o ∈ l, (if o.id == id then f o else o) ∈ mapObj id f l := fun o ho => List.mem_map.mpr ⟨o, ho, rfl⟩
    have hev : ∀ o : Mbox, Evolves o (if o.id == id then f o else o) := by
      intro o; split
      · exact (hf o).2
      · exact Evolves.rfl' o
    refine ⟨⟨?_, ?_, ?_, ?_, ?_⟩, Nat.le_refl _, Nat.le_refl _, fun o ho => ⟨_, himg o ho, hev o⟩⟩
    · intro o' ho'
      obtain ⟨o, ho, rfl⟩ := List.mem_map.mp ho'
      split
      · exact (hf o).1 (hi.ok o ho)
      · exact hi.ok o ho
    · intro o' ho'
      obtain ⟨o, ho, rfl⟩ := List.mem_map.mp ho'
      rw [(hev o).id]; exact hi.idlt o ho
    · intro o' ho'
      obtain ⟨o, ho, rfl⟩ := List.mem_map.mp ho'
      rw [(hev o).uidv]; exact hi.uvle o ho
    · show ((mapObj id f l).map (·.id)).Nodup
      rw [mapObj_id id f hf]; exact hi.idnd
    · show ((mapObj id f l).map (·.uidValidity)).Nodup
      rw [mapObj_uidv id f hf]; exact hi.uvnd
  | create l n v name =>
    intro hi
    refine ⟨⟨?_, ?_, ?_, ?_, ?_⟩, Nat.le_succ _, Nat.le_succ _, fun o ho => ⟨o, List.mem_append_left _ ho, Evolves.rfl' o⟩⟩
    · intro o ho
      rcases List.mem_append.mp ho with h | h
      · exact hi.ok o h
      · simp only [List.mem_singleton] at h
        subst h
        exact ⟨List.Pairwise.nil, fun m hm => by cases hm⟩
    · intro o ho
      rcases List.mem_append.mp ho with h | h
      · have := hi.idlt o h; show o.id < n + 1; exact Nat.lt_succ_of_lt this
      · simp only [List.mem_singleton] at h
        subst h; exact Nat.lt_succ_self _
    · intro o ho
      rcases List.mem_append.mp ho with h | h
      · have := hi.uvle o h; show o.uidValidity ≤ v + 1; exact Nat.le_succ_of_le this
      · simp only [List.mem_singleton] at h
        subst h; exact Nat.le_refl _
    · show ((l ++ [_]).map Mbox.id).Nodup
      rw [List.map_append, List.nodup_append]
      refine ⟨hi.idnd, (by simp), ?_⟩
      intro a ha b hb
      simp only [List.map_cons, List.map_nil, List.mem_singleton] at hb
      obtain ⟨o, ho, rfl⟩ := List.mem_map.mp ha
      have := hi.idlt o ho
      subst hb
      exact Nat.ne_of_lt this
    · show ((l ++ [_]).map Mbox.uidValidity).Nodup
      rw [List.map_append, List.nodup_append]
      refine ⟨hi.uvnd, (by simp), ?_⟩
      intro a ha b hb
      simp only [List.map_cons, List.map_nil, List.mem_singleton] at hb
      obtain ⟨o, ho, rfl⟩ := List.mem_map.mp ha
      have := hi.uvle o ho
      subst hb
      exact Nat.ne_of_lt (Nat.lt_succ_of_le this)
  | trans h1 h2 ih1 ih2 =>
    intro hi
    obtain ⟨hb, e1⟩ := ih1 hi
    obtain ⟨hc, e2⟩ := ih2 hb
    refine ⟨hc, Nat.le_trans e1.1 e2.1, Nat.le_trans e1.2.1 e2.2.1, ?_⟩
    intro o ho
    obtain ⟨o1, ho1, ev1⟩ := e1.2.2 o ho
    obtain ⟨o2, ho2, ev2⟩ := e2.2.2 o1 ho1
    exact ⟨o2, ho2, ev1.trans' ev2⟩

theorem coreInv_init (n : Nat) : CoreInv (core (init n)) := by
  refine ⟨?_, ?_, ?_, ?_, ?_⟩
  · intro o ho
    simp only [core, init, List.mem_singleton] at ho
    subst ho
    exact ⟨List.Pairwise.nil, fun m hm => by cases hm⟩
  · intro o ho
    simp only [core, init, List.mem_singleton] at ho
    subst ho; exact Nat.zero_lt_one
  · intro o ho
    simp only [core, init, List.mem_singleton] at ho
    subst ho; exact Nat.le_refl 1
  · simp [core, init]
  · simp [core, init]

/-- in a state satisfying the invariant, `getObj` finds exactly the objects of the table -/
theorem getObj_mem {st : St} {id : Nat} {o : Mbox} (h : st.getObj id = some o) : o ∈ st.objs ∧ o.id = id := by
  unfold St.getObj at h
  have := List.find?_some h
  exact ⟨List.mem_of_find?_eq_some h, by simpa using this⟩

theorem getObj_of_mem {st : St} (hi : CoreInv (core st)) {o : Mbox} (ho : o ∈ st.objs) : st.getObj o.id = some o := by
  unfold St.getObj
  have hnd : (st.objs.map (·.id)).Nodup := hi.idnd
  generalize st.objs = l at ho hnd
  induction l with
  | nil => cases ho
  | cons a l ih =>
    simp only [List.map_cons, List.nodup_cons] at hnd
    rw [List.find?_cons]
    by_cases ha : a.id = o.id
    · rcases List.mem_cons.mp ho with rfl | h
      · simp
      · exact absurd (List.mem_map.mpr ⟨o, h, ha.symm⟩) hnd.1
    · rcases List.mem_cons.mp ho with rfl | h
      · exact absurd rfl ha
      · have : (a.id == o.id) = false := by simpa using ha
        rw [this]
        exact ih h hnd.2

end GoImap.MailboxLemmas
