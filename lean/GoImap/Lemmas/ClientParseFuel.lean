/-
  The fuel of Model/ClientParse.lean never runs out.  `NF n p g`: on every state with at most `n`
  bytes of input left, `p` does not stop for lack of fuel, and a success leaves at most as much
  input as there was, minus the gain `g` of the value it returns.  Recursive parsers call
  themselves only after consuming input (or one call deeper per consumed byte), hence
  `2·n + c ≤ fuel` is enough.
-/
import GoImap.Model.ClientParse
namespace GoImap.ClientParse
open GoImap

/-- remaining input -/
def L (d : Dec) : Nat := d.inp.length

def NFPost {α} (g : α → Nat) (d : Dec) : Res α → Prop
  | .ok a d' => L d' + g a ≤ L d
  | .nofuel => False
  | _ => True

structure NF {α : Type} (n : Nat) (p : P α) (g : α → Nat) : Prop where
  run : ∀ d, L d ≤ n → NFPost g d (p d)

abbrev NF0 {α : Type} (n : Nat) (p : P α) : Prop := NF n p (fun _ => 0)

theorem nf_bindeq {α β} (p : P α) (f : α → P β) (d : Dec) : (p >>= f) d = P.bind p f d := rfl

theorem nf_pure {α} (n : Nat) (a : α) (g : α → Nat) (h : g a = 0) : NF n (pure a : P α) g := by
  constructor; intro d _; show L d + g a ≤ L d; omega

theorem nf_fail {α} (n : Nat) (g : α → Nat) : NF n (fail : P α) g := by
  constructor; intro d _; trivial

theorem nf_unmod {α} (n : Nat) (g : α → Nat) : NF n (unmodelled : P α) g := by
  constructor; intro d _; trivial

theorem nf_mono {α} {n m : Nat} {p : P α} {g : α → Nat} (h : NF n p g) (hm : m ≤ n) : NF m p g :=
  ⟨fun d hd => h.run d (Nat.le_trans hd hm)⟩

theorem nf_weaken {α} {n : Nat} {p : P α} {g g' : α → Nat} (h : NF n p g) (hg : ∀ a, g' a ≤ g a) : NF n p g' := by
  constructor
  intro d hd
  have := h.run d hd
  cases hp : p d with
  | ok a d' =>
    rw [hp] at this
    have h2 : L d' + g a ≤ L d := this
    have h3 := hg a
    show L d' + g' a ≤ L d
    omega
  | err d' => trivial
  | panic => trivial
  | unmod => trivial
  | nofuel => rw [hp] at this; exact this

/-- sequencing: what `p` consumed lowers the bound for `f`, and counts towards the gain -/
theorem nf_bind {α β} {n : Nat} {p : P α} {f : α → P β} {g : α → Nat} {h : β → Nat}
    (hp : NF n p g) (hf : ∀ a, g a ≤ n → NF (n - g a) (f a) (fun b => h b - g a)) : NF n (p >>= f) h := by
  constructor
  intro d hd
  have h1 := hp.run d hd
  rw [nf_bindeq]
  unfold P.bind
  cases hpd : p d with
  | ok a d' =>
    rw [hpd] at h1
    have h1' : L d' + g a ≤ L d := h1
    have h2 := (hf a (by omega)).run d' (by omega)
    simp only []
    cases hfd : f a d' with
    | ok b d'' =>
      rw [hfd] at h2
      have h2' : L d'' + (h b - g a) ≤ L d' := h2
      show L d'' + h b ≤ L d
      omega
    | err d'' => trivial
    | panic => trivial
    | unmod => trivial
    | nofuel => rw [hfd] at h2; exact h2
  | err d' => trivial
  | panic => trivial
  | unmod => trivial
  | nofuel => rw [hpd] at h1; exact h1

/-- sequencing when the gains do not matter -/
theorem nf_bind0 {α β} {n : Nat} {p : P α} {f : α → P β} {g : α → Nat} {h : β → Nat}
    (hp : NF n p g) (hf : ∀ a, NF n (f a) h) : NF n (p >>= f) h :=
  nf_bind hp (fun a _ => nf_weaken (nf_mono (hf a) (Nat.sub_le _ _)) (fun b => Nat.sub_le _ _))

/-- a parser given as a state transformer that only shortens the input -/
theorem nf_prim {α} (p : P α) (g : α → Nat) (h : ∀ d, NFPost g d (p d)) (n : Nat) : NF n p g :=
  ⟨fun d _ => h d⟩

theorem nf_expect (n : Nat) (b : Bool) : NF0 n (expect b) := by
  unfold expect
  cases b
  · exact nf_fail _ _
  · exact nf_pure _ _ _ rfl

def gBool (k : Nat) (b : Bool) : Nat := if b then k else 0
def gOpt {α} (k : Nat) (o : Option α) : Nat := if o.isSome then k else 0

theorem nf_acceptByte (w : UInt8) (n : Nat) : NF n (acceptByte w) (gBool 1) := by
  apply nf_prim
  intro d
  unfold acceptByte
  rw [nf_bindeq]
  unfold P.bind readByte
  cases h : d.inp with
  | nil => show L _ + gBool 1 false ≤ L d; simp [L, gBool, h]
  | cons b r =>
    simp only []
    by_cases hb : (b == w) = true
    · simp only [hb, if_true]
      show L _ + gBool 1 true ≤ L d
      simp [L, gBool, h]
    · have hb' : (b == w) = false := by simpa using hb
      simp only [hb', Bool.false_eq_true, if_false]
      rw [nf_bindeq]
      unfold P.bind unreadByte
      simp only [if_true]
      show L _ + gBool 1 false ≤ L d
      simp [L, gBool, h]

theorem nf_special (w : UInt8) (n : Nat) : NF n (special w) (gBool 1) := nf_acceptByte w n

theorem nf_peekByte (n : Nat) : NF0 n peekByte := by
  apply nf_prim
  intro d
  unfold peekByte
  rw [nf_bindeq]
  unfold P.bind readByte
  cases h : d.inp with
  | nil => show L _ + 0 ≤ L d; simp [L, h]
  | cons b r =>
    simp only []
    rw [nf_bindeq]
    unfold P.bind unreadByte
    simp only [if_true]
    show L _ + 0 ≤ L d
    simp [L, h]

theorem spanB_len (p : UInt8 → Bool) : ∀ (l acc : Bytes),
    (spanB p l acc).1.length + (spanB p l acc).2.length = acc.length + l.length := by
  intro l
  induction l with
  | nil => intro acc; simp [spanB]
  | cons b r ih =>
    intro acc
    unfold spanB
    by_cases hb : p b = true
    · simp only [hb, if_true]
      rw [ih]
      simp; omega
    · simp only [hb]
      simp

theorem nf_func (v : UInt8 → Bool) (n : Nat) : NF n (func v) (gOpt 1) := by
  apply nf_prim
  intro d
  unfold func
  have hl := spanB_len v d.inp []
  cases hs : spanB v d.inp [] with
  | mk tk rest =>
    rw [hs] at hl
    simp only [List.length_nil, Nat.zero_add] at hl
    cases rest with
    | nil => show L _ + gOpt 1 none ≤ L d; simp [L, gOpt]
    | cons b r =>
      simp only []
      show L _ + gOpt 1 _ ≤ L d
      cases tk with
      | nil => simp only [L, gOpt, List.length_cons, List.length_nil] at hl ⊢; simp; omega
      | cons t ts => simp only [L, gOpt, List.length_cons] at hl ⊢; simp; omega

theorem nf_getCS (n : Nat) : NF0 n getCS := nf_prim _ _ (fun d => by show L d + 0 ≤ L d; omega) n
theorem nf_modifyCS (f : CS → CS) (n : Nat) : NF0 n (modifyCS f) :=
  nf_prim _ _ (fun d => by show L _ + 0 ≤ L d; simp [L]) n
theorem nf_softFail {α} (n : Nat) : NF0 n (softFail : P (Option α)) :=
  nf_prim _ _ (fun d => by show L _ + 0 ≤ L d; simp [L]) n
theorem nf_badLiteral (n : Nat) : NF0 n badLiteral :=
  nf_prim _ _ (fun d => by show L d + 0 ≤ L d; omega) n
theorem nf_noteNest (k n : Nat) : NF0 n (noteNest k) :=
  nf_prim _ _ (fun d => by show L _ + 0 ≤ L d; simp [L]) n

theorem nf_enter (depth n : Nat) : NF0 n (enter depth) := by
  apply nf_prim
  intro d
  unfold enter
  simp only []
  split
  · trivial
  · show L _ + 0 ≤ L d; simp [L]

theorem nf_finally {α} {n : Nat} {p : P α} {g : α → Nat} (h : CS → CS) (hp : NF n p g) : NF n (finally' p h) g := by
  constructor
  intro d hd
  have h1 := hp.run d hd
  unfold finally'
  cases hpd : p d with
  | ok a d' => rw [hpd] at h1; exact h1
  | err d' => trivial
  | panic => trivial
  | unmod => trivial
  | nofuel => rw [hpd] at h1; exact h1

theorem quotedBody_len : ∀ (k : Nat) (l acc : Bytes) (c : Nat) s rest m, l.length ≤ k →
    quotedBody l acc c = some (s, rest, m) → rest.length + 1 ≤ l.length := by
  intro k
  induction k with
  | zero =>
    intro l acc c s rest m hl h
    cases l with
    | nil => simp [quotedBody] at h
    | cons b r => simp at hl
  | succ k ih =>
    intro l acc c s rest m hl h
    cases l with
    | nil => simp [quotedBody] at h
    | cons b r =>
      unfold quotedBody at h
      by_cases hq : (b == 34) = true
      · simp only [hq, if_true, Option.some.injEq, Prod.mk.injEq] at h
        rw [← h.2.1]; simp
      · simp only [hq] at h
        by_cases he : (b == 92) = true
        · simp only [he, if_true] at h
          cases r with
          | nil => simp at h
          | cons c2 r' =>
            simp only [] at h
            have := ih r' _ _ s rest m (by simp at hl; omega) h
            simp; omega
        · simp only [he] at h
          have := ih r _ _ s rest m (by simp at hl; omega) h
          simp; omega

/-- closes `NF n p (fun _ => 0)` goals of straight-line parsers (gains of the parts are ignored) -/
syntax "nf_auto" ("[" term,* "]")? : tactic
macro_rules
  | `(tactic| nf_auto) => `(tactic| nf_auto [])
  | `(tactic| nf_auto [$ls,*]) => `(tactic|
    repeat' (first
      | intro _
      | exact nf_pure _ _ _ rfl
      | exact nf_pure _ _ (fun _ => 0) rfl
      | exact nf_fail _ (fun _ => 0)
      | exact nf_fail _ _
      | exact nf_unmod _ _
      | assumption
      | omega
      | exact nf_expect _ _
      | exact nf_acceptByte _ _
      | exact nf_special _ _
      | exact nf_peekByte _
      | exact nf_func _ _
      | exact nf_getCS _
      | exact nf_modifyCS _ _
      | exact nf_softFail _
      | exact nf_badLiteral _
      | exact nf_noteNest _ _
      | exact nf_enter _ _
      | (first $[| exact $ls]*)
      | (first $[| apply $ls]*)
      | apply nf_bind0
      | split
      | simp only []))

theorem nf_sp (n : Nat) : NF0 n sp := by unfold sp; nf_auto
theorem nf_expectSP (n : Nat) : NF0 n expectSP := by unfold expectSP; nf_auto [nf_sp _]

theorem nf_crlf (n : Nat) : NF n crlf (gBool 1) := by
  unfold crlf
  refine nf_bind0 (nf_acceptByte _ _) (fun _ => ?_)
  refine nf_bind0 (nf_acceptByte _ _) (fun _ => ?_)
  exact nf_acceptByte _ _

/-- `expect (← p)` for a Boolean parser whose `true` consumed `k` bytes -/
theorem nf_expectBool {n k : Nat} {p : P Bool} (hp : NF n p (gBool k)) :
    NF n (do expect (← p)) (fun _ => k) := by
  refine nf_bind hp ?_
  intro b _
  cases b
  · exact nf_fail _ _
  · exact nf_pure _ _ _ (by simp [gBool])

theorem nf_expectSpecial (w : UInt8) (n : Nat) : NF n (expectSpecial w) (fun _ => 1) := by
  unfold expectSpecial; exact nf_expectBool (nf_special w n)

theorem nf_expectCRLF (n : Nat) : NF n expectCRLF (fun _ => 1) := by
  unfold expectCRLF; exact nf_expectBool (nf_crlf n)

theorem nf_atom (n : Nat) : NF n atom (gOpt 1) := nf_func _ n
theorem nf_text (n : Nat) : NF n text (gOpt 1) := nf_func _ n
theorem nf_numberStr (n : Nat) : NF n numberStr (gOpt 1) := nf_func _ n

/-- `match ← p with | some a => pure a | none => fail` -/
theorem nf_expectOpt {α} {n k : Nat} {p : P (Option α)} (hp : NF n p (gOpt k)) : NF n (expectOpt p) (fun _ => k) := by
  unfold expectOpt
  refine nf_bind hp ?_
  intro o _
  cases o with
  | none => exact nf_fail _ _
  | some a => exact nf_pure _ _ _ (by simp [gOpt])

theorem nf_expectAtom (n : Nat) : NF n expectAtom (fun _ => 1) := by
  unfold expectAtom
  refine nf_bind (nf_atom n) ?_
  intro o _
  cases o with
  | none => exact nf_fail _ _
  | some a => exact nf_pure _ _ _ (by simp [gOpt])

theorem nf_discardUntilByte (u : UInt8) (n : Nat) : NF0 n (discardUntilByte u) := by
  unfold discardUntilByte; nf_auto

theorem nf_numberBelow (b n : Nat) : NF n (numberBelow b) (gOpt 1) := by
  unfold numberBelow
  refine nf_bind (nf_numberStr n) ?_
  intro o _
  cases o with
  | none => exact nf_pure _ _ _ (by simp [gOpt])
  | some s =>
    simp only []
    split
    · exact nf_pure _ _ _ (by simp [gOpt])
    · exact nf_pure _ _ _ (by simp [gOpt])

theorem nf_number (n : Nat) : NF n number (gOpt 1) := nf_numberBelow _ n
theorem nf_number64 (n : Nat) : NF n number64 (gOpt 1) := nf_numberBelow _ n
theorem nf_expectNumber (n : Nat) : NF n expectNumber (fun _ => 1) := nf_expectOpt (nf_numberBelow _ n)
theorem nf_expectNumber64 (n : Nat) : NF n expectNumber64 (fun _ => 1) := nf_expectOpt (nf_numberBelow _ n)
theorem nf_expectModSeq (n : Nat) : NF n expectModSeq (fun _ => 1) := nf_expectOpt (nf_numberBelow _ n)

theorem nf_quotedRest (n : Nat) : NF0 n quotedRest := by
  apply nf_prim
  intro d
  unfold quotedRest
  cases h : quotedBody d.inp [] 0 with
  | none => show L _ + 0 ≤ L d; simp [L]
  | some x =>
    obtain ⟨s, rest, m⟩ := x
    have := quotedBody_len d.inp.length d.inp [] 0 s rest m (Nat.le_refl _) h
    show L _ + 0 ≤ L d
    simp only [L]; omega

theorem nf_quoted (n : Nat) : NF n quoted (gOpt 1) := by
  unfold quoted
  refine nf_bind (nf_special 34 n) ?_
  intro b _
  cases b
  · exact nf_pure _ _ _ (by simp [gOpt])
  · simp only [if_true]
    refine nf_weaken (nf_quotedRest _) ?_
    intro o; simp [gOpt, gBool]; split <;> omega

theorem nf_literalData (size n : Nat) : NF0 n (literalData size) := by
  apply nf_prim
  intro d
  show L _ + 0 ≤ L d
  simp [L, literalData]

theorem nf_literal (n : Nat) : NF n literal (gOpt 1) := by
  unfold literal
  refine nf_bind (nf_special 123 n) ?_
  intro b _
  cases b
  · exact nf_pure _ _ _ (by simp [gOpt])
  · simp only [Bool.not_true, Bool.false_eq_true, if_false]
    have hw : ∀ (o : Option Bytes), gOpt 1 o - gBool 1 true ≤ 0 := by
      intro o; simp [gOpt, gBool]; split <;> omega
    refine nf_weaken (g := fun _ => 0) ?_ hw
    have h1 := nf_number64 (n - gBool 1 true)
    have h2 := nf_special 125 (n - gBool 1 true)
    have h3 := nf_crlf (n - gBool 1 true)
    have h4 := fun sz => nf_literalData sz (n - gBool 1 true)
    nf_auto [h4]

theorem nf_string (n : Nat) : NF n string (gOpt 1) := by
  unfold string
  refine nf_bind (nf_quoted n) ?_
  intro o _
  cases o with
  | some s => exact nf_pure _ _ _ (by simp [gOpt])
  | none =>
    simp only []
    refine nf_weaken (nf_mono (nf_literal n) (Nat.sub_le _ _)) ?_
    intro o; exact Nat.sub_le _ _

theorem nf_expectString (n : Nat) : NF n expectString (fun _ => 1) := nf_expectOpt (nf_string n)

theorem nf_expectNString (n : Nat) : NF n expectNString (fun _ => 1) := by
  unfold expectNString
  refine nf_bind (nf_atom n) ?_
  intro o _
  cases o with
  | some a =>
    simp only []
    refine nf_bind0 (nf_expect _ _) (fun _ => nf_pure _ _ _ (by simp [gOpt]))
  | none =>
    simp only []
    refine nf_weaken (nf_mono (nf_expectString n) (Nat.sub_le _ _)) ?_
    intro o; exact Nat.sub_le _ _

theorem nf_expectAString (n : Nat) : NF n expectAString (fun _ => 1) := by
  unfold expectAString
  refine nf_bind (nf_quoted n) ?_
  intro o _
  cases o with
  | some s => exact nf_pure _ _ _ (by simp [gOpt])
  | none =>
    simp only []
    have hm : n - gOpt 1 (none : Option Bytes) = n := by simp [gOpt]
    rw [hm]
    refine nf_bind (nf_literal n) ?_
    intro o2 _
    cases o2 with
    | some s => exact nf_pure _ _ _ (by simp [gOpt])
    | none =>
      simp only []
      have hm2 : n - gOpt 1 (none : Option Bytes) = n := by simp [gOpt]
      rw [hm2]
      refine nf_bind0 (nf_badLiteral n) ?_
      intro bl
      split
      · exact nf_fail _ _
      · refine nf_weaken (nf_expectAtom n) ?_
        intro a; simp [gOpt]

theorem nf_expectNIL (n : Nat) : NF n expectNIL (fun _ => 1) := by
  unfold expectNIL
  refine nf_bind (nf_expectAtom n) ?_
  intro a _
  exact nf_weaken (nf_expect _ _) (fun _ => by simp)

/-! ### lists -/

theorem nf_listLoop (f : P Unit) : ∀ lf m, m + 1 ≤ lf → NF m f (fun _ => 1) → NF0 m (listLoop f lf) := by
  intro lf
  induction lf with
  | zero => intro m h _; omega
  | succ k ih =>
    intro m h hf
    unfold listLoop
    refine nf_bind hf ?_
    intro _ h1
    have h1' : 1 ≤ m := h1
    have hf' : NF (m - 1) f (fun _ => 1) := nf_mono hf (Nat.sub_le _ _)
    have hrec := ih (m - 1) (by omega) hf'
    nf_auto [nf_expectSP _]

theorem nf_list (fuel depth n : Nat) (f : Nat → P Unit) (h : 1 ≤ n → n ≤ fuel)
    (hf : 1 ≤ n → ∀ dp, NF (n - 1) (f dp) (fun _ => 1)) : NF n (list fuel depth f) (gBool 1) := by
  unfold list
  refine nf_bind (nf_special 40 n) ?_
  intro b hb
  cases b
  · exact nf_pure _ _ _ (by simp [gBool])
  · have h1 : 1 ≤ n := by simpa [gBool] using hb
    have hm : n - gBool 1 true = n - 1 := by simp [gBool]
    rw [hm]
    simp only [Bool.not_true, Bool.false_eq_true, if_false]
    have hw : ∀ (b : Bool), gBool 1 b - gBool 1 true ≤ 0 := by intro b; cases b <;> simp [gBool]
    refine nf_weaken (g := fun _ => 0) ?_ hw
    have hl := fun dp => nf_listLoop (f dp) fuel (n - 1) (by have := h h1; omega) (hf h1 dp)
    nf_auto [hl]

theorem nf_expectList (fuel depth n : Nat) (f : Nat → P Unit) (h : 1 ≤ n → n ≤ fuel)
    (hf : 1 ≤ n → ∀ dp, NF (n - 1) (f dp) (fun _ => 1)) : NF n (expectList fuel depth f) (fun _ => 1) := by
  unfold expectList
  exact nf_expectBool (nf_list fuel depth n f h hf)

theorem nf_expectNList (fuel depth n : Nat) (f : Nat → P Unit) (h : 1 ≤ n → n ≤ fuel)
    (hf : 1 ≤ n → ∀ dp, NF (n - 1) (f dp) (fun _ => 1)) : NF n (expectNList fuel depth f) (fun _ => 1) := by
  unfold expectNList
  refine nf_bind (nf_atom n) ?_
  intro o _
  cases o with
  | some a => exact nf_weaken (nf_expect _ _) (fun _ => by simp [gOpt])
  | none =>
    simp only []
    have hm : n - gOpt 1 (none : Option Bytes) = n := by simp [gOpt]
    rw [hm]
    exact nf_weaken (nf_expectList fuel depth n f h hf) (fun _ => Nat.sub_le _ _)

theorem nf_discardValue : ∀ fuel n depth, 2 * n + 1 ≤ fuel → NF n (discardValue fuel depth) (fun _ => 1) := by
  intro fuel
  induction fuel with
  | zero => intro n depth h; omega
  | succ k ih =>
    intro n depth h
    unfold discardValue
    refine nf_bind (nf_string n) ?_
    intro o _
    cases o with
    | some s => exact nf_pure _ _ _ (by simp [gOpt])
    | none =>
      simp only []
      have hm : n - gOpt 1 (none : Option Bytes) = n := by simp [gOpt]
      rw [hm]
      refine nf_bind0 (nf_badLiteral n) ?_
      intro bl
      split
      · exact nf_fail _ _
      · refine nf_bind (nf_list k depth n (fun dp => discardValue k dp) (by intro; omega)
          (fun h1 dp => ih (n - 1) dp (by omega))) ?_
        intro b _
        cases b
        · simp only [Bool.false_eq_true, if_false]
          have hm2 : n - gBool 1 false = n := by simp [gBool]
          rw [hm2]
          refine nf_bind (nf_atom n) ?_
          intro o2 _
          cases o2 with
          | some a => exact nf_pure _ _ _ (by simp [gOpt, gBool])
          | none => exact nf_fail _ _
        · simp only [if_true]
          exact nf_pure _ _ _ (by simp [gOpt, gBool])

theorem nf_expectNumSet (n : Nat) : NF0 n expectNumSet := by
  unfold expectNumSet; nf_auto

/-! ### SEARCH / ESEARCH / SORT / THREAD -/

theorem nf_searchLoop (rz : Bool) : ∀ lf n, n + 1 ≤ lf → NF0 n (searchLoop rz lf) := by
  intro lf
  induction lf with
  | zero => intro n h; omega
  | succ k ih =>
    intro n h
    unfold searchLoop
    refine nf_bind0 (nf_sp n) ?_
    intro b
    split
    · exact nf_pure _ _ _ rfl
    · refine nf_bind0 (nf_special 40 n) ?_
      intro b2
      split
      · nf_auto [nf_expectAtom _, nf_expectSP _, nf_expectModSeq _, nf_expectSpecial _ _]
      · refine nf_bind (nf_expectNumber n) ?_
        intro num h1
        have h1' : 1 ≤ n := h1
        have hrec := ih (n - 1) (by omega)
        nf_auto

theorem nf_sortLoop (rz : Bool) : ∀ lf n, n + 1 ≤ lf → NF0 n (sortLoop rz lf) := by
  intro lf
  induction lf with
  | zero => intro n h; omega
  | succ k ih =>
    intro n h
    unfold sortLoop
    refine nf_bind0 (nf_sp n) ?_
    intro b
    split
    · exact nf_pure _ _ _ rfl
    · refine nf_bind (nf_expectNumber n) ?_
      intro num h1
      have h1' : 1 ≤ n := h1
      have hrec := ih (n - 1) (by omega)
      nf_auto

theorem nf_esearchLoop (depth : Nat) : ∀ lf n name data, 2 * n + 2 ≤ lf → NF0 n (esearchLoop depth lf name data) := by
  intro lf
  induction lf with
  | zero => intro n name data h; omega
  | succ k ih =>
    intro n name data h
    unfold esearchLoop
    refine nf_bind0 (nf_expectSP n) ?_
    intro _
    split
    · exact nf_unmod _ _
    · refine nf_bind (g := fun _ => 1) ?_ ?_
      · -- every kind of return data consumes at least one byte
        have num : ∀ (k : Nat → ESData), NF n (do let x ← expectNumber; pure (k x) : P ESData) (fun _ => 1) := by
          intro k
          refine nf_bind (nf_expectNumber n) ?_
          intro x _
          exact nf_pure _ _ _ rfl
        split
        · exact num _
        · split
          · exact num _
          · split
            · refine nf_bind (g := fun _ => 1) ?_ ?_
              · unfold expectNumSet
                refine nf_bind (nf_special 36 n) ?_
                intro b _
                cases b
                · simp only [Bool.false_eq_true, if_false]
                  have hm : n - gBool 1 false = n := by simp [gBool]
                  rw [hm]
                  refine nf_bind (nf_func isNumSetChar n) ?_
                  intro o _
                  cases o with
                  | none => exact nf_fail _ _
                  | some s =>
                    simp only []
                    split
                    · exact nf_fail _ _
                    · exact nf_pure _ _ _ (by simp [gOpt, gBool])
                · simp only [if_true]
                  exact nf_pure _ _ _ (by simp [gBool])
              · intro r _
                obtain ⟨dyn, set⟩ := r
                simp only []
                split
                · exact nf_fail _ _
                · exact nf_pure _ _ _ rfl
            · split
              · exact num _
              · split
                · refine nf_bind (nf_expectModSeq n) ?_
                  intro x _
                  exact nf_pure _ _ _ rfl
                · refine nf_bind (nf_discardValue k n depth (by omega)) ?_
                  intro _ _
                  exact nf_pure _ _ _ rfl
      · intro data' h1
        have h1' : 1 ≤ n := h1
        have hrec := fun nm => ih (n - 1) nm data' (by omega)
        nf_auto [nf_sp _, nf_expectAtom _, hrec]

theorem nf_readESearch (fuel n : Nat) (h : 2 * n + 2 ≤ fuel) : NF0 n (readESearch fuel) := by
  unfold readESearch
  have hl := fun nm dt => nf_esearchLoop 0 fuel n nm dt h
  nf_auto [nf_special _ _, nf_expectAtom _, nf_expectSP _, nf_expectAString _, nf_expectSpecial _ _, nf_sp _, hl]
  all_goals exact nf_fail _ _

theorem nf_handleESearch (fuel n : Nat) (h : 2 * n + 2 ≤ fuel) : NF0 n (handleESearch fuel) := by
  unfold handleESearch
  have := nf_readESearch fuel n h
  nf_auto [nf_expectSP _]

theorem nf_threadItem (rz : Bool) (m : Nat) (sub : P TD) (t : TD) (hs : NF m sub (fun _ => 1)) :
    NF m (threadItem rz sub t) (fun _ => 1) := by
  unfold threadItem
  refine nf_bind (p := (if !t.hasSub then number else pure none : P (Option Nat))) (g := gOpt 1) ?_ ?_
  · split
    · exact nf_number m
    · exact nf_pure _ _ _ (by simp [gOpt])
  · intro o _
    cases o with
    | some x =>
      simp only []
      split
      · exact nf_fail _ _
      · exact nf_pure _ _ _ (by simp [gOpt])
    | none =>
      simp only []
      have hm : m - gOpt 1 (none : Option Nat) = m := by simp [gOpt]
      rw [hm]
      refine nf_bind hs ?_
      intro s _
      exact nf_pure _ _ _ (by simp [gOpt])

theorem nf_thread (rz : Bool) : ∀ fuel,
    (∀ n depth, 2 * n + 1 ≤ fuel → NF n (threadList rz fuel depth) (fun _ => 1)) ∧
    (∀ m dp t, 2 * m + 2 ≤ fuel → NF0 m (threadList.threadLoop rz fuel dp t)) := by
  intro fuel
  induction fuel with
  | zero => exact ⟨fun n depth h => by omega, fun m dp t h => by omega⟩
  | succ k ih =>
    constructor
    · intro n depth h
      unfold threadList
      refine nf_bind (nf_special 40 n) ?_
      intro b hb
      cases b
      · exact nf_fail _ _
      · have h1 : 1 ≤ n := by simpa [gBool] using hb
        have hm : n - gBool 1 true = n - 1 := by simp [gBool]
        rw [hm]
        simp only [Bool.not_true, Bool.false_eq_true, if_false]
        have hw : ∀ (t : TD), 1 - gBool 1 true ≤ 0 := by intro t; simp [gBool]
        refine nf_weaken (g := fun _ => 0) ?_ hw
        have hl := fun dp t => ih.2 (n - 1) dp t (by omega)
        nf_auto [hl]
    · intro m dp t h
      unfold threadList.threadLoop
      refine nf_bind (nf_threadItem rz m _ t (ih.1 m dp (by omega))) ?_
      intro t' h1
      have h1' : 1 ≤ m := h1
      have hrec := fun t2 => ih.2 (m - 1) dp t2 (by omega)
      nf_auto [nf_expectSP _, hrec]

theorem nf_threadsLoop (rz : Bool) : ∀ lf n, 2 * n + 2 ≤ lf → NF0 n (threadsLoop rz lf) := by
  intro lf
  induction lf with
  | zero => intro n h; omega
  | succ k ih =>
    intro n h
    unfold threadsLoop
    refine nf_bind0 (nf_sp n) ?_
    intro b
    split
    · exact nf_pure _ _ _ rfl
    · refine nf_bind ((nf_thread rz k).1 n 0 (by omega)) ?_
      intro t h1
      have h1' : 1 ≤ n := h1
      have hrec := ih (n - 1) (by omega)
      nf_auto

/-! ### FETCH -/

theorem nf_expectFlag (n : Nat) : NF n expectFlag (fun _ => 1) := by
  unfold expectFlag
  refine nf_bind (nf_special 92 n) ?_
  intro sys _
  cases sys
  · simp only [Bool.false_eq_true, if_false]
    have hm : n - gBool 1 false = n := by simp [gBool]
    rw [hm]
    refine nf_bind (nf_expectAtom n) ?_
    intro a _
    exact nf_pure _ _ _ (by simp [gBool])
  · simp only [if_true]
    have hw : ∀ (u : Unit), 1 - gBool 1 true ≤ 0 := by intro u; simp [gBool]
    refine nf_weaken (g := fun _ => 0) ?_ hw
    nf_auto [nf_expectAtom _]

theorem nf_readAddress (n : Nat) : NF n readAddress (fun _ => 1) := by
  unfold readAddress
  refine nf_bind (nf_expectSpecial 40 n) ?_
  intro _ _
  have hw : ∀ (u : Unit), 1 - 1 ≤ 0 := by intro u; simp
  refine nf_weaken (g := fun _ => 0) ?_ hw
  nf_auto [nf_expectNString _, nf_expectSP _, nf_expectSpecial _ _]

theorem nf_addrLists (fuel depth n : Nat) (h : n + 1 ≤ fuel) : ∀ k, NF0 n (addrLists fuel depth k) := by
  intro k
  induction k with
  | zero => unfold addrLists; exact nf_pure _ _ _ rfl
  | succ j ih =>
    unfold addrLists
    have hl := nf_expectNList fuel depth n (fun _ => readAddress) (by intro; omega) (fun _ _ => nf_readAddress _)
    nf_auto [nf_expectSP _]

theorem nf_readEnvelope (fuel depth n : Nat) (h : n + 1 ≤ fuel) : NF0 n (readEnvelope fuel depth) := by
  unfold readEnvelope
  have := nf_addrLists fuel depth n h 6
  nf_auto [nf_expectSpecial _ _, nf_expectNString _, nf_expectSP _]

theorem nf_paramLoop : ∀ lf n k, n + 1 ≤ lf → NF0 n (paramLoop lf k) := by
  intro lf
  induction lf with
  | zero => intro n k h; omega
  | succ j ih =>
    intro n k h
    unfold paramLoop
    refine nf_bind (nf_expectString n) ?_
    intro s h1
    have h1' : 1 ≤ n := h1
    have hrec := fun k2 => ih (n - 1) k2 (by omega)
    nf_auto [nf_expectSP _, hrec]

theorem nf_readBodyFldParam (fuel depth n : Nat) (h : n + 1 ≤ fuel) : NF0 n (readBodyFldParam fuel depth) := by
  unfold readBodyFldParam
  have hl := fun k => nf_paramLoop fuel n k h
  nf_auto [nf_atom _, hl]

theorem nf_readBodyFldDsp (fuel depth n : Nat) (h : n + 1 ≤ fuel) : NF0 n (readBodyFldDsp fuel depth) := by
  unfold readBodyFldDsp
  have := nf_readBodyFldParam fuel depth n h
  nf_auto [nf_expectNIL _, nf_expectString _, nf_expectSP _, nf_expectSpecial _ _]

theorem nf_readBodyFldLang (fuel depth n : Nat) (h : n + 1 ≤ fuel) : NF0 n (readBodyFldLang fuel depth) := by
  unfold readBodyFldLang
  have hl := nf_list fuel depth n (fun _ => do let _ ← expectString; pure ()) (by intro; omega)
    (fun _ _ => nf_bind (nf_expectString _) (fun _ _ => nf_pure _ _ _ rfl))
  nf_auto [nf_expectNString _]

theorem nf_extTail (fuel depth n : Nat) (h : n + 1 ≤ fuel) : NF0 n (extTail fuel depth) := by
  unfold extTail
  have h1 := nf_readBodyFldDsp fuel depth n h
  have h2 := nf_readBodyFldLang fuel depth n h
  nf_auto [nf_sp _, nf_expectNString _]

theorem nf_expectBodyFldOctets (n : Nat) : NF0 n expectBodyFldOctets := by
  unfold expectBodyFldOctets; nf_auto [nf_expectNumber _]

theorem nf_trailingValues : ∀ lf n depth, 2 * n + 2 ≤ lf → NF0 n (trailingValues lf depth) := by
  intro lf
  induction lf with
  | zero => intro n depth h; omega
  | succ j ih =>
    intro n depth h
    unfold trailingValues
    refine nf_bind0 (nf_sp n) ?_
    intro b
    split
    · exact nf_pure _ _ _ rfl
    · refine nf_bind (nf_discardValue j n depth (by omega)) ?_
      intro _ h1
      have h1' : 1 ≤ n := h1
      exact nf_weaken (ih (n - 1) depth (by omega)) (fun _ => by simp)

theorem nf_readBody (guard : Bool) : ∀ fuel,
    (∀ n depth nest, 2 * n + 2 ≤ fuel → NF n (readBody guard fuel depth nest) (fun _ => 1)) ∧
    (∀ n dp nest typ, 2 * n + 2 ≤ fuel → NF0 n (readBody.body1part guard fuel dp nest typ)) ∧
    (∀ n dp nest acc dmax, 2 * n + 3 ≤ fuel → NF0 n (readBody.mpartLoop guard fuel dp nest acc dmax)) := by
  intro fuel
  induction fuel with
  | zero => exact ⟨fun n _ _ h => by omega, fun n _ _ _ h => by omega, fun n _ _ _ _ h => by omega⟩
  | succ k ih =>
    obtain ⟨ihB, ih1, ihM⟩ := ih
    refine ⟨?_, ?_, ?_⟩
    · intro n depth nest h
      unfold readBody
      refine nf_bind0 (g := fun _ => 0) ?_ ?_
      · split
        · nf_auto
        · nf_auto
      · intro r
        obtain ⟨dp, nest'⟩ := r
        simp only []
        refine nf_bind (nf_expectSpecial 40 n) ?_
        intro _ h1
        have h1' : 1 ≤ n := h1
        have hw : ∀ (b : BodyOut), 1 - 1 ≤ 0 := by intro b; simp
        refine nf_weaken (g := fun _ => 0) ?_ hw
        have hb1 := fun typ => ih1 (n - 1) dp nest' typ (by omega)
        have hbM := ihM (n - 1) dp nest' "" 0 (by omega)
        have hT := nf_trailingValues k (n - 1) dp (by omega)
        nf_auto [nf_string _, hb1, nf_expectSpecial _ _]
    · intro n dp nest typ h
      unfold readBody.body1part
      -- the sub-structure of a message/rfc822 part is read after a lot of input has gone; one
      -- byte (the SP after the type) is all that is needed here
      refine nf_bind0 (nf_expectSP n) ?_
      intro _
      refine nf_bind (nf_expectString n) ?_
      intro sub h1
      have h1' : 1 ≤ n := h1
      have hw : ∀ (b : BodyOut), 0 - 1 ≤ 0 := by intro b; simp
      refine nf_weaken (g := fun _ => 0) ?_ hw
      have hP := nf_readBodyFldParam k dp (n - 1) (by omega)
      have hE := nf_readEnvelope k dp (n - 1) (by omega)
      have hB := nf_weaken (ihB (n - 1) dp nest (by omega)) (g' := fun _ => 0) (fun _ => Nat.zero_le _)
      have hX := nf_extTail k dp (n - 1) (by omega)
      nf_auto [nf_expectSP _, nf_expectNString _, nf_expectBodyFldOctets _, nf_sp _, nf_expectNumber64 _]
    · intro n dp nest acc dmax h
      unfold readBody.mpartLoop
      refine nf_bind (ihB n dp nest (by omega)) ?_
      intro child h1
      have h1' : 1 ≤ n := h1
      have hP := nf_readBodyFldParam k dp (n - 1) (by omega)
      have hX := nf_extTail k dp (n - 1) (by omega)
      have hM := fun a b => ihM (n - 1) dp nest a b (by omega)
      have hw : ∀ (r : String × Nat), 0 - 1 ≤ 0 := by intro r; simp
      refine nf_weaken (g := fun _ => 0) ?_ hw
      nf_auto [nf_sp _, nf_string _, hM]

theorem nf_flagLoop : ∀ lf n k, n + 1 ≤ lf → NF0 n (flagLoop lf k) := by
  intro lf
  induction lf with
  | zero => intro n k h; omega
  | succ j ih =>
    intro n k h
    unfold flagLoop
    refine nf_bind (nf_expectFlag n) ?_
    intro _ h1
    have h1' : 1 ≤ n := h1
    have hrec := fun k2 => ih (n - 1) k2 (by omega)
    nf_auto [nf_expectSP _, hrec]

theorem nf_setCur (f : Msg → Msg) (n : Nat) : NF0 n (setCur f) := by
  unfold setCur; exact nf_modifyCS _ _

theorem nf_fetchBodyAtt (fuel dp n : Nat) (guard : Bool) (h : 2 * n + 2 ≤ fuel) : NF0 n (fetchBodyAtt fuel dp guard) := by
  unfold fetchBodyAtt
  have hB := nf_weaken ((nf_readBody guard fuel).1 n dp 0 h) (g' := fun _ => 0) (fun _ => Nat.zero_le _)
  nf_auto [nf_expectSP _, nf_setCur _ _]

theorem nf_noSection (name : Bytes) (n : Nat) : NF0 n (noSection name) := by
  unfold noSection; nf_auto

theorem nf_fetchAttData (fuel dp n : Nat) (guard : Bool) (name : Bytes) (h : 2 * n + 2 ≤ fuel) :
    NF0 n (fetchAttData fuel dp guard name) := by
  unfold fetchAttData
  have hF := fun k => nf_flagLoop fuel n k (by omega)
  have hE := nf_readEnvelope fuel dp n (by omega)
  have hB := nf_fetchBodyAtt fuel dp n guard (by omega)
  nf_auto [nf_expectSP _, nf_setCur _ _, hF, nf_expectNumber64 _, nf_expectNumber _, nf_expectSpecial _ _, nf_expectModSeq _, nf_noSection _ _]

theorem nf_bumpAtts (seq n : Nat) : NF0 n (bumpAtts seq) := by
  unfold bumpAtts; exact nf_modifyCS _ _

theorem nf_fetchAtt (fuel dp n seq : Nat) (guard : Bool) (h : 2 * n + 2 ≤ fuel) :
    NF n (fetchAtt fuel dp guard seq) (fun _ => 1) := by
  unfold fetchAtt
  refine nf_bind (nf_func isMsgAttNameChar n) ?_
  intro o ho
  cases o with
  | none => exact nf_fail _ _
  | some nameRaw =>
    have h1 : 1 ≤ n := by simpa [gOpt] using ho
    have hm : n - gOpt 1 (some nameRaw) = n - 1 := by simp [gOpt]
    rw [hm]
    have hw : ∀ (u : Unit), 1 - gOpt 1 (some nameRaw) ≤ 0 := by intro u; simp [gOpt]
    refine nf_weaken (g := fun _ => 0) ?_ hw
    have hD := fun name => nf_fetchAttData fuel dp (n - 1) guard name (by omega)
    nf_auto [hD, nf_bumpAtts _ _]

theorem nf_handleFetch (fuel n seq : Nat) (cfg : Cfg) (h : 2 * n + 2 ≤ fuel) : NF0 n (handleFetch fuel cfg seq) := by
  unfold handleFetch
  split
  · exact nf_fail _ _
  · refine nf_bind0 (nf_modifyCS _ _) ?_
    intro _
    refine nf_finally _ ?_
    refine nf_weaken (nf_expectList fuel 0 n _ (by intro; omega)
      (fun _ dp => nf_fetchAtt fuel dp (n - 1) seq cfg.bodyDepth (by omega))) (fun _ => Nat.zero_le _)

/-! ### status responses, dispatch, the read loop -/

theorem nf_capsLoop : ∀ lf n, n + 1 ≤ lf → NF0 n (capsLoop lf) := by
  intro lf
  induction lf with
  | zero => intro n h; omega
  | succ j ih =>
    intro n h
    unfold capsLoop
    refine nf_bind0 (nf_sp n) ?_
    intro b
    split
    · exact nf_pure _ _ _ rfl
    · refine nf_bind (nf_expectAtom n) ?_
      intro a h1
      have h1' : 1 ≤ n := h1
      exact nf_weaken (ih (n - 1) (by omega)) (fun _ => by simp)

theorem nf_readCopyUID (n : Nat) : NF0 n readCopyUID := by
  unfold readCopyUID
  nf_auto [nf_expectNumber _, nf_expectSP _, nf_expectNumSet _]

theorem nf_respCodeData (fuel n : Nat) (cfg : Cfg) (tagged : Bool) (code : Bytes) (h : n + 1 ≤ fuel) :
    NF0 n (respCodeData fuel cfg tagged code) := by
  unfold respCodeData
  have := nf_capsLoop fuel n h
  nf_auto [nf_expectSP _, nf_expectNumber _, nf_readCopyUID _, nf_expectModSeq _, nf_sp _, nf_discardUntilByte _ _]

theorem nf_respCode (fuel n : Nat) (cfg : Cfg) (tagged : Bool) (h : n + 1 ≤ fuel) : NF0 n (respCode fuel cfg tagged) := by
  unfold respCode
  have hc := fun code => nf_respCodeData fuel n cfg tagged code h
  nf_auto [nf_expectAtom _, nf_expectSpecial _ _, hc]

theorem nf_respText (fuel n : Nat) (cfg : Cfg) (tagged : Bool) (h : n + 1 ≤ fuel) : NF0 n (respText fuel cfg tagged) := by
  unfold respText
  have := nf_respCode fuel n cfg tagged h
  nf_auto [nf_sp _, nf_text _]

theorem nf_readTagged (fuel n : Nat) (cfg : Cfg) (tag typ : Bytes) (h : n + 1 ≤ fuel) :
    NF0 n (readTagged fuel cfg tag typ) := by
  unfold readTagged
  have := nf_respText fuel n cfg true h
  nf_auto [nf_expectCRLF _]

theorem nf_readData (fuel n : Nat) (cfg : Cfg) (typ0 : Bytes) (h : 2 * n + 2 ≤ fuel) : NF0 n (readData fuel cfg typ0) := by
  unfold readData
  have h1 := nf_respText fuel n cfg false (by omega)
  have h2 := nf_capsLoop fuel n (by omega)
  have h3 := fun seq => nf_handleFetch fuel n seq cfg h
  have h4 := nf_searchLoop cfg.rejectZero fuel n (by omega)
  have h5 := nf_handleESearch fuel n h
  have h6 := nf_sortLoop cfg.rejectZero fuel n (by omega)
  have h7 := nf_threadsLoop cfg.rejectZero fuel n h
  nf_auto [nf_expectSP _, nf_expectAtom _, h3]

theorem nf_fail_bind {α β} (n : Nat) (f : α → P β) (h : β → Nat) : NF n ((fail : P α) >>= f) h := by
  constructor
  intro d _
  rw [nf_bindeq]
  trivial

/-- a response consumes at least one byte -/
theorem nf_readResponse (fuel n : Nat) (cfg : Cfg) (h : 2 * n + 2 ≤ fuel) : NF n (readResponse fuel cfg) (fun _ => 1) := by
  unfold readResponse
  refine nf_bind (nf_special 43 n) ?_
  intro plus _
  cases plus
  · simp only [Bool.false_eq_true, if_false]
    have hm : n - gBool 1 false = n := by simp [gBool]
    rw [hm]
    refine nf_bind (g := fun _ => 1) ?_ ?_
    · refine nf_bind (nf_special 42 n) ?_
      intro star _
      cases star
      · simp only [Bool.false_eq_true, if_false]
        have hm2 : n - gBool 1 false = n := by simp [gBool]
        rw [hm2]
        exact nf_weaken (nf_expectAtom n) (fun _ => by simp [gBool])
      · simp only [if_true]
        exact nf_pure _ _ _ (by simp [gBool])
    · intro tag h1
      have h1' : 1 ≤ n := h1
      have hw : ∀ (u : Unit), 1 - gBool 1 false - 1 ≤ 0 := by intro u; simp [gBool]
      refine nf_weaken (g := fun _ => 0) ?_ hw
      have hT := fun typ => nf_readTagged fuel (n - 1) cfg tag typ (by omega)
      have hD := fun typ => nf_readData fuel (n - 1) cfg typ (by omega)
      nf_auto [nf_expectSP _, nf_expectAtom _, hT, hD, nf_expectCRLF _]
  · simp only [if_true]
    exact nf_fail_bind _ _ _

/-- the read loop: one response per iteration, each consuming at least one byte -/
theorem readLoop_fuel (fuel : Nat) (cfg : Cfg) : ∀ k d, L d + 1 ≤ k → 2 * L d + 2 ≤ fuel →
    (readLoop fuel cfg k d).1 ≠ .nofuel := by
  intro k
  induction k with
  | zero => intro d h _; omega
  | succ j ih =>
    intro d h hf
    unfold readLoop
    split
    · intro e; cases e
    · have hL : L { d with cost := d.cost + 1 } = L d := rfl
      have hr := (nf_readResponse fuel (L d) cfg hf).run { d with cost := d.cost + 1 } (by rw [hL]; exact Nat.le_refl _)
      split
      · rename_i d' he
        rw [he] at hr
        have hr' : L d' + 1 ≤ L d := hr
        exact ih d' (by omega) (by omega)
      · intro e; cases e
      · intro e; cases e
      · intro e; cases e
      · rename_i he; rw [he] at hr; exact hr.elim

/-- **fuel_suffices.** With the fuel `clientParse` uses, neither the reader nor the read loop
    ever stops for lack of fuel — whatever the configuration (repaired or `Legacy`). -/
theorem clientParse_fuel (cfg : Cfg) (tag : Bytes) (kind : Kind) (inp : Bytes) :
    (clientParse cfg tag kind inp).dec ≠ .nofuel := by
  unfold clientParse
  simp only []
  exact readLoop_fuel (2 * inp.length + 8) cfg (inp.length + 2) _ (by simp [L]) (by simp [L])

end GoImap.ClientParse
