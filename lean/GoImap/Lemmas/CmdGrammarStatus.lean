/-
  C02 helper lemmas: STATUS — the item list comes out of a Go map, so the round trip is proved for
  every order of the items.
-/
import GoImap.Lemmas.CmdGrammarStore
namespace GoImap.CmdLemmas
open GoImap.CmdGrammar GoImap.CmdSpec

/-- the STATUS data items the server implements -/
inductive SItem where
  | messages | uidNext | uidValidity | unseen | deleted | size | appendLimit | deletedStorage
deriving DecidableEq, Repr

def SItem.name : SItem → String
  | .messages => "MESSAGES" | .uidNext => "UIDNEXT" | .uidValidity => "UIDVALIDITY" | .unseen => "UNSEEN"
  | .deleted => "DELETED" | .size => "SIZE" | .appendLimit => "APPENDLIMIT" | .deletedStorage => "DELETED-STORAGE"

def SItem.wire (a : SItem) : Wire := kw a.name

def SItem.set (o : StatusOpts) : SItem → StatusOpts
  | .messages => { o with messages := true } | .uidNext => { o with uidNext := true }
  | .uidValidity => { o with uidValidity := true } | .unseen => { o with unseen := true }
  | .deleted => { o with deleted := true } | .size => { o with size := true }
  | .appendLimit => { o with appendLimit := true } | .deletedStorage => { o with deletedStorage := true }

/-- the items requested by `o`, in the order of `statusItems` -/
def sItems (o : StatusOpts) : List SItem :=
  (if o.messages then [.messages] else []) ++ (if o.uidNext then [.uidNext] else []) ++
  (if o.uidValidity then [.uidValidity] else []) ++ (if o.unseen then [.unseen] else []) ++
  (if o.deleted then [.deleted] else []) ++ (if o.size then [.size] else []) ++
  (if o.appendLimit then [.appendLimit] else []) ++ (if o.deletedStorage then [.deletedStorage] else [])

theorem statusItems_eq (o : StatusOpts) (h : o.highestModSeq = false) : statusItems o = (sItems o).map SItem.wire := by
  obtain ⟨a, b, c, d, e, f, g, i, j⟩ := o
  simp only at h
  subst h
  cases a <;> cases b <;> cases c <;> cases d <;> cases e <;> cases f <;> cases g <;> cases i <;> rfl

theorem setStatusItem_name (o : StatusOpts) (a : SItem) : setStatusItem o (str a.name) = .ok (a.set o) := by
  cases a <;> simp (decide := true) [setStatusItem, SItem.name, SItem.set]

theorem sitem_chars (a : SItem) : str a.name ≠ [] ∧ ∀ c ∈ str a.name, isAtomChar c = true := by
  cases a <;> decide

theorem statusItemSpec : ItemSpec pStatusItem SItem.wire SItem.set (fun _ => True) (Stops isAtomChar) where
  parse := by
    intro st a tail _ hok
    have hc := sitem_chars a
    simp only [pStatusItem, SItem.wire, kw, pAtom_atom _ tail hc.1 hc.2 hok, bind, Except.bind, setStatusItem_name]
    rfl
  okClose := fun rest => stops_b _ 41 (by decide) rest
  okSp := fun rest => stops_sp_atom rest
  notEol := fun a tail _ => notEol_atom _ tail (sitem_chars a).1 (sitem_chars a).2
  notClose := by
    intro a tail _
    cases a <;> simp [SItem.wire, SItem.name, kw, str, atom, special]
  nonEmpty := by
    intro a _
    cases a <;> simp [SItem.wire, SItem.name, kw, str, atom]

/-- applying item setters to `st`: every field ends up set iff it was set or its item occurs -/
theorem foldl_set (l : List SItem) (st : StatusOpts) :
    l.foldl SItem.set st =
      { messages := st.messages || l.contains .messages, uidNext := st.uidNext || l.contains .uidNext,
        uidValidity := st.uidValidity || l.contains .uidValidity, unseen := st.unseen || l.contains .unseen,
        deleted := st.deleted || l.contains .deleted, size := st.size || l.contains .size,
        appendLimit := st.appendLimit || l.contains .appendLimit,
        deletedStorage := st.deletedStorage || l.contains .deletedStorage, highestModSeq := st.highestModSeq } := by
  induction l generalizing st with
  | nil => simp
  | cons a t ih =>
    rw [List.foldl_cons, ih]
    cases a <;> simp [SItem.set, List.contains_cons, Bool.or_assoc, Bool.or_comm]

theorem contains_perm {l₁ l₂ : List SItem} (h : l₁.Perm l₂) (a : SItem) : l₁.contains a = l₂.contains a := by
  have : a ∈ l₁ ↔ a ∈ l₂ := h.mem_iff
  rw [Bool.eq_iff_iff]
  simpa using this

theorem foldl_sItems (o : StatusOpts) (h : o.highestModSeq = false) : (sItems o).foldl SItem.set {} = o := by
  rw [foldl_set]
  obtain ⟨a, b, c, d, e, f, g, i, j⟩ := o
  simp only at h
  subst h
  cases a <;> cases b <;> cases c <;> cases d <;> cases e <;> cases f <;> cases g <;> cases i <;> rfl

/-- whatever order the items are written in, the reader rebuilds the options -/
theorem foldl_perm (o : StatusOpts) (h : o.highestModSeq = false) (l : List SItem) (hp : l.Perm (sItems o)) :
    l.foldl SItem.set {} = o := by
  rw [← foldl_sItems o h, foldl_set, foldl_set]
  simp only [contains_perm hp]

/-- STATUS written with its items in the order `l` -/
def statusWire (tag : Nat) (m : List Nat) (l : List SItem) : Wire :=
  tagW tag ++ (kw "STATUS" ++ (sp ++ (wMailbox m ++ (sp ++ (wList (l.map SItem.wire) ++ crlf)))))

theorem parse_status (cfg : Cfg) (tag : Nat) (m : List Nat) (o : StatusOpts) (hm : MailboxOK m)
    (ho : o.highestModSeq = false) (l : List SItem) (hp : l.Perm (sItems o)) :
    parseOne cfg (statusWire tag m l) = .ok ([.status (canonMailbox m) o], []) := by
  unfold statusWire
  simp only [kw]
  rw [parse_plain cfg tag (str "STATUS") _ (isName_kw "STATUS") (by decide) (stops_sp_atom _), dispatch_status]
  have hl := pList_wList statusItemSpec l (fun _ _ => trivial) {} crlf
  rw [foldl_perm o ho l hp] at hl
  have hne : NotEol (wList (l.map SItem.wire) ++ crlf) := by simp [wList, NotEol]
  simp only [one, pStatus, bind, Except.bind, pSP_sp _ (notEol_wMailbox _ _), pMailbox_wMailbox m _ hm (stops_sp_atom _),
    pSP_sp _ hne, hl, pCRLF_crlf_nil]
  rfl

theorem status_fidelity (cfg : Cfg) (tag : Nat) (m : List Nat) (o : StatusOpts) (hm : MailboxOK m)
    (ho : o.highestModSeq = false) :
    roundTrip {} cfg tag (.status m o) = .calls (sem cfg (.status m o)) := by
  unfold roundTrip
  have hw : wBody {} cfg (.status m o) =
      .ok [[.fixed (kw "STATUS" ++ sp ++ wMailbox m ++ sp ++ [.b 40]), .anyOrder (statusItems o), .fixed [.b 41]]] := rfl
  rw [printCmd_single _ _ _ _ _ hw]
  have hlin : linearise ([Seg.fixed ([.b 84] ++ atom (digits tag) ++ sp)] ++
      [.fixed (kw "STATUS" ++ sp ++ wMailbox m ++ sp ++ [.b 40]), .anyOrder (statusItems o), .fixed [.b 41]] ++ [Seg.fixed crlf])
      = statusWire tag m (sItems o) := by
    simp [linearise, Seg.lin, statusWire, tagW, wList, statusItems_eq o ho]
  simp only [List.map_cons, List.map_nil, hlin, parseCmds, bind, Except.bind,
    parse_status cfg tag m o hm ho (sItems o) (List.Perm.refl _)]
  simp [sem, semRaw, canon, pure, Except.pure]

end GoImap.CmdLemmas
