/-
  C02 helper lemmas: number sets a caller writes down as a literal (`imap.SeqSet{{Start: 5, Stop: 3}, …}`):
  unsorted, overlapping, adjacent or reversed ranges.  The client prints the ranges as they are; the server's
  `ParseSet` adds them one by one (`AddRange`), so the session receives the canonical set that denotes their
  union (C15: `canonical_run`, `mem_union`, `dynamic_iff`).
-/
import GoImap.Lemmas.CmdGrammarArgs
import GoImap.Props.C15
namespace GoImap.CmdLemmas
open GoImap.CmdGrammar GoImap.CmdSpec
open GoImap.NumSet (Range normRange addRange parseNumRange parseItems parseSet parseNum)
open GoImap.NumSetSpec (Op)

/-- a range that `Range.String` prints faithfully: 32-bit bounds, and `*` as a start only for the lone `*`
    (`{Start: 0, Stop: 5}` prints as `*`, dropping the 5 — not a value the API builds) -/
def RangeLit (r : Range) : Prop := r.start < NumSet.W ∧ r.stop < NumSet.W ∧ (r.start = 0 → r.stop = 0)

/-- a literal number set: non-empty, every range printable -/
def LitOK (rs : NumSet.Set) : Prop := rs ≠ [] ∧ ∀ r ∈ rs, RangeLit r

/-- what `ParseSet` builds from the printed ranges: `AddRange` of each, in order -/
def delivSet (rs : NumSet.Set) : NumSet.Set := NumSet.run (rs.map fun r => Op.range r.start r.stop)

theorem parseNumRange_lit (r : Range) (h : RangeLit r) : parseNumRange r.toChars = some (normRange r.start r.stop) := by
  have hd := fun n => NumSet.digits_no n ':' NumSet.not_isDig_colon
  obtain ⟨a, b⟩ := r
  obtain ⟨ha, hb, h0⟩ := h
  simp only at ha hb h0
  rcases NumSet.toChars_cases ⟨a, b⟩ with ⟨h1, e⟩ | ⟨h1, h2, e⟩ | ⟨h1, h2, h3, e⟩ | ⟨h1, h2, h3, e⟩
  · rw [e]
    simp only at h1
    have : b = 0 := h0 h1
    subst h1; subst this
    decide
  · rw [e]
    simp only at h1 h2 ⊢
    subst h2
    unfold parseNumRange
    rw [NumSet.cutColon_not_mem _ (hd a), NumSet.parseNum_digits a (by omega) ha]
    simp [NumSet.normRange_self]
  · rw [e]
    simp only at h1 h2 h3 ⊢
    subst h3
    unfold parseNumRange
    rw [NumSet.cutColon_append _ _ (hd a)]
    simp only [NumSet.parseNum_digits a (by omega) ha, NumSet.parseNum_star]
    simp [normRange, h1]
  · rw [e]
    simp only at h1 h2 h3 ⊢
    unfold parseNumRange
    rw [NumSet.cutColon_append _ _ (hd a)]
    simp only [NumSet.parseNum_digits a (by omega) ha, NumSet.parseNum_digits b (by omega) hb]
    unfold normRange
    split_ifs <;> simp_all

theorem normRange_idem (a b : Nat) : normRange (normRange a b).start (normRange a b).stop = normRange a b := by
  rcases NumSet.normRange_cases a b with ⟨h, e⟩ | ⟨h, e⟩ <;> rw [e] <;> simp only [normRange] <;> split_ifs <;> simp_all <;> omega

theorem addRange_norm (s : NumSet.Set) (a b : Nat) :
    addRange s (normRange a b).start (normRange a b).stop = addRange s a b := by
  rw [NumSet.addRange_eq, NumSet.addRange_eq, normRange_idem]

theorem parseItems_lit : ∀ (rs : NumSet.Set) (s : NumSet.Set), (∀ r ∈ rs, RangeLit r) →
    parseItems (rs.map Range.toChars) s = some ((rs.map fun r => Op.range r.start r.stop).foldl NumSet.applyOp s)
  | [], s, _ => rfl
  | r :: rs, s, h => by
    have ih := parseItems_lit rs (addRange s r.start r.stop) (fun x hx => h x (by simp [hx]))
    simp only [List.map_cons, parseItems, parseNumRange_lit r (h r (by simp)), addRange_norm, List.foldl_cons, NumSet.applyOp]
    exact ih

/-- `ParseSet` of a printed literal set -/
theorem parseSet_literal (rs : NumSet.Set) (h : LitOK rs) : parseSet (NumSet.toChars rs) = some (delivSet rs) := by
  unfold parseSet delivSet NumSet.run
  rw [NumSet.splitOn_toChars rs h.1]
  exact parseItems_lit rs [] h.2

theorem litOps_ok (rs : NumSet.Set) (h : LitOK rs) : ∀ o ∈ rs.map (fun r => Op.range r.start r.stop), NumSet.OpOk o := by
  intro o ho
  obtain ⟨r, hr, rfl⟩ := List.mem_map.mp ho
  exact ⟨(h.2 r hr).1, (h.2 r hr).2.1⟩

/-- what the session receives for a literal set: the canonical set whose members are exactly the numbers of
    the caller's ranges (either order of the bounds) and which contains `*` iff one of them does -/
theorem delivSet_denotes (rs : NumSet.Set) (h : LitOK rs) :
    NumSetSpec.canonical (delivSet rs) = true ∧
    (∀ q, 0 < q → q < NumSet.W → NumSet.contains (delivSet rs) q = rs.any fun r => NumSetSpec.memRange r.start r.stop q) ∧
    NumSet.dynamic (delivSet rs) = rs.any fun r => NumSetSpec.starRange r.start r.stop := by
  have hok := litOps_ok rs h
  refine ⟨?_, ?_, ?_⟩
  · exact (NumSet.canonical_iff _).2 (NumSet.foldl_applyOp _ [] trivial hok).1
  · intro q hq hqW
    obtain ⟨h1, h2⟩ := NumSet.foldl_applyOp (rs.map fun r => Op.range r.start r.stop) [] trivial hok
    have := h2 q hqW
    rw [List.any_nil, Bool.false_or, NumSet.any_opDen_pos _ q (by omega)] at this
    have hc := NumSet.contains_eq_any _ 0 h1 q (by omega)
    unfold delivSet NumSet.run
    rw [hc, this]
    simp [NumSetSpec.memOps, List.any_map, Function.comp_def, NumSetSpec.Op.mem]
  · obtain ⟨h1, h2⟩ := NumSet.foldl_applyOp (rs.map fun r => Op.range r.start r.stop) [] trivial hok
    have := h2 0 (by decide)
    rw [List.any_nil, Bool.false_or, NumSet.any_opDen_zero] at this
    unfold delivSet NumSet.run
    rw [NumSet.dynamic_eq_any _ 0 h1, this]
    simp [NumSetSpec.starOps, List.any_map, Function.comp_def, NumSetSpec.Op.star]

/-- the set `s` is accepted by the client's encoder, written as its text, and read back as `s'` -/
structure SetReads (s s' : NSet) : Prop where
  write : wNumSet s = .ok (atom s.text)
  read : ∀ rest, Stops isNumSetChar rest → pNumSet (atom s.text ++ rest) = .ok (s', rest)
  notEol : ∀ rest, NotEol (atom s.text ++ rest)

theorem setReads_ok (s : NSet) (h : SetOK s) : SetReads s s :=
  ⟨wNumSet_ok s h, fun rest hr => pNumSet_text s rest h hr, fun rest => notEol_text s rest h⟩

/-- what the session receives for a set the caller wrote down -/
def delivN : NSet → NSet
  | .searchRes => .searchRes
  | .set rs => .set (delivSet rs)

/-- a set the caller may write down: the SEARCHRES marker or a literal list of ranges -/
def SetLit : NSet → Prop
  | .searchRes => True
  | .set rs => LitOK rs

theorem setReads_lit (s : NSet) (h : SetLit s) : SetReads s (delivN s) := by
  cases s with
  | searchRes => exact setReads_ok .searchRes trivial
  | set rs =>
    have hl : LitOK rs := h
    have hne := set_toChars_ne_nil rs hl.1
    have hne' : (NSet.set rs).text ≠ [] := by simpa [NSet.text] using hne
    refine ⟨by simp [wNumSet, hne'], ?_, ?_⟩
    · intro rest hs
      have hall : ∀ c ∈ (NSet.set rs).text, isNumSetChar c = true := by
        intro c hc
        simp only [NSet.text, List.mem_map] at hc
        obtain ⟨ch, hch, rfl⟩ := hc
        exact (set_ok rs ch hch).1
      have hd : special 36 (atom (NSet.set rs).text ++ rest) = none := by
        simp only [NSet.text]
        cases hc : NumSet.toChars rs with
        | nil => exact absurd hc hne
        | cons ch t =>
          have := (set_ok rs ch (by simp [hc])).2
          simp only [List.map_cons, atom, List.cons_append, special]
          simp [this]
      unfold pNumSet
      rw [hd]
      simp only
      rw [span_atom isNumSetChar _ rest hall hs]
      simp only [hne', if_false]
      simp only [NSet.text, map_ofNat_toNat, parseSet_literal rs hl, delivN]
    · intro rest
      cases hc : NumSet.toChars rs with
      | nil => exact absurd hc hne
      | cons ch t =>
        have := (set_ok rs ch (by simp [hc])).1
        simp only [NSet.text, hc, List.map_cons, atom, List.cons_append, NotEol]
        constructor <;> (intro he; rw [he] at this; revert this; decide)

theorem canonFrom_wf : ∀ (rs : NumSet.Set) (lo : Nat), NumSet.CanonFrom lo rs → ∀ r ∈ rs, r.WF
  | [], _, _, r, hr => by simp at hr
  | x :: rest, lo, h, r, hr => by
    unfold NumSet.CanonFrom at h
    rcases List.mem_cons.mp hr with rfl | hr
    · exact h.1
    · exact canonFrom_wf rest _ h.2.2.2 r hr

theorem setLit_of_ok (s : NSet) (h : SetOK s) : SetLit s := by
  cases s with
  | searchRes => trivial
  | set rs =>
    refine ⟨h.2, ?_⟩
    intro r hr
    have hw := canonFrom_wf rs 0 h.1 r hr
    exact ⟨hw.1, hw.2.1, hw.2.2.1⟩

/-- a canonical set is delivered as itself -/
theorem delivN_canon (s : NSet) (h : SetOK s) : delivN s = s := by
  cases s with
  | searchRes => rfl
  | set rs =>
    have h1 := NumSet.parseSet_toChars rs h.1 h.2
    have h2 := parseSet_literal rs (setLit_of_ok _ h)
    rw [h1] at h2
    simp only [delivN]
    exact congrArg NSet.set (Option.some.inj h2).symm

end GoImap.CmdLemmas
