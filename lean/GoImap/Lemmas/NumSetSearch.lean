/-
  The binary search of `Set.search`: loop invariant, and the characterisation of the result as
  the first index whose range is not `less q` (C15, item 2).
-/
import GoImap.Lemmas.NumSetCanon
namespace GoImap.NumSet

/-- the predicate sequence is monotone: once a range is not `less q`, no later one is -/
def Mono (s : Set) (q : Nat) : Prop :=
  ∀ i j, i ≤ j → j < s.length → (s.getD j zeroR).less q = true → (s.getD i zeroR).less q = true

theorem searchLoop_spec (s : Set) (q : Nat) (hm : Mono s q) :
    ∀ fuel lo hi, lo ≤ hi → hi < s.length → hi - lo ≤ fuel →
      (∀ j, j < lo → (s.getD j zeroR).less q = true) →
      (hi = s.length - 1 ∨ (s.getD hi zeroR).less q = false) →
      (searchLoop s q fuel lo hi).1 < s.length ∧
      (∀ j, j < (searchLoop s q fuel lo hi).1 → (s.getD j zeroR).less q = true) ∧
      ((searchLoop s q fuel lo hi).1 = s.length - 1 ∨
        (s.getD (searchLoop s q fuel lo hi).1 zeroR).less q = false) := by
  intro fuel
  induction fuel with
  | zero =>
    intro lo hi h1 h2 h3 hl hr
    have : lo = hi := by omega
    subst this
    simp only [searchLoop]
    exact ⟨h2, hl, hr⟩
  | succ f ih =>
    intro lo hi h1 h2 h3 hl hr
    simp only [searchLoop]
    by_cases hlt : lo < hi
    · simp only [hlt, if_true]
      by_cases hless : (s.getD ((lo + hi) / 2) zeroR).less q = true
      · simp only [hless, if_true]
        apply ih ((lo+hi)/2+1) hi (by omega) h2 (by omega)
        · intro j hj
          exact hm j ((lo+hi)/2) (by omega) (by omega) hless
        · exact hr
      · simp only [hless, Bool.false_eq_true, if_false]
        apply ih lo ((lo+hi)/2) (by omega) (by omega) (by omega) hl
        right; simpa using hless
    · have : lo = hi := by omega
      subst this
      simp only [Nat.lt_irrefl, if_false]
      exact ⟨h2, hl, hr⟩

/-- `search` returns the first index whose range is not `less q` (or the length), and the
    flag says whether that range contains `q` -/
theorem search_spec (s : Set) (q : Nat) (hm : Mono s q) :
    (search s q).1 ≤ s.length ∧
    (∀ j, j < (search s q).1 → (s.getD j zeroR).less q = true) ∧
    ((search s q).1 < s.length → (s.getD (search s q).1 zeroR).less q = false) ∧
    (search s q).2 =
      (decide ((search s q).1 < s.length) && (s.getD (search s q).1 zeroR).contains q) := by
  unfold search
  by_cases h0 : s.length = 0
  · simp [h0]
  · simp only [h0, if_false]
    have hs := searchLoop_spec s q hm s.length 0 (s.length - 1) (by omega) (by omega) (by omega)
      (by intro j hj; omega) (Or.inl rfl)
    generalize (searchLoop s q s.length 0 (s.length - 1)).1 = lo at hs
    obtain ⟨hhi, hl, hr⟩ := hs
    by_cases hless : (s.getD lo zeroR).less q = true
    · simp only [hless, if_true]
      have hlast : lo = s.length - 1 := by
        rcases hr with h | h
        · exact h
        · rw [hless] at h; cases h
      refine ⟨Nat.le_refl _, ?_, by omega, by simp⟩
      intro j hj
      by_cases hjl : j < lo
      · exact hl j hjl
      · have : j = lo := by omega
        subst this; exact hless
    · have hless' : (s.getD lo zeroR).less q = false := by simpa using hless
      simp only [hless', Bool.false_eq_true, if_false]
      exact ⟨by omega, fun j hj => hl j hj, fun _ => trivial, by simp [hhi]⟩

/-- the index is determined by the "first not less" property -/
theorem search_unique (s : Set) (q : Nat) (hm : Mono s q) (i : Nat) (hi : i ≤ s.length)
    (hb : ∀ j, j < i → (s.getD j zeroR).less q = true)
    (ha : i < s.length → (s.getD i zeroR).less q = false) : (search s q).1 = i := by
  obtain ⟨h1, h2, h3, _⟩ := search_spec s q hm
  generalize (search s q).1 = k at h1 h2 h3
  rcases Nat.lt_trichotomy k i with hlt | heq | hgt
  · have := hb k hlt
    rw [h3 (by omega)] at this; cases this
  · exact heq
  · have := h2 i hgt
    rw [ha (by omega)] at this; cases this

theorem getD_eq_getElem (s : Set) (j : Nat) (hj : j < s.length) : s.getD j zeroR = s[j] := by
  simp only [List.getD, hj, getElem?_pos, Option.getD_some]

theorem getD_mem (s : Set) (j : Nat) (hj : j < s.length) : s.getD j zeroR ∈ s := by
  rw [getD_eq_getElem s j hj]; exact List.getElem_mem hj

/-- in a canonical set, the element at any position but the first is above the bound -/
theorem CanonFrom.getD_start {s : Set} : ∀ {lo : Nat}, CanonFrom lo s → ∀ j, j < s.length →
    (s.getD j zeroR).start = 0 ∨ lo < (s.getD j zeroR).start := by
  intro lo h j hj
  have hm : s.getD j zeroR ∈ s := getD_mem s j hj
  exact h.starts _ hm

theorem CanonFrom.getD_wf {s : Set} {lo : Nat} (h : CanonFrom lo s) (j : Nat)
    (hj : j < s.length) : (s.getD j zeroR).WF := by
  have hm : s.getD j zeroR ∈ s := getD_mem s j hj
  exact h.wf _ hm

/-- in a canonical set, every range before a given position is static and ends strictly below
    the start of the range at that position (unless that one is "*") -/
theorem canon_before (s : Set) : ∀ lo, CanonFrom lo s →
    ∀ i j, i < j → j < s.length →
      (s.getD i zeroR).stop ≠ 0 ∧
      ((s.getD j zeroR).start = 0 ∨ (s.getD i zeroR).stop + 1 < (s.getD j zeroR).start) := by
  induction s with
  | nil => intro lo _ i j _ hj; simp at hj
  | cons a s ih =>
    intro lo h i j hij hj
    cases j with
    | zero => omega
    | succ j' =>
      have hj' : j' < s.length := by simpa using hj
      cases i with
      | zero =>
        have hne : s ≠ [] := by intro h0; subst h0; simp at hj'
        refine ⟨h.2.2.1 hne, ?_⟩
        simpa using h.tail.getD_start j' hj'
      | succ i' =>
        simpa using ih _ h.tail i' j' (by omega) hj'

theorem canon_mono (s : Set) (lo : Nat) (h : CanonFrom lo s) (q : Nat) : Mono s q := by
  intro i j hij hj hless
  by_cases hije : i = j
  · subst hije; exact hless
  · have hb := canon_before s lo h i j (by omega) hj
    have hwj := h.getD_wf j hj
    rw [Range.less_iff] at hless ⊢
    unfold Range.WF at hwj
    omega

end GoImap.NumSet
