/-
  C08 helper lemmas, part 11: one command of a history, and whole histories.
-/
import GoImap.Lemmas.ViewsExecSel
namespace GoImap.ViewsLemmas
open GoImap.Tracker GoImap.TrackerSpec GoImap.TrackerLemmas GoImap.Views GoImap.ViewsSpec

/-- the outcome of a command as the oracle sees it (`stepView`): accepted, invariant kept -/
def Accepts (A : List View) (c : Nat) (cmd : Cmd) (r : Views.St × Resp) : Prop :=
  ∃ G' Ac', stepView (kindOf cmd) r.2 (A.getD c []) = .ok Ac' ∧ GInv r.1 G' (A.set c Ac') ∧
    (r.2.status = .skip → r.2.evs = [])

theorem accepts_skip {st : Views.St} {G : List GSt} {A : List View} (h : GInv st G A) (c : Nat) (cmd : Cmd) :
    Accepts A c cmd (st, ⟨[], .skip, none, none⟩) :=
  ⟨G, A.getD c [], rfl, by rw [set_getD_self]; exact h, fun _ => rfl⟩

theorem accepts_of_good {A : List View} {c : Nat} {cmd : Cmd} {r : Views.St × Resp}
    (hg : Good A c (kindOf cmd) r) : Accepts A c cmd r := by
  obtain ⟨hs1, hs2, G', Ac', ha, h'⟩ := hg
  refine ⟨G', Ac', ?_, h', fun hs => absurd hs hs1⟩
  cases hs : r.2.status <;> simp only [stepView, hs] <;> simp_all

theorem kind_ne_select_of_needs {cmd : Cmd} (h : needsSelected cmd = true) : kindOf cmd ≠ .select := by
  cases cmd with
  | store u _ _ _ _ => cases u <;> simp [kindOf]
  | fetch u _ _ _ => cases u <;> simp [kindOf]
  | search u _ _ => cases u <;> simp [kindOf]
  | select _ => simp [needsSelected] at h
  | close => simp [kindOf]
  | unselect => simp [kindOf]
  | expunge => simp [kindOf]
  | uidExpunge _ => simp [kindOf]
  | copy _ _ _ => simp [kindOf]
  | move _ _ _ => simp [kindOf]
  | append _ _ => simp [needsSelected] at h
  | noop => simp [needsSelected] at h
  | idle => simp [needsSelected] at h
  | done => simp [needsSelected] at h

/-- the commands of the selected state, dispatched -/
theorem execSelected_good {st : Views.St} {G : List GSt} {A : List View} (h : GInv st G A) {c : Nat} {cn : Conn}
    (hc : st.conns[c]? = some cn) {m : Nat} (hsel : cn.sel = some m) {b : MBox} (hb : st.mb[m]? = some b)
    (cmd : Cmd) (hn : needsSelected cmd = true) :
    ∃ r, execSelected {} st c cn m b cmd = some r ∧ Good A c (kindOf cmd) r := by
  cases cmd with
  | close => exact exec_close h hc hb
  | unselect => exact exec_unselect h hc
  | expunge => exact exec_expunge h hc hb
  | uidExpunge set => exact exec_uidExpunge h hc hb set
  | copy u set d => exact exec_copy h hc u set d
  | move u set d => exact exec_move h hc hb u set d
  | store u set op fl sil =>
    have := exec_store h hc hsel hb u set op fl sil
    cases u <;> exact this
  | fetch u set wf ms =>
    have := exec_fetch h hc hsel hb u set wf ms
    cases u <;> exact this
  | search u key ext =>
    have := exec_search h hc hsel hb u key ext
    cases u <;> exact this
  | select _ => simp [needsSelected] at hn
  | append _ _ => simp [needsSelected] at hn
  | noop => simp [needsSelected] at hn
  | idle => simp [needsSelected] at hn
  | done => simp [needsSelected] at hn

/-- the last arm of `exec?`: a command that needs the selected state -/
theorem selected_arm {st : Views.St} {G : List GSt} {A : List View} (h : GInv st G A) {c : Nat} {cn : Conn}
    (hc : st.conns[c]? = some cn) (cmd : Cmd) (hn : needsSelected cmd = true) :
    ∃ r, (if needsSelected cmd then
        match cn.sel with
        | none => some (st, Views.bad)
        | some m =>
          match getMb st m with
          | none => none
          | some b => execSelected {} st c cn m b cmd
      else none) = some r ∧ Accepts A c cmd r := by
  rw [if_pos hn]
  cases hs : cn.sel with
  | none =>
    exact ⟨_, rfl, accepts_of_good (good_same h c (kind_ne_select_of_needs hn) .bad (by simp) (by simp) (by simp))⟩
  | some m =>
    have hci := h.conn c cn hc
    unfold ConnInv at hci
    rw [hs] at hci
    obtain ⟨g, gs, hg, _, _, _, _⟩ := hci
    have hmlt : m < st.mb.length := by rw [h.mlen]; exact (List.getElem?_eq_some_iff.mp hg).1
    have hb : getMb st m = some st.mb[m] := List.getElem?_eq_getElem hmlt
    obtain ⟨r, hr, hgood⟩ := execSelected_good h hc hs hb cmd hn
    exact ⟨r, by simp only [hb, hr], accepts_of_good hgood⟩

/-- one command: the model does not panic, the specification accepts the response on the issuing
    connection's announced view, the invariant is kept -/
theorem exec?_accepts {st : Views.St} {G : List GSt} {A : List View} (h : GInv st G A) (c : Nat) (cmd : Cmd) :
    ∃ r, exec? {} st c cmd = some r ∧ Accepts A c cmd r := by
  unfold exec?
  cases hc : getConn st c with
  | none => exact ⟨_, rfl, accepts_skip h c cmd⟩
  | some cn =>
    have hc' : st.conns[c]? = some cn := hc
    have hcA : c < A.length := by rw [← h.clen]; exact (List.getElem?_eq_some_iff.mp hc').1
    simp only
    cases hi : cn.idle with
    | true =>
      cases cmd with
      | done =>
        simp only
        obtain ⟨r, hr, hg⟩ := exec?_noop h hcA
        obtain ⟨hs1, hs2, G', Ac', ha, h'⟩ := hg
        have hclt : c < r.1.conns.length := by rw [h'.clen]; simpa using hcA
        have hcn' : getConn r.1 c = some r.1.conns[c] := List.getElem?_eq_getElem hclt
        refine ⟨_, by simp only [hr, hcn']; rfl, ?_⟩
        refine accepts_of_good ⟨by simp [Views.ok], by simp [Views.ok], G', Ac', ?_, ginv_setIdle h' hcn' false⟩
        simpa [Views.ok, kindOf] using ha
      | _ => exact ⟨_, rfl, accepts_skip h c _⟩
    | false =>
      cases cmd with
      | done => exact ⟨_, rfl, accepts_skip h c _⟩
      | idle =>
        refine ⟨_, rfl, accepts_of_good ⟨by simp, by simp, G, A.getD c [], rfl, ?_⟩⟩
        rw [set_getD_self]
        exact ginv_setIdle h hc' true
      | noop =>
        simp only
        obtain ⟨r, hr, hg⟩ := exec?_noop h hcA
        exact ⟨_, by simp only [hr]; rfl, accepts_of_good (by simpa [Views.ok, kindOf] using hg)⟩
      | append m fl =>
        simp only
        cases hb : getMb st m with
        | none =>
          exact ⟨_, rfl, accepts_of_good (good_same h c (by simp [kindOf]) .no (by simp) (by simp) (by simp))⟩
        | some b =>
          obtain ⟨b', r, ha, hr, hg⟩ := exec?_append h hcA hb fl
          exact ⟨_, by simp only [ha, hr]; rfl, accepts_of_good (by simpa [kindOf] using hg)⟩
      | select m =>
        simp only
        obtain ⟨st1, hu, hm⟩ := exec?_select h hc' m
        simp only [hu]
        cases hb : getMb st1 m with
        | none =>
          rw [hb] at hm
          exact ⟨_, rfl, accepts_of_good (by simpa [kindOf] using hm)⟩
        | some b =>
          rw [hb] at hm
          obtain ⟨b', ht, hg⟩ := hm
          exact ⟨_, by simp only [ht]; rfl, accepts_of_good (by simpa [kindOf] using hg)⟩
      | close => exact selected_arm h hc' .close rfl
      | unselect => exact selected_arm h hc' .unselect rfl
      | store u set op fl sil => exact selected_arm h hc' (.store u set op fl sil) rfl
      | expunge => exact selected_arm h hc' .expunge rfl
      | uidExpunge set => exact selected_arm h hc' (.uidExpunge set) rfl
      | copy u set d => exact selected_arm h hc' (.copy u set d) rfl
      | move u set d => exact selected_arm h hc' (.move u set d) rfl
      | fetch u set wf ms => exact selected_arm h hc' (.fetch u set wf ms) rfl
      | search u key ext => exact selected_arm h hc' (.search u key ext) rfl

theorem exec_accepts {st : Views.St} {G : List GSt} {A : List View} (h : GInv st G A) (c : Nat) (cmd : Cmd) :
    (exec {} st c cmd).2.status ≠ .crash ∧ Accepts A c cmd (exec {} st c cmd) := by
  obtain ⟨r, hr, ha⟩ := exec?_accepts h c cmd
  simp only [exec, hr]
  refine ⟨?_, ha⟩
  obtain ⟨_, _, hv, _, _⟩ := ha
  intro hcr
  simp [stepView, hcr] at hv

/-! ### histories -/

/-- the model run on a history of (connection, command) pairs together with the specification's
    announced views: the oracle of the differential driver, on the model's own output -/
def judge (v : Variant) : Views.St → List View → List (Nat × Cmd) → Except String (Views.St × List View)
  | st, A, [] => .ok (st, A)
  | st, A, (c, cmd) :: rest =>
    match stepView (kindOf cmd) (exec v st c cmd).2 (A.getD c []) with
    | .error e => .error e
    | .ok Ac => judge v (exec v st c cmd).1 (A.set c Ac) rest

theorem ginv_init (nmb nconn : Nat) :
    GInv (Views.init nmb nconn) (List.replicate nmb (ginit 0)) (List.replicate nconn []) := by
  refine ⟨by simp [Views.init], ?_, by simp [Views.init], ?_, ?_⟩
  · intro m b g hb hg
    have hb' : b = ⟨[], 1, Tracker.init 0⟩ := by
      simp only [Views.init, List.getElem?_replicate] at hb
      split at hb <;> simp_all
    have hg' : g = ginit 0 := by
      simp only [List.getElem?_replicate] at hg
      split at hg <;> simp_all
    subst hb'; subst hg'
    exact ⟨TrackerLemmas.inv_init 0, rfl, rfl, List.nodup_nil⟩
  · intro c cn hc
    have hc' : cn = ⟨none, false, []⟩ := by
      simp only [Views.init, List.getElem?_replicate] at hc
      split at hc <;> simp_all
    subst hc'
    unfold ConnInv
    simp only [List.getD, List.getElem?_replicate]
    split <;> simp
  · intro m g gs hg hgs
    have hg' : g = ginit 0 := by
      simp only [List.getElem?_replicate] at hg
      split at hg <;> simp_all
    subst hg'
    cases hgs

/-- along every history the oracle accepts everything the model sends and the invariant holds at the end -/
theorem judge_accepts : ∀ (ops : List (Nat × Cmd)) {st : Views.St} {G : List GSt} {A : List View}, GInv st G A →
    ∃ st' A' G', judge {} st A ops = .ok (st', A') ∧ GInv st' G' A'
  | [], st, G, A, h => ⟨st, A, G, rfl, h⟩
  | (c, cmd) :: rest, st, G, A, h => by
    obtain ⟨_, G1, Ac, hv, h1, _⟩ := exec_accepts h c cmd
    obtain ⟨st', A', G', hj, h'⟩ := judge_accepts rest h1
    exact ⟨st', A', G', by simp only [judge, hv]; exact hj, h'⟩

/-- states reached by a history from the initial state, with the announced views along the way -/
def Reach (nmb nconn : Nat) (st : Views.St) (A : List View) : Prop :=
  ∃ ops, judge {} (Views.init nmb nconn) (List.replicate nconn []) ops = .ok (st, A)

theorem judge_append {v : Variant} : ∀ (ops1 : List (Nat × Cmd)) {ops2 : List (Nat × Cmd)} {st st1 : Views.St}
    {A A1 : List View}, judge v st A ops1 = .ok (st1, A1) → judge v st A (ops1 ++ ops2) = judge v st1 A1 ops2
  | [], _, _, _, _, _, h => by
    simp only [judge, Except.ok.injEq, Prod.mk.injEq] at h
    obtain ⟨rfl, rfl⟩ := h; rfl
  | (c, cmd) :: rest, ops2, st, st1, A, A1, h => by
    simp only [judge, List.cons_append] at h ⊢
    cases hs : stepView (kindOf cmd) (exec v st c cmd).2 (A.getD c []) with
    | error e => rw [hs] at h; cases h
    | ok Ac =>
      rw [hs] at h
      exact judge_append rest h

theorem reach_ginv {nmb nconn : Nat} {st : Views.St} {A : List View} (h : Reach nmb nconn st A) :
    ∃ G, GInv st G A := by
  obtain ⟨ops, hj⟩ := h
  obtain ⟨st', A', G', hj', h'⟩ := judge_accepts ops (ginv_init nmb nconn)
  rw [hj] at hj'
  simp only [Except.ok.injEq, Prod.mk.injEq] at hj'
  obtain ⟨rfl, rfl⟩ := hj'
  exact ⟨G', h'⟩

end GoImap.ViewsLemmas
