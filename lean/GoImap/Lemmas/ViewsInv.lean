/-
  C08 helper lemmas, part 3: the global invariant. Every mailbox's tracker is in C07's
  correspondence `Inv` with a ghost mailbox of identities (identity `i` = UID `i + 1`); every selected
  connection owns exactly one ghost session there, its announced view (Spec/Views.lean, rebuilt
  from the wire) is slot-by-slot the ghost view of that session, and the payloads of its queued flag
  updates are those of the pending ghost updates.
-/
import GoImap.Lemmas.ViewsSim
import GoImap.Lemmas.TrackerStep
import GoImap.Lemmas.TrackerLoops
namespace GoImap.ViewsLemmas
open GoImap.Tracker GoImap.TrackerSpec GoImap.TrackerLemmas GoImap.Views GoImap.ViewsSpec

/-- a mailbox against its ghost -/
structure MbInv (b : MBox) (g : GSt) : Prop where
  inv : Inv b.tr g
  uids : b.msgs.map (·.uid) = g.mbox.map (· + 1)
  next : b.uidNext = g.next + 1
  ids : (g.sess.map (·.id)).Nodup

/-- payloads waiting on a connection are those of the session's pending flag updates -/
def PayRel (pay : List (Nat × Nat)) (pending : List GUpd) : Prop :=
  pay.map (·.1) = (fetchIds pending).map (· + 1)

/-- a connection against the ghost mailboxes and its announced view -/
def ConnInv (G : List GSt) (c : Nat) (cn : Conn) (A : View) : Prop :=
  match cn.sel with
  | none => A = [] ∧ cn.pay = []
  | some m => ∃ g gs, G[m]? = some g ∧ gs ∈ g.sess ∧ gs.id = c ∧ ViewRel A gs.view ∧ PayRel cn.pay gs.pending

structure GInv (st : Views.St) (G : List GSt) (A : List View) : Prop where
  mlen : st.mb.length = G.length
  mb : ∀ (m : Nat) b g, st.mb[m]? = some b → G[m]? = some g → MbInv b g
  clen : st.conns.length = A.length
  conn : ∀ (c : Nat) cn, st.conns[c]? = some cn → ConnInv G c cn (A.getD c [])
  sess : ∀ (m : Nat) g gs, G[m]? = some g → gs ∈ g.sess → ∃ cn, st.conns[gs.id]? = some cn ∧ cn.sel = some m

/-! ### lists of sessions -/

theorem find?_of_mem_nodup : ∀ {l : List GSess}, (l.map (·.id)).Nodup → ∀ {gs : GSess}, gs ∈ l →
    l.find? (·.id = gs.id) = some gs
  | [], _, _, h => by cases h
  | x :: l, hnd, gs, h => by
    simp only [List.map_cons, List.nodup_cons] at hnd
    rcases List.mem_cons.mp h with rfl | h
    · simp
    · have hne : x.id ≠ gs.id := by
        intro he
        exact hnd.1 (he ▸ List.mem_map_of_mem h)
      simp only [List.find?_cons, hne, decide_false]
      exact find?_of_mem_nodup hnd.2 h

/-- the concrete session of connection `c` and its ghost twin -/
theorem sess_pair {b : MBox} {g : GSt} (h : MbInv b g) {gs : GSess} (hm : gs ∈ g.sess) :
    ∃ s, b.tr.sess.find? (·.id = gs.id) = some s ∧ SessInv g.mbox g.next s gs := by
  have hp : ∀ (s : Sess) (gs' : GSess), SessInv g.mbox g.next s gs' →
      decide (s.id = gs.id) = decide (gs'.id = gs.id) := by
    intro s gs' hs
    have : s.id = gs'.id := hs.1
    rw [this]
  have hf := find?_of_mem_nodup h.ids hm
  rcases SessRel.find? hp h.inv.sess with ⟨_, hfg⟩ | ⟨s, gs', hfs, hfg, hs⟩
  · rw [hf] at hfg; cases hfg
  · rw [hf] at hfg
    cases hfg
    exact ⟨s, hfs, hs⟩

/-- EncodeSeqNum of a server position is the place of that message in the session's ghost view -/
theorem enc_spec {b : MBox} {g : GSt} (h : MbInv b g) {gs : GSess} (hm : gs ∈ g.sess) {i : Nat}
    (h1 : 1 ≤ i) (h2 : i ≤ g.mbox.length) :
    b.enc gs.id i = posOf (g.mbox[i - 1]'(by omega)) gs.view := by
  obtain ⟨s, hfs, _, hdel, hnd, _⟩ := sess_pair h hm
  simp only [MBox.enc, hfs]
  rw [h.inv.count]
  exact encode_deliverAll hdel hnd h1 h2

theorem msgs_length {b : MBox} {g : GSt} (h : MbInv b g) : b.msgs.length = g.mbox.length := by
  have := congrArg List.length h.uids
  simpa using this

theorem msg_uid {b : MBox} {g : GSt} (h : MbInv b g) {j : Nat} {msg : Msg} (hj : b.msgs[j]? = some msg) :
    g.mbox[j]? = some (msg.uid - 1) ∧ 1 ≤ msg.uid := by
  have h1 : (b.msgs.map (·.uid))[j]? = some msg.uid := by simp [hj]
  rw [h.uids] at h1
  simp only [List.getElem?_map, Option.map_eq_some_iff] at h1
  obtain ⟨id, hid, hu⟩ := h1
  rw [← hu]
  exact ⟨by simpa using hid, by omega⟩

/-! ### `indexed` -/

theorem mem_indexed : ∀ {l : List α} {s i : Nat} {a : α}, (i, a) ∈ indexed l s → s ≤ i ∧ l[i - s]? = some a
  | [], _, _, _, h => by cases h
  | x :: l, s, i, a, h => by
    simp only [indexed, List.mem_cons, Prod.mk.injEq] at h
    rcases h with ⟨rfl, rfl⟩ | h
    · simp
    · obtain ⟨h1, h2⟩ := mem_indexed h
      refine ⟨by omega, ?_⟩
      have : i - s = (i - (s + 1)) + 1 := by omega
      rw [this, List.getElem?_cons_succ]; exact h2

/-- the spec accepts a FETCH response whose number is the place of the message in the view, and the
    label it may add is that message's UID -/
theorem applyEv_fetch_pos {A : View} {v : List Id} (hA : ViewRel A v) {id : Id} (he0 : posOf id v ≠ 0)
    (q sr : Bool) (fl : Option Nat) :
    ∃ A', applyEv q sr A (.fetch (posOf id v) (id + 1) fl) = .ok A' ∧ ViewRel A' v := by
  obtain ⟨h1, h2, h3⟩ := getElem?_of_posOf rfl he0
  have hr : inRange A (posOf id v) = true := by
    simp only [inRange, Bool.and_eq_true, decide_eq_true_eq]
    rw [hA.length]; exact ⟨h1, h2⟩
  refine ⟨match A[posOf id v - 1]? with | some none => A.set (posOf id v - 1) (some (id + 1)) | _ => A,
    ?_, ?_⟩
  · simp only [applyEv, hr, Bool.not_true, Bool.false_eq_true, if_false]
    cases hA' : A[posOf id v - 1]? with
    | none => simp
    | some s => cases s <;> simp
  · cases hA' : A[posOf id v - 1]? with
    | none => exact hA
    | some s =>
      cases s with
      | none => exact hA.set _ h3
      | some _ => exact hA

end GoImap.ViewsLemmas
