/-
  Decimal printing and parsing round trip (`digits`, `valOf`, `parseNum`).
-/
import GoImap.Model.NumSet
namespace GoImap.NumSet

/-- the decimal digit character of `k < 10` -/
def dchar (k : Nat) : Char := Char.ofNat (48 + k)

/-- a decimal digit character -/
def IsDig (c : Char) : Prop := ∃ k, k < 10 ∧ c = dchar k

theorem dchar_facts : ∀ k, k < 10 →
    digitVal (dchar k) = k ∧ isDigit (dchar k) = true ∧ dchar k ≠ ',' ∧ dchar k ≠ ':' ∧
      dchar k ≠ '*' ∧ (dchar k = '0' → k = 0) := by
  decide

theorem IsDig.isDigit {c : Char} (h : IsDig c) : isDigit c = true := by
  obtain ⟨k, hk, rfl⟩ := h; exact (dchar_facts k hk).2.1
theorem IsDig.ne_comma {c : Char} (h : IsDig c) : c ≠ ',' := by
  obtain ⟨k, hk, rfl⟩ := h; exact (dchar_facts k hk).2.2.1
theorem IsDig.ne_colon {c : Char} (h : IsDig c) : c ≠ ':' := by
  obtain ⟨k, hk, rfl⟩ := h; exact (dchar_facts k hk).2.2.2.1
theorem IsDig.ne_star {c : Char} (h : IsDig c) : c ≠ '*' := by
  obtain ⟨k, hk, rfl⟩ := h; exact (dchar_facts k hk).2.2.2.2.1

theorem digitsAux_acc : ∀ fuel n acc, digitsAux fuel n acc = digitsAux fuel n [] ++ acc := by
  intro fuel
  induction fuel with
  | zero => intro n acc; rfl
  | succ f ih =>
    intro n acc
    simp only [digitsAux]
    by_cases h : n / 10 = 0
    · simp only [h, if_true]; rfl
    · simp only [h, if_false]
      rw [ih (n / 10) (_ :: acc), ih (n / 10) [_]]
      simp

theorem digitsAux_succ (f n : Nat) :
    digitsAux (f + 1) n [] =
      if n / 10 = 0 then [dchar (n % 10)] else digitsAux f (n / 10) [] ++ [dchar (n % 10)] := by
  simp only [digitsAux]
  by_cases h : n / 10 = 0
  · simp only [h, if_true]; rfl
  · simp only [h, if_false]
    rw [digitsAux_acc]; rfl

theorem valOf_snoc (l : List Char) (c : Char) : valOf (l ++ [c]) = valOf l * 10 + digitVal c := by
  simp [valOf, List.foldl_append]

theorem head?_append_ne_nil (l r : List Char) (h : l ≠ []) : (l ++ r).head? = l.head? := by
  cases l with
  | nil => exact absurd rfl h
  | cons a l => rfl

theorem digitsAux_spec : ∀ fuel n, n < fuel →
    valOf (digitsAux fuel n []) = n ∧ (∀ c ∈ digitsAux fuel n [], IsDig c) ∧
      digitsAux fuel n [] ≠ [] ∧ (0 < n → (digitsAux fuel n []).head? ≠ some '0') := by
  intro fuel
  induction fuel with
  | zero => intro n h; omega
  | succ f ih =>
    intro n hn
    rw [digitsAux_succ]
    have hk : n % 10 < 10 := Nat.mod_lt _ (by decide)
    have hd := dchar_facts (n % 10) hk
    by_cases h : n / 10 = 0
    · simp only [h, if_true]
      refine ⟨?_, ?_, by simp, ?_⟩
      · simp only [valOf, List.foldl_cons, List.foldl_nil, hd.1]; omega
      · intro c hc
        rw [List.mem_singleton] at hc
        exact ⟨_, hk, hc⟩
      · intro hpos hh
        simp only [List.head?_cons, Option.some.injEq] at hh
        have := hd.2.2.2.2.2 hh
        omega
    · simp only [h, if_false]
      obtain ⟨i1, i2, i3, i4⟩ := ih (n / 10) (by omega)
      refine ⟨?_, ?_, by simp, ?_⟩
      · rw [valOf_snoc, i1, hd.1]; omega
      · intro c hc
        rcases List.mem_append.1 hc with hc | hc
        · exact i2 c hc
        · rw [List.mem_singleton] at hc
          exact ⟨_, hk, hc⟩
      · intro _
        rw [head?_append_ne_nil _ _ i3]
        exact i4 (by omega)

theorem digits_spec (n : Nat) :
    valOf (digits n) = n ∧ (∀ c ∈ digits n, IsDig c) ∧ digits n ≠ [] ∧
      (0 < n → (digits n).head? ≠ some '0') :=
  digitsAux_spec (n + 1) n (by omega)

theorem all_isDigit_of (l : List Char) (h : ∀ c ∈ l, IsDig c) : l.all isDigit = true := by
  rw [List.all_eq_true]
  intro c hc; exact (h c hc).isDigit

theorem parseNum_digits (n : Nat) (h0 : 0 < n) (hW : n < W) : parseNum (digits n) = some n := by
  obtain ⟨h1, h2, h3, h4⟩ := digits_spec n
  unfold parseNum
  have e1 : (digits n).isEmpty = false := by
    cases hd : digits n with
    | nil => exact absurd hd h3
    | cons a l => rfl
  have e2 := all_isDigit_of _ h2
  have e3 : decide (valOf (digits n) < W) = true := by rw [h1]; simpa using hW
  have e4 : decide ((digits n).head? ≠ some '0') = true := by simpa using h4 h0
  rw [e1, e2, e3, e4, h1]
  rfl

theorem parseNum_star : parseNum ['*'] = some 0 := by decide

end GoImap.NumSet
