/-
  Reader-level facts behind `invalid_is_error` (Model/ClientParse.lean, the repaired readers):
  wherever a reader meets a message number 0, an open-ended set, a level of nesting beyond the
  limit, a number that does not fit, or a literal with a malformed header, its result is an error.
-/
import GoImap.Model.ClientParse
namespace GoImap.ClientParse
open GoImap

theorem bind_ok {α β} {p : P α} {f : α → P β} {d d' : Dec} {a : α} (h : p d = .ok a d') :
    (p >>= f) d = f a d' := by
  show P.bind p f d = f a d'
  unfold P.bind; rw [h]

theorem bind_err {α β} {p : P α} {f : α → P β} {d d' : Dec} (h : p d = .err d') :
    (p >>= f) d = .err d' := by
  show P.bind p f d = .err d'
  unfold P.bind; rw [h]

/-! ### numbers -/

/-- a number that was accepted fits its type: 32 bits, 63 bits (`Number64`), 64 bits (`ModSeq`) -/
theorem bind_other {α β} {p : P α} {f : α → P β} {d : Dec} (h : ∀ a d', p d ≠ .ok a d') (he : ∀ e, p d ≠ .err e)
    (b : β) (d' : Dec) : (p >>= f) d ≠ .ok b d' := by
  show P.bind p f d ≠ .ok b d'
  unfold P.bind
  cases hp : p d with
  | ok a d1 => exact absurd hp (h a d1)
  | err e => exact absurd hp (he e)
  | panic => intro h; cases h
  | unmod => intro h; cases h
  | nofuel => intro h; cases h

theorem expectOpt_ok {α} (p : P (Option α)) (d d' : Dec) (a : α) (h : expectOpt p d = .ok a d') :
    p d = .ok (some a) d' := by
  unfold expectOpt at h
  cases hp : p d with
  | ok o d1 =>
    rw [bind_ok hp] at h
    cases o with
    | none => cases h
    | some x => cases h; rfl
  | err e => rw [bind_err hp] at h; cases h
  | panic => exact absurd h (bind_other (by intro a d'; rw [hp]; intro h; cases h) (by intro e; rw [hp]; intro h; cases h) _ _)
  | unmod => exact absurd h (bind_other (by intro a d'; rw [hp]; intro h; cases h) (by intro e; rw [hp]; intro h; cases h) _ _)
  | nofuel => exact absurd h (bind_other (by intro a d'; rw [hp]; intro h; cases h) (by intro e; rw [hp]; intro h; cases h) _ _)

theorem numberBelow_some (bound : Nat) (d d' : Dec) (n : Nat) (h : numberBelow bound d = .ok (some n) d') :
    n < bound := by
  unfold numberBelow at h
  cases hs : numberStr d with
  | ok o d1 =>
    rw [bind_ok hs] at h
    cases o with
    | none => cases h
    | some s =>
      simp only [] at h
      by_cases c : valOfB s < bound
      · simp only [c, if_true] at h
        cases h
        exact c
      · simp only [c, if_false] at h
        cases h
  | err e => rw [bind_err hs] at h; cases h
  | panic => exact absurd h (bind_other (by intro a d'; rw [hs]; intro h; cases h) (by intro e; rw [hs]; intro h; cases h) _ _)
  | unmod => exact absurd h (bind_other (by intro a d'; rw [hs]; intro h; cases h) (by intro e; rw [hs]; intro h; cases h) _ _)
  | nofuel => exact absurd h (bind_other (by intro a d'; rw [hs]; intro h; cases h) (by intro e; rw [hs]; intro h; cases h) _ _)

/-- a number that was accepted fits its type: 32 bits, 63 bits (`Number64`), 64 bits (`ModSeq`) -/
theorem numberBelow_range (bound : Nat) (d d' : Dec) (n : Nat) (h : expectOpt (numberBelow bound) d = .ok n d') :
    n < bound :=
  numberBelow_some bound d d' n (expectOpt_ok _ d d' n h)

theorem expectNumber_range (d d' : Dec) (n : Nat) (h : expectNumber d = .ok n d') : n < 4294967296 :=
  numberBelow_range _ d d' n h
theorem expectNumber64_range (d d' : Dec) (n : Nat) (h : expectNumber64 d = .ok n d') : n < 9223372036854775808 :=
  numberBelow_range _ d d' n h
theorem expectModSeq_range (d d' : Dec) (n : Nat) (h : expectModSeq d = .ok n d') : n < 18446744073709551616 :=
  numberBelow_range _ d d' n h

/-! ### message number 0 -/

/-- SORT: a 0 among the numbers ends the response with an error -/
theorem sortLoop_zero (fuel : Nat) (d d1 d2 : Dec) (h1 : sp d = .ok true d1) (h2 : expectNumber d1 = .ok 0 d2) :
    sortLoop true (fuel + 1) d = .err d2 := by
  unfold sortLoop
  rw [bind_ok h1]
  simp only [Bool.not_true, Bool.false_eq_true, if_false]
  rw [bind_ok h2]
  rfl

/-- SEARCH: the same -/
theorem searchLoop_zero (fuel : Nat) (d d1 d2 d3 : Dec) (h1 : sp d = .ok true d1)
    (h2 : special 40 d1 = .ok false d2) (h3 : expectNumber d2 = .ok 0 d3) :
    searchLoop true (fuel + 1) d = .err d3 := by
  unfold searchLoop
  rw [bind_ok h1]
  simp only [Bool.not_true, Bool.false_eq_true, if_false]
  rw [bind_ok h2]
  simp only [Bool.false_eq_true, if_false]
  rw [bind_ok h3]
  rfl

/-- THREAD: a 0 in a chain -/
theorem threadItem_zero (sub : P TD) (t : TD) (d d1 : Dec) (ht : t.hasSub = false)
    (h1 : number d = .ok (some 0) d1) : threadItem true sub t d = .err d1 := by
  unfold threadItem
  simp only [ht, Bool.not_false, if_true]
  rw [bind_ok h1]
  rfl

/-- FETCH: sequence number 0 -/
theorem handleFetch_zero (fuel : Nat) (d : Dec) : handleFetch fuel {} 0 d = .err d := by
  unfold handleFetch
  rfl

/-! ### nesting -/

/-- at the limit, entering one more level is an error -/
theorem enter_limit (depth : Nat) (d : Dec) (h : maxListDepth ≤ depth + 1) : ∃ d', enter depth d = .err d' := by
  unfold enter
  simp only []
  exact ⟨_, by rw [if_pos h]⟩

/-! ### open-ended sets -/

/-- COPYUID: a "*" in either set -/
theorem readCopyUID_dynamic (d d1 d2 d3 d4 d5 : Dec) (v : Nat) (b1 b2 : Bool) (s t : NumSet.Set)
    (h1 : expectNumber d = .ok v d1) (h2 : expectSP d1 = .ok () d2) (h3 : expectNumSet d2 = .ok (b1, s) d3)
    (h4 : expectSP d3 = .ok () d4) (h5 : expectNumSet d4 = .ok (b2, t) d5) (hd : (b1 || b2) = true) :
    readCopyUID d = .err d5 := by
  unfold readCopyUID
  rw [bind_ok h1, bind_ok h2, bind_ok h3]
  simp only []
  rw [bind_ok h4, bind_ok h5]
  simp only [hd, if_true]
  rfl

/-! ### literals -/

/-- a literal that fails after its opening brace leaves the decoder error set -/
theorem literal_soft (d d1 d' : Dec) (h1 : special 123 d = .ok true d1) (h : literal d = .ok none d') :
    d'.errSet = true := by
  unfold literal at h
  rw [bind_ok h1] at h
  simp only [Bool.not_true, Bool.false_eq_true, if_false] at h
  cases hn : number64 d1 with
  | ok o d2 =>
    rw [bind_ok hn] at h
    cases o with
    | none =>
      simp only [] at h
      unfold softFail at h
      cases h
      rfl
    | some size =>
      simp only [] at h
      cases hb : special 125 d2 with
      | ok b d3 =>
        rw [bind_ok hb] at h
        cases b with
        | false =>
          simp only [Bool.not_false, if_true] at h
          unfold softFail at h
          cases h
          rfl
        | true =>
          simp only [Bool.not_true, Bool.false_eq_true, if_false] at h
          cases hc : crlf d3 with
          | ok c d4 =>
            rw [bind_ok hc] at h
            cases c with
            | false =>
              simp only [Bool.not_false, if_true] at h
              unfold softFail at h
              cases h
              rfl
            | true =>
              simp only [Bool.not_true, Bool.false_eq_true, if_false] at h
              unfold literalData at h
              cases h
          | err e => rw [bind_err hc] at h; cases h
          | panic => exact absurd h (bind_other (by intro a d'; rw [hc]; intro h; cases h) (by intro e; rw [hc]; intro h; cases h) _ _)
          | unmod => exact absurd h (bind_other (by intro a d'; rw [hc]; intro h; cases h) (by intro e; rw [hc]; intro h; cases h) _ _)
          | nofuel => exact absurd h (bind_other (by intro a d'; rw [hc]; intro h; cases h) (by intro e; rw [hc]; intro h; cases h) _ _)
      | err e => rw [bind_err hb] at h; cases h
      | panic => exact absurd h (bind_other (by intro a d'; rw [hb]; intro h; cases h) (by intro e; rw [hb]; intro h; cases h) _ _)
      | unmod => exact absurd h (bind_other (by intro a d'; rw [hb]; intro h; cases h) (by intro e; rw [hb]; intro h; cases h) _ _)
      | nofuel => exact absurd h (bind_other (by intro a d'; rw [hb]; intro h; cases h) (by intro e; rw [hb]; intro h; cases h) _ _)
  | err e => rw [bind_err hn] at h; cases h
  | panic => exact absurd h (bind_other (by intro a d'; rw [hn]; intro h; cases h) (by intro e; rw [hn]; intro h; cases h) _ _)
  | unmod => exact absurd h (bind_other (by intro a d'; rw [hn]; intro h; cases h) (by intro e; rw [hn]; intro h; cases h) _ _)
  | nofuel => exact absurd h (bind_other (by intro a d'; rw [hn]; intro h; cases h) (by intro e; rw [hn]; intro h; cases h) _ _)

/-- astring: after a literal with a malformed header nothing else is tried -/
theorem expectAString_badLiteral (d d1 d2 : Dec) (h1 : quoted d = .ok none d1) (h2 : literal d1 = .ok none d2)
    (he : d2.errSet = true) (hs : d2.cfg.strictLiteral = true) : expectAString d = .err d2 := by
  unfold expectAString
  rw [bind_ok h1]
  simp only []
  rw [bind_ok h2]
  simp only []
  have hb : badLiteral d2 = .ok true d2 := by unfold badLiteral; simp [he, hs]
  rw [bind_ok hb]
  rfl

/-- any value: the same in `DiscardValue` -/
theorem discardValue_badLiteral (fuel depth : Nat) (d d1 : Dec) (h1 : string d = .ok none d1)
    (he : d1.errSet = true) (hs : d1.cfg.strictLiteral = true) : discardValue (fuel + 1) depth d = .err d1 := by
  unfold discardValue
  rw [bind_ok h1]
  simp only []
  have hb : badLiteral d1 = .ok true d1 := by unfold badLiteral; simp [he, hs]
  rw [bind_ok hb]
  rfl

end GoImap.ClientParse
