/-
  C08 helper lemmas, part 6: a connection opens (SELECT) or closes (CLOSE/UNSELECT/re-SELECT) its
  session on a mailbox.
-/
import GoImap.Lemmas.ViewsPoll
namespace GoImap.ViewsLemmas
open GoImap.Tracker GoImap.TrackerSpec GoImap.TrackerLemmas GoImap.Views GoImap.ViewsSpec

/-- SELECT: a new session whose view is the mailbox; the announced view is `n` unlabelled slots -/
theorem ginv_newSession {st : Views.St} {G : List GSt} {A : List View} (h : GInv st G A) {m : Nat}
    {b : MBox} {g : GSt} (hb : st.mb[m]? = some b) (hg : G[m]? = some g) {c : Nat} {cn : Conn}
    (hc : st.conns[c]? = some cn) (hsel : cn.sel = none) :
    ∃ t, step b.tr (.newSession c) = some (t, []) ∧
      GInv ⟨st.mb.set m { b with tr := t }, st.conns.set c ⟨some m, false, []⟩⟩
        (G.set m { g with sess := g.sess ++ [⟨c, g.mbox, []⟩] })
        (A.set c (List.replicate b.msgs.length none)) := by
  have hmb := h.mb m b g hb hg
  have hgst : gstep g (.newSession c) = some ({ g with sess := g.sess ++ [⟨c, g.mbox, []⟩] }, []) := rfl
  obtain ⟨t, hst, hinv⟩ := inv_step hmb.inv _ hgst
  have hmlt : m < G.length := (List.getElem?_eq_some_iff.mp hg).1
  have hclt : c < st.conns.length := (List.getElem?_eq_some_iff.mp hc).1
  have hcA : c < A.length := by rw [← h.clen]; exact hclt
  have hnotin : ∀ gs ∈ g.sess, gs.id ≠ c := by
    intro gs hgs he
    obtain ⟨cn0, hcn0, hs0⟩ := h.sess m g gs hg hgs
    rw [he, hc] at hcn0
    cases hcn0
    rw [hsel] at hs0
    cases hs0
  refine ⟨t, hst, by simp [h.mlen], ?_, by simp [h.clen], ?_, ?_⟩
  · intro m1 b1 g1 hb1 hg1
    change (st.mb.set m _)[m1]? = some b1 at hb1
    by_cases hm : m = m1
    · subst hm
      have e1 := getElem?_set_eq' hb1
      have e2 := getElem?_set_eq' hg1
      subst e1; subst e2
      refine ⟨hinv, hmb.uids, hmb.next, ?_⟩
      show (List.map (fun x : GSess => x.id) (g.sess ++ [⟨c, g.mbox, []⟩])).Nodup
      rw [List.map_append, List.nodup_append]
      refine ⟨hmb.ids, by simp, ?_⟩
      intro a ha b' hb' hab
      simp only [List.map_cons, List.map_nil, List.mem_singleton] at hb'
      obtain ⟨gs, hgs, rfl⟩ := List.mem_map.mp ha
      exact hnotin gs hgs (hab.trans hb')
    · simp only [List.getElem?_set_ne hm] at hb1 hg1
      exact h.mb m1 b1 g1 hb1 hg1
  · intro c1 cn1 hc1
    change (st.conns.set c _)[c1]? = some cn1 at hc1
    by_cases hcc : c = c1
    · subst hcc
      have e := getElem?_set_eq' hc1
      subst e
      rw [getD_set_self A hcA]
      unfold ConnInv
      simp only
      refine ⟨_, ⟨c, g.mbox, []⟩, by rw [List.getElem?_set_self hmlt], by simp, rfl, ?_, rfl⟩
      rw [msgs_length hmb]
      exact ViewRel.replicate_none g.mbox
    · rw [List.getElem?_set_ne hcc] at hc1
      rw [getD_set_ne A hcc]
      have hold := h.conn c1 cn1 hc1
      unfold ConnInv at hold ⊢
      cases hs : cn1.sel with
      | none => rw [hs] at hold; exact hold
      | some m1 =>
        rw [hs] at hold
        simp only at hold ⊢
        obtain ⟨g1, gs1, hg1, hgs1, hid1, hv1, hp1⟩ := hold
        by_cases hm : m = m1
        · subst hm
          rw [hg] at hg1
          cases hg1
          exact ⟨_, gs1, by rw [List.getElem?_set_self hmlt], List.mem_append_left _ hgs1, hid1, hv1, hp1⟩
        · exact ⟨g1, gs1, by rw [List.getElem?_set_ne hm]; exact hg1, hgs1, hid1, hv1, hp1⟩
  · intro m1 g1 gs1 hg1 hgs1
    change ∃ cn, (st.conns.set c _)[gs1.id]? = some cn ∧ cn.sel = some m1
    by_cases hm : m = m1
    · subst hm
      have e2 := getElem?_set_eq' hg1
      subst e2
      rcases List.mem_append.mp hgs1 with hgs1 | hgs1
      · obtain ⟨cn0, hcn0, hs0⟩ := h.sess m g gs1 hg hgs1
        have hne : c ≠ gs1.id := fun e => hnotin gs1 hgs1 e.symm
        exact ⟨cn0, by rw [List.getElem?_set_ne hne]; exact hcn0, hs0⟩
      · simp only [List.mem_singleton] at hgs1
        subst hgs1
        exact ⟨_, by rw [List.getElem?_set_self hclt], rfl⟩
    · rw [List.getElem?_set_ne hm] at hg1
      obtain ⟨cn0, hcn0, hs0⟩ := h.sess m1 g1 gs1 hg1 hgs1
      by_cases hcc : c = gs1.id
      · rw [← hcc, hc] at hcn0
        cases hcn0
        rw [hsel] at hs0
        cases hs0
      · exact ⟨cn0, by rw [List.getElem?_set_ne hcc]; exact hcn0, hs0⟩

/-- CLOSE / UNSELECT / the first half of a re-SELECT: the session is closed, nothing is announced -/
theorem ginv_close {st : Views.St} {G : List GSt} {A : List View} (h : GInv st G A) {m : Nat}
    {b : MBox} {g : GSt} (hb : st.mb[m]? = some b) (hg : G[m]? = some g) {c : Nat} {cn : Conn}
    (hc : st.conns[c]? = some cn) (hsel : cn.sel = some m) :
    ∃ t, step b.tr (.close c) = some (t, []) ∧
      GInv ⟨st.mb.set m { b with tr := t }, st.conns.set c { cn with sel := none, pay := [] }⟩
        (G.set m { g with sess := g.sess.filter (·.id ≠ c) }) (A.set c []) := by
  have hmb := h.mb m b g hb hg
  have hgst : gstep g (.close c) = some ({ g with sess := g.sess.filter (·.id ≠ c) }, []) := rfl
  obtain ⟨t, hst, hinv⟩ := inv_step hmb.inv _ hgst
  have hmlt : m < G.length := (List.getElem?_eq_some_iff.mp hg).1
  have hclt : c < st.conns.length := (List.getElem?_eq_some_iff.mp hc).1
  have hcA : c < A.length := by rw [← h.clen]; exact hclt
  refine ⟨t, hst, by simp [h.mlen], ?_, by simp [h.clen], ?_, ?_⟩
  · intro m1 b1 g1 hb1 hg1
    change (st.mb.set m _)[m1]? = some b1 at hb1
    by_cases hm : m = m1
    · subst hm
      have e1 := getElem?_set_eq' hb1
      have e2 := getElem?_set_eq' hg1
      subst e1; subst e2
      refine ⟨hinv, hmb.uids, hmb.next, ?_⟩
      exact List.Nodup.sublist (List.Sublist.map _ List.filter_sublist) hmb.ids
    · simp only [List.getElem?_set_ne hm] at hb1 hg1
      exact h.mb m1 b1 g1 hb1 hg1
  · intro c1 cn1 hc1
    change (st.conns.set c _)[c1]? = some cn1 at hc1
    by_cases hcc : c = c1
    · subst hcc
      have e := getElem?_set_eq' hc1
      subst e
      rw [getD_set_self A hcA]
      unfold ConnInv
      exact ⟨rfl, rfl⟩
    · rw [List.getElem?_set_ne hcc] at hc1
      rw [getD_set_ne A hcc]
      have hold := h.conn c1 cn1 hc1
      unfold ConnInv at hold ⊢
      cases hs : cn1.sel with
      | none => rw [hs] at hold; exact hold
      | some m1 =>
        rw [hs] at hold
        simp only at hold ⊢
        obtain ⟨g1, gs1, hg1, hgs1, hid1, hv1, hp1⟩ := hold
        by_cases hm : m = m1
        · subst hm
          rw [hg] at hg1
          cases hg1
          refine ⟨_, gs1, by rw [List.getElem?_set_self hmlt], ?_, hid1, hv1, hp1⟩
          simp only [List.mem_filter, decide_eq_true_eq]
          exact ⟨hgs1, by rw [hid1]; exact fun e => hcc e.symm⟩
        · exact ⟨g1, gs1, by rw [List.getElem?_set_ne hm]; exact hg1, hgs1, hid1, hv1, hp1⟩
  · intro m1 g1 gs1 hg1 hgs1
    change ∃ cn, (st.conns.set c _)[gs1.id]? = some cn ∧ cn.sel = some m1
    by_cases hm : m = m1
    · subst hm
      have e2 := getElem?_set_eq' hg1
      subst e2
      simp only [List.mem_filter, decide_eq_true_eq] at hgs1
      obtain ⟨cn0, hcn0, hs0⟩ := h.sess m g gs1 hg hgs1.1
      exact ⟨cn0, by rw [List.getElem?_set_ne (fun e => hgs1.2 e.symm)]; exact hcn0, hs0⟩
    · rw [List.getElem?_set_ne hm] at hg1
      obtain ⟨cn0, hcn0, hs0⟩ := h.sess m1 g1 gs1 hg1 hgs1
      by_cases hcc : c = gs1.id
      · rw [← hcc, hc] at hcn0
        cases hcn0
        rw [hsel] at hs0
        exact absurd (Option.some.inj hs0) hm
      · exact ⟨cn0, by rw [List.getElem?_set_ne hcc]; exact hcn0, hs0⟩

end GoImap.ViewsLemmas
