/-
  Ghost cost (byte reads) of the whole response reader of Model/ClientParse.lean is linear in the
  input.  Potential argument with Φ(d) = d.cost + 20·|d.inp|: a read that consumes its byte
  lowers Φ by 19, a read that is put back raises it by 1.  `CT p c g`: `p` never raises Φ by more
  than `c`, and when it succeeds with value `a`, at least `g a` of that allowance is left
  (Φ' + g a ≤ Φ + c).  Elements of lists and the bodies of loops leave more than they were given,
  so a loop costs a constant on top of what it consumes, however long it runs and however deep
  the structure nests.
-/
import GoImap.Model.ClientParse
import GoImap.Lemmas.ClientParseFuel
namespace GoImap.ClientParse
open GoImap

def Phi20 (d : Dec) : Nat := d.cost + 20 * d.inp.length

def CTPost {α} (c : Nat) (g : α → Nat) (d : Dec) : Res α → Prop
  | .ok a d' => Phi20 d' + g a ≤ Phi20 d + c
  | .err d' => Phi20 d' ≤ Phi20 d + c
  | _ => True

structure CT {α : Type} (p : P α) (c : Nat) (g : α → Nat) : Prop where
  run : ∀ d, CTPost c g d (p d)

theorem ct_bindeq {α β} (p : P α) (f : α → P β) (d : Dec) : (p >>= f) d = P.bind p f d := rfl

theorem ct_pure {α} (a : α) (c : Nat) (g : α → Nat) (h : g a ≤ c) : CT (pure a : P α) c g := by
  constructor; intro d; show Phi20 d + g a ≤ Phi20 d + c; omega

theorem ct_fail {α} (c : Nat) (g : α → Nat) : CT (fail : P α) c g := by
  constructor; intro d; show Phi20 d ≤ Phi20 d + c; omega

theorem ct_unmod {α} (c : Nat) (g : α → Nat) : CT (unmodelled : P α) c g := ⟨fun _ => trivial⟩
theorem ct_nofuel {α} (c : Nat) (g : α → Nat) : CT (outOfFuel : P α) c g := ⟨fun _ => trivial⟩

/-- sequencing: `p` may use `c1` of the allowance `c`; what it leaves goes to `f` -/
theorem ct_bind {α β} {p : P α} {f : α → P β} {c c1 : Nat} {g1 : α → Nat} {h : β → Nat}
    (hp : CT p c1 g1) (hc : c1 ≤ c) (hf : ∀ a, CT (f a) (c - c1 + g1 a) h) : CT (p >>= f) c h := by
  constructor
  intro d
  have h1 := hp.run d
  rw [ct_bindeq]
  unfold P.bind
  cases hpd : p d with
  | ok a d' =>
    rw [hpd] at h1
    have h1' : Phi20 d' + g1 a ≤ Phi20 d + c1 := h1
    have h2 := (hf a).run d'
    simp only []
    cases hfd : f a d' with
    | ok b d'' =>
      rw [hfd] at h2
      have h2' : Phi20 d'' + h b ≤ Phi20 d' + (c - c1 + g1 a) := h2
      show Phi20 d'' + h b ≤ Phi20 d + c
      omega
    | err d'' =>
      rw [hfd] at h2
      have h2' : Phi20 d'' ≤ Phi20 d' + (c - c1 + g1 a) := h2
      show Phi20 d'' ≤ Phi20 d + c
      omega
    | panic => trivial
    | unmod => trivial
    | nofuel => trivial
  | err d' =>
    rw [hpd] at h1
    have h1' : Phi20 d' ≤ Phi20 d + c1 := h1
    show Phi20 d' ≤ Phi20 d + c
    omega
  | panic => trivial
  | unmod => trivial
  | nofuel => trivial

theorem ct_weaken {α} {p : P α} {c c' : Nat} {g g' : α → Nat} (h : CT p c g) (hc : c ≤ c')
    (hg : ∀ a, g' a + c ≤ g a + c') : CT p c' g' := by
  constructor
  intro d
  have h1 := h.run d
  cases hp : p d with
  | ok a d' =>
    rw [hp] at h1
    have h1' : Phi20 d' + g a ≤ Phi20 d + c := h1
    have := hg a
    show Phi20 d' + g' a ≤ Phi20 d + c'
    omega
  | err d' =>
    rw [hp] at h1
    have h1' : Phi20 d' ≤ Phi20 d + c := h1
    show Phi20 d' ≤ Phi20 d + c'
    omega
  | panic => trivial
  | unmod => trivial
  | nofuel => trivial

theorem ct_prim {α} (p : P α) (c : Nat) (g : α → Nat) (h : ∀ d, CTPost c g d (p d)) : CT p c g := ⟨h⟩

theorem ct_expect (b : Bool) (c : Nat) : CT (expect b) c (fun _ => c) := by
  unfold expect
  cases b
  · exact ct_fail _ _
  · exact ct_pure _ _ _ (Nat.le_refl _)

def hBool (k : Nat) (b : Bool) : Nat := if b then k else 0
def hOpt {α} (k : Nat) (o : Option α) : Nat := if o.isSome then k else 0

theorem ct_acceptByte (w : UInt8) : CT (acceptByte w) 1 (hBool 20) := by
  apply ct_prim
  intro d
  unfold acceptByte
  rw [ct_bindeq]
  unfold P.bind readByte
  cases h : d.inp with
  | nil => show Phi20 _ + hBool 20 false ≤ Phi20 d + 1; simp [Phi20, hBool, h]
  | cons b r =>
    simp only []
    by_cases hb : (b == w) = true
    · simp only [hb, if_true]
      show Phi20 _ + hBool 20 true ≤ Phi20 d + 1
      simp [Phi20, hBool, h]; omega
    · have hb' : (b == w) = false := by simpa using hb
      simp only [hb', Bool.false_eq_true, if_false]
      rw [ct_bindeq]
      unfold P.bind unreadByte
      simp only [if_true]
      show Phi20 _ + hBool 20 false ≤ Phi20 d + 1
      simp [Phi20, hBool, h]; omega

theorem ct_special (w : UInt8) : CT (special w) 1 (hBool 20) := ct_acceptByte w

theorem ct_peekByte : CT peekByte 1 (fun _ => 0) := by
  apply ct_prim
  intro d
  unfold peekByte
  rw [ct_bindeq]
  unfold P.bind readByte
  cases h : d.inp with
  | nil => show Phi20 _ + 0 ≤ Phi20 d + 1; simp [Phi20, h]
  | cons b r =>
    simp only []
    rw [ct_bindeq]
    unfold P.bind unreadByte
    simp only [if_true]
    show Phi20 _ + 0 ≤ Phi20 d + 1
    simp [Phi20, h]; omega

theorem spanB_len' (p : UInt8 → Bool) : ∀ (l acc : Bytes),
    (spanB p l acc).1.length + (spanB p l acc).2.length = acc.length + l.length := by
  intro l
  induction l with
  | nil => intro acc; simp [spanB]
  | cons b r ih =>
    intro acc
    unfold spanB
    by_cases hb : p b = true
    · simp only [hb, if_true]
      rw [ih]
      simp; omega
    · simp only [hb]
      simp

theorem ct_func (v : UInt8 → Bool) : CT (func v) 1 (hOpt 19) := by
  apply ct_prim
  intro d
  unfold func
  have hl := spanB_len' v d.inp []
  cases hs : spanB v d.inp [] with
  | mk tk rest =>
    rw [hs] at hl
    simp only [List.length_nil, Nat.zero_add] at hl
    cases rest with
    | nil =>
      show Phi20 _ + hOpt 19 none ≤ Phi20 d + 1
      simp only [Phi20, hOpt, List.length_nil] at hl ⊢
      simp; omega
    | cons b r =>
      simp only []
      show Phi20 _ + hOpt 19 _ ≤ Phi20 d + 1
      cases tk with
      | nil => simp only [Phi20, hOpt, List.length_cons, List.length_nil] at hl ⊢; simp; omega
      | cons t ts => simp only [Phi20, hOpt, List.length_cons] at hl ⊢; simp; omega

theorem ct_same {α} (p : P α) (h : ∀ d, match p d with
    | .ok _ d' => Phi20 d' = Phi20 d | .err d' => Phi20 d' = Phi20 d | _ => True) (c : Nat) :
    CT p c (fun _ => c) := by
  constructor
  intro d
  have := h d
  cases hp : p d with
  | ok a d' => rw [hp] at this; show Phi20 d' + c ≤ Phi20 d + c; omega
  | err d' => rw [hp] at this; show Phi20 d' ≤ Phi20 d + c; omega
  | panic => trivial
  | unmod => trivial
  | nofuel => trivial

theorem ct_getCS (c : Nat) : CT getCS c (fun _ => c) := ct_same _ (fun _ => rfl) c
theorem ct_modifyCS (f : CS → CS) (c : Nat) : CT (modifyCS f) c (fun _ => c) := ct_same _ (fun _ => rfl) c
theorem ct_softFail {α} (c : Nat) : CT (softFail : P (Option α)) c (fun _ => c) := ct_same _ (fun _ => rfl) c
theorem ct_badLiteral (c : Nat) : CT badLiteral c (fun _ => c) := ct_same _ (fun _ => rfl) c
theorem ct_noteNest (k c : Nat) : CT (noteNest k) c (fun _ => c) := ct_same _ (fun _ => rfl) c
theorem ct_enter (depth c : Nat) : CT (enter depth) c (fun _ => c) := by
  apply ct_same
  intro d
  unfold enter
  simp only []
  by_cases hc : depth + 1 ≥ maxListDepth
  · rw [if_pos hc]; rfl
  · rw [if_neg hc]; rfl

theorem ct_finally {α} {p : P α} {c : Nat} {g : α → Nat} (h : CS → CS) (hp : CT p c g) : CT (finally' p h) c g := by
  constructor
  intro d
  have h1 := hp.run d
  unfold finally'
  cases hpd : p d with
  | ok a d' => rw [hpd] at h1; exact h1
  | err d' => rw [hpd] at h1; exact h1
  | panic => trivial
  | unmod => trivial
  | nofuel => trivial

/-- `quotedBody` counts exactly the bytes it consumes -/
theorem quotedBody_count : ∀ (k : Nat) (l acc : Bytes) (c : Nat) s rest m, l.length ≤ k →
    quotedBody l acc c = some (s, rest, m) → m + rest.length = c + l.length ∧ rest.length + 1 ≤ l.length := by
  intro k
  induction k with
  | zero =>
    intro l acc c s rest m hl h
    cases l with
    | nil => simp [quotedBody] at h
    | cons b r => simp at hl
  | succ k ih =>
    intro l acc c s rest m hl h
    cases l with
    | nil => simp [quotedBody] at h
    | cons b r =>
      unfold quotedBody at h
      by_cases hq : (b == 34) = true
      · simp only [hq, if_true, Option.some.injEq, Prod.mk.injEq] at h
        rw [← h.2.1, ← h.2.2]; simp; omega
      · simp only [hq] at h
        by_cases he : (b == 92) = true
        · simp only [he, if_true] at h
          cases r with
          | nil => simp at h
          | cons c2 r' =>
            simp only [] at h
            have := ih r' _ _ s rest m (by simp at hl; omega) h
            simp; omega
        · simp only [he] at h
          have := ih r _ _ s rest m (by simp at hl; omega) h
          simp; omega

theorem ct_quotedRest : CT quotedRest 1 (hOpt 19) := by
  apply ct_prim
  intro d
  unfold quotedRest
  cases h : quotedBody d.inp [] 0 with
  | none =>
    show Phi20 _ + hOpt 19 none ≤ Phi20 d + 1
    simp [Phi20, hOpt]; omega
  | some x =>
    obtain ⟨s, rest, m⟩ := x
    have := quotedBody_count d.inp.length d.inp [] 0 s rest m (Nat.le_refl _) h
    show Phi20 _ + hOpt 19 (some s) ≤ Phi20 d + 1
    simp only [Phi20, hOpt, Option.isSome_some, if_true]
    omega

theorem ct_literalData (size : Nat) : CT (literalData size) 1 (fun _ => 0) := by
  apply ct_prim
  intro d
  show Phi20 _ + 0 ≤ Phi20 d + 1
  simp only [Phi20, literalData, List.length_drop, List.length_take]
  omega

/-! ### zero-cost steps in the form the automation wants -/

theorem ct_getCS0 : CT getCS 0 (fun _ => 0) := ct_getCS 0
theorem ct_modifyCS0 (f : CS → CS) : CT (modifyCS f) 0 (fun _ => 0) := ct_modifyCS f 0
theorem ct_softFail0 {α} : CT (softFail : P (Option α)) 0 (fun _ => 0) := ct_softFail 0
theorem ct_badLiteral0 : CT badLiteral 0 (fun _ => 0) := ct_badLiteral 0
theorem ct_noteNest0 (k : Nat) : CT (noteNest k) 0 (fun _ => 0) := ct_noteNest k 0
theorem ct_enter0 (depth : Nat) : CT (enter depth) 0 (fun _ => 0) := ct_enter depth 0
theorem ct_expect0 (b : Bool) : CT (expect b) 0 (fun _ => 0) := ct_expect b 0

theorem ct_fail_bind {α β} (f : α → P β) (c : Nat) (h : β → Nat) : CT ((fail : P α) >>= f) c h := by
  constructor
  intro d
  rw [ct_bindeq]
  show Phi20 d ≤ Phi20 d + c
  omega

theorem ct_unmod_bind {α β} (f : α → P β) (c : Nat) (h : β → Nat) : CT ((unmodelled : P α) >>= f) c h := by
  constructor
  intro d
  rw [ct_bindeq]
  trivial

/-- arithmetic side goals: allowances are sums of numerals and of gains that depend on a value -/
syntax "ct_arith" : tactic
macro_rules
  | `(tactic| ct_arith) => `(tactic|
    first
      | (show (_ : Nat) ≤ _; omega)
      | (show (_ : Nat) ≤ _; simp only [hBool, hOpt, Option.isSome_some, Option.isSome_none, if_true, if_false,
          Bool.false_eq_true, ite_true, ite_false]; omega))

/-- small arithmetic goals about allowances -/
syntax "ct_s" : tactic
macro_rules
  | `(tactic| ct_s) => `(tactic|
    first
      | omega
      | (show (_ : Nat) ≤ _; simp [hBool, hOpt]; done)
      | (show (_ : Nat) ≤ _; simp [hBool, hOpt]; omega)
      | (show (_ : Nat) ≤ _; simp [hBool, hOpt]; split <;> omega))

/-- closes `CT` goals of straight-line parsers from the triples of their parts -/
syntax "ct_auto" ("[" term,* "]")? : tactic
macro_rules
  | `(tactic| ct_auto) => `(tactic| ct_auto [])
  | `(tactic| ct_auto [$ls,*]) => `(tactic|
    repeat' (first
      | intro _
      | exact ct_fail _ _
      | exact ct_unmod _ _
      | exact ct_nofuel _ _
      | exact ct_fail_bind _ _ _
      | exact ct_unmod_bind _ _ _
      | exact ct_pure _ _ _ (by ct_arith)
      | assumption
      | exact ct_getCS0
      | exact ct_modifyCS0 _
      | exact ct_softFail0
      | exact ct_badLiteral0
      | exact ct_noteNest0 _
      | exact ct_enter0 _
      | exact ct_expect0 _
      | exact ct_acceptByte _
      | exact ct_special _
      | exact ct_peekByte
      | exact ct_func _
      | (first $[| exact $ls]*)
      | (first $[| apply $ls]*)
      | ct_arith
      | exact ct_weaken (ct_modifyCS0 _) (Nat.zero_le _) (fun _ => by ct_s)
      | exact ct_weaken ct_getCS0 (Nat.zero_le _) (fun _ => by ct_s)
      | exact ct_weaken (ct_expect0 _) (Nat.zero_le _) (fun _ => by ct_s)
      | (first $[| exact ct_weaken $ls (by ct_s) (fun _ => by ct_s)]*)
      | apply ct_bind
      | split))

/-! ### decoder level -/

theorem ct_sp : CT sp 2 (fun _ => 0) := by unfold sp; ct_auto
theorem ct_expectSP : CT expectSP 2 (fun _ => 0) := by unfold expectSP; ct_auto [ct_sp]

theorem ct_expectSpecial (w : UInt8) : CT (expectSpecial w) 1 (fun _ => 20) := by
  unfold expectSpecial
  refine ct_bind (ct_special w) (Nat.le_refl _) ?_
  intro b
  cases b
  · exact ct_fail _ _
  · exact ct_pure _ _ _ (by ct_s)

theorem ct_crlf : CT crlf 3 (hBool 20) := by
  unfold crlf
  refine ct_bind (ct_acceptByte 32) (by omega) ?_
  intro _
  refine ct_bind (ct_acceptByte 13) (by omega) ?_
  intro _
  refine ct_weaken (ct_acceptByte 10) (by omega) ?_
  intro b; omega

theorem ct_expectCRLF : CT expectCRLF 3 (fun _ => 20) := by
  unfold expectCRLF
  refine ct_bind ct_crlf (Nat.le_refl _) ?_
  intro b
  cases b
  · exact ct_fail _ _
  · exact ct_pure _ _ _ (by ct_s)

theorem ct_atom : CT atom 1 (hOpt 19) := ct_func _
theorem ct_text : CT text 1 (hOpt 19) := ct_func _
theorem ct_numberStr : CT numberStr 1 (hOpt 19) := ct_func _

theorem ct_expectOpt {α} {p : P (Option α)} {c k : Nat} (hp : CT p c (hOpt k)) : CT (expectOpt p) c (fun _ => k) := by
  unfold expectOpt
  refine ct_bind hp (Nat.le_refl _) ?_
  intro o
  cases o with
  | none => exact ct_fail _ _
  | some a => exact ct_pure _ _ _ (by ct_s)

theorem ct_expectAtom : CT expectAtom 1 (fun _ => 19) := by
  unfold expectAtom
  refine ct_bind ct_atom (Nat.le_refl _) ?_
  intro o
  cases o with
  | none => exact ct_fail _ _
  | some a => exact ct_pure _ _ _ (by ct_s)

theorem ct_discardUntilByte (u : UInt8) : CT (discardUntilByte u) 1 (fun _ => 0) := by
  unfold discardUntilByte; ct_auto

theorem ct_numberBelow (b : Nat) : CT (numberBelow b) 1 (hOpt 19) := by
  unfold numberBelow
  refine ct_bind ct_numberStr (Nat.le_refl _) ?_
  intro o
  cases o with
  | none => exact ct_pure _ _ _ (by ct_s)
  | some s =>
    simp only []
    split
    · exact ct_pure _ _ _ (by ct_s)
    · exact ct_pure _ _ _ (by ct_s)

theorem ct_number : CT number 1 (hOpt 19) := ct_numberBelow _
theorem ct_number64 : CT number64 1 (hOpt 19) := ct_numberBelow _
theorem ct_expectNumber : CT expectNumber 1 (fun _ => 19) := ct_expectOpt (ct_numberBelow _)
theorem ct_expectNumber64 : CT expectNumber64 1 (fun _ => 19) := ct_expectOpt (ct_numberBelow _)
theorem ct_expectModSeq : CT expectModSeq 1 (fun _ => 19) := ct_expectOpt (ct_numberBelow _)

theorem ct_quoted : CT quoted 1 (hOpt 19) := by
  unfold quoted
  refine ct_bind (ct_special 34) (Nat.le_refl _) ?_
  intro b
  cases b
  · exact ct_pure _ _ _ (by ct_s)
  · simp only [if_true]
    refine ct_weaken ct_quotedRest (by ct_s) ?_
    intro o; ct_s

theorem ct_literal : CT literal 1 (hOpt 19) := by
  unfold literal
  refine ct_bind (ct_special 123) (Nat.le_refl _) ?_
  intro b
  cases b
  · exact ct_pure _ _ _ (by ct_s)
  · simp only [Bool.not_true, Bool.false_eq_true, if_false]
    refine ct_bind ct_number64 (by ct_s) ?_
    intro o
    cases o with
    | none => exact ct_weaken (g' := hOpt 19) ct_softFail0 (Nat.zero_le _) (by intro o; cases o <;> ct_s)
    | some size =>
      simp only []
      have h1 : 1 - 1 + hBool 20 true - 1 + hOpt 19 (some size) = 38 := by simp [hBool, hOpt]
      rw [h1]
      refine ct_bind (ct_special 125) (by omega) ?_
      intro b2
      split
      · exact ct_weaken (g' := hOpt 19) ct_softFail0 (Nat.zero_le _) (by intro o; cases o <;> ct_s)
      · refine ct_bind ct_crlf (by omega) ?_
        intro b3
        split
        · exact ct_weaken (g' := hOpt 19) ct_softFail0 (Nat.zero_le _) (by intro o; cases o <;> ct_s)
        · refine ct_weaken (ct_literalData size) (by omega) ?_
          intro o; ct_s

theorem ct_string : CT string 2 (hOpt 19) := by
  unfold string
  refine ct_bind ct_quoted (by omega) ?_
  intro o
  cases o with
  | some s => exact ct_pure _ _ _ (by ct_s)
  | none =>
    simp only []
    refine ct_weaken ct_literal (by ct_s) ?_
    intro o; ct_s

theorem ct_expectString : CT expectString 2 (fun _ => 19) := ct_expectOpt ct_string

theorem ct_expectNString : CT expectNString 3 (fun _ => 19) := by
  unfold expectNString
  refine ct_bind ct_atom (by omega) ?_
  intro o
  cases o with
  | some a =>
    simp only []
    refine ct_bind (ct_expect0 _) (Nat.zero_le _) ?_
    intro _
    exact ct_pure _ _ _ (by ct_s)
  | none =>
    simp only []
    refine ct_weaken ct_expectString (by ct_s) ?_
    intro o; ct_s

theorem ct_expectAString : CT expectAString 3 (fun _ => 19) := by
  unfold expectAString
  refine ct_bind ct_quoted (by omega) ?_
  intro o
  cases o with
  | some s => exact ct_pure _ _ _ (by ct_s)
  | none =>
    simp only []
    refine ct_bind ct_literal (by ct_s) ?_
    intro o2
    cases o2 with
    | some s => exact ct_pure _ _ _ (by ct_s)
    | none =>
      simp only []
      refine ct_bind ct_badLiteral0 (Nat.zero_le _) ?_
      intro bl
      split
      · exact ct_fail _ _
      · refine ct_weaken ct_expectAtom (by ct_s) ?_
        intro a; ct_s

theorem ct_expectNIL : CT expectNIL 1 (fun _ => 19) := by
  unfold expectNIL
  refine ct_bind ct_expectAtom (Nat.le_refl _) ?_
  intro a
  exact ct_weaken (ct_expect0 _) (Nat.zero_le _) (by intro _; omega)

/-! ### lists: an element leaves 3 more than it was given, which pays for looking at what follows it -/

theorem ct_listLoop (f : P Unit) (cf : Nat) (hf : CT f cf (fun _ => cf + 3)) :
    ∀ lf, CT (listLoop f lf) (cf + 3) (fun _ => 19) := by
  intro lf
  induction lf with
  | zero => unfold listLoop; exact ct_nofuel _ _
  | succ k ih =>
    unfold listLoop
    refine ct_bind hf (by omega) ?_
    intro _
    refine ct_bind (ct_special 41) (by omega) ?_
    intro b
    cases b
    · simp only [Bool.false_eq_true, if_false]
      refine ct_bind ct_expectSP (by ct_s) ?_
      intro _
      refine ct_weaken ih (by ct_s) ?_
      intro _; ct_s
    · simp only [if_true]
      exact ct_pure _ _ _ (by ct_s)

theorem ct_list (fuel depth : Nat) (f : Nat → P Unit) (c cf : Nat) (hf : ∀ dp, CT (f dp) cf (fun _ => cf + 3))
    (h1 : 1 ≤ c) (h2 : cf ≤ c + 15) :
    CT (list fuel depth f) c (fun b => if b then c + 34 - cf else c - 1) := by
  unfold list
  refine ct_bind (ct_special 40) h1 ?_
  intro b
  cases b
  · exact ct_pure _ _ _ (by ct_s)
  · simp only [Bool.not_true, Bool.false_eq_true, if_false]
    refine ct_bind (ct_special 41) (by ct_s) ?_
    intro b2
    cases b2
    · simp only [Bool.false_eq_true, if_false]
      refine ct_bind (ct_enter0 depth) (Nat.zero_le _) ?_
      intro dp
      refine ct_bind (ct_listLoop (f dp) cf (hf dp) fuel) (by ct_s) ?_
      intro _
      exact ct_pure _ _ _ (by ct_s)
    · simp only [if_true]
      exact ct_pure _ _ _ (by ct_s)

theorem ct_expectList (fuel depth : Nat) (f : Nat → P Unit) (c cf : Nat) (hf : ∀ dp, CT (f dp) cf (fun _ => cf + 3))
    (h1 : 1 ≤ c) (h2 : cf ≤ c + 15) : CT (expectList fuel depth f) c (fun _ => c + 34 - cf) := by
  unfold expectList
  refine ct_bind (ct_list fuel depth f c cf hf h1 h2) (Nat.le_refl _) ?_
  intro b
  cases b
  · exact ct_fail _ _
  · exact ct_pure _ _ _ (by simp)

theorem ct_expectNList (fuel depth : Nat) (f : Nat → P Unit) (c cf : Nat) (hf : ∀ dp, CT (f dp) cf (fun _ => cf + 3))
    (h1 : 2 ≤ c) (h2 : cf ≤ 15) : CT (expectNList fuel depth f) c (fun _ => c + 18) := by
  unfold expectNList
  refine ct_bind ct_atom (by omega) ?_
  intro o
  cases o with
  | some a => exact ct_weaken (ct_expect0 _) (Nat.zero_le _) (by intro _; ct_s)
  | none =>
    simp only []
    refine ct_weaken (ct_expectList fuel depth f (c - 1) cf hf (by omega) (by omega)) (by ct_s) ?_
    intro _; ct_s

theorem ct_discardValue : ∀ fuel depth, CT (discardValue fuel depth) 6 (fun _ => 9) := by
  intro fuel
  induction fuel with
  | zero => intro depth; unfold discardValue; exact ct_nofuel _ _
  | succ k ih =>
    intro depth
    unfold discardValue
    refine ct_bind ct_string (by omega) ?_
    intro o
    cases o with
    | some s => exact ct_pure _ _ _ (by ct_s)
    | none =>
      simp only []
      refine ct_bind ct_badLiteral0 (Nat.zero_le _) ?_
      intro bl
      split
      · exact ct_fail _ _
      · refine ct_bind (ct_list k depth (fun dp => discardValue k dp) 4 6 (fun dp => ih dp) (by omega) (by omega))
          (by ct_s) ?_
        intro b
        cases b
        · simp only [Bool.false_eq_true, if_false]
          refine ct_bind ct_atom (by ct_s) ?_
          intro o2
          cases o2 with
          | some a => exact ct_pure _ _ _ (by ct_s)
          | none => exact ct_fail _ _
        · simp only [if_true]
          exact ct_pure _ _ _ (by ct_s)

theorem ct_expectNumSet : CT expectNumSet 2 (fun _ => 19) := by
  unfold expectNumSet
  refine ct_bind (ct_special 36) (by omega) ?_
  intro b
  cases b
  · simp only [Bool.false_eq_true, if_false]
    refine ct_bind (ct_func isNumSetChar) (by ct_s) ?_
    intro o
    cases o with
    | none => exact ct_fail _ _
    | some s =>
      simp only []
      split
      · exact ct_fail _ _
      · exact ct_pure _ _ _ (by ct_s)
  · simp only [if_true]
    exact ct_pure _ _ _ (by ct_s)

/-! ### SEARCH / ESEARCH / SORT / THREAD -/

theorem ct_searchLoop (rz : Bool) : ∀ lf, CT (searchLoop rz lf) 4 (fun _ => 0) := by
  intro lf
  induction lf with
  | zero => unfold searchLoop; exact ct_nofuel _ _
  | succ k ih =>
    unfold searchLoop
    refine ct_bind ct_sp (by omega) ?_
    intro b
    split
    · exact ct_pure _ _ _ (by ct_s)
    · refine ct_bind (ct_special 40) (by omega) ?_
      intro b2
      cases b2
      · simp only [Bool.false_eq_true, if_false]
        refine ct_bind ct_expectNumber (by ct_s) ?_
        intro num
        split
        · exact ct_fail _ _
        · refine ct_bind (ct_modifyCS0 _) (Nat.zero_le _) ?_
          intro _
          exact ct_weaken ih (by ct_s) (by intro _; ct_s)
      · simp only [if_true]
        have e : 4 - 2 + 0 - 1 + hBool 20 true = 21 := by simp [hBool]
        rw [e]
        ct_auto [ct_expectAtom, ct_expectSP, ct_expectModSeq, ct_expectSpecial _]

theorem ct_sortLoop (rz : Bool) : ∀ lf, CT (sortLoop rz lf) 3 (fun _ => 0) := by
  intro lf
  induction lf with
  | zero => unfold sortLoop; exact ct_nofuel _ _
  | succ k ih =>
    unfold sortLoop
    refine ct_bind ct_sp (by omega) ?_
    intro b
    split
    · exact ct_pure _ _ _ (by ct_s)
    · refine ct_bind ct_expectNumber (by ct_s) ?_
      intro num
      split
      · exact ct_fail _ _
      · refine ct_bind (ct_modifyCS0 _) (Nat.zero_le _) ?_
        intro _
        exact ct_weaken ih (by ct_s) (by intro _; ct_s)

theorem ct_esearchLoop (depth : Nat) : ∀ lf name data, CT (esearchLoop depth lf name data) 8 (fun _ => 0) := by
  intro lf
  induction lf with
  | zero => intro name data; unfold esearchLoop; exact ct_nofuel _ _
  | succ k ih =>
    intro name data
    unfold esearchLoop
    refine ct_bind ct_expectSP (by omega) ?_
    intro _
    split
    · exact ct_unmod _ _
    · refine ct_bind (c1 := 6) (g1 := fun _ => 9) ?_ (by ct_s) ?_
      · have num : ∀ (kf : Nat → ESData), CT (do let x ← expectNumber; pure (kf x) : P ESData) 6 (fun _ => 9) := by
          intro kf
          refine ct_bind ct_expectNumber (by omega) ?_
          intro x
          exact ct_pure _ _ _ (by ct_s)
        split
        · exact num _
        · split
          · exact num _
          · split
            · refine ct_bind ct_expectNumSet (by omega) ?_
              intro r
              obtain ⟨dyn, set⟩ := r
              simp only []
              split
              · exact ct_fail _ _
              · exact ct_pure _ _ _ (by ct_s)
            · split
              · exact num _
              · split
                · refine ct_bind ct_expectModSeq (by omega) ?_
                  intro x
                  exact ct_pure _ _ _ (by ct_s)
                · refine ct_bind (ct_discardValue k depth) (by omega) ?_
                  intro _
                  exact ct_pure _ _ _ (by ct_s)
      · intro data'
        refine ct_bind ct_sp (by ct_s) ?_
        intro b
        split
        · exact ct_pure _ _ _ (by ct_s)
        · refine ct_bind ct_expectAtom (by ct_s) ?_
          intro nm
          exact ct_weaken (ih nm data') (by ct_s) (by intro _; ct_s)

theorem ct_readESearch (fuel : Nat) : CT (readESearch fuel) 12 (fun _ => 0) := by
  unfold readESearch
  have hl := fun nm dt => ct_esearchLoop 0 fuel nm dt
  refine ct_bind (c1 := 4) (g1 := fun _ => 0) ?_ (by omega) ?_
  · refine ct_bind (ct_special 40) (by omega) ?_
    intro b
    cases b
    · simp only [Bool.false_eq_true, if_false]
      exact ct_pure _ _ _ (by ct_s)
    · simp only [if_true]
      have e : 4 - 1 + hBool 20 true = 23 := by simp [hBool]
      rw [e]
      ct_auto [ct_expectAtom, ct_expectSP, ct_expectAString, ct_expectSpecial _]
  · intro tag
    refine ct_bind ct_sp (by ct_s) ?_
    intro b
    split
    · exact ct_pure _ _ _ (by ct_s)
    · refine ct_bind ct_expectAtom (by ct_s) ?_
      intro name
      simp only []
      split
      · refine ct_bind ct_sp (by ct_s) ?_
        intro b2
        split
        · exact ct_pure _ _ _ (by ct_s)
        · refine ct_bind ct_expectAtom (by ct_s) ?_
          intro name2
          refine ct_bind (hl name2 _) (by ct_s) ?_
          intro d
          exact ct_pure _ _ _ (by ct_s)
      · refine ct_bind (hl name _) (by ct_s) ?_
        intro d
        exact ct_pure _ _ _ (by ct_s)

theorem ct_handleESearch (fuel : Nat) : CT (handleESearch fuel) 14 (fun _ => 0) := by
  unfold handleESearch
  refine ct_bind ct_expectSP (by omega) ?_
  intro _
  refine ct_bind (ct_readESearch fuel) (by ct_s) ?_
  intro r
  obtain ⟨tag, d⟩ := r
  exact ct_weaken (ct_modifyCS0 _) (Nat.zero_le _) (by intro _; ct_s)

theorem ct_threadItem (rz : Bool) (sub : P TD) (t : TD) (hs : CT sub 2 (fun _ => 6)) :
    CT (threadItem rz sub t) 3 (fun _ => 6) := by
  unfold threadItem
  refine ct_bind (p := (if !t.hasSub then number else pure none : P (Option Nat))) (c1 := 1) (g1 := hOpt 19) ?_ (by omega) ?_
  · split
    · exact ct_number
    · exact ct_pure _ _ _ (by ct_s)
  · intro o
    cases o with
    | some x =>
      simp only []
      split
      · exact ct_fail _ _
      · exact ct_pure _ _ _ (by ct_s)
    | none =>
      simp only []
      refine ct_bind hs (by ct_s) ?_
      intro s
      exact ct_pure _ _ _ (by ct_s)

theorem ct_thread (rz : Bool) : ∀ fuel,
    (∀ depth, CT (threadList rz fuel depth) 2 (fun _ => 6)) ∧
    (∀ dp t, CT (threadList.threadLoop rz fuel dp t) 3 (fun _ => 19)) := by
  intro fuel
  induction fuel with
  | zero =>
    exact ⟨fun depth => by unfold threadList; exact ct_nofuel _ _,
      fun dp t => by unfold threadList.threadLoop; exact ct_nofuel _ _⟩
  | succ k ih =>
    constructor
    · intro depth
      unfold threadList
      refine ct_bind (ct_special 40) (by omega) ?_
      intro b
      cases b
      · exact ct_fail _ _
      · simp only [Bool.not_true, Bool.false_eq_true, if_false]
        refine ct_bind (ct_special 41) (by ct_s) ?_
        intro b2
        cases b2
        · simp only [Bool.false_eq_true, if_false]
          refine ct_bind (ct_enter0 depth) (Nat.zero_le _) ?_
          intro dp
          refine ct_bind (ih.2 dp {}) (by ct_s) ?_
          intro t
          exact ct_pure _ _ _ (by ct_s)
        · simp only [if_true]
          exact ct_pure _ _ _ (by ct_s)
    · intro dp t
      unfold threadList.threadLoop
      refine ct_bind (ct_threadItem rz _ t (ih.1 dp)) (by omega) ?_
      intro t'
      refine ct_bind (ct_special 41) (by omega) ?_
      intro b
      cases b
      · simp only [Bool.false_eq_true, if_false]
        refine ct_bind ct_expectSP (by ct_s) ?_
        intro _
        exact ct_weaken (ih.2 dp t') (by ct_s) (by intro _; ct_s)
      · simp only [if_true]
        exact ct_pure _ _ _ (by ct_s)

theorem ct_threadsLoop (rz : Bool) : ∀ lf, CT (threadsLoop rz lf) 4 (fun _ => 0) := by
  intro lf
  induction lf with
  | zero => unfold threadsLoop; exact ct_nofuel _ _
  | succ k ih =>
    unfold threadsLoop
    refine ct_bind ct_sp (by omega) ?_
    intro b
    split
    · exact ct_pure _ _ _ (by ct_s)
    · refine ct_bind ((ct_thread rz k).1 0) (by ct_s) ?_
      intro t
      refine ct_bind (ct_modifyCS0 _) (Nat.zero_le _) ?_
      intro _
      exact ct_weaken ih (by ct_s) (by intro _; ct_s)

/-! ### FETCH -/

theorem ct_expectFlag : CT expectFlag 2 (fun _ => 19) := by
  unfold expectFlag
  refine ct_bind (ct_special 92) (by omega) ?_
  intro sys
  cases sys
  · simp only [Bool.false_eq_true, if_false]
    refine ct_bind ct_expectAtom (by ct_s) ?_
    intro a
    exact ct_pure _ _ _ (by ct_s)
  · simp only [if_true]
    have e : 2 - 1 + hBool 20 true = 21 := by simp [hBool]
    rw [e]
    ct_auto [ct_expectAtom]

theorem ct_flagLoop : ∀ lf k, CT (flagLoop lf k) 5 (fun _ => 19) := by
  intro lf
  induction lf with
  | zero => intro k; unfold flagLoop; exact ct_nofuel _ _
  | succ j ih =>
    intro k
    unfold flagLoop
    refine ct_bind ct_expectFlag (by omega) ?_
    intro _
    refine ct_bind (ct_special 41) (by omega) ?_
    intro b
    cases b
    · simp only [Bool.false_eq_true, if_false]
      refine ct_bind ct_expectSP (by ct_s) ?_
      intro _
      exact ct_weaken (ih _) (by ct_s) (by intro _; ct_s)
    · simp only [if_true]
      exact ct_pure _ _ _ (by ct_s)

theorem ct_readAddress : CT readAddress 1 (fun _ => 4) := by
  unfold readAddress
  ct_auto [ct_expectSpecial _, ct_expectNString, ct_expectSP]

theorem ct_addrLists (fuel depth : Nat) : ∀ k, CT (addrLists fuel depth k) 2 (fun _ => 2) := by
  intro k
  induction k with
  | zero => unfold addrLists; exact ct_pure _ _ _ (Nat.le_refl _)
  | succ j ih =>
    unfold addrLists
    refine ct_bind (ct_expectNList fuel depth (fun _ => readAddress) 2 1 (fun _ => ct_readAddress) (by omega) (by omega))
      (by omega) ?_
    intro _
    refine ct_bind ct_expectSP (by omega) ?_
    intro _
    exact ct_weaken ih (by omega) (by intro _; omega)

theorem ct_readEnvelope (fuel depth : Nat) : CT (readEnvelope fuel depth) 3 (fun _ => 0) := by
  unfold readEnvelope
  have := ct_addrLists fuel depth 6
  ct_auto [ct_expectSpecial _, ct_expectNString, ct_expectSP]

theorem ct_paramLoop : ∀ lf k, CT (paramLoop lf k) 2 (fun _ => 19) := by
  intro lf
  induction lf with
  | zero => intro k; unfold paramLoop; exact ct_nofuel _ _
  | succ j ih =>
    intro k
    unfold paramLoop
    refine ct_bind ct_expectString (by omega) ?_
    intro s
    simp only []
    refine ct_bind (ct_special 41) (by omega) ?_
    intro b
    cases b
    · simp only [Bool.false_eq_true, if_false]
      refine ct_bind ct_expectSP (by ct_s) ?_
      intro _
      exact ct_weaken (ih _) (by ct_s) (by intro _; ct_s)
    · simp only [if_true]
      exact ct_pure _ _ _ (by ct_s)

theorem ct_readBodyFldParam (fuel depth : Nat) : CT (readBodyFldParam fuel depth) 3 (fun _ => 21) := by
  unfold readBodyFldParam
  refine ct_bind ct_atom (by omega) ?_
  intro o
  cases o with
  | some a => exact ct_weaken (ct_expect0 _) (Nat.zero_le _) (by intro _; ct_s)
  | none =>
    simp only []
    refine ct_bind (ct_special 40) (by ct_s) ?_
    intro b
    cases b
    · exact ct_fail _ _
    · simp only [Bool.not_true, Bool.false_eq_true, if_false]
      refine ct_bind (ct_special 41) (by ct_s) ?_
      intro b2
      cases b2
      · simp only [Bool.false_eq_true, if_false]
        refine ct_bind (ct_enter0 depth) (Nat.zero_le _) ?_
        intro _
        refine ct_bind (ct_paramLoop fuel []) (by ct_s) ?_
        intro k
        split
        · exact ct_fail _ _
        · exact ct_pure _ _ _ (by ct_s)
      · simp only [if_true]
        exact ct_pure _ _ _ (by ct_s)

theorem ct_readBodyFldDsp (fuel depth : Nat) : CT (readBodyFldDsp fuel depth) 2 (fun _ => 19) := by
  unfold readBodyFldDsp
  refine ct_bind (ct_special 40) (by omega) ?_
  intro b
  cases b
  · simp only [Bool.not_false, if_true]
    exact ct_weaken ct_expectNIL (by ct_s) (by intro _; ct_s)
  · simp only [Bool.not_true, Bool.false_eq_true, if_false]
    have e : 2 - 1 + hBool 20 true = 21 := by simp [hBool]
    rw [e]
    have := ct_readBodyFldParam fuel depth
    ct_auto [ct_expectString, ct_expectSP, ct_expectSpecial _]

theorem ct_readBodyFldLang (fuel depth : Nat) : CT (readBodyFldLang fuel depth) 4 (fun _ => 19) := by
  unfold readBodyFldLang
  have he : ∀ (dp : Nat), CT (do let _ ← expectString; pure () : P Unit) 2 (fun _ => 2 + 3) := by
    intro dp
    refine ct_bind ct_expectString (Nat.le_refl _) ?_
    intro _
    exact ct_pure _ _ _ (by ct_s)
  refine ct_bind (ct_list fuel depth _ 4 2 he (by omega) (by omega)) (Nat.le_refl _) ?_
  intro b
  cases b
  · simp only [Bool.false_eq_true, if_false]
    refine ct_bind ct_expectNString (by ct_s) ?_
    intro _
    exact ct_pure _ _ _ (by ct_s)
  · simp only [if_true]
    exact ct_pure _ _ _ (by ct_s)

theorem ct_extTail (fuel depth : Nat) : CT (extTail fuel depth) 4 (fun _ => 0) := by
  unfold extTail
  have h1 := ct_readBodyFldDsp fuel depth
  have h2 := ct_readBodyFldLang fuel depth
  ct_auto [ct_sp, ct_expectNString]

theorem ct_expectBodyFldOctets : CT expectBodyFldOctets 2 (fun _ => 19) := by
  unfold expectBodyFldOctets
  refine ct_bind (ct_acceptByte 45) (by omega) ?_
  intro b
  cases b
  · simp only [Bool.false_eq_true, if_false]
    exact ct_weaken ct_expectNumber (by ct_s) (by intro _; ct_s)
  · simp only [if_true]
    have e : 2 - 1 + hBool 20 true = 21 := by simp [hBool]
    rw [e]
    ct_auto

theorem ct_trailingValues : ∀ lf depth, CT (trailingValues lf depth) 8 (fun _ => 0) := by
  intro lf
  induction lf with
  | zero => intro depth; unfold trailingValues; exact ct_nofuel _ _
  | succ j ih =>
    intro depth
    unfold trailingValues
    refine ct_bind ct_sp (by omega) ?_
    intro b
    split
    · exact ct_pure _ _ _ (by ct_s)
    · refine ct_bind (ct_discardValue j depth) (by ct_s) ?_
      intro _
      exact ct_weaken (ih depth) (by ct_s) (by intro _; ct_s)

theorem ct_readBody (guard : Bool) : ∀ fuel,
    (∀ depth nest, CT (readBody guard fuel depth nest) 10 (fun _ => 14)) ∧
    (∀ dp nest typ, CT (readBody.body1part guard fuel dp nest typ) 10 (fun _ => 0)) ∧
    (∀ dp nest acc dmax, CT (readBody.mpartLoop guard fuel dp nest acc dmax) 10 (fun _ => 0)) := by
  intro fuel
  induction fuel with
  | zero =>
    exact ⟨fun _ _ => by unfold readBody; exact ct_nofuel _ _,
      fun _ _ _ => by unfold readBody.body1part; exact ct_nofuel _ _,
      fun _ _ _ _ => by unfold readBody.mpartLoop; exact ct_nofuel _ _⟩
  | succ k ih =>
    obtain ⟨ihB, ih1, ihM⟩ := ih
    refine ⟨?_, ?_, ?_⟩
    · intro depth nest
      unfold readBody
      refine ct_bind (c1 := 0) (g1 := fun _ => 0) ?_ (Nat.zero_le _) ?_
      · split
        · ct_auto
        · ct_auto
      · intro r
        obtain ⟨dp, nest'⟩ := r
        simp only []
        refine ct_bind (ct_expectSpecial 40) (by omega) ?_
        intro _
        refine ct_bind (c1 := 12) (g1 := fun _ => 0) ?_ (by omega) ?_
        · refine ct_bind ct_string (by omega) ?_
          intro o
          cases o with
          | some typ => exact ct_weaken (ih1 dp nest' typ) (by ct_s) (by intro _; ct_s)
          | none =>
            simp only []
            refine ct_bind ct_badLiteral0 (Nat.zero_le _) ?_
            intro bl
            split
            · exact ct_fail _ _
            · refine ct_bind (ihM dp nest' "" 0) (by ct_s) ?_
              intro r2
              obtain ⟨outs, dpt⟩ := r2
              exact ct_pure _ _ _ (by ct_s)
        · intro b
          refine ct_bind (ct_trailingValues k dp) (by omega) ?_
          intro _
          refine ct_bind (ct_expectSpecial 41) (by omega) ?_
          intro _
          exact ct_pure _ _ _ (by omega)
    · intro dp nest typ
      unfold readBody.body1part
      have hP := ct_readBodyFldParam k dp
      have hE := ct_readEnvelope k dp
      have hB := ihB dp nest
      have hX := ct_extTail k dp
      ct_auto [ct_expectSP, ct_expectString, ct_expectNString, ct_expectBodyFldOctets, ct_sp, ct_expectNumber64]
    · intro dp nest acc dmax
      unfold readBody.mpartLoop
      have hP := ct_readBodyFldParam k dp
      have hX := ct_extTail k dp
      refine ct_bind (ihB dp nest) (Nat.le_refl _) ?_
      intro child
      simp only []
      refine ct_bind (c1 := 4) (g1 := hOpt 19) ?_ (by omega) ?_
      · refine ct_bind ct_sp (by omega) ?_
        intro b
        split
        · refine ct_bind ct_string (by omega) ?_
          intro o
          cases o with
          | some sub => exact ct_pure _ _ _ (by ct_s)
          | none => exact ct_pure _ _ _ (by ct_s)
        · exact ct_pure _ _ _ (by ct_s)
      · intro more
        cases more with
        | none =>
          simp only []
          refine ct_bind ct_badLiteral0 (Nat.zero_le _) ?_
          intro bl
          split
          · exact ct_fail _ _
          · exact ct_weaken (ihM dp nest _ _) (by ct_s) (by intro _; ct_s)
        | some sub =>
          simp only []
          have e : 10 - 10 + 14 - 4 + hOpt 19 (some sub) = 29 := by simp [hOpt]
          rw [e]
          ct_auto [ct_sp]

theorem ct_setCur (f : Msg → Msg) : CT (setCur f) 0 (fun _ => 0) := by
  unfold setCur; exact ct_modifyCS0 _

theorem ct_fetchBodyAtt (fuel dp : Nat) (guard : Bool) : CT (fetchBodyAtt fuel dp guard) 12 (fun _ => 0) := by
  unfold fetchBodyAtt
  have hB := (ct_readBody guard fuel).1 dp 0
  ct_auto [ct_expectSP, ct_setCur _]

theorem ct_noSection (name : Bytes) : CT (noSection name) 1 (fun _ => 0) := by
  unfold noSection
  split
  · refine ct_bind (ct_special 91) (Nat.le_refl _) ?_
    intro b
    split
    · exact ct_unmod _ _
    · exact ct_pure _ _ _ (by ct_s)
  · exact ct_pure _ _ _ (by ct_s)

theorem ct_fetchAttData (fuel dp : Nat) (guard : Bool) (name : Bytes) :
    CT (fetchAttData fuel dp guard name) 19 (fun _ => 4) := by
  unfold fetchAttData
  ct_auto [ct_expectSP, ct_setCur _, ct_expectNumber64, ct_expectNumber, ct_expectSpecial _, ct_expectModSeq, ct_noSection _,
    ct_flagLoop fuel 0, ct_readEnvelope fuel dp, ct_fetchBodyAtt fuel dp guard]

theorem ct_bumpAtts (seq : Nat) : CT (bumpAtts seq) 0 (fun _ => 0) := by
  unfold bumpAtts; exact ct_modifyCS0 _

theorem ct_fetchAtt (fuel dp seq : Nat) (guard : Bool) : CT (fetchAtt fuel dp guard seq) 1 (fun _ => 1 + 3) := by
  unfold fetchAtt
  refine ct_bind (ct_func isMsgAttNameChar) (Nat.le_refl _) ?_
  intro o
  cases o with
  | none => exact ct_fail _ _
  | some nameRaw =>
    simp only []
    have e : 1 - 1 + hOpt 19 (some nameRaw) = 19 := by simp [hOpt]
    rw [e]
    split
    · exact ct_unmod _ _
    · refine ct_bind (ct_fetchAttData fuel dp guard _) (Nat.le_refl _) ?_
      intro _
      exact ct_weaken (ct_bumpAtts seq) (Nat.zero_le _) (by intro _; ct_s)

theorem ct_handleFetch (fuel seq : Nat) (cfg : Cfg) : CT (handleFetch fuel cfg seq) 1 (fun _ => 0) := by
  unfold handleFetch
  split
  · exact ct_fail _ _
  · refine ct_bind (ct_modifyCS0 _) (Nat.zero_le _) ?_
    intro _
    refine ct_finally _ ?_
    exact ct_weaken (ct_expectList fuel 0 _ 1 1 (fun dp => ct_fetchAtt fuel dp seq cfg.bodyDepth) (by omega) (by omega))
      (by omega) (by intro _; omega)

/-! ### status responses, dispatch -/

theorem ct_capsLoop : ∀ lf, CT (capsLoop lf) 3 (fun _ => 0) := by
  intro lf
  induction lf with
  | zero => unfold capsLoop; exact ct_nofuel _ _
  | succ j ih =>
    unfold capsLoop
    refine ct_bind ct_sp (by omega) ?_
    intro b
    split
    · exact ct_pure _ _ _ (by ct_s)
    · refine ct_bind ct_expectAtom (by ct_s) ?_
      intro a
      exact ct_weaken ih (by ct_s) (by intro _; ct_s)

theorem ct_readCopyUID : CT readCopyUID 2 (fun _ => 0) := by
  unfold readCopyUID
  ct_auto [ct_expectNumber, ct_expectSP, ct_expectNumSet]

theorem ct_respCodeData (fuel : Nat) (cfg : Cfg) (tagged : Bool) (code : Bytes) :
    CT (respCodeData fuel cfg tagged code) 4 (fun _ => 0) := by
  unfold respCodeData
  ct_auto [ct_expectSP, ct_expectNumber, ct_readCopyUID, ct_expectModSeq, ct_sp, ct_discardUntilByte _, ct_capsLoop fuel]

theorem ct_respCode (fuel : Nat) (cfg : Cfg) (tagged : Bool) : CT (respCode fuel cfg tagged) 1 (fun _ => 0) := by
  unfold respCode
  have hc := fun code => ct_respCodeData fuel cfg tagged code
  ct_auto [ct_expectAtom, ct_expectSpecial _, hc]

theorem ct_respText (fuel : Nat) (cfg : Cfg) (tagged : Bool) : CT (respText fuel cfg tagged) 6 (fun _ => 0) := by
  unfold respText
  refine ct_bind ct_sp (by omega) ?_
  intro b
  refine ct_bind (c1 := 3) (g1 := fun _ => 0) ?_ (by ct_s) ?_
  · split
    · refine ct_bind (ct_special 91) (by omega) ?_
      intro b2
      cases b2
      · simp only [Bool.false_eq_true, if_false]
        exact ct_pure _ _ _ (by ct_s)
      · simp only [if_true]
        refine ct_bind (ct_respCode fuel cfg tagged) (by ct_s) ?_
        intro _
        exact ct_weaken ct_sp (by ct_s) (by intro _; ct_s)
    · exact ct_pure _ _ _ (by ct_s)
  · intro hasSP
    split
    · refine ct_bind ct_text (by ct_s) ?_
      intro o
      cases o with
      | some _ => exact ct_pure _ _ _ (by ct_s)
      | none => exact ct_fail _ _
    · exact ct_pure _ _ _ (by ct_s)

theorem ct_readTagged (fuel : Nat) (cfg : Cfg) (tag typ : Bytes) : CT (readTagged fuel cfg tag typ) 9 (fun _ => 0) := by
  unfold readTagged
  ct_auto [ct_expectCRLF, ct_respText fuel cfg true]

theorem ct_readData (fuel : Nat) (cfg : Cfg) (typ0 : Bytes) : CT (readData fuel cfg typ0) 20 (fun _ => 0) := by
  unfold readData
  have h3 := fun seq => ct_handleFetch fuel seq cfg
  refine ct_bind (c1 := 3) (g1 := fun _ => 0) ?_ (by omega) ?_
  · ct_auto [ct_expectSP, ct_expectAtom]
  · intro r
    obtain ⟨num, typ⟩ := r
    simp only []
    ct_auto [ct_expectSP, h3 _, ct_respText fuel cfg false, ct_capsLoop fuel, ct_searchLoop cfg.rejectZero fuel,
      ct_handleESearch fuel, ct_sortLoop cfg.rejectZero fuel, ct_threadsLoop cfg.rejectZero fuel]

theorem ct_readResponse (fuel : Nat) (cfg : Cfg) : CT (readResponse fuel cfg) 40 (fun _ => 0) := by
  unfold readResponse
  refine ct_bind (ct_special 43) (by omega) ?_
  intro plus
  cases plus
  · simp only [Bool.false_eq_true, if_false]
    refine ct_bind (c1 := 2) (g1 := fun _ => 0) ?_ (by ct_s) ?_
    · refine ct_bind (ct_special 42) (by omega) ?_
      intro star
      cases star
      · simp only [Bool.false_eq_true, if_false]
        exact ct_weaken ct_expectAtom (by ct_s) (by intro _; ct_s)
      · simp only [if_true]
        exact ct_pure _ _ _ (by ct_s)
    · intro tag
      refine ct_bind ct_expectSP (by ct_s) ?_
      intro _
      refine ct_bind ct_expectAtom (by ct_s) ?_
      intro typ
      split
      · exact ct_weaken (ct_readTagged fuel cfg tag typ) (by ct_s) (by intro _; ct_s)
      · refine ct_bind (ct_readData fuel cfg typ) (by ct_s) ?_
        intro _
        exact ct_weaken ct_expectCRLF (by ct_s) (by intro _; ct_s)
  · simp only [if_true]
    exact ct_fail_bind _ _ _

/-! ### the read loop: every response consumes a byte, so the constant per response is linear too -/

theorem readLoop_cost (fuel : Nat) (cfg : Cfg) : ∀ k d, L d + 1 ≤ k → 2 * L d + 2 ≤ fuel →
    (readLoop fuel cfg k d).2.cost ≤ d.cost + 61 * d.inp.length + 41 := by
  intro k
  induction k with
  | zero => intro d h _; omega
  | succ j ih =>
    intro d h hf
    unfold readLoop
    split
    · show d.cost + 1 ≤ _; omega
    · have hL : L { d with cost := d.cost + 1 } = L d := rfl
      have hn := (nf_readResponse fuel (L d) cfg hf).run { d with cost := d.cost + 1 } (by rw [hL]; exact Nat.le_refl _)
      have hc := (ct_readResponse fuel cfg).run { d with cost := d.cost + 1 }
      have hP : Phi20 { d with cost := d.cost + 1 } = d.cost + 1 + 20 * d.inp.length := rfl
      split
      · rename_i d' he
        rw [he] at hn hc
        have hn' : L d' + 1 ≤ L d := hn
        have hc' : Phi20 d' + 0 ≤ Phi20 { d with cost := d.cost + 1 } + 40 := hc
        have := ih d' (by omega) (by omega)
        simp only [Phi20, L] at *
        omega
      · rename_i e he
        rw [he] at hc
        have hc' : Phi20 e ≤ Phi20 { d with cost := d.cost + 1 } + 40 := hc
        show e.cost ≤ _
        simp only [Phi20] at *
        omega
      · show d.cost ≤ _; omega
      · show d.cost ≤ _; omega
      · show d.cost ≤ _; omega

/-- **cost_linear.** The number of byte reads the whole client performs on a stream is at most
    61 per input byte plus a constant, for the repaired reader and for `Legacy` alike. -/
theorem clientParse_cost (cfg : Cfg) (tag : Bytes) (kind : Kind) (inp : Bytes) :
    (clientParse cfg tag kind inp).cost ≤ 61 * inp.length + 41 := by
  unfold clientParse
  simp only []
  have := readLoop_cost (2 * inp.length + 8) cfg (inp.length + 2)
    { inp := inp, cs := initCS tag kind, cfg := cfg } (by simp [L]) (by simp [L])
  simpa using this

end GoImap.ClientParse
