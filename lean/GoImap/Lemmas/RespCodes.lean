/-
  Helper lemmas for C03: the response-code families APPENDUID and COPYUID (tagged completion lines) and
  MOVE (an untagged `* OK [COPYUID …]` followed by EXPUNGE lines): what the server prints is read back by
  the client as the events that carry the supplied data, and the routing hands that data to the command.
-/
import GoImap.Lemmas.RespLines
import GoImap.Lemmas.NumSetPrint
import GoImap.Spec.RespGrammar
namespace GoImap.Resp

/-! ### the bytes of a printed number set -/

theorem codes_setByte_noeol {x : Nat} (h : (decide (x = 42) || isAtomChar x) = true) : x ≠ 13 ∧ x ≠ 10 := by
  constructor
  · intro e; rw [e] at h; exact absurd h (by decide)
  · intro e; rw [e] at h; exact absurd h (by decide)

theorem codes_dig_ok {c : Char} (h : NumSet.IsDig c) : (decide (c.toNat = 42) || isAtomChar c.toNat) = true := by
  have := isAtomChar_of_digit (isDig_toNat h).1
  simp [this]

theorem codes_digits_ok (n : Nat) : ∀ c ∈ NumSet.digits n, (decide (c.toNat = 42) || isAtomChar c.toNat) = true :=
  fun c hc => codes_dig_ok ((NumSet.digits_spec n).2.1 c hc)

theorem codes_range_ok (r : NumSet.Range) : ∀ c ∈ r.toChars, (decide (c.toNat = 42) || isAtomChar c.toNat) = true := by
  intro c hc
  rcases NumSet.toChars_cases r with ⟨_, e⟩ | ⟨_, _, e⟩ | ⟨_, _, _, e⟩ | ⟨_, _, _, e⟩ <;> rw [e] at hc
  · simp only [List.mem_singleton] at hc; subst hc; decide
  · exact codes_digits_ok _ c hc
  · rcases List.mem_append.1 hc with h | h
    · exact codes_digits_ok _ c h
    · simp only [List.mem_cons, List.not_mem_nil, or_false] at h
      rcases h with rfl | rfl <;> decide
  · rcases List.mem_append.1 hc with h | h
    · exact codes_digits_ok _ c h
    · rcases List.mem_cons.1 h with rfl | h
      · decide
      · exact codes_digits_ok _ c h

/-- every character of a printed set is a digit, `:`, `,` or `*` -/
theorem codes_toChars_ok : ∀ (s : NumSet.Set), ∀ c ∈ NumSet.toChars s,
    (decide (c.toNat = 42) || isAtomChar c.toNat) = true := by
  intro s
  induction s with
  | nil => intro c hc; simp [NumSet.toChars] at hc
  | cons r rest ih =>
    cases rest with
    | nil =>
      intro c hc
      have e : NumSet.toChars [r] = r.toChars := rfl
      rw [e] at hc
      exact codes_range_ok r c hc
    | cons r' rest' =>
      intro c hc
      have e : NumSet.toChars (r :: r' :: rest') = r.toChars ++ ',' :: NumSet.toChars (r' :: rest') := rfl
      rw [e] at hc
      rcases List.mem_append.1 hc with h | h
      · exact codes_range_ok r c h
      · rcases List.mem_cons.1 h with rfl | h
        · decide
        · exact ih c h

theorem codes_setText_ok (s : NumSet.Set) : ∀ x ∈ (NumSet.toChars s).map Char.toNat,
    (fun c => decide (c = 42) || isAtomChar c) x = true := by
  intro x hx
  obtain ⟨c, hc, rfl⟩ := List.mem_map.mp hx
  exact codes_toChars_ok s c hc

theorem codes_setText_noeol (s : NumSet.Set) : ∀ x ∈ (NumSet.toChars s).map Char.toNat, x ≠ 13 ∧ x ≠ 10 :=
  fun x hx => codes_setByte_noeol (codes_setText_ok s x hx)

theorem codes_map_ofNat_toNat (t : List Char) : (t.map Char.toNat).map Char.ofNat = t := by
  induction t with
  | nil => rfl
  | cons c r ih => simp only [List.map_cons, ih, Char.ofNat_toNat]

theorem codes_toChars_ne_nil (s : NumSet.Set) (h : NumSet.Canon s) (hne : s ≠ []) : NumSet.toChars s ≠ [] := by
  intro e
  have h1 := NumSet.parseSet_toChars s h hne
  have h0 : NumSet.parseSet [] = none := by decide
  rw [e, h0] at h1
  cases h1

theorem codes_setText_ne_nil (s : NumSet.Set) (h : NumSet.Canon s) (hne : s ≠ []) :
    (NumSet.toChars s).map Char.toNat ≠ [] :=
  fun e => codes_toChars_ne_nil s h hne (List.map_eq_nil_iff.mp e)

/-- Decoder.ExpectNumSet reads back the String() of a canonical non-empty set, when the byte that follows
    is neither an atom character nor `*` -/
theorem codes_decNumSetText (s : NumSet.Set) (h : NumSet.Canon s) (hne : s ≠ []) (rest : Str)
    (hr : StopsAt (fun c => decide (c = 42) || isAtomChar c) rest) :
    decNumSetText ((NumSet.toChars s).map Char.toNat ++ rest) = some (s, rest) := by
  unfold decNumSetText
  rw [spanB_append _ _ _ (codes_setText_ok s) hr]
  cases hd : (NumSet.toChars s).map Char.toNat with
  | nil => exact absurd hd (codes_setText_ne_nil s h hne)
  | cons a l =>
    simp only []
    rw [← hd, codes_map_ofNat_toNat, NumSet.parseSet_toChars s h hne]
    rfl

theorem codes_encNumSet (s : NumSet.Set) (hne : s ≠ []) : encNumSet s = some ((NumSet.toChars s).map Char.toNat) := by
  cases s with
  | nil => exact absurd rfl hne
  | cons r t => simp [encNumSet]

/-! ### SP before a value, SP and text after the code -/

theorem codes_expectSP_of (a rest : Str) (hne : a ≠ []) (ha : ∀ x ∈ a, x ≠ 13 ∧ x ≠ 10) :
    expectSP (32 :: (a ++ rest)) = some (a ++ rest) := by
  cases a with
  | nil => exact absurd rfl hne
  | cons c t =>
    have hc := ha c (by simp)
    show expectSP (32 :: c :: (t ++ rest)) = some (c :: (t ++ rest))
    exact expectSP_sp c (t ++ rest) hc.1 hc.2

theorem codes_expectSP_num (n : Nat) (rest : Str) : expectSP (32 :: (encNumber n ++ rest)) = some (encNumber n ++ rest) := by
  obtain ⟨_, h2, h3⟩ := encNumber_spec n
  apply codes_expectSP_of _ _ h3
  intro x hx
  have hd := h2 x hx
  constructor
  · intro e; rw [e] at hd; exact absurd hd (by decide)
  · intro e; rw [e] at hd; exact absurd hd (by decide)

theorem codes_decSP_text (text rest : Str) (hx : IsText text) :
    decSP (32 :: (text ++ 13 :: rest)) = (true, text ++ 13 :: rest) := by
  cases htext : text with
  | nil => exact absurd htext hx.ne
  | cons c t =>
    have hc := hx.noeol c (by rw [htext]; simp)
    simp [decSP, hc.1, hc.2]

/-! ### COPYUID -/

/-- copy.go readRespCodeCopyUID on what writeCopyOK wrote between `COPYUID ` and `]` -/
theorem codes_readCopyUID (v : Nat) (hv : v < 4294967296) (src dst : NumSet.Set)
    (hs : NumSet.Canon src) (hsne : src ≠ []) (hsd : NumSet.dynamic src = false)
    (hd : NumSet.Canon dst) (hdne : dst ≠ []) (hdd : NumSet.dynamic dst = false) (rest : Str) :
    readCopyUID (encNumber v ++ 32 :: ((NumSet.toChars src).map Char.toNat ++
        32 :: ((NumSet.toChars dst).map Char.toNat ++ 93 :: rest))) =
      some (Code.copyUID v src dst, 93 :: rest) := by
  have h1 := decNumber_encNumber v hv
    (32 :: ((NumSet.toChars src).map Char.toNat ++ 32 :: ((NumSet.toChars dst).map Char.toNat ++ 93 :: rest)))
    (StopsAt.cons _ (by decide))
  have h2 := codes_expectSP_of ((NumSet.toChars src).map Char.toNat)
    (32 :: ((NumSet.toChars dst).map Char.toNat ++ 93 :: rest)) (codes_setText_ne_nil src hs hsne) (codes_setText_noeol src)
  have h3 := codes_decNumSetText src hs hsne (32 :: ((NumSet.toChars dst).map Char.toNat ++ 93 :: rest))
    (StopsAt.cons _ (by decide))
  have h4 := codes_expectSP_of ((NumSet.toChars dst).map Char.toNat) (93 :: rest)
    (codes_setText_ne_nil dst hd hdne) (codes_setText_noeol dst)
  have h5 := codes_decNumSetText dst hd hdne (93 :: rest) (StopsAt.cons _ (by decide))
  simp [readCopyUID, h1, h2, h3, h4, h5, hsd, hdd]

/-- `[COPYUID …] text` after the condition of a tagged or untagged status response -/
theorem codes_readRespText_copyuid (tagged : Bool) (B text rest : Str) (c : Code) (hx : IsText text)
    (hsp : expectSP (32 :: B) = some B)
    (hb : readCopyUID B = some (c, 93 :: 32 :: (text ++ 13 :: 10 :: rest))) :
    readRespText tagged (32 :: 91 :: (asc "COPYUID" ++ 32 :: B)) = some (c, 13 :: 10 :: rest) := by
  have hta : tryAtom (asc "COPYUID" ++ 32 :: B) = some (asc "COPYUID", 32 :: B) :=
    tryAtom_append _ _ (by decide) (by decide) (StopsAt.cons _ (by decide))
  have hds := codes_decSP_text text (10 :: rest) hx
  have htx := decText_text text (10 :: rest) hx
  have n1 : ¬ asc "COPYUID" = asc "CAPABILITY" := by decide
  have n2 : ¬ asc "COPYUID" = asc "APPENDUID" := by decide
  have hd0 : decSP (32 :: 91 :: (asc "COPYUID" ++ 32 :: B)) = (true, 91 :: (asc "COPYUID" ++ 32 :: B)) := by
    simp [decSP]
  unfold readRespText
  rw [hd0]
  simp only [hta]
  simp [n1, n2, hsp, hb, hds, htx]

/-- what copy.go writeCopyOK writes for non-empty sets -/
theorem codes_copyCodeText (d : CopyData) (hsne : d.src ≠ []) (hdne : d.dst ≠ []) :
    copyCodeText (some d) = some (asc "[COPYUID " ++ encNumber d.uidValidity ++ [32] ++ (NumSet.toChars d.src).map Char.toNat ++
      [32] ++ (NumSet.toChars d.dst).map Char.toNat ++ asc "] ") := by
  simp [copyCodeText, codes_encNumSet d.src hsne, codes_encNumSet d.dst hdne]

/-- the printed COPYUID code followed by the text, after `OK` -/
theorem codes_readRespText_copyCode (tagged : Bool) (d : CopyData) (hv : d.uidValidity < 4294967296)
    (hs : NumSet.Canon d.src) (hsne : d.src ≠ []) (hsd : NumSet.dynamic d.src = false)
    (hd : NumSet.Canon d.dst) (hdne : d.dst ≠ []) (hdd : NumSet.dynamic d.dst = false)
    (text rest : Str) (hx : IsText text) :
    readRespText tagged (32 :: (asc "[COPYUID " ++ encNumber d.uidValidity ++ [32] ++ (NumSet.toChars d.src).map Char.toNat ++
      [32] ++ (NumSet.toChars d.dst).map Char.toNat ++ asc "] " ++ text ++ 13 :: 10 :: rest)) =
      some (Code.copyUID d.uidValidity d.src d.dst, 13 :: 10 :: rest) := by
  have e : 32 :: (asc "[COPYUID " ++ encNumber d.uidValidity ++ [32] ++ (NumSet.toChars d.src).map Char.toNat ++
      [32] ++ (NumSet.toChars d.dst).map Char.toNat ++ asc "] " ++ text ++ 13 :: 10 :: rest) =
      32 :: 91 :: (asc "COPYUID" ++ 32 :: (encNumber d.uidValidity ++ 32 :: ((NumSet.toChars d.src).map Char.toNat ++
        32 :: ((NumSet.toChars d.dst).map Char.toNat ++ 93 :: 32 :: (text ++ 13 :: 10 :: rest))))) := by
    simp [asc, List.append_assoc]
  rw [e]
  exact codes_readRespText_copyuid tagged _ text rest _ hx (codes_expectSP_num d.uidValidity _)
    (codes_readCopyUID d.uidValidity hv d.src d.dst hs hsne hsd hd hdne hdd (32 :: (text ++ 13 :: 10 :: rest)))

/-! ### APPENDUID, and a status response without a code -/

theorem codes_readRespText_appenduid (v u : Nat) (hv : v < 4294967296) (hu : u < 4294967296) (hu0 : u ≠ 0) (text rest : Str)
    (hx : IsText text) :
    readRespText true (32 :: 91 :: (asc "APPENDUID" ++ 32 :: (encNumber v ++ 32 :: (encNumber u ++
      93 :: 32 :: (text ++ 13 :: 10 :: rest))))) = some (Code.appendUID v u, 13 :: 10 :: rest) := by
  have hta : tryAtom (asc "APPENDUID" ++ 32 :: (encNumber v ++ 32 :: (encNumber u ++ 93 :: 32 :: (text ++ 13 :: 10 :: rest)))) =
      some (asc "APPENDUID", 32 :: (encNumber v ++ 32 :: (encNumber u ++ 93 :: 32 :: (text ++ 13 :: 10 :: rest)))) :=
    tryAtom_append _ _ (by decide) (by decide) (StopsAt.cons _ (by decide))
  have hds := codes_decSP_text text (10 :: rest) hx
  have htx := decText_text text (10 :: rest) hx
  have n1 : ¬ asc "APPENDUID" = asc "CAPABILITY" := by decide
  have hs1 := codes_expectSP_num v (32 :: (encNumber u ++ 93 :: 32 :: (text ++ 13 :: 10 :: rest)))
  have hn1 := decNumber_encNumber v hv (32 :: (encNumber u ++ 93 :: 32 :: (text ++ 13 :: 10 :: rest)))
    (StopsAt.cons _ (by decide))
  have hs2 := codes_expectSP_num u (93 :: 32 :: (text ++ 13 :: 10 :: rest))
  have hn2 := decNumber_encNumber u hu (93 :: 32 :: (text ++ 13 :: 10 :: rest)) (StopsAt.cons _ (by decide))
  have hd0 : decSP (32 :: 91 :: (asc "APPENDUID" ++ 32 :: (encNumber v ++ 32 :: (encNumber u ++
      93 :: 32 :: (text ++ 13 :: 10 :: rest))))) =
      (true, 91 :: (asc "APPENDUID" ++ 32 :: (encNumber v ++ 32 :: (encNumber u ++ 93 :: 32 :: (text ++ 13 :: 10 :: rest))))) := by
    simp [decSP]
  unfold readRespText
  rw [hd0]
  simp only [hta]
  simp [n1, hs1, hn1, hs2, hn2, hds, htx, hu0]

theorem codes_readRespText_plain (tagged : Bool) (text rest : Str) (hx : IsText text) :
    readRespText tagged (32 :: (text ++ 13 :: 10 :: rest)) = some (Code.none, 13 :: 10 :: rest) := by
  have htx := decText_text text (10 :: rest) hx
  cases htext : text with
  | nil => exact absurd htext hx.ne
  | cons c t =>
    have hc := hx.noeol c (by rw [htext]; simp)
    have h91 : c ≠ 91 := hx.nobracket c t htext
    rw [htext] at htx
    show readRespText tagged (32 :: c :: (t ++ 13 :: 10 :: rest)) = _
    unfold readRespText
    simp only [decSP, hc.1, hc.2, ne_eq, not_false_eq_true, decide_true, Bool.and_self]
    split
    · rename_i heq; cases heq
    · rename_i heq; injection heq with _ h2; injection h2 with h3 _; exact absurd h3 h91
    · rename_i heq; injection heq with _ h2; subst h2
      have htx' : decText (c :: (t ++ 13 :: 10 :: rest)) = some (13 :: 10 :: rest) := htx
      rw [htx']; rfl

/-! ### whole lines -/

/-- a tagged `OK` line whose resp-text (code and text) is read as `c` -/
theorem codes_done_of_respText (tag payload : Str) (ht : IsTag tag) (c : Code)
    (h : ∀ rest, readRespText true (32 :: (payload ++ 13 :: 10 :: rest)) = some (c, 13 :: 10 :: rest)) :
    ReadsAs (tag ++ asc " OK " ++ payload ++ CRLFb) (Event.done tag (asc "OK") c) := by
  constructor
  · cases tag with
    | nil => exact absurd rfl ht.ne
    | cons a t => simp
  · intro rest
    have e : tag ++ asc " OK " ++ payload ++ CRLFb ++ rest = tag ++ (32 :: 79 :: (75 :: 32 :: (payload ++ 13 :: 10 :: rest))) := by
      simp [asc, CRLFb, List.append_assoc]
    rw [e, readTagged_of_tag tag _ ht 79 _ rfl (by decide) (by decide)]
    have hta : tryAtom (79 :: 75 :: 32 :: (payload ++ 13 :: 10 :: rest)) = some (asc "OK", 32 :: (payload ++ 13 :: 10 :: rest)) :=
      tryAtom_append (asc "OK") (32 :: (payload ++ 13 :: 10 :: rest)) (by decide) (by decide) (StopsAt.cons _ (by decide))
    rw [hta]
    simp only [h rest, Option.map_some, finishLine_crlf]
    simp

theorem codes_dispatch_ok (r : Str) (c : Code) (r' : Str) (h : readRespText false r = some (c, r')) :
    dispatchData 0 (asc "OK") r = some (Event.cond (asc "OK") c, r') := by
  simp [dispatchData, h]

/-- an untagged `* OK` line whose resp-text is read as `c` -/
theorem codes_cond_of_respText (payload : Str) (c : Code)
    (h : ∀ rest, readRespText false (32 :: (payload ++ 13 :: 10 :: rest)) = some (c, 13 :: 10 :: rest)) :
    ReadsAs (asc "* OK " ++ payload ++ CRLFb) (Event.cond (asc "OK") c) := by
  constructor
  · simp [asc]
  · intro rest
    have e : asc "* OK " ++ payload ++ CRLFb ++ rest = 42 :: 32 :: 79 :: (75 :: 32 :: (payload ++ 13 :: 10 :: rest)) := by
      simp [asc, CRLFb, List.append_assoc]
    have e2 : 79 :: 75 :: 32 :: (payload ++ 13 :: 10 :: rest) = asc "OK" ++ 32 :: (payload ++ 13 :: 10 :: rest) := by
      simp [asc]
    rw [e, readResponse_star 79 _ (by decide) (by decide), e2,
      readUntagged_name (asc "OK") _ (isName_of _ (by decide)) (StopsAt.cons _ (by decide)),
      codes_dispatch_ok _ c _ (h rest), finishLine_crlf]

theorem codes_isTag_of (tag : Str) (h : tag ≠ [] ∧ tag.all isAtomChar = true ∧ tag.head? ≠ some 43) : IsTag tag := by
  obtain ⟨a, b, c⟩ := h
  refine ⟨a, ?_, ?_⟩
  · rw [List.all_eq_true] at b; exact b
  · intro x t e; subst e; simpa using c

theorem codes_isText_of (text : Str)
    (h : text ≠ [] ∧ text.all (fun x => x ≠ 13 && x ≠ 10) = true ∧ text.head? ≠ some 91) : IsText text := by
  obtain ⟨a, b, c⟩ := h
  refine ⟨a, ?_, ?_⟩
  · intro x hx; have := List.all_eq_true.mp b x hx; simpa using this
  · intro x t e; subst e; simpa using c

theorem codes_parseAll_single (l : Str) (e : Event) (h : ReadsAs l e) : parseAll l = some [e] := by
  have h' := parseAll_lines [l] [e] (AllRead.single h)
  simpa using h'

/-! ## A. APPENDUID -/

/-- `tag OK [APPENDUID v u] text` (append.go writeAppendOK) is read as the completion carrying the code -/
theorem appenduid_line (tag text : Str) (ht : IsTag tag) (hx : IsText text) (v u : Nat) (hv : v < 4294967296)
    (hu : u < 4294967296) (hu0 : u ≠ 0) :
    ReadsAs (tag ++ asc " OK " ++ appendCodeText (some { uidValidity := v, uid := u }) ++ text ++ CRLFb)
      (Event.done tag (asc "OK") (Code.appendUID v u)) := by
  have e : tag ++ asc " OK " ++ appendCodeText (some { uidValidity := v, uid := u }) ++ text ++ CRLFb =
      tag ++ asc " OK " ++ (91 :: (asc "APPENDUID" ++ 32 :: (encNumber v ++ 32 :: (encNumber u ++ 93 :: 32 :: text)))) ++ CRLFb := by
    simp [appendCodeText, asc, List.append_assoc]
  rw [e]
  apply codes_done_of_respText tag _ ht
  intro rest
  have h := codes_readRespText_appenduid v u hv hu hu0 text rest hx
  simpa [List.append_assoc] using h

theorem appenduid_deliver (tag : Str) (v u : Nat) :
    deliverAppend [Event.done tag (asc "OK") (Code.appendUID v u)] = { uidValidity := v, uid := u } := rfl

/-- APPEND fidelity for a backend that supplies data: the line is read and the data is what `Wait` returns -/
theorem append_some_fidelity (tag text : Str) (ht : IsTag tag) (hx : IsText text) (d : AppendData)
    (hv : d.uidValidity < 4294967296) (hu : d.uid < 4294967296) (hu0 : d.uid ≠ 0) :
    (parseAll (tag ++ asc " OK " ++ appendCodeText (some d) ++ text ++ CRLFb)).map deliverAppend =
      some (RespSpec.canonAppend (some d)) := by
  rw [codes_parseAll_single _ _ (appenduid_line tag text ht hx d.uidValidity d.uid hv hu hu0)]
  rfl

/-- without data (`appendCodeText none = []`) the line is the plain completion -/
theorem append_none_line (tag text : Str) (ht : IsTag tag) (hx : IsText text) :
    ReadsAs (tag ++ asc " OK " ++ appendCodeText none ++ text ++ CRLFb) (Event.done tag (asc "OK") Code.none) := by
  simpa [appendCodeText] using done_line tag text ht hx

theorem append_none_deliver (tag : Str) :
    deliverAppend [Event.done tag (asc "OK") Code.none] = RespSpec.canonAppend none := rfl

theorem append_none_fidelity (tag text : Str) (ht : IsTag tag) (hx : IsText text) :
    (parseAll (tag ++ asc " OK " ++ appendCodeText none ++ text ++ CRLFb)).map deliverAppend =
      some (RespSpec.canonAppend none) := by
  rw [codes_parseAll_single _ _ (append_none_line tag text ht hx)]
  rfl

example : ReadsAs (asc "A1" ++ asc " OK " ++ appendCodeText (some { uidValidity := 7, uid := 4294967295 }) ++ asc "done" ++ CRLFb)
    (Event.done (asc "A1") (asc "OK") (Code.appendUID 7 4294967295)) :=
  appenduid_line _ _ (codes_isTag_of _ (by decide)) (codes_isText_of _ (by decide)) 7 4294967295 (by decide) (by decide) (by decide)

/-! ## B. COPYUID on the tagged completion -/

/-- `tag OK [COPYUID v src dst] text` (copy.go writeCopyOK) is read as the completion carrying the code -/
theorem copyuid_line (tag text : Str) (ht : IsTag tag) (hx : IsText text) (d : CopyData)
    (hv : d.uidValidity < 4294967296)
    (hs : NumSet.Canon d.src) (hsne : d.src ≠ []) (hsd : NumSet.dynamic d.src = false)
    (hd : NumSet.Canon d.dst) (hdne : d.dst ≠ []) (hdd : NumSet.dynamic d.dst = false)
    (code : Str) (hc : copyCodeText (some d) = some code) :
    ReadsAs (tag ++ asc " OK " ++ code ++ text ++ CRLFb)
      (Event.done tag (asc "OK") (Code.copyUID d.uidValidity d.src d.dst)) := by
  rw [codes_copyCodeText d hsne hdne] at hc
  injection hc with hc
  subst hc
  have e : ∀ (code : Str), tag ++ asc " OK " ++ code ++ text ++ CRLFb = tag ++ asc " OK " ++ (code ++ text) ++ CRLFb := by
    intro code; simp [List.append_assoc]
  rw [e]
  apply codes_done_of_respText tag _ ht
  intro rest
  exact codes_readRespText_copyCode true d hv hs hsne hsd hd hdne hdd text rest hx

theorem copyuid_deliver (tag : Str) (d : CopyData) :
    deliverCopy [Event.done tag (asc "OK") (Code.copyUID d.uidValidity d.src d.dst)] = d := rfl

theorem copy_none_deliver (tag : Str) :
    deliverCopy [Event.done tag (asc "OK") Code.none] = RespSpec.canonCopy none := rfl

/-- COPY fidelity: the data the backend supplied is what `CopyCommand.Wait` returns -/
theorem copy_some_fidelity (tag text : Str) (ht : IsTag tag) (hx : IsText text) (d : CopyData)
    (hv : d.uidValidity < 4294967296)
    (hs : NumSet.Canon d.src) (hsne : d.src ≠ []) (hsd : NumSet.dynamic d.src = false)
    (hd : NumSet.Canon d.dst) (hdne : d.dst ≠ []) (hdd : NumSet.dynamic d.dst = false)
    (code : Str) (hc : copyCodeText (some d) = some code) :
    (parseAll (tag ++ asc " OK " ++ code ++ text ++ CRLFb)).map deliverCopy = some (RespSpec.canonCopy (some d)) := by
  rw [codes_parseAll_single _ _ (copyuid_line tag text ht hx d hv hs hsne hsd hd hdne hdd code hc)]
  rfl

theorem copy_none_fidelity (tag text : Str) (ht : IsTag tag) (hx : IsText text) (code : Str)
    (hc : copyCodeText none = some code) :
    (parseAll (tag ++ asc " OK " ++ code ++ text ++ CRLFb)).map deliverCopy = some (RespSpec.canonCopy none) := by
  have hc' : code = [] := by
    have : copyCodeText none = some [] := rfl
    rw [this] at hc; injection hc with hc; exact hc.symm
  subst hc'
  have hl : ReadsAs (tag ++ asc " OK " ++ [] ++ text ++ CRLFb) (Event.done tag (asc "OK") Code.none) := by
    simpa using done_line tag text ht hx
  rw [codes_parseAll_single _ _ hl]
  rfl

example : ∃ code, copyCodeText (some { uidValidity := 7, src := [⟨1, 3⟩], dst := [⟨10, 12⟩] }) = some code ∧
    ReadsAs (asc "A1" ++ asc " OK " ++ code ++ asc "done" ++ CRLFb)
      (Event.done (asc "A1") (asc "OK") (Code.copyUID 7 [⟨1, 3⟩] [⟨10, 12⟩])) :=
  ⟨_, rfl, copyuid_line _ _ (codes_isTag_of _ (by decide)) (codes_isText_of _ (by decide))
    { uidValidity := 7, src := [⟨1, 3⟩], dst := [⟨10, 12⟩] } (by decide)
    ((NumSet.canonical_iff _).1 (by decide)) (by decide) (by decide)
    ((NumSet.canonical_iff _).1 (by decide)) (by decide) (by decide) _ rfl⟩

/-! ## C. MOVE -/

theorem codes_isText_copyCompleted : IsText (asc "COPY completed") := codes_isText_of _ (by decide)

theorem codes_flat (l1 dl : Str) (ex : List Nat) :
    l1 ++ printExpunges ex ++ dl =
      ([l1] ++ ex.map (fun n => star ++ [32] ++ encNumber n ++ asc " EXPUNGE\r\n") ++ [dl]).flatten := by
  simp [printExpunges, List.flatMap]

/-- a first line, the EXPUNGE lines and the completion are read as that many events -/
theorem codes_move_stream (l1 : Str) (e1 : Event) (h1 : ReadsAs l1 e1) (ex : List Nat) (hex : ∀ n ∈ ex, n ≠ 0 ∧ n < 4294967296)
    (tag text : Str) (ht : IsTag tag) (hx : IsText text) :
    parseAll (l1 ++ printExpunges ex ++ (tag ++ asc " OK " ++ text ++ CRLFb)) =
      some ([e1] ++ ex.map Event.expunge ++ [Event.done tag (asc "OK") Code.none]) := by
  rw [codes_flat]
  exact parseAll_lines _ _ (AllRead.append (AllRead.append (AllRead.single h1)
    (AllRead.map _ _ ex (fun n hn => expunge_line n (hex n hn).1 (hex n hn).2))) (AllRead.single (done_line tag text ht hx)))

theorem codes_foldl_skip {α β : Type} (f : α → β → α) (l : List β) (h : ∀ a, ∀ b ∈ l, f a b = a) (acc : α) :
    l.foldl f acc = acc := by
  induction l generalizing acc with
  | nil => rfl
  | cons b t ih =>
    simp only [List.foldl_cons]
    rw [h acc b (by simp)]
    exact ih (fun a x hx => h a x (by simp [hx])) acc

theorem codes_expungeNums_map (xs : List Nat) (tail : List Event) :
    expungeNums (xs.map Event.expunge ++ tail) = xs ++ expungeNums tail := by
  induction xs with
  | nil => rfl
  | cons x t ih =>
    simp only [List.map_cons, List.cons_append, expungeNums, List.filterMap_cons] at ih ⊢
    rw [ih]

theorem codes_expungeNums_move (e1 eN : Event) (h1 : expungeNums [e1] = []) (hN : expungeNums [eN] = []) (ex : List Nat) :
    expungeNums ([e1] ++ ex.map Event.expunge ++ [eN]) = ex := by
  have ha : ∀ (a b : List Event), expungeNums (a ++ b) = expungeNums a ++ expungeNums b := by
    intro a b; simp [expungeNums]
  rw [List.append_assoc, ha, h1, codes_expungeNums_map, hN]
  simp

theorem codes_deliverMove_copy (typ : Str) (v : Nat) (s t : NumSet.Set) (ex : List Nat) (tag typ' : Str) :
    deliverMove ([Event.cond typ (Code.copyUID v s t)] ++ ex.map Event.expunge ++ [Event.done tag typ' Code.none]) =
      ({ uidValidity := v, src := s, dst := t }, ex) := by
  unfold deliverMove
  rw [Prod.mk.injEq]
  refine ⟨?_, codes_expungeNums_move _ _ rfl rfl ex⟩
  simp only [List.foldl_append, List.foldl_cons, List.foldl_nil]
  rw [codes_foldl_skip _ (ex.map Event.expunge)
    (by intro a b hb; obtain ⟨n, _, rfl⟩ := List.mem_map.mp hb; rfl)]

theorem codes_deliverMove_none (typ : Str) (ex : List Nat) (tag typ' : Str) :
    deliverMove ([Event.cond typ Code.none] ++ ex.map Event.expunge ++ [Event.done tag typ' Code.none]) =
      ({ uidValidity := 0, src := [], dst := [] }, ex) := by
  unfold deliverMove
  rw [Prod.mk.injEq]
  refine ⟨?_, codes_expungeNums_move _ _ rfl rfl ex⟩
  simp only [List.foldl_append, List.foldl_cons, List.foldl_nil]
  rw [codes_foldl_skip _ (ex.map Event.expunge)
    (by intro a b hb; obtain ⟨n, _, rfl⟩ := List.mem_map.mp hb; rfl)]

/-- `* OK [COPYUID v src dst] COPY completed` (move.go, WriteCopyData) is read as the untagged OK carrying the code -/
theorem move_copyuid_line (d : CopyData) (hv : d.uidValidity < 4294967296)
    (hs : NumSet.Canon d.src) (hsne : d.src ≠ []) (hsd : NumSet.dynamic d.src = false)
    (hd : NumSet.Canon d.dst) (hdne : d.dst ≠ []) (hdd : NumSet.dynamic d.dst = false)
    (code : Str) (hc : copyCodeText (some d) = some code) :
    ReadsAs (asc "* OK " ++ code ++ asc "COPY completed\r\n") (Event.cond (asc "OK") (Code.copyUID d.uidValidity d.src d.dst)) := by
  rw [codes_copyCodeText d hsne hdne] at hc
  injection hc with hc
  subst hc
  have e : ∀ (code : Str), asc "* OK " ++ code ++ asc "COPY completed\r\n" = asc "* OK " ++ (code ++ asc "COPY completed") ++ CRLFb := by
    intro code; simp [asc, CRLFb, List.append_assoc]
  rw [e]
  apply codes_cond_of_respText
  intro rest
  exact codes_readRespText_copyCode false d hv hs hsne hsd hd hdne hdd _ rest codes_isText_copyCompleted

/-- `* OK COPY completed` (a backend that supplied no copy data) -/
theorem move_plain_line : ReadsAs (asc "* OK " ++ [] ++ asc "COPY completed\r\n") (Event.cond (asc "OK") Code.none) := by
  have e : asc "* OK " ++ [] ++ asc "COPY completed\r\n" = asc "* OK " ++ asc "COPY completed" ++ CRLFb := by decide
  rw [e]
  apply codes_cond_of_respText
  intro rest
  exact codes_readRespText_plain false _ rest codes_isText_copyCompleted

/-- MOVE: the bytes `printMove` wrote followed by the tagged completion are read as the untagged OK with the
    COPYUID code, one EXPUNGE event per number, and the completion -/
theorem move_lines (d : CopyData) (ex : List Nat) (tag text : Str) (ht : IsTag tag) (hx : IsText text)
    (hv : d.uidValidity < 4294967296)
    (hs : NumSet.Canon d.src) (hsne : d.src ≠ []) (hsd : NumSet.dynamic d.src = false)
    (hd : NumSet.Canon d.dst) (hdne : d.dst ≠ []) (hdd : NumSet.dynamic d.dst = false)
    (hex : ∀ n ∈ ex, n ≠ 0 ∧ n < 4294967296) (bytes : Str) (hp : printMove (some d) ex = some bytes) :
    parseAll (bytes ++ (tag ++ asc " OK " ++ text ++ CRLFb)) =
      some ([Event.cond (asc "OK") (Code.copyUID d.uidValidity d.src d.dst)] ++ ex.map Event.expunge ++
        [Event.done tag (asc "OK") Code.none]) := by
  unfold printMove at hp
  cases hcode : copyCodeText (some d) with
  | none => rw [hcode] at hp; cases hp
  | some code =>
    rw [hcode] at hp
    simp only [Option.map_some, Option.some.injEq] at hp
    subst hp
    exact codes_move_stream _ _ (move_copyuid_line d hv hs hsne hsd hd hdne hdd code hcode) ex hex tag text ht hx

/-- MOVE fidelity: `MoveCommand.Wait` returns the supplied copy data, and the unilateral-data handler sees the
    supplied sequence numbers in order -/
theorem move_some_fidelity (d : CopyData) (ex : List Nat) (tag text : Str) (ht : IsTag tag) (hx : IsText text)
    (hv : d.uidValidity < 4294967296)
    (hs : NumSet.Canon d.src) (hsne : d.src ≠ []) (hsd : NumSet.dynamic d.src = false)
    (hd : NumSet.Canon d.dst) (hdne : d.dst ≠ []) (hdd : NumSet.dynamic d.dst = false)
    (hex : ∀ n ∈ ex, n ≠ 0 ∧ n < 4294967296) (bytes : Str) (hp : printMove (some d) ex = some bytes) :
    (parseAll (bytes ++ (tag ++ asc " OK " ++ text ++ CRLFb))).map deliverMove = some (RespSpec.canonCopy (some d), ex) := by
  rw [move_lines d ex tag text ht hx hv hs hsne hsd hd hdne hdd hex bytes hp]
  simp only [Option.map_some, codes_deliverMove_copy]
  rfl

theorem move_none_lines (ex : List Nat) (tag text : Str) (ht : IsTag tag) (hx : IsText text)
    (hex : ∀ n ∈ ex, n ≠ 0 ∧ n < 4294967296) (bytes : Str) (hp : printMove none ex = some bytes) :
    parseAll (bytes ++ (tag ++ asc " OK " ++ text ++ CRLFb)) =
      some ([Event.cond (asc "OK") Code.none] ++ ex.map Event.expunge ++ [Event.done tag (asc "OK") Code.none]) := by
  have hp' : printMove none ex = some (asc "* OK " ++ [] ++ asc "COPY completed\r\n" ++ printExpunges ex) := rfl
  rw [hp'] at hp
  injection hp with hp
  subst hp
  exact codes_move_stream _ _ move_plain_line ex hex tag text ht hx

theorem move_none_fidelity (ex : List Nat) (tag text : Str) (ht : IsTag tag) (hx : IsText text)
    (hex : ∀ n ∈ ex, n ≠ 0 ∧ n < 4294967296) (bytes : Str) (hp : printMove none ex = some bytes) :
    (parseAll (bytes ++ (tag ++ asc " OK " ++ text ++ CRLFb))).map deliverMove = some (RespSpec.canonCopy none, ex) := by
  rw [move_none_lines ex tag text ht hx hex bytes hp]
  simp only [Option.map_some, codes_deliverMove_none]
  rfl

example : ∃ bytes, printMove (some { uidValidity := 7, src := [⟨1, 3⟩], dst := [⟨10, 12⟩] }) [3, 2, 1] = some bytes ∧
    (parseAll (bytes ++ (asc "A1" ++ asc " OK " ++ asc "done" ++ CRLFb))).map deliverMove =
      some (RespSpec.canonCopy (some { uidValidity := 7, src := [⟨1, 3⟩], dst := [⟨10, 12⟩] }), [3, 2, 1]) :=
  ⟨_, rfl, move_some_fidelity { uidValidity := 7, src := [⟨1, 3⟩], dst := [⟨10, 12⟩] } [3, 2, 1] _ _
    (codes_isTag_of _ (by decide)) (codes_isText_of _ (by decide)) (by decide)
    ((NumSet.canonical_iff _).1 (by decide)) (by decide) (by decide)
    ((NumSet.canonical_iff _).1 (by decide)) (by decide) (by decide) (by decide) _ rfl⟩

example : ∃ bytes, printMove none [5, 4] = some bytes ∧
    (parseAll (bytes ++ (asc "A1" ++ asc " OK " ++ asc "done" ++ CRLFb))).map deliverMove =
      some (RespSpec.canonCopy none, [5, 4]) :=
  ⟨_, rfl, move_none_fidelity [5, 4] _ _ (codes_isTag_of _ (by decide)) (codes_isText_of _ (by decide)) (by decide) _ rfl⟩

end GoImap.Resp
