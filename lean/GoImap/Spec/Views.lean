/-
  Specification side of C08, written from the property text only.

  Per connection a ghost ANNOUNCED VIEW is rebuilt purely from what the connection received: one slot
  per message the server has announced (EXISTS), removed by EXPUNGE, labelled with the UID the first
  FETCH response for that slot carried. The four clauses:

    (1) every sequence number sent (FETCH, EXPUNGE, results of a non-UID SEARCH) lies between 1 and
        the number of slots at that moment;
    (2) no EXPUNGE while answering a FETCH, STORE or SEARCH that is not a UID command;
    (3) the count shrinks only through EXPUNGE (an EXISTS never announces fewer messages); that each
        removed message is reported exactly once shows at the next synchronisation point, where
    (4) after NOOP, the announced view (slots not yet labelled are filled in by a UID FETCH 1:*
        issued right after) is the mailbox's actual UID list, obtained through a fresh connection.

  Nothing here looks at the tracker, the queues or the server's message list.
-/
import GoImap.Model.Views
namespace GoImap.ViewsSpec
open GoImap.Views

/-- announced messages of one connection; `some uid` once a FETCH response named the slot's UID -/
abbrev View := List (Option Nat)

def inRange (v : View) (k : Nat) : Bool := 1 ≤ k && k ≤ v.length

/-- one received event. `quiet`: the command being answered is a non-UID FETCH/STORE/SEARCH;
    `seqResults`: SEARCH results are sequence numbers (the command is not a UID command) -/
def applyEv (quiet seqResults : Bool) (v : View) : Ev → Except String View
  | .exists_ n =>
    if n < v.length then .error "count-shrinks-without-expunge"
    else .ok (v ++ List.replicate (n - v.length) none)
  | .expunge k =>
    if quiet then .error "expunge-while-answering-fetch-store-search"
    else if !inRange v k then .error "expunge-number-out-of-range"
    else .ok (v.eraseIdx (k - 1))
  | .fetch k uid _ =>
    if !inRange v k then .error "fetch-number-out-of-range"
    else match v[k - 1]? with
      | some none => .ok (v.set (k - 1) (some uid))     -- the first label stays
      | _ => .ok v
  | .search ks =>
    if seqResults && !ks.all (inRange v) then .error "search-number-out-of-range" else .ok v
  | .esearch all mn mx _ =>
    if seqResults && !(all.all (inRange v) && (mn = 0 || inRange v mn) && (mx = 0 || inRange v mx))
    then .error "search-number-out-of-range" else .ok v
  | .copyuid _ _ => .ok v
  | .uidnext _ => .ok v

def applyEvs (quiet seqResults : Bool) : View → List Ev → Except String View
  | v, [] => .ok v
  | v, e :: es =>
    match applyEv quiet seqResults v e with
    | .error x => .error x
    | .ok v' => applyEvs quiet seqResults v' es

/-- what kind of command a response answers, as far as the property distinguishes -/
inductive Kind where
  | select        -- a successful one announces a new mailbox; a failed one leaves none selected
  | unselect      -- CLOSE / UNSELECT
  | quiet         -- FETCH / STORE / SEARCH, not UID
  | uidSearch     -- UID SEARCH: results are UIDs
  | other
deriving Repr, DecidableEq

/-- the property's classification of the commands -/
def kindOf : Cmd → Kind
  | .select _ => .select
  | .close | .unselect => .unselect
  | .store false .. | .fetch false .. | .search false .. => .quiet
  | .search true .. => .uidSearch
  | _ => .other

/-- the view of the connection after the response to one command -/
def afterResp (k : Kind) (okStatus : Bool) (v : View) (evs : List Ev) : Except String View :=
  match k with
  | .select =>
    match applyEvs false true [] evs with
    | .error x => .error x
    | .ok v' => .ok (if okStatus then v' else [])
  | .unselect =>
    match applyEvs false true v evs with
    | .error x => .error x
    | .ok v' => .ok (if okStatus then [] else v')
  | .quiet => applyEvs true true v evs
  | .uidSearch => applyEvs false false v evs
  | .other => applyEvs false true v evs

/-- the view of the connection after one command of a history. A command the harness did not send
    (status `skip`: the connection sits in IDLE and the command is not DONE, or DONE without IDLE)
    changes nothing; a connection that crashed is a failure in itself -/
def stepView (k : Kind) (r : Resp) (v : View) : Except String View :=
  match r.status with
  | .skip => .ok v
  | .crash => .error "connection-crashed"
  | .ok => afterResp k true v r.evs
  | _ => afterResp k false v r.evs

/-- clause (4) at a synchronisation point: every slot is labelled and the labels are the actual
    UID list -/
def synced (v : View) (actual : List Nat) : Bool := v == actual.map some

/-- which way a view differs from the actual list (for the replay's message only) -/
def syncDiff (v : View) (actual : List Nat) : String :=
  if v.any (·.isNone) then "announced-message-has-no-uid"
  else if v.any (fun s => match s with | some u => !actual.contains u | none => false) then
    "removed-message-still-in-view"
  else if actual.any (fun u => !v.contains (some u)) then "message-missing-from-view"
  else "view-order-or-multiplicity-differs"

end GoImap.ViewsSpec
